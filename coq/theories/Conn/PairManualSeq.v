(* C01, model side: ANY NUMBER of QoS 1 / QoS 2 exchanges in sequence with MANUAL RESPONSES on both endpoints (v3.1.1,
   intact link, identifiers registered, released and reused).  The run is an executable function in which the two
   applications react to what they are notified of — PUBACK / PUBREC for a PUBLISH, PUBREL for a PUBREC, PUBCOMP for a
   PUBREL — through the ordinary send call; it answers Fail when a call panics, reports an error, requests a packet by
   itself or does not notify exactly what it should.  The theorem is by induction over the list of messages. *)
From MQ Require Import Base.Prelude Alloc.Alloc Alloc.SetSpec Alloc.AllocProofs Framing.Framing
                       Conn.Types Conn.TopicAlias Conn.ConnRecord Conn.Step Conn.Run Corr.ConnTrace Conn.Scope Conn.IdsQuota Conn.WfInv
                       Conn.Own Conn.OwnFrame Conn.OwnStep Conn.Qos2Dup Conn.TasBounds Conn.NoPanic Conn.PairQos Conn.PairSeq Conn.PairManual.

Section ManualSeq.
Variables gs gr : cfg.

(* the application sends one packet: exactly that packet is requested, nothing is notified, no error *)
Definition app_send (g : cfg) (c : conn) (a : pkt) : option (conn * pkt) :=
  match step g c (OSend a) with
  | Ok (c', e, _) => match one (sends e) with
                     | Some x => if none (notifies e) && none (errors e) then Some (c', x) else None
                     | None => None
                     end
  | Panic _ => None
  end.
(* a packet arrives: the application is notified of exactly one packet, the library requests nothing, no error *)
Definition quiet_recv (g : cfg) (c : conn) (x : pkt) : option (conn * pkt) :=
  match deliver g c x with
  | Ok (c', e) => if none (sends e) && none (errors e) then match one (notifies e) with Some n => Some (c', n) | None => None end else None
  | Panic _ => None
  end.

Definition exchange_m (cs cr : conn) (p : pkt) : outcome :=
  let id := k_pid p in
  if negb ((1 <=? id) && (id <=? g_idmax gs) && negb (is_used cs id) && freshb cs id && negb (mem id (c_qos2 cr))) then AppPre else
  match step gs cs (ORegister id) with
  | Ok (cs0, [], [1]) =>
    match app_send gs cs0 p with
    | Some (cs1, p1) =>
      match quiet_recv gr cr p1 with
      | Some (cr1, n1) =>
        if k_qos p =? 1 then
          match app_send gr cr1 (puback_for gr n1) with
          | Some (cr2, a1) => final gs cs1 cr2 a1 id n1
          | None => Fail
          end
        else
          match app_send gr cr1 (pubrec_for gr n1) with
          | Some (cr2, a1) =>
            match quiet_recv gs cs1 a1 with
            | Some (cs2, n2) =>
              match app_send gs cs2 (pubrel_for gs n2) with
              | Some (cs3, r1) =>
                match quiet_recv gr cr2 r1 with
                | Some (cr3, n3) =>
                  if k_type n3 =? T_PUBLISH then Fail else
                  match app_send gr cr3 (pubcomp_for gr n3) with
                  | Some (cr4, c1) => final gs cs3 cr4 c1 id n1
                  | None => Fail
                  end
                | None => Fail
                end
              | None => Fail
              end
            | None => Fail
            end
          | None => Fail
          end
      | None => Fail
      end
    | None => Fail
    end
  | _ => Fail
  end.

Fixpoint run_seq_m (cs cr : conn) (ps : list pkt) : outcome :=
  match ps with
  | [] => Done cs cr []
  | p :: t =>
    match exchange_m cs cr p with
    | Done cs' cr' d => match run_seq_m cs' cr' t with Done cs'' cr'' d' => Done cs'' cr'' (d ++ d') | o => o end
    | o => o
    end
  end.

Definition pair_inv_m (cs cr : conn) : Prop :=
  OWN gs cs /\ ready cs /\ c_auto_pub cs = false /\ ready cr /\ c_auto_pub cr = false /\ asc 1 (g_idmax gs) (c_qos2 cr).

Lemma final_ok_m cs cr a (r : N) n : OWN gs cs -> ready cs -> c_auto_pub cs = false -> k_ver a = V311 -> k_type a = r -> (r = T_PUBACK \/ r = T_PUBCOMP) ->
  mem (k_pid a) (if r =? T_PUBACK then c_puback cs else c_pubcomp cs) = true -> is_used cs (k_pid a) = true ->
  exists cs', final gs cs cr a (k_pid a) n = Done cs' cr [n] /\ OWN gs cs' /\ ready cs' /\ c_auto_pub cs' = false.
Proof.
  intros HO Rs Ha Hv Ht Hr Hm Hu. pose proof (sender_final_ack_x gs cs a r HO Rs Hv Ht Hr Hm Hu) as H. unfold final.
  destruct (deliver gs cs a) as [[cs' e]|]; [|destruct H]. destruct H as (H1 & H2 & H3 & O' & R' & A' & _).
  rewrite H1, H2, H3, N.eqb_refl. cbn. exists cs'. split; [reflexivity|]. split; [exact O'|]. split; [exact R'|congruence].
Qed.

Lemma app_ack g c t id : ready c -> t = T_PUBACK \/ t = T_PUBREC \/ t = T_PUBCOMP ->
  exists c1, app_send g c (ack_pkt g t V311 id None) = Some (c1, ack_pkt g t V311 id None) /\ keeps c1 c /\ c_qos2 c1 = c_qos2 c.
Proof.
  intros R Ht. destruct (manual_ack g c t id R Ht) as (c1 & e & E & S & N & X & K & Q). exists c1. unfold app_send. rewrite E, S, N, X. cbn.
  split; [reflexivity|]. split; assumption.
Qed.

Theorem exchange_m_ok cs cr p q : pair_inv_m cs cr -> v311_pub p q -> q = 1 \/ q = 2 ->
  match exchange_m cs cr p with
  | Done cs' cr' d => d = [p] /\ pair_inv_m cs' cr'
  | AppPre => True
  | Fail => False
  end.
Proof.
  intros (HO & Rs & Has & Rr & Har & Hasc) Hp Hq. unfold exchange_m. cbv zeta.
  destruct (negb _) eqn:Epre; [exact I|]. apply negb_false_iff in Epre.
  apply andb_true_iff in Epre as [Epre E5]. apply andb_true_iff in Epre as [Epre E4]. apply andb_true_iff in Epre as [Epre E3].
  apply andb_true_iff in Epre as [E1 E2]. apply N.leb_le in E1, E2. apply negb_true_iff in E3, E5. apply freshb_spec in E4.
  destruct (register_x gs cs (k_pid p) HO (conj E1 E2) E3 E4) as (cs0 & Ereg & O0 & U0 & F0 & St0 & V0 & A0). rewrite Ereg.
  assert (R0 : ready cs0) by (destruct Rs as [R1 R2]; split; [congruence|now rewrite St0]).
  unfold app_send at 1. rewrite (step_send_publish_v311 gs cs0 p q (proj1 R0) Hp).
  pose proof (sender_sends_x gs cs0 p q O0 R0 Hp ltac:(lia) F0 U0) as H1.
  destruct (send_publish_v311 cs0 p) as [[cs1 e1]|]; cbn [bindr]; [|destruct H1].
  destruct H1 as (S1 & N1 & X1 & O1 & R1 & U1 & A1 & M1). rewrite S1, N1, X1. cbn [one none andb].
  rewrite A0, Has in A1. destruct Hp as (Ht & Hv & Hqq).
  destruct Hq as [-> | ->].
  - (* QoS 1 *)
    pose proof (receiver_q1_m gr cr p Rr Har (conj Ht (conj Hv Hqq))) as H2. unfold quiet_recv.
    destruct (deliver gr cr p) as [[cr1 e2]|]; [|destruct H2]. destruct H2 as (N2 & S2 & X2 & K2 & Q2).
    rewrite S2, N2, X2. cbn [one none andb]. rewrite Hqq. change (1 =? 1) with true. cbv iota.
    change (1 =? 2) with false in M1. cbv iota in M1.
    pose proof (ready_keeps _ _ K2 Rr) as Rr1.
    destruct (app_ack gr cr1 T_PUBACK (k_pid p) Rr1 (or_introl eq_refl)) as (cr2 & Ea & K3 & Q3).
    unfold puback_for. rewrite Ea.
    destruct (final_ok_m cs1 cr2 (ack_pkt gr T_PUBACK V311 (k_pid p) None) T_PUBACK p O1 R1 A1 eq_refl eq_refl (or_introl eq_refl) M1 U1)
      as (cs2 & Ef & O2 & R2 & A2).
    change (k_pid (ack_pkt gr T_PUBACK V311 (k_pid p) None)) with (k_pid p) in Ef. rewrite Ef.
    split; [reflexivity|]. split; [exact O2|]. split; [exact R2|]. split; [exact A2|]. split; [exact (ready_keeps _ _ K3 Rr1)|].
    split; [destruct K3 as (_ & _ & B3), K2 as (_ & _ & B2); congruence|]. rewrite Q3, Q2. exact Hasc.
  - (* QoS 2 *)
    pose proof (receiver_q2_m gr cr p Rr Har (conj Ht (conj Hv Hqq)) E5) as H2. unfold quiet_recv at 1.
    destruct (deliver gr cr p) as [[cr1 e2]|]; [|destruct H2]. destruct H2 as (N2 & S2 & X2 & K2 & Q2).
    rewrite S2, N2, X2. cbn [one none andb]. rewrite Hqq. change (2 =? 1) with false. cbv iota.
    change (2 =? 2) with true in M1. cbv iota in M1.
    pose proof (ready_keeps _ _ K2 Rr) as Rr1.
    destruct (app_ack gr cr1 T_PUBREC (k_pid p) Rr1 (or_intror (or_introl eq_refl))) as (cr2 & Ea & K3 & Q3).
    unfold pubrec_for. rewrite Ea.
    pose proof (ready_keeps _ _ K3 Rr1) as Rr2.
    assert (Ar2 : c_auto_pub cr2 = false) by (destruct K3 as (_ & _ & B3), K2 as (_ & _ & B2); congruence).
    pose proof (sender_pubrec_m gs cs1 (ack_pkt gr T_PUBREC V311 (k_pid p) None) O1 R1 A1 eq_refl eq_refl) as H4.
    change (k_pid (ack_pkt gr T_PUBREC V311 (k_pid p) None)) with (k_pid p) in H4. specialize (H4 M1 U1). unfold quiet_recv at 1.
    destruct (deliver gs cs1 _) as [[cs2 e4]|]; [|destruct H4]. destruct H4 as (N4 & S4 & X4 & L4 & O2 & R2 & A2 & U2 & F2).
    rewrite S4, X4, N4. cbn [one none andb].
    destruct (sender_pubrel_m gs cs2 (k_pid p) O2 R2 U2 F2) as (cs3 & e5 & E5' & S5 & N5 & X5 & L5 & O3 & R3 & A3 & U3 & M3).
    unfold app_send at 1. unfold pubrel_for. change (k_pid (ack_pkt gr T_PUBREC V311 (k_pid p) None)) with (k_pid p).
    rewrite E5', S5, N5, X5. cbn [one none andb].
    pose proof (receiver_pubrel_m gr cr2 (ack_pkt gs T_PUBREL V311 (k_pid p) None) Rr2 Ar2 eq_refl) as H6. unfold quiet_recv.
    destruct (deliver gr cr2 _) as [[cr3 e6]|]; [|destruct H6]. destruct H6 as (N6 & S6 & X6 & K6 & Q6).
    change (k_pid (ack_pkt gs T_PUBREL V311 (k_pid p) None)) with (k_pid p) in Q6.
    rewrite S6, X6, N6. cbn [one none andb]. change (k_type (ack_pkt gs T_PUBREL V311 (k_pid p) None) =? T_PUBLISH) with false. cbv iota.
    pose proof (ready_keeps _ _ K6 Rr2) as Rr3.
    destruct (app_ack gr cr3 T_PUBCOMP (k_pid p) Rr3 (or_intror (or_intror eq_refl))) as (cr4 & Ec & K7 & Q7).
    unfold pubcomp_for. change (k_pid (ack_pkt gs T_PUBREL V311 (k_pid p) None)) with (k_pid p). rewrite Ec.
    rewrite A2 in A3.
    destruct (final_ok_m cs3 cr4 (ack_pkt gr T_PUBCOMP V311 (k_pid p) None) T_PUBCOMP p O3 R3 A3 eq_refl eq_refl (or_intror eq_refl) M3 U3)
      as (cs4 & Ef & O4 & R4 & A4).
    change (k_pid (ack_pkt gr T_PUBCOMP V311 (k_pid p) None)) with (k_pid p) in Ef. rewrite Ef.
    split; [reflexivity|]. split; [exact O4|]. split; [exact R4|]. split; [exact A4|]. split; [exact (ready_keeps _ _ K7 Rr3)|].
    split; [destruct K7 as (_ & _ & B7), K6 as (_ & _ & B6); congruence|]. rewrite Q7, Q6, Q3, Q2.
    unfold del, ins. apply asc_remove. apply asc_insert; assumption.
Qed.

(* any number of messages in sequence with manual responses: delivered exactly once each, in order *)
Theorem run_seq_m_ok : forall ps cs cr, pair_inv_m cs cr -> Forall (fun p => v311_pub p 1 \/ v311_pub p 2) ps ->
  match run_seq_m cs cr ps with
  | Done cs' cr' d => d = ps /\ pair_inv_m cs' cr'
  | AppPre => True
  | Fail => False
  end.
Proof.
  induction ps as [|p t IH]; intros cs cr Hi Hf; cbn [run_seq_m]; [split; [reflexivity|exact Hi]|].
  pose proof (Forall_inv Hf) as Hp. pose proof (Forall_inv_tail Hf) as Ht.
  assert (He : match exchange_m cs cr p with Done cs' cr' d => d = [p] /\ pair_inv_m cs' cr' | AppPre => True | Fail => False end).
  { destruct Hp as [Hp|Hp]; [apply (exchange_m_ok cs cr p 1 Hi Hp); now left|apply (exchange_m_ok cs cr p 2 Hi Hp); now right]. }
  destruct (exchange_m cs cr p) as [cs' cr' d| |]; [|exact I|exact He]. destruct He as [-> Hi'].
  specialize (IH cs' cr' Hi' Ht). destruct (run_seq_m cs' cr' t) as [cs'' cr'' d'| |]; [|exact I|exact IH].
  destruct IH as [-> Hi'']. split; [reflexivity|exact Hi''].
Qed.
End ManualSeq.
