(* C01 / C08, model side: the identifier statement of PairLossIds.v for the other direction — the SERVER publishes to the
   client across transport losses (the system of PairLossS.v).  The per-action lemmas for publications and deliveries are
   those of PairLossIds (they do not depend on the roles); only the loss action differs: the server's side of the
   resumption is notify_closed, the CONNECT it receives and the CONNACK it sends (with the retransmissions), each of which
   only ever turns identifiers free. *)
From Coq Require Import Permutation.
From MQ Require Import Base.Prelude Alloc.Alloc Alloc.SetSpec Alloc.AllocProofs Framing.Framing
                       Conn.Types Conn.TopicAlias Conn.ConnRecord Conn.Step Conn.Run Corr.ConnTrace Conn.Scope Conn.IdsQuota Conn.WfInv
                       Conn.Own Conn.OwnFrame Conn.OwnStep Conn.Account Conn.SupStep Conn.SessInv Conn.StoreInv Conn.Qos2Dup Conn.TasBounds Conn.NoPanic
                       Conn.PairQos Conn.PairSeq Conn.PairConc Conn.PairLoss Conn.PairLossAcc Conn.PairLossS Conn.PairLossIds.

Section LossSIds.
Variables gs gr : cfg.
Hypothesis gs_server : role_server_ok gs = true.
Hypothesis gr_client : role_client_ok gr = true.
Hypothesis idw_small : 2 + g_idw gs <= MQTT_PACKET_SIZE_NO_LIMIT.

Lemma loseS_mono s : OWN gs (cs s) ->
  match do_loseS gs gr s with Next s' => forall y, is_used (cs s') y = true -> is_used (cs s) y = true | _ => True end.
Proof.
  intro HO. unfold do_loseS.
  pose proof (do_closed_ACC true gs (cs s)) as A1. pose proof (do_closed_OR gs (cs s) HO) as O1.
  destruct (do_closed (cs s)) as [[c1 e1]|]; [|exact I]. destruct (do_closed (cr s)) as [[r1 f1]|]; [|exact I].
  destruct O1 as [O1 V1]. cbn [ACC] in A1.
  destruct (do_send gr r1 connect_pkt) as [[r2 e2]|]; [|exact I]. destruct (one (sends e2)) as [cn|]; [|exact I].
  destruct (negb (none (errors e2))); [exact I|].
  pose proof (dispatch_recv_ACC true gs c1 (c_version c1) (k_type cn) (PROk cn) O1 eq_refl (fun _ => eq_refl)) as A2.
  pose proof (dispatch_recv_OR gs c1 (k_type cn) (PROk cn) O1) as O2.
  unfold deliver at 1. destruct (dispatch_recv gs c1 (c_version c1) (k_type cn) (PROk cn)) as [[c2 e5]|]; [|exact I].
  destruct O2 as [O2 _]. cbn [ACC] in A2. destruct (negb _); [exact I|].
  pose proof (do_send_ACC true gs c2 connack_pkt O2 (fun _ => eq_refl)) as A3.
  destruct (do_send gs c2 connack_pkt) as [[c3 e6]|]; [|exact I]. cbn [ACC] in A3.
  destruct (sends e6) as [|ca resent]; [exact I|]. destruct (negb (none (errors e6))); [exact I|].
  destruct (deliver gr r2 ca) as [[r3 e3]|]; [|exact I]. destruct (negb _); [exact I|]. cbn [cs].
  intros y Hy.
  pose proof (acc_mono' _ gs _ _ _ A3 (o_wf _ _ _ _ _ _ _ _ _ O2) y Hy) as Hy2.
  pose proof (acc_mono' _ gs _ _ _ A2 (o_wf _ _ _ _ _ _ _ _ _ O1) y Hy2) as Hy1.
  exact (acc_mono' _ gs _ _ _ A1 (o_wf _ _ _ _ _ _ _ _ _ HO) y Hy1).
Qed.

Lemma loseS_V s : invL gs gr s -> V s -> match do_loseS gs gr s with Next s' => V s' | _ => True end.
Proof.
  intros Hi HV. pose proof (loseS_both gs gr gs_server gr_client s Hi) as Hsh.
  pose proof Hi as ((HO & _) & _). pose proof (loseS_mono s HO) as Hm.
  destruct (do_loseS gs gr s) as [s'| |]; [|exact I|exact I].
  destruct Hsh as (_ & _ & _ & _ & _ & Est & _). intros y Hy. rewrite Est. exact (HV y (Hm y Hy)).
Qed.

Lemma actS_V s a : invL gs gr s -> good_actS a -> V s -> match do_actS gs gr s a with Next s' => V s' | _ => True end.
Proof.
  intros Hi Hg HV. destruct a as [p| | |]; cbn [do_actS good_actS] in *.
  - destruct Hg as [[Hg|Hg] _]; [apply (pub_V gs gr idw_small s p 1 Hi Hg); [now left|exact HV]|apply (pub_V gs gr idw_small s p 2 Hi Hg); [now right|exact HV]].
  - exact (toR_V gs gr s Hi HV).
  - exact (toS_V gs gr idw_small s Hi HV).
  - exact (loseS_V s Hi HV).
Qed.

Theorem schedS_V : forall l s, allS gs gr s -> V s -> Forall good_actS l ->
  match run_schedS gs gr s l with Some s' => V s' | None => True end.
Proof.
  induction l as [|a t IH]; intros s Hi HV Hf; cbn [run_schedS]; [exact HV|].
  pose proof (Forall_inv Hf) as Ha. pose proof (Forall_inv_tail Hf) as Ht.
  pose proof (actS_ok gs gr gs_server gr_client idw_small s a Hi Ha) as Hok. pose proof (actS_V s a (proj1 Hi) Ha HV) as HV'.
  destruct (do_actS gs gr s a) as [s'| |]; [exact (IH s' Hok HV' Ht)|exact (IH s Hi HV Ht)|exact I].
Qed.

(* the server publishing across losses: at quiescence its store is empty and no identifier is in use *)
Theorem server_publishes_all_identifiers_released l s : allS gs gr s -> V s -> Forall good_actS l ->
  exists s1 s2, run_schedS gs gr s l = Some s1 /\ run_schedS gs gr s1 (drainS (measure s1)) = Some s2 /\
                qsr s2 = [] /\ qrs s2 = [] /\ c_store (cs s2) = [] /\ forall y, is_used (cs s2) y = false.
Proof.
  intros Hi HV Hf.
  destruct (server_to_client_across_loss gs gr gs_server gr_client idw_small l s Hi Hf) as (s1 & s2 & R1 & R2 & Q1 & Q2 & St & _).
  exists s1, s2. split; [exact R1|]. split; [exact R2|]. split; [exact Q1|]. split; [exact Q2|]. split; [exact St|].
  pose proof (schedS_V l s Hi HV Hf) as V1. rewrite R1 in V1.
  destruct (schedS_ok gs gr gs_server gr_client idw_small l s Hi Hf) as (s1' & R1' & I1). assert (s1' = s1) by congruence. subst s1'.
  pose proof (schedS_V (drainS (measure s1)) s1 I1 V1 (drainS_good _)) as V2. rewrite R2 in V2.
  intro y. destruct (is_used (cs s2) y) eqn:E; [|reflexivity]. exfalso. specialize (V2 y E). rewrite St in V2. discriminate V2.
Qed.
End LossSIds.
