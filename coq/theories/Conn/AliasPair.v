(* C13 / C01, pair level: THE LIBRARY'S RECEIVER IMPLEMENTS THE GHOST RECEIVER of the send-side theorems.
   Conn/AliasInv.v and AliasHist.v prove, for every history of a sender, that each PUBLISH it requests is resolvable by a
   ghost receiver table G (newest binding first) to the topic the application asked for.  Here: the receive-side table of a
   library endpoint, fed the same packets in the same order, answers exactly like G ([tracks]); so between two library
   endpoints on an in-order link every aliased PUBLISH is delivered with the topic the sending application asked for. *)
From MQ Require Import Base.Prelude Alloc.Alloc Conn.Types Conn.TopicAlias Conn.ConnRecord Conn.Step Corr.ConnTrace Conn.Run
                       Conn.Session Conn.AliasTable Conn.AliasInv.

Definition tracks (r : tar) (G : list (N * topic)) : Prop :=
  forall a, 1 <= a <= tr_max r -> assoc_get a (tr_map r) = assoc_get a G.

Lemma assoc_get_tar_put a t l b : assoc_get b (tar_put a t l) = if a =? b then Some t else assoc_get b l.
Proof.
  induction l as [|[a' t'] l IH]; cbn [tar_put assoc_get]; [reflexivity|].
  destruct (a <? a') eqn:E1; [cbn [assoc_get]; reflexivity|].
  destruct (a' <? a) eqn:E2; cbn [assoc_get].
  - rewrite IH. destruct (a' =? b) eqn:E3; [|reflexivity]. apply N.eqb_eq in E3. subst b. apply N.ltb_lt in E2.
    destruct (a =? a') eqn:E4; [apply N.eqb_eq in E4; lia|reflexivity].
  - apply N.ltb_ge in E1, E2. assert (a' = a) by lia. subst a'. destruct (a =? b); reflexivity.
Qed.

Lemma topic_of_extracted g p t : k_topic (add_extracted_topic_name g p t) = t.
Proof. reflexivity. Qed.

(* one PUBLISH: whatever the ghost resolves it to, the library's receiver delivers it with that topic, and its table
   tracks the ghost's table after the packet *)
Theorem receiver_implements_ghost g c r G q t :
  c_ta_recv c = Some r -> tracks r G ->
  (match k_alias q with Some a => 1 <= a <= tr_max r | None => True end) ->
  rx_topic (rx_step G q) q = Some t ->
  exists c' q' r', resolve_recv_alias g c q = Ok (c', q', false, []) /\ k_topic q' = t /\
                   c_ta_recv c' = Some r' /\ tr_max r' = tr_max r /\ tracks r' (rx_step G q).
Proof.
  intros Hr Ht Hrg Hres. unfold resolve_recv_alias, rx_topic, rx_step, topic_empty in *.
  destruct (k_topic q) as [|x tl] eqn:Etop.
  - (* empty topic: the alias must be known *)
    destruct (k_alias q) as [a|] eqn:Eal; [|discriminate Hres].
    assert (Hoor : alias_out_of_range c a = false).
    { unfold alias_out_of_range. rewrite Hr. apply orb_false_iff. split; [apply N.eqb_neq; lia|apply N.ltb_ge; lia]. }
    rewrite Hoor, Hr. unfold tar_get.
    assert (Hin : (1 <=? a) && (a <=? tr_max r) = true) by (apply andb_true_iff; split; apply N.leb_le; lia).
    rewrite Hin, (Ht a Hrg), Hres. exists c, (add_extracted_topic_name g q t), r.
    split; [reflexivity|]. split; [apply topic_of_extracted|]. split; [exact Hr|]. split; [reflexivity|exact Ht].
  - (* a topic is given *)
    injection Hres as <-.
    destruct (k_alias q) as [a|] eqn:Eal.
    + assert (Hoor : alias_out_of_range c a = false).
      { unfold alias_out_of_range. rewrite Hr. apply orb_false_iff. split; [apply N.eqb_neq; lia|apply N.ltb_ge; lia]. }
      rewrite Hoor, Hr. unfold tar_insert. cbn [orb].
      assert (E1 : (a <? 1) = false) by (apply N.ltb_ge; lia). assert (E2 : (tr_max r <? a) = false) by (apply N.ltb_ge; lia).
      rewrite E1, E2. cbn [orb bindr].
      exists (set_ta_recv c (Some (mkTar (tr_max r) (tar_put a (x :: tl) (tr_map r))))), q, (mkTar (tr_max r) (tar_put a (x :: tl) (tr_map r))).
      split; [reflexivity|]. split; [exact Etop|]. split; [reflexivity|]. split; [reflexivity|].
      intros b Hb. cbn [tr_map tr_max] in *. rewrite assoc_get_tar_put. cbn [assoc_get]. destruct (a =? b); [reflexivity|exact (Ht b Hb)].
    + exists c, q, r. split; [reflexivity|]. split; [exact Etop|]. split; [exact Hr|]. split; [reflexivity|exact Ht].
Qed.

(* a whole stream of PUBLISH packets in order: the topics delivered are the topics the ghost resolves, one by one *)
Fixpoint recv_topics (g : cfg) (c : conn) (qs : list pkt) : option (conn * list topic) :=
  match qs with
  | [] => Some (c, [])
  | q :: tl => match resolve_recv_alias g c q with
               | Ok (c', q', false, []) => match recv_topics g c' tl with Some (c'', ts) => Some (c'', k_topic q' :: ts) | None => None end
               | _ => None
               end
  end.
Fixpoint ghost_topics (G : list (N * topic)) (qs : list pkt) : option (list topic) :=
  match qs with
  | [] => Some []
  | q :: tl => match rx_topic (rx_step G q) q, ghost_topics (rx_step G q) tl with
               | Some t, Some ts => Some (t :: ts)
               | _, _ => None
               end
  end.
Definition aliases_in_range (mx : N) (qs : list pkt) : Prop :=
  Forall (fun q => match k_alias q with Some a => 1 <= a <= mx | None => True end) qs.

Theorem receiver_implements_ghost_stream g : forall qs c r G ts,
  c_ta_recv c = Some r -> tracks r G -> aliases_in_range (tr_max r) qs -> ghost_topics G qs = Some ts ->
  exists c', recv_topics g c qs = Some (c', ts).
Proof.
  induction qs as [|q tl IH]; intros c r G ts Hr Ht Hrg Hg; cbn [recv_topics ghost_topics] in *.
  - injection Hg as <-. exists c. reflexivity.
  - destruct (rx_topic (rx_step G q) q) as [t|] eqn:Et; [|discriminate Hg].
    destruct (ghost_topics (rx_step G q) tl) as [ts'|] eqn:Eg; [|discriminate Hg]. injection Hg as <-.
    destruct (receiver_implements_ghost g c r G q t Hr Ht (Forall_inv Hrg) Et) as (c' & q' & r' & E & Hq & Hr' & Hm & Ht').
    rewrite E. rewrite <- Hm in Hrg.
    destruct (IH c' r' (rx_step G q) ts' Hr' Ht' (Forall_inv_tail Hrg) Eg) as (c'' & E'). rewrite E', Hq. exists c''. reflexivity.
Qed.

(* the start: a fresh receive table tracks the empty ghost *)
Lemma tracks_new mx : tracks (tar_new mx) [].
Proof. intros a _. reflexivity. Qed.

(* SENDER AND RECEIVER TOGETHER, one PUBLISH: whatever the sending application hands to send() — topic given, alias chosen by
   the application, by automatic mapping (with least-recently-used eviction) or by automatic replacement, stored or not —
   if a packet is requested, the library's receiver delivers it with the topic the application asked for (its own topic,
   or the topic its alias was bound to), and both tables again stand in the same relation to the ghost *)
Definition intended (G : list (N * topic)) (p : pkt) (t : topic) : Prop :=
  match k_topic p with
  | (_ :: _) as u => t = u
  | [] => exists x, k_alias p = Some x /\ assoc_get x G = Some t
  end.

Theorem alias_pair_step gs gr cs cr r G p :
  agree cs G -> c_ta_recv cr = Some r -> tracks r G ->
  match send_publish_v5 gs cs p with
  | Ok (cs', e) =>
      (forall s, c_ta_send cs' = Some s -> ts_max s <= tr_max r) ->      (* the sender's limit is what the receiver announced *)
      match sends e with
      | [] => agree cs' G
      | [q] => exists cr' q' r', resolve_recv_alias gr cr q = Ok (cr', q', false, []) /\ intended G p (k_topic q') /\
                                 agree cs' (rx_step G q) /\ c_ta_recv cr' = Some r' /\ tr_max r' = tr_max r /\ tracks r' (rx_step G q)
      | _ => False
      end
  | Panic _ => True
  end.
Proof.
  intros Ha Hr Ht. pose proof (send_publish_v5_resolvable gs cs p G Ha) as H. unfold send_spec in H.
  destruct (send_publish_v5 gs cs p) as [[cs' e]|]; [|exact I]. intro Hmax.
  destruct (sends e) as [|q [|q2 l]]; [exact H| |exact H]. destruct H as (Ha' & Hres & Hin).
  assert (Hrg : match k_alias q with Some a => 1 <= a <= tr_max r | None => True end).
  { unfold in_range in Hin. destruct (k_alias q) as [a|]; [|exact I]. destruct Hin as (s & Es & Hs). specialize (Hmax s Es). lia. }
  assert (Hex : exists t, rx_topic (rx_step G q) q = Some t /\ intended G p t).
  { unfold resolved in Hres. unfold intended. destruct (k_topic p) as [|x tl].
    - destruct Hres as (y & t & E1 & E2 & E3). exists t. split; [exact E3|]. exists y. split; assumption.
    - exists (x :: tl). split; [exact Hres|reflexivity]. }
  destruct Hex as (t & Et & Hi).
  destruct (receiver_implements_ghost gr cr r G q t Hr Ht Hrg Et) as (cr' & q' & r' & E & Hq & Hr' & Hm & Ht').
  exists cr', q', r'. split; [exact E|]. split; [rewrite Hq; exact Hi|]. split; [exact Ha'|]. split; [exact Hr'|]. split; [exact Hm|exact Ht'].
Qed.

(* the whole receive path for a QoS 0 PUBLISH (dispatch, flow-control bookkeeping, alias resolution, keep-alive refresh):
   the application is notified of exactly one packet, carrying the topic the ghost resolves, with no error *)
From MQ Require Import Conn.Qos2Dup Conn.PairQos Conn.PairSeq.
Theorem deliver_qos0_with_alias g c r G q t :
  c_version c = V50 -> c_ta_recv c = Some r -> tracks r G ->
  (match k_alias q with Some a => 1 <= a <= tr_max r | None => True end) ->
  k_type q = T_PUBLISH -> k_qos q = 0 -> rx_topic (rx_step G q) q = Some t ->
  exists c' e q' r', deliver g c q = Ok (c', e) /\ notifies e = [q'] /\ errors e = [] /\ sends e = [] /\ k_topic q' = t /\
                     c_ta_recv c' = Some r' /\ tr_max r' = tr_max r /\ tracks r' (rx_step G q).
Proof.
  intros Rv Hr Ht Hrg Hty Hq Hres.
  destruct (receiver_implements_ghost g c r G q t Hr Ht Hrg Hres) as (c1 & q' & r' & E & Hq' & Hr' & Hm & Ht').
  unfold deliver, dispatch_recv. rewrite Hty, Rv.
  change (T_PUBLISH =? 1) with false. change (T_PUBLISH =? 2) with false. change (T_PUBLISH =? 3) with true. cbn [version_eqb]. cbv iota.
  unfold recv_publish_v5. cbv zeta. rewrite Hq. change (0 =? 0) with true. change (0 =? 1) with false. change (0 =? 2) with false. cbn [negb andb].
  unfold note_inbound. rewrite Hq. change (negb (0 =? 0)) with false. cbv iota. rewrite E. cbn [bindr].
  unfold note_handled. rewrite Hq. change (0 =? 2) with false. cbv iota. cbn [bindr].
  pose proof (refresh_quiet c1) as Q. cbv zeta in Q.
  assert (Hta : c_ta_recv (fst (refresh_pingreq_recv c1)) = c_ta_recv c1) by (unfold refresh_pingreq_recv; destruct (negb _); reflexivity).
  destruct (refresh_pingreq_recv c1) as [c2 e3]. cbn [fst snd] in *. destruct Q as (Q1 & Q2 & Q3 & _).
  exists c2, ([] ++ [] ++ e3 ++ [ENotify q']), q', r'. split; [reflexivity|]. ev_simpl. rewrite Q1, Q2, Q3. cbn.
  split; [reflexivity|]. split; [reflexivity|]. split; [reflexivity|]. split; [exact Hq'|]. split; [congruence|]. split; [exact Hm|exact Ht'].
Qed.

(* the whole receive path of a QoS 1 / QoS 2 PUBLISH with automatic responses: the application is notified of exactly one
   packet carrying the topic the ghost resolves, and the acknowledgement is requested *)
From MQ Require Import Conn.PairQos5 Conn.PairSeq5.
Lemma tracks_kf_recv c1 c : c_ta_recv c1 = c_ta_recv c -> forall r, c_ta_recv c = Some r -> c_ta_recv c1 = Some r.
Proof. intros -> r H. exact H. Qed.

Lemma post_keeps_tar c : c_ta_recv (fst (send_post_process c)) = c_ta_recv c.
Proof. unfold send_post_process. destruct (c_is_client c); [destruct (0 <? _)|]; reflexivity. Qed.
Lemma refresh_keeps_tar c : c_ta_recv (fst (refresh_pingreq_recv c)) = c_ta_recv c.
Proof. unfold refresh_pingreq_recv. destruct (negb _); reflexivity. Qed.

Lemma ack_keeps_tar g c t id : match send_puback_like c (ack_pkt g t V50 id None) with Ok (c1, _) => c_ta_recv c1 = c_ta_recv c | Panic _ => True end.
Proof.
  unfold send_puback_like. destruct (_ && _); [reflexivity|]. destruct (negb _); [reflexivity|].
  match goal with |- context [send_and_post ?x _ _ _] => set (cx := x) end.
  assert (Hx : c_ta_recv cx = c_ta_recv c) by (unfold cx; destruct (version_eqb _ _); [destruct (_ || _); [reflexivity|destruct (_ && _); reflexivity]|reflexivity]).
  clearbody cx. unfold send_and_post. pose proof (post_keeps_tar cx) as Hy. destruct (send_post_process cx) as [c4 e4]. cbn [fst] in Hy. congruence.
Qed.

Lemma resolve_keeps g c q :
  match resolve_recv_alias g c q with
  | Ok (c', _, false, _) => KF c' c /\ c_qos2 c' = c_qos2 c /\ c_publish_recv c' = c_publish_recv c
  | _ => True
  end.
Proof.
  assert (Herr : forall e, match bindr (handle_v5_error c e) (fun '(c0, ev) => Ok (c0, q, true, ev)) with
                           | Ok (c', _, false, _) => KF c' c /\ c_qos2 c' = c_qos2 c /\ c_publish_recv c' = c_publish_recv c | _ => True end).
  { intro e. destruct (handle_v5_error c e) as [[c0 ev]|]; cbn [bindr]; exact I. }
  assert (Hsame : KF c c /\ c_qos2 c = c_qos2 c /\ c_publish_recv c = c_publish_recv c) by (split; [apply kf_refl|split; reflexivity]).
  unfold resolve_recv_alias. destruct (topic_empty q).
  - destruct (k_alias q) as [a|]; [|apply Herr]. destruct (alias_out_of_range c a); [apply Herr|].
    destruct (c_ta_recv c) as [r|]; [|exact Hsame]. destruct (tar_get r a); [exact Hsame|apply Herr].
  - destruct (k_alias q) as [a|]; [|exact Hsame]. destruct (alias_out_of_range c a); [apply Herr|].
    destruct (c_ta_recv c) as [r|]; [|exact Hsame]. destruct (tar_insert r (k_topic q) a) as [r'|]; cbn [bindr]; [|exact I].
    split; [unfold KF; repeat split|split; reflexivity].
Qed.

Theorem deliver_qos1_with_alias g c r G q t :
  ready5 c -> c_auto_pub c = true -> c_ta_recv c = Some r -> tracks r G ->
  (match k_alias q with Some a => 1 <= a <= tr_max r | None => True end) ->
  k_type q = T_PUBLISH -> k_qos q = 1 -> recv_quota_left c -> ack_fits g c -> rx_topic (rx_step G q) q = Some t ->
  exists c' e q' r', deliver g c q = Ok (c', e) /\ notifies e = [q'] /\ sends e = [ack_pkt g T_PUBACK V50 (k_pid q) None] /\ errors e = [] /\
                     k_topic q' = t /\ c_ta_recv c' = Some r' /\ tr_max r' = tr_max r /\ tracks r' (rx_step G q) /\
                     c_publish_recv c' = del (k_pid q) (ins (k_pid q) (c_publish_recv c)).
Proof.
  intros [Rv Rs] Ha Hr Ht Hrg Hty Hq Hrq Hfit Hres.
  unfold deliver, dispatch_recv. rewrite Hty, Rv.
  change (T_PUBLISH =? 1) with false. change (T_PUBLISH =? 2) with false. change (T_PUBLISH =? 3) with true. cbn [version_eqb]. cbv iota.
  unfold recv_publish_v5. cbv zeta. rewrite Hq. change (1 =? 0) with false. change (1 =? 1) with true. change (1 =? 2) with false. cbn [negb andb].
  rewrite (recv_not_over c Hrq), Rs, Ha. cbn [andb].
  unfold note_inbound. rewrite Hq. change (negb (1 =? 0)) with true. cbv iota.
  set (c0 := set_publish_recv c (ins (k_pid q) (c_publish_recv c))).
  destruct (receiver_implements_ghost g c0 r G q t Hr Ht Hrg Hres) as (c1 & q' & r' & E & Hq' & Hr' & Hm & Ht').
  pose proof (resolve_keeps g c0 q) as HK. rewrite E in HK. destruct HK as (K1 & Q1 & P1). rewrite E. cbn [bindr].
  unfold note_handled. rewrite Hq. change (1 =? 2) with false. cbv iota.
  assert (R0 : ready5 c0) by (split; assumption). assert (F0 : ack_fits g c0) by exact Hfit.
  pose proof (ready5_kf _ _ K1 R0) as R1. pose proof (ack_fits_kf g _ _ K1 F0) as F1.
  pose proof (auto_ack5_x g c1 T_PUBACK (k_pid q) R1 F1 (or_introl eq_refl)) as H. pose proof (ack_keeps_tar g c1 T_PUBACK (k_pid q)) as HT.
  destruct (send_puback_like c1 _) as [[c2 e1]|]; cbn [bindr]; [|destruct H]. destruct H as (H1 & H2 & H3 & KK & Q & P).
  change ((T_PUBACK =? T_PUBACK) || (T_PUBACK =? T_PUBCOMP)) with true in P. cbv iota in P.
  pose proof (refresh_quiet c2) as QQ. pose proof (kf_refresh c2) as R. pose proof (refresh_keeps_tar c2) as RT. cbv zeta in QQ.
  destruct (refresh_pingreq_recv c2) as [c3 e2]. cbn [fst snd] in *. destruct QQ as (Q1' & Q2' & Q3' & _), R as (R1' & _ & R3').
  exists c3, (e1 ++ [] ++ e2 ++ [ENotify q']), q', r'. split; [reflexivity|].
  ev_simpl. rewrite H1, H2, H3, Q1', Q2', Q3'. cbn.
  do 3 (split; [reflexivity|]). split; [exact Hq'|]. split; [congruence|]. split; [exact Hm|]. split; [exact Ht'|].
  rewrite R3', P, P1. reflexivity.
Qed.

Theorem deliver_qos2_with_alias g c r G q t :
  ready5 c -> c_auto_pub c = true -> c_ta_recv c = Some r -> tracks r G ->
  (match k_alias q with Some a => 1 <= a <= tr_max r | None => True end) ->
  k_type q = T_PUBLISH -> k_qos q = 2 -> mem (k_pid q) (c_qos2 c) = false -> recv_quota_left c -> ack_fits g c ->
  rx_topic (rx_step G q) q = Some t ->
  exists c' e q' r', deliver g c q = Ok (c', e) /\ notifies e = [q'] /\ sends e = [ack_pkt g T_PUBREC V50 (k_pid q) None] /\ errors e = [] /\
                     k_topic q' = t /\ c_ta_recv c' = Some r' /\ tr_max r' = tr_max r /\ tracks r' (rx_step G q) /\
                     c_qos2 c' = ins (k_pid q) (c_qos2 c) /\ c_publish_recv c' = ins (k_pid q) (c_publish_recv c).
Proof.
  intros [Rv Rs] Ha Hr Ht Hrg Hty Hq Hn Hrq Hfit Hres.
  unfold deliver, dispatch_recv. rewrite Hty, Rv.
  change (T_PUBLISH =? 1) with false. change (T_PUBLISH =? 2) with false. change (T_PUBLISH =? 3) with true. cbn [version_eqb]. cbv iota.
  unfold recv_publish_v5. cbv zeta. rewrite Hq. change (2 =? 0) with false. change (2 =? 1) with false. change (2 =? 2) with true. cbn [negb andb].
  rewrite (recv_not_over c Hrq), Rs, Ha, Hn. cbn [andb orb].
  unfold note_inbound. rewrite Hq. change (negb (2 =? 0)) with true. cbv iota.
  set (c0 := set_publish_recv c (ins (k_pid q) (c_publish_recv c))).
  destruct (receiver_implements_ghost g c0 r G q t Hr Ht Hrg Hres) as (c1 & q' & r' & E & Hq' & Hr' & Hm & Ht').
  pose proof (resolve_keeps g c0 q) as HK. rewrite E in HK. destruct HK as (K1 & Q1 & P1). rewrite E. cbn [bindr].
  unfold note_handled. rewrite Hq. change (2 =? 2) with true. cbv iota.
  set (c1' := set_qos2 c1 (ins (k_pid q) (c_qos2 c1))).
  assert (R0 : ready5 c0) by (split; assumption). assert (F0 : ack_fits g c0) by exact Hfit.
  assert (R1 : ready5 c1') by exact (ready5_kf _ _ K1 R0). assert (F1 : ack_fits g c1') by exact (ack_fits_kf g _ _ K1 F0).
  pose proof (auto_ack5_x g c1' T_PUBREC (k_pid q) R1 F1 (or_intror (or_introl eq_refl))) as H. pose proof (ack_keeps_tar g c1' T_PUBREC (k_pid q)) as HT.
  destruct (send_puback_like c1' _) as [[c2 e1]|]; cbn [bindr]; [|destruct H]. destruct H as (H1 & H2 & H3 & KK & Q & P).
  change ((T_PUBREC =? T_PUBACK) || (T_PUBREC =? T_PUBCOMP)) with false in P. cbv iota in P.
  pose proof (refresh_quiet c2) as QQ. pose proof (kf_refresh c2) as R. pose proof (refresh_keeps_tar c2) as RT. pose proof (refresh_silent c2) as (_ & RQ). cbv zeta in QQ.
  destruct (refresh_pingreq_recv c2) as [c3 e2]. cbn [fst snd] in *. destruct QQ as (Q1' & Q2' & Q3' & _), R as (R1' & _ & R3').
  exists c3, ([] ++ e1 ++ e2 ++ [ENotify q']), q', r'. split; [reflexivity|].
  ev_simpl. rewrite H1, H2, H3, Q1', Q2', Q3'. cbn.
  do 3 (split; [reflexivity|]). split; [exact Hq'|]. split; [rewrite RT, HT; exact Hr'|]. split; [exact Hm|]. split; [exact Ht'|].
  split; [rewrite RQ, Q; unfold c1'; conn_simpl_goal; rewrite Q1; reflexivity|].
  rewrite R3', P. unfold c1'. conn_simpl_goal. rewrite P1. reflexivity.
Qed.
