(* C01 / C08, model side: AT QUIESCENCE EVERY PACKET IDENTIFIER HAS BEEN RELEASED.  On top of the pair invariant of PairConc.v
   (v3.1.1, several exchanges in flight, intact links): every identifier in use at the sender belongs to a packet in flight
   ([U]).  It is kept by every action of the system — a publication registers exactly the identifier of the PUBLISH it puts in
   flight, a delivery to the receiver moves the identifier to the acknowledgement, PUBREC moves it to the PUBREL, and the
   final acknowledgement releases it together with the last packet that carried it — so once both links are empty no
   identifier is in use. *)
From Coq Require Import Permutation.
From MQ Require Import Base.Prelude Alloc.Alloc Alloc.SetSpec Alloc.AllocProofs Framing.Framing
                       Conn.Types Conn.TopicAlias Conn.ConnRecord Conn.Step Conn.Run Corr.ConnTrace Conn.Scope Conn.IdsQuota Conn.WfInv
                       Conn.Own Conn.OwnFrame Conn.OwnStep Conn.Qos2Dup Conn.TasBounds Conn.NoPanic
                       Conn.PairQos Conn.PairSeq Conn.PairConc.

Section Ids.
Variables gs gr : cfg.

Definition U (s : sys) : Prop := forall y, is_used (cs s) y = true -> In y (ids (qsr s) ++ ids (qrs s)).

Lemma ids_snoc l x : ids (l ++ [x]) = ids l ++ [k_pid x].
Proof. unfold ids. rewrite map_app. reflexivity. Qed.

(* delivery to the receiver: the sender is untouched, the identifier moves from the packet to its acknowledgement *)
Lemma to_r_U s : inv gs gr s -> U s -> match do_to_r gr s with Next s' => U s' | _ => True end.
Proof.
  destruct s as [cs0 cr0 qsr0 qrs0 pub0 del0]. unfold inv, do_to_r, U. cbn [cs cr qsr qrs published delivered].
  intros (HO & Rs & Has & Rr & Har & Hasc & Fsr & Frs & Hnd & Hq & Hpd) HU.
  destruct qsr0 as [|x t]; [exact I|]. pose proof (Forall_inv Fsr) as Hx. cbn [ids map app] in Hnd.
  assert (Hnx : ~ In (k_pid x) (ids t ++ ids qrs0)) by (apply NoDup_cons_iff in Hnd; apply Hnd).
  assert (Hmove : forall a, k_pid a = k_pid x -> forall y, is_used cs0 y = true -> In y (ids t ++ ids (qrs0 ++ [a]))).
  { intros a Ha y Hy. specialize (HU y Hy). cbn [ids map app In] in HU. rewrite ids_snoc, Ha.
    destruct HU as [<-|HU]; [apply in_or_app; right; apply in_or_app; right; now left|].
    apply in_app_or in HU as [HU|HU]; apply in_or_app; [now left|right; apply in_or_app; now left]. }
  destruct Hx as [Hu [[Hp Hm]|[[Hp Hm]|[He Hm]]]].
  - pose proof (receiver_q1_x gr cr0 x Rr Har Hp) as H.
    destruct (deliver gr cr0 x) as [[cr1 e]|]; [|exact I]. destruct H as (N1 & S1 & X1 & _).
    rewrite S1, X1. cbn [one none negb]. cbn [cs cr qsr qrs published delivered]. apply Hmove. reflexivity.
  - assert (Hn2 : mem (k_pid x) (c_qos2 cr0) = false).
    { destruct (mem (k_pid x) (c_qos2 cr0)) eqn:E; [|reflexivity]. exfalso. destruct (Hq _ E) as [Hi|Hi].
      - apply Hnx. apply in_or_app. right. apply in_ids in Hi. exact Hi.
      - destruct Hi as [Hi|Hi].
        + destruct Hp as (Htp & _). rewrite Hi in Htp. discriminate Htp.
        + apply Hnx. apply in_or_app. left. apply in_ids in Hi. exact Hi. }
    pose proof (receiver_q2_x gr cr0 x Rr Har Hp Hn2) as H.
    destruct (deliver gr cr0 x) as [[cr1 e]|]; [|exact I]. destruct H as (N1 & S1 & X1 & _).
    rewrite S1, X1. cbn [one none negb]. cbn [cs cr qsr qrs published delivered]. apply Hmove. reflexivity.
  - assert (Htp : k_type x = T_PUBREL) by (rewrite He; reflexivity).
    pose proof (receiver_pubrel_x gr cr0 x Rr Har Htp) as H.
    destruct (deliver gr cr0 x) as [[cr1 e]|]; [|exact I]. destruct H as (N1 & S1 & X1 & _).
    rewrite S1, X1. cbn [one none negb]. cbn [cs cr qsr qrs published delivered]. apply Hmove. reflexivity.
Qed.

(* delivery to the sender: a final acknowledgement releases the identifier with the last packet that carried it; a PUBREC
   moves it to the PUBREL *)
Lemma to_s_U s : inv gs gr s -> U s -> match do_to_s gs s with Next s' => U s' | _ => True end.
Proof.
  destruct s as [cs0 cr0 qsr0 qrs0 pub0 del0]. unfold inv, do_to_s, U. cbn [cs cr qsr qrs published delivered].
  intros (HO & Rs & Has & Rr & Har & Hasc & Fsr & Frs & Hnd & Hq & Hpd) HU.
  destruct qrs0 as [|x t]; [exact I|]. pose proof (Forall_inv Frs) as Hx.
  assert (Hfinal : forall c2, (forall y, is_used c2 y = is_used cs0 y && negb (y =? k_pid x)) ->
            forall y, is_used c2 y = true -> In y (ids qsr0 ++ ids t)).
  { intros c2 U2 y Hy. rewrite U2 in Hy. apply andb_true_iff in Hy as [Hy Hne]. apply negb_true_iff, N.eqb_neq in Hne.
    specialize (HU y Hy). apply in_app_or in HU as [HU|HU]; apply in_or_app; [now left|right].
    cbn [ids map In] in HU. destruct HU as [E|HU]; [exfalso; apply Hne; symmetry; exact E|exact HU]. }
  destruct Hx as [Hu [[He Hm]|[[He Hm]|[He Hm]]]].
  - assert (Hv : k_ver x = V311) by (rewrite He; reflexivity). assert (Htp : k_type x = T_PUBACK) by (rewrite He; reflexivity).
    pose proof (sender_final_ack_x gs cs0 x T_PUBACK HO Rs Hv Htp (or_introl eq_refl) Hm Hu) as H.
    pose proof (sender_final_sets gs cs0 x T_PUBACK HO Rs Hv Htp (or_introl eq_refl) Hm Hu) as H'.
    destruct (deliver gs cs0 x) as [[c2 e]|]; [|exact I]. destruct H as (L1 & S1 & X1 & _). destruct H' as (U2 & _).
    rewrite X1, S1, L1, N.eqb_refl. cbn [none negb]. cbn [cs cr qsr qrs published delivered]. exact (Hfinal c2 U2).
  - assert (Hv : k_ver x = V311) by (rewrite He; reflexivity). assert (Htp : k_type x = T_PUBREC) by (rewrite He; reflexivity).
    pose proof (sender_pubrec_x gs cs0 x HO Rs Has Hv Htp Hm Hu) as H.
    pose proof (sender_pubrec_sets gs cs0 x HO Rs Has Hv Htp Hm Hu) as H'.
    destruct (deliver gs cs0 x) as [[c2 e]|]; [|exact I]. destruct H as (S1 & X1 & L1 & _). destruct H' as (P0 & _).
    rewrite X1, S1, L1. cbn [none negb]. cbn [cs cr qsr qrs published delivered].
    intros y Hy. unfold is_used in Hy. rewrite P0 in Hy. specialize (HU y Hy). rewrite ids_snoc.
    change (k_pid (ack_pkt gs T_PUBREL V311 (k_pid x) None)) with (k_pid x).
    apply in_app_or in HU as [HU|HU]; apply in_or_app; [left; apply in_or_app; now left|].
    cbn [ids map In] in HU. destruct HU as [<-|HU]; [left; apply in_or_app; right; now left|now right].
  - assert (Hv : k_ver x = V311) by (rewrite He; reflexivity). assert (Htp : k_type x = T_PUBCOMP) by (rewrite He; reflexivity).
    pose proof (sender_final_ack_x gs cs0 x T_PUBCOMP HO Rs Hv Htp (or_intror eq_refl) Hm Hu) as H.
    pose proof (sender_final_sets gs cs0 x T_PUBCOMP HO Rs Hv Htp (or_intror eq_refl) Hm Hu) as H'.
    destruct (deliver gs cs0 x) as [[c2 e]|]; [|exact I]. destruct H as (L1 & S1 & X1 & _). destruct H' as (U2 & _).
    rewrite X1, S1, L1, N.eqb_refl. cbn [none negb]. cbn [cs cr qsr qrs published delivered]. exact (Hfinal c2 U2).
Qed.

(* a publication registers exactly the identifier of the PUBLISH it puts in flight *)
Lemma pub_U s p q : inv gs gr s -> v311_pub p q -> q = 1 \/ q = 2 -> U s -> match do_pub gs s p with Next s' => U s' | _ => True end.
Proof.
  destruct s as [cs0 cr0 qsr0 qrs0 pub0 del0]. unfold inv, do_pub, U. cbn [cs cr qsr qrs published delivered]. cbv zeta.
  intros (HO & Rs & Has & _) Hp Hqq HU.
  destruct (negb _) eqn:Epre; [exact I|]. apply negb_false_iff in Epre.
  apply andb_true_iff in Epre as [Epre E4]. apply andb_true_iff in Epre as [Epre E3]. apply andb_true_iff in Epre as [E1 E2].
  apply N.leb_le in E1, E2. apply negb_true_iff in E3. apply freshb_spec in E4.
  destruct (register_ae gs cs0 (k_pid p) HO (conj E1 E2) E3) as (a & Ereg & O0 & U0 & Hu0). rewrite Ereg.
  set (c0 := set_pid cs0 a) in *.
  assert (R0 : ready c0) by exact Rs. assert (F0 : fresh c0 (k_pid p)) by exact E4.
  rewrite (step_send_publish_v311 gs c0 p q (proj1 R0) Hp).
  pose proof (sender_sends_x gs c0 p q O0 R0 Hp ltac:(destruct Hqq; lia) F0 U0) as H1.
  pose proof (sender_sends_sets c0 p q Hp ltac:(destruct Hqq; lia) (proj2 R0) U0 (proj2 F0)) as H1'.
  destruct (send_publish_v311 c0 p) as [[c1 e1]|]; cbn [bindr] in *; [|exact I].
  destruct H1 as (S1 & N1 & X1 & _). destruct H1' as (P0 & _).
  rewrite S1, N1, X1. cbn [one none andb negb]. cbn [cs cr qsr qrs published delivered].
  intros y Hy. unfold is_used in Hy. rewrite P0 in Hy. fold (is_used c0 y) in Hy. rewrite ids_snoc.
  destruct (N.eq_dec y (k_pid p)) as [->|Hne]; [apply in_or_app; left; apply in_or_app; right; now left|].
  rewrite (Hu0 y Hne) in Hy. specialize (HU y Hy).
  apply in_app_or in HU as [HU|HU]; apply in_or_app; [left; apply in_or_app; now left|now right].
Qed.

Lemma act_U s a : inv gs gr s -> good_act a -> U s -> match do_act gs gr s a with Next s' => U s' | _ => True end.
Proof.
  intros Hi Hg HU. destruct a as [p| |]; cbn [do_act good_act] in *.
  - destruct Hg as [Hg|Hg]; [apply (pub_U s p 1 Hi Hg); [now left|exact HU]|apply (pub_U s p 2 Hi Hg); [now right|exact HU]].
  - exact (to_r_U s Hi HU).
  - exact (to_s_U s Hi HU).
Qed.

Theorem sched_U : forall l s, inv gs gr s -> U s -> Forall good_act l ->
  match run_sched gs gr s l with Some s' => U s' | None => True end.
Proof.
  induction l as [|a t IH]; intros s Hi HU Hf; cbn [run_sched]; [exact HU|].
  pose proof (Forall_inv Hf) as Ha. pose proof (Forall_inv_tail Hf) as Ht.
  pose proof (act_ok gs gr s a Hi Ha) as Hok. pose proof (act_U s a Hi Ha HU) as HU'.
  destruct (do_act gs gr s a) as [s'| |]; [exact (IH s' Hok HU' Ht)|exact (IH s Hi HU Ht)|exact I].
Qed.

Lemma drain_good n : Forall good_act (drain_links n).
Proof. induction n as [|k IH]; cbn [drain_links]; [constructor|]. repeat constructor; assumption || exact I. Qed.

(* AT QUIESCENCE: after any schedule and the drain, no packet identifier is in use at the sender *)
Theorem all_identifiers_released l s : inv gs gr s -> U s -> Forall good_act l ->
  exists s1 s2, run_sched gs gr s l = Some s1 /\ run_sched gs gr s1 (drain_links (measure s1)) = Some s2 /\
                qsr s2 = [] /\ qrs s2 = [] /\ delivered s2 = published s1 /\ forall y, is_used (cs s2) y = false.
Proof.
  intros Hi HU Hf. destruct (concurrent_exactly_once gs gr l s Hi Hf) as (s1 & s2 & R1 & R2 & I2 & Q1 & Q2 & D).
  exists s1, s2. split; [exact R1|]. split; [exact R2|]. split; [exact Q1|]. split; [exact Q2|]. split; [exact D|].
  pose proof (sched_U l s Hi HU Hf) as U1. rewrite R1 in U1.
  destruct (sched_ok gs gr l s Hi Hf) as (s1' & R1' & I1). assert (s1' = s1) by congruence. subst s1'.
  pose proof (sched_U (drain_links (measure s1)) s1 I1 U1 (drain_good _)) as U2. rewrite R2 in U2.
  intro y. destruct (is_used (cs s2) y) eqn:E; [|reflexivity]. exfalso. specialize (U2 y E). rewrite Q1, Q2 in U2. exact U2.
Qed.

Lemma U_init c1 c2 : (forall y, is_used c1 y = false) -> U (mkSys c1 c2 [] [] [] []).
Proof. intros H y Hy. cbn [cs] in Hy. rewrite H in Hy. discriminate Hy. Qed.
End Ids.

(* ---- end to end: from freshly constructed objects ---- *)
From MQ Require Import Conn.PairBi Conn.PairHandshake5 Conn.PairHandshake311.

Lemma clear_unused a y : pm_is_used (pm_clear a) y = false.
Proof.
  unfold pm_is_used, pm_clear, a_is_used, a_clear. cbn [a_lo a_hi a_pool set_pool existsb]. unfold contains. cbn [fst snd].
  destruct (a_lo a <=? y), (y <=? a_hi a); reflexivity.
Qed.

Lemma connack_clears_ids c p : HV3 c Connecting -> k_rc p = 0 -> k_flag p = false ->
  match recv_connack c V311 (PROk p) with Ok (c1, _) => forall y, is_used c1 y = false | Panic _ => True end.
Proof.
  intros (Hv & Hs & Hq & Hst & Hsm) Hrc Hfl.
  unfold recv_connack. rewrite Hs. cbn [status_eqb]. rewrite Hrc. change (0 =? 0) with true. cbv iota. cbn [version_eqb]. cbv zeta.
  unfold resume_or_clear, clear_store_related. rewrite Hfl. cbn [bindr]. intro y. unfold is_used. conn_simpl_goal. apply clear_unused.
Qed.

Theorem fresh_v311_all_identifiers_released gA gB cn ca l :
  1 <= g_idmax gA -> 1 <= g_idmax gB -> role_client_ok gA = true -> role_server_ok gB = true ->
  k_type cn = T_CONNECT -> k_ver cn = V311 -> k_flag cn = true ->
  k_type ca = T_CONNACK -> k_ver ca = V311 -> k_rc ca = 0 -> k_flag ca = false ->
  Forall good_act l ->
  let A0 := set_auto_pub (conn_new gA V311) true in
  let B0 := set_auto_pub (conn_new gB V311) true in
  exists A1 e1 B1 e2 B2 e3 A2 e4 s1 s2,
    step gA A0 (OSend cn) = Ok (A1, e1, []) /\ deliver gB B0 cn = Ok (B1, e2) /\
    step gB B1 (OSend ca) = Ok (B2, e3, []) /\ deliver gA A1 ca = Ok (A2, e4) /\
    run_sched gA gB (mkSys A2 B2 [] [] [] []) l = Some s1 /\
    run_sched gA gB s1 (drain_links (measure s1)) = Some s2 /\
    qsr s2 = [] /\ qrs s2 = [] /\ delivered s2 = published s1 /\
    (* at quiescence every packet identifier has been released *)
    forall y, is_used (cs s2) y = false.
Proof.
  intros IA IB RA RB T1 V1 F1 T2 V2 C2 F2 Hl A0 B0.
  assert (OA : OWN gA A0) by (apply (f8_own gA (conn_new gA V311)); [unfold F8; repeat split|exact (conn_new_OWN gA V311 IA)]).
  assert (OB : OWN gB B0) by (apply (f8_own gB (conn_new gB V311)); [unfold F8; repeat split|exact (conn_new_OWN gB V311 IB)]).
  destruct (handshake311_establishes_pair_invariant gA gB A0 B0 cn ca OA OB eq_refl eq_refl eq_refl eq_refl eq_refl eq_refl RA RB
              T1 V1 F1 T2 V2 C2 F2)
    as (A1 & e1 & B1 & e2 & B2 & e3 & A2 & e4 & E1 & S1 & X1 & E2 & N2 & X2 & _ & E3 & S3 & X3 & E4 & N4 & X4 & _ & Hinv).
  destruct Hinv as [Hinv _]. unfold vAB in Hinv. cbn [PairBi.ea PairBi.eb qab qba pubA delB sr_part rs_part filter] in Hinv.
  (* the identifiers after the handshake *)
  assert (HU : U (mkSys A2 B2 [] [] [] [])).
  { apply U_init.
    destruct (client_sends_connect311 A0 cn eq_refl eq_refl V1 F1) as (a1 & f1 & Ea & _ & _ & Ha & _).
    rewrite (step_send_connect gA A0 cn ltac:(symmetry; exact V1) T1 RA), Ea in E1. cbn [bindr] in E1. injection E1 as <- <-.
    pose proof (connack_clears_ids a1 ca Ha C2 F2) as Hc. unfold deliver, dispatch_recv in E4. rewrite T2 in E4.
    destruct Ha as (Hv & _). rewrite Hv in E4. change (T_CONNACK =? 1) with false in E4. change (T_CONNACK =? 2) with true in E4. cbv iota in E4.
    rewrite E4 in Hc. exact Hc. }
  destruct (all_identifiers_released gA gB l _ Hinv HU Hl) as (s1 & s2 & R1 & R2 & Q1 & Q2 & D & Hrel).
  exists A1, e1, B1, e2, B2, e3, A2, e4, s1, s2.
  repeat (split; [assumption|]). exact Hrel.
Qed.
