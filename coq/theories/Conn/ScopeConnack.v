(* C10, the path "CONNECT without Clean Start, CONNACK with Session Present = 0": two objects that agree on the
   connection scope and the options — whatever sessions they hold — are in EQUAL states, with equal events, once
   that CONNACK has been processed: the old session of a reused object is as dead as on the clean-start path. *)
From MQ Require Import Base.Prelude Alloc.Alloc Alloc.SetSpec Alloc.AllocProofs Framing.Framing
                       Conn.Types Conn.TopicAlias Conn.ConnRecord Conn.Step Conn.Run Corr.ConnTrace Conn.Scope.

(* equal up to the session: equal once the session state is wiped *)
Definition upto_session (a b : conn) : Prop := clear_store_related a = clear_store_related b.

Lemma upto_status a b : upto_session a b -> c_status a = c_status b.
Proof. intro H. apply (f_equal c_status) in H. exact H. Qed.
Lemma upto_mps a b : upto_session a b -> c_mps_send a = c_mps_send b.
Proof. intro H. apply (f_equal c_mps_send) in H. exact H. Qed.

(* setters of fields outside the session commute with wiping it *)
Ltac commute := intros; match goal with |- context [clear_store_related] => idtac end;
  repeat match goal with x : conn |- _ => destruct x end; unfold clear_store_related, pm_clear, a_clear; conn_cbv; reflexivity.

Lemma clear_set_status x s : clear_store_related (set_status x s) = set_status (clear_store_related x) s. Proof. commute. Qed.
Lemma clear_set_ta_send x v : clear_store_related (set_ta_send x v) = set_ta_send (clear_store_related x) v. Proof. commute. Qed.
Lemma clear_set_send_max x v : clear_store_related (set_send_max x v) = set_send_max (clear_store_related x) v. Proof. commute. Qed.
Lemma clear_set_mps_send x v : clear_store_related (set_mps_send x v) = set_mps_send (clear_store_related x) v. Proof. commute. Qed.
Lemma clear_set_server_ka x v : clear_store_related (set_server_ka_ms x v) = set_server_ka_ms (clear_store_related x) v. Proof. commute. Qed.
Lemma clear_set_t_send x v : clear_store_related (set_t_send x v) = set_t_send (clear_store_related x) v. Proof. commute. Qed.
Lemma clear_set_need_store x v : clear_store_related (set_need_store x v) = set_need_store (clear_store_related x) v. Proof. commute. Qed.
Lemma clear_set_ta_recv x v : clear_store_related (set_ta_recv x v) = set_ta_recv (clear_store_related x) v. Proof. commute. Qed.
Lemma clear_set_recv_max x v : clear_store_related (set_recv_max x v) = set_recv_max (clear_store_related x) v. Proof. commute. Qed.
Lemma clear_set_mps_recv x v : clear_store_related (set_mps_recv x v) = set_mps_recv (clear_store_related x) v. Proof. commute. Qed.
Lemma clear_idem x : clear_store_related (clear_store_related x) = clear_store_related x. Proof. commute. Qed.

Lemma limits_upto a b p : upto_session a b ->
  match connack_recv_limits a p, connack_recv_limits b p with
  | Ok a', Ok b' => upto_session a' b'
  | Panic x, Panic y => x = y
  | _, _ => False
  end.
Proof.
  unfold upto_session. intro H. unfold connack_recv_limits.
  assert (H1 : match (match k_tam p with Some m => if 0 <? m then bindr (tas_new m) (fun s => Ok (set_ta_send a (Some s))) else Ok a | None => Ok a end),
                     (match k_tam p with Some m => if 0 <? m then bindr (tas_new m) (fun s => Ok (set_ta_send b (Some s))) else Ok b | None => Ok b end) with
               | Ok a', Ok b' => clear_store_related a' = clear_store_related b' | Panic x, Panic y => x = y | _, _ => False end).
  { destruct (k_tam p) as [m|]; [destruct (0 <? m); [destruct (tas_new m) as [s|]; cbn [bindr]|]|]; try exact H; try reflexivity.
    now rewrite !clear_set_ta_send, H. }
  destruct (match k_tam p with Some _ => _ | None => _ end) as [a1|], (match k_tam p with Some _ => _ | None => _ end) as [b1|]; cbn [bindr]; try contradiction; [|exact H1].
  assert (H2 : match (match k_rm p with Some m => if m =? 0 then Panic P_SIZE_ASSERT else Ok (set_send_max a1 (Some m)) | None => Ok a1 end),
                     (match k_rm p with Some m => if m =? 0 then Panic P_SIZE_ASSERT else Ok (set_send_max b1 (Some m)) | None => Ok b1 end) with
               | Ok a', Ok b' => clear_store_related a' = clear_store_related b' | Panic x, Panic y => x = y | _, _ => False end).
  { destruct (k_rm p) as [m|]; [destruct (m =? 0)|]; try exact H1; try reflexivity. now rewrite !clear_set_send_max, H1. }
  destruct (match k_rm p with Some _ => _ | None => _ end) as [a2|], (match k_rm p with Some _ => _ | None => _ end) as [b2|]; cbn [bindr]; try contradiction; [|exact H2].
  destruct (k_mps p) as [m|]; [destruct (m =? 0)|]; try exact H2; try reflexivity. now rewrite !clear_set_mps_send, H2.
Qed.
Lemma ska_upto a b p : upto_session a b ->
  upto_session (fst (connack_recv_ska a p)) (fst (connack_recv_ska b p)) /\ snd (connack_recv_ska a p) = snd (connack_recv_ska b p).
Proof.
  unfold upto_session. intro H. unfold connack_recv_ska.
  assert (H1 : c_user_ping a = c_user_ping b) by (apply (f_equal c_user_ping) in H; exact H).
  assert (H2 : c_t_send a = c_t_send b) by (apply (f_equal c_t_send) in H; exact H).
  destruct (k_ska p) as [s|]; [|split; [exact H|reflexivity]]. cbv zeta. conn_simpl_goal. rewrite <- H1, <- H2.
  destruct (c_user_ping a); cbn [fst snd]; [split; [now rewrite !clear_set_server_ka, H|reflexivity]|].
  destruct (s * 1000 =? 0); [destruct (c_t_send a)|]; cbn [fst snd];
    (split; [rewrite ?clear_set_t_send, ?clear_set_server_ka, H; reflexivity|reflexivity]).
Qed.
Lemma sei_upto a b p : upto_session a b -> upto_session (connack_recv_sei a p) (connack_recv_sei b p).
Proof.
  unfold upto_session. intro H. unfold connack_recv_sei. destruct (k_sei p) as [m|]; [destruct (m =? 0)|]; [| |exact H].
  - now rewrite !clear_idem, !clear_set_need_store, H.
  - now rewrite !clear_set_need_store, H.
Qed.

(* the CONNACK without Session Present, accepted: equal outcome on both *)
Theorem connack_not_present_is_scope_only a b v p :
  upto_session a b -> k_flag p = false -> k_rc p = 0 -> c_status a <> Connected ->
  recv_connack a v (PROk p) = recv_connack b v (PROk p).
Proof.
  intros H Hf Hrc Hs. unfold recv_connack. rewrite <- (upto_status a b H).
  destruct (status_eqb (c_status a) Connected) eqn:E; [destruct (c_status a); try discriminate; now destruct Hs|].
  rewrite Hrc. change (0 =? 0) with true. cbv iota zeta. rewrite Hf.
  assert (H0 : upto_session (set_status a Connected) (set_status b Connected)) by (unfold upto_session; now rewrite !clear_set_status, H).
  destruct (version_eqb v V50).
  - pose proof (limits_upto _ _ p H0) as HL.
    destruct (connack_recv_limits (set_status a Connected) p) as [a1|], (connack_recv_limits (set_status b Connected) p) as [b1|]; cbn [bindr]; try contradiction; [|now subst].
    destruct (ska_upto a1 b1 p HL) as [HK1 HK2]. destruct (connack_recv_ska a1 p) as [a2 ea], (connack_recv_ska b1 p) as [b2 eb]. cbn [fst snd] in *. subst eb.
    pose proof (sei_upto a2 b2 p HK1) as HS. unfold resume_or_clear. cbn [bindr]. unfold upto_session in HS. now rewrite HS.
  - unfold resume_or_clear. cbn [bindr]. unfold upto_session in H0. now rewrite H0.
Qed.

(* the CONNECT without Clean Start that precedes it: equal events, states equal up to the session *)
Theorem connect_sent_upto_session a b p :
  conn_scope_eq a b -> size_ok a p = true -> c_status a = Disconnected ->
  match send_connect a p, send_connect b p with
  | Ok (a1, ea), Ok (b1, eb) => ea = eb /\ upto_session a1 b1 /\ c_status a1 = Connecting
  | Panic x, Panic y => x = y
  | _, _ => False
  end.
Proof.
  intros H Hsz Hst. unfold send_connect.
  rewrite <- (scope_size_ok a b p H), <- (scope_status a b H), Hsz, Hst, andb_false_r. cbn [status_eqb negb]. cbv zeta.
  unfold send_and_post.
  match goal with |- context [send_post_process ?x] => set (X := x) end.
  match goal with |- context [send_post_process ?y] => assert_fails (constr_eq y X); set (Y := y) end.
  assert (HU : upto_session X Y).
  { subst X Y. unfold upto_session.
    pose proof (sent_base_clean a b Connecting (k_keep_alive p * 1000) H) as Hb.
    repeat match goal with
           | |- context [if ?c then _ else _] => destruct c
           | |- context [match ?o with Some _ => _ | None => _ end] => destruct o end;
    repeat first [rewrite clear_set_need_store | rewrite clear_set_ta_recv | rewrite clear_set_recv_max | rewrite clear_set_mps_recv | rewrite clear_set_ta_send | rewrite clear_idem];
    rewrite Hb; reflexivity. }
  assert (HS : c_status X = Connecting).
  { subst X. repeat match goal with
           | |- context [if ?c then _ else _] => destruct c
           | |- context [match ?o with Some _ => _ | None => _ end] => destruct o end; unfold clear_store_related, initialize; conn_simpl_goal; reflexivity. }
  assert (HX : c_is_client X = c_is_client Y /\ c_user_ping X = c_user_ping Y /\ c_server_ka_ms X = c_server_ka_ms Y /\ c_keep_alive_ms X = c_keep_alive_ms Y).
  { unfold upto_session in HU. repeat split;
      [apply (f_equal c_is_client) in HU|apply (f_equal c_user_ping) in HU|apply (f_equal c_server_ka_ms) in HU|apply (f_equal c_keep_alive_ms) in HU]; exact HU. }
  destruct HX as (H1 & H2 & H3 & H4). clearbody X Y.
  unfold send_post_process. rewrite <- H1, <- H2, <- H3, <- H4. destruct (c_is_client X); [destruct (0 <? _)|];
  (split; [reflexivity|split; [|conn_simpl_goal; exact HS]]); unfold upto_session in *; rewrite ?clear_set_t_send, HU; reflexivity.
Qed.

(* a reused client object on this path: after ANY first connection ended by notify_closed, "CONNECT without Clean
   Start, then CONNACK with Session Present = 0" leaves it in the very state of a fresh object with the same
   options, with the same events at both calls — so every later script yields the same trace on both *)
Theorem reused_client_session_not_present g c c1 e p v q :
  do_closed c = Ok (c1, e) -> pid_bounds g c -> size_ok c1 p = true -> k_flag q = false -> k_rc q = 0 ->
  match send_connect c1 p, send_connect (fresh_like g c) p with
  | Ok (a1, ea), Ok (b1, eb) =>
      ea = eb /\
      match recv_connack a1 v (PROk q), recv_connack b1 v (PROk q) with
      | Ok (a2, ea2), Ok (b2, eb2) => ea2 = eb2 /\ a2 = b2 /\ forall S, run_trace g a2 S = run_trace g b2 S
      | Panic x, Panic y => x = y
      | _, _ => False
      end
  | Panic x, Panic y => x = y
  | _, _ => False
  end.
Proof.
  intros Hc Hb Hsz Hf Hrc.
  pose proof (closed_is_like_fresh g c c1 e Hc Hb) as Hscope.
  destruct (closed_has_shape c c1 e Hc) as (Hst & _).
  pose proof (connect_sent_upto_session c1 (fresh_like g c) p Hscope Hsz Hst) as H.
  destruct (send_connect c1 p) as [[a1 ea]|], (send_connect (fresh_like g c) p) as [[b1 eb]|]; try exact H.
  destruct H as (He & Hu & Hs1). split; [exact He|].
  rewrite (connack_not_present_is_scope_only a1 b1 v q Hu Hf Hrc ltac:(rewrite Hs1; discriminate)).
  destruct (recv_connack b1 v (PROk q)) as [[b2 eb2]|]; [|reflexivity]. repeat split; reflexivity.
Qed.
