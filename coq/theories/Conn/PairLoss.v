(* C01, model side: THE PAIR ACROSS TRANSPORT LOSS.  As PairConc.v — two v3.1.1 endpoints with automatic responses and
   persistent sessions, two FIFO links, an arbitrary schedule — with one more action: the transport is lost (both sides are
   told, everything in flight is gone), the client reconnects without Clean Session, the server answers Session Present,
   and the client retransmits what it has stored.  For every schedule: no call panics or reports an error, every packet is
   answered as the protocol says, every resumption succeeds, and the links drain in a bounded number of deliveries. *)
From Coq Require Import Permutation.
From MQ Require Import Base.Prelude Alloc.Alloc Alloc.SetSpec Alloc.AllocProofs Framing.Framing
                       Conn.Types Conn.TopicAlias Conn.ConnRecord Conn.Step Conn.Run Corr.ConnTrace Conn.Scope Conn.IdsQuota Conn.WfInv
                       Conn.Own Conn.OwnFrame Conn.OwnStep Conn.Qos2Dup Conn.TasBounds Conn.NoPanic Conn.SupFrame Conn.SupStep Conn.SessInv
                       Conn.PairQos Conn.PairQos5 Conn.PairSeq Conn.PairConc.

(* ---- the sender's steps once more: exact effect on the store, persistence and the size limit ---- *)
Lemma post_extra c : let c' := fst (send_post_process c) in
  c_need_store c' = c_need_store c /\ c_mps_send c' = c_mps_send c /\ c_offline c' = c_offline c.
Proof. cbv zeta. unfold send_post_process. destruct (c_is_client c); [destruct (0 <? _)|]; cbn [fst]; repeat split. Qed.
Lemma refresh_extra c : let c' := fst (refresh_pingreq_recv c) in
  c_need_store c' = c_need_store c /\ c_mps_send c' = c_mps_send c /\ c_offline c' = c_offline c.
Proof. cbv zeta. unfold refresh_pingreq_recv. destruct (negb _); cbn [fst]; repeat split. Qed.

Lemma sender_sends_store c p q : v311_pub p q -> 1 <= q <= 2 -> status_eqb (c_status c) Connected = true -> c_need_store c = true ->
  is_used c (k_pid p) = true -> store_has (k_pid p) (c_store c) = false ->
  match send_publish_v311 c p with
  | Ok (c1, _) => c_store c1 = c_store c ++ [set_dup p true] /\ c_need_store c1 = true /\ c_mps_send c1 = c_mps_send c
  | Panic _ => True
  end.
Proof.
  intros (Ht & Hv & Hq) Hr Rs Hn Hu Hs. unfold send_publish_v311. cbv zeta. rewrite Hq.
  assert (E0 : (q =? 0) = false) by (apply N.eqb_neq; lia). rewrite E0. cbn [negb]. rewrite Rs, Hu. cbn [negb andb].
  assert (Ec : can_store_now c = true).
  { unfold can_store_now. rewrite Hn. destruct (c_status c); cbn in Rs |- *; try discriminate; reflexivity. }
  rewrite Ec. unfold store_add. change (k_pid (set_dup p true)) with (k_pid p). rewrite Hs. cbn [bindr].
  assert (Hfin : forall cx rel, c_store cx = c_store c ++ [set_dup p true] -> c_need_store cx = true -> c_mps_send cx = c_mps_send c ->
            match send_and_post cx p rel [] with
            | Ok (c1, _) => c_store c1 = c_store c ++ [set_dup p true] /\ c_need_store c1 = true /\ c_mps_send c1 = c_mps_send c
            | Panic _ => True end).
  { intros cx rel H1 H2 H3. unfold send_and_post. pose proof (post_keeps cx) as K. pose proof (post_extra cx) as X. cbv zeta in K, X.
    destruct (send_post_process cx) as [c1 e]. cbn [fst] in *. destruct K as ((_ & F2 & _) & _), X as (X1 & X2 & _). repeat split; congruence. }
  destruct (N.eqb_spec q 2) as [E2|E2]; conn_simpl_goal; rewrite Rs; apply Hfin; reflexivity || assumption.
Qed.

Lemma sender_pubrec_store g c a : OWN g c -> ready c -> c_auto_pub c = true -> c_need_store c = true -> k_ver a = V311 -> k_type a = T_PUBREC ->
  mem (k_pid a) (c_pubrec c) = true -> is_used c (k_pid a) = true ->
  match deliver g c a with
  | Ok (c2, _) => c_store c2 = store_erase_l V311 T_PUBREC (k_pid a) (c_store c) ++ [ack_pkt g T_PUBREL V311 (k_pid a) None] /\
                  c_need_store c2 = true /\ c_mps_send c2 = c_mps_send c
  | Panic _ => True
  end.
Proof.
  intros HO [Rv Rs] Ha Hn Hva Hta Hm Hu.
  unfold deliver, dispatch_recv. rewrite Hta, Rv.
  change (T_PUBREC =? 1) with false. change (T_PUBREC =? 2) with false. change (T_PUBREC =? 3) with false.
  change ((T_PUBREC =? 4) || (T_PUBREC =? 5) || (T_PUBREC =? 7) || (T_PUBREC =? 9) || (T_PUBREC =? 11)) with true. cbv iota.
  unfold recv_ack. cbv zeta. change (T_PUBREC =? T_PUBACK) with false. change (T_PUBREC =? T_PUBREC) with true.
  cbv iota. rewrite Hm. cbn [version_eqb negb orb].
  destruct (ack_PB_own g c (k_pid a) HO Hm) as (_ & [_ Hs] & _). cbv zeta in Hs. rewrite Rv in Hs.
  set (c1 := store_erase _ V311 T_PUBREC (k_pid a)) in *.
  assert (A1 : c_auto_pub c1 = true) by exact Ha.
  assert (A2 : c_status c1 = c_status c) by reflexivity.
  assert (A3 : is_used c1 (k_pid a) = true) by exact Hu.
  assert (A4 : c_need_store c1 = true) by exact Hn.
  rewrite A1, A2, Rs. cbn [andb].
  unfold send_pubrel. cbv zeta.
  change (k_ver (ack_pkt g T_PUBREL V311 (k_pid a) None)) with V311. change (k_pid (ack_pkt g T_PUBREL V311 (k_pid a) None)) with (k_pid a).
  cbn [version_eqb andb]. rewrite A2, Rs, A3. cbn [negb andb]. rewrite A4.
  unfold store_add. change (k_pid (ack_pkt g T_PUBREL V311 (k_pid a) None)) with (k_pid a). rewrite Hs. cbn [bindr].
  conn_simpl_goal. rewrite A2, Rs.
  match goal with |- match bindr (send_and_post ?y ?p ?rel []) _ with _ => _ end => set (cx := y) end.
  pose proof (post_then_refresh_x cx (ack_pkt g T_PUBREL V311 (k_pid a) None) None a) as K.
  unfold send_and_post in *. pose proof (post_extra cx) as X. cbv zeta in X. destruct (send_post_process cx) as [c2 e2]. cbn [fst bindr] in *.
  pose proof (refresh_extra c2) as X'. cbv zeta in X'. destruct (refresh_pingreq_recv c2) as [c3 e3]. cbn [fst] in *.
  destruct K as (_ & _ & _ & (_ & F2 & _) & _), X as (X1 & X2 & _), X' as (X1' & X2' & _).
  split; [rewrite F2; reflexivity|]. split; [rewrite X1', X1; exact Hn|rewrite X2', X2; reflexivity].
Qed.

Lemma sender_final_store g c a (r : N) : OWN g c -> ready c -> c_need_store c = true -> k_ver a = V311 -> k_type a = r -> (r = T_PUBACK \/ r = T_PUBCOMP) ->
  mem (k_pid a) (if r =? T_PUBACK then c_puback c else c_pubcomp c) = true -> is_used c (k_pid a) = true ->
  match deliver g c a with
  | Ok (c2, _) => c_store c2 = store_erase_l V311 r (k_pid a) (c_store c) /\ c_need_store c2 = true /\ c_mps_send c2 = c_mps_send c
  | Panic _ => True
  end.
Proof.
  intros HO [Rv Rs] Hn Hva Hta Hr Hm Hu.
  unfold deliver. unfold dispatch_recv. rewrite Hta, Rv.
  assert (Hfin : forall c1, OWN g c1 -> is_used c1 (k_pid a) = true ->
            match bindr (release_if_used c1 (k_pid a)) (fun '(c0, e1) => let '(c3, e2) := refresh_pingreq_recv c0 in Ok (c3, e1 ++ e2 ++ [ENotify a])) with
            | Ok (c2, _) => c_store c2 = c_store c1 /\ c_need_store c2 = c_need_store c1 /\ c_mps_send c2 = c_mps_send c1
            | Panic _ => True end).
  { intros c1 O1 U1. unfold release_if_used. rewrite U1. unfold is_used, pm_is_used in U1.
    destruct (release_ok g _ _ (o_wf _ _ _ _ _ _ _ _ _ O1) U1) as (a' & Er & _). rewrite Er. cbn [bindr].
    pose proof (refresh_keeps (set_pid c1 a')) as K. pose proof (refresh_extra (set_pid c1 a')) as X. cbv zeta in K, X.
    destruct (refresh_pingreq_recv (set_pid c1 a')) as [c3 e2]. cbn [fst] in K, X.
    destruct K as ((_ & F2 & _) & _), X as (X1 & X2 & _). conn_simpl. repeat split; assumption. }
  destruct Hr as [-> | ->].
  - change (T_PUBACK =? 1) with false. change (T_PUBACK =? 2) with false. change (T_PUBACK =? 3) with false.
    change ((T_PUBACK =? 4) || (T_PUBACK =? 5) || (T_PUBACK =? 7) || (T_PUBACK =? 9) || (T_PUBACK =? 11)) with true. cbv iota.
    unfold recv_ack. cbv zeta. change (T_PUBACK =? T_PUBACK) with true in *. cbv iota in *. rewrite Hm. cbn [version_eqb].
    destruct (ack_PA_own g c (k_pid a) HO Hm) as (O1 & _ & _). cbv zeta in O1. rewrite Rv in O1.
    pose proof (Hfin _ O1) as H. match type of H with ?A -> _ => assert (HA : A) by (unfold is_used, store_erase in *; conn_simpl_goal; exact Hu) end.
    specialize (H HA). destruct (bindr _ _) as [[c2 e]|]; [|exact I]. destruct H as (H1 & H2 & H3). rewrite H1, H2, H3. repeat split; try reflexivity; exact Hn.
  - change (T_PUBCOMP =? 1) with false. change (T_PUBCOMP =? 2) with false. change (T_PUBCOMP =? 3) with false.
    change ((T_PUBCOMP =? 4) || (T_PUBCOMP =? 5) || (T_PUBCOMP =? 7) || (T_PUBCOMP =? 9) || (T_PUBCOMP =? 11)) with true. cbv iota.
    unfold recv_ack. cbv zeta. change (T_PUBCOMP =? T_PUBACK) with false in *. change (T_PUBCOMP =? T_PUBREC) with false.
    change (T_PUBCOMP =? T_PUBCOMP) with true. cbv iota in *. rewrite Hm. cbn [version_eqb].
    destruct (ack_PC_own g c (k_pid a) HO Hm) as (O1 & _ & _). cbv zeta in O1. rewrite Rv in O1.
    pose proof (Hfin _ O1) as H. match type of H with ?A -> _ => assert (HA : A) by (unfold is_used, store_erase in *; conn_simpl_goal; exact Hu) end.
    specialize (H HA). destruct (bindr _ _) as [[c2 e]|]; [|exact I]. destruct H as (H1 & H2 & H3). rewrite H1, H2, H3. repeat split; try reflexivity; exact Hn.
Qed.

(* ---- the receiver's steps: any QoS 2 PUBLISH (first arrival or retransmission), persistence kept ---- *)
Lemma auto_ack_y g c t id : ready c ->
  match send_puback_like c (ack_pkt g t V311 id None) with
  | Ok (c1, e) => sends e = [ack_pkt g t V311 id None] /\ notifies e = [] /\ errors e = [] /\ F8 c1 c /\ c_status c1 = c_status c /\
                  c_auto_pub c1 = c_auto_pub c /\ c_qos2 c1 = c_qos2 c /\ c_need_store c1 = c_need_store c
  | Panic _ => False
  end.
Proof.
  intros [Rv Rs]. unfold send_puback_like. change (k_ver (ack_pkt g t V311 id None)) with V311. cbn [version_eqb andb]. rewrite Rs. cbn [negb].
  pose proof (send_and_post_x c (ack_pkt g t V311 id None) None) as K. unfold send_and_post in *. pose proof (post_extra c) as X. cbv zeta in X.
  destruct (send_post_process c) as [c1 e]. cbn [fst] in *. destruct K as (K1 & K2 & K3 & _ & F & K5 & K6 & K7), X as (X1 & _).
  repeat (split; [assumption|]). assumption.
Qed.

Lemma refresh_all c : let r := refresh_pingreq_recv c in
  F8 (fst r) c /\ c_status (fst r) = c_status c /\ c_auto_pub (fst r) = c_auto_pub c /\ c_qos2 (fst r) = c_qos2 c /\
  c_need_store (fst r) = c_need_store c /\ notifies (snd r) = [] /\ errors (snd r) = [] /\ sends (snd r) = [].
Proof. cbv zeta. unfold refresh_pingreq_recv. destruct (negb _); cbn [fst snd]; unfold F8; repeat split. Qed.

Definition rkeep (c1 c : conn) : Prop :=
  ready c1 /\ c_auto_pub c1 = c_auto_pub c /\ c_need_store c1 = c_need_store c /\ c_store c1 = c_store c.

Lemma receiver_pub1 g c p : ready c -> c_auto_pub c = true -> k_type p = T_PUBLISH -> k_ver p = V311 -> k_qos p = 1 ->
  match deliver g c p with
  | Ok (c1, e) => notifies e = [p] /\ sends e = [ack_pkt g T_PUBACK V311 (k_pid p) None] /\ errors e = [] /\
                  rkeep c1 c /\ c_qos2 c1 = c_qos2 c
  | Panic _ => False
  end.
Proof.
  intros [Rv Rs] Ha Ht Hv Hq. unfold deliver, dispatch_recv. rewrite Ht, Rv.
  change (T_PUBLISH =? 1) with false. change (T_PUBLISH =? 2) with false. change (T_PUBLISH =? 3) with true. cbn [version_eqb]. cbv iota.
  unfold recv_publish_v311. cbv zeta. rewrite Hq. change (1 =? 0) with false. change (1 =? 1) with true. cbv iota. rewrite Rs, Ha. cbn [andb].
  pose proof (auto_ack_y g c T_PUBACK (k_pid p) (conj Rv Rs)) as H.
  destruct (send_puback_like c _) as [[c1 e1]|]; cbn [bindr]; [|destruct H]. destruct H as (H1 & H2 & H3 & F & K1 & K2 & K3 & K4).
  pose proof (refresh_all c1) as Q. cbv zeta in Q.
  destruct (refresh_pingreq_recv c1) as [c2 e2]. cbn [fst snd] in *. destruct Q as (F' & Q1 & Q2 & Q3 & Q4 & Q5 & Q6 & Q7).
  ev_simpl. rewrite H1, H2, H3, Q5, Q6, Q7. cbn. do 3 (split; [reflexivity|]).
  pose proof (f8_trans _ _ _ F' F) as FF. split; [|congruence].
  split; [apply (ready_f8 c2 c FF); [congruence|split; assumption]|]. split; [congruence|]. split; [congruence|]. apply FF.
Qed.

Lemma receiver_pub2 g c p : ready c -> c_auto_pub c = true -> k_type p = T_PUBLISH -> k_ver p = V311 ->
  (k_qos p =? 0) = false -> (k_qos p =? 1) = false ->
  match deliver g c p with
  | Ok (c1, e) => notifies e = (if mem (k_pid p) (c_qos2 c) then [] else [p]) /\
                  sends e = [ack_pkt g T_PUBREC V311 (k_pid p) None] /\ errors e = [] /\
                  rkeep c1 c /\ c_qos2 c1 = ins (k_pid p) (c_qos2 c)
  | Panic _ => False
  end.
Proof.
  intros [Rv Rs] Ha Ht Hv H0 H1'. unfold deliver, dispatch_recv. rewrite Ht, Rv.
  change (T_PUBLISH =? 1) with false. change (T_PUBLISH =? 2) with false. change (T_PUBLISH =? 3) with true. cbn [version_eqb]. cbv iota.
  unfold recv_publish_v311. cbv zeta. rewrite H0, H1'.
  set (c0 := set_qos2 c (ins (k_pid p) (c_qos2 c))).
  assert (R0 : ready c0) by (split; [exact Rv|exact Rs]).
  change (c_auto_pub c0) with (c_auto_pub c). rewrite Rs, Ha. cbn [andb orb].
  pose proof (auto_ack_y g c0 T_PUBREC (k_pid p) R0) as H.
  destruct (send_puback_like c0 _) as [[c1 e1]|]; cbn [bindr]; [|destruct H]. destruct H as (H1 & H2 & H3 & F & K1 & K2 & K3 & K4).
  pose proof (refresh_all c1) as Q. cbv zeta in Q.
  destruct (refresh_pingreq_recv c1) as [c2 e2]. cbn [fst snd] in *. destruct Q as (F' & Q1 & Q2 & Q3 & Q4 & Q5 & Q6 & Q7).
  pose proof (f8_trans _ _ _ F' F) as FF0.
  destruct (mem (k_pid p) (c_qos2 c)) eqn:Em; ev_simpl; rewrite H1, H2, H3, Q5, Q6, Q7; cbn; (do 3 (split; [reflexivity|])).
  all: (split; [|rewrite Q3, K3; reflexivity]);
       (split; [apply (ready_f8 c2 c0 FF0); [congruence|exact R0]|]); (split; [rewrite Q2, K2; reflexivity|]); (split; [rewrite Q4, K4; reflexivity|]); apply FF0.
Qed.

Lemma receiver_rel g c a : ready c -> c_auto_pub c = true -> k_type a = T_PUBREL ->
  match deliver g c a with
  | Ok (c1, e) => notifies e = [a] /\ sends e = [ack_pkt g T_PUBCOMP V311 (k_pid a) None] /\ errors e = [] /\
                  rkeep c1 c /\ c_qos2 c1 = del (k_pid a) (c_qos2 c)
  | Panic _ => False
  end.
Proof.
  intros [Rv Rs] Ha Ht. unfold deliver, dispatch_recv. rewrite Ht, Rv.
  change (T_PUBREL =? 1) with false. change (T_PUBREL =? 2) with false. change (T_PUBREL =? 3) with false.
  change ((T_PUBREL =? 4) || (T_PUBREL =? 5) || (T_PUBREL =? 7) || (T_PUBREL =? 9) || (T_PUBREL =? 11)) with false.
  change (T_PUBREL =? 6) with true. cbv iota. unfold recv_pubrel. cbv zeta.
  set (c0 := set_qos2 c (del (k_pid a) (c_qos2 c))).
  assert (R0 : ready c0) by (split; [exact Rv|exact Rs]).
  change (c_auto_pub c0) with (c_auto_pub c). change (c_status c0) with (c_status c). rewrite Rs, Ha. cbn [andb version_eqb].
  pose proof (auto_ack_y g c0 T_PUBCOMP (k_pid a) R0) as H.
  destruct (send_puback_like c0 _) as [[c1 e1]|]; cbn [bindr]; [|destruct H]. destruct H as (H1 & H2 & H3 & F & K1 & K2 & K3 & K4).
  pose proof (refresh_all c1) as Q. cbv zeta in Q.
  destruct (refresh_pingreq_recv c1) as [c2 e2]. cbn [fst snd] in *. destruct Q as (F' & Q1 & Q2 & Q3 & Q4 & Q5 & Q6 & Q7).
  ev_simpl. rewrite H1, H2, H3, Q5, Q6, Q7. cbn. do 3 (split; [reflexivity|]).
  pose proof (f8_trans _ _ _ F' F) as FF. split; [|rewrite Q3, K3; reflexivity].
  split; [apply (ready_f8 c2 c0 FF); [congruence|exact R0]|]. split; [rewrite Q2, K2; reflexivity|]. split; [rewrite Q4, K4; reflexivity|]. apply FF.
Qed.

(* ---- the transport is lost and the session is resumed ---- *)
Definition connect_pkt : pkt := mkPkt T_CONNECT V311 0 0 false false [] None 0 0 14 false 0 false 0 None None None None None.   (* Clean Session = 0 *)
Definition connack_pkt : pkt := mkPkt T_CONNACK V311 0 0 false false [] None 0 0 4 true 0 true 0 None None None None None.      (* accepted, Session Present = 1 *)

Lemma closed_keeps_persistence c c' e : do_closed c = Ok (c', e) -> c_need_store c' = c_need_store c.
Proof. closed_walk; conn_simpl_goal; reflexivity. Qed.

(* notify_closed on a persistent endpoint *)
Lemma close_K g c : K g c -> c_need_store c = true ->
  exists c1 e, do_closed c = Ok (c1, e) /\ K g c1 /\ closed_shape c1 /\ c_need_store c1 = true /\
               c_store c1 = c_store c /\ c_qos2 c1 = c_qos2 c /\ c_version c1 = c_version c /\ c_auto_pub c1 = c_auto_pub c.
Proof.
  intros (HO & HS & HE & Hv) Hn.
  pose proof (do_closed_NPR g c (o_wf _ _ _ _ _ _ _ _ _ HO)) as HN.
  pose proof (do_closed_OR g c HO) as H1. pose proof (do_closed_SR c HS) as H2. pose proof (do_closed_ER c HE) as H3.
  destruct (do_closed c) as [[c1 e]|] eqn:E; [|destruct HN]. cbn [OR SR ER] in *.
  exists c1, e. split; [reflexivity|]. destruct H1 as [O1 V1].
  split; [split; [exact O1|split; [exact H2|split; [exact H3|rewrite V1; exact Hv]]]|].
  split; [exact (closed_has_shape c c1 e E)|]. split; [rewrite (closed_keeps_persistence c c1 e E); exact Hn|].
  destruct (closed_persistent_keeps_session c c1 e E Hn) as (S1 & S2 & _). destruct (closed_keeps_options c c1 e E) as (W1 & _ & _ & _ & _ & W6 & _).
  repeat split; assumption.
Qed.

Lemma K_of g c r : OR g c r -> SR c r -> ER c r -> c_version c <> VUndet -> match r with Ok (c', _) => K g c' | Panic _ => True end.
Proof.
  destruct r as [[c' e]|]; cbn [OR SR ER]; [|trivial]. intros [O V] S E Hv. split; [exact O|split; [exact S|split; [exact E|rewrite V; exact Hv]]].
Qed.

(* the client sends CONNECT without Clean Session from the closed state: the session stays *)
Definition connecting (c : conn) : conn :=
  set_ta_send (set_need_store (set_keep_alive_ms (set_status (initialize c true) Connecting) (k_keep_alive connect_pkt * 1000)) true) None.
Lemma send_connect_closed c : c_status c = Disconnected -> send_connect c connect_pkt = send_and_post (connecting c) connect_pkt None [].
Proof. intro St. unfold send_connect. change (k_ver connect_pkt) with V311. cbn [version_eqb andb]. rewrite St. reflexivity. Qed.

Lemma do_send_connect g c : role_client_ok g = true -> c_version c = V311 -> do_send g c connect_pkt = send_connect c connect_pkt.
Proof.
  intros Hrole Rv. unfold do_send. rewrite Rv. change (k_ver connect_pkt) with V311. cbn [version_eqb negb]. cbv zeta.
  change (k_type connect_pkt) with T_CONNECT. change (T_CONNECT =? T_CONNECT) with true. cbn [orb andb]. rewrite Hrole. cbn [negb andb].
  change ((T_CONNECT =? T_CONNACK) || (T_CONNECT =? T_SUBACK) || (T_CONNECT =? T_UNSUBACK) || (T_CONNECT =? T_PINGRESP)) with false. cbn [andb].
  unfold dispatch_send. cbv zeta. change (k_type connect_pkt) with T_CONNECT. change (T_CONNECT =? T_CONNECT) with true. reflexivity.
Qed.

Lemma connect_sent g c : role_client_ok g = true -> K g c -> closed_shape c -> c_version c = V311 -> c_need_store c = true ->
  exists c2 e, do_send g c connect_pkt = Ok (c2, e) /\ K g c2 /\ sends e = [connect_pkt] /\ errors e = [] /\ notifies e = [] /\
               c_status c2 = Connecting /\ c_version c2 = V311 /\ c_need_store c2 = true /\ c_store c2 = c_store c /\
               c_auto_pub c2 = c_auto_pub c /\ c_mps_send c2 = MQTT_PACKET_SIZE_NO_LIMIT.
Proof.
  intros Hrole (HO & HS & HE & Hv) Hsh Rv Hn.
  destruct Hsh as (St & _ & _ & _ & Hmps & _).
  pose proof (send_connect_OR g c connect_pkt HO) as H1. pose proof (send_connect_SR c connect_pkt HS (or_introl Hn)) as H2.
  pose proof (send_connect_ER c connect_pkt HE) as H3. pose proof (K_of g c _ H1 H2 H3 Hv) as HK. clear H1 H2 H3.
  rewrite (do_send_connect g c Hrole Rv). rewrite (send_connect_closed c St) in *.
  assert (Hcx : c_status (connecting c) = Connecting /\ c_version (connecting c) = c_version c /\ c_need_store (connecting c) = true /\
                c_store (connecting c) = c_store c /\ c_auto_pub (connecting c) = c_auto_pub c /\ c_mps_send (connecting c) = c_mps_send c)
    by (repeat split; reflexivity).
  destruct Hcx as (Y1 & Y2 & Y3 & Y4 & Y5 & Y6). generalize dependent (connecting c). intros cx HK Y1 Y2 Y3 Y4 Y5 Y6.
  pose proof (send_and_post_x cx connect_pkt None) as K'. unfold send_and_post in *. pose proof (post_extra cx) as X. cbv zeta in X.
  destruct (send_post_process cx) as [c2 e2]. cbn [fst] in *. destruct K' as (K1 & K2 & K3 & _ & F & K5 & K6 & _), X as (X1 & X2 & _).
  exists c2, ([] ++ [ESend connect_pkt None] ++ e2). split; [reflexivity|]. split; [exact HK|]. split; [exact K1|]. split; [exact K3|]. split; [exact K2|].
  split; [congruence|]. split; [destruct F as (_ & _ & _ & _ & _ & _ & _ & F); congruence|]. split; [congruence|].
  split; [destruct F as (_ & F & _); congruence|]. split; [congruence|]. congruence.
Qed.

(* nothing is dropped on resume when everything stored fits the limit *)
Lemma stored_keep_all mps l : Forall (fun q => k_size q <= mps) l -> send_stored_l mps l = (l, []).
Proof.
  induction 1 as [|q t Hq Ht IH]; cbn [send_stored_l]; [reflexivity|]. rewrite IH.
  assert (E : (mps <? k_size q) = false) by (apply N.ltb_ge; exact Hq). rewrite E. reflexivity.
Qed.
Lemma stored_events_all mps l : Forall (fun q => k_size q <= mps) l -> send_stored_events mps l = map (fun q => ESend (store_into q) None) l.
Proof.
  induction 1 as [|q t Hq Ht IH]; cbn [send_stored_events map]; [reflexivity|]. rewrite IH.
  assert (E : (mps <? k_size q) = false) by (apply N.ltb_ge; exact Hq). rewrite E. reflexivity.
Qed.
Lemma sends_map_send l : sends (map (fun q => ESend (store_into q) None) l) = map store_into l.
Proof. induction l as [|q t IH]; cbn; [reflexivity|]. unfold sends in IH. now rewrite IH. Qed.
Lemma errors_map_send l : errors (map (fun q => ESend (store_into q) None) l) = [].
Proof. induction l as [|q t IH]; cbn; [reflexivity|]. exact IH. Qed.
Lemma notifies_map_send l : notifies (map (fun q => ESend (store_into q) None) l) = [].
Proof. induction l as [|q t IH]; cbn; [reflexivity|]. exact IH. Qed.

Definition stored_fit (c : conn) : Prop := Forall (fun q => k_size q <= c_mps_send c) (c_store c).

Lemma send_stored_all c : stored_fit c ->
  exists c', send_stored c = Ok (c', map (fun q => ESend (store_into q) None) (c_store c)) /\
             c_store c' = c_store c /\ c_status c' = c_status c /\ c_version c' = c_version c /\ c_need_store c' = c_need_store c /\
             c_auto_pub c' = c_auto_pub c /\ c_mps_send c' = c_mps_send c /\ c_qos2 c' = c_qos2 c.
Proof.
  intro Hf. unfold send_stored. rewrite (stored_keep_all _ _ Hf), (stored_events_all _ _ Hf). cbv zeta. cbn [map fold_left release_all bindr].
  conn_simpl_goal. eexists. split; [reflexivity|]. destruct (c_send_max c); conn_simpl_goal; repeat split.
Qed.

(* the client receives the CONNACK with Session Present: it is established again and requests everything it has stored *)
Lemma connack_received g c : K g c -> c_status c = Connecting -> c_version c = V311 -> c_need_store c = true -> stored_fit c ->
  exists c3 e, deliver g c connack_pkt = Ok (c3, e) /\ K g c3 /\ sends e = map store_into (c_store c) /\ errors e = [] /\
               ready c3 /\ c_need_store c3 = true /\ c_store c3 = c_store c /\ c_auto_pub c3 = c_auto_pub c /\ c_mps_send c3 = c_mps_send c.
Proof.
  intros (HO & HS & HE & Hv) St Rv Hn Hf.
  pose proof (recv_connack_OR g c V311 (PROk connack_pkt) HO) as H1.
  pose proof (recv_connack_SR g c V311 (PROk connack_pkt) HO HS (or_introl Hn)) as H2.
  pose proof (recv_connack_ER c V311 (PROk connack_pkt) HE) as H3. pose proof (K_of g c _ H1 H2 H3 Hv) as HK. clear H1 H2 H3.
  unfold deliver, dispatch_recv. rewrite Rv. change (k_type connack_pkt) with T_CONNACK.
  change (T_CONNACK =? 1) with false. change (T_CONNACK =? 2) with true. cbv iota.
  unfold recv_connack in *. rewrite St in *. cbn [status_eqb] in *. change (k_rc connack_pkt =? 0) with true in *. cbv iota in *.
  cbn [version_eqb] in *. change (k_flag connack_pkt) with true in *. unfold resume_or_clear in *.
  set (c0 := set_status c Connected) in *.
  assert (Hf0 : stored_fit c0) by exact Hf.
  destruct (send_stored_all c0 Hf0) as (c1 & E1 & S1 & S2 & S3 & S4 & S5 & S6 & _). rewrite E1 in *. cbn [bindr] in *.
  assert (Y : c_store c0 = c_store c /\ c_status c0 = Connected /\ c_version c0 = c_version c /\ c_need_store c0 = c_need_store c /\
              c_auto_pub c0 = c_auto_pub c /\ c_mps_send c0 = c_mps_send c) by (repeat split).
  destruct Y as (Y1 & Y2 & Y3 & Y4 & Y5 & Y6). clearbody c0.
  set (es := map (fun q => ESend (store_into q) None) (c_store c0)) in *.
  assert (Es : sends es = map store_into (c_store c0) /\ errors es = [] /\ notifies es = [])
    by (unfold es; split; [apply sends_map_send|split; [apply errors_map_send|apply notifies_map_send]]).
  destruct Es as (Es1 & Es2 & Es3). clearbody es.
  destruct (existsb _ es).
  - pose proof (post_keeps c1) as P. pose proof (post_quiet c1) as Q. pose proof (post_extra c1) as X. cbv zeta in P, Q, X.
    destruct (send_post_process c1) as [c2 e2]. cbn [fst snd bindr] in *. destruct P as (F & P1 & P2 & _), Q as (Q1 & Q2 & Q3 & _), X as (X1 & X2 & _).
    eexists _, _. split; [reflexivity|]. split; [exact HK|]. ev_simpl. rewrite Es1, Es2, Q2, Q3. cbn. rewrite !app_nil_r.
    split; [congruence|]. split; [reflexivity|].
    split; [split; [destruct F as (_ & _ & _ & _ & _ & _ & _ & F); congruence|rewrite P1, S2, Y2; reflexivity]|].
    split; [congruence|]. split; [destruct F as (_ & F & _); congruence|]. split; congruence.
  - cbn [bindr] in *. eexists _, _. split; [reflexivity|]. split; [exact HK|]. ev_simpl. rewrite Es1, Es2. cbn. rewrite !app_nil_r.
    split; [congruence|]. split; [reflexivity|].
    split; [split; [congruence|rewrite S2, Y2; reflexivity]|]. split; [congruence|]. split; [congruence|]. split; congruence.
Qed.

(* the server receives the CONNECT in the closed state: the session stays *)
Definition srv_connecting (c : conn) : conn := set_need_store (initialize (set_status c Connecting) false) true.
Lemma recv_connect_closed g c : c_status c = Disconnected ->
  recv_connect g c V311 (PROk connect_pkt) =
  (let '(c', e) := refresh_pingreq_recv (srv_connecting c) in Ok (c', e ++ [ENotify connect_pkt])).
Proof.
  intro St. unfold recv_connect. rewrite St. cbn [status_eqb negb]. cbv zeta. unfold connect_recv_state. cbv zeta.
  change (0 <? k_keep_alive connect_pkt) with false. change (k_flag connect_pkt) with false. cbn [version_eqb]. cbv iota. cbn [bindr]. reflexivity.
Qed.

Lemma connect_received g c : K g c -> closed_shape c -> c_version c = V311 -> c_need_store c = true ->
  exists c2 e, deliver g c connect_pkt = Ok (c2, e) /\ K g c2 /\ notifies e = [connect_pkt] /\ errors e = [] /\ sends e = [] /\
               c_status c2 = Connecting /\ c_version c2 = V311 /\ c_need_store c2 = true /\ c_store c2 = c_store c /\
               c_auto_pub c2 = c_auto_pub c /\ c_qos2 c2 = c_qos2 c.
Proof.
  intros (HO & HS & HE & Hv) Hsh Rv Hn. destruct Hsh as (St & _).
  pose proof (recv_connect_OR g c V311 (PROk connect_pkt) HO) as H1.
  pose proof (recv_connect_SR g c V311 (PROk connect_pkt) HO HS (or_introl Hn)) as H2.
  pose proof (recv_connect_ER g c V311 (PROk connect_pkt) HE) as H3. pose proof (K_of g c _ H1 H2 H3 Hv) as HK. clear H1 H2 H3.
  unfold deliver, dispatch_recv. rewrite Rv. change (k_type connect_pkt) with T_CONNECT. change (T_CONNECT =? 1) with true. cbv iota.
  rewrite (recv_connect_closed g c St) in *.
  assert (Y : c_status (srv_connecting c) = Connecting /\ c_version (srv_connecting c) = c_version c /\ c_need_store (srv_connecting c) = true /\
              c_store (srv_connecting c) = c_store c /\ c_auto_pub (srv_connecting c) = c_auto_pub c /\ c_qos2 (srv_connecting c) = c_qos2 c)
    by (repeat split; reflexivity).
  destruct Y as (Y1 & Y2 & Y3 & Y4 & Y5 & Y6). generalize dependent (srv_connecting c). intros cx HK Y1 Y2 Y3 Y4 Y5 Y6.
  pose proof (refresh_all cx) as Q. cbv zeta in Q. destruct (refresh_pingreq_recv cx) as [c2 e2]. cbn [fst snd] in *.
  destruct Q as (F & Q1 & Q2 & Q3 & Q4 & Q5 & Q6 & Q7).
  exists c2, (e2 ++ [ENotify connect_pkt]). split; [reflexivity|]. split; [exact HK|]. ev_simpl. rewrite Q5, Q6, Q7. cbn.
  do 3 (split; [reflexivity|]). split; [congruence|]. split; [destruct F as (_ & _ & _ & _ & _ & _ & _ & F); congruence|].
  split; [congruence|]. split; [destruct F as (_ & F & _); congruence|]. split; congruence.
Qed.

(* the server sends the CONNACK with Session Present; it has nothing stored of its own *)
Lemma do_send_connack g c : role_server_ok g = true -> c_version c = V311 -> do_send g c connack_pkt = send_connack c connack_pkt.
Proof.
  intros Hrole Rv. unfold do_send. rewrite Rv. change (k_ver connack_pkt) with V311. cbn [version_eqb negb]. cbv zeta.
  change (k_type connack_pkt) with T_CONNACK.
  change ((T_CONNACK =? T_CONNECT) || (T_CONNACK =? T_SUBSCRIBE) || (T_CONNACK =? T_UNSUBSCRIBE) || (T_CONNACK =? T_PINGREQ) || (T_CONNACK =? T_DISCONNECT) && negb false) with false.
  change (T_CONNACK =? T_CONNACK) with true. cbn [orb andb]. rewrite Hrole. cbn [negb andb].
  unfold dispatch_send. cbv zeta. change (k_type connack_pkt) with T_CONNACK. change (T_CONNACK =? T_CONNECT) with false. change (T_CONNACK =? T_CONNACK) with true. reflexivity.
Qed.

Lemma connack_sent g c : role_server_ok g = true -> K g c -> c_status c = Connecting -> c_version c = V311 -> c_need_store c = true -> c_store c = [] ->
  exists c3 e, do_send g c connack_pkt = Ok (c3, e) /\ K g c3 /\ sends e = [connack_pkt] /\ errors e = [] /\
               ready c3 /\ c_need_store c3 = true /\ c_store c3 = [] /\ c_auto_pub c3 = c_auto_pub c /\ c_qos2 c3 = c_qos2 c.
Proof.
  intros Hrole (HO & HS & HE & Hv) St Rv Hn Hst.
  pose proof (send_connack_OR g c connack_pkt HO) as H1. pose proof (send_connack_SR g c connack_pkt HO HS) as H2.
  pose proof (send_connack_ER c connack_pkt HE) as H3. pose proof (K_of g c _ H1 H2 H3 Hv) as HK. clear H1 H2 H3.
  rewrite (do_send_connack g c Hrole Rv).
  unfold send_connack in *. change (k_ver connack_pkt) with V311 in *. cbn [version_eqb andb] in *. rewrite St in *. cbn [status_eqb negb] in *. cbv zeta in *.
  unfold connack_send_props in *. change (k_ver connack_pkt) with V311 in *. cbn [version_eqb andb] in *. change (k_rc connack_pkt =? 0) with true in *. cbn [negb] in *.
  set (c0 := set_status c Connected) in *.
  assert (Hf0 : stored_fit c0) by (unfold stored_fit; change (c_store c0) with (c_store c); rewrite Hst; constructor).
  destruct (send_stored_all c0 Hf0) as (c1 & E1 & S1 & S2 & S3 & S4 & S5 & S6 & S7). rewrite E1 in *. cbn [bindr] in *.
  assert (Y : c_store c0 = c_store c /\ c_status c0 = Connected /\ c_version c0 = c_version c /\ c_need_store c0 = c_need_store c /\
              c_auto_pub c0 = c_auto_pub c /\ c_qos2 c0 = c_qos2 c) by (repeat split).
  destruct Y as (Y1 & Y2 & Y3 & Y4 & Y5 & Y6). clearbody c0. rewrite Y1, Hst in *. cbn [map] in *.
  pose proof (post_keeps c1) as P. pose proof (post_quiet c1) as Q. pose proof (post_extra c1) as X. cbv zeta in P, Q, X.
  destruct (send_post_process c1) as [c2 e2]. cbn [fst snd] in *. destruct P as (F & P1 & P2 & P3 & _), Q as (Q1 & Q2 & Q3 & _), X as (X1 & X2 & _).
  eexists _, _. split; [reflexivity|]. split; [exact HK|]. ev_simpl. rewrite Q2, Q3. cbn.
  do 2 (split; [reflexivity|]).
  split; [split; [destruct F as (_ & _ & _ & _ & _ & _ & _ & F); congruence|rewrite P1, S2, Y2; reflexivity]|].
  split; [congruence|]. split; [destruct F as (_ & F & _); congruence|]. split; congruence.
Qed.

(* ---- the system with losses ---- *)
Section Loss.
Variables gs gr : cfg.
Hypothesis gs_client : role_client_ok gs = true.
Hypothesis gr_server : role_server_ok gr = true.
Hypothesis idw_small : 2 + g_idw gs <= MQTT_PACKET_SIZE_NO_LIMIT.

Inductive actL := PubL (p : pkt) | ToRL | ToSL | Lose.

(* the transport is lost: both sides are told, what was in flight is gone; the client reconnects without Clean Session, the
   server accepts with Session Present, the client retransmits what it has stored.  Bad = any call panics, reports an error,
   or one of the four handshake steps does not do exactly what it should *)
Definition do_lose (s : sys) : res3 :=
  match do_closed (cs s), do_closed (cr s) with
  | Ok (c1, _), Ok (r1, _) =>
    match do_send gs c1 connect_pkt with
    | Ok (c2, e2) =>
      match one (sends e2) with
      | Some cn =>
        if negb (none (errors e2)) then Bad else
        match deliver gr r1 cn with
        | Ok (r2, e5) =>
          if negb (none (errors e5) && none (sends e5)) then Bad else
          match do_send gr r2 connack_pkt with
          | Ok (r3, e6) =>
            match one (sends e6) with
            | Some ca =>
              if negb (none (errors e6)) then Bad else
              match deliver gs c2 ca with
              | Ok (c3, e3) => if negb (none (errors e3)) then Bad
                               else Next (mkSys c3 r3 (sends e3) [] (published s) (delivered s))
              | Panic _ => Bad
              end
            | None => Bad
            end
          | Panic _ => Bad
          end
        | Panic _ => Bad
        end
      | None => Bad
      end
    | Panic _ => Bad
    end
  | _, _ => Bad
  end.

Definition do_actL (s : sys) (a : actL) : res3 :=
  match a with PubL p => do_pub gs s p | ToRL => do_to_r gr s | ToSL => do_to_s gs s | Lose => do_lose s end.

Fixpoint run_schedL (s : sys) (l : list actL) : option sys :=
  match l with
  | [] => Some s
  | a :: t => match do_actL s a with Next s' => run_schedL s' t | Skip => run_schedL s t | Bad => None end
  end.

(* packets in flight towards the receiver: original or retransmitted *)
Definition flL_sr (c : conn) (x : pkt) : Prop :=
  is_used c (k_pid x) = true /\ k_ver x = V311 /\
  ((k_type x = T_PUBLISH /\ k_qos x = 1 /\ mem (k_pid x) (c_puback c) = true) \/
   (k_type x = T_PUBLISH /\ (k_qos x =? 0) = false /\ (k_qos x =? 1) = false /\ mem (k_pid x) (c_pubrec c) = true) \/
   (k_type x = T_PUBREL /\ mem (k_pid x) (c_pubcomp c) = true)).

Definition invL (s : sys) : Prop :=
  K gs (cs s) /\ ready (cs s) /\ c_auto_pub (cs s) = true /\ c_need_store (cs s) = true /\
  c_mps_send (cs s) = MQTT_PACKET_SIZE_NO_LIMIT /\ stored_fit (cs s) /\
  K gr (cr s) /\ ready (cr s) /\ c_auto_pub (cr s) = true /\ c_need_store (cr s) = true /\ c_store (cr s) = [] /\
  asc 1 (g_idmax gs) (c_qos2 (cr s)) /\
  Forall (flL_sr (cs s)) (qsr s) /\ Forall (fl_rs gr (cs s)) (qrs s) /\
  NoDup (ids (qsr s) ++ ids (qrs s)) /\
  (forall y, mem y (c_qos2 (cr s)) = true -> hask T_PUBREC (c_store (cs s)) y = true \/ hask T_PUBCOMP (c_store (cs s)) y = true) /\
  (forall x, In x (qrs s) -> k_type x = T_PUBCOMP -> mem (k_pid x) (c_qos2 (cr s)) = false).

Lemma flL_sr_frame c' c id x : AE c' c id -> k_pid x <> id -> flL_sr c x -> flL_sr c' x.
Proof. intros H Hne (Hu & Hv & Hc). destruct (H _ Hne) as (H1 & H2 & H3 & H4). unfold flL_sr. rewrite H1, H2, H3, H4. repeat split; assumption. Qed.
Lemma flightL_used c l i : Forall (flL_sr c) l -> In i (ids l) -> is_used c i = true.
Proof. intros Hf Hi. unfold ids in Hi. apply in_map_iff in Hi as (x & <- & Hx). rewrite Forall_forall in Hf. apply (Hf x Hx). Qed.

(* the receiver's K across a delivery: it stores nothing *)
Lemma recv_K c x : K gr c -> ready c -> c_store c = [] ->
  match deliver gr c x with Ok (c1, _) => c_store c1 = c_store c -> K gr c1 | Panic _ => True end.
Proof.
  intros (HO & HS & HE & Hv) [Rv Rs] Hst. unfold deliver.
  pose proof (dispatch_recv_OR gr c (k_type x) (PROk x) HO) as H1.
  assert (Hc : c_status c = Connected) by (destruct (c_status c); cbn in Rs; try discriminate; reflexivity).
  pose proof (dispatch_recv_SR gr c (k_type x) (PROk x) HO HS (or_intror Hc)) as H2.
  destruct (dispatch_recv gr c (c_version c) (k_type x) (PROk x)) as [[c1 e]|]; [|exact I]. cbn [OR SR] in *. destruct H1 as [O1 V1].
  intro Es. split; [exact O1|]. split; [exact H2|]. split; [intros q Hq; rewrite Es, Hst in Hq; destruct Hq|rewrite V1; exact Hv].
Qed.

Lemma w_sr_pubn x : is_pub x = true -> (k_qos x =? 1) = false -> w_sr x = 4%nat. Proof. intros H1 H2. unfold w_sr. rewrite H1, H2. reflexivity. Qed.
Ltac measL :=
  unfold measure; cbn [qsr qrs]; rewrite ?wsum_app, ?wsum_cons, ?wsum_nil, ?w_sr_pubrel, ?w_rs_ack;
  repeat match goal with
         | Hi : is_pub ?x = true, Hq : k_qos ?x = 1 |- context [w_sr ?x] => rewrite (w_sr_pub1 x Hi Hq)
         | Hi : is_pub ?x = true, Hq : (k_qos ?x =? 1) = false |- context [w_sr ?x] => rewrite (w_sr_pubn x Hi Hq)
         | Hi : is_pub ?x = false |- context [w_sr ?x] => rewrite (w_sr_rel x Hi)
         | Ht : k_type ?x = ?t |- context [w_rs ?x] => rewrite (w_rs_type x t Ht)
         end;
  change (T_PUBACK =? T_PUBREC) with false; change (T_PUBREC =? T_PUBREC) with true; change (T_PUBCOMP =? T_PUBREC) with false;
  cbv iota; lia.
Ltac fold_acksL :=
  repeat match goal with
         | |- context [ack_pkt gr ?t V311 ?i None] => change (ack_pkt gr t V311 i None) with (ack_of gr t i)
         | |- context [ack_pkt gs T_PUBREL V311 ?i None] => change (ack_pkt gs T_PUBREL V311 i None) with (pubrel_of gs i)
         end.

Lemma mem_del_self l id : asc 1 (g_idmax gs) l -> mem id (del id l) = false.
Proof. intro Ha. rewrite (mem_del gs id id l Ha), N.eqb_refl. apply andb_false_r. Qed.

(* ---- a packet reaches the receiver ---- *)
Lemma toL_r_step s : invL s -> match do_to_r gr s with Next s' => invL s' /\ S (measure s') = measure s | Skip => qsr s = [] | Bad => False end.
Proof.
  destruct s as [cs0 cr0 qsr0 qrs0 pub0 del0]. unfold invL, do_to_r. cbn [cs cr qsr qrs published delivered].
  intros (HK & Rs & Has & Hns & Hmp & Hfit & HKr & Rr & Har & Hnr & Hsr & Hasc & Fsr & Frs & Hnd & Hq & Hpc).
  destruct qsr0 as [|x t]; [reflexivity|]. inversion Fsr as [|? ? Hx Ht]; subst. cbn [ids map app] in Hnd.
  assert (Hnx : ~ In (k_pid x) (ids t ++ ids qrs0)) by (apply NoDup_cons_iff in Hnd; apply Hnd).
  pose proof (recv_K cr0 x HKr Rr Hsr) as HKr'.
  destruct HK as (HO & HS & HE & Hv). pose proof (HS Hns) as HSX.
  destruct Hx as (Hu & Hvx & [(Htp & Hqq & Hm)|[(Htp & Hq0 & Hq1 & Hm)|(Htp & Hm)]]).
  - (* QoS 1 PUBLISH *)
    pose proof (receiver_pub1 gr cr0 x Rr Har Htp Hvx Hqq) as H.
    destruct (deliver gr cr0 x) as [[cr1 e]|]; [|destruct H]. destruct H as (N1 & S1 & X1 & (Rr1 & Ar1 & Nr1 & Sr1) & Q1).
    rewrite S1, X1, N1. fold_acksL. cbn [one none negb filter].
    assert (Hip : is_pub x = true) by (unfold is_pub; rewrite Htp; reflexivity). rewrite Hip.
    cbn [cs cr qsr qrs published delivered].
    split; [|measL]. split; [exact (conj HO (conj HS (conj HE Hv)))|]. split; [exact Rs|]. split; [exact Has|]. split; [exact Hns|]. split; [exact Hmp|]. split; [exact Hfit|].
    split; [exact (HKr' Sr1)|]. split; [exact Rr1|]. split; [congruence|]. split; [congruence|]. split; [congruence|]. split; [rewrite Q1; exact Hasc|].
    split; [exact Ht|]. split.
    { apply Forall_app. split; [exact Frs|]. constructor; [|constructor]. unfold fl_rs. rewrite ack_pid. split; [exact Hu|]. left. split; [reflexivity|exact Hm]. }
    split; [rewrite ids_app; cbn [ids map]; rewrite ack_pid; apply nodup_move; exact Hnd|].
    split; [intros y Hy; rewrite Q1 in Hy; exact (Hq y Hy)|].
    intros z Hz Hzt. rewrite Q1. apply in_app_or in Hz as [Hz|Hz]; [exact (Hpc z Hz Hzt)|]. destruct Hz as [<-|[]]. rewrite ack_type in Hzt. discriminate.
  - (* QoS 2 PUBLISH, first arrival or retransmission *)
    pose proof (receiver_pub2 gr cr0 x Rr Har Htp Hvx Hq0 Hq1) as H.
    destruct (deliver gr cr0 x) as [[cr1 e]|]; [|destruct H]. destruct H as (N1 & S1 & X1 & (Rr1 & Ar1 & Nr1 & Sr1) & Q1).
    rewrite S1, X1. fold_acksL. cbn [one none negb].
    assert (Hip : is_pub x = true) by (unfold is_pub; rewrite Htp; reflexivity).
    cbn [cs cr qsr qrs published delivered].
    pose proof (used_range gs _ _ (o_wf _ _ _ _ _ _ _ _ _ HO) Hu) as Hrg.
    split; [|measL]. split; [exact (conj HO (conj HS (conj HE Hv)))|]. split; [exact Rs|]. split; [exact Has|]. split; [exact Hns|]. split; [exact Hmp|]. split; [exact Hfit|].
    split; [exact (HKr' Sr1)|]. split; [exact Rr1|]. split; [congruence|]. split; [congruence|]. split; [congruence|].
    split; [rewrite Q1; unfold ins; apply asc_insert; [exact Hasc|apply Hrg|apply Hrg]|].
    split; [exact Ht|]. split.
    { apply Forall_app. split; [exact Frs|]. constructor; [|constructor]. unfold fl_rs. rewrite ack_pid. split; [exact Hu|]. right. left. split; [reflexivity|exact Hm]. }
    split; [rewrite ids_app; cbn [ids map]; rewrite ack_pid; apply nodup_move; exact Hnd|].
    split.
    { intros y Hy. rewrite Q1, mem_ins in Hy. apply orb_true_iff in Hy as [Hy|Hy]; [|exact (Hq y Hy)].
      apply N.eqb_eq in Hy. subst y. left. destruct (HSX (k_pid x)) as (_ & H2 & _). exact (H2 Hm). }
    intros z Hz Hzt. rewrite Q1. apply in_app_or in Hz as [Hz|Hz].
    + assert (Hne : k_pid z <> k_pid x) by (intro E; apply Hnx; apply in_or_app; right; rewrite <- E; now apply in_ids).
      rewrite (mem_ins_ne _ _ _ Hne). exact (Hpc z Hz Hzt).
    + destruct Hz as [<-|[]]. rewrite ack_type in Hzt. discriminate.
  - (* PUBREL *)
    pose proof (receiver_rel gr cr0 x Rr Har Htp) as H.
    destruct (deliver gr cr0 x) as [[cr1 e]|]; [|destruct H]. destruct H as (N1 & S1 & X1 & (Rr1 & Ar1 & Nr1 & Sr1) & Q1).
    rewrite S1, X1. fold_acksL. cbn [one none negb].
    assert (Hip : is_pub x = false) by (unfold is_pub; rewrite Htp; reflexivity).
    cbn [cs cr qsr qrs published delivered].
    split; [|measL]. split; [exact (conj HO (conj HS (conj HE Hv)))|]. split; [exact Rs|]. split; [exact Has|]. split; [exact Hns|]. split; [exact Hmp|]. split; [exact Hfit|].
    split; [exact (HKr' Sr1)|]. split; [exact Rr1|]. split; [congruence|]. split; [congruence|]. split; [congruence|].
    split; [rewrite Q1; unfold del; apply asc_remove; exact Hasc|].
    split; [exact Ht|]. split.
    { apply Forall_app. split; [exact Frs|]. constructor; [|constructor]. unfold fl_rs. rewrite ack_pid. split; [exact Hu|]. right. right. split; [reflexivity|exact Hm]. }
    split; [rewrite ids_app; cbn [ids map]; rewrite ack_pid; apply nodup_move; exact Hnd|].
    split.
    { intros y Hy. rewrite Q1 in Hy. rewrite (mem_del gs y (k_pid x) _ Hasc) in Hy. apply andb_true_iff in Hy as [Hy _]. exact (Hq y Hy). }
    intros z Hz Hzt. rewrite Q1. apply in_app_or in Hz as [Hz|Hz].
    + rewrite (mem_del gs _ (k_pid x) _ Hasc), (Hpc z Hz Hzt). reflexivity.
    + destruct Hz as [<-|[]]. rewrite ack_pid. apply mem_del_self. exact Hasc.
Qed.

(* the sender's K across a delivery, given where its new store entries come from *)
Lemma send_K c x : K gs c -> ready c ->
  match deliver gs c x with
  | Ok (c2, _) => (forall q, In q (c_store c2) -> In q (c_store c) \/ entry_okb q = true) -> K gs c2
  | Panic _ => True
  end.
Proof.
  intros (HO & HS & HE & Hv) [Rv Rs]. unfold deliver.
  pose proof (dispatch_recv_OR gs c (k_type x) (PROk x) HO) as H1.
  assert (Hc : c_status c = Connected) by (destruct (c_status c); cbn in Rs; try discriminate; reflexivity).
  pose proof (dispatch_recv_SR gs c (k_type x) (PROk x) HO HS (or_intror Hc)) as H2.
  destruct (dispatch_recv gs c (c_version c) (k_type x) (PROk x)) as [[c1 e]|]; [|exact I]. cbn [OR SR] in *. destruct H1 as [O1 V1].
  intro Es. split; [exact O1|]. split; [exact H2|]. split; [|rewrite V1; exact Hv].
  intros q Hq. destruct (Es q Hq) as [Hi|Hi]; [exact (HE q Hi)|exact Hi].
Qed.

Lemma hask_erase_other v r id S r' y : hask r' S y = true -> (y <> id \/ r' <> r) -> hask r' (store_erase_l v r id S) y = true.
Proof.
  intros H Hne. apply hask_In in H as (q & Hq & E1 & E2). apply hask_In. exists q. split; [|split; assumption].
  apply erase_l_keep; [exact Hq|]. destruct Hne as [Hne|Hne]; [left; congruence|right; congruence].
Qed.
Lemma hask_app_l r S S' y : hask r S y = true -> hask r (S ++ S') y = true.
Proof. intro H. apply (hask_sub r S); [|exact H]. intros q Hq _. apply in_or_app. now left. Qed.
Lemma fit_erase c v r id : forall mps, Forall (fun q => k_size q <= mps) (c_store c) -> Forall (fun q => k_size q <= mps) (store_erase_l v r id (c_store c)).
Proof. intros mps H. rewrite Forall_forall in *. intros q Hq. apply H. now apply (erase_l_sub v r id). Qed.

(* ---- a packet reaches the sender ---- *)
Lemma toL_s_step s : invL s -> match do_to_s gs s with Next s' => invL s' /\ S (measure s') = measure s | Skip => qrs s = [] | Bad => False end.
Proof.
  destruct s as [cs0 cr0 qsr0 qrs0 pub0 del0]. unfold invL, do_to_s. cbn [cs cr qsr qrs published delivered].
  intros (HK & Rs & Has & Hns & Hmp & Hfit & HKr & Rr & Har & Hnr & Hsr & Hasc & Fsr & Frs & Hnd & Hq & Hpc).
  destruct qrs0 as [|x t]; [reflexivity|]. inversion Frs as [|? ? Hx Ht]; subst. cbn [ids map] in Hnd.
  assert (Hnx : ~ In (k_pid x) (ids qsr0 ++ ids t)) by (apply NoDup_remove_2 in Hnd; exact Hnd).
  assert (Hn1 : ~ In (k_pid x) (ids qsr0)) by (intro Hi; apply Hnx; apply in_or_app; now left).
  assert (Hn2 : ~ In (k_pid x) (ids t)) by (intro Hi; apply Hnx; apply in_or_app; now right).
  pose proof (send_K cs0 x HK Rs) as HK'.
  destruct HK as (HO & HS & HE & Hv).
  assert (Hpc' : forall z, In z t -> k_type z = T_PUBCOMP -> mem (k_pid z) (c_qos2 cr0) = false) by (intros z Hz; apply Hpc; now right).
  destruct Hx as [Hu [[He Hm]|[[He Hm]|[He Hm]]]].
  - (* PUBACK *)
    assert (Hvx : k_ver x = V311) by (rewrite He; reflexivity). assert (Htp : k_type x = T_PUBACK) by (rewrite He; reflexivity).
    pose proof (sender_final_ack_x gs cs0 x T_PUBACK HO Rs Hvx Htp (or_introl eq_refl) Hm Hu) as H.
    pose proof (sender_final_sets gs cs0 x T_PUBACK HO Rs Hvx Htp (or_introl eq_refl) Hm Hu) as H'.
    pose proof (sender_final_store gs cs0 x T_PUBACK HO Rs Hns Hvx Htp (or_introl eq_refl) Hm Hu) as H''.
    destruct (deliver gs cs0 x) as [[c2 e]|]; [|destruct H]. destruct H as (L1 & S1 & X1 & O2 & R2 & A2 & _ & _).
    destruct H' as (U2 & P1 & P2 & P3). change (T_PUBACK =? T_PUBACK) with true in P1, P3. cbv iota in P1, P3.
    destruct H'' as (T1 & T2 & T3).
    rewrite X1, S1, L1, N.eqb_refl. cbn [none negb]. cbn [cs cr qsr qrs published delivered].
    assert (HA : AE c2 cs0 (k_pid x)) by (apply (ae_final gs); [exact HO|exact U2|left; split; assumption|exact P2]).
    split; [|measL].
    split; [apply HK'; intros q0 Hq0; left; rewrite T1 in Hq0; now apply (erase_l_sub V311 T_PUBACK (k_pid x))|].
    split; [exact R2|]. split; [congruence|]. split; [exact T2|]. split; [congruence|].
    split; [unfold stored_fit; rewrite T1, T3; apply fit_erase; exact Hfit|].
    split; [exact HKr|]. split; [exact Rr|]. split; [exact Har|]. split; [exact Hnr|]. split; [exact Hsr|]. split; [exact Hasc|].
    split; [apply (Forall_frame (flL_sr cs0) (flL_sr c2) qsr0 (k_pid x)); [intros z Hz Hfz; exact (flL_sr_frame c2 cs0 (k_pid x) z HA Hz Hfz)|exact Hn1|exact Fsr]|].
    split; [apply (Forall_frame (fl_rs gr cs0) (fl_rs gr c2) t (k_pid x)); [intros z Hz Hfz; exact (fl_rs_frame gr c2 cs0 (k_pid x) z HA Hz Hfz)|exact Hn2|exact Ht]|].
    split; [apply NoDup_remove_1 in Hnd; exact Hnd|].
    split; [|exact Hpc'].
    intros y Hy. rewrite T1. destruct (Hq y Hy) as [Hh|Hh]; [left|right]; (apply hask_erase_other; [exact Hh|right; discriminate]).
  - (* PUBREC *)
    assert (Hvx : k_ver x = V311) by (rewrite He; reflexivity). assert (Htp : k_type x = T_PUBREC) by (rewrite He; reflexivity).
    pose proof (sender_pubrec_x gs cs0 x HO Rs Has Hvx Htp Hm Hu) as H.
    pose proof (sender_pubrec_sets gs cs0 x HO Rs Has Hvx Htp Hm Hu) as H'.
    pose proof (sender_pubrec_store gs cs0 x HO Rs Has Hns Hvx Htp Hm Hu) as H''.
    destruct (deliver gs cs0 x) as [[c2 e]|]; [|destruct H]. destruct H as (S1 & X1 & L1 & O2 & R2 & A2 & U2 & M2).
    destruct H' as (P0 & P1 & P2 & P3). destruct H'' as (T1 & T2 & T3).
    rewrite X1, S1, L1. fold_acksL. cbn [none negb]. cbn [cs cr qsr qrs published delivered].
    destruct (o_asc _ _ _ _ _ _ _ _ _ HO) as (A1' & A2' & A3' & _).
    assert (HA : AE c2 cs0 (k_pid x)).
    { intros y Hne. rewrite P1, P2, P3. rewrite (mem_del_ne gs _ y _ A2' Hne), (mem_ins_ne _ y _ Hne). unfold is_used. rewrite P0. repeat split. }
    split; [|measL].
    split.
    { apply HK'. intros q0 Hq0. rewrite T1 in Hq0. apply in_app_or in Hq0 as [Hq0|Hq0]; [left; now apply (erase_l_sub V311 T_PUBREC (k_pid x))|].
      right. destruct Hq0 as [<-|[]]. reflexivity. }
    split; [exact R2|]. split; [exact A2|]. split; [exact T2|]. split; [congruence|].
    split.
    { unfold stored_fit. rewrite T1, T3. apply Forall_app. split; [apply fit_erase; exact Hfit|]. constructor; [|constructor].
      rewrite Hmp. exact idw_small. }
    split; [exact HKr|]. split; [exact Rr|]. split; [exact Har|]. split; [exact Hnr|]. split; [exact Hsr|]. split; [exact Hasc|].
    split.
    { apply Forall_app. split; [apply (Forall_frame (flL_sr cs0) (flL_sr c2) qsr0 (k_pid x)); [intros z Hz Hfz; exact (flL_sr_frame c2 cs0 (k_pid x) z HA Hz Hfz)|exact Hn1|exact Fsr]|].
      constructor; [|constructor]. unfold flL_sr. rewrite pubrel_pid. split; [exact U2|]. split; [reflexivity|]. right. right. split; [reflexivity|exact M2]. }
    split; [apply (Forall_frame (fl_rs gr cs0) (fl_rs gr c2) t (k_pid x)); [intros z Hz Hfz; exact (fl_rs_frame gr c2 cs0 (k_pid x) z HA Hz Hfz)|exact Hn2|exact Ht]|].
    split; [rewrite ids_app; cbn [ids map]; rewrite pubrel_pid; rewrite <- app_assoc; exact Hnd|].
    split; [|exact Hpc'].
    intros y Hy. rewrite T1. destruct (N.eq_dec y (k_pid x)) as [->|Hne].
    + right. apply hask_In. exists (ack_pkt gs T_PUBREL V311 (k_pid x) None). split; [apply in_or_app; right; now left|split; reflexivity].
    + destruct (Hq y Hy) as [Hh|Hh]; [left|right]; (apply hask_app_l; apply hask_erase_other; [exact Hh|left; exact Hne]).
  - (* PUBCOMP *)
    assert (Hvx : k_ver x = V311) by (rewrite He; reflexivity). assert (Htp : k_type x = T_PUBCOMP) by (rewrite He; reflexivity).
    pose proof (sender_final_ack_x gs cs0 x T_PUBCOMP HO Rs Hvx Htp (or_intror eq_refl) Hm Hu) as H.
    pose proof (sender_final_sets gs cs0 x T_PUBCOMP HO Rs Hvx Htp (or_intror eq_refl) Hm Hu) as H'.
    pose proof (sender_final_store gs cs0 x T_PUBCOMP HO Rs Hns Hvx Htp (or_intror eq_refl) Hm Hu) as H''.
    destruct (deliver gs cs0 x) as [[c2 e]|]; [|destruct H]. destruct H as (L1 & S1 & X1 & O2 & R2 & A2 & _ & _).
    destruct H' as (U2 & P1 & P2 & P3). change (T_PUBCOMP =? T_PUBACK) with false in P1, P3. cbv iota in P1, P3.
    destruct H'' as (T1 & T2 & T3).
    rewrite X1, S1, L1, N.eqb_refl. cbn [none negb]. cbn [cs cr qsr qrs published delivered].
    assert (HA : AE c2 cs0 (k_pid x)) by (apply (ae_final gs); [exact HO|exact U2|right; split; assumption|exact P2]).
    assert (Hx2 : mem (k_pid x) (c_qos2 cr0) = false) by (apply Hpc; [now left|exact Htp]).
    split; [|measL].
    split; [apply HK'; intros q0 Hq0; left; rewrite T1 in Hq0; now apply (erase_l_sub V311 T_PUBCOMP (k_pid x))|].
    split; [exact R2|]. split; [congruence|]. split; [exact T2|]. split; [congruence|].
    split; [unfold stored_fit; rewrite T1, T3; apply fit_erase; exact Hfit|].
    split; [exact HKr|]. split; [exact Rr|]. split; [exact Har|]. split; [exact Hnr|]. split; [exact Hsr|]. split; [exact Hasc|].
    split; [apply (Forall_frame (flL_sr cs0) (flL_sr c2) qsr0 (k_pid x)); [intros z Hz Hfz; exact (flL_sr_frame c2 cs0 (k_pid x) z HA Hz Hfz)|exact Hn1|exact Fsr]|].
    split; [apply (Forall_frame (fl_rs gr cs0) (fl_rs gr c2) t (k_pid x)); [intros z Hz Hfz; exact (fl_rs_frame gr c2 cs0 (k_pid x) z HA Hz Hfz)|exact Hn2|exact Ht]|].
    split; [apply NoDup_remove_1 in Hnd; exact Hnd|].
    split; [|exact Hpc'].
    intros y Hy. assert (Hne : y <> k_pid x) by (intro E; rewrite E in Hy; rewrite Hy in Hx2; discriminate).
    rewrite T1. destruct (Hq y Hy) as [Hh|Hh]; [left|right]; (apply hask_erase_other; [exact Hh|left; exact Hne]).
Qed.

(* ---- the application publishes ---- *)
Lemma pubL_ok s p q : invL s -> v311_pub p q -> q = 1 \/ q = 2 -> k_size p <= MQTT_PACKET_SIZE_NO_LIMIT ->
  match do_pub gs s p with Next s' => invL s' | Skip => True | Bad => False end.
Proof.
  destruct s as [cs0 cr0 qsr0 qrs0 pub0 del0]. unfold invL, do_pub. cbn [cs cr qsr qrs published delivered]. cbv zeta.
  intros (HK & Rs & Has & Hns & Hmp & Hfit & HKr & Rr & Har & Hnr & Hsr & Hasc & Fsr & Frs & Hnd & Hq & Hpc) Hp Hqq Hsz.
  destruct (negb _) eqn:Epre; [exact I|]. apply negb_false_iff in Epre.
  apply andb_true_iff in Epre as [Epre E4]. apply andb_true_iff in Epre as [Epre E3]. apply andb_true_iff in Epre as [E1 E2].
  apply N.leb_le in E1, E2. apply negb_true_iff in E3. apply freshb_spec in E4.
  pose proof HK as (HO & HS & HE & Hv).
  destruct (register_ae gs cs0 (k_pid p) HO (conj E1 E2) E3) as (a & Ereg & O0 & U0 & Hu0).
  pose proof (step_keeps_K gs cs0 (ORegister (k_pid p)) HK (conj I I)) as HK0. rewrite Ereg in HK0 |- *.
  set (c0 := set_pid cs0 a) in *.
  assert (R0 : ready c0) by exact Rs. assert (F0 : fresh c0 (k_pid p)) by exact E4.
  assert (Hso : send_ok c0 p).
  { destruct Hp as (Htp & Hvp & Hqp). split.
    - intros _. split; [destruct Hqq; lia|]. assert (E0 : (k_qos p =? 0) = false) by (apply N.eqb_neq; destruct Hqq; lia). rewrite E0. exact F0.
    - intros [E|[E|E]]; rewrite Htp in E; discriminate. }
  assert (Hsu : sup_op_ok c0 (OSend p)) by (cbn [sup_op_ok]; intro E; destruct Hp as (Htp & _); rewrite Htp in E; discriminate).
  pose proof (step_keeps_K gs c0 (OSend p) HK0 (conj Hso Hsu)) as HK1.
  rewrite (step_send_publish_v311 gs c0 p q (proj1 R0) Hp) in HK1 |- *.
  pose proof (sender_sends_x gs c0 p q O0 R0 Hp ltac:(destruct Hqq; lia) F0 U0) as H1.
  pose proof (sender_sends_sets c0 p q Hp ltac:(destruct Hqq; lia) (proj2 R0) U0 (proj2 F0)) as H1'.
  pose proof (sender_sends_store c0 p q Hp ltac:(destruct Hqq; lia) (proj2 R0) Hns U0 (proj2 F0)) as H1''.
  destruct (send_publish_v311 c0 p) as [[c1 e1]|]; cbn [bindr] in *; [|destruct H1].
  destruct H1 as (S1 & N1 & X1 & O1 & R1 & U1 & A1 & M1). destruct H1' as (P0 & P3 & P1 & P2). destruct H1'' as (T1 & T2 & T3).
  rewrite S1, N1, X1. cbn [one none andb negb]. cbn [cs cr qsr qrs published delivered].
  assert (Hn1 : ~ In (k_pid p) (ids qsr0)) by (intro Hi; rewrite (flightL_used cs0 qsr0 _ Fsr Hi) in E3; discriminate).
  assert (Hn2 : ~ In (k_pid p) (ids qrs0)) by (intro Hi; rewrite (flight_used_rs gr cs0 qrs0 _ Frs Hi) in E3; discriminate).
  assert (HA : AE c1 cs0 (k_pid p)).
  { intros y Hne. rewrite P1, P2, P3. unfold is_used at 1. rewrite P0. fold (is_used c0 y). rewrite (Hu0 y Hne).
    change (c_puback c0) with (c_puback cs0). change (c_pubrec c0) with (c_pubrec cs0). change (c_pubcomp c0) with (c_pubcomp cs0).
    destruct (q =? 2); rewrite ?(mem_ins_ne _ y _ Hne); repeat split. }
  destruct Hp as (Htp & Hvp & Hqp).
  split; [exact HK1|]. split; [exact R1|]. split; [rewrite A1; exact Has|]. split; [exact T2|]. split; [rewrite T3; exact Hmp|].
  split.
  { unfold stored_fit. rewrite T1, T3. apply Forall_app. split; [exact Hfit|]. constructor; [|constructor]. change (c_mps_send c0) with (c_mps_send cs0). rewrite Hmp. exact Hsz. }
  split; [exact HKr|]. split; [exact Rr|]. split; [exact Har|]. split; [exact Hnr|]. split; [exact Hsr|]. split; [exact Hasc|].
  split.
  { apply Forall_app. split; [apply (Forall_frame (flL_sr cs0) (flL_sr c1) qsr0 (k_pid p)); [intros z Hz Hfz; exact (flL_sr_frame c1 cs0 (k_pid p) z HA Hz Hfz)|exact Hn1|exact Fsr]|].
    constructor; [|constructor]. unfold flL_sr. split; [exact U1|]. split; [exact Hvp|].
    destruct Hqq as [-> | ->]; [left; split; [exact Htp|split; [exact Hqp|exact M1]]|].
    right. left. split; [exact Htp|]. rewrite Hqp. split; [reflexivity|split; [reflexivity|exact M1]]. }
  split; [apply (Forall_frame (fl_rs gr cs0) (fl_rs gr c1) qrs0 (k_pid p)); [intros z Hz Hfz; exact (fl_rs_frame gr c1 cs0 (k_pid p) z HA Hz Hfz)|exact Hn2|exact Frs]|].
  split.
  { rewrite ids_app. cbn [ids map]. rewrite <- app_assoc. cbn [app].
    apply (Permutation_NoDup (Permutation_middle (ids qsr0) (ids qrs0) (k_pid p))). constructor; [|exact Hnd].
    intro Hi. apply in_app_or in Hi as [Hi|Hi]; [exact (Hn1 Hi)|exact (Hn2 Hi)]. }
  split; [|exact Hpc].
  intros y Hy. rewrite T1. change (c_store c0) with (c_store cs0). destruct (Hq y Hy) as [Hh|Hh]; [left|right]; now apply hask_app_l.
Qed.

(* ---- the transport is lost and the session resumed ---- *)
Lemma store_into_pid q : k_pid (store_into q) = k_pid q.
Proof. unfold store_into. destruct (k_type q =? T_PUBLISH); reflexivity. Qed.
Lemma ids_store_into S : ids (map store_into S) = map k_pid S.
Proof. unfold ids. rewrite map_map. apply map_ext. apply store_into_pid. Qed.

(* what is retransmitted is in flight in the sense of the invariant: by OWN and ENT alone *)
Lemma resend_flight c q : OWN gs c -> ENT c -> c_version c = V311 -> In q (c_store c) -> flL_sr c (store_into q).
Proof.
  intros HO HE Rv Hq. pose proof (o_used _ _ _ _ _ _ _ _ _ HO q Hq) as Hu. destruct (o_kind _ _ _ _ _ _ _ _ _ HO q Hq) as [Hk Hvq].
  pose proof (HE q Hq) as He. unfold entry_okb in He. unfold flL_sr. rewrite store_into_pid.
  split; [exact Hu|]. unfold store_into, response_of in *. destruct (k_type q =? T_PUBLISH) eqn:Et.
  - apply N.eqb_eq in Et. split; [congruence|]. cbn [andb negb] in He. apply negb_true_iff in He.
    destruct (k_qos q =? 1) eqn:E1.
    + apply N.eqb_eq in E1. left. split; [exact Et|split; [exact E1|]]. unfold kset in Hk. change (T_PUBACK =? T_PUBACK) with true in Hk. exact Hk.
    + right. left. split; [exact Et|split; [exact He|split; [reflexivity|]]]. unfold kset in Hk. change (T_PUBREC =? T_PUBACK) with false in Hk.
      change (T_PUBREC =? T_PUBREC) with true in Hk. exact Hk.
  - split; [cbn; congruence|]. right. right. split; [reflexivity|]. cbn [k_pid]. unfold kset in Hk. change (T_PUBCOMP =? T_PUBACK) with false in Hk.
    change (T_PUBCOMP =? T_PUBREC) with false in Hk. exact Hk.
Qed.

Lemma loseL_ok s : invL s -> match do_lose s with Next s' => invL s' | Skip => True | Bad => False end.
Proof.
  destruct s as [cs0 cr0 qsr0 qrs0 pub0 del0]. unfold invL, do_lose. cbn [cs cr qsr qrs published delivered].
  intros (HK & Rs & Has & Hns & Hmp & Hfit & HKr & Rr & Har & Hnr & Hsr & Hasc & Fsr & Frs & Hnd & Hq & Hpc).
  destruct (close_K gs cs0 HK Hns) as (c1 & e1 & E1 & K1 & Sh1 & N1 & St1 & _ & V1 & A1). rewrite E1.
  destruct (close_K gr cr0 HKr Hnr) as (r1 & f1 & F1 & Kr1 & Shr1 & Nr1 & Str1 & Q1 & Vr1 & Ar1). rewrite F1.
  assert (Rv1 : c_version c1 = V311) by (rewrite V1; apply Rs). assert (Rvr1 : c_version r1 = V311) by (rewrite Vr1; apply Rr).
  destruct (connect_sent gs c1 gs_client K1 Sh1 Rv1 N1) as (c2 & e2 & E2 & K2 & S2 & X2 & _ & St2 & V2 & N2 & T2 & A2 & M2). rewrite E2, S2, X2.
  cbn [one none negb].
  destruct (connect_received gr r1 Kr1 Shr1 Rvr1 Nr1) as (r2 & e5 & E5 & Kr2 & _ & X5 & S5 & Str2 & Vr2 & Nr2 & Tr2 & Ar2 & Q2). rewrite E5, X5, S5.
  cbn [none andb negb].
  assert (Hst2 : c_store r2 = []) by congruence.
  destruct (connack_sent gr r2 gr_server Kr2 Str2 Vr2 Nr2 Hst2) as (r3 & e6 & E6 & Kr3 & S6 & X6 & Rr3 & Nr3 & Tr3 & Ar3 & Q3). rewrite E6, S6, X6.
  cbn [one none negb].
  assert (Hfit2 : stored_fit c2) by (unfold stored_fit; rewrite T2, St1, M2, <- Hmp; exact Hfit).
  destruct (connack_received gs c2 K2 St2 V2 N2 Hfit2) as (c3 & e3 & E3 & K3 & S3 & X3 & R3 & N3 & T3 & A3 & M3). rewrite E3, X3, S3.
  cbn [none negb]. cbn [cs cr qsr qrs published delivered].
  pose proof K3 as (O3 & _ & HE3 & _).
  split; [exact K3|]. split; [exact R3|]. split; [congruence|]. split; [exact N3|]. split; [congruence|].
  split; [unfold stored_fit; rewrite T3, M3; exact Hfit2|].
  split; [exact Kr3|]. split; [exact Rr3|]. split; [congruence|]. split; [exact Nr3|]. split; [exact Tr3|]. split; [rewrite Q3, Q2, Q1; exact Hasc|].
  split.
  { rewrite <- T3. apply Forall_forall. intros x Hx. apply in_map_iff in Hx as (q & <- & Hq'). apply resend_flight; [exact O3|exact HE3|apply R3|exact Hq']. }
  split; [constructor|].
  split; [rewrite app_nil_r, <- T3, ids_store_into; exact (o_nodup _ _ _ _ _ _ _ _ _ O3)|].
  split; [|intros x []].
  intros y Hy. rewrite Q3, Q2, Q1 in Hy. rewrite T3, T2, St1. exact (Hq y Hy).
Qed.

(* ---- every schedule, with losses ---- *)
Definition good_actL (a : actL) : Prop :=
  match a with PubL p => (v311_pub p 1 \/ v311_pub p 2) /\ k_size p <= MQTT_PACKET_SIZE_NO_LIMIT | _ => True end.

Lemma actL_ok s a : invL s -> good_actL a -> match do_actL s a with Next s' => invL s' | Skip => True | Bad => False end.
Proof.
  intros Hi Hg. destruct a as [p| | |]; cbn [do_actL good_actL] in *.
  - destruct Hg as [[Hg|Hg] Hs]; [apply (pubL_ok s p 1 Hi Hg); [now left|exact Hs]|apply (pubL_ok s p 2 Hi Hg); [now right|exact Hs]].
  - pose proof (toL_r_step s Hi) as H. destruct (do_to_r gr s); [apply H|exact I|exact H].
  - pose proof (toL_s_step s Hi) as H. destruct (do_to_s gs s); [apply H|exact I|exact H].
  - now apply loseL_ok.
Qed.

Theorem schedL_ok : forall l s, invL s -> Forall good_actL l -> exists s', run_schedL s l = Some s' /\ invL s'.
Proof.
  induction l as [|a t IH]; intros s Hi Hf; cbn [run_schedL]; [exists s; split; [reflexivity|exact Hi]|].
  inversion Hf as [|? ? Ha Ht]; subst. pose proof (actL_ok s a Hi Ha) as H.
  destruct (do_actL s a) as [s'| |]; [exact (IH s' H Ht)|exact (IH s Hi Ht)|destruct H].
Qed.

(* ---- the links drain ---- *)
Fixpoint drainL (n : nat) : list actL := match n with O => [] | S k => ToRL :: ToSL :: drainL k end.

Theorem drainL_ok : forall n s, invL s -> (measure s <= n)%nat ->
  exists s', run_schedL s (drainL n) = Some s' /\ invL s' /\ qsr s' = [] /\ qrs s' = [] /\ published s' = published s.
Proof.
  induction n as [|k IH]; intros s Hi Hm.
  - assert (H0 : measure s = 0%nat) by lia. destruct (measure_zero s H0) as [Q1 Q2]. exists s. cbn [drainL run_schedL].
    split; [reflexivity|]. split; [exact Hi|]. split; [exact Q1|]. split; [exact Q2|reflexivity].
  - cbn [drainL run_schedL do_actL]. pose proof (toL_r_step s Hi) as H1. destruct (do_to_r gr s) as [s1| |] eqn:E1; [| |destruct H1].
    + destruct H1 as [Hi1 Hm1]. pose proof (to_r_pub gr s s1 E1) as P1.
      pose proof (toL_s_step s1 Hi1) as H2. destruct (do_to_s gs s1) as [s2| |] eqn:E2; [| |destruct H2].
      * destruct H2 as [Hi2 Hm2]. pose proof (to_s_pub gs s1 s2 E2) as P2.
        destruct (IH s2 Hi2 ltac:(lia)) as (s' & R & I' & Q1 & Q2 & P'). exists s'. split; [exact R|]. split; [exact I'|]. split; [exact Q1|]. split; [exact Q2|]. congruence.
      * destruct (IH s1 Hi1 ltac:(lia)) as (s' & R & I' & Q1 & Q2 & P'). exists s'. split; [exact R|]. split; [exact I'|]. split; [exact Q1|]. split; [exact Q2|]. congruence.
    + pose proof (toL_s_step s Hi) as H2. destruct (do_to_s gs s) as [s2| |] eqn:E2; [| |destruct H2].
      * destruct H2 as [Hi2 Hm2]. pose proof (to_s_pub gs s s2 E2) as P2.
        destruct (IH s2 Hi2 ltac:(lia)) as (s' & R & I' & Q1 & Q2 & P'). exists s'. split; [exact R|]. split; [exact I'|]. split; [exact Q1|]. split; [exact Q2|]. congruence.
      * assert (H0 : measure s = 0%nat) by (unfold measure; rewrite H1, H2; reflexivity).
        destruct (IH s Hi ltac:(lia)) as (s' & R & I' & Q1 & Q2 & P'). exists s'. split; [exact R|]. split; [exact I'|]. split; [exact Q1|]. split; [exact Q2|]. exact P'.
Qed.

(* THE PAIR ACROSS LOSSES, safety and progress: whatever the schedule of publications, deliveries and transport losses,
   nothing fails, every resumption succeeds, and once losses stop both links are empty after at most [measure] rounds *)
Theorem lossy_schedule_succeeds_and_drains l s : invL s -> Forall good_actL l ->
  exists s1 s2, run_schedL s l = Some s1 /\ run_schedL s1 (drainL (measure s1)) = Some s2 /\ invL s2 /\ qsr s2 = [] /\ qrs s2 = [].
Proof.
  intros Hi Hf. destruct (schedL_ok l s Hi Hf) as (s1 & R1 & I1).
  destruct (drainL_ok (measure s1) s1 I1 (le_n _)) as (s2 & R2 & I2 & Q1 & Q2 & _).
  exists s1, s2. split; [exact R1|]. split; [exact R2|]. split; [exact I2|]. split; assumption.
Qed.

(* two persistent endpoints after the handshake, nothing in flight, nothing stored or handled *)
Lemma invL_init c1 c2 : K gs c1 -> ready c1 -> c_auto_pub c1 = true -> c_need_store c1 = true -> c_mps_send c1 = MQTT_PACKET_SIZE_NO_LIMIT ->
  c_store c1 = [] -> K gr c2 -> ready c2 -> c_auto_pub c2 = true -> c_need_store c2 = true -> c_store c2 = [] -> c_qos2 c2 = [] ->
  invL (mkSys c1 c2 [] [] [] []).
Proof.
  intros K1 R1 A1 N1 M1 S1 K2 R2 A2 N2 S2 Q. unfold invL. cbn [cs cr qsr qrs published delivered].
  split; [exact K1|]. split; [exact R1|]. split; [exact A1|]. split; [exact N1|]. split; [exact M1|]. split; [unfold stored_fit; rewrite S1; constructor|].
  split; [exact K2|]. split; [exact R2|]. split; [exact A2|]. split; [exact N2|]. split; [exact S2|]. split; [rewrite Q; exact I|].
  split; [constructor|]. split; [constructor|]. split; [constructor|]. split; [intros y Hy; rewrite Q in Hy; discriminate|intros x []].
Qed.
End Loss.
