(* C19 — close requests are ordered after the last packet to flush: proofs about the model.
   Per call, for every state: no ESend after an EClose; a DISCONNECT or a refusing CONNACK that is
   requested for sending is followed by EClose in the same list; a keep-alive timeout on an
   established connection yields EClose. *)
From MQ Require Import Base.Prelude Alloc.Alloc Alloc.SetSpec Framing.Framing
                       Conn.Types Conn.TopicAlias Conn.ConnRecord Conn.Step
                       Corr.ConnTrace Mon.MonGate.

(* events that neither close nor send a terminal packet *)
Definition benign_ev (e : event) : bool :=
  match e with EClose => false | ESend p _ => negb (terminal_pkt p) | _ => true end.
Definition benign (l : list event) : bool := forallb benign_ev l.
Definition nosend (l : list event) : bool := forallb (fun e => negb (is_send e)) l.

Lemma benign_app a b : benign (a ++ b) = benign a && benign b.
Proof. apply forallb_app. Qed.
Lemma nosend_app a b : nosend (a ++ b) = nosend a && nosend b.
Proof. apply forallb_app. Qed.

Lemma nsac_benign_app a b : benign a = true -> no_send_after_close (a ++ b) = no_send_after_close b.
Proof.
  induction a as [|e t IH]; cbn [app benign forallb]; intro H; [reflexivity|].
  apply andb_true_iff in H as [He Ht]. destruct e; cbn [no_send_after_close benign_ev] in *; try discriminate; auto.
Qed.

Lemma tsc_benign_app a b : benign a = true -> terminal_sends_closed (a ++ b) = terminal_sends_closed b.
Proof.
  induction a as [|e t IH]; cbn [app benign forallb]; intro H; [reflexivity|].
  apply andb_true_iff in H as [He Ht]. destruct e; cbn [terminal_sends_closed benign_ev] in *; auto.
  apply negb_true_iff in He. rewrite He. cbn. auto.
Qed.

Lemma co_benign_app a b : benign a = true -> close_ordered (a ++ b) = close_ordered b.
Proof. intro H. unfold close_ordered. now rewrite nsac_benign_app, tsc_benign_app. Qed.

Lemma co_benign a : benign a = true -> close_ordered a = true.
Proof. intro H. rewrite <- (app_nil_r a). rewrite co_benign_app by assumption. reflexivity. Qed.

Lemma forallb_nosend_app a b :
  forallb (fun e => negb (is_send e)) (a ++ b) = forallb (fun e => negb (is_send e)) a && nosend b.
Proof. apply forallb_app. Qed.

Lemma nsac_app_nosend a b : nosend b = true -> no_send_after_close a = true -> no_send_after_close (a ++ b) = true.
Proof.
  induction a as [|e t IH]; cbn [app]; intros Hb Ha.
  - clear Ha. induction b as [|e t IH]; [reflexivity|]. cbn [nosend forallb] in Hb. apply andb_true_iff in Hb as [He Ht].
    destruct e; cbn [no_send_after_close is_send negb] in *; try discriminate; auto.
  - destruct e; cbn [no_send_after_close] in *; auto.
    rewrite forallb_nosend_app, Ha. exact Hb.
Qed.

Lemma existsb_close_app a b : existsb is_close a = true -> existsb is_close (a ++ b) = true.
Proof. intro H. rewrite existsb_app, H. reflexivity. Qed.

Lemma tsc_app_nosend a b : nosend b = true -> terminal_sends_closed a = true -> terminal_sends_closed (a ++ b) = true.
Proof.
  induction a as [|e t IH]; cbn [app]; intros Hb Ha.
  - clear Ha. induction b as [|e t IH]; [reflexivity|]. cbn [nosend forallb] in Hb. apply andb_true_iff in Hb as [He Ht].
    destruct e; cbn [terminal_sends_closed is_send negb] in *; try discriminate; auto.
  - destruct e; cbn [terminal_sends_closed] in *; auto.
    apply andb_true_iff in Ha as [H1 H2]. apply andb_true_iff. split; [|auto].
    destruct (terminal_pkt p); [|reflexivity]. now apply existsb_close_app.
Qed.

Lemma co_app_nosend a b : nosend b = true -> close_ordered a = true -> close_ordered (a ++ b) = true.
Proof.
  unfold close_ordered. intros Hb Ha. apply andb_true_iff in Ha as [H1 H2].
  rewrite nsac_app_nosend, tsc_app_nosend by assumption. reflexivity.
Qed.

(* result predicates *)
Definition RB (r : res (conn * list event)) : Prop :=
  match r with Ok (_, e) => benign e = true | Panic _ => True end.
Definition RC (r : res (conn * list event)) : Prop :=
  match r with Ok (_, e) => close_ordered e = true | Panic _ => True end.

Lemma RB_RC r : RB r -> RC r.
Proof. destruct r as [[c e]|]; cbn; [apply co_benign|trivial]. Qed.

(* ---- helpers are benign ---- *)
Lemma post_benign c : benign (snd (send_post_process c)) = true.
Proof. unfold send_post_process. destruct (c_is_client c); [|reflexivity]. destruct (0 <? _); reflexivity. Qed.

Lemma cancel_benign c : benign (snd (cancel_timers c)) = true.
Proof.
  unfold cancel_timers. destruct (c_t_send c); cbn [snd fst];
    match goal with |- context [c_t_recv ?x] => destruct (c_t_recv x) end; cbn [snd fst];
    match goal with |- context [c_t_resp ?x] => destruct (c_t_resp x) end; reflexivity.
Qed.

Lemma refresh_benign c : benign (snd (refresh_pingreq_recv c)) = true.
Proof. unfold refresh_pingreq_recv. destruct (negb _); reflexivity. Qed.

Lemma release_benign c id : RB (release_if_used c id).
Proof.
  unfold release_if_used. destruct (is_used c id); [|reflexivity].
  destruct (pm_release (c_pid c) id); cbn; [reflexivity|trivial].
Qed.

Lemma send_and_post_benign c p rel pre :
  terminal_pkt p = false -> benign pre = true -> RB (send_and_post c p rel pre).
Proof.
  intros Hp Hpre. unfold send_and_post. pose proof (post_benign c) as H. destruct (send_post_process c) as [c' e].
  cbn [snd] in H. cbn [RB]. rewrite !benign_app, Hpre, H. cbn. now rewrite Hp.
Qed.

Ltac solve_simple := cbn [RB benign forallb benign_ev]; try reflexivity; try trivial.

Lemma send_plain_benign c p : terminal_pkt p = false -> RB (send_plain c p).
Proof.
  intro Hp. unfold send_plain. destruct (_ && _); [solve_simple|]. destruct (negb _); [solve_simple|].
  now apply send_and_post_benign.
Qed.

Lemma store_into_nonterminal p : terminal_pkt (store_into p) = false.
Proof.
  unfold store_into, terminal_pkt. destruct (N.eqb_spec (k_type p) T_PUBLISH) as [E|E]; [rewrite E|]; reflexivity.
Qed.

Lemma send_stored_events_benign mps l : benign (send_stored_events mps l) = true.
Proof.
  induction l as [|p t IH]; cbn [send_stored_events forallb benign]; [reflexivity|].
  destruct (mps <? k_size p); cbn [benign_ev]; [exact IH|]. rewrite store_into_nonterminal. exact IH.
Qed.

Lemma send_stored_benign c : RB (send_stored c).
Proof.
  unfold send_stored. destruct (send_stored_l _ _) as [kept dropped].
  destruct (release_all _ _); cbn [bindr RB]; [|trivial]. apply send_stored_events_benign.
Qed.

(* binding helpers *)
Lemma RB_bind {A} (r : res A) (f : A -> res (conn * list event)) :
  (forall a, r = Ok a -> RB (f a)) -> RB (bindr r f).
Proof. intro H. destruct r; cbn [bindr]; [now apply H|exact I]. Qed.
Lemma RC_bind {A} (r : res A) (f : A -> res (conn * list event)) :
  (forall a, r = Ok a -> RC (f a)) -> RC (bindr r f).
Proof. intro H. destruct r; cbn [bindr]; [now apply H|exact I]. Qed.

Lemma RB_pre r pre :
  RB r -> benign pre = true ->
  RB (bindr r (fun '(c, e) => Ok (c, pre ++ e))).
Proof. intros H Hp. destruct r as [[c e]|]; cbn in *; [now rewrite benign_app, Hp, H|trivial]. Qed.

(* ---- automation: walk through the definition, keeping the benign-ness facts of the helpers ---- *)
Ltac intro_helper :=
  match goal with
  | |- context [send_post_process ?c] =>
      let H := fresh "Hpost" in pose proof (post_benign c) as H; destruct (send_post_process c) as [? ?]; cbn [snd] in H
  | |- context [cancel_timers ?c] =>
      let H := fresh "Hcan" in pose proof (cancel_benign c) as H; destruct (cancel_timers c) as [? ?]; cbn [snd] in H
  | |- context [refresh_pingreq_recv ?c] =>
      let H := fresh "Href" in pose proof (refresh_benign c) as H; destruct (refresh_pingreq_recv c) as [? ?]; cbn [snd] in H
  | |- context [release_if_used ?c ?id] =>
      let H := fresh "Hrel" in pose proof (release_benign c id) as H; destruct (release_if_used c id) as [[? ?]|]; cbn [RB] in H
  end.

Ltac finish_benign :=
  cbn [RB RC]; repeat match goal with |- context [if ?b then _ else _] => destruct b end;
  rewrite ?benign_app; cbn [benign forallb benign_ev andb];
  repeat match goal with H : benign _ = true |- _ => rewrite H end;
  repeat match goal with H : terminal_pkt _ = false |- _ => rewrite H end;
  cbn [negb andb]; try reflexivity; try exact I.

Ltac step_RB :=
  match goal with
  | |- RB (Panic _) => exact I
  | |- RB (Ok _) => finish_benign
  | |- RB (bindr (Panic _) _) => exact I
  | |- RB (bindr (Ok _) _) => cbn [bindr]
  | |- RB (if ?b then _ else _) => destruct b eqn:?
  | |- RB (let '(_, _) := (if ?b then _ else _) in _) => destruct b eqn:?
  | |- RB (let '(_, _) := ?x in _) => first [intro_helper | destruct x as [? ?] eqn:?]
  | |- RB (match ?x with _ => _ end) => first [intro_helper | destruct x eqn:?]
  | |- RB (bindr (if ?b then _ else _) _) => destruct b eqn:?
  | |- RB (bindr ?r _) => first [intro_helper | destruct r as [?|] eqn:?]; cbn [bindr]
  | |- RB (send_and_post _ _ _ _) => apply send_and_post_benign; [assumption || reflexivity | finish_benign]
  end.

Lemma type_nonterminal p t : k_type p = t -> t <> T_DISCONNECT -> t <> T_CONNACK -> terminal_pkt p = false.
Proof.
  intros H H1 H2. unfold terminal_pkt. rewrite H.
  destruct (N.eqb_spec t T_DISCONNECT); [contradiction|]. destruct (N.eqb_spec t T_CONNACK); [contradiction|]. reflexivity.
Qed.

Lemma store_add_RB c p (f : conn -> res (conn * list event)) :
  (forall c', RB (f c')) -> RB (bindr (store_add c p) f).
Proof. intro H. unfold store_add. destruct (store_has _ _); cbn [bindr]; [exact I|apply H]. Qed.

Lemma send_publish_v311_benign c p : terminal_pkt p = false -> RB (send_publish_v311 c p).
Proof.
  intro Hp. unfold send_publish_v311, not_allowed, store_add.
  repeat step_RB.
Qed.

Lemma send_connect_benign c p : terminal_pkt p = false -> RB (send_connect c p).
Proof. intro Hp. unfold send_connect, too_large, not_allowed. repeat step_RB. Qed.

Lemma send_puback_like_benign c p : terminal_pkt p = false -> RB (send_puback_like c p).
Proof. intro Hp. unfold send_puback_like, too_large, not_allowed. repeat step_RB. Qed.

Lemma send_pubrel_benign c p : terminal_pkt p = false -> RB (send_pubrel c p).
Proof. intro Hp. unfold send_pubrel, too_large, not_allowed, store_add. repeat step_RB. Qed.

Lemma send_sub_unsub_benign c p : terminal_pkt p = false -> RB (send_sub_unsub c p).
Proof. intro Hp. unfold send_sub_unsub, too_large, not_allowed. repeat step_RB. Qed.

Lemma send_pingreq_benign c p : terminal_pkt p = false -> RB (send_pingreq c p).
Proof. intro Hp. unfold send_pingreq, too_large, not_allowed. repeat step_RB. Qed.

Lemma send_auth_benign c p : terminal_pkt p = false -> RB (send_auth c p).
Proof. intro Hp. unfold send_auth, too_large, not_allowed. repeat step_RB. Qed.

Lemma refuse_publish_benign c id err pre : benign pre = true -> RB (refuse_publish c id err pre).
Proof.
  intro Hpre. unfold refuse_publish. destruct (_ && _); [|finish_benign].
  destruct (pm_release _ _); cbn [bindr]; [finish_benign|exact I].
Qed.

Lemma terminal_rw1 g p a : terminal_pkt (remove_topic_add_topic_alias g p a) = terminal_pkt p.
Proof. reflexivity. Qed.
Lemma terminal_rw2 g p a : terminal_pkt (add_topic_alias g p a) = terminal_pkt p.
Proof. reflexivity. Qed.

Lemma send_publish_v5_benign g c p : terminal_pkt p = false -> RB (send_publish_v5 g c p).
Proof.
  intro Hp. unfold send_publish_v5, too_large, not_allowed, store_add.
  destruct (negb (size_ok c p)).
  { destruct (negb (k_pid p =? 0)); repeat step_RB. }
  (* part 1 *)
  match goal with |- RB (bindr ?part1 _) => destruct part1 as [[[[[c1 rel] validated] stop] e1]|] eqn:E1; [|exact I] end.
  cbn [bindr].
  assert (He1 : benign e1 = true).
  { revert E1. clear -Hp.
    repeat match goal with
           | |- context [if ?b then _ else _] => destruct b eqn:?
           | |- context [validate_topic_alias ?c ?a] => destruct (validate_topic_alias c a) as [[?|] ?] eqn:?
           | |- context [release_if_used ?c ?id] =>
               let H := fresh in pose proof (release_benign c id) as H; destruct (release_if_used c id) as [[? ?]|]; cbn [RB] in H
           | |- context [store_has ?a ?b] => destruct (store_has a b) eqn:?
           | |- _ => progress cbn [bindr]
           end; intro E; try discriminate; inversion E; subst; clear E; rewrite ?benign_app; cbn; auto. }
  destruct stop; [finish_benign|].
  match goal with |- RB (if ?b then _ else _) => destruct b end; [now apply refuse_publish_benign|].
  match goal with |- RB (bindr ?part2 _) => destruct part2 as [[[[c2 q] stop2] e2]|] eqn:E2; [|exact I] end.
  cbn [bindr].
  assert (He2 : benign e2 = true /\ terminal_pkt q = false).
  { revert E2. clear -Hp.
    repeat match goal with
           | |- context [if ?b then _ else _] => destruct b eqn:?
           | |- context [validate_topic_alias ?c ?a] => destruct (validate_topic_alias c a) as [[?|] ?] eqn:?
           | |- context [refuse_publish ?c ?id ?err ?pre] =>
               let H := fresh in pose proof (refuse_publish_benign c id err pre eq_refl) as H;
               destruct (refuse_publish c id err pre) as [[? ?]|]; cbn [RB] in H
           | |- context [match k_alias ?p with _ => _ end] => destruct (k_alias p) eqn:?
           | |- context [match c_ta_send ?c with _ => _ end] => destruct (c_ta_send c) eqn:?
           | |- context [tas_insert ?s ?t ?a] => destruct (tas_insert s t a) eqn:?
           | |- context [tas_find_by_topic ?s ?t] => destruct (tas_find_by_topic s t) eqn:?
           | |- context [tas_lru ?s] => destruct (tas_lru s) eqn:?
           | |- _ => progress cbn [bindr]
           end; intro E; try discriminate; inversion E; subst; clear E; rewrite ?terminal_rw1, ?terminal_rw2; auto. }
  destruct He2 as [He2 Hq].
  destruct stop2; [finish_benign|].
  match goal with |- RB (if ?b then _ else _) => destruct b end; [|finish_benign].
  apply send_and_post_benign; [exact Hq|finish_benign].
Qed.

(* ---- the closing senders ---- *)
Lemma co_closing pre p rel e :
  benign pre = true -> benign e = true -> close_ordered (pre ++ [ESend p rel] ++ e ++ [EClose]) = true.
Proof.
  intros H1 H2. rewrite co_benign_app by assumption. cbn [app]. unfold close_ordered.
  cbn [no_send_after_close terminal_sends_closed].
  rewrite (nsac_benign_app e [EClose] H2), (tsc_benign_app e [EClose] H2). cbn.
  destruct (terminal_pkt p); [|reflexivity]. rewrite existsb_app. cbn. now rewrite orb_true_r.
Qed.

Lemma send_disconnect_RC c p : RC (send_disconnect c p).
Proof.
  unfold send_disconnect, too_large, not_allowed.
  destruct (_ && _); [reflexivity|]. destruct (negb _); [reflexivity|].
  pose proof (cancel_benign (set_status c Disconnected)) as H. destruct (cancel_timers _) as [c' e]. cbn [snd] in H.
  cbn [RC]. change (e ++ [ESend p None; EClose]) with (e ++ [ESend p None] ++ [] ++ [EClose]).
  now apply co_closing.
Qed.

Lemma close_with_disconnect_RC c p : RC (close_with_disconnect c p).
Proof.
  unfold close_with_disconnect. destruct (_ && _); [|apply send_disconnect_RC].
  pose proof (cancel_benign (set_status c Disconnected)) as H. destruct (cancel_timers _) as [c' e]. cbn [snd] in H.
  cbn [RC]. rewrite co_benign_app by assumption. reflexivity.
Qed.

Lemma send_connack_RC c p : k_type p = T_CONNACK -> RC (send_connack c p).
Proof.
  intros Ht. unfold send_connack, too_large, not_allowed.
  destruct (_ && _); [reflexivity|]. destruct (negb (status_eqb _ _)); [reflexivity|].
  match goal with |- RC (let '(c, pre) := ?x in _) => destruct x as [c1 pre] eqn:E1 end.
  assert (Hpre : benign pre = true /\ c_store c1 = c_store c).
  { revert E1. clear. unfold connack_send_props.
    repeat match goal with
           | |- context [if ?b then _ else _] => destruct b eqn:?
           | |- context [match ?o with Some _ => _ | None => _ end] => destruct o eqn:?
           end; intro E; inversion E; subst; clear E; split; reflexivity. }
  destruct Hpre as [Hpre Hst].
  destruct (negb (k_rc p =? 0)) eqn:Erc.
  - pose proof (cancel_benign (set_status c1 Disconnected)) as H. destruct (cancel_timers _) as [c' e]. cbn [snd] in H.
    cbn [RC]. now apply co_closing.
  - assert (Hp : terminal_pkt p = false).
    { unfold terminal_pkt. rewrite Ht. apply negb_false_iff in Erc. rewrite Erc. reflexivity. }
    pose proof (send_stored_benign (set_status c1 Connected)) as HS.
    destruct (send_stored (set_status c1 Connected)) as [[c2 es]|]; cbn [bindr RB] in *; [|exact I].
    pose proof (post_benign c2) as HP. destruct (send_post_process c2) as [c3 e3]. cbn [snd] in HP.
    apply RB_RC. finish_benign.
Qed.

Lemma eqb_type_nonterminal p t : (k_type p =? t) = true -> t <> T_DISCONNECT -> t <> T_CONNACK -> terminal_pkt p = false.
Proof. intros H. apply N.eqb_eq in H. now apply type_nonterminal. Qed.

Lemma do_send_RC g c p : RC (do_send g c p).
Proof.
  unfold do_send, not_allowed.
  destruct (negb (version_eqb _ _)); [reflexivity|].
  destruct (_ && negb (role_client_ok g)); [reflexivity|].
  destruct (_ && negb (role_server_ok g)); [reflexivity|].
  unfold dispatch_send, not_allowed.
  destruct (k_type p =? T_CONNECT) eqn:E1.
  { apply RB_RC, send_connect_benign. eapply eqb_type_nonterminal; [exact E1|discriminate|discriminate]. }
  destruct (k_type p =? T_CONNACK) eqn:E2.
  { apply send_connack_RC; now apply N.eqb_eq. }
  destruct (k_type p =? T_PUBLISH) eqn:E3.
  { assert (terminal_pkt p = false) by (eapply eqb_type_nonterminal; [exact E3|discriminate|discriminate]).
    destruct (version_eqb (k_ver p) V50); apply RB_RC; [now apply send_publish_v5_benign|now apply send_publish_v311_benign]. }
  destruct ((k_type p =? T_PUBACK) || (k_type p =? T_PUBREC) || (k_type p =? T_PUBCOMP)) eqn:E4.
  { apply RB_RC, send_puback_like_benign.
    apply orb_true_iff in E4 as [E4|E4]; [apply orb_true_iff in E4 as [E4|E4]|];
      (eapply eqb_type_nonterminal; [exact E4|discriminate|discriminate]). }
  destruct (k_type p =? T_PUBREL) eqn:E5.
  { apply RB_RC, send_pubrel_benign. eapply eqb_type_nonterminal; [exact E5|discriminate|discriminate]. }
  destruct ((k_type p =? T_SUBSCRIBE) || (k_type p =? T_UNSUBSCRIBE)) eqn:E6.
  { apply RB_RC, send_sub_unsub_benign.
    apply orb_true_iff in E6 as [E6|E6]; (eapply eqb_type_nonterminal; [exact E6|discriminate|discriminate]). }
  destruct ((k_type p =? T_SUBACK) || (k_type p =? T_UNSUBACK) || (k_type p =? T_PINGRESP)) eqn:E7.
  { apply RB_RC, send_plain_benign.
    apply orb_true_iff in E7 as [E7|E7]; [apply orb_true_iff in E7 as [E7|E7]|];
      (eapply eqb_type_nonterminal; [exact E7|discriminate|discriminate]). }
  destruct (k_type p =? T_PINGREQ) eqn:E8.
  { apply RB_RC, send_pingreq_benign. eapply eqb_type_nonterminal; [exact E8|discriminate|discriminate]. }
  destruct (k_type p =? T_DISCONNECT) eqn:E9; [apply send_disconnect_RC|].
  destruct (k_type p =? T_AUTH) eqn:E10.
  { apply RB_RC, send_auth_benign. eapply eqb_type_nonterminal; [exact E10|discriminate|discriminate]. }
  reflexivity.
Qed.

(* ---- receive side ---- *)
Lemma RC_then_error r e :
  RC r -> RC (bindr r (fun '(c, ev) => Ok (c, ev ++ [EError e]))).
Proof.
  destruct r as [[c ev]|]; cbn [bindr RC]; [|trivial]. intro H. now apply co_app_nosend.
Qed.

Lemma handle_v5_error_RC c e : RC (handle_v5_error c e).
Proof. unfold handle_v5_error. apply RC_then_error, close_with_disconnect_RC. Qed.

Lemma handle_error_RC c v e : RC (handle_error c v e).
Proof. unfold handle_error. destruct (version_eqb v V50); [apply handle_v5_error_RC|reflexivity]. Qed.

(* a benign prefix in front of something close-ordered *)
Lemma RC_pre r pre :
  RC r -> benign pre = true -> RC (bindr r (fun '(c, e) => Ok (c, pre ++ e))).
Proof. destruct r as [[c e]|]; cbn [bindr RC]; [|trivial]. intros H Hp. now rewrite co_benign_app. Qed.

Definition ack_nonterminal g t v id rc : t <> T_DISCONNECT -> t <> T_CONNACK -> terminal_pkt (ack_pkt g t v id rc) = false.
Proof.
  intros H1 H2. unfold terminal_pkt, ack_pkt. cbn [k_type].
  destruct (N.eqb_spec t T_DISCONNECT); [contradiction|]. destruct (N.eqb_spec t T_CONNACK); [contradiction|]. reflexivity.
Qed.

Ltac intro_sub :=
  match goal with
  | |- context [send_puback_like ?c (ack_pkt ?g ?t ?v ?id ?rc)] =>
      let H := fresh "Hack" in
      pose proof (send_puback_like_benign c (ack_pkt g t v id rc) (ack_nonterminal g t v id rc ltac:(discriminate) ltac:(discriminate))) as H;
      destruct (send_puback_like c (ack_pkt g t v id rc)) as [[? ?]|]; cbn [RB] in H
  | |- context [send_pubrel ?c (ack_pkt ?g ?t ?v ?id ?rc)] =>
      let H := fresh "Hack" in
      pose proof (send_pubrel_benign c (ack_pkt g t v id rc) (ack_nonterminal g t v id rc ltac:(discriminate) ltac:(discriminate))) as H;
      destruct (send_pubrel c (ack_pkt g t v id rc)) as [[? ?]|]; cbn [RB] in H
  | |- context [send_plain ?c (pingresp_pkt ?v)] =>
      let H := fresh "Hpr" in
      pose proof (send_plain_benign c (pingresp_pkt v) eq_refl) as H;
      destruct (send_plain c (pingresp_pkt v)) as [[? ?]|]; cbn [RB] in H
  end.

Ltac finish_co := cbn [RC]; apply co_benign; finish_benign.

Ltac step_RC :=
  match goal with
  | |- RC (Panic _) => exact I
  | |- RC (handle_error _ _ _) => apply handle_error_RC
  | |- RC (handle_v5_error _ _) => apply handle_v5_error_RC
  | |- RC (Ok (_, handle_v311_error _)) => reflexivity
  | |- RC (Ok _) => finish_co
  | |- RC (bindr (Panic _) _) => exact I
  | |- RC (bindr (Ok _) _) => cbn [bindr]
  | |- RC (if ?b then _ else _) => destruct b eqn:?
  | |- RC (let '(_, _) := (if ?b then _ else _) in _) => destruct b eqn:?
  | |- RC (let '(_, _) := ?x in _) => first [intro_helper | destruct x as [? ?] eqn:?]
  | |- RC (match ?x with _ => _ end) => first [intro_helper | intro_sub | destruct x eqn:?]
  | |- RC (bindr (if ?b then _ else _) _) => destruct b eqn:?
  | |- RC (bindr ?r _) => first [intro_helper | intro_sub | destruct r as [?|] eqn:?]; cbn [bindr]
  end.

Lemma recv_publish_v311_RC g c pr : RC (recv_publish_v311 g c pr).
Proof. unfold recv_publish_v311. repeat step_RC. Qed.

Lemma recv_pubrel_RC g c v pr : RC (recv_pubrel g c v pr).
Proof. unfold recv_pubrel. repeat step_RC. Qed.

Lemma recv_notify_RC c v pr : RC (recv_notify c v pr).
Proof. unfold recv_notify. repeat step_RC. Qed.

Lemma recv_pingreq_RC g c v pr : RC (recv_pingreq g c v pr).
Proof. unfold recv_pingreq. repeat step_RC. Qed.

Lemma recv_pingresp_RC c v pr : RC (recv_pingresp c v pr).
Proof. unfold recv_pingresp. repeat step_RC. Qed.

Lemma recv_disconnect_RC c v pr : RC (recv_disconnect c v pr).
Proof. unfold recv_disconnect. repeat step_RC. Qed.

Lemma recv_ack_RC g c v t pr : RC (recv_ack g c v t pr).
Proof. unfold recv_ack, store_erase. repeat step_RC. Qed.

Lemma resolve_recv_alias_co g c p :
  match resolve_recv_alias g c p with
  | Ok (_, _, stop, e0) => (stop = true /\ close_ordered e0 = true) \/ (stop = false /\ e0 = [])
  | Panic _ => True
  end.
Proof.
  unfold resolve_recv_alias.
  repeat match goal with
         | |- context [if ?b then _ else _] => destruct b eqn:?
         | |- context [match k_alias ?p with _ => _ end] => destruct (k_alias p) eqn:?
         | |- context [match c_ta_recv ?c with _ => _ end] => destruct (c_ta_recv c) eqn:?
         | |- context [tar_get ?r ?a] => destruct (tar_get r a) eqn:?
         | |- context [tar_insert ?r ?t ?a] => destruct (tar_insert r t a) eqn:?
         | |- context [handle_v5_error ?c ?e] =>
             let H := fresh in pose proof (handle_v5_error_RC c e) as H; destruct (handle_v5_error c e) as [[? ?]|]; cbn [RC] in H
         | |- _ => progress cbn [bindr]
         end; auto.
Qed.

Lemma recv_publish_v5_RC g c pr : RC (recv_publish_v5 g c pr).
Proof.
  unfold recv_publish_v5. destruct pr as [p|e]; [|repeat step_RC].
  match goal with |- RC (if ?b then _ else _) => destruct b end; [apply handle_v5_error_RC|].
  pose proof (resolve_recv_alias_co g (note_inbound c p) p) as H0.
  destruct (resolve_recv_alias g (note_inbound c p) p) as [[[[c1 q] stop] e0]|]; [|exact I].
  cbn [bindr].
  destruct H0 as [[-> H0]|[-> ->]]; [exact H0|].
  repeat step_RC.
Qed.

Lemma resume_or_clear_benign c sp : RB (resume_or_clear c sp).
Proof.
  unfold resume_or_clear. destruct sp; [|reflexivity].
  pose proof (send_stored_benign c) as H. destruct (send_stored c) as [[c1 es]|]; cbn [bindr RB] in *; [|exact I].
  destruct (existsb _ es); [|exact H]. repeat step_RB.
Qed.

Lemma recv_connect_RC g c v pr : RC (recv_connect g c v pr).
Proof.
  unfold recv_connect. destruct (negb _); [apply handle_error_RC|].
  destruct pr as [p|e].
  - destruct (connect_recv_state _ _ _); cbn [bindr]; [|exact I]. repeat step_RC.
  - apply RC_then_error. apply send_connack_RC. unfold connect_refusal. destruct (version_eqb v V50); reflexivity.
Qed.

Lemma connack_recv_limits_store c p c' : connack_recv_limits c p = Ok c' -> c_store c' = c_store c.
Proof.
  unfold connack_recv_limits.
  repeat match goal with
         | |- context [match ?o with Some _ => _ | None => _ end] => destruct o eqn:?
         | |- context [if ?b then _ else _] => destruct b eqn:?
         | |- context [tas_new ?m] => destruct (tas_new m) eqn:?
         | |- _ => progress cbn [bindr]
         end; intro E; try discriminate; inversion E; reflexivity.
Qed.

Lemma connack_recv_ska_spec c p :
  benign (snd (connack_recv_ska c p)) = true /\ c_store (fst (connack_recv_ska c p)) = c_store c.
Proof.
  unfold connack_recv_ska.
  repeat match goal with
         | |- context [match ?o with Some _ => _ | None => _ end] => destruct o eqn:?
         | |- context [if ?b then _ else _] => destruct b eqn:?
         end; split; reflexivity.
Qed.

Lemma recv_connack_RC c v pr : RC (recv_connack c v pr).
Proof.
  unfold recv_connack. destruct (status_eqb _ _); [apply handle_error_RC|].
  destruct pr as [p|e]; [|repeat step_RC].
  destruct (k_rc p =? 0); [|repeat step_RC].
  destruct (version_eqb v V50).
  - destruct (connack_recv_limits (set_status c Connected) p) as [c1|] eqn:E1; cbn [bindr]; [|exact I].
    apply connack_recv_limits_store in E1. cbn [set_status c_store] in E1.
    destruct (connack_recv_ska_spec c1 p) as [He1 Hst]. destruct (connack_recv_ska c1 p) as [c2 e1]. cbn [fst snd] in *.
    pose proof (resume_or_clear_benign (connack_recv_sei c2 p) (k_flag p)) as HR.
    destruct (resume_or_clear _ _) as [[c3 e2]|]; cbn [bindr RB] in *; [|exact I]. finish_co.
  - pose proof (resume_or_clear_benign (set_status c Connected) (k_flag p)) as HR.
    destruct (resume_or_clear _ _) as [[c2 e2]|]; cbn [bindr RB] in *; [|exact I]. finish_co.
Qed.

Lemma dispatch_recv_RC g c v t pr : RC (dispatch_recv g c v t pr).
Proof.
  unfold dispatch_recv.
  repeat match goal with |- RC (if ?b then _ else _) => destruct b end;
    first [ apply recv_connect_RC | apply recv_connack_RC | apply recv_publish_v5_RC | apply recv_publish_v311_RC
          | apply recv_ack_RC | apply recv_pubrel_RC | apply recv_notify_RC | apply recv_pingreq_RC | apply recv_pingresp_RC
          | apply recv_disconnect_RC | reflexivity ].
Qed.

Lemma process_recv_packet_RC g c fh body pr : RC (process_recv_packet g c fh body pr).
Proof.
  unfold process_recv_packet.
  destruct (c_mps_recv c <? _).
  { destruct (status_eqb _ _).
    - apply RC_then_error, close_with_disconnect_RC.
    - pose proof (cancel_benign (set_status c Disconnected)) as H. destruct (cancel_timers _) as [c' e]. cbn [snd] in H.
      cbn [RC]. rewrite co_benign_app by assumption. reflexivity. }
  destruct (negb _); [reflexivity|].
  destruct (c_version c); try apply dispatch_recv_RC.
  repeat match goal with |- RC (if ?b then _ else _) => destruct b end; try reflexivity;
    apply recv_connect_RC.
Qed.

Definition evs_of (r : res (conn * list event * list N)) : list event :=
  match r with Ok (_, e, _) => e | Panic _ => [] end.

Lemma drain_release_benign ids : forall a, match drain_release a ids with Ok (_, e) => benign e = true | Panic _ => True end.
Proof.
  induction ids as [|id t IH]; intro a; cbn [drain_release]; [reflexivity|].
  destruct (pm_is_used a id); [|apply IH].
  destruct (pm_release a id) as [a'|]; cbn [bindr]; [|exact I].
  specialize (IH a'). destruct (drain_release a' t) as [[a'' e]|]; cbn [bindr]; [|exact I]. exact IH.
Qed.

Lemma do_closed_RB c : RB (do_closed c).
Proof.
  unfold do_closed.
  repeat match goal with
         | |- context [drain_release ?a ?ids] =>
             let H := fresh in pose proof (drain_release_benign ids a) as H;
             destruct (drain_release a ids) as [[? ?]|]; cbn [bindr]; [|exact I]
         | |- RB (bindr (if ?b then _ else _) _) => destruct b
         | |- RB (bindr (Ok _) _) => cbn [bindr]
         | |- RB (let '(_, _) := cancel_timers ?c in _) =>
             let H := fresh in pose proof (cancel_benign c) as H; destruct (cancel_timers c) as [? ?]; cbn [snd] in H
         end; finish_benign.
Qed.

Theorem close_ordered_step g c o :
  close_ordered (evs_of (step g c o)) = true.
Proof.
  unfold step.
  destruct o; cbn [evs_of]; try reflexivity.
  - (* send *)
    pose proof (do_send_RC g c p) as H. destruct (do_send g c p) as [[c' e]|]; cbn [bindr evs_of RC] in *; [exact H|reflexivity].
  - (* recv *)
    unfold do_recv. destruct (feed (c_pb c) bytes) as [[r pb'] rest]. destruct r as [hdr body| |hdr].
    + pose proof (process_recv_packet_RC g (set_pb c pb') (hd 0 hdr) body pr) as H.
      destruct (process_recv_packet _ _ _ _ _) as [[c' e]|]; cbn [bindr evs_of RC] in *; [exact H|reflexivity].
    + reflexivity.
    + pose proof (cancel_benign (set_pb c pb')) as H. destruct (cancel_timers _) as [c' e]. cbn [snd bindr evs_of] in *.
      rewrite co_benign_app by assumption. reflexivity.
  - (* timer *)
    assert (H : RC (do_timer c k)).
    { unfold do_timer. destruct k.
      - destruct (status_eqb _ _); [|reflexivity]. destruct (c_version (set_t_send c false)); try exact I;
          apply RB_RC, send_pingreq_benign; reflexivity.
      - destruct (c_version (set_t_recv c false)); try exact I; [reflexivity|].
        destruct (status_eqb _ _); [apply close_with_disconnect_RC|reflexivity].
      - destruct (c_version (set_t_resp c false)); try exact I; [reflexivity|].
        destruct (status_eqb _ _); [apply close_with_disconnect_RC|reflexivity]. }
    destruct (do_timer c k) as [[c' e]|]; cbn [bindr evs_of RC] in *; [exact H|reflexivity].
  - (* closed *)
    pose proof (do_closed_RB c) as H. destruct (do_closed c) as [[c' e]|]; cbn [bindr evs_of RB] in *; [now apply co_benign|reflexivity].
  - (* set_pingreq_send_interval *)
    unfold do_set_pingreq_interval. destruct o as [ms|]; [|reflexivity].
    destruct (ms =? 0); [destruct (c_t_send _); reflexivity|]. destruct (status_eqb _ _); reflexivity.
  - (* acquire *)
    destruct (pm_acquire (c_pid c)) as [[r a]|]; reflexivity.
  - (* register *)
    destruct (pm_register (c_pid c) id); reflexivity.
  - (* release *)
    pose proof (release_benign c id) as H. destruct (release_if_used c id) as [[c' e]|]; cbn [bindr evs_of RB] in *; [now apply co_benign|reflexivity].
  - (* erase *)
    assert (H : RB (do_erase c id)).
    { unfold do_erase. destruct (store_erase_publish_l id (c_store c)) as [b l]. destruct b; [|reflexivity]. apply release_benign. }
    destruct (do_erase c id) as [[c' e]|]; cbn [bindr evs_of RB] in *; [now apply co_benign|reflexivity].
Qed.

(* keep-alive timeouts on an established connection always request close *)
Theorem timeout_closes g c k :
  status_eqb (c_status c) Connected = true -> (k = TPingreqRecv \/ k = TPingrespRecv) ->
  match step g c (OTimer k) with
  | Ok (_, e, _) => existsb is_close e = true
  | Panic _ => c_version c = VUndet
  end.
Proof.
  intros Hst Hk. unfold step, do_timer.
  assert (Hclose : forall c0 p, status_eqb (c_status c0) Connected = true ->
            match close_with_disconnect c0 p with Ok (_, e) => existsb is_close e = true | Panic _ => False end).
  { intros c0 p H0. unfold close_with_disconnect. rewrite H0. cbn [andb].
    destruct (negb (size_ok c0 p)) eqn:Es.
    - destruct (cancel_timers _) as [c' e]. rewrite existsb_app. cbn. now rewrite orb_true_r.
    - unfold send_disconnect. apply negb_false_iff in Es. rewrite Es. cbn [negb andb]. rewrite andb_false_r.
      rewrite H0. cbn [negb]. destruct (cancel_timers _) as [c' e]. rewrite existsb_app. cbn. now rewrite orb_true_r. }
  destruct Hk as [-> | ->].
  - destruct (c_version c) eqn:Ev; cbn [set_t_recv c_version]; rewrite Ev; cbn [bindr]; [reflexivity| |reflexivity].
    cbn [set_t_recv c_status]. rewrite Hst.
    specialize (Hclose (set_t_recv c false) (disconnect_v5 141) Hst).
    destruct (close_with_disconnect _ _) as [[c' e]|]; cbn [bindr]; [exact Hclose|contradiction].
  - destruct (c_version c) eqn:Ev; cbn [set_t_resp c_version]; rewrite Ev; cbn [bindr]; [reflexivity| |reflexivity].
    cbn [set_t_resp c_status]. rewrite Hst.
    specialize (Hclose (set_t_resp c false) (disconnect_v5 141) Hst).
    destruct (close_with_disconnect _ _) as [[c' e]|]; cbn [bindr]; [exact Hclose|contradiction].
Qed.

From MQ Require Import Conn.Run.

(* every event list of every history, from any state *)
Theorem close_ordered_history g ops : forall c,
  Forall (fun e => close_ordered e = true) (run_events g c ops).
Proof.
  induction ops as [|o t IH]; intro c; cbn [run_events]; [constructor|].
  pose proof (close_ordered_step g c o) as H. destruct (step g c o) as [[[c' e] r]|]; [|constructor].
  constructor; [exact H|apply IH].
Qed.
