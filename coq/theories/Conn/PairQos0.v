(* C01, model side, QoS 0: the message is requested for sending, notified once, nothing is kept on either side — so it
   can never be retransmitted: at most once by construction. *)
From MQ Require Import Base.Prelude Alloc.Alloc Alloc.SetSpec Alloc.AllocProofs Framing.Framing
                       Conn.Types Conn.TopicAlias Conn.ConnRecord Conn.Step Conn.Run Corr.ConnTrace Conn.Scope Conn.IdsQuota Conn.WfInv
                       Conn.Own Conn.OwnFrame Conn.OwnStep Conn.Qos2Dup Conn.PairQos Conn.PairSeq.

Theorem qos0_delivered gr cs cr p : ready cs -> ready cr -> v311_pub p 0 ->
  exists cs1 e1 cr1 e2,
    send_publish_v311 cs p = Ok (cs1, e1) /\ sends e1 = [p] /\ errors e1 = [] /\ released e1 = [] /\
    F8 cs1 cs /\                                   (* allocator, store and awaited sets untouched: nothing to retransmit *)
    deliver gr cr p = Ok (cr1, e2) /\ notifies e2 = [p] /\ sends e2 = [] /\ errors e2 = [] /\
    F8 cr1 cr /\ c_qos2 cr1 = c_qos2 cr.
Proof.
  intros [Rv Rs] [Rvr Rsr] (Ht & Hv & Hq).
  assert (H1 : exists cs1 e1, send_publish_v311 cs p = Ok (cs1, e1) /\ sends e1 = [p] /\ errors e1 = [] /\ released e1 = [] /\ F8 cs1 cs).
  { unfold send_publish_v311. cbv zeta. rewrite Hq. change (0 =? 0) with true. cbn [negb]. rewrite Rs. cbn [negb].
    pose proof (send_and_post_x cs p None) as K. destruct (send_and_post cs p None []) as [[c1 e]|]; [|destruct K].
    destruct K as (K1 & _ & K3 & K4 & F & _). exists c1, e. split; [reflexivity|]. split; [exact K1|]. split; [exact K3|]. split; [exact K4|exact F]. }
  destruct H1 as (cs1 & e1 & E1 & S1 & X1 & L1 & F1).
  assert (H2 : exists cr1 e2, deliver gr cr p = Ok (cr1, e2) /\ notifies e2 = [p] /\ sends e2 = [] /\ errors e2 = [] /\ F8 cr1 cr /\ c_qos2 cr1 = c_qos2 cr).
  { unfold deliver, dispatch_recv. rewrite Ht, Rvr.
    change (T_PUBLISH =? 1) with false. change (T_PUBLISH =? 2) with false. change (T_PUBLISH =? 3) with true. cbn [version_eqb]. cbv iota.
    unfold recv_publish_v311. cbv zeta. rewrite Hq. change (0 =? 0) with true. cbv iota.
    pose proof (refresh_keeps cr) as K. pose proof (refresh_quiet cr) as Q. cbv zeta in K, Q. destruct (refresh_pingreq_recv cr) as [c2 e2]. cbn [fst snd] in *.
    destruct K as (F & _ & _ & K4), Q as (Q1 & Q2 & Q3 & _). exists c2, (e2 ++ [ENotify p]). ev_simpl. rewrite Q1, Q2, Q3. cbn. split; [reflexivity|]. do 3 (split; [reflexivity|]). split; [exact F|exact K4]. }
  destruct H2 as (cr1 & e2 & E2 & N2 & S2 & X2 & F2 & Q2).
  exists cs1, e1, cr1, e2. split; [exact E1|]. split; [exact S1|]. split; [exact X1|]. split; [exact L1|]. split; [exact F1|].
  split; [exact E2|]. split; [exact N2|]. split; [exact S2|]. split; [exact X2|]. split; [exact F2|exact Q2].
Qed.
