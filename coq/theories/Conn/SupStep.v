(* The converse of the ownership invariant for a persistent session: every identifier awaited in the PUBACK /
   PUBREC / PUBCOMP set has its packet in the store (SUP).  With OWN (stored => awaited) this is C06's / C16's
   structural invariant: the store determines the in-flight sets.  Kept by every call, given that persistence
   is switched on only while nothing is in flight unsupported. *)
From MQ Require Import Base.Prelude Alloc.Alloc Alloc.SetSpec Alloc.AllocProofs Framing.Framing
                       Conn.Types Conn.TopicAlias Conn.ConnRecord Conn.Step Conn.Run Corr.ConnTrace Conn.Scope Conn.IdsQuota Conn.WfInv
                       Conn.Own Conn.OwnFrame Conn.OwnStep Conn.SupFrame Conn.Qos2Sub.

Definition hask (r : N) (S : list pkt) (y : N) : bool := existsb (fun q => (k_pid q =? y) && (response_of q =? r)) S.
Definition sup8 (S : list pkt) (PA PB PC : list N) : Prop :=
  forall y, (mem y PA = true -> hask T_PUBACK S y = true) /\ (mem y PB = true -> hask T_PUBREC S y = true) /\
            (mem y PC = true -> hask T_PUBCOMP S y = true).
Definition SUPX (c : conn) : Prop := sup8 (c_store c) (c_puback c) (c_pubrec c) (c_pubcomp c).
Definition SUP (c : conn) : Prop := c_need_store c = true -> SUPX c.

Lemma hask_In r S y : hask r S y = true <-> exists q, In q S /\ k_pid q = y /\ response_of q = r.
Proof.
  unfold hask. rewrite existsb_exists. split.
  - intros (q & Hq & E). apply andb_true_iff in E as [E1 E2]. apply N.eqb_eq in E1, E2. now exists q.
  - intros (q & Hq & E1 & E2). exists q. split; [exact Hq|]. now rewrite E1, E2, !N.eqb_refl.
Qed.
Lemma hask_sub r S S' y : (forall q, In q S -> k_pid q = y -> In q S') -> hask r S y = true -> hask r S' y = true.
Proof. intros Hs H. apply hask_In in H as (q & Hq & E1 & E2). apply hask_In. exists q. split; [now apply Hs|split; assumption]. Qed.

Lemma sup_frame c' c : F9 c' c -> SUP c -> SUP c'.
Proof.
  unfold F9, SUP, SUPX. intros (_ & H2 & H3 & H4 & H5 & _ & _ & _ & H9). now rewrite H2, H3, H4, H5, H9.
Qed.
Lemma supx_frame c' c : F8 c' c -> SUPX c -> SUPX c'.
Proof. unfold F8, SUPX. intros (_ & H2 & H3 & H4 & H5 & _). now rewrite H2, H3, H4, H5. Qed.
Lemma sup_off c : c_need_store c = false -> SUP c.
Proof. unfold SUP. intros H K. congruence. Qed.
Lemma supx_sup c : SUPX c -> SUP c. Proof. unfold SUP; auto. Qed.
Lemma sup_empty S : sup8 S [] [] [].
Proof. intro y. repeat split; intro H; discriminate. Qed.

(* persistence may be switched on here *)
Definition persist_ok (c : conn) : Prop := c_need_store c = true \/ (c_puback c = [] /\ c_pubrec c = [] /\ c_pubcomp c = []).
Lemma persist_supx c : SUP c -> persist_ok c -> SUPX c.
Proof. intros H [E|(E1 & E2 & E3)]; [now apply H|]. unfold SUPX. rewrite E1, E2, E3. apply sup_empty. Qed.

(* ---- moves on the four fields ---- *)
Lemma sup_del_PA S PA PB PC id : sup8 S PA PB PC -> sup8 S (del id PA) PB PC.
Proof. intros H y. destruct (H y) as (H1 & H2 & H3). repeat split; auto. intro K. apply H1. now apply (mem_del_sub y id). Qed.
Lemma sup_del_PB S PA PB PC id : sup8 S PA PB PC -> sup8 S PA (del id PB) PC.
Proof. intros H y. destruct (H y) as (H1 & H2 & H3). repeat split; auto. intro K. apply H2. now apply (mem_del_sub y id). Qed.
Lemma sup_del_PC S PA PB PC id : sup8 S PA PB PC -> sup8 S PA PB (del id PC).
Proof. intros H y. destruct (H y) as (H1 & H2 & H3). repeat split; auto. intro K. apply H3. now apply (mem_del_sub y id). Qed.

(* a packet is appended and its identifier enters the set of its kind *)
Lemma sup_snoc_ins S PA PB PC q : sup8 S PA PB PC ->
  sup8 (S ++ [q]) (if response_of q =? T_PUBACK then ins (k_pid q) PA else PA)
       (if response_of q =? T_PUBACK then PB else if response_of q =? T_PUBREC then ins (k_pid q) PB else PB)
       (if response_of q =? T_PUBACK then PC else if response_of q =? T_PUBREC then PC else ins (k_pid q) PC).
Proof.
  intros H y. destruct (H y) as (H1 & H2 & H3).
  assert (Hm : forall r, hask r S y = true -> hask r (S ++ [q]) y = true).
  { intros r. apply hask_sub. intros p Hp _. apply in_or_app. now left. }
  assert (Hq : forall r, response_of q = r -> hask r (S ++ [q]) (k_pid q) = true).
  { intros r Hr. apply hask_In. exists q. split; [apply in_or_app; right; now left|split; [reflexivity|exact Hr]]. }
  assert (Hresp : response_of q = T_PUBACK \/ response_of q = T_PUBREC \/ response_of q = T_PUBCOMP).
  { unfold response_of. destruct (_ =? T_PUBLISH); [destruct (_ =? 1)|]; auto. }
  destruct (N.eqb_spec (response_of q) T_PUBACK) as [E1|E1]; [|destruct (N.eqb_spec (response_of q) T_PUBREC) as [E2|E2]].
  - repeat split; auto. rewrite mem_ins. intro K. apply orb_true_iff in K as [K|K]; [apply N.eqb_eq in K; subst y; now apply Hq|auto].
  - repeat split; auto. rewrite mem_ins. intro K. apply orb_true_iff in K as [K|K]; [apply N.eqb_eq in K; subst y; now apply Hq|auto].
  - repeat split; auto. rewrite mem_ins. intro K. apply orb_true_iff in K as [K|K]; [apply N.eqb_eq in K; subst y; apply Hq; destruct Hresp as [E|[E|E]]; congruence|auto].
Qed.

(* the stored entries of one identifier are removed (S' keeps every entry of another identifier) and the identifier
   leaves the sets whose kind lost its entry *)
Lemma sup_erase g a S PA PB PC SA UA V S' id (dA dB dC : bool) :
  own8 g a S PA PB PC SA UA V -> sup8 S PA PB PC ->
  (forall q, In q S -> k_pid q <> id -> In q S') ->
  (* for a kind whose set keeps id, the entry of id (if any, of that kind) survives *)
  (dA = false -> forall q, In q S -> k_pid q = id -> response_of q = T_PUBACK -> In q S') ->
  (dB = false -> forall q, In q S -> k_pid q = id -> response_of q = T_PUBREC -> In q S') ->
  (dC = false -> forall q, In q S -> k_pid q = id -> response_of q = T_PUBCOMP -> In q S') ->
  sup8 S' (if dA then del id PA else PA) (if dB then del id PB else PB) (if dC then del id PC else PC).
Proof.
  intros HO H Hk HA HB HC y. destruct (H y) as (H1 & H2 & H3).
  destruct (o_asc _ _ _ _ _ _ _ _ _ HO) as (A1 & A2 & A3 & _).
  assert (Hsurv : forall r (keep : bool), (keep = true -> forall q, In q S -> k_pid q = id -> response_of q = r -> In q S') ->
            (y <> id \/ keep = true) -> hask r S y = true -> hask r S' y = true).
  { intros r keep Hkeep Hy Hh. apply hask_In in Hh as (q & Hq & E1 & E2). apply hask_In. exists q. split; [|split; assumption].
    destruct (N.eq_dec y id) as [->|Hne]; [destruct Hy as [Hy|Hy]; [now destruct Hy|now apply (Hkeep Hy)]|apply Hk; [exact Hq|congruence]]. }
  repeat split.
  - destruct dA.
    + rewrite (mem_del g _ _ _ A1). intro K. apply andb_true_iff in K as [K1 K2]. apply negb_true_iff, N.eqb_neq in K2.
      apply (Hsurv T_PUBACK false); [discriminate|now left|auto].
    + intro K. apply (Hsurv T_PUBACK true); [intros _; now apply HA|now right|auto].
  - destruct dB.
    + rewrite (mem_del g _ _ _ A2). intro K. apply andb_true_iff in K as [K1 K2]. apply negb_true_iff, N.eqb_neq in K2.
      apply (Hsurv T_PUBREC false); [discriminate|now left|auto].
    + intro K. apply (Hsurv T_PUBREC true); [intros _; now apply HB|now right|auto].
  - destruct dC.
    + rewrite (mem_del g _ _ _ A3). intro K. apply andb_true_iff in K as [K1 K2]. apply negb_true_iff, N.eqb_neq in K2.
      apply (Hsurv T_PUBCOMP false); [discriminate|now left|auto].
    + intro K. apply (Hsurv T_PUBCOMP true); [intros _; now apply HC|now right|auto].
Qed.

(* ---- the store operations keep what they do not address ---- *)
Lemma erase_l_keep v r id S q : In q S -> (k_pid q <> id \/ response_of q <> r) -> In q (store_erase_l v r id S).
Proof.
  induction S as [|p t IH]; cbn [store_erase_l]; [tauto|]. intros [<-|Hq] Hk.
  - destruct (N.eqb_spec (k_pid p) id) as [E|E]; [|now left].
    destruct Hk as [Hk|Hk]; [contradiction|]. apply N.eqb_neq in Hk. rewrite Hk, andb_false_r. now left.
  - destruct (k_pid p =? id); [destruct (_ && _); [exact Hq|now right]|right; now apply IH].
Qed.
Lemma erase_publish_keep id S q : In q S -> (k_pid q <> id \/ (k_type q =? T_PUBLISH) = false) -> In q (snd (store_erase_publish_l id S)).
Proof.
  induction S as [|p t IH]; cbn [store_erase_publish_l]; [tauto|]. intros [<-|Hq] Hk.
  - destruct (N.eqb_spec (k_pid p) id) as [E|E].
    + destruct Hk as [Hk|Hk]; [contradiction|]. rewrite Hk. cbn [snd]. now left.
    + destruct (store_erase_publish_l id t). cbn [snd]. now left.
  - destruct (k_pid p =? id); [destruct (k_type p =? T_PUBLISH); cbn [snd]; [exact Hq|now right]|].
    specialize (IH Hq Hk). destruct (store_erase_publish_l id t). cbn [snd] in *. now right.
Qed.
Lemma response_pubcomp_type q : response_of q = T_PUBCOMP -> (k_type q =? T_PUBLISH) = false.
Proof. unfold response_of. destruct (k_type q =? T_PUBLISH); [destruct (_ =? 1); discriminate|reflexivity]. Qed.

(* ---- the calls ---- *)
Definition SR (c : conn) (r : res (conn * list event)) : Prop := match r with Ok (c', _) => SUP c' | Panic _ => True end.

Lemma SR_FR9 c c1 r : SUP c1 -> FR9 c1 r -> SR c r.
Proof. destruct r as [[c' e]|]; cbn [SR FR9]; [|trivial]. intros H F. now apply (sup_frame c' c1). Qed.
Lemma SR_post c c1 p rel pre : SUP c1 -> SR c (send_and_post c1 p rel pre).
Proof. intro H. apply (SR_FR9 c c1); [exact H|apply send_and_post_FR9, f9_refl]. Qed.

Lemma release_if_used_sup c id c' e : release_if_used c id = Ok (c', e) -> SUP c -> SUP c'.
Proof.
  unfold release_if_used. destruct (is_used c id); [|intro H; inversion H; subst; auto].
  destruct (pm_release _ _); cbn [bindr]; [|discriminate]. intro H; inversion H; subst. unfold SUP, SUPX. conn_simpl_goal. auto.
Qed.
Lemma release_SR c0 c id (k : evs -> evs) : SUP c -> SR c0 (bindr (release_if_used c id) (fun '(c1, e) => Ok (c1, k e))).
Proof. intro H. destruct (release_if_used c id) as [[c1 e]|] eqn:E; cbn [bindr SR]; [now apply (release_if_used_sup c id c1 e)|exact I]. Qed.

Lemma send_sub_unsub_SR c p : SUP c -> SR c (send_sub_unsub c p).
Proof.
  intro H. unfold send_sub_unsub. cbv zeta. destruct (_ && _); [now apply release_SR|]. destruct (negb _); [now apply release_SR|].
  destruct (negb _); [exact H|]. apply SR_post. destruct (_ =? T_SUBSCRIBE); unfold SUP, SUPX in *; conn_simpl_goal; exact H.
Qed.

(* the insertion after a PUBLISH was stored *)
Lemma publish_stored_sup c p q : SUPX c -> k_type q = T_PUBLISH -> k_qos q = k_qos p -> k_pid q = k_pid p -> 1 <= k_qos p <= 2 ->
  SUPX (let c1 := set_store c (c_store c ++ [q]) in
        if k_qos p =? 2 then set_pubrec c1 (ins (k_pid p) (c_pubrec c1)) else set_puback c1 (ins (k_pid p) (c_puback c1))).
Proof.
  intros H Ht Hq Hp Hr. pose proof (sup_snoc_ins _ _ _ _ q H) as Hs. rewrite Hp in Hs.
  assert (Hresp : response_of q = if k_qos p =? 1 then T_PUBACK else T_PUBREC) by (unfold response_of; rewrite Ht, Hq; reflexivity).
  rewrite Hresp in Hs. cbv zeta. unfold SUPX. destruct (N.eqb_spec (k_qos p) 2) as [E2|E2].
  - rewrite E2 in Hs. conn_simpl_goal. exact Hs.
  - assert (E1 : k_qos p = 1) by lia. rewrite E1 in Hs. conn_simpl_goal. exact Hs.
Qed.

Lemma can_store_off c : can_store_now c = false -> status_eqb (c_status c) Connected = true -> c_need_store c = false.
Proof.
  unfold can_store_now. intros H Hs. destruct (c_need_store c); [|reflexivity]. cbn [andb] in H.
  apply orb_false_iff in H as [H _]. apply negb_false_iff in H. destruct (c_status c); discriminate.
Qed.

Lemma send_publish_v311_SR c p : SUP c -> k_type p = T_PUBLISH -> k_qos p <= 2 -> SR c (send_publish_v311 c p).
Proof.
  intros H Ht Hq2. unfold send_publish_v311. cbv zeta.
  destruct (N.eqb_spec (k_qos p) 0) as [Eq|Eq]; cbn [negb].
  { destruct (negb _); [exact H|now apply SR_post]. }
  destruct (negb (status_eqb (c_status c) Connected) && negb (can_store_now c)) eqn:Eg; [now apply release_SR|].
  destruct (negb (is_used c (k_pid p))); [exact H|].
  destruct (can_store_now c) eqn:Ec.
  - unfold store_add. destruct (store_has _ _); cbn [bindr]; [exact I|].
    assert (Hx : c_need_store c = true) by (unfold can_store_now in Ec; now apply andb_true_iff in Ec as [Ec _]).
    pose proof (publish_stored_sup c p (set_dup p true) (H Hx) Ht eq_refl eq_refl ltac:(lia)) as Hs. cbv zeta in Hs.
    destruct (k_qos p =? 2); (destruct (status_eqb _ _); [apply SR_post; now apply supx_sup|cbn [SR]; now apply supx_sup]).
  - cbn [bindr]. rewrite andb_true_r in Eg. apply negb_false_iff in Eg. pose proof (can_store_off c Ec Eg) as Hoff.
    destruct (k_qos p =? 2); conn_simpl_goal; rewrite Eg; apply SR_post; apply sup_off; conn_simpl_goal; exact Hoff.
Qed.

Lemma send_pubrel_SR c p : SUP c -> k_type p = T_PUBREL -> SR c (send_pubrel c p).
Proof.
  intros H Ht. unfold send_pubrel. cbv zeta. destruct (_ && _); [exact H|]. destruct (_ && _); [exact H|]. destruct (negb _); [exact H|].
  assert (Hresp : response_of p = T_PUBCOMP) by (unfold response_of; rewrite Ht; reflexivity).
  destruct (c_need_store c) eqn:En.
  - unfold store_add. destruct (store_has _ _); cbn [bindr]; [exact I|].
    assert (Hs : SUPX (set_pubcomp (set_store c (c_store c ++ [p])) (ins (k_pid p) (c_pubcomp (set_store c (c_store c ++ [p])))))).
    { pose proof (sup_snoc_ins _ _ _ _ p (H En)) as Hs. rewrite Hresp in Hs. unfold SUPX. conn_simpl_goal. exact Hs. }
    destruct (status_eqb _ _); [apply SR_post; now apply supx_sup|cbn [SR]; now apply supx_sup].
  - cbn [bindr]. destruct (status_eqb _ _); [apply SR_post|cbn [SR]]; apply sup_off; conn_simpl_goal; exact En.
Qed.

(* the v5.0 refusal that takes a stored PUBLISH back *)
Lemma refuse_publish_SR g c0 c id err pre : OWN g c -> SUP c -> SR c0 (refuse_publish c id err pre).
Proof.
  intros HO H. unfold refuse_publish. destruct (_ && _); [|exact H].
  destruct (pm_release (c_pid c) id) as [a|]; cbn [bindr SR]; [|exact I].
  unfold SUP, SUPX in *. conn_simpl_goal. intro En. specialize (H En).
  apply (sup_erase g _ _ _ _ _ _ _ _ _ id true true false HO H).
  - intros q Hq Hne. apply erase_publish_keep; [exact Hq|now left].
  - discriminate.
  - discriminate.
  - intros _ q Hq _ Hr. apply erase_publish_keep; [exact Hq|right; now apply response_pubcomp_type].
Qed.

Lemma validate_f9 c a : F9 (snd (validate_topic_alias c a)) c.
Proof.
  unfold validate_topic_alias. destruct a as [x|]; [|apply f9_refl]. destruct (negb (validate_topic_alias_range c x)); [apply f9_refl|].
  destruct (c_ta_send c) as [s|]; [|apply f9_refl]. destruct (tas_get s x) as [[t|] s']; cbn [snd]; [unfold F9; conn_simpl; repeat split|apply f9_refl].
Qed.

Lemma send_publish_v5_SR g c p : OWN g c -> SUP c ->
  (if k_qos p =? 0 then k_pid p = 0 else fresh c (k_pid p)) -> k_ver p = c_version c -> k_type p = T_PUBLISH -> k_qos p <= 2 ->
  SR c (send_publish_v5 g c p).
Proof.
  intros HO H Hf Hv Ht Hq2. unfold send_publish_v5. cbv zeta.
  destruct (negb (size_ok c p)).
  { destruct (negb _); [now apply release_SR|exact H]. }
  (* part 1: OWN and SUP afterwards *)
  pose proof (part1_own g c p HO Hf Hv Ht Hq2) as HO1. cbv zeta in HO1.
  match goal with |- SR _ (bindr ?P1 _) =>
    assert (H1 : match P1 with Ok (c1, _, _, _, _) => SUP c1 | Panic _ => True end) end.
  { destruct (N.eqb_spec (k_qos p) 0) as [Eq|Eq]; cbn [negb]; [destruct (negb (status_eqb (c_status c) Connected)); cbv beta iota; exact H|].
    assert (Hrel : forall cx, SUP cx -> match bindr (release_if_used cx (k_pid p)) (fun '(c2, e) => Ok (c2, @None N, false, true, not_allowed ++ e)) with
                                        | Ok (c1, _, _, _, _) => SUP c1 | Panic _ => True end).
    { intros cx Hx. destruct (release_if_used cx (k_pid p)) as [[c2 e]|] eqn:E; cbn [bindr]; [exact (release_if_used_sup cx (k_pid p) c2 e E Hx)|exact I]. }
    destruct (negb (status_eqb (c_status c) Connected) && negb (can_store_now c)) eqn:Eg; [now apply Hrel|].
    destruct (negb (is_used c (k_pid p))); [exact H|].
    assert (Hst : forall cx q (rel : option N) (val : bool), F9 cx c -> k_type q = k_type p -> k_qos q = k_qos p -> k_pid q = k_pid p ->
              c_need_store c = true ->
              match bindr (bindr (store_add cx q) (fun c2 => Ok (c2, rel, val, false, @nil event)))
                      (fun '(c0, rel, validated, stop, e) =>
                         if stop then Ok (c0, rel, validated, stop, e) else
                         let c0 := if k_qos p =? 2 then set_pubrec c0 (ins (k_pid p) (c_pubrec c0)) else set_puback c0 (ins (k_pid p) (c_puback c0)) in
                         Ok (c0, rel, validated, false, e)) with
              | Ok (c1, _, _, _, _) => SUP c1 | Panic _ => True end).
    { intros cx q rel val Hx Q1 Q2 Q3 En. unfold store_add. destruct (store_has _ _); cbn [bindr]; [exact I|]. cbv zeta.
      assert (Hsx : SUPX cx) by (apply (supx_frame cx c (f9_f8 _ _ Hx)); now apply H).
      pose proof (publish_stored_sup cx p q Hsx ltac:(congruence) Q2 Q3 ltac:(lia)) as Hs. cbv zeta in Hs.
      destruct (k_qos p =? 2); now apply supx_sup. }
    destruct (can_store_now c) eqn:Ec.
    - assert (En : c_need_store c = true) by (unfold can_store_now in Ec; now apply andb_true_iff in Ec as [Ec _]).
      assert (Hrel2 : forall cx, SUP cx ->
                match bindr (bindr (release_if_used cx (k_pid p)) (fun '(c2, e) => Ok (c2, @None N, false, true, not_allowed ++ e)))
                      (fun '(c0, rel, validated, stop, e) =>
                         if stop then Ok (c0, rel, validated, stop, e) else
                         let c0 := if k_qos p =? 2 then set_pubrec c0 (ins (k_pid p) (c_pubrec c0)) else set_puback c0 (ins (k_pid p) (c_puback c0)) in
                         Ok (c0, rel, validated, false, e)) with
                | Ok (c1, _, _, _, _) => SUP c1 | Panic _ => True end).
      { intros cx Hx. destruct (release_if_used cx (k_pid p)) as [[c2 e]|] eqn:E; cbn [bindr]; [exact (release_if_used_sup cx (k_pid p) c2 e E Hx)|exact I]. }
      destruct (topic_empty p).
      + pose proof (validate_f9 c (k_alias p)) as Hval. destruct (validate_topic_alias c (k_alias p)) as [topt cx]. cbn [snd] in Hval.
        destruct topt as [t|]; [|apply Hrel2; now apply (sup_frame cx c)].
        destruct (stored_form_fields2 g p t) as (Q1 & Q2 & Q3 & _). now apply Hst.
      + destruct (stored_form_fields1 g p) as (Q1 & Q2 & Q3 & _). apply Hst; [apply f9_refl|assumption..].
    - cbn [bindr]. cbv zeta. rewrite andb_true_r in Eg. apply negb_false_iff in Eg. pose proof (can_store_off c Ec Eg) as Hoff.
      destruct (_ =? 2); apply sup_off; conn_simpl_goal; exact Hoff. }
  match goal with |- SR _ (bindr ?P1 _) => destruct P1 as [[[[[c1 rel] val] stop] e1]|]; cbn [bindr]; [|exact I] end.
  cbn [OW5] in HO1. destruct HO1 as (O1 & V1 & R1).
  destruct stop; [exact H1|].
  match goal with |- SR _ (if ?b then _ else _) => destruct b end; [now apply (refuse_publish_SR g)|].
  (* part 2 *)
  pose proof (part2_own g c1 p val O1 (R1 eq_refl)) as HO2. cbv zeta in HO2.
  match goal with |- SR _ (bindr ?P2 _) =>
    assert (H2 : match P2 with Ok (c2, _, _, _) => SUP c2 | Panic _ => True end) end.
  { assert (Href : forall cx, F9 cx c1 -> match bindr (refuse_publish cx (k_pid p) E_NOT_ALLOWED_TO_SEND []) (fun '(c2, e) => Ok (c2, p, true, e)) with
                                         | Ok (c2, _, _, _) => SUP c2 | Panic _ => True end).
    { intros cx Hx. pose proof (refuse_publish_SR g c1 cx (k_pid p) E_NOT_ALLOWED_TO_SEND [] (f9_own g c1 cx Hx O1) (sup_frame cx c1 Hx H1)) as Hr.
      destruct (refuse_publish cx (k_pid p) E_NOT_ALLOWED_TO_SEND []) as [[c2 e]|]; cbn [bindr SR] in *; cbv beta iota; [exact Hr|exact I]. }
    assert (Hta : forall s', SUP (set_ta_send c1 (Some s'))) by (intro s'; apply (sup_frame _ c1); [unfold F9; conn_simpl; repeat split|exact H1]).
    destruct (topic_empty p).
    - destruct val; [exact H1|].
      pose proof (validate_f9 c1 (k_alias p)) as Hval. destruct (validate_topic_alias c1 (k_alias p)) as [topt cx]. cbn [snd] in Hval.
      destruct topt as [t|]; [now apply (sup_frame cx c1)|now apply Href].
    - destruct (k_alias p) as [a|].
      + destruct (validate_topic_alias_range c1 a); [|apply Href, f9_refl]. destruct (status_eqb _ _); [|exact H1].
        destruct (c_ta_send c1) as [s|]; [|exact H1]. destruct (tas_insert s _ a); cbn [bindr]; [apply Hta|exact I].
      + destruct (status_eqb _ _); [|exact H1]. destruct (c_auto_map c1).
        * destruct (c_ta_send c1) as [s|]; [|exact H1]. destruct (tas_find_by_topic s _) as [a|]; [cbv zeta; exact H1|].
          destruct (tas_lru s) as [a|]; cbn [bindr]; [|exact I]. cbv zeta. destruct (_ <=? _); [|exact H1].
          destruct (tas_insert s _ a); cbn [bindr]; [apply Hta|exact I].
        * destruct (c_auto_replace c1); [|exact H1]. destruct (c_ta_send c1) as [s|]; [|exact H1].
          destruct (tas_find_by_topic s _) as [a|]; [cbv zeta|]; exact H1. }
  match goal with |- SR _ (bindr ?P2 _) => destruct P2 as [[[[c2 q] stop2] e2]|]; cbn [bindr]; [|exact I] end.
  destruct stop2; [exact H2|].
  match goal with |- context [if ?b then set_send_count c2 (c_send_count c2 + 1) else c2] =>
    set (c3 := if b then set_send_count c2 (c_send_count c2 + 1) else c2) end.
  assert (H3 : SUP c3) by (subst c3; destruct (_ && _); [apply (sup_frame _ c2); [unfold F9; conn_simpl; repeat split|exact H2]|exact H2]).
  destruct (status_eqb (c_status c3) Connected); [now apply SR_post|exact H3].
Qed.

(* ---- acknowledgements ---- *)
Lemma own_cnt_excl g c id : OWN g c ->
  (mem id (c_puback c) = true -> mem id (c_pubrec c) = false /\ mem id (c_pubcomp c) = false) /\
  (mem id (c_pubrec c) = true -> mem id (c_puback c) = false /\ mem id (c_pubcomp c) = false) /\
  (mem id (c_pubcomp c) = true -> mem id (c_puback c) = false /\ mem id (c_pubrec c) = false).
Proof.
  intro HO. pose proof (o_disj _ _ _ _ _ _ _ _ _ HO id) as X. unfold cnt in X.
  destruct (mem id (c_puback c)), (mem id (c_pubrec c)), (mem id (c_pubcomp c)), (mem id (c_suback c)), (mem id (c_unsuback c));
    cbn in X; try lia; repeat split; intros; try discriminate; reflexivity.
Qed.

(* an acknowledgement of kind r for id: id leaves the r-set, the store loses at most the entry of id of kind r *)
Lemma ack_sup g c id (r : N) (dA dB dC : bool) :
  OWN g c -> SUPX c ->
  mem id (kset r (c_puback c) (c_pubrec c) (c_pubcomp c)) = true ->
  (r = T_PUBACK /\ dA = true /\ dB = false /\ dC = false) \/ (r = T_PUBREC /\ dA = false /\ dB = true /\ dC = false) \/
  (r = T_PUBCOMP /\ dA = false /\ dB = false /\ dC = true) ->
  sup8 (store_erase_l (c_version c) r id (c_store c))
       (if dA then del id (c_puback c) else c_puback c) (if dB then del id (c_pubrec c) else c_pubrec c)
       (if dC then del id (c_pubcomp c) else c_pubcomp c).
Proof.
  intros HO H Hm Hk. destruct (own_cnt_excl g c id HO) as (X1 & X2 & X3).
  assert (Hkeep : forall r' q, r' <> r -> In q (c_store c) -> k_pid q = id -> response_of q = r' -> In q (store_erase_l (c_version c) r id (c_store c))).
  { intros r' q Hne Hq _ Hr. apply erase_l_keep; [exact Hq|right; congruence]. }
  apply (sup_erase g _ _ _ _ _ _ _ _ _ id dA dB dC HO H).
  - intros q Hq Hne. apply erase_l_keep; [exact Hq|now left].
  - intros Ed q Hq Hid Hr. destruct Hk as [(-> & E & _)|[(-> & _)|(-> & _)]]; [congruence| |]; apply (Hkeep T_PUBACK q); try assumption; discriminate.
  - intros Ed q Hq Hid Hr. destruct Hk as [(-> & _)|[(-> & _ & E & _)|(-> & _)]]; [|congruence|]; apply (Hkeep T_PUBREC q); try assumption; discriminate.
  - intros Ed q Hq Hid Hr. destruct Hk as [(-> & _)|[(-> & _)|(-> & _ & _ & E)]]; [| |congruence]; apply (Hkeep T_PUBCOMP q); try assumption; discriminate.
Qed.

Lemma SR_fin c0 c1 (k : evs -> evs) : SUP c1 -> SR c0 (let '(c, e2) := refresh_pingreq_recv c1 in Ok (c, k e2)).
Proof. intro H. pose proof (refresh_f9 c1) as F. destruct (refresh_pingreq_recv c1) as [c2 e2]. cbn [fst SR] in *. now apply (sup_frame c2 c1). Qed.
Lemma dec_f9 c : F9 (match c_send_max c with Some _ => set_send_count c (c_send_count c - 1) | None => c end) c.
Proof. destruct (c_send_max c); [unfold F9; conn_simpl; repeat split|apply f9_refl]. Qed.
Lemma release_fin_SR c0 c1 id (f : conn -> conn) (k : evs -> evs -> evs) : SUP c1 -> (forall x, F9 (f x) x) ->
  SR c0 (bindr (release_if_used c1 id) (fun '(c, e1) => let '(c', e2) := refresh_pingreq_recv (f c) in Ok (c', k e1 e2))).
Proof.
  intros H Hf. destruct (release_if_used c1 id) as [[c2 e]|] eqn:E; cbn [bindr]; [|exact I].
  apply (SR_fin c0 (f c2) (k e)). apply (sup_frame _ c2 (Hf c2)). exact (release_if_used_sup c1 id c2 e E H).
Qed.

Lemma recv_ack_SR g c t pr : OWN g c -> SUP c -> SR c (recv_ack g c (c_version c) t pr).
Proof.
  intros HO H. unfold recv_ack. destruct pr as [p|e]; [|apply (SR_FR9 c c); [exact H|apply handle_error_FR9]]. cbv zeta.
  assert (Herr : SR c (handle_error c (c_version c) E_PROTOCOL)) by (apply (SR_FR9 c c); [exact H|apply handle_error_FR9]).
  (* the state after the erase, for each kind *)
  assert (HA : mem (k_pid p) (c_puback c) = true -> SUP (store_erase (set_puback c (del (k_pid p) (c_puback c))) (c_version c) T_PUBACK (k_pid p))).
  { intros Hm En. unfold store_erase, SUPX. conn_simpl_goal. conn_simpl. 
    exact (ack_sup g c (k_pid p) T_PUBACK true false false HO (H En) Hm (or_introl (conj eq_refl (conj eq_refl (conj eq_refl eq_refl))))). }
  assert (HB : mem (k_pid p) (c_pubrec c) = true -> SUP (store_erase (set_pubrec c (del (k_pid p) (c_pubrec c))) (c_version c) T_PUBREC (k_pid p))).
  { intros Hm En. unfold store_erase, SUPX. conn_simpl_goal. conn_simpl.
    exact (ack_sup g c (k_pid p) T_PUBREC false true false HO (H En) Hm (or_intror (or_introl (conj eq_refl (conj eq_refl (conj eq_refl eq_refl)))))). }
  assert (HC : mem (k_pid p) (c_pubcomp c) = true -> SUP (store_erase (set_pubcomp c (del (k_pid p) (c_pubcomp c))) (c_version c) T_PUBCOMP (k_pid p))).
  { intros Hm En. unfold store_erase, SUPX. conn_simpl_goal. conn_simpl.
    exact (ack_sup g c (k_pid p) T_PUBCOMP false false true HO (H En) Hm (or_intror (or_intror (conj eq_refl (conj eq_refl (conj eq_refl eq_refl)))))). }
  destruct (t =? T_PUBACK).
  { destruct (mem (k_pid p) (c_puback c)) eqn:Hm; [|exact Herr].
    apply (release_fin_SR c _ (k_pid p) (fun x => if version_eqb (c_version c) V50 then match c_send_max x with Some _ => set_send_count x (c_send_count x - 1) | None => x end else x)
             (fun e1 e2 => e1 ++ e2 ++ [ENotify p]) (HA eq_refl)). intro x. destruct (version_eqb _ _); [apply dec_f9|apply f9_refl]. }
  destruct (t =? T_PUBREC).
  { destruct (mem (k_pid p) (c_pubrec c)) eqn:Hm; [|exact Herr]. specialize (HB eq_refl).
    match goal with |- SR _ (if ?b then _ else _) => destruct b end.
    - match goal with |- SR _ (bindr (if ?b then _ else _) _) => destruct b end.
      + set (c1 := store_erase (set_pubrec c (del (k_pid p) (c_pubrec c))) (c_version c) T_PUBREC (k_pid p)) in *.
        pose proof (send_pubrel_SR c1 (ack_pkt g T_PUBREL (c_version c) (k_pid p) None) HB eq_refl) as Hs.
        destruct (send_pubrel c1 _) as [[c2 e1]|]; cbn [bindr SR] in *; [|exact I].
        apply (SR_fin c c2 (fun e2 => e1 ++ e2 ++ [ENotify p]) Hs).
      + cbn [bindr]. apply (SR_fin c _ (fun e2 => [] ++ e2 ++ [ENotify p]) HB).
    - apply (release_fin_SR c _ (k_pid p) (fun x => match c_send_max x with Some _ => set_send_count x (c_send_count x - 1) | None => x end)
               (fun e1 e2 => e1 ++ e2 ++ [ENotify p]) HB). intro x. apply dec_f9. }
  destruct (t =? T_PUBCOMP).
  { destruct (mem (k_pid p) (c_pubcomp c)) eqn:Hm; [|exact Herr].
    apply (release_fin_SR c _ (k_pid p) (fun x => if version_eqb (c_version c) V50 then match c_send_max x with Some _ => set_send_count x (c_send_count x - 1) | None => x end else x)
             (fun e1 e2 => e1 ++ e2 ++ [ENotify p]) (HC eq_refl)). intro x. destruct (version_eqb _ _); [apply dec_f9|apply f9_refl]. }
  assert (Hsub : forall cx, c_store cx = c_store c -> c_puback cx = c_puback c -> c_pubrec cx = c_pubrec c -> c_pubcomp cx = c_pubcomp c ->
            c_need_store cx = c_need_store c -> SUP cx).
  { intros cx E1 E2 E3 E4 E5. unfold SUP, SUPX in *. now rewrite E1, E2, E3, E4, E5. }
  destruct (t =? T_SUBACK).
  { destruct (mem _ (c_suback c)); [|exact Herr]. apply (release_fin_SR c _ (k_pid p) (fun x => x) (fun e1 e2 => e1 ++ e2 ++ [ENotify p])); [now apply Hsub|intro; apply f9_refl]. }
  { destruct (mem _ (c_unsuback c)); [|exact Herr]. apply (release_fin_SR c _ (k_pid p) (fun x => x) (fun e1 e2 => e1 ++ e2 ++ [ENotify p])); [now apply Hsub|intro; apply f9_refl]. }
Qed.

(* ---- resume ---- *)
Lemma fold_del_mem g ids : forall l y, asc 1 (g_idmax g) l ->
  mem y (fold_left (fun s i => del i s) ids l) = true -> mem y l = true /\ ~ In y ids.
Proof.
  induction ids as [|i t IH]; intros l y Ha; cbn [fold_left]; [intro H; split; [exact H|tauto]|].
  intro H. destruct (IH (del i l) y (asc_del g i l Ha) H) as [H1 H2]. rewrite (mem_del g _ _ _ Ha) in H1.
  apply andb_true_iff in H1 as [H1 H3]. apply negb_true_iff, N.eqb_neq in H3. split; [exact H1|]. intros [E|E]; [congruence|contradiction].
Qed.
Lemma stored_split mps S q : In q S -> In q (fst (send_stored_l mps S)) \/ In q (snd (send_stored_l mps S)).
Proof.
  induction S as [|p t IH]; cbn [send_stored_l]; [tauto|]. intros [<-|Hq].
  - destruct (send_stored_l mps t) as [k d]. destruct (mps <? k_size p); cbn [fst snd]; [right; now left|left; now left].
  - specialize (IH Hq). destruct (send_stored_l mps t) as [k d]. destruct (mps <? k_size p); cbn [fst snd] in *; destruct IH; auto; [right; now right|left; now right].
Qed.

Lemma send_stored_SR g c : OWN g c -> SUP c -> SR c (send_stored c).
Proof.
  intros HO H. unfold send_stored. pose proof (stored_split (c_mps_send c) (c_store c)) as Hsp.
  destruct (send_stored_l (c_mps_send c) (c_store c)) as [kept dropped]. cbn [fst snd] in Hsp. cbv zeta. conn_simpl_goal.
  destruct (release_all (c_pid c) (map k_pid dropped)) as [a|]; cbn [bindr SR]; [|exact I].
  destruct (o_asc _ _ _ _ _ _ _ _ _ HO) as (A1 & A2 & A3 & _).
  assert (Hs : SUP (set_store (set_pid (set_pubcomp (set_pubrec (set_puback c (fold_left (fun s i => del i s) (map k_pid dropped) (c_puback c)))
                       (fold_left (fun s i => del i s) (map k_pid dropped) (c_pubrec c))) (fold_left (fun s i => del i s) (map k_pid dropped) (c_pubcomp c))) a) kept)).
  { unfold SUP, SUPX. conn_simpl_goal. intro En. specialize (H En).
    assert (Hk : forall r y, ~ In y (map k_pid dropped) -> hask r (c_store c) y = true -> hask r kept y = true).
    { intros r y Hn. apply hask_sub. intros q Hq Hid. destruct (Hsp q Hq) as [K|K]; [exact K|]. exfalso. apply Hn. rewrite <- Hid. apply in_map_iff. now exists q. }
    intro y. destruct (H y) as (H1 & H2 & H3). repeat split; intro K.
    - destruct (fold_del_mem g _ _ y A1 K) as [M N0]. apply (Hk _ y N0). now apply H1.
    - destruct (fold_del_mem g _ _ y A2 K) as [M N0]. apply (Hk _ y N0). now apply H2.
    - destruct (fold_del_mem g _ _ y A3 K) as [M N0]. apply (Hk _ y N0). now apply H3. }
  match goal with |- SUP (match ?o with Some _ => set_send_count ?x ?n | None => _ end) =>
    apply (sup_frame _ x); [destruct o; [unfold F9; conn_simpl; repeat split|apply f9_refl]|exact Hs] end.
Qed.
Lemma connack_send_props_f9 c p : F9 (fst (connack_send_props c p)) c.
Proof. unfold connack_send_props. own_split; cbn [fst]; try apply f9_refl; unfold F9; conn_simpl; repeat split. Qed.
Lemma send_connack_SR g c p : OWN g c -> SUP c -> SR c (send_connack c p).
Proof.
  intros HO H. unfold send_connack. cbv zeta. destruct (_ && _); [exact H|]. destruct (negb (status_eqb _ _)); [exact H|].
  pose proof (connack_send_props_f9 c p) as Hp. destruct (connack_send_props c p) as [c1 pre]. cbn [fst] in Hp.
  pose proof (sup_frame c1 c Hp H) as H1. pose proof (f9_own g c c1 Hp HO) as O1.
  destruct (negb (k_rc p =? 0)).
  - pose proof (cancel_f9 (set_status c1 Disconnected)) as Hc. destruct (cancel_timers _) as [c2 e]. cbn [fst SR] in *.
    apply (sup_frame c2 c1); [|exact H1]. apply (f9_trans _ (set_status c1 Disconnected)); [exact Hc|unfold F9; conn_simpl; repeat split].
  - assert (F2 : F9 (set_status c1 Connected) c1) by (unfold F9; conn_simpl; repeat split).
    pose proof (send_stored_SR g _ (f9_own g c1 _ F2 O1) (sup_frame _ c1 F2 H1)) as Hs.
    destruct (send_stored (set_status c1 Connected)) as [[c2 es]|]; cbn [bindr SR] in *; [|exact I].
    pose proof (post_f9 c2) as Hq. destruct (send_post_process c2) as [c3 e]. cbn [fst SR] in *. now apply (sup_frame c3 c2).
Qed.

(* ---- connection establishment: persistence may be switched on ---- *)
Lemma supx_setters c cx : c_store cx = c_store c -> c_puback cx = c_puback c -> c_pubrec cx = c_pubrec c -> c_pubcomp cx = c_pubcomp c -> SUPX c -> SUPX cx.
Proof. unfold SUPX. now intros -> -> -> ->. Qed.
Lemma supx_cleared cx : c_puback cx = [] -> c_pubrec cx = [] -> c_pubcomp cx = [] -> SUPX cx.
Proof. unfold SUPX. intros -> -> ->. apply sup_empty. Qed.
Ltac supx_leaf c HX :=
  unfold initialize, clear_store_related; apply supx_sup;
  first [ (apply supx_cleared; conn_simpl_goal; reflexivity)
        | (apply (supx_setters c); [conn_simpl_goal; reflexivity|conn_simpl_goal; reflexivity|conn_simpl_goal; reflexivity|conn_simpl_goal; reflexivity|exact HX]) ].

Lemma send_connect_SR c p : SUP c -> persist_ok c -> SR c (send_connect c p).
Proof.
  intros H Hp. pose proof (persist_supx c H Hp) as HX. unfold send_connect. cbv zeta.
  destruct (_ && _); [exact H|]. destruct (negb _); [exact H|].
  apply SR_post. own_split; supx_leaf c HX.
Qed.
Lemma connect_recv_state_sup c v p c' : SUP c -> persist_ok c -> connect_recv_state c v p = Ok c' -> SUP c'.
Proof.
  intros H Hp. pose proof (persist_supx c H Hp) as HX. unfold connect_recv_state. cbv zeta.
  destruct (version_eqb v V50).
  - destruct (k_tam p) as [m|]; [destruct (negb (m =? 0)); [destruct (tas_new m)|]|]; cbn [bindr]; try discriminate;
      intro E; injection E as <-; own_split; supx_leaf c HX.
  - intro E; injection E as <-. own_split; supx_leaf c HX.
Qed.
Lemma recv_connect_SR g c v pr : OWN g c -> SUP c -> persist_ok c -> SR c (recv_connect g c v pr).
Proof.
  intros HO H Hp. unfold recv_connect. destruct (negb _); [apply (SR_FR9 c c); [exact H|apply handle_error_FR9]|]. cbv zeta.
  assert (F0 : F9 (set_status c Connecting) c) by (unfold F9; conn_simpl; repeat split).
  destruct pr as [p|e].
  - destruct (connect_recv_state _ v p) as [c1|] eqn:E; cbn [bindr]; [|exact I].
    assert (Hp0 : persist_ok (set_status c Connecting)) by (unfold persist_ok in *; conn_simpl_goal; exact Hp).
    pose proof (connect_recv_state_sup _ v p c1 (sup_frame _ c F0 H) Hp0 E) as H1.
    apply (SR_fin c c1 (fun e2 => e2 ++ [ENotify p]) H1).
  - pose proof (send_connack_SR g _ (connect_refusal v e) (f9_own g c _ F0 HO) (sup_frame _ c F0 H)) as Hs.
    destruct (send_connack _ _) as [[c1 ev]|]; cbn [bindr SR] in *; [exact Hs|exact I].
Qed.

Lemma resume_or_clear_SR g c sp : OWN g c -> SUP c -> SR c (resume_or_clear c sp).
Proof.
  intros HO H. unfold resume_or_clear. destruct sp.
  - pose proof (send_stored_SR g c HO H) as Hs. destruct (send_stored c) as [[c1 es]|]; cbn [bindr SR] in *; [|exact I].
    destruct (existsb _ es); [|exact Hs]. pose proof (post_f9 c1) as Hq. destruct (send_post_process c1) as [c2 e]. cbn [fst SR] in *. now apply (sup_frame c2 c1).
  - cbn [SR]. unfold clear_store_related. apply supx_sup, supx_cleared; reflexivity.
Qed.
Lemma connack_recv_limits_f9 c p c' : connack_recv_limits c p = Ok c' -> F9 c' c.
Proof.
  unfold connack_recv_limits.
  destruct (k_tam p) as [m|]; [destruct (0 <? m); [destruct (tas_new m)|]|]; cbn [bindr]; try discriminate;
  (destruct (k_rm p) as [r|]; [destruct (r =? 0)|]; cbn [bindr]; try discriminate);
  (destruct (k_mps p) as [x|]; [destruct (x =? 0)|]; try discriminate);
  intro H; injection H as <-; unfold F9; conn_simpl; repeat split.
Qed.
Lemma connack_recv_ska_f9 c p : F9 (fst (connack_recv_ska c p)) c.
Proof. unfold connack_recv_ska. own_split; cbn [fst]; unfold F9; conn_simpl; repeat split. Qed.

Lemma recv_connack_SR g c v pr : OWN g c -> SUP c -> persist_ok c -> SR c (recv_connack c v pr).
Proof.
  intros HO H Hp. pose proof (persist_supx c H Hp) as HX.
  unfold recv_connack. destruct (status_eqb (c_status c) Connected); [apply (SR_FR9 c c); [exact H|apply handle_error_FR9]|].
  destruct pr as [p|e].
  2:{ destruct (version_eqb v V50); exact H. }
  destruct (k_rc p =? 0); [|exact H]. cbv zeta.
  assert (F0 : F9 (set_status c Connected) c) by (unfold F9; conn_simpl; repeat split).
  destruct (version_eqb v V50).
  - destruct (connack_recv_limits _ p) as [c1|] eqn:E1; cbn [bindr]; [|exact I].
    pose proof (connack_recv_limits_f9 _ p c1 E1) as F1. pose proof (connack_recv_ska_f9 c1 p) as F2.
    destruct (connack_recv_ska c1 p) as [c2 e1]. cbn [fst] in F2.
    assert (F : F9 c2 c) by (apply (f9_trans _ c1); [exact F2|apply (f9_trans _ (set_status c Connected)); [exact F1|exact F0]]).
    pose proof (f9_own g c c2 F HO) as O2.
    assert (X2 : SUPX c2) by (apply (supx_frame c2 c (f9_f8 _ _ F)); exact HX).
    assert (O3 : OWN g (connack_recv_sei c2 p)) by (unfold connack_recv_sei; own_split; own_leaf O2).
    assert (H3 : SUP (connack_recv_sei c2 p)) by (unfold connack_recv_sei; own_split; supx_leaf c2 X2).
    pose proof (resume_or_clear_SR g _ (k_flag p) O3 H3) as Hr. destruct (resume_or_clear _ _) as [[c3 e2]|]; cbn [bindr SR] in *; [exact Hr|exact I].
  - pose proof (resume_or_clear_SR g _ (k_flag p) (f9_own g c _ F0 HO) (sup_frame _ c F0 H)) as Hr.
    destruct (resume_or_clear _ _) as [[c3 e2]|]; cbn [bindr SR] in *; [exact Hr|exact I].
Qed.

Lemma do_closed_SR c : SUP c -> SR c (do_closed c).
Proof.
  intro H. destruct (do_closed c) as [[c' e]|] eqn:E; cbn [SR]; [|exact I].
  destruct (c_need_store c) eqn:En.
  - destruct (closed_persistent_keeps_session c c' e E En) as (S1 & _ & S3 & S4 & S5).
    pose proof (closed_keeps_options c c' e E) as Ho. intro En'. unfold SUPX. rewrite S1, S3, S4, S5. exact (H En).
  - destruct (closed_nonpersistent_ends_session c c' e E En) as (_ & _ & S3 & S4 & S5). apply supx_sup. now apply supx_cleared.
Qed.

Lemma do_erase_SR g c id : OWN g c -> SUP c -> SR c (do_erase c id).
Proof.
  intros HO H. unfold do_erase.
  pose proof (fun q Hq Hk => erase_publish_keep id (c_store c) q Hq Hk) as Hkeep.
  destruct (store_erase_publish_l id (c_store c)) as [b l]. cbn [snd] in Hkeep. destruct b; [|exact H]. cbv zeta.
  match goal with |- SR _ (release_if_used ?x id) => set (c1 := x) end.
  assert (H1 : SUP c1).
  { subst c1. match goal with |- SUP (match ?o with Some _ => ?y | None => ?z end) => apply (sup_frame _ z); [own_split; try apply f9_refl; unfold F9; conn_simpl; repeat split|] end.
    unfold SUP, SUPX in *. conn_simpl_goal. intro En. specialize (H En).
    apply (sup_erase g _ _ _ _ _ _ _ _ _ id true true false HO H).
    - intros q Hq Hne. apply Hkeep; [exact Hq|now left].
    - discriminate.
    - discriminate.
    - intros _ q Hq _ Hr. apply Hkeep; [exact Hq|right; now apply response_pubcomp_type]. }
  destruct (release_if_used c1 id) as [[c2 e]|] eqn:E; cbn [SR]; [exact (release_if_used_sup c1 id c2 e E H1)|exact I].
Qed.

Lemma restore_one_sup g c p : OWN g c -> SUPX c -> SUPX (do_restore c [p]).
Proof.
  intros HO H. cbn [do_restore]. destruct (_ && _); [exact H|].
  pose proof (o_wf _ _ _ _ _ _ _ _ _ HO) as W.
  pose proof (register_spec g c (k_pid p) W) as Hr. cbn [step] in Hr.
  destruct (pm_register (c_pid c) (k_pid p)) as [b a]. destruct Hr as (_ & Hb & _ & _). destruct b; [|exact H].
  cbn [b2n n2b] in Hb. assert (Hfree : free_in c (k_pid p) = true) by (rewrite <- Hb; reflexivity).
  assert (Hu0 : is_used c (k_pid p) = false) by (rewrite (is_used_spec g c _ W), Hfree; apply andb_false_r).
  pose proof (free_not_stored g c _ HO Hu0) as Hs.
  pose proof (sup_snoc_ins _ _ _ _ p H) as Hsn. unfold store_add_soft, SUPX. conn_simpl_goal.
  unfold response_of in Hsn.
  destruct (k_type p =? T_PUBLISH); [destruct (k_qos p =? 1)|]; conn_simpl_goal; rewrite Hs; conn_simpl_goal.
  - change (T_PUBACK =? T_PUBACK) with true in Hsn. cbv iota in Hsn. exact Hsn.
  - change (T_PUBREC =? T_PUBACK) with false in Hsn. change (T_PUBREC =? T_PUBREC) with true in Hsn. cbv iota in Hsn. exact Hsn.
  - change (T_PUBCOMP =? T_PUBACK) with false in Hsn. change (T_PUBCOMP =? T_PUBREC) with false in Hsn. cbv iota in Hsn. exact Hsn.
Qed.

Lemma do_restore_sup g l : forall c, OWN g c -> restore_ok c l -> SUPX c -> SUPX (do_restore c l).
Proof.
  induction l as [|p t IH]; intros c HO Hr H; [exact H|]. cbn [restore_ok] in Hr. destruct Hr as [Hp Ht]. rewrite do_restore_cons.
  destruct (restore_one_own g c p HO Hp) as [O1 _]. apply IH; [exact O1|exact Ht|now apply (restore_one_sup g)].
Qed.

(* ---- every call ---- *)
(* persistence is switched on (CONNECT, CONNACK, set_offline_publish(true), restore into a persistent session)
   only while it is on already or nothing is in flight *)
Definition sup_op_ok (c : conn) (o : op) : Prop :=
  match o with
  | OSend p => k_type p = T_CONNECT -> persist_ok c
  | ORecv _ _ => persist_ok c \/ c_status c = Connected
  | OSetOffline true => persist_ok c
  | ORestorePackets _ => persist_ok c
  | _ => True
  end.

Lemma dispatch_send_SR g c p : OWN g c -> SUP c -> send_ok c p -> k_ver p = c_version c -> (k_type p = T_CONNECT -> persist_ok c) ->
  SR c (dispatch_send g c p).
Proof.
  intros HO H [Hp Hi] Hv Hc. unfold dispatch_send. cbv zeta.
  destruct (N.eqb_spec (k_type p) T_CONNECT) as [E|E]; [apply send_connect_SR; auto|].
  destruct (N.eqb_spec (k_type p) T_CONNACK); [now apply (send_connack_SR g)|].
  destruct (N.eqb_spec (k_type p) T_PUBLISH) as [Et|Et].
  { destruct (Hp Et) as [Hq Hf]. destruct (version_eqb _ _); [now apply (send_publish_v5_SR g)|now apply send_publish_v311_SR]. }
  destruct (_ || _); [apply (SR_FR9 c c); [exact H|apply send_puback_like_FR9]|].
  destruct (N.eqb_spec (k_type p) T_PUBREL) as [Er|Er]; [now apply send_pubrel_SR|].
  destruct (_ || _); [now apply send_sub_unsub_SR|].
  destruct (_ || _); [apply (SR_FR9 c c); [exact H|apply send_plain_FR9]|].
  destruct (_ =? T_PINGREQ); [apply (SR_FR9 c c); [exact H|apply send_pingreq_FR9]|].
  destruct (_ =? T_DISCONNECT); [apply (SR_FR9 c c); [exact H|apply send_disconnect_FR9]|].
  destruct (_ =? T_AUTH); [apply (SR_FR9 c c); [exact H|apply send_auth_FR9]|]. exact H.
Qed.
Lemma do_send_SR g c p : OWN g c -> SUP c -> send_ok c p -> (k_type p = T_CONNECT -> persist_ok c) -> SR c (do_send g c p).
Proof.
  intros HO H Hs Hc. unfold do_send. destruct (version_eqb (c_version c) (k_ver p)) eqn:Ev; cbn [negb]; [|exact H].
  cbv zeta. destruct (_ && _); [exact H|]. destruct (_ && _); [exact H|].
  apply dispatch_send_SR; try assumption. destruct (c_version c), (k_ver p); try discriminate; reflexivity.
Qed.

(* a CONNACK is only acted upon while not Connected; a CONNECT only while Disconnected *)
Lemma dispatch_recv_SR g c t pr : OWN g c -> SUP c -> (persist_ok c \/ c_status c = Connected) -> SR c (dispatch_recv g c (c_version c) t pr).
Proof.
  intros HO H Hp. unfold dispatch_recv.
  assert (Hfr : forall r, FR9 c r -> SR c r) by (intros r; now apply (SR_FR9 c c)).
  destruct (t =? 1).
  { destruct Hp as [Hp|Hc]; [now apply (recv_connect_SR g)|].
    unfold recv_connect. rewrite Hc. cbn [status_eqb negb]. apply Hfr, handle_error_FR9. }
  destruct (t =? 2).
  { destruct Hp as [Hp|Hc]; [now apply (recv_connack_SR g)|].
    unfold recv_connack. rewrite Hc. cbn [status_eqb]. apply Hfr, handle_error_FR9. }
  destruct (t =? 3); [destruct (version_eqb _ _); apply Hfr; [apply recv_publish_v5_FR9|apply recv_publish_v311_FR9]|].
  destruct (_ || _); [now apply (recv_ack_SR g)|].
  destruct (t =? 6); [apply Hfr, recv_pubrel_FR9|]. destruct (_ || _); [apply Hfr, recv_notify_FR9|].
  destruct (t =? 12); [apply Hfr, recv_pingreq_FR9|]. destruct (t =? 13); [apply Hfr, recv_pingresp_FR9|].
  destruct (t =? 14); [destruct (version_eqb _ _); apply Hfr, recv_disconnect_FR9|].
  destruct (_ && _); [apply Hfr, recv_notify_FR9|]. exact H.
Qed.
Lemma process_recv_packet_SR g c fh body pr : OWN g c -> SUP c -> c_version c <> VUndet -> (persist_ok c \/ c_status c = Connected) ->
  SR c (process_recv_packet g c fh body pr).
Proof.
  intros HO H Hv Hp. unfold process_recv_packet. cbv zeta.
  destruct (_ <? _).
  { destruct (status_eqb _ _).
    - pose proof (close_with_disconnect_FR9 c (disconnect_v5 149)) as F. destruct (close_with_disconnect _ _) as [[c1 e]|]; cbn [bindr SR FR9] in *; [|exact I].
      now apply (sup_frame c1 c).
    - pose proof (cancel_f9 (set_status c Disconnected)) as F. destruct (cancel_timers _) as [c1 e]. cbn [fst SR] in *.
      apply (sup_frame c1 c); [|exact H]. apply (f9_trans _ (set_status c Disconnected)); [exact F|unfold F9; conn_simpl; repeat split]. }
  destruct (negb _); [exact H|].
  destruct (c_version c) eqn:E; try (rewrite <- E; now apply dispatch_recv_SR). exfalso. now apply Hv.
Qed.

Theorem step_keeps_SUP g c o : OWN g c -> SUP c -> c_version c <> VUndet -> own_op_ok c o -> sup_op_ok c o ->
  match step g c o with Ok (c', _, _) => SUP c' | Panic _ => True end.
Proof.
  intros HO H Hv Hk Hs. assert (Hfr : forall c1, F9 c1 c -> SUP c1) by (intros c1 F; now apply (sup_frame c1 c)).
  destruct o; cbn [step own_op_ok sup_op_ok] in *.
  - pose proof (do_send_SR g c p HO H Hk Hs) as R. destruct (do_send g c p) as [[c' e]|]; cbn [bindr SR] in *; [exact R|exact I].
  - unfold do_recv. destruct (feed (c_pb c) bytes) as [[r pb'] rest]. cbv zeta.
    assert (F0 : F9 (set_pb c pb') c) by (unfold F9; conn_simpl; repeat split).
    destruct r; cbv beta iota; cbn [bindr].
    + assert (Hp' : persist_ok (set_pb c pb') \/ c_status (set_pb c pb') = Connected) by (unfold persist_ok in *; conn_simpl_goal; exact Hs).
      pose proof (process_recv_packet_SR g (set_pb c pb') (hd 0 hdr) body pr (f9_own g c _ F0 HO) (Hfr _ F0) Hv Hp') as R.
      destruct (process_recv_packet _ _ _ _ _) as [[c1 e]|]; cbn [bindr SR] in *; [exact R|exact I].
    + now apply Hfr.
    + pose proof (cancel_f9 (set_pb c pb')) as F. destruct (cancel_timers _) as [c1 e]. cbn [fst bindr] in *. apply Hfr. now apply (f9_trans _ (set_pb c pb')).
  - pose proof (do_timer_FR9 c k) as F. destruct (do_timer c k) as [[c' e]|]; cbn [bindr FR9] in *; [now apply Hfr|exact I].
  - pose proof (do_closed_SR c H) as R. destruct (do_closed c) as [[c' e]|]; cbn [bindr SR] in *; [exact R|exact I].
  - unfold do_set_pingreq_interval. cbv zeta. own_split; cbn [bindr]; apply Hfr; unfold F9; conn_simpl; repeat split.
  - apply Hfr; unfold F9; conn_simpl; repeat split.
  - destruct b.
    + apply supx_sup. apply (supx_setters c); [reflexivity..|now apply persist_supx].
    + apply Hfr; unfold F9; conn_simpl; repeat split.
  - apply Hfr; unfold F9; conn_simpl; repeat split.
  - apply Hfr; unfold F9; conn_simpl; repeat split.
  - apply Hfr; unfold F9; conn_simpl; repeat split.
  - apply Hfr; unfold F9; conn_simpl; repeat split.
  - destruct (pm_acquire (c_pid c)) as [[r a]|]; cbn [bindr]; [|exact I]. unfold SUP, SUPX in *. conn_simpl_goal. exact H.
  - destruct (pm_register (c_pid c) id) as [b a]. unfold SUP, SUPX in *. conn_simpl_goal. exact H.
  - destruct (release_if_used c id) as [[c' e]|] eqn:E; cbn [bindr]; [exact (release_if_used_sup c id c' e E H)|exact I].
  - pose proof (do_erase_SR g c id HO H) as R. destruct (do_erase c id) as [[c' e]|]; cbn [bindr SR] in *; [exact R|exact I].
  - apply supx_sup. apply (do_restore_sup g l c HO Hk). now apply persist_supx.
  - apply Hfr; unfold F9; conn_simpl; repeat split.
  - exact H.
Qed.

(* ================= the store holds only QoS 1/2 PUBLISH and PUBREL entries ================= *)
Definition entry_okb (p : pkt) : bool := negb ((k_type p =? T_PUBLISH) && (k_qos p =? 0)).
Definition ENT (c : conn) : Prop := forall q, In q (c_store c) -> entry_okb q = true.
Definition ER (c : conn) (r : res (conn * list event)) : Prop := match r with Ok (c', _) => ENT c' | Panic _ => True end.

Lemma ent_frame c' c : F9 c' c -> ENT c -> ENT c'.
Proof. unfold F9, ENT. intros (_ & H2 & _). now rewrite H2. Qed.
Lemma ent_sub c' c : (forall q, In q (c_store c') -> In q (c_store c)) -> ENT c -> ENT c'.
Proof. unfold ENT. auto. Qed.
Lemma ent_store c' c : c_store c' = c_store c -> ENT c -> ENT c'.
Proof. unfold ENT. now intros ->. Qed.
Lemma ER_FR9 c c1 r : ENT c1 -> FR9 c1 r -> ER c r.
Proof. destruct r as [[c' e]|]; cbn [ER FR9]; [|trivial]. intros H F. now apply (ent_frame c' c1). Qed.
Lemma ER_post c c1 p rel pre : ENT c1 -> ER c (send_and_post c1 p rel pre).
Proof. intro H. apply (ER_FR9 c c1); [exact H|apply send_and_post_FR9, f9_refl]. Qed.
Lemma release_ent c id c' e : release_if_used c id = Ok (c', e) -> ENT c -> ENT c'.
Proof.
  unfold release_if_used. destruct (is_used c id); [|intro H; inversion H; subst; auto].
  destruct (pm_release _ _); cbn [bindr]; [|discriminate]. intro H; inversion H; subst. apply ent_store. reflexivity.
Qed.
Lemma release_ER c0 c id (k : evs -> evs) : ENT c -> ER c0 (bindr (release_if_used c id) (fun '(c1, e) => Ok (c1, k e))).
Proof. intro H. destruct (release_if_used c id) as [[c1 e]|] eqn:E; cbn [bindr ER]; [exact (release_ent c id c1 e E H)|exact I]. Qed.
Lemma ent_snoc c cx q : c_store cx = c_store c ++ [q] -> entry_okb q = true -> ENT c -> ENT cx.
Proof. unfold ENT. intros -> Hq H p Hp. apply in_app_iff in Hp as [Hp|[<-|[]]]; auto. Qed.

Lemma send_sub_unsub_ER c p : ENT c -> ER c (send_sub_unsub c p).
Proof.
  intro H. unfold send_sub_unsub. cbv zeta. destruct (_ && _); [now apply release_ER|]. destruct (negb _); [now apply release_ER|].
  destruct (negb _); [exact H|]. apply ER_post. destruct (_ =? T_SUBSCRIBE); (apply (ent_store _ c); [reflexivity|exact H]).
Qed.
Lemma publish_entry p q : k_type q = k_type p -> k_qos q = k_qos p -> (k_qos p =? 0) = false -> entry_okb q = true.
Proof. intros H1 H2 H3. unfold entry_okb. rewrite H2, H3. now rewrite andb_false_r. Qed.
Lemma send_publish_v311_ER c p : ENT c -> ER c (send_publish_v311 c p).
Proof.
  intro H. unfold send_publish_v311. cbv zeta. destruct (k_qos p =? 0) eqn:Eq; cbn [negb].
  { destruct (negb _); [exact H|now apply ER_post]. }
  destruct (_ && _); [now apply release_ER|]. destruct (negb _); [exact H|].
  destruct (can_store_now c).
  - unfold store_add. destruct (store_has _ _); cbn [bindr]; [exact I|].
    assert (Hs : forall cx, c_store cx = c_store c ++ [set_dup p true] -> ENT cx) by (intros cx E; apply (ent_snoc c cx _ E); [now apply (publish_entry p)|exact H]).
    destruct (k_qos p =? 2); (destruct (status_eqb _ _); [apply ER_post|cbn [ER]]; apply Hs; reflexivity).
  - cbn [bindr]. destruct (k_qos p =? 2); (destruct (status_eqb _ _); [apply ER_post|cbn [ER]]; (apply (ent_store _ c); [reflexivity|exact H])).
Qed.
Lemma send_pubrel_ER c p : ENT c -> k_type p = T_PUBREL -> ER c (send_pubrel c p).
Proof.
  intros H Ht. unfold send_pubrel. cbv zeta. destruct (_ && _); [exact H|]. destruct (_ && _); [exact H|]. destruct (negb _); [exact H|].
  assert (He : entry_okb p = true) by (unfold entry_okb; rewrite Ht; reflexivity).
  destruct (c_need_store c).
  - unfold store_add. destruct (store_has _ _); cbn [bindr]; [exact I|].
    destruct (status_eqb _ _); [apply ER_post|cbn [ER]]; (apply (ent_snoc c _ p); [reflexivity|exact He|exact H]).
  - cbn [bindr]. destruct (status_eqb _ _); [apply ER_post|cbn [ER]]; (apply (ent_store _ c); [reflexivity|exact H]).
Qed.
Lemma refuse_publish_ER c0 c id err pre : ENT c -> ER c0 (refuse_publish c id err pre).
Proof.
  intro H. unfold refuse_publish. destruct (_ && _); [|exact H]. destruct (pm_release _ _); cbn [bindr ER]; [|exact I].
  apply (ent_sub _ c); [conn_simpl_goal; apply erase_publish_l_sub|exact H].
Qed.

Lemma send_publish_v5_ER g c p : ENT c -> ER c (send_publish_v5 g c p).
Proof.
  intro H. unfold send_publish_v5. cbv zeta.
  destruct (negb (size_ok c p)); [destruct (negb _); [now apply release_ER|exact H]|].
  match goal with |- ER _ (bindr ?P1 _) => assert (H1 : match P1 with Ok (c1, _, _, _, _) => ENT c1 | Panic _ => True end) end.
  { destruct (k_qos p =? 0) eqn:Eq; cbn [negb]; [destruct (negb (status_eqb (c_status c) Connected)); cbv beta iota; exact H|].
    assert (Hrel : forall cx, ENT cx -> match bindr (release_if_used cx (k_pid p)) (fun '(c2, e) => Ok (c2, @None N, false, true, not_allowed ++ e)) with
                                        | Ok (c1, _, _, _, _) => ENT c1 | Panic _ => True end).
    { intros cx Hx. destruct (release_if_used cx (k_pid p)) as [[c2 e]|] eqn:E; cbn [bindr]; [exact (release_ent cx (k_pid p) c2 e E Hx)|exact I]. }
    destruct (_ && _); [now apply Hrel|]. destruct (negb (is_used _ _)); [exact H|].
    assert (Hst : forall cx q (rel : option N) (val : bool), ENT cx -> k_type q = k_type p -> k_qos q = k_qos p ->
              match bindr (bindr (store_add cx q) (fun c2 => Ok (c2, rel, val, false, @nil event)))
                      (fun '(c0, rel, validated, stop, e) =>
                         if stop then Ok (c0, rel, validated, stop, e) else
                         let c0 := if k_qos p =? 2 then set_pubrec c0 (ins (k_pid p) (c_pubrec c0)) else set_puback c0 (ins (k_pid p) (c_puback c0)) in
                         Ok (c0, rel, validated, false, e)) with
              | Ok (c1, _, _, _, _) => ENT c1 | Panic _ => True end).
    { intros cx q rel val Hx Q1 Q2. unfold store_add. destruct (store_has _ _); cbn [bindr]; [exact I|]. cbv zeta.
      destruct (_ =? 2); (apply (ent_snoc cx _ q); [reflexivity|now apply (publish_entry p)|exact Hx]). }
    destruct (can_store_now c).
    - assert (Hrel2 : forall cx, ENT cx ->
                match bindr (bindr (release_if_used cx (k_pid p)) (fun '(c2, e) => Ok (c2, @None N, false, true, not_allowed ++ e)))
                      (fun '(c0, rel, validated, stop, e) =>
                         if stop then Ok (c0, rel, validated, stop, e) else
                         let c0 := if k_qos p =? 2 then set_pubrec c0 (ins (k_pid p) (c_pubrec c0)) else set_puback c0 (ins (k_pid p) (c_puback c0)) in
                         Ok (c0, rel, validated, false, e)) with
                | Ok (c1, _, _, _, _) => ENT c1 | Panic _ => True end).
      { intros cx Hx. destruct (release_if_used cx (k_pid p)) as [[c2 e]|] eqn:E; cbn [bindr]; [exact (release_ent cx (k_pid p) c2 e E Hx)|exact I]. }
      destruct (topic_empty p).
      + pose proof (validate_f9 c (k_alias p)) as Hval. destruct (validate_topic_alias c (k_alias p)) as [topt cx]. cbn [snd] in Hval.
        pose proof (ent_frame cx c Hval H) as Hx.
        destruct topt as [t|]; [|now apply Hrel2]. destruct (stored_form_fields2 g p t) as (Q1 & Q2 & _). now apply Hst.
      + destruct (stored_form_fields1 g p) as (Q1 & Q2 & _). now apply Hst.
    - cbn [bindr]. cbv zeta. destruct (_ =? 2); (apply (ent_store _ c); [reflexivity|exact H]). }
  match goal with |- ER _ (bindr ?P1 _) => destruct P1 as [[[[[c1 rel] val] stop] e1]|]; cbn [bindr]; [|exact I] end.
  destruct stop; [exact H1|].
  match goal with |- ER _ (if ?b then _ else _) => destruct b end; [now apply refuse_publish_ER|].
  match goal with |- ER _ (bindr ?P2 _) => assert (H2 : match P2 with Ok (c2, _, _, _) => ENT c2 | Panic _ => True end) end.
  { assert (Href : forall cx, ENT cx -> match bindr (refuse_publish cx (k_pid p) E_NOT_ALLOWED_TO_SEND []) (fun '(c2, e) => Ok (c2, p, true, e)) with
                                        | Ok (c2, _, _, _) => ENT c2 | Panic _ => True end).
    { intros cx Hx. pose proof (refuse_publish_ER c1 cx (k_pid p) E_NOT_ALLOWED_TO_SEND [] Hx) as Hr.
      destruct (refuse_publish cx (k_pid p) E_NOT_ALLOWED_TO_SEND []) as [[c2 e]|]; cbn [bindr ER] in *; cbv beta iota; [exact Hr|exact I]. }
    assert (Hta : forall s', ENT (set_ta_send c1 (Some s'))) by (intro s'; apply (ent_store _ c1); [reflexivity|exact H1]).
    destruct (topic_empty p).
    - destruct val; [exact H1|].
      pose proof (validate_f9 c1 (k_alias p)) as Hval. destruct (validate_topic_alias c1 (k_alias p)) as [topt cx]. cbn [snd] in Hval.
      destruct topt as [t|]; [now apply (ent_frame cx c1)|apply Href; now apply (ent_frame cx c1)].
    - destruct (k_alias p) as [a|].
      + destruct (validate_topic_alias_range c1 a); [|now apply Href]. destruct (status_eqb _ _); [|exact H1].
        destruct (c_ta_send c1) as [s|]; [|exact H1]. destruct (tas_insert s _ a); cbn [bindr]; [apply Hta|exact I].
      + destruct (status_eqb _ _); [|exact H1]. destruct (c_auto_map c1).
        * destruct (c_ta_send c1) as [s|]; [|exact H1]. destruct (tas_find_by_topic s _) as [a|]; [cbv zeta; exact H1|].
          destruct (tas_lru s) as [a|]; cbn [bindr]; [|exact I]. cbv zeta. destruct (_ <=? _); [|exact H1].
          destruct (tas_insert s _ a); cbn [bindr]; [apply Hta|exact I].
        * destruct (c_auto_replace c1); [|exact H1]. destruct (c_ta_send c1) as [s|]; [|exact H1].
          destruct (tas_find_by_topic s _) as [a|]; [cbv zeta|]; exact H1. }
  match goal with |- ER _ (bindr ?P2 _) => destruct P2 as [[[[c2 q] stop2] e2]|]; cbn [bindr]; [|exact I] end.
  destruct stop2; [exact H2|].
  match goal with |- context [if ?b then set_send_count c2 (c_send_count c2 + 1) else c2] =>
    set (c3 := if b then set_send_count c2 (c_send_count c2 + 1) else c2) end.
  assert (H3 : ENT c3) by (subst c3; destruct (_ && _); [apply (ent_store _ c2); [reflexivity|exact H2]|exact H2]).
  destruct (status_eqb (c_status c3) Connected); [now apply ER_post|exact H3].
Qed.

Lemma ER_fin c0 c1 (k : evs -> evs) : ENT c1 -> ER c0 (let '(c, e2) := refresh_pingreq_recv c1 in Ok (c, k e2)).
Proof. intro H. pose proof (refresh_f9 c1) as F. destruct (refresh_pingreq_recv c1) as [c2 e2]. cbn [fst ER] in *. now apply (ent_frame c2 c1). Qed.
Lemma release_fin_ER c0 c1 id (f : conn -> conn) (k : evs -> evs -> evs) : ENT c1 -> (forall x, F9 (f x) x) ->
  ER c0 (bindr (release_if_used c1 id) (fun '(c, e1) => let '(c', e2) := refresh_pingreq_recv (f c) in Ok (c', k e1 e2))).
Proof.
  intros H Hf. destruct (release_if_used c1 id) as [[c2 e]|] eqn:E; cbn [bindr]; [|exact I].
  apply (ER_fin c0 (f c2) (k e)). apply (ent_frame _ c2 (Hf c2)). exact (release_ent c1 id c2 e E H).
Qed.
Lemma erase_ent c cx v r id : c_store cx = c_store c -> ENT c -> ENT (store_erase cx v r id).
Proof. intros E H. apply (ent_sub _ c); [unfold store_erase; conn_simpl_goal; rewrite E; apply erase_l_sub|exact H]. Qed.

Lemma recv_ack_ER g c v t pr : ENT c -> ER c (recv_ack g c v t pr).
Proof.
  intro H. unfold recv_ack. destruct pr as [p|e]; [|apply (ER_FR9 c c); [exact H|apply handle_error_FR9]]. cbv zeta.
  assert (Herr : ER c (handle_error c v E_PROTOCOL)) by (apply (ER_FR9 c c); [exact H|apply handle_error_FR9]).
  destruct (t =? T_PUBACK).
  { destruct (mem _ (c_puback c)); [|exact Herr].
    apply (release_fin_ER c _ (k_pid p) (fun x => if version_eqb v V50 then match c_send_max x with Some _ => set_send_count x (c_send_count x - 1) | None => x end else x)
             (fun e1 e2 => e1 ++ e2 ++ [ENotify p])); [apply (erase_ent c); [reflexivity|exact H]|]. intro x. destruct (version_eqb _ _); [apply dec_f9|apply f9_refl]. }
  destruct (t =? T_PUBREC).
  { destruct (mem _ (c_pubrec c)); [|exact Herr].
    assert (HB : ENT (store_erase (set_pubrec c (del (k_pid p) (c_pubrec c))) v T_PUBREC (k_pid p))) by (apply (erase_ent c); [reflexivity|exact H]).
    match goal with |- ER _ (if ?b then _ else _) => destruct b end.
    - match goal with |- ER _ (bindr (if ?b then _ else _) _) => destruct b end.
      + pose proof (send_pubrel_ER _ (ack_pkt g T_PUBREL v (k_pid p) None) HB eq_refl) as Hs.
        destruct (send_pubrel _ _) as [[c2 e1]|]; cbn [bindr ER] in *; [|exact I].
        apply (ER_fin c c2 (fun e2 => e1 ++ e2 ++ [ENotify p]) Hs).
      + cbn [bindr]. apply (ER_fin c _ (fun e2 => [] ++ e2 ++ [ENotify p]) HB).
    - apply (release_fin_ER c _ (k_pid p) (fun x => match c_send_max x with Some _ => set_send_count x (c_send_count x - 1) | None => x end)
               (fun e1 e2 => e1 ++ e2 ++ [ENotify p]) HB). intro x. apply dec_f9. }
  destruct (t =? T_PUBCOMP).
  { destruct (mem _ (c_pubcomp c)); [|exact Herr].
    apply (release_fin_ER c _ (k_pid p) (fun x => if version_eqb v V50 then match c_send_max x with Some _ => set_send_count x (c_send_count x - 1) | None => x end else x)
             (fun e1 e2 => e1 ++ e2 ++ [ENotify p])); [apply (erase_ent c); [reflexivity|exact H]|]. intro x. destruct (version_eqb _ _); [apply dec_f9|apply f9_refl]. }
  destruct (t =? T_SUBACK).
  { destruct (mem _ (c_suback c)); [|exact Herr]. apply (release_fin_ER c _ (k_pid p) (fun x => x) (fun e1 e2 => e1 ++ e2 ++ [ENotify p])); [now apply (ent_store _ c)|intro; apply f9_refl]. }
  { destruct (mem _ (c_unsuback c)); [|exact Herr]. apply (release_fin_ER c _ (k_pid p) (fun x => x) (fun e1 e2 => e1 ++ e2 ++ [ENotify p])); [now apply (ent_store _ c)|intro; apply f9_refl]. }
Qed.

Lemma send_stored_ER c : ENT c -> ER c (send_stored c).
Proof.
  intro H. unfold send_stored. pose proof (send_stored_l_parts (c_mps_send c) (c_store c)) as Hp.
  destruct (send_stored_l (c_mps_send c) (c_store c)) as [kept dropped]. destruct Hp as (P1 & _). cbv zeta.
  destruct (release_all _ _) as [a|]; cbn [bindr ER]; [|exact I].
  apply (ent_sub _ c); [|exact H]. intros q Hq. apply P1. revert Hq. destruct (c_send_max _); conn_simpl_goal; auto.
Qed.
Lemma send_connack_ER c p : ENT c -> ER c (send_connack c p).
Proof.
  intro H. unfold send_connack. cbv zeta. destruct (_ && _); [exact H|]. destruct (negb (status_eqb _ _)); [exact H|].
  pose proof (connack_send_props_f9 c p) as Hp. destruct (connack_send_props c p) as [c1 pre]. cbn [fst] in Hp.
  pose proof (ent_frame c1 c Hp H) as H1.
  destruct (negb (k_rc p =? 0)).
  - pose proof (cancel_f9 (set_status c1 Disconnected)) as Hc. destruct (cancel_timers _) as [c2 e]. cbn [fst ER] in *.
    apply (ent_frame c2 c1); [|exact H1]. apply (f9_trans _ (set_status c1 Disconnected)); [exact Hc|unfold F9; conn_simpl; repeat split].
  - pose proof (send_stored_ER (set_status c1 Connected) (ent_store _ c1 eq_refl H1)) as Hs.
    destruct (send_stored (set_status c1 Connected)) as [[c2 es]|]; cbn [bindr ER] in *; [|exact I].
    pose proof (post_f9 c2) as Hq. destruct (send_post_process c2) as [c3 e]. cbn [fst ER] in *. now apply (ent_frame c3 c2).
Qed.
Ltac ent_leaf c H :=
  unfold initialize, clear_store_related; apply (ent_sub _ c); [conn_simpl_goal; first [tauto|intros q []]|exact H].
Lemma send_connect_ER c p : ENT c -> ER c (send_connect c p).
Proof.
  intro H. unfold send_connect. cbv zeta. destruct (_ && _); [exact H|]. destruct (negb _); [exact H|].
  apply ER_post. own_split; ent_leaf c H.
Qed.
Lemma connect_recv_state_ent c v p c' : ENT c -> connect_recv_state c v p = Ok c' -> ENT c'.
Proof.
  intro H. unfold connect_recv_state. cbv zeta. destruct (version_eqb v V50).
  - destruct (k_tam p) as [m|]; [destruct (negb (m =? 0)); [destruct (tas_new m)|]|]; cbn [bindr]; try discriminate;
      intro E; injection E as <-; own_split; ent_leaf c H.
  - intro E; injection E as <-. own_split; ent_leaf c H.
Qed.
Lemma recv_connect_ER g c v pr : ENT c -> ER c (recv_connect g c v pr).
Proof.
  intro H. unfold recv_connect. destruct (negb _); [apply (ER_FR9 c c); [exact H|apply handle_error_FR9]|]. cbv zeta.
  destruct pr as [p|e].
  - destruct (connect_recv_state _ v p) as [c1|] eqn:E; cbn [bindr]; [|exact I].
    pose proof (connect_recv_state_ent (set_status c Connecting) v p c1 (ent_store (set_status c Connecting) c eq_refl H) E) as H1. apply (ER_fin c c1 (fun e2 => e2 ++ [ENotify p]) H1).
  - pose proof (send_connack_ER (set_status c Connecting) (connect_refusal v e) (ent_store (set_status c Connecting) c eq_refl H)) as Hs.
    destruct (send_connack _ _) as [[c1 ev]|]; cbn [bindr ER] in *; [exact Hs|exact I].
Qed.
Lemma recv_connack_ER c v pr : ENT c -> ER c (recv_connack c v pr).
Proof.
  intro H. unfold recv_connack. destruct (status_eqb (c_status c) Connected); [apply (ER_FR9 c c); [exact H|apply handle_error_FR9]|].
  destruct pr as [p|e]; [|destruct (version_eqb v V50); exact H].
  destruct (k_rc p =? 0); [|exact H]. cbv zeta.
  assert (Hres : forall cx sp, ENT cx -> ER c (resume_or_clear cx sp)).
  { intros cx sp Hx. unfold resume_or_clear. destruct sp; [|cbn [ER]; ent_leaf cx Hx].
    pose proof (send_stored_ER cx Hx) as Hs. destruct (send_stored cx) as [[c1 es]|]; cbn [bindr ER] in *; [|exact I].
    destruct (existsb _ es); [|exact Hs]. pose proof (post_f9 c1) as Hq. destruct (send_post_process c1) as [c2 e]. cbn [fst ER] in *. now apply (ent_frame c2 c1). }
  destruct (version_eqb v V50).
  - destruct (connack_recv_limits _ p) as [c1|] eqn:E1; cbn [bindr]; [|exact I].
    pose proof (connack_recv_limits_f9 _ p c1 E1) as F1. pose proof (connack_recv_ska_f9 c1 p) as F2.
    destruct (connack_recv_ska c1 p) as [c2 e1]. cbn [fst] in F2.
    assert (H2 : ENT c2) by (apply (ent_frame c2 c1 F2), (ent_frame c1 _ F1), (ent_store _ c eq_refl H)).
    assert (H3 : ENT (connack_recv_sei c2 p)) by (unfold connack_recv_sei; own_split; ent_leaf c2 H2).
    pose proof (Hres _ (k_flag p) H3) as Hr. destruct (resume_or_clear _ _) as [[c3 e2]|]; cbn [bindr ER] in *; [exact Hr|exact I].
  - pose proof (Hres _ (k_flag p) (ent_store (set_status c Connected) c eq_refl H)) as Hr.
    destruct (resume_or_clear _ _) as [[c3 e2]|]; cbn [bindr ER] in *; [exact Hr|exact I].
Qed.
Lemma do_closed_ER c : ENT c -> ER c (do_closed c).
Proof.
  intro H. destruct (do_closed c) as [[c' e]|] eqn:E; cbn [ER]; [|exact I].
  destruct (c_need_store c) eqn:En.
  - destruct (closed_persistent_keeps_session c c' e E En) as (S1 & _). now apply (ent_store c' c).
  - destruct (closed_nonpersistent_ends_session c c' e E En) as (S1 & _). unfold ENT. rewrite S1. intros q [].
Qed.
Lemma do_erase_ER c id : ENT c -> ER c (do_erase c id).
Proof.
  intro H. unfold do_erase. pose proof (erase_publish_l_sub id (c_store c)) as Hs.
  destruct (store_erase_publish_l id (c_store c)) as [b l]. cbn [snd] in Hs. destruct b; [|exact H]. cbv zeta.
  match goal with |- ER _ (release_if_used ?x id) => assert (H1 : ENT x) end.
  { apply (ent_sub _ c); [|exact H]. destruct (c_send_max _); [destruct (0 <? _)|]; conn_simpl_goal; exact Hs. }
  match goal with |- ER _ (release_if_used ?x id) => destruct (release_if_used x id) as [[c2 e]|] eqn:E; cbn [ER]; [exact (release_ent x id c2 e E H1)|exact I] end.
Qed.
Lemma do_restore_ent l : forall c, ENT c -> ENT (do_restore c l).
Proof.
  induction l as [|p t IH]; intros c H; cbn [do_restore]; [exact H|]. apply IH.
  destruct ((k_type p =? T_PUBLISH) && (k_qos p =? 0)) eqn:E0; [exact H|].
  destruct (pm_register _ _) as [b a]. destruct b; [|exact H]. unfold store_add_soft.
  assert (He : entry_okb p = true) by (unfold entry_okb; now rewrite E0).
  repeat match goal with |- context [if ?b then _ else _] => destruct b end; conn_simpl_goal;
    first [ (apply (ent_store _ c); [reflexivity|exact H]) | (apply (ent_snoc c _ p); [reflexivity|exact He|exact H]) ].
Qed.

Theorem step_keeps_ENT g c o : ENT c ->
  match step g c o with Ok (c', _, _) => ENT c' | Panic _ => True end.
Proof.
  intro H. assert (Hfr : forall c1, F9 c1 c -> ENT c1) by (intros c1 F; now apply (ent_frame c1 c)).
  assert (Hst : forall c1, c_store c1 = c_store c -> ENT c1) by (intros c1 E; now apply (ent_store c1 c)).
  destruct o; cbn [step].
  - assert (R : ER c (do_send g c p)).
    { unfold do_send. destruct (negb _); [exact H|]. cbv zeta. destruct (_ && _); [exact H|]. destruct (_ && _); [exact H|].
      unfold dispatch_send. cbv zeta.
      destruct (k_type p =? T_CONNECT); [now apply send_connect_ER|]. destruct (k_type p =? T_CONNACK); [now apply send_connack_ER|].
      destruct (k_type p =? T_PUBLISH); [destruct (version_eqb _ _); [now apply send_publish_v5_ER|now apply send_publish_v311_ER]|].
      destruct (_ || _); [apply (ER_FR9 c c); [exact H|apply send_puback_like_FR9]|].
      destruct (N.eqb_spec (k_type p) T_PUBREL); [now apply send_pubrel_ER|].
      destruct (_ || _); [now apply send_sub_unsub_ER|].
      destruct (_ || _); [apply (ER_FR9 c c); [exact H|apply send_plain_FR9]|].
      destruct (_ =? T_PINGREQ); [apply (ER_FR9 c c); [exact H|apply send_pingreq_FR9]|].
      destruct (_ =? T_DISCONNECT); [apply (ER_FR9 c c); [exact H|apply send_disconnect_FR9]|].
      destruct (_ =? T_AUTH); [apply (ER_FR9 c c); [exact H|apply send_auth_FR9]|]. exact H. }
    destruct (do_send g c p) as [[c' e]|]; cbn [bindr ER] in *; [exact R|exact I].
  - unfold do_recv. destruct (feed (c_pb c) bytes) as [[r pb'] rest]. cbv zeta.
    assert (H0 : ENT (set_pb c pb')) by (now apply Hst).
    destruct r; cbv beta iota; cbn [bindr]; [|exact H0|].
    + assert (R : ER c (process_recv_packet g (set_pb c pb') (hd 0 hdr) body pr)).
      { unfold process_recv_packet. cbv zeta. set (c0 := set_pb c pb') in *.
        assert (Hf0 : forall r0, FR9 c0 r0 -> ER c r0) by (intros r0; now apply (ER_FR9 c c0)).
        destruct (_ <? _).
        { destruct (status_eqb _ _).
          - pose proof (close_with_disconnect_FR9 c0 (disconnect_v5 149)) as F. destruct (close_with_disconnect _ _) as [[c1 e]|]; cbn [bindr ER FR9] in *; [|exact I].
            now apply (ent_frame c1 c0).
          - pose proof (cancel_f9 (set_status c0 Disconnected)) as F. destruct (cancel_timers _) as [c1 e]. cbn [fst ER] in *.
            apply (ent_frame c1 c0); [|exact H0]. apply (f9_trans _ (set_status c0 Disconnected)); [exact F|unfold F9; conn_simpl; repeat split]. }
        destruct (negb _); [exact H0|].
        assert (Hd : forall cx v, ENT cx -> ER c (dispatch_recv g cx v (hd 0 hdr / 16) pr)).
        { intros cx v Hx. unfold dispatch_recv. assert (Hfx : forall r0, FR9 cx r0 -> ER c r0) by (intros r0; now apply (ER_FR9 c cx)).
          repeat match goal with |- ER _ (if ?b then _ else _) => destruct b end;
            first [ now apply recv_connect_ER | now apply recv_connack_ER | now apply recv_ack_ER
                  | (apply Hfx; first [apply recv_publish_v5_FR9 | apply recv_publish_v311_FR9 | apply recv_pubrel_FR9 | apply recv_notify_FR9
                                      | apply recv_pingreq_FR9 | apply recv_pingresp_FR9 | apply recv_disconnect_FR9]) | exact Hx ]. }
        destruct (c_version c0); try (now apply Hd).
        repeat match goal with |- ER _ (if ?b then _ else _) => destruct b end;
          first [ (apply recv_connect_ER; apply (ent_store _ c0); [reflexivity|exact H0]) | exact H0 ]. }
      destruct (process_recv_packet _ _ _ _ _) as [[c1 e]|]; cbn [bindr ER] in *; [exact R|exact I].
    + pose proof (cancel_f9 (set_pb c pb')) as F. destruct (cancel_timers _) as [c1 e]. cbn [fst bindr] in *. now apply (ent_frame c1 (set_pb c pb')).
  - pose proof (do_timer_FR9 c k) as F. destruct (do_timer c k) as [[c' e]|]; cbn [bindr FR9] in *; [now apply Hfr|exact I].
  - pose proof (do_closed_ER c H) as R. destruct (do_closed c) as [[c' e]|]; cbn [bindr ER] in *; [exact R|exact I].
  - unfold do_set_pingreq_interval. cbv zeta. own_split; cbn [bindr]; apply Hst; reflexivity.
  - now apply Hst.
  - destruct b; now apply Hst.
  - now apply Hst.
  - now apply Hst.
  - now apply Hst.
  - now apply Hst.
  - destruct (pm_acquire (c_pid c)) as [[r a]|]; cbn [bindr]; [now apply Hst|exact I].
  - destruct (pm_register (c_pid c) id) as [b a]. now apply Hst.
  - destruct (release_if_used c id) as [[c' e]|] eqn:E; cbn [bindr]; [exact (release_ent c id c' e E H)|exact I].
  - pose proof (do_erase_ER c id H) as R. destruct (do_erase c id) as [[c' e]|]; cbn [bindr ER] in *; [exact R|exact I].
  - now apply do_restore_ent.
  - now apply Hst.
  - exact H.
Qed.
