(* C07, per call, both versions, every state: a first QoS 2 PUBLISH is notified exactly once and becomes
   handled; a retransmission (identifier handled) is not notified and — on an established connection —
   is answered with PUBREC whether or not automatic responses are on. *)
From MQ Require Import Base.Prelude Alloc.Alloc Alloc.SetSpec Alloc.AllocProofs Framing.Framing
                       Conn.Types Conn.TopicAlias Conn.ConnRecord Conn.Step Conn.Run Corr.ConnTrace Conn.Scope.

Lemma notifies_app a b : notifies (a ++ b) = notifies a ++ notifies b. Proof. unfold notifies. apply flat_map_app. Qed.
Lemma errors_app a b : errors (a ++ b) = errors a ++ errors b. Proof. unfold errors. apply flat_map_app. Qed.
Lemma sends_app' a b : sends (a ++ b) = sends a ++ sends b. Proof. unfold sends. apply flat_map_app. Qed.

(* timer bookkeeping announces nothing *)
Definition silent (e : evs) : Prop := notifies e = [] /\ errors e = [] /\ sends e = [].
Lemma silent_app a b : silent a -> silent b -> silent (a ++ b).
Proof. unfold silent. intros (A1 & A2 & A3) (B1 & B2 & B3). rewrite notifies_app, errors_app, sends_app', A1, A2, A3, B1, B2, B3. repeat split. Qed.
Lemma post_silent c : silent (snd (send_post_process c)) /\ c_status (fst (send_post_process c)) = c_status c /\ c_qos2 (fst (send_post_process c)) = c_qos2 c.
Proof. unfold send_post_process. destruct (c_is_client c); [destruct (0 <? _)|]; cbn [fst snd]; repeat split. Qed.
Lemma cancel_silent c : silent (snd (cancel_timers c)).
Proof.
  unfold cancel_timers. destruct (c_t_send c); cbn [c_t_recv set_t_send].
  all: match goal with |- context [c_t_recv ?x] => destruct (c_t_recv x) end.
  all: match goal with |- context [c_t_resp ?x] => destruct (c_t_resp x) end.
  all: cbn [snd]; repeat split.
Qed.
Lemma refresh_silent c : silent (snd (refresh_pingreq_recv c)) /\ c_qos2 (fst (refresh_pingreq_recv c)) = c_qos2 c.
Proof. unfold refresh_pingreq_recv. destruct (negb _); cbn [fst snd]; repeat split. Qed.

(* a protocol error on a v5.0 connection: nothing is notified, the error is reported *)
Lemma handle_v5_error_evs c e :
  match handle_v5_error c e with Ok (c', ev) => notifies ev = [] /\ In e (errors ev) /\ c_qos2 c' = c_qos2 c | Panic _ => True end.
Proof.
  unfold handle_v5_error, close_with_disconnect, send_disconnect, too_large, not_allowed.
  destruct (status_eqb (c_status c) Connected && negb (size_ok c (disconnect_v5 (disc_rc_of_err e)))).
  - pose proof (cancel_silent (set_status c Disconnected)) as (S1 & S2 & S3).
    assert (Hq : c_qos2 (fst (cancel_timers (set_status c Disconnected))) = c_qos2 c) by (rewrite cancel_timers_state; reflexivity).
    destruct (cancel_timers _) as [c1 ev]. cbn [fst snd bindr] in *.
    rewrite !notifies_app, !errors_app, S1, S2. cbn. repeat split; [now left|exact Hq].
  - destruct (_ && _); [cbn [bindr]; cbn; repeat split; now right; left|].
    destruct (negb _); [cbn [bindr]; cbn; repeat split; now right; left|].
    pose proof (cancel_silent (set_status c Disconnected)) as (S1 & S2 & S3).
    assert (Hq : c_qos2 (fst (cancel_timers (set_status c Disconnected))) = c_qos2 c) by (rewrite cancel_timers_state; reflexivity).
    destruct (cancel_timers _) as [c1 ev]. cbn [fst snd bindr] in *.
    rewrite !notifies_app, !errors_app, S1, S2. cbn. repeat split; [now left|exact Hq].
Qed.

(* a PUBREC the library sends for identifier id: requested, or refused with an error *)
Lemma pubrec_sent g c v id :
  match send_puback_like c (ack_pkt g T_PUBREC v id None) with
  | Ok (c', e) => notifies e = [] /\ c_qos2 c' = c_qos2 c /\
                  (status_eqb (c_status c) Connected = true -> errors e = [] ->
                   exists q, In q (sends e) /\ k_type q = T_PUBREC /\ k_pid q = id)
  | Panic _ => True
  end.
Proof.
  unfold send_puback_like, too_large, not_allowed.
  destruct (_ && _); [cbn; repeat split; intros _ H; discriminate|].
  destruct (status_eqb (c_status c) Connected); cbn [negb]; [|cbn; repeat split; intros H; discriminate].
  change (k_type (ack_pkt g T_PUBREC v id None)) with T_PUBREC. change (k_rc_present (ack_pkt g T_PUBREC v id None)) with false.
  change (T_PUBREC =? T_PUBACK) with false. change (T_PUBREC =? T_PUBCOMP) with false. change (T_PUBREC =? T_PUBREC) with true.
  cbn [orb andb].
  match goal with |- match send_and_post ?cc _ _ _ with _ => _ end => assert (Hcc : cc = c) by (destruct (version_eqb _ _); reflexivity); rewrite Hcc end.
  assert (Hq : c_qos2 c = c_qos2 c) by reflexivity.
  unfold send_and_post. pose proof (post_silent c) as ((S1 & S2 & S3) & _ & Q). destruct (send_post_process c) as [c2 e2]. cbn [fst snd] in *.
  rewrite !notifies_app, !errors_app, !sends_app', S1. cbn. split; [reflexivity|]. split; [congruence|].
  intros _ _. exists (ack_pkt g T_PUBREC v id None). split; [now left|split; reflexivity].
Qed.

(* ---- v3.1.1 ---- *)
Theorem qos2_first_notified_v311 g c p :
  k_qos p = 2 -> mem (k_pid p) (c_qos2 c) = false ->
  match recv_publish_v311 g c (PROk p) with
  | Ok (c', e) => notifies e = [p] /\ mem (k_pid p) (c_qos2 c') = true
  | Panic _ => True
  end.
Proof.
  intros Hq Hm. unfold recv_publish_v311. rewrite Hq. change (2 =? 0) with false. change (2 =? 1) with false. cbv iota zeta. rewrite Hm.
  rewrite orb_false_r.
  assert (Hins : mem (k_pid p) (c_qos2 (set_qos2 c (ins (k_pid p) (c_qos2 c)))) = true).
  { conn_simpl_goal. unfold mem, ins. rewrite s_mem_insert, N.eqb_refl. reflexivity. }
  set (c0 := set_qos2 c (ins (k_pid p) (c_qos2 c))) in *.
  destruct (_ && _).
  - pose proof (pubrec_sent g c0 V311 (k_pid p)) as H. destruct (send_puback_like c0 _) as [[c1 e1]|]; cbn [bindr]; [|exact I].
    destruct H as (N1 & Q1 & _). pose proof (refresh_silent c1) as ((S1 & _) & Q2). destruct (refresh_pingreq_recv c1) as [c2 e2]. cbn [fst snd] in *.
    rewrite !notifies_app, N1, S1. cbn. split; [reflexivity|congruence].
  - cbn [bindr]. pose proof (refresh_silent c0) as ((S1 & _) & Q2). destruct (refresh_pingreq_recv c0) as [c2 e2]. cbn [fst snd] in *.
    rewrite !notifies_app, S1. cbn. split; [reflexivity|congruence].
Qed.

Theorem qos2_dup_answered_v311 g c p :
  k_qos p = 2 -> mem (k_pid p) (c_qos2 c) = true -> status_eqb (c_status c) Connected = true ->
  match recv_publish_v311 g c (PROk p) with
  | Ok (c', e) => notifies e = [] /\ mem (k_pid p) (c_qos2 c') = true /\
                  (errors e = [] -> exists q, In q (sends e) /\ k_type q = T_PUBREC /\ k_pid q = k_pid p)
  | Panic _ => True
  end.
Proof.
  intros Hq Hm Hs. unfold recv_publish_v311. rewrite Hq. change (2 =? 0) with false. change (2 =? 1) with false. cbv iota zeta. rewrite Hm, Hs.
  rewrite orb_true_r. cbn [andb].
  assert (Hins : mem (k_pid p) (c_qos2 (set_qos2 c (ins (k_pid p) (c_qos2 c)))) = true).
  { conn_simpl_goal. unfold mem, ins. rewrite s_mem_insert, N.eqb_refl. reflexivity. }
  set (c0 := set_qos2 c (ins (k_pid p) (c_qos2 c))) in *.
  pose proof (pubrec_sent g c0 V311 (k_pid p)) as H. destruct (send_puback_like c0 _) as [[c1 e1]|]; cbn [bindr]; [|exact I].
  destruct H as (N1 & Q1 & P1). pose proof (refresh_silent c1) as ((S1 & S2 & S3) & Q2). destruct (refresh_pingreq_recv c1) as [c2 e2]. cbn [fst snd] in *.
  rewrite !notifies_app, !errors_app, !sends_app', N1, S1, S2, S3, !app_nil_r. split; [reflexivity|]. split; [congruence|].
  intro He. apply P1; [subst c0; conn_simpl_goal; exact Hs|exact He].
Qed.

(* ---- v5.0 ---- *)
Lemma resolve_spec g c p :
  match resolve_recv_alias g c p with
  | Ok (c1, q, stop, e0) =>
      c_qos2 c1 = c_qos2 c /\ notifies e0 = [] /\
      (stop = true -> errors e0 <> []) /\
      (stop = false -> e0 = [] /\ c_status c1 = c_status c /\ k_pid q = k_pid p)
  | Panic _ => True
  end.
Proof.
  assert (Herr : match bindr (handle_v5_error c E_TOPIC_ALIAS_INVALID) (fun '(c0, e) => Ok (c0, p, true, e)) with
                 | Ok (c1, q, stop, e0) => c_qos2 c1 = c_qos2 c /\ notifies e0 = [] /\ (stop = true -> errors e0 <> []) /\
                                           (stop = false -> e0 = [] /\ c_status c1 = c_status c /\ k_pid q = k_pid p)
                 | Panic _ => True end).
  { pose proof (handle_v5_error_evs c E_TOPIC_ALIAS_INVALID) as H. destruct (handle_v5_error c _) as [[c1 e]|]; cbn [bindr]; [|exact I].
    destruct H as (H1 & H2 & H3). split; [exact H3|]. split; [exact H1|]. split; [|discriminate]. intros _ K. rewrite K in H2. destruct H2. }
  assert (Hok : forall c1 q, c_qos2 c1 = c_qos2 c -> c_status c1 = c_status c -> k_pid q = k_pid p ->
            c_qos2 c1 = c_qos2 c /\ notifies (@nil event) = [] /\ (false = true -> errors (@nil event) <> []) /\
            (false = false -> @nil event = [] /\ c_status c1 = c_status c /\ k_pid q = k_pid p)).
  { intros c1 q H1 H2 H3. split; [exact H1|]. split; [reflexivity|]. split; [discriminate|]. intros _. repeat split; assumption. }
  unfold resolve_recv_alias. destruct (topic_empty p).
  - destruct (k_alias p) as [a|]; [|exact Herr]. destruct (alias_out_of_range c a); [exact Herr|].
    destruct (c_ta_recv c) as [r|]; [|now apply Hok]. destruct (tar_get r a) as [t|]; [now apply Hok|exact Herr].
  - destruct (k_alias p) as [a|]; [|now apply Hok]. destruct (alias_out_of_range c a); [exact Herr|].
    destruct (c_ta_recv c) as [r|]; [|now apply Hok]. destruct (tar_insert r (k_topic p) a) as [r'|]; cbn [bindr]; [now apply Hok|exact I].
Qed.

Lemma puback_quiet g c v id :
  match send_puback_like c (ack_pkt g T_PUBACK v id None) with
  | Ok (c', e) => notifies e = [] /\ c_qos2 c' = c_qos2 c /\ c_status c' = c_status c
  | Panic _ => True
  end.
Proof.
  unfold send_puback_like, too_large, not_allowed.
  destruct (_ && _); [cbn; repeat split|]. destruct (negb _); [cbn; repeat split|].
  match goal with |- match send_and_post ?cc _ _ _ with _ => _ end =>
    assert (Hcc : c_qos2 cc = c_qos2 c /\ c_status cc = c_status c) by (destruct (version_eqb _ _); [destruct (_ || _)|]; split; reflexivity);
    generalize dependent cc end.
  intros cc [Hq Hs]. unfold send_and_post. pose proof (post_silent cc) as ((S1 & _) & S4 & Q). destruct (send_post_process cc) as [c2 e2]. cbn [fst snd] in *.
  rewrite !notifies_app, S1. cbn. repeat split; congruence.
Qed.

Theorem qos2_dup_answered_v5 g c p :
  k_qos p = 2 -> mem (k_pid p) (c_qos2 c) = true ->
  match recv_publish_v5 g c (PROk p) with
  | Ok (c', e) => notifies e = [] /\ mem (k_pid p) (c_qos2 c') = true /\
                  (status_eqb (c_status c) Connected = true -> errors e = [] ->
                   exists q, In q (sends e) /\ k_type q = T_PUBREC /\ k_pid q = k_pid p)
  | Panic _ => True
  end.
Proof.
  intros Hq Hm. unfold recv_publish_v5. cbv zeta. rewrite Hq, Hm. change (2 =? 0) with false. change (2 =? 1) with false. change (2 =? 2) with true.
  cbn [negb andb orb].
  match goal with |- match (if ?b then _ else _) with _ => _ end => destruct b end.
  { pose proof (handle_v5_error_evs c E_RECEIVE_MAXIMUM_EXCEEDED) as H. destruct (handle_v5_error c _) as [[c1 e]|]; [|exact I].
    destruct H as (H1 & H2 & H3). split; [exact H1|]. split; [congruence|]. intros _ K. rewrite K in H2. destruct H2. }
  pose proof (resolve_spec g (note_inbound c p) p) as HR.
  assert (Hn : c_qos2 (note_inbound c p) = c_qos2 c /\ c_status (note_inbound c p) = c_status c) by (unfold note_inbound; destruct (negb _); split; reflexivity).
  destruct Hn as [Hn1 Hn2].
  destruct (resolve_recv_alias g (note_inbound c p) p) as [[[[c1 q] stop] e0]|]; cbn [bindr]; [|exact I].
  destruct HR as (R1 & R2 & R3 & R4).
  destruct stop.
  { split; [exact R2|]. split; [congruence|]. intros _ K. now destruct (R3 eq_refl). }
  destruct (R4 eq_refl) as (-> & R5 & R6).
  assert (Hh : mem (k_pid p) (c_qos2 (note_handled c1 p)) = true /\ c_status (note_handled c1 p) = c_status c).
  { unfold note_handled. rewrite Hq. change (2 =? 2) with true. cbv iota. conn_simpl_goal. split; [|congruence].
    unfold mem, ins. rewrite s_mem_insert, N.eqb_refl. reflexivity. }
  destruct Hh as [Hh1 Hh2]. set (c2 := note_handled c1 p) in *.
  rewrite orb_true_r, andb_true_r.
  destruct (status_eqb (c_status c) Connected) eqn:Es.
  - pose proof (pubrec_sent g c2 V50 (k_pid p)) as H. destruct (send_puback_like c2 _) as [[c3 e2]|]; cbn [bindr]; [|exact I].
    destruct H as (N1 & Q1 & P1). pose proof (refresh_silent c3) as ((S1 & S2 & S3) & Q2). destruct (refresh_pingreq_recv c3) as [c4 e3]. cbn [fst snd] in *.
    rewrite !notifies_app, !errors_app, !sends_app', N1, S1, S2, S3, !app_nil_r. cbn [app]. split; [reflexivity|]. split; [congruence|].
    intros _ He. apply P1; [rewrite Hh2; exact Es|exact He].
  - cbn [bindr]. pose proof (refresh_silent c2) as ((S1 & S2 & S3) & Q2). destruct (refresh_pingreq_recv c2) as [c4 e3]. cbn [fst snd] in *.
    rewrite !notifies_app, S1. cbn. split; [reflexivity|]. split; [congruence|]. intro K; discriminate.
Qed.

Theorem qos2_first_notified_v5 g c p :
  k_qos p = 2 -> mem (k_pid p) (c_qos2 c) = false ->
  match recv_publish_v5 g c (PROk p) with
  | Ok (c', e) => errors e = [] -> exists q, notifies e = [q] /\ k_pid q = k_pid p /\ mem (k_pid p) (c_qos2 c') = true
  | Panic _ => True
  end.
Proof.
  intros Hq Hm. unfold recv_publish_v5. cbv zeta. rewrite Hq, Hm. change (2 =? 0) with false. change (2 =? 1) with false. change (2 =? 2) with true.
  cbn [negb andb orb].
  match goal with |- match (if ?b then _ else _) with _ => _ end => destruct b end.
  { pose proof (handle_v5_error_evs c E_RECEIVE_MAXIMUM_EXCEEDED) as H. destruct (handle_v5_error c _) as [[c1 e]|]; [|exact I].
    destruct H as (H1 & H2 & H3). intro K. rewrite K in H2. destruct H2. }
  pose proof (resolve_spec g (note_inbound c p) p) as HR.
  destruct (resolve_recv_alias g (note_inbound c p) p) as [[[[c1 q] stop] e0]|]; cbn [bindr]; [|exact I].
  destruct HR as (R1 & R2 & R3 & R4).
  destruct stop; [intro K; now destruct (R3 eq_refl)|].
  destruct (R4 eq_refl) as (-> & R5 & R6).
  assert (Hh1 : mem (k_pid p) (c_qos2 (note_handled c1 p)) = true).
  { unfold note_handled. rewrite Hq. change (2 =? 2) with true. cbv iota. conn_simpl_goal. unfold mem, ins. rewrite s_mem_insert, N.eqb_refl. reflexivity. }
  set (c2 := note_handled c1 p) in *. rewrite orb_false_r.
  destruct (_ && _).
  - pose proof (pubrec_sent g c2 V50 (k_pid p)) as H. destruct (send_puback_like c2 _) as [[c3 e2]|]; cbn [bindr]; [|exact I].
    destruct H as (N1 & Q1 & _). pose proof (refresh_silent c3) as ((S1 & _) & Q2). destruct (refresh_pingreq_recv c3) as [c4 e3]. cbn [fst snd] in *.
    intros _. exists q. rewrite !notifies_app, N1, S1. cbn. split; [reflexivity|]. split; [exact R6|congruence].
  - cbn [bindr]. pose proof (refresh_silent c2) as ((S1 & _) & Q2). destruct (refresh_pingreq_recv c2) as [c4 e3]. cbn [fst snd] in *.
    intros _. exists q. rewrite !notifies_app, S1. cbn. split; [reflexivity|]. split; [exact R6|congruence].
Qed.
