(* C06 over histories: a packet identifier that has an entry in the store keeps one through EVERY call
   of the model until one of the release points of the property: the matching acknowledgement
   (PUBACK / PUBREC / PUBCOMP with that identifier), erase_stored_publish, the oversize drop on
   resume, the end of the session (clean start, CONNACK without the session, non-persistent close) —
   or a PUBLISH sent with the same identifier (which the application contract excludes). *)
From MQ Require Import Base.Prelude Alloc.Alloc Alloc.SetSpec Alloc.AllocProofs Framing.Framing
                       Conn.Types Conn.TopicAlias Conn.ConnRecord Conn.Step Conn.Run Corr.ConnTrace Conn.Scope.

Definition ks (x : N) (a b : list pkt) : Prop := store_has x a = true -> store_has x b = true.
Lemma ks_refl x a : ks x a a. Proof. unfold ks; auto. Qed.
Lemma ks_trans x a b c : ks x a b -> ks x b c -> ks x a c. Proof. unfold ks; auto. Qed.
Lemma ks_eq' x a b : a = b -> ks x b a. Proof. intros ->. apply ks_refl. Qed.

Lemma store_has_app x l p : store_has x (l ++ [p]) = store_has x l || (k_pid p =? x).
Proof. unfold store_has. rewrite existsb_app. cbn [existsb]. now rewrite orb_false_r. Qed.
Lemma ks_snoc x l p : ks x l (l ++ [p]).
Proof. unfold ks. intro H. now rewrite store_has_app, H. Qed.

Lemma store_has_erase_other x v resp id l : id <> x -> store_has x (store_erase_l v resp id l) = store_has x l.
Proof.
  intro Hne. induction l as [|p t IH]; cbn [store_erase_l]; [reflexivity|].
  destruct (N.eqb_spec (k_pid p) id) as [He|He].
  - destruct (_ && _); [|reflexivity]. unfold store_has. cbn [existsb]. rewrite He.
    destruct (N.eqb_spec id x); [contradiction|reflexivity].
  - unfold store_has in *. cbn [existsb]. now rewrite IH.
Qed.
Lemma store_has_erase_publish_other x id l : id <> x -> store_has x (snd (store_erase_publish_l id l)) = store_has x l.
Proof.
  intro Hne. induction l as [|p t IH]; cbn [store_erase_publish_l]; [reflexivity|].
  destruct (N.eqb_spec (k_pid p) id) as [He|He].
  - destruct (_ =? T_PUBLISH); cbn [snd]; [|reflexivity]. unfold store_has. cbn [existsb]. rewrite He.
    destruct (N.eqb_spec id x); [contradiction|reflexivity].
  - destruct (store_erase_publish_l id t) as [b t']. unfold store_has in *. cbn [snd existsb] in *. now rewrite IH.
Qed.

Definition KS (x : N) (c : conn) (r : res (conn * list event)) : Prop :=
  match r with Ok (c', _) => ks x (c_store c) (c_store c') | Panic _ => True end.
Lemma KS_trans x c c1 r : ks x (c_store c) (c_store c1) -> KS x c1 r -> KS x c r.
Proof. destruct r as [[c' e]|]; cbn [KS]; [|trivial]. intros H1 H2. now apply (ks_trans _ _ (c_store c1)). Qed.

(* ---- helpers that do not touch the store ---- *)
Lemma post_s c : c_store (fst (send_post_process c)) = c_store c.
Proof. unfold send_post_process. destruct (c_is_client c); [destruct (0 <? _)|]; reflexivity. Qed.
Lemma cancel_s c : c_store (fst (cancel_timers c)) = c_store c.
Proof. rewrite cancel_timers_state. reflexivity. Qed.
Lemma refresh_s c : c_store (fst (refresh_pingreq_recv c)) = c_store c.
Proof. unfold refresh_pingreq_recv. destruct (negb _); reflexivity. Qed.
Lemma validate_alias_s c a : c_store (snd (validate_topic_alias c a)) = c_store c.
Proof.
  unfold validate_topic_alias. destruct a as [a|]; [|reflexivity]. destruct (negb _); [reflexivity|].
  destruct (c_ta_send c) as [s|]; [|reflexivity]. destruct (tas_get s a) as [[t|] s']; reflexivity.
Qed.
Lemma release_s c id c' e : release_if_used c id = Ok (c', e) -> c_store c' = c_store c.
Proof.
  unfold release_if_used. destruct (is_used c id); [|intro H; inversion H; reflexivity].
  destruct (pm_release _ _); cbn [bindr]; [|discriminate]. intro H; inversion H; reflexivity.
Qed.
Lemma release_KS x c id : KS x c (release_if_used c id).
Proof.
  destruct (release_if_used c id) as [[c' e]|] eqn:E; [|exact I]. cbn [KS]. apply ks_eq'. now apply release_s in E.
Qed.
Lemma send_and_post_KS x c p rel pre : KS x c (send_and_post c p rel pre).
Proof.
  unfold send_and_post, KS. pose proof (post_s c) as H. destruct (send_post_process c) as [c' e]. cbn [fst] in H.
  rewrite H. apply ks_refl.
Qed.
Lemma store_add_ks x c p c' : store_add c p = Ok c' -> ks x (c_store c) (c_store c').
Proof. unfold store_add. destruct (store_has _ _); [discriminate|]. intro H; inversion H; subst. conn_simpl. apply ks_snoc. Qed.

(* ---- automation (as in Qos2Inv.v, for the store) ---- *)
Ltac ks_helper x :=
  match goal with
  | |- context [send_post_process ?c] =>
      let H := fresh "Hpost" in pose proof (post_s c) as H; destruct (send_post_process c) as [? ?]; cbn [fst] in H
  | |- context [cancel_timers ?c] =>
      let H := fresh "Hcan" in pose proof (cancel_s c) as H; destruct (cancel_timers c) as [? ?]; cbn [fst] in H
  | |- context [refresh_pingreq_recv ?c] =>
      let H := fresh "Href" in pose proof (refresh_s c) as H; destruct (refresh_pingreq_recv c) as [? ?]; cbn [fst] in H
  | |- context [validate_topic_alias ?c ?a] =>
      let H := fresh "Hval" in pose proof (validate_alias_s c a) as H; destruct (validate_topic_alias c a) as [? ?]; cbn [snd] in H
  | |- context [release_if_used ?c ?id] =>
      let H := fresh "Hrel" in pose proof (release_KS x c id) as H; destruct (release_if_used c id) as [[? ?]|]; cbn [KS] in H
  | |- context [store_add ?c ?p] =>
      let E := fresh "Esa" in destruct (store_add c p) as [?|] eqn:E; [apply (store_add_ks x) in E|]
  end.

Ltac ks_norm x :=
  repeat match goal with
         | |- context [if ?b then _ else _] => destruct b
         | |- context [match ?o with Some _ => _ | None => _ end] => destruct o
         | H : ks _ (c_store (if ?b then _ else _)) _ |- _ => destruct b
         | H : ks _ (c_store (match ?o with Some _ => _ | None => _ end)) _ |- _ => destruct o
         | H : ks _ _ (c_store (if ?b then _ else _)) |- _ => destruct b
         | H : ks _ _ (c_store (match ?o with Some _ => _ | None => _ end)) |- _ => destruct o
         | H : c_store _ = c_store (if ?b then _ else _) |- _ => destruct b
         | H : c_store _ = c_store (match ?o with Some _ => _ | None => _ end) |- _ => destruct o
         end;
  conn_simpl;
  repeat match goal with H : c_store ?a = c_store ?b |- _ => apply (ks_eq' x) in H end.

Ltac ks_solve x :=
  first [ apply ks_refl | assumption | apply ks_snoc
        | match goal with H : ks x ?a ?b |- ks x ?a ?c => apply (ks_trans x a b c); [exact H|]; ks_solve x end
        | match goal with |- ks x ?a (?b ++ [?p]) => apply (ks_trans x a b); [ks_solve x|apply ks_snoc] end ].

Ltac ks_leaf x := cbn [KS]; ks_norm x; ks_solve x.

Ltac ks_step x :=
  first
   [ progress cbn [bindr]
   | ks_helper x
   | match goal with |- KS _ _ (Panic _) => exact I end
   | match goal with |- KS _ _ (if ?b then _ else _) => destruct b eqn:? end
   | match goal with |- KS _ _ (bindr (if ?b then _ else _) _) => destruct b eqn:? end
   | match goal with |- KS _ _ (bindr (bindr (if ?b then _ else _) _) _) => destruct b eqn:? end
   | match goal with |- KS _ _ (let '(_, _) := (_, _) in _) => cbv beta iota end
   | match goal with |- KS _ _ (let '(_, _) := (if ?b then _ else _) in _) => destruct b eqn:? end
   | match goal with |- KS _ _ (let '(_, _) := ?y in _) => destruct y as [? ?] eqn:? end
   | match goal with |- KS _ _ (match ?y with _ => _ end) => destruct y eqn:? end
   | match goal with |- KS _ _ (bindr (match ?y with _ => _ end) _) => destruct y eqn:? end
   | match goal with |- KS _ _ (bindr (bindr (match ?y with _ => _ end) _) _) => destruct y eqn:? end
   | match goal with |- KS _ _ (bindr (let '(_, _) := ?y in _) _) => destruct y as [? ?] eqn:? end
   | match goal with |- KS _ _ (bindr (bindr (let '(_, _) := ?y in _) _) _) => destruct y as [? ?] eqn:? end
   | match goal with |- KS _ _ (bindr ?r _) => destruct r as [?|] eqn:?; cbn [bindr] end ].

Ltac ks_final x :=
  match goal with
  | |- KS _ _ (Panic _) => exact I
  | |- KS _ _ (Ok _) => ks_leaf x
  | |- KS _ ?c0 (send_and_post ?c1 _ _ _) =>
      repeat match goal with
             | |- context [if ?b then _ else _] => destruct b
             | |- context [match ?o with Some _ => _ | None => _ end] => destruct o
             end;
      (eapply KS_trans; [|apply send_and_post_KS]); ks_norm x; ks_solve x
  end.

Ltac ks_auto x := repeat ks_step x; ks_final x.

Lemma send_plain_KS x c p : KS x c (send_plain c p).
Proof. unfold send_plain. ks_auto x. Qed.

(* a CONNECT that does not start a new session keeps the store *)
Lemma send_connect_KS x c p : k_flag p = false -> KS x c (send_connect c p).
Proof. intro Hf. unfold send_connect, initialize. rewrite Hf. ks_auto x. Qed.
Lemma send_pubrel_KS x c p : KS x c (send_pubrel c p).
Proof. unfold send_pubrel. ks_auto x. Qed.
Lemma send_sub_unsub_KS x c p : KS x c (send_sub_unsub c p).
Proof. unfold send_sub_unsub. ks_auto x. Qed.
Lemma send_pingreq_KS x c p : KS x c (send_pingreq c p).
Proof. unfold send_pingreq. ks_auto x. Qed.
Lemma send_disconnect_KS x c p : KS x c (send_disconnect c p).
Proof. unfold send_disconnect. ks_auto x. Qed.
Lemma send_auth_KS x c p : KS x c (send_auth c p).
Proof. unfold send_auth. ks_auto x. Qed.
Lemma send_puback_like_KS x c p : KS x c (send_puback_like c p).
Proof. unfold send_puback_like. ks_auto x. Qed.

(* ---- retransmission on resume: entries that fit the limit are kept ---- *)
Definition fits_store (x mps : N) (l : list pkt) : bool :=
  forallb (fun p => negb (k_pid p =? x) || (k_size p <=? mps)) l.

Lemma send_stored_l_keeps x mps l :
  fits_store x mps l = true -> store_has x l = true -> store_has x (fst (send_stored_l mps l)) = true.
Proof.
  unfold fits_store, store_has. induction l as [|p t IH]; cbn [send_stored_l forallb existsb]; [discriminate|].
  intros Hf Hh. apply andb_true_iff in Hf as [Hp Hf].
  destruct (send_stored_l mps t) as [k d] eqn:E. cbn [fst] in IH.
  destruct (N.eqb_spec (k_pid p) x) as [He|He].
  - cbn [negb orb] in Hp. apply N.leb_le in Hp. destruct (mps <? k_size p) eqn:El; [apply N.ltb_lt in El; lia|].
    cbn [fst existsb]. apply N.eqb_eq in He. now rewrite He.
  - cbn [orb] in Hh. destruct (mps <? k_size p); cbn [fst existsb]; [now apply IH|]. rewrite (IH Hf Hh). apply orb_true_r.
Qed.

Lemma send_stored_KS x c : fits_store x (c_mps_send c) (c_store c) = true -> KS x c (send_stored c).
Proof.
  intro Hf. unfold send_stored. pose proof (send_stored_l_keeps x (c_mps_send c) (c_store c) Hf) as Hk.
  destruct (send_stored_l _ _) as [kept dropped]. cbv zeta. cbn [fst] in Hk.
  match goal with |- KS _ _ (bindr (release_all ?a ?ids) _) => destruct (release_all a ids) as [a'|] end; cbn [bindr KS]; [|exact I].
  destruct (c_send_max _); conn_simpl; exact Hk.
Qed.

Lemma connack_send_props_s c p : c_store (fst (connack_send_props c p)) = c_store c /\
                                 c_mps_send (fst (connack_send_props c p)) = c_mps_send c.
Proof.
  unfold connack_send_props. destruct (_ && _); [|split; reflexivity].
  repeat match goal with |- context [match ?o with Some _ => _ | None => _ end] => destruct o
                    | |- context [if ?b then _ else _] => destruct b end; split; reflexivity.
Qed.

(* a CONNACK sent by the server resumes the session: what fits the client's limit stays stored *)
Lemma send_connack_KS x c p : fits_store x (c_mps_send c) (c_store c) = true -> KS x c (send_connack c p).
Proof.
  intro Hf. unfold send_connack.
  destruct (_ && _); [cbn [KS]; apply ks_refl|]. destruct (negb _); [cbn [KS]; apply ks_refl|]. cbv zeta.
  pose proof (connack_send_props_s c p) as [H1 H2]. destruct (connack_send_props c p) as [c1 pre]. cbn [fst] in *.
  destruct (negb _).
  - pose proof (cancel_s (set_status c1 Disconnected)) as Hc. destruct (cancel_timers _) as [c2 e]. cbn [fst KS] in *.
    rewrite Hc. conn_simpl. rewrite H1. apply ks_refl.
  - assert (Hf1 : fits_store x (c_mps_send (set_status c1 Connected)) (c_store (set_status c1 Connected)) = true)
      by (conn_simpl; now rewrite H1, H2).
    pose proof (send_stored_KS x _ Hf1) as Hs. destruct (send_stored _) as [[c2 es]|]; cbn [bindr KS] in *; [|exact I].
    pose proof (post_s c2) as Hp. destruct (send_post_process c2) as [c3 e]. cbn [fst KS] in *. rewrite Hp.
    conn_simpl. rewrite H1 in Hs. exact Hs.
Qed.

(* a refusal erases the entries of the refused identifier only *)
Lemma refuse_publish_KS x c id err pre : id <> x -> KS x c (refuse_publish c id err pre).
Proof.
  intro Hne. unfold refuse_publish. destruct (_ && _); [|cbn [KS]; apply ks_refl].
  destruct (pm_release _ _); cbn [bindr KS]; [|exact I]. conn_simpl.
  unfold ks. now rewrite (store_has_erase_publish_other x id _ Hne).
Qed.

Lemma send_publish_v311_KS x c p : KS x c (send_publish_v311 c p).
Proof. unfold send_publish_v311. ks_auto x. Qed.

Ltac ks_brute_step x Hne :=
  first
   [ progress cbn [bindr]
   | ks_helper x
   | match goal with |- context [refuse_publish ?c ?id ?err ?pre] =>
       let H := fresh "Hrp" in pose proof (refuse_publish_KS x c id err pre Hne) as H;
       destruct (refuse_publish c id err pre) as [[? ?]|]; cbn [KS] in H end
   | match goal with |- context [tas_insert ?s ?t ?a] => destruct (tas_insert s t a) as [?|] end
   | match goal with |- context [tas_lru ?s] => destruct (tas_lru s) as [?|] end
   | ks_step x ].

(* a PUBLISH sent with another identifier leaves x's entries alone *)
Lemma send_publish_v5_KS x g c p : k_pid p <> x -> KS x c (send_publish_v5 g c p).
Proof.
  intro Hne. unfold send_publish_v5. cbv zeta.
  repeat ks_brute_step x Hne; ks_final x.
Qed.
