(* C01, model side: ANY NUMBER of QoS 1 / QoS 2 exchanges in sequence between two v3.1.1 endpoints on an intact link,
   with identifiers registered, released and reused: every message is notified exactly once, in order; no call
   panics, reports an error or leaves anything of an exchange behind.  The run is an executable function; the theorem
   is by induction over the list of messages, on the pair invariant. *)
From MQ Require Import Base.Prelude Alloc.Alloc Alloc.SetSpec Alloc.AllocProofs Framing.Framing
                       Conn.Types Conn.TopicAlias Conn.ConnRecord Conn.Step Conn.Run Corr.ConnTrace Conn.Scope Conn.IdsQuota Conn.WfInv
                       Conn.Own Conn.OwnFrame Conn.OwnStep Conn.Qos2Dup Conn.TasBounds Conn.NoPanic Conn.PairQos.

(* ---- the single steps again, with the exact event lists and what the next step needs ---- *)
Lemma post_quiet c : let r := send_post_process c in
  notifies (snd r) = [] /\ errors (snd r) = [] /\ sends (snd r) = [] /\ released (snd r) = [].
Proof. cbv zeta. unfold send_post_process. destruct (c_is_client c); [destruct (0 <? _)|]; cbn [snd]; repeat split. Qed.
Lemma refresh_quiet c : let r := refresh_pingreq_recv c in
  notifies (snd r) = [] /\ errors (snd r) = [] /\ sends (snd r) = [] /\ released (snd r) = [].
Proof. cbv zeta. unfold refresh_pingreq_recv. destruct (negb _); cbn [snd]; repeat split. Qed.
Lemma released_app' a b : released (a ++ b) = released a ++ released b. Proof. unfold released. apply flat_map_app. Qed.

Ltac ev_simpl := rewrite ?sends_app', ?notifies_app, ?errors_app, ?released_app'.

(* send_and_post: exactly the packet, nothing else *)
Lemma send_and_post_x cx p rel :
  match send_and_post cx p rel [] with
  | Ok (c1, e) => sends e = [p] /\ notifies e = [] /\ errors e = [] /\ released e = [] /\
                  F8 c1 cx /\ c_status c1 = c_status cx /\ c_auto_pub c1 = c_auto_pub cx /\ c_qos2 c1 = c_qos2 cx
  | Panic _ => False
  end.
Proof.
  unfold send_and_post. pose proof (post_keeps cx) as K. pose proof (post_quiet cx) as Q. cbv zeta in K, Q.
  destruct (send_post_process cx) as [c1 e]. cbn [fst snd] in *. destruct K as (F & K1 & K2 & K3 & _), Q as (Q1 & Q2 & Q3 & Q4).
  ev_simpl. rewrite Q1, Q2, Q3, Q4. cbn. do 4 (split; [reflexivity|]). split; [exact F|]. split; [exact K1|]. split; [exact K2|exact K3].
Qed.

(* the sender accepts the PUBLISH *)
Lemma sender_sends_x g c p q : OWN g c -> ready c -> v311_pub p q -> 1 <= q <= 2 -> fresh c (k_pid p) -> is_used c (k_pid p) = true ->
  match send_publish_v311 c p with
  | Ok (c1, e1) => sends e1 = [p] /\ notifies e1 = [] /\ errors e1 = [] /\
                   OWN g c1 /\ ready c1 /\ is_used c1 (k_pid p) = true /\ c_auto_pub c1 = c_auto_pub c /\
                   mem (k_pid p) (if q =? 2 then c_pubrec c1 else c_puback c1) = true
  | Panic _ => False
  end.
Proof.
  intros HO [Rv Rs] (Ht & Hv & Hq) Hr Hf Hu.
  pose proof (send_publish_v311_OR g c p HO (fun _ => Hf) ltac:(congruence) Ht ltac:(lia)) as HOR.
  unfold send_publish_v311 in *. cbv zeta in *. rewrite Hq in *.
  assert (E0 : (q =? 0) = false) by (apply N.eqb_neq; lia). rewrite E0 in *. cbn [negb] in *. rewrite Rs, Hu in *. cbn [negb andb] in *.
  destruct Hf as [Hc Hs].
  assert (Hfin : forall cx rel, c_pid cx = c_pid c -> c_status cx = c_status c -> c_auto_pub cx = c_auto_pub c -> c_version cx = c_version c ->
            mem (k_pid p) (if q =? 2 then c_pubrec cx else c_puback cx) = true ->
            OR g c (send_and_post cx p rel []) ->
            match send_and_post cx p rel [] with
            | Ok (c1, e1) => sends e1 = [p] /\ notifies e1 = [] /\ errors e1 = [] /\
                             OWN g c1 /\ ready c1 /\ is_used c1 (k_pid p) = true /\ c_auto_pub c1 = c_auto_pub c /\
                             mem (k_pid p) (if q =? 2 then c_pubrec c1 else c_puback c1) = true
            | Panic _ => False end).
  { intros cx rel Hp Hst Ha Hvx Hm Hor. pose proof (send_and_post_x cx p rel) as K.
    destruct (send_and_post cx p rel []) as [[c1 e]|]; [|exact K]. destruct K as (K1 & K2 & K3 & _ & F & K5 & K6 & _). destruct Hor as [O1 _].
    do 3 (split; [assumption|]). split; [exact O1|].
    split; [split; [destruct F as (_ & _ & _ & _ & _ & _ & _ & F); congruence|rewrite K5, Hst; exact Rs]|].
    split; [unfold is_used in *; destruct F as (F & _); now rewrite F, Hp|]. split; [congruence|].
    destruct F as (_ & _ & F3 & F4 & _). destruct (q =? 2); [now rewrite F4|now rewrite F3]. }
  destruct (can_store_now c) eqn:Ec.
  - unfold store_add in *. change (k_pid (set_dup p true)) with (k_pid p) in *. rewrite Hs in *. cbn [bindr] in *.
    destruct (N.eqb_spec q 2) as [E2|E2]; conn_simpl; rewrite Rs in *;
    (apply Hfin; try reflexivity; [conn_simpl_goal; unfold mem, ins; rewrite s_mem_insert, N.eqb_refl; reflexivity|exact HOR]).
  - cbn [bindr] in *. destruct (N.eqb_spec q 2) as [E2|E2]; conn_simpl; rewrite Rs in *;
    (apply Hfin; try reflexivity; [conn_simpl_goal; unfold mem, ins; rewrite s_mem_insert, N.eqb_refl; reflexivity|exact HOR]).
Qed.

(* a bare acknowledgement the library generates on an established v3.1.1 connection *)
Lemma auto_ack_x g c t id : ready c ->
  match send_puback_like c (ack_pkt g t V311 id None) with
  | Ok (c1, e) => sends e = [ack_pkt g t V311 id None] /\ notifies e = [] /\ errors e = [] /\ F8 c1 c /\ c_status c1 = c_status c /\
                  c_auto_pub c1 = c_auto_pub c /\ c_qos2 c1 = c_qos2 c
  | Panic _ => False
  end.
Proof.
  intros [Rv Rs]. unfold send_puback_like. change (k_ver (ack_pkt g t V311 id None)) with V311. cbn [version_eqb andb]. rewrite Rs. cbn [negb].
  pose proof (send_and_post_x c (ack_pkt g t V311 id None) None) as K.
  destruct (send_and_post c _ None []) as [[c1 e]|]; [|exact K]. destruct K as (K1 & K2 & K3 & _ & F & K5 & K6 & K7).
  repeat (split; [assumption|]). assumption.
Qed.

(* the receiver: a QoS 1 PUBLISH *)
Lemma receiver_q1_x g c p : ready c -> c_auto_pub c = true -> v311_pub p 1 ->
  match deliver g c p with
  | Ok (c1, e) => notifies e = [p] /\ sends e = [ack_pkt g T_PUBACK V311 (k_pid p) None] /\ errors e = [] /\
                  ready c1 /\ c_auto_pub c1 = true /\ c_qos2 c1 = c_qos2 c
  | Panic _ => False
  end.
Proof.
  intros [Rv Rs] Ha (Ht & Hv & Hq). unfold deliver, dispatch_recv. rewrite Ht, Rv.
  change (T_PUBLISH =? 1) with false. change (T_PUBLISH =? 2) with false. change (T_PUBLISH =? 3) with true. cbn [version_eqb]. cbv iota.
  unfold recv_publish_v311. cbv zeta. rewrite Hq. change (1 =? 0) with false. change (1 =? 1) with true. cbv iota. rewrite Rs, Ha. cbn [andb].
  pose proof (auto_ack_x g c T_PUBACK (k_pid p) (conj Rv Rs)) as H.
  destruct (send_puback_like c _) as [[c1 e1]|]; cbn [bindr]; [|destruct H]. destruct H as (H1 & H2 & H3 & F & K1 & K2 & K3).
  pose proof (refresh_quiet c1) as Q. pose proof (refresh_keeps c1) as K. cbv zeta in Q, K.
  destruct (refresh_pingreq_recv c1) as [c2 e2]. cbn [fst snd] in *. destruct Q as (Q1 & Q2 & Q3 & _), K as (F' & K1' & K2' & K3').
  ev_simpl. rewrite H1, H2, H3, Q1, Q2, Q3. cbn. do 3 (split; [reflexivity|]).
  split; [apply (ready_f8 c2 c (f8_trans _ _ _ F' F)); [congruence|split; assumption]|]. split; congruence.
Qed.

(* the receiver: a first QoS 2 PUBLISH *)
Lemma receiver_q2_x g c p : ready c -> c_auto_pub c = true -> v311_pub p 2 -> mem (k_pid p) (c_qos2 c) = false ->
  match deliver g c p with
  | Ok (c1, e) => notifies e = [p] /\ sends e = [ack_pkt g T_PUBREC V311 (k_pid p) None] /\ errors e = [] /\
                  ready c1 /\ c_auto_pub c1 = true /\ c_qos2 c1 = ins (k_pid p) (c_qos2 c)
  | Panic _ => False
  end.
Proof.
  intros [Rv Rs] Ha (Ht & Hv & Hq) Hn. unfold deliver, dispatch_recv. rewrite Ht, Rv.
  change (T_PUBLISH =? 1) with false. change (T_PUBLISH =? 2) with false. change (T_PUBLISH =? 3) with true. cbn [version_eqb]. cbv iota.
  unfold recv_publish_v311. cbv zeta. rewrite Hq. change (2 =? 0) with false. change (2 =? 1) with false. cbv iota. rewrite Hn.
  set (c0 := set_qos2 c (ins (k_pid p) (c_qos2 c))).
  assert (R0 : ready c0) by (split; [exact Rv|exact Rs]).
  change (c_auto_pub c0) with (c_auto_pub c). rewrite Rs, Ha. cbn [andb orb].
  pose proof (auto_ack_x g c0 T_PUBREC (k_pid p) R0) as H.
  destruct (send_puback_like c0 _) as [[c1 e1]|]; cbn [bindr]; [|destruct H]. destruct H as (H1 & H2 & H3 & F & K1 & K2 & K3).
  pose proof (refresh_quiet c1) as Q. pose proof (refresh_keeps c1) as K. cbv zeta in Q, K.
  destruct (refresh_pingreq_recv c1) as [c2 e2]. cbn [fst snd] in *. destruct Q as (Q1 & Q2 & Q3 & _), K as (F' & K1' & K2' & K3').
  ev_simpl. rewrite H1, H2, H3, Q1, Q2, Q3. cbn. do 3 (split; [reflexivity|]).
  split; [apply (ready_f8 c2 c0 (f8_trans _ _ _ F' F)); [congruence|exact R0]|]. split; [rewrite K2', K2; exact Ha|].
  rewrite K3', K3. reflexivity.
Qed.

(* the receiver: the PUBREL *)
Lemma receiver_pubrel_x g c a : ready c -> c_auto_pub c = true -> k_type a = T_PUBREL ->
  match deliver g c a with
  | Ok (c1, e) => notifies e = [a] /\ sends e = [ack_pkt g T_PUBCOMP V311 (k_pid a) None] /\ errors e = [] /\
                  ready c1 /\ c_auto_pub c1 = true /\ c_qos2 c1 = del (k_pid a) (c_qos2 c)
  | Panic _ => False
  end.
Proof.
  intros [Rv Rs] Ha Ht. unfold deliver, dispatch_recv. rewrite Ht, Rv.
  change (T_PUBREL =? 1) with false. change (T_PUBREL =? 2) with false. change (T_PUBREL =? 3) with false.
  change ((T_PUBREL =? 4) || (T_PUBREL =? 5) || (T_PUBREL =? 7) || (T_PUBREL =? 9) || (T_PUBREL =? 11)) with false.
  change (T_PUBREL =? 6) with true. cbv iota. unfold recv_pubrel. cbv zeta.
  set (c0 := set_qos2 c (del (k_pid a) (c_qos2 c))).
  assert (R0 : ready c0) by (split; [exact Rv|exact Rs]).
  change (c_auto_pub c0) with (c_auto_pub c). change (c_status c0) with (c_status c). rewrite Rs, Ha. cbn [andb version_eqb].
  pose proof (auto_ack_x g c0 T_PUBCOMP (k_pid a) R0) as H.
  destruct (send_puback_like c0 _) as [[c1 e1]|]; cbn [bindr]; [|destruct H]. destruct H as (H1 & H2 & H3 & F & K1 & K2 & K3).
  pose proof (refresh_quiet c1) as Q. pose proof (refresh_keeps c1) as K. cbv zeta in Q, K.
  destruct (refresh_pingreq_recv c1) as [c2 e2]. cbn [fst snd] in *. destruct Q as (Q1 & Q2 & Q3 & _), K as (F' & K1' & K2' & K3').
  ev_simpl. rewrite H1, H2, H3, Q1, Q2, Q3. cbn. do 3 (split; [reflexivity|]).
  split; [apply (ready_f8 c2 c0 (f8_trans _ _ _ F' F)); [congruence|exact R0]|]. split; [rewrite K2', K2; exact Ha|].
  rewrite K3', K3. reflexivity.
Qed.

Lemma post_then_refresh_x cx p rel a :
  match bindr (send_and_post cx p rel []) (fun '(c, e1) => let '(c0, e2) := refresh_pingreq_recv c in Ok (c0, e1 ++ e2 ++ [ENotify a])) with
  | Ok (c2, e) => sends e = [p] /\ errors e = [] /\ released e = [] /\ F8 c2 cx /\ c_status c2 = c_status cx /\ c_auto_pub c2 = c_auto_pub cx
  | Panic _ => False
  end.
Proof.
  pose proof (send_and_post_x cx p rel) as K. destruct (send_and_post cx p rel []) as [[c1 e1]|]; cbn [bindr]; [|exact K].
  destruct K as (K1 & K2 & K3 & K4 & F & K5 & K6 & _).
  pose proof (refresh_keeps c1) as K'. pose proof (refresh_quiet c1) as Q. cbv zeta in K', Q. destruct (refresh_pingreq_recv c1) as [c2 e2]. cbn [fst snd] in *.
  destruct K' as (F' & K1' & K2' & _), Q as (Q1 & Q2 & Q3 & Q4).
  ev_simpl. rewrite K1, K3, K4, Q2, Q3, Q4. cbn. do 3 (split; [reflexivity|]). split; [exact (f8_trans _ _ _ F' F)|]. split; congruence.
Qed.

(* the sender: the PUBREC *)
Lemma sender_pubrec_x g c a : OWN g c -> ready c -> c_auto_pub c = true -> k_ver a = V311 -> k_type a = T_PUBREC ->
  mem (k_pid a) (c_pubrec c) = true -> is_used c (k_pid a) = true ->
  match deliver g c a with
  | Ok (c2, e) => sends e = [ack_pkt g T_PUBREL V311 (k_pid a) None] /\ errors e = [] /\ released e = [] /\
                  OWN g c2 /\ ready c2 /\ c_auto_pub c2 = true /\
                  is_used c2 (k_pid a) = true /\ mem (k_pid a) (c_pubcomp c2) = true
  | Panic _ => False
  end.
Proof.
  intros HO [Rv Rs] Ha Hva Hta Hm Hu.
  pose proof (recv_ack_OR g c T_PUBREC (PROk a) HO) as HOR.
  unfold deliver, dispatch_recv. rewrite Hta, Rv in *.
  change (T_PUBREC =? 1) with false. change (T_PUBREC =? 2) with false. change (T_PUBREC =? 3) with false.
  change ((T_PUBREC =? 4) || (T_PUBREC =? 5) || (T_PUBREC =? 7) || (T_PUBREC =? 9) || (T_PUBREC =? 11)) with true. cbv iota.
  unfold recv_ack in *. cbv zeta in *. change (T_PUBREC =? T_PUBACK) with false in *. change (T_PUBREC =? T_PUBREC) with true in *.
  cbv iota in *. rewrite Hm in *. cbn [version_eqb negb orb] in *.
  destruct (ack_PB_own g c (k_pid a) HO Hm) as (O1 & [Hc Hs] & _). cbv zeta in *. rewrite Rv in *.
  set (c1 := store_erase _ V311 T_PUBREC (k_pid a)) in *.
  assert (A1 : c_auto_pub c1 = true) by exact Ha.
  assert (A2 : c_status c1 = c_status c) by reflexivity.
  assert (A3 : is_used c1 (k_pid a) = true) by exact Hu.
  rewrite A1, A2, Rs in *. cbn [andb] in *.
  unfold send_pubrel in *. cbv zeta in *.
  change (k_ver (ack_pkt g T_PUBREL V311 (k_pid a) None)) with V311 in *. change (k_pid (ack_pkt g T_PUBREL V311 (k_pid a) None)) with (k_pid a) in *.
  cbn [version_eqb andb] in *. rewrite A2, Rs, A3 in *. cbn [negb andb] in *.
  assert (Hfin : forall cx, c_pid cx = c_pid c1 -> c_status cx = c_status c -> c_version cx = V311 -> c_auto_pub cx = true ->
     mem (k_pid a) (c_pubcomp cx) = true ->
     forall r, r = bindr (send_and_post cx (ack_pkt g T_PUBREL V311 (k_pid a) None) None [])
                     (fun '(c0, e1) => let '(c2, e2) := refresh_pingreq_recv c0 in Ok (c2, e1 ++ e2 ++ [ENotify a])) ->
     OR g c r ->
     match r with
     | Ok (c2, e) => sends e = [ack_pkt g T_PUBREL V311 (k_pid a) None] /\ errors e = [] /\ released e = [] /\
                     OWN g c2 /\ ready c2 /\ c_auto_pub c2 = true /\
                     is_used c2 (k_pid a) = true /\ mem (k_pid a) (c_pubcomp c2) = true
     | Panic _ => False end).
  { intros cx Hp Hst Hvx Hax Hmx r Er Hor. pose proof (post_then_refresh_x cx (ack_pkt g T_PUBREL V311 (k_pid a) None) None a) as K.
    rewrite <- Er in K. clear Er. destruct r as [[c2 e]|]; [|exact K]. destruct K as (K1 & K2 & K3 & F & K4 & K5). destruct Hor as [O2 _].
    do 3 (split; [assumption|]). split; [exact O2|]. destruct F as (F1 & _ & _ & _ & F5 & _ & _ & F8v).
    split; [split; [congruence|rewrite K4, Hst; exact Rs]|]. split; [congruence|]. split; [unfold is_used in *; rewrite F1, Hp; exact A3|now rewrite F5]. }
  destruct (c_need_store c1) eqn:En.
  - unfold store_add in *. change (k_pid (ack_pkt g T_PUBREL V311 (k_pid a) None)) with (k_pid a) in *. rewrite Hs in *. cbn [bindr] in HOR |- *.
    conn_simpl. rewrite A2, Rs in *.
    eapply Hfin; [..|reflexivity|exact HOR]; try reflexivity; try exact Rv; try exact Ha; conn_simpl_goal; unfold mem, ins; rewrite s_mem_insert, N.eqb_refl; reflexivity.
  - cbn [bindr] in HOR |- *. conn_simpl. rewrite A2, Rs in *.
    eapply Hfin; [..|reflexivity|exact HOR]; try reflexivity; try exact Rv; try exact Ha; conn_simpl_goal; unfold mem, ins; rewrite s_mem_insert, N.eqb_refl; reflexivity.
Qed.

(* the sender: the final acknowledgement *)
Lemma sender_final_ack_x g c a (r : N) : OWN g c -> ready c -> k_ver a = V311 -> k_type a = r -> (r = T_PUBACK \/ r = T_PUBCOMP) ->
  mem (k_pid a) (if r =? T_PUBACK then c_puback c else c_pubcomp c) = true -> is_used c (k_pid a) = true ->
  match deliver g c a with
  | Ok (c2, e) => released e = [k_pid a] /\ sends e = [] /\ errors e = [] /\
                  OWN g c2 /\ ready c2 /\ c_auto_pub c2 = c_auto_pub c /\ is_used c2 (k_pid a) = false /\ fresh c2 (k_pid a)
  | Panic _ => False
  end.
Proof.
  intros HO [Rv Rs] Hva Hta Hr Hm Hu.
  pose proof (dispatch_recv_OR g c (k_type a) (PROk a) HO) as HOR.
  unfold deliver in *. unfold dispatch_recv in *. rewrite Hta, Rv in *.
  assert (Hfin : forall c1, OWN g c1 -> fresh c1 (k_pid a) -> is_used c1 (k_pid a) = true -> c_status c1 = c_status c -> c_auto_pub c1 = c_auto_pub c ->
            c_version c1 = V311 ->
            forall res, res = bindr (release_if_used c1 (k_pid a)) (fun '(c0, e1) => let '(c3, e2) := refresh_pingreq_recv c0 in Ok (c3, e1 ++ e2 ++ [ENotify a])) ->
            OR g c res ->
            match res with
            | Ok (c2, e) => released e = [k_pid a] /\ sends e = [] /\ errors e = [] /\
                            OWN g c2 /\ ready c2 /\ c_auto_pub c2 = c_auto_pub c /\ is_used c2 (k_pid a) = false /\ fresh c2 (k_pid a)
            | Panic _ => False end).
  { intros c1 O1 Hfr U1 Hst Hau Hv1 res Eres Hor. subst res. revert Hor. unfold release_if_used. rewrite U1. unfold is_used, pm_is_used in U1.
    destruct (release_ok g _ _ (o_wf _ _ _ _ _ _ _ _ _ O1) U1) as (a' & Er & _). rewrite Er. cbn [bindr].
    destruct (release_used_spec g _ _ a' (o_wf _ _ _ _ _ _ _ _ _ O1) U1 Er) as [_ Hrel].
    pose proof (refresh_keeps (set_pid c1 a')) as K. pose proof (refresh_quiet (set_pid c1 a')) as Q. cbv zeta in K, Q.
    destruct (refresh_pingreq_recv (set_pid c1 a')) as [c3 e2]. cbn [fst snd] in K, Q.
    destruct K as ((F1 & F2 & F3 & F4 & F5 & F6 & F7 & F8v) & K1 & K2 & _), Q as (_ & Q2 & Q3 & Q4). conn_simpl.
    intros [O3 _]. ev_simpl. rewrite Q2, Q3, Q4. cbn. do 3 (split; [reflexivity|]). split; [exact O3|].
    split; [split; [congruence|rewrite K1, Hst; exact Rs]|]. split; [congruence|].
    split; [unfold is_used, pm_is_used; rewrite F1, Hrel, N.eqb_refl; apply andb_false_r|].
    destruct Hfr as [Hc Hs]. unfold fresh. rewrite F2, F3, F4, F5, F6, F7. split; assumption. }
  destruct Hr as [-> | ->].
  - change (T_PUBACK =? 1) with false in *. change (T_PUBACK =? 2) with false in *. change (T_PUBACK =? 3) with false in *.
    change ((T_PUBACK =? 4) || (T_PUBACK =? 5) || (T_PUBACK =? 7) || (T_PUBACK =? 9) || (T_PUBACK =? 11)) with true in *. cbv iota in *.
    unfold recv_ack in *. cbv zeta in *. change (T_PUBACK =? T_PUBACK) with true in *. cbv iota in *. rewrite Hm in *. cbn [version_eqb] in *.
    destruct (ack_PA_own g c (k_pid a) HO Hm) as (O1 & Fr & _). cbv zeta in O1, Fr. rewrite Rv in O1, Fr.
    eapply (Hfin _ O1 Fr); [unfold is_used, store_erase in *; conn_simpl_goal; exact Hu|reflexivity|reflexivity|exact Rv|reflexivity|exact HOR].
  - change (T_PUBCOMP =? 1) with false in *. change (T_PUBCOMP =? 2) with false in *. change (T_PUBCOMP =? 3) with false in *.
    change ((T_PUBCOMP =? 4) || (T_PUBCOMP =? 5) || (T_PUBCOMP =? 7) || (T_PUBCOMP =? 9) || (T_PUBCOMP =? 11)) with true in *. cbv iota in *.
    unfold recv_ack in *. cbv zeta in *. change (T_PUBCOMP =? T_PUBACK) with false in *. change (T_PUBCOMP =? T_PUBREC) with false in *.
    change (T_PUBCOMP =? T_PUBCOMP) with true in *.
    cbv iota in *. rewrite Hm in *. cbn [version_eqb] in *.
    destruct (ack_PC_own g c (k_pid a) HO Hm) as (O1 & Fr & _). cbv zeta in O1, Fr. rewrite Rv in O1, Fr.
    eapply (Hfin _ O1 Fr); [unfold is_used, store_erase in *; conn_simpl_goal; exact Hu|reflexivity|reflexivity|exact Rv|reflexivity|exact HOR].
Qed.

(* the application registers a free identifier that nothing awaits *)
Lemma register_x g c id : OWN g c -> 1 <= id <= g_idmax g -> is_used c id = false -> fresh c id ->
  exists c0, step g c (ORegister id) = Ok (c0, [], [1]) /\ OWN g c0 /\ is_used c0 id = true /\ fresh c0 id /\
             c_status c0 = c_status c /\ c_version c0 = c_version c /\ c_auto_pub c0 = c_auto_pub c.
Proof.
  intros HO Hr Hu Hf. pose proof (o_wf _ _ _ _ _ _ _ _ _ HO) as W. change (WFa g (c_pid c)) with (WFpid g c) in W.
  pose proof (register_spec g c id W) as H. pose proof (register_own g c id HO) as HO'.
  assert (Hfree : free_in c id = true).
  { rewrite (is_used_spec g c id W) in Hu. destruct (free_in c id); [reflexivity|].
    assert ((1 <=? id) = true) by (apply N.leb_le; lia). assert ((id <=? g_idmax g) = true) by (apply N.leb_le; lia).
    rewrite H0, H1 in Hu. discriminate. }
  cbn [step] in H |- *. destruct (pm_register (c_pid c) id) as [b a]. cbn [snd] in HO'. destruct H as (_ & Hb & Hfr & W').
  rewrite Hfree in Hb. destruct b; cbn [b2n n2b] in Hb |- *; [|discriminate Hb].
  eexists. split; [reflexivity|]. split; [exact HO'|]. split.
  - rewrite (is_used_spec g _ id W'), Hfr, N.eqb_refl, andb_false_r. cbn [negb].
    assert (E1 : (1 <=? id) = true) by (apply N.leb_le; lia). assert (E2 : (id <=? g_idmax g) = true) by (apply N.leb_le; lia).
    rewrite E1, E2. reflexivity.
  - split; [exact Hf|]. repeat split.
Qed.

(* ---- the executable run ---- *)
Section Seq.
Variables gs gr : cfg.

Inductive outcome := Done (cs cr : conn) (delivered : list pkt) | AppPre | Fail.

Definition freshb (c : conn) (id : N) : bool :=
  (cnt id (c_puback c) (c_pubrec c) (c_pubcomp c) (c_suback c) (c_unsuback c) =? 0) && negb (store_has id (c_store c)).
Lemma freshb_spec c id : freshb c id = true -> fresh c id.
Proof. unfold freshb, fresh. intro H. apply andb_true_iff in H as [H1 H2]. apply N.eqb_eq in H1. apply negb_true_iff in H2. split; assumption. Qed.

Definition one {A} (l : list A) : option A := match l with [x] => Some x | _ => None end.
Definition none {A} (l : list A) : bool := match l with [] => true | _ => false end.

(* the last step of an exchange: the final acknowledgement goes back to the sender, which must release the identifier *)
Definition final (cs cr : conn) (a : pkt) (id : N) (n : pkt) : outcome :=
  match deliver gs cs a with
  | Ok (cs', e) => if none (sends e) && none (errors e) && (match released e with [i] => i =? id | _ => false end)
                   then Done cs' cr [n] else Fail
  | Panic _ => Fail
  end.

(* one message: the application registers the identifier and publishes; every packet one side requests is handed to
   the other; AppPre = the application's own precondition does not hold (identifier out of range, in use, awaited, or
   still held as handled by the receiver); Fail = anything else that is not the protocol's happy path *)
Definition exchange (cs cr : conn) (p : pkt) : outcome :=
  let id := k_pid p in
  if negb ((1 <=? id) && (id <=? g_idmax gs) && negb (is_used cs id) && freshb cs id && negb (mem id (c_qos2 cr))) then AppPre else
  match step gs cs (ORegister id) with
  | Ok (cs0, [], [1]) =>
    match step gs cs0 (OSend p) with
    | Ok (cs1, e1, _) =>
      match one (sends e1) with
      | Some p1 =>
        if negb (none (notifies e1) && none (errors e1)) then Fail else
        match deliver gr cr p1 with
        | Ok (cr1, e2) =>
          match one (sends e2), one (notifies e2) with
          | Some a1, Some n1 =>
            if negb (none (errors e2)) then Fail else
            if k_qos p =? 1 then final cs1 cr1 a1 id n1
            else
              match deliver gs cs1 a1 with
              | Ok (cs2, e3) =>
                match one (sends e3) with
                | Some r1 =>
                  if negb (none (errors e3) && none (released e3)) then Fail else
                  match deliver gr cr1 r1 with
                  | Ok (cr2, e4) =>
                    match one (sends e4) with
                    | Some c1 =>
                      if negb (none (errors e4) && none (filter (fun x => k_type x =? T_PUBLISH) (notifies e4))) then Fail
                      else final cs2 cr2 c1 id n1
                    | None => Fail
                    end
                  | Panic _ => Fail
                  end
                | None => Fail
                end
              | Panic _ => Fail
              end
          | _, _ => Fail
          end
        | Panic _ => Fail
        end
      | None => Fail
      end
    | Panic _ => Fail
    end
  | _ => Fail
  end.

Fixpoint run_seq (cs cr : conn) (ps : list pkt) : outcome :=
  match ps with
  | [] => Done cs cr []
  | p :: t =>
    match exchange cs cr p with
    | Done cs' cr' d => match run_seq cs' cr' t with Done cs'' cr'' d' => Done cs'' cr'' (d ++ d') | o => o end
    | o => o
    end
  end.

(* the pair invariant *)
Definition pair_inv (cs cr : conn) : Prop :=
  OWN gs cs /\ ready cs /\ c_auto_pub cs = true /\ ready cr /\ c_auto_pub cr = true /\ asc 1 (g_idmax gs) (c_qos2 cr).

Lemma final_ok cs cr a (r : N) n : OWN gs cs -> ready cs -> c_auto_pub cs = true -> k_ver a = V311 -> k_type a = r -> (r = T_PUBACK \/ r = T_PUBCOMP) ->
  mem (k_pid a) (if r =? T_PUBACK then c_puback cs else c_pubcomp cs) = true -> is_used cs (k_pid a) = true ->
  exists cs', final cs cr a (k_pid a) n = Done cs' cr [n] /\ OWN gs cs' /\ ready cs' /\ c_auto_pub cs' = true.
Proof.
  intros HO Rs Ha Hv Ht Hr Hm Hu. pose proof (sender_final_ack_x gs cs a r HO Rs Hv Ht Hr Hm Hu) as H. unfold final.
  destruct (deliver gs cs a) as [[cs' e]|]; [|destruct H]. destruct H as (H1 & H2 & H3 & O' & R' & A' & _).
  rewrite H1, H2, H3, N.eqb_refl. cbn. exists cs'. split; [reflexivity|]. split; [exact O'|]. split; [exact R'|congruence].
Qed.

Theorem exchange_ok cs cr p q : pair_inv cs cr -> v311_pub p q -> q = 1 \/ q = 2 ->
  match exchange cs cr p with
  | Done cs' cr' d => d = [p] /\ pair_inv cs' cr'
  | AppPre => True
  | Fail => False
  end.
Proof.
  intros (HO & Rs & Has & Rr & Har & Hasc) Hp Hq. unfold exchange. cbv zeta.
  destruct (negb _) eqn:Epre; [exact I|]. apply negb_false_iff in Epre.
  apply andb_true_iff in Epre as [Epre E5]. apply andb_true_iff in Epre as [Epre E4]. apply andb_true_iff in Epre as [Epre E3].
  apply andb_true_iff in Epre as [E1 E2]. apply N.leb_le in E1, E2. apply negb_true_iff in E3, E5. apply freshb_spec in E4.
  destruct (register_x gs cs (k_pid p) HO (conj E1 E2) E3 E4) as (cs0 & Ereg & O0 & U0 & F0 & St0 & V0 & A0). rewrite Ereg.
  assert (R0 : ready cs0) by (destruct Rs as [R1 R2]; split; [congruence|now rewrite St0]).
  rewrite (step_send_publish_v311 gs cs0 p q (proj1 R0) Hp).
  pose proof (sender_sends_x gs cs0 p q O0 R0 Hp ltac:(lia) F0 U0) as H1.
  destruct (send_publish_v311 cs0 p) as [[cs1 e1]|]; cbn [bindr]; [|destruct H1].
  destruct H1 as (S1 & N1 & X1 & O1 & R1 & U1 & A1 & M1). rewrite S1, N1, X1. cbn [one none andb negb].
  rewrite A0, Has in A1. destruct Hp as (Ht & Hv & Hqq).
  destruct Hq as [-> | ->].
  - (* QoS 1 *)
    pose proof (receiver_q1_x gr cr p Rr Har (conj Ht (conj Hv Hqq))) as H2.
    destruct (deliver gr cr p) as [[cr1 e2]|]; [|destruct H2]. destruct H2 as (N2 & S2 & X2 & Rr1 & Ar1 & Q1).
    rewrite S2, N2, X2. cbn [one none negb]. rewrite Hqq. change (1 =? 1) with true. cbv iota.
    change (1 =? 2) with false in M1. cbv iota in M1.
    destruct (final_ok cs1 cr1 (ack_pkt gr T_PUBACK V311 (k_pid p) None) T_PUBACK p O1 R1 A1 eq_refl eq_refl (or_introl eq_refl) M1 U1)
      as (cs2 & Ef & O2 & R2 & A2).
    change (k_pid (ack_pkt gr T_PUBACK V311 (k_pid p) None)) with (k_pid p) in Ef. rewrite Ef.
    split; [reflexivity|]. split; [exact O2|]. split; [exact R2|]. split; [exact A2|]. split; [exact Rr1|]. split; [exact Ar1|]. rewrite Q1. exact Hasc.
  - (* QoS 2 *)
    pose proof (receiver_q2_x gr cr p Rr Har (conj Ht (conj Hv Hqq)) E5) as H2.
    destruct (deliver gr cr p) as [[cr1 e2]|]; [|destruct H2]. destruct H2 as (N2 & S2 & X2 & Rr1 & Ar1 & Q1).
    rewrite S2, N2, X2. cbn [one none negb]. rewrite Hqq. change (2 =? 1) with false. cbv iota.
    change (2 =? 2) with true in M1. cbv iota in M1.
    pose proof (sender_pubrec_x gs cs1 (ack_pkt gr T_PUBREC V311 (k_pid p) None) O1 R1 A1 eq_refl eq_refl M1 U1) as H3.
    change (k_pid (ack_pkt gr T_PUBREC V311 (k_pid p) None)) with (k_pid p) in H3.
    destruct (deliver gs cs1 _) as [[cs2 e3]|]; [|destruct H3]. destruct H3 as (S3 & X3 & L3 & O2 & R2 & A2 & U2 & M2).
    rewrite S3, X3, L3. cbn [one none andb negb].
    pose proof (receiver_pubrel_x gr cr1 (ack_pkt gs T_PUBREL V311 (k_pid p) None) Rr1 Ar1 eq_refl) as H4.
    change (k_pid (ack_pkt gs T_PUBREL V311 (k_pid p) None)) with (k_pid p) in H4.
    destruct (deliver gr cr1 _) as [[cr2 e4]|]; [|destruct H4]. destruct H4 as (N4 & S4 & X4 & Rr2 & Ar2 & Q2).
    rewrite S4, X4, N4. cbn [one none andb negb filter]. change (k_type (ack_pkt gs T_PUBREL V311 (k_pid p) None) =? T_PUBLISH) with false. cbn [none negb].
    destruct (final_ok cs2 cr2 (ack_pkt gr T_PUBCOMP V311 (k_pid p) None) T_PUBCOMP p O2 R2 A2 eq_refl eq_refl (or_intror eq_refl) M2 U2)
      as (cs3 & Ef & O3 & R3 & A3).
    change (k_pid (ack_pkt gr T_PUBCOMP V311 (k_pid p) None)) with (k_pid p) in Ef. rewrite Ef.
    split; [reflexivity|]. split; [exact O3|]. split; [exact R3|]. split; [exact A3|]. split; [exact Rr2|]. split; [exact Ar2|]. rewrite Q2, Q1.
    unfold del, ins. apply asc_remove. apply asc_insert; assumption.
Qed.

(* any number of messages in sequence: delivered exactly once each, in order *)
Theorem run_seq_ok : forall ps cs cr, pair_inv cs cr -> Forall (fun p => v311_pub p 1 \/ v311_pub p 2) ps ->
  match run_seq cs cr ps with
  | Done cs' cr' d => d = ps /\ pair_inv cs' cr'
  | AppPre => True
  | Fail => False
  end.
Proof.
  induction ps as [|p t IH]; intros cs cr Hi Hf; cbn [run_seq]; [split; [reflexivity|exact Hi]|].
  inversion Hf as [|? ? Hp Ht]; subst.
  assert (He : match exchange cs cr p with Done cs' cr' d => d = [p] /\ pair_inv cs' cr' | AppPre => True | Fail => False end).
  { destruct Hp as [Hp|Hp]; [apply (exchange_ok cs cr p 1 Hi Hp); now left|apply (exchange_ok cs cr p 2 Hi Hp); now right]. }
  destruct (exchange cs cr p) as [cs' cr' d| |]; [|exact I|exact He]. destruct He as [-> Hi'].
  specialize (IH cs' cr' Hi' Ht). destruct (run_seq cs' cr' t) as [cs'' cr'' d'| |]; [|exact I|exact IH].
  destruct IH as [-> Hi'']. split; [reflexivity|exact Hi''].
Qed.
End Seq.
