(* C05, model side: none of the model's Panic outcomes — they mark core.rs's unwrap / assert / unreachable
   sites — is reachable from a state with the ownership invariant OWN and the alias-table bounds TAS, for a
   determined protocol version, under the application's and the parser's side of the contract. *)
From MQ Require Import Base.Prelude Alloc.Alloc Alloc.SetSpec Alloc.AllocProofs Framing.Framing
                       Conn.Types Conn.TopicAlias Conn.ConnRecord Conn.Step Conn.Run Corr.ConnTrace Conn.Scope Conn.IdsQuota Conn.WfInv
                       Conn.Own Conn.OwnFrame Conn.OwnStep Conn.TasBounds.

Definition NPR {A : Type} (r : res A) : Prop := match r with Ok _ => True | Panic _ => False end.

(* ---- leaves ---- *)
Lemma release_ok g a id : WFa g a -> a_is_used a id = true -> exists a', pm_release a id = Ok a' /\ WFa g a'.
Proof.
  intros HW Hu. pose proof HW as (HWF & E1 & E2 & E3).
  pose proof (used_range g a id HW Hu) as Hrg. unfold a_is_used in Hu. rewrite E1, E2 in Hu.
  apply andb_true_iff in Hu as [_ Hf]. apply negb_true_iff in Hf.
  destruct (deallocate_spec a id HWF) as (a1 & HD & HWF' & F1 & F2 & F3 & _); [lia|lia|exact Hf|].
  exists a1. split; [exact HD|]. split; [exact HWF'|repeat split; congruence].
Qed.

(* a guarded release: Ok, the allocator stays well formed, nothing else changes *)
Lemma release_if_used_ok g c id : WFa g (c_pid c) ->
  exists c1 e, release_if_used c id = Ok (c1, e) /\ WFa g (c_pid c1) /\ F8 (set_pid c1 (c_pid c)) c /\ c_ta_send c1 = c_ta_send c.
Proof.
  intro HW. unfold release_if_used, is_used, pm_is_used. destruct (a_is_used (c_pid c) id) eqn:Eu.
  - destruct (release_ok g _ id HW Eu) as (a' & Hr & HW'). rewrite Hr. cbn [bindr]. exists (set_pid c a'), [EReleased id].
    split; [reflexivity|]. split; [exact HW'|]. split; [unfold F8; conn_simpl; repeat split|reflexivity].
  - exists c, []. split; [reflexivity|]. split; [exact HW|]. split; [destruct c; unfold F8; conn_simpl; repeat split|reflexivity].
Qed.

Lemma drain_release_ok g ids : forall a, WFa g a -> exists a' e, drain_release a ids = Ok (a', e) /\ WFa g a'.
Proof.
  induction ids as [|i t IH]; intros a HW; cbn [drain_release]; [exists a, []; split; [reflexivity|exact HW]|].
  unfold pm_is_used. destruct (a_is_used a i) eqn:Eu; [|apply IH; exact HW].
  destruct (release_ok g a i HW Eu) as (a1 & Hr & HW1). rewrite Hr. cbn [bindr].
  destruct (IH a1 HW1) as (a2 & e2 & Hd & HW2). rewrite Hd. cbn [bindr]. exists a2, (EReleased i :: e2). split; [reflexivity|exact HW2].
Qed.

Lemma release_all_ok g SA UA V D : forall a S PA PB PC,
  own8 g a S PA PB PC SA UA V -> (forall q, In q D -> In q S) -> NoDup (sids D) ->
  exists a', release_all a (sids D) = Ok a'.
Proof.
  induction D as [|d D IH]; intros a S PA PB PC HO HDS HD; cbn [sids map release_all]; [now exists a|].
  pose proof (o_used _ _ _ _ _ _ _ _ _ HO d (HDS d (or_introl eq_refl))) as Hu.
  destruct (release_ok g a (k_pid d) (o_wf _ _ _ _ _ _ _ _ _ HO) Hu) as (a1 & Hr & _). rewrite Hr. cbn [bindr].
  cbn [sids map] in HD. inversion HD as [|x xs Hn HD']; subst.
  apply (IH a1 _ _ _ _ (own_drop1 g _ _ _ _ _ _ _ _ (k_pid d) a1 HO Hu Hr)); [|exact HD'].
  intros q Hq. apply filter_In. split; [apply HDS; now right|]. apply negb_true_iff, N.eqb_neq. intro E. apply Hn. rewrite <- E. now apply sids_in.
Qed.

Lemma tas_insert_ok s t a : t <> [] -> 1 <= a <= ts_max s -> exists s', tas_insert s t a = Ok s'.
Proof.
  intros Ht [H1 H2]. unfold tas_insert.
  assert (E : (match t with [] => true | _ => false end || (a <? 1) || (ts_max s <? a)) = false).
  { destruct t; [contradiction|]. cbn [orb]. apply orb_false_iff. split; apply N.ltb_ge; lia. }
  rewrite E. destruct (a_use_value (ts_va s) a) as [b va']. destruct (if b then _ else _) as [x y]. eexists. reflexivity.
Qed.
Lemma tas_lru_ok s : TB s -> exists a, tas_lru s = Ok a /\ 1 <= a <= ts_max s.
Proof.
  intros (B1 & B2 & B3 & (W1 & W2 & W3) & B5). unfold tas_lru.
  assert (E : (ts_max s =? 0) = false) by (apply N.eqb_neq; lia). rewrite E. unfold a_first_vacant.
  destruct (a_pool (ts_va s)) as [|[l h] r] eqn:Ep.
  - destruct (ts_a2t s) as [|[a t] r] eqn:Ea; [exists 1; split; [reflexivity|lia]|]. exists a. split; [reflexivity|]. apply (B5 a t). now left.
  - exists l. split; [reflexivity|]. cbn [wfp fst snd] in W3. lia.
Qed.
Lemma tar_insert_ok r t a : t <> [] -> 1 <= a <= tr_max r -> exists r', tar_insert r t a = Ok r'.
Proof.
  intros Ht [H1 H2]. unfold tar_insert.
  assert (E : (match t with [] => true | _ => false end || (a <? 1) || (tr_max r <? a)) = false).
  { destruct t; [contradiction|]. cbn [orb]. apply orb_false_iff. split; apply N.ltb_ge; lia. }
  rewrite E. eexists. reflexivity.
Qed.
Lemma tas_new_ok m : 1 <= m -> exists s, tas_new m = Ok s.
Proof. intro H. unfold tas_new, a_new. assert (E : (1 <=? m) = true) by (apply N.leb_le; exact H). rewrite E. cbn [bindr]. eexists. reflexivity. Qed.

(* ---- the state a call starts from ---- *)
Definition NPS (g : cfg) (c : conn) : Prop := WFa g (c_pid c) /\ TAS c.
Lemma nps_frame g a b : c_pid b = c_pid a -> c_ta_send b = c_ta_send a -> NPS g a -> NPS g b.
Proof. unfold NPS, TAS. intros -> ->. auto. Qed.

Lemma post_np c : exists c1 e, send_post_process c = (c1, e).
Proof. destruct (send_post_process c) as [c1 e]. now exists c1, e. Qed.
Lemma send_and_post_NPR c p rel pre : NPR (send_and_post c p rel pre).
Proof. unfold send_and_post. destruct (send_post_process c). exact I. Qed.

(* functions without a panicking leaf: every path ends in Ok *)
Ltac np_plain :=
  cbv zeta;
  repeat first
    [ progress cbn [bindr NPR]
    | match goal with
      | |- NPR (Ok _) => exact I
      | |- True => exact I
      | |- NPR (send_and_post _ _ _ _) => apply send_and_post_NPR
      | |- NPR (if ?b then _ else _) => destruct b
      | |- NPR (bindr (if ?b then _ else _) _) => destruct b
      | |- NPR (match ?y with Some _ => _ | None => _ end) => destruct y
      | |- NPR (let '(_, _) := ?x in _) => destruct x
      | |- NPR (bindr (let '(_, _) := ?x in _) _) => destruct x
      end ].

Lemma send_plain_NPR c p : NPR (send_plain c p). Proof. unfold send_plain. np_plain. Qed.
Lemma send_pingreq_NPR c p : NPR (send_pingreq c p). Proof. unfold send_pingreq. np_plain. Qed.
Lemma send_disconnect_NPR c p : NPR (send_disconnect c p). Proof. unfold send_disconnect. np_plain. Qed.
Lemma send_auth_NPR c p : NPR (send_auth c p). Proof. unfold send_auth. np_plain. Qed.
Lemma send_puback_like_NPR c p : NPR (send_puback_like c p). Proof. unfold send_puback_like. np_plain. Qed.
Lemma send_connect_NPR c p : NPR (send_connect c p). Proof. unfold send_connect. np_plain. Qed.
Lemma close_with_disconnect_NPR c p : NPR (close_with_disconnect c p).
Proof. unfold close_with_disconnect. destruct (_ && _); [np_plain|apply send_disconnect_NPR]. Qed.
Lemma handle_v5_error_NPR c e : NPR (handle_v5_error c e).
Proof.
  unfold handle_v5_error. pose proof (close_with_disconnect_NPR c (disconnect_v5 (disc_rc_of_err e))) as H.
  destruct (close_with_disconnect _ _) as [[c1 ev]|]; [exact I|exact H].
Qed.
Lemma handle_error_NPR c v e : NPR (handle_error c v e).
Proof. unfold handle_error. destruct (version_eqb v V50); [apply handle_v5_error_NPR|exact I]. Qed.

(* ---- calls with a panicking leaf ---- *)
Section NP.
Variable g : cfg.

Ltac np_rel HW :=
  match goal with
  | |- NPR (bindr (release_if_used ?x ?id) _) =>
      let c1 := fresh "c1" in let e1 := fresh "e1" in let Er := fresh "Er" in
      destruct (release_if_used_ok g x id ltac:(conn_simpl_goal; exact HW)) as (c1 & e1 & Er & _); rewrite Er; cbn [bindr NPR]
  | |- NPR (release_if_used ?x ?id) =>
      let c1 := fresh "c1" in let e1 := fresh "e1" in let Er := fresh "Er" in
      destruct (release_if_used_ok g x id ltac:(conn_simpl_goal; exact HW)) as (c1 & e1 & Er & _); rewrite Er; cbn [NPR]
  end.

Lemma send_sub_unsub_NPR c p : WFa g (c_pid c) -> NPR (send_sub_unsub c p).
Proof.
  intro HW. unfold send_sub_unsub. cbv zeta.
  destruct (_ && _); [np_rel HW; exact I|]. destruct (negb _); [np_rel HW; exact I|]. np_plain.
Qed.

Lemma send_pubrel_NPR c p : (c_need_store c = true -> store_has (k_pid p) (c_store c) = false) -> NPR (send_pubrel c p).
Proof.
  intro Hs. unfold send_pubrel. cbv zeta.
  destruct (_ && _); [exact I|]. destruct (_ && _); [exact I|]. destruct (negb _); [exact I|].
  destruct (c_need_store c); [unfold store_add; rewrite (Hs eq_refl)|]; np_plain.
Qed.

Lemma send_publish_v311_NPR c p : WFa g (c_pid c) -> (k_qos p =? 0 = false -> store_has (k_pid p) (c_store c) = false) -> NPR (send_publish_v311 c p).
Proof.
  intros HW Hs. unfold send_publish_v311. cbv zeta.
  destruct (k_qos p =? 0); cbn [negb]; [np_plain|]. specialize (Hs eq_refl).
  destruct (_ && _); [np_rel HW; exact I|]. destruct (negb _); [exact I|].
  destruct (can_store_now c); [unfold store_add; change (k_pid (set_dup p true)) with (k_pid p); rewrite Hs|]; np_plain.
Qed.

Lemma refuse_publish_NPR c id err pre : WFa g (c_pid c) -> NPR (refuse_publish c id err pre).
Proof.
  intro HW. unfold refuse_publish. destruct (negb (id =? 0) && is_used c id) eqn:E; [|exact I].
  apply andb_true_iff in E as [_ Eu]. destruct (release_ok g _ id HW Eu) as (a' & Hr & _). rewrite Hr. exact I.
Qed.

Lemma validate_range c a s : c_ta_send c = Some s -> validate_topic_alias_range c a = true -> 1 <= a <= ts_max s.
Proof.
  intros Es. unfold validate_topic_alias_range. rewrite Es. intro H. apply negb_true_iff, orb_false_iff in H as [H1 H2].
  apply N.eqb_neq in H1. apply N.ltb_ge in H2. lia.
Qed.
Lemma topic_nonempty p : topic_empty p = false -> k_topic p <> [].
Proof. unfold topic_empty. destruct (k_topic p); [discriminate|discriminate]. Qed.

Lemma send_publish_v5_NPR c p : NPS g c ->
  (k_qos p =? 0 = false -> store_has (k_pid p) (c_store c) = false) -> NPR (send_publish_v5 g c p).
Proof.
  intros [HW HT] Hs. unfold send_publish_v5. cbv zeta.
  destruct (negb (size_ok c p)).
  { destruct (negb _); [np_rel HW; exact I|exact I]. }
  (* part 1 *)
  match goal with |- NPR (bindr ?P1 _) =>
    assert (H1 : match P1 with
                 | Ok (c1, _, _, _, _) => WFa g (c_pid c1) /\ c_ta_send c1 = c_ta_send c \/ WFa g (c_pid c1) /\ exists s s', c_ta_send c = Some s /\ c_ta_send c1 = Some s' /\ TB s'
                 | Panic _ => False end) end.
  { destruct (negb (k_qos p =? 0)) eqn:Eq. 2:{ destruct (negb (status_eqb (c_status c) Connected)); cbv beta iota; left; (split; [exact HW|reflexivity]). }
    apply negb_true_iff in Eq. specialize (Hs Eq).
    destruct (_ && _).
    { destruct (release_if_used_ok g c (k_pid p) HW) as (c1 & e1 & Er & W1 & _ & T1). rewrite Er. cbn [bindr]. cbv beta iota. left. split; assumption. }
    destruct (negb (is_used _ _)); [cbv beta iota; left; split; [exact HW|reflexivity]|].
    destruct (can_store_now c); [|cbn [bindr]; destruct (_ =? 2); cbv beta iota; left; split; first [exact HW|reflexivity]].
    destruct (topic_empty p).
    - unfold validate_topic_alias. destruct (k_alias p) as [a|].
      2:{ destruct (release_if_used_ok g c (k_pid p) HW) as (c1 & e1 & Er & W1 & _ & T1). rewrite Er. cbn [bindr]. cbv beta iota. left. split; assumption. }
      destruct (negb (validate_topic_alias_range c a)).
      { destruct (release_if_used_ok g c (k_pid p) HW) as (c1 & e1 & Er & W1 & _ & T1). rewrite Er. cbn [bindr]. cbv beta iota. left. split; assumption. }
      destruct (c_ta_send c) as [s|] eqn:Es.
      2:{ destruct (release_if_used_ok g c (k_pid p) HW) as (c1 & e1 & Er & W1 & _ & T1). rewrite Er. cbn [bindr]. cbv beta iota. left. split; [assumption|congruence]. }
      pose proof (tas_get_tb s a) as Hg. unfold TAS in HT. rewrite Es in HT. specialize (Hg HT).
      destruct (tas_get s a) as [[t|] s']; cbn [snd] in Hg.
      + unfold store_add. conn_simpl_goal. change (k_pid (set_dup (remove_topic_alias_add_topic g p t) true)) with (k_pid p). rewrite Hs. cbn [bindr].
        destruct (_ =? 2); cbv beta iota; right; (split; [conn_simpl_goal; exact HW|]); exists s, s'; conn_simpl_goal; (split; [reflexivity|split; [reflexivity|exact Hg]]).
      + destruct (release_if_used_ok g c (k_pid p) HW) as (c1 & e1 & Er & W1 & _ & T1). rewrite Er. cbn [bindr]. cbv beta iota. left. split; [assumption|congruence].
    - unfold store_add. change (k_pid (set_dup (remove_topic_alias g p) true)) with (k_pid p). rewrite Hs. cbn [bindr].
      destruct (_ =? 2); cbv beta iota; left; (split; [conn_simpl_goal; exact HW|reflexivity]). }
  match goal with |- NPR (bindr ?P1 _) => destruct P1 as [[[[[c1 rel] val] stop] e1]|]; cbn [bindr]; [|contradiction] end.
  assert (HW1 : WFa g (c_pid c1)) by (destruct H1 as [[H _]|[H _]]; exact H).
  assert (HT1 : TAS c1).
  { unfold TAS in *. destruct H1 as [[_ H]|[_ (s & s' & _ & H & Hb)]]; [now rewrite H|now rewrite H]. }
  clear H1. destruct stop; [exact I|].
  match goal with |- NPR (if ?b then _ else _) => destruct b end; [now apply refuse_publish_NPR|].
  (* part 2 *)
  assert (Href : forall cx, c_pid cx = c_pid c1 -> NPR (bindr (refuse_publish cx (k_pid p) E_NOT_ALLOWED_TO_SEND []) (fun '(c2, e) => Ok (c2, p, true, e)))).
  { intros cx Hx. pose proof (refuse_publish_NPR cx (k_pid p) E_NOT_ALLOWED_TO_SEND [] ltac:(now rewrite Hx)) as H.
    destruct (refuse_publish _ _ _ _) as [[c2 e]|]; [exact I|exact H]. }
  match goal with |- NPR (bindr ?P2 _) => assert (H2 : NPR P2) end.
  { destruct (topic_empty p) eqn:Et.
    - destruct val; [exact I|]. unfold validate_topic_alias. destruct (k_alias p) as [a|]; [|now apply Href].
      destruct (negb _); [now apply Href|]. destruct (c_ta_send c1) as [s|]; [|now apply Href].
      destruct (tas_get s a) as [[t|] s']; [exact I|now apply Href].
    - pose proof (topic_nonempty p Et) as Hne.
      destruct (k_alias p) as [a|].
      + destruct (validate_topic_alias_range c1 a) eqn:Ev; [|now apply Href].
        destruct (status_eqb _ _); [|exact I]. destruct (c_ta_send c1) as [s|] eqn:Es; [|exact I].
        destruct (tas_insert_ok s (k_topic p) a Hne (validate_range c1 a s Es Ev)) as (s' & Hi). rewrite Hi. exact I.
      + destruct (status_eqb _ _); [|exact I]. destruct (c_auto_map c1).
        * destruct (c_ta_send c1) as [s|] eqn:Es; [|exact I]. destruct (tas_find_by_topic s (k_topic p)); [exact I|].
          unfold TAS in HT1. rewrite Es in HT1. destruct (tas_lru_ok s HT1) as (a & Hl & Hr). rewrite Hl. cbn [bindr]. cbv zeta.
          destruct (_ <=? _); [|exact I]. destruct (tas_insert_ok s (k_topic p) a Hne Hr) as (s' & Hi). rewrite Hi. exact I.
        * destruct (c_auto_replace c1); [|exact I]. destruct (c_ta_send c1) as [s|]; [|exact I]. destruct (tas_find_by_topic s (k_topic p)); exact I. }
  match goal with |- NPR (bindr ?P2 _) => destruct P2 as [[[[c2 q] stop2] e2]|]; cbn [bindr]; [|contradiction] end.
  destruct stop2; [exact I|]. np_plain.
Qed.

Lemma send_stored_NPR c : OWN g c -> NPR (send_stored c).
Proof.
  intro HO. unfold send_stored. pose proof (send_stored_l_parts (c_mps_send c) (c_store c)) as Hp.
  destruct (send_stored_l (c_mps_send c) (c_store c)) as [kept dropped]. destruct Hp as (_ & P2 & P3).
  destruct (P3 (o_nodup _ _ _ _ _ _ _ _ _ HO)) as (_ & Q2 & _). cbv zeta. conn_simpl_goal.
  destruct (release_all_ok g _ _ _ dropped _ _ _ _ _ HO P2 Q2) as (a' & Hr). unfold sids in Hr. rewrite Hr. exact I.
Qed.
Lemma send_connack_NPR c p : OWN g c -> NPR (send_connack c p).
Proof.
  intro HO. unfold send_connack. cbv zeta. destruct (_ && _); [exact I|]. destruct (negb (status_eqb _ _)); [exact I|].
  pose proof (connack_send_props_f8 c p) as Hp. destruct (connack_send_props c p) as [c1 pre]. cbn [fst] in Hp.
  destruct (negb _); [np_plain|].
  assert (H2 : OWN g (set_status c1 Connected)).
  { apply (f8_own g c); [|exact HO]. apply (f8_trans _ c1); [unfold F8; conn_simpl; repeat split|exact Hp]. }
  pose proof (send_stored_NPR _ H2) as H. destruct (send_stored _) as [[c2 es]|]; cbn [bindr]; [np_plain|exact H].
Qed.

(* ---- receive side ---- *)
Ltac np_sub :=
  match goal with
  | |- NPR (handle_error ?c ?v ?e) => apply handle_error_NPR
  | |- NPR (handle_v5_error ?c ?e) => apply handle_v5_error_NPR
  | |- NPR (bindr (send_puback_like ?c ?p) _) =>
      let H := fresh in pose proof (send_puback_like_NPR c p) as H; destruct (send_puback_like c p) as [[? ?]|]; [clear H|contradiction]
  | |- NPR (bindr (send_plain ?c ?p) _) =>
      let H := fresh in pose proof (send_plain_NPR c p) as H; destruct (send_plain c p) as [[? ?]|]; [clear H|contradiction]
  | |- NPR (bindr (handle_v5_error ?c ?e) _) =>
      let H := fresh in pose proof (handle_v5_error_NPR c e) as H; destruct (handle_v5_error c e) as [[? ?]|]; [clear H|contradiction]
  | |- NPR (bindr (close_with_disconnect ?c ?p) _) =>
      let H := fresh in pose proof (close_with_disconnect_NPR c p) as H; destruct (close_with_disconnect c p) as [[? ?]|]; [clear H|contradiction]
  end.
Ltac np_walk :=
  cbv zeta;
  repeat first
    [ progress cbn [bindr NPR]
    | np_sub
    | match goal with
      | |- NPR (Ok _) => exact I
      | |- True => exact I
      | |- NPR (send_and_post _ _ _ _) => apply send_and_post_NPR
      | |- NPR (if ?b then _ else _) => destruct b
      | |- NPR (bindr (if ?b then _ else _) _) => destruct b
      | |- NPR (match ?y with Some _ => _ | None => _ end) => destruct y
      | |- NPR (let '(_, _) := ?x in _) => destruct x
      | |- NPR (bindr (let '(_, _) := ?x in _) _) => destruct x
      end ].

Lemma recv_publish_v311_NPR c pr : NPR (recv_publish_v311 g c pr).
Proof. unfold recv_publish_v311, handle_v311_error. destruct pr as [p|e]; np_walk. Qed.

Lemma out_of_range_false c a r : c_ta_recv c = Some r -> alias_out_of_range c a = false -> 1 <= a <= tr_max r.
Proof.
  intro Er. unfold alias_out_of_range. rewrite Er. intro H. apply orb_false_iff in H as [H1 H2]. apply N.eqb_neq in H1. apply N.ltb_ge in H2. lia.
Qed.
Lemma resolve_recv_alias_NPR c p : NPR (resolve_recv_alias g c p).
Proof.
  unfold resolve_recv_alias. destruct (topic_empty p) eqn:Et.
  - destruct (k_alias p) as [a|]; [|np_walk]. destruct (alias_out_of_range c a); [np_walk|].
    destruct (c_ta_recv c) as [r|]; [|exact I]. destruct (tar_get r a); np_walk.
  - destruct (k_alias p) as [a|]; [|exact I]. destruct (alias_out_of_range c a) eqn:Eo; [np_walk|].
    destruct (c_ta_recv c) as [r|] eqn:Er; [|exact I].
    destruct (tar_insert_ok r (k_topic p) a (topic_nonempty p Et) (out_of_range_false c a r Er Eo)) as (r' & Hi). rewrite Hi. exact I.
Qed.
Lemma recv_publish_v5_NPR c pr : NPR (recv_publish_v5 g c pr).
Proof.
  unfold recv_publish_v5. destruct pr as [p|e]; [|np_walk]. cbv zeta.
  destruct (_ && _); [apply handle_v5_error_NPR|].
  pose proof (resolve_recv_alias_NPR (note_inbound c p) p) as Hr.
  destruct (resolve_recv_alias g (note_inbound c p) p) as [[[[c1 q] st] e0]|]; cbn [bindr]; [|contradiction].
  destruct st; [exact I|]. np_walk.
Qed.
Lemma recv_pubrel_NPR c v pr : NPR (recv_pubrel g c v pr).
Proof. unfold recv_pubrel. destruct pr as [p|e]; np_walk. Qed.
Lemma recv_notify_NPR c v pr : NPR (recv_notify c v pr).
Proof. unfold recv_notify. destruct pr as [p|e]; np_walk. Qed.
Lemma recv_pingreq_NPR c v pr : NPR (recv_pingreq g c v pr).
Proof. unfold recv_pingreq. destruct pr as [p|e]; np_walk. Qed.
Lemma recv_pingresp_NPR c v pr : NPR (recv_pingresp c v pr).
Proof. unfold recv_pingresp. destruct pr as [p|e]; np_walk. Qed.
Lemma recv_disconnect_NPR c v pr : NPR (recv_disconnect c v pr).
Proof. unfold recv_disconnect. destruct pr as [p|e]; np_walk. Qed.

(* an acknowledgement: the release is guarded; the automatic PUBREL is stored under an identifier that the
   erased PUBLISH has just left (ack_PB_own) *)
Lemma recv_ack_NPR c t pr : OWN g c -> NPR (recv_ack g c (c_version c) t pr).
Proof.
  intro HO. pose proof (o_wf _ _ _ _ _ _ _ _ _ HO) as HW. unfold recv_ack. destruct pr as [p|e]; [|apply handle_error_NPR]. cbv zeta.
  assert (Hrel : forall cx (f : conn -> conn), c_pid cx = c_pid c ->
            NPR (bindr (release_if_used cx (k_pid p)) (fun '(c0, e1) => let '(c1, e2) := refresh_pingreq_recv (f c0) in Ok (c1, e1 ++ e2 ++ [ENotify p])))).
  { intros cx f Hx. destruct (release_if_used_ok g cx (k_pid p) ltac:(now rewrite Hx)) as (c1 & e1 & Er & _). rewrite Er. cbn [bindr].
    destruct (refresh_pingreq_recv _). exact I. }
  destruct (t =? T_PUBACK).
  { destruct (mem _ (c_puback c)); [|apply handle_error_NPR].
    apply (Hrel _ (fun x => if version_eqb (c_version c) V50 then match c_send_max x with Some _ => set_send_count x (c_send_count x - 1) | None => x end else x)). reflexivity. }
  destruct (t =? T_PUBREC).
  { destruct (mem (k_pid p) (c_pubrec c)) eqn:Hm; [|apply handle_error_NPR].
    destruct (ack_PB_own g c (k_pid p) HO Hm) as (H1 & [_ H2] & H3). cbv zeta in H1, H2, H3.
    match goal with |- NPR (if ?b then _ else _) => destruct b end.
    - match goal with |- NPR (bindr (if ?b then _ else _) _) => destruct b end; [|np_walk].
      match goal with |- NPR (bindr (send_pubrel ?cx ?q) _) =>
        pose proof (send_pubrel_NPR cx q (fun _ => H2)) as H; destruct (send_pubrel cx q) as [[c2 e1]|]; [|contradiction] end.
      np_walk.
    - apply (Hrel _ (fun x => match c_send_max x with Some _ => set_send_count x (c_send_count x - 1) | None => x end)). reflexivity. }
  destruct (t =? T_PUBCOMP).
  { destruct (mem _ (c_pubcomp c)); [|apply handle_error_NPR].
    apply (Hrel _ (fun x => if version_eqb (c_version c) V50 then match c_send_max x with Some _ => set_send_count x (c_send_count x - 1) | None => x end else x)). reflexivity. }
  destruct (t =? T_SUBACK).
  { destruct (mem _ (c_suback c)); [|apply handle_error_NPR]. apply (Hrel _ (fun x => x)). reflexivity. }
  { destruct (mem _ (c_unsuback c)); [|apply handle_error_NPR]. apply (Hrel _ (fun x => x)). reflexivity. }
Qed.

(* ---- connection establishment ---- *)
Lemma connect_recv_state_NPR c v p : NPR (connect_recv_state c v p).
Proof.
  unfold connect_recv_state. cbv zeta. destruct (version_eqb v V50); [|exact I].
  destruct (k_tam p) as [m|]; [|cbn [bindr]; exact I].
  destruct (negb (m =? 0)) eqn:E; [|cbn [bindr]; exact I].
  apply negb_true_iff, N.eqb_neq in E. destruct (tas_new_ok m ltac:(lia)) as (s & Hs). rewrite Hs. exact I.
Qed.
Lemma recv_connect_NPR c v pr : OWN g c -> NPR (recv_connect g c v pr).
Proof.
  intro HO. unfold recv_connect. destruct (negb _); [apply handle_error_NPR|]. cbv zeta.
  destruct pr as [p|e].
  - pose proof (connect_recv_state_NPR (set_status c Connecting) v p) as H.
    destruct (connect_recv_state _ v p) as [c1|]; cbn [bindr]; [|contradiction]. destruct (refresh_pingreq_recv c1). exact I.
  - assert (H0 : OWN g (set_status c Connecting)) by (apply (f8_own g c); [unfold F8; conn_simpl; repeat split|exact HO]).
    pose proof (send_connack_NPR (set_status c Connecting) (connect_refusal v e) H0) as H.
    destruct (send_connack _ _) as [[c1 ev]|]; [exact I|contradiction].
Qed.

(* what the parser guarantees about a CONNACK: Receive Maximum and Maximum Packet Size are not 0 *)
Definition limits_ok (p : pkt) : Prop := k_rm p <> Some 0 /\ k_mps p <> Some 0.
Definition pr_limits_ok (pr : presult) : Prop := match pr with PROk p => limits_ok p | PRErr _ => True end.

Lemma connack_recv_limits_NPR c p : limits_ok p -> NPR (connack_recv_limits c p).
Proof.
  intros [H1 H2]. unfold connack_recv_limits.
  assert (Ht : forall cx, NPR (match k_tam p with
                                | Some m => if 0 <? m then bindr (tas_new m) (fun s => Ok (set_ta_send cx (Some s))) else Ok cx
                                | None => Ok cx end)).
  { intro cx. destruct (k_tam p) as [m|]; [|exact I]. destruct (0 <? m) eqn:E; [|exact I]. apply N.ltb_lt in E.
    destruct (tas_new_ok m ltac:(lia)) as (s & Hs). rewrite Hs. exact I. }
  specialize (Ht c). destruct (match k_tam p with Some _ => _ | None => _ end) as [c1|]; cbn [bindr]; [|contradiction].
  destruct (k_rm p) as [m|]; [destruct (N.eqb_spec m 0) as [->|]; [now destruct H1|]|]; cbn [bindr];
    (destruct (k_mps p) as [y|]; [destruct (N.eqb_spec y 0) as [->|]; [now destruct H2|]|]); exact I.
Qed.
Lemma resume_or_clear_NPR c sp : OWN g c -> NPR (resume_or_clear c sp).
Proof.
  intro HO. unfold resume_or_clear. destruct sp; [|exact I].
  pose proof (send_stored_NPR c HO) as H. destruct (send_stored c) as [[c1 es]|]; cbn [bindr]; [|contradiction].
  destruct (existsb _ _); [destruct (send_post_process c1)|]; exact I.
Qed.
Lemma recv_connack_NPR c v pr : OWN g c -> pr_limits_ok pr -> NPR (recv_connack c v pr).
Proof.
  intros HO Hl. unfold recv_connack. destruct (status_eqb (c_status c) Connected); [apply handle_error_NPR|].
  destruct pr as [p|e].
  2:{ destruct (version_eqb v V50); exact I. }
  destruct (k_rc p =? 0); [|exact I]. cbv zeta.
  assert (H0 : OWN g (set_status c Connected)) by (apply (f8_own g c); [unfold F8; conn_simpl; repeat split|exact HO]).
  destruct (version_eqb v V50).
  - pose proof (connack_recv_limits_NPR (set_status c Connected) p Hl) as H.
    destruct (connack_recv_limits _ p) as [c1|] eqn:E1; cbn [bindr]; [|contradiction].
    pose proof (connack_recv_limits_f8 _ p c1 E1) as F1.
    pose proof (connack_recv_ska_f8 c1 p) as F2. destruct (connack_recv_ska c1 p) as [c2 e1]. cbn [fst] in F2.
    assert (F : F8 c2 c) by (apply (f8_trans _ c1); [exact F2|apply (f8_trans _ (set_status c Connected)); [exact F1|unfold F8; conn_simpl; repeat split]]).
    pose proof (f8_own g c c2 F HO) as H2.
    assert (H3 : OWN g (connack_recv_sei c2 p)) by (unfold connack_recv_sei; own_split; own_leaf H2).
    pose proof (resume_or_clear_NPR _ (k_flag p) H3) as Hr. destruct (resume_or_clear _ _) as [[c3 e2]|]; [exact I|contradiction].
  - pose proof (resume_or_clear_NPR _ (k_flag p) H0) as Hr. destruct (resume_or_clear _ _) as [[c3 e2]|]; [exact I|contradiction].
Qed.

Lemma dispatch_recv_NPR c t pr : OWN g c -> pr_limits_ok pr -> NPR (dispatch_recv g c (c_version c) t pr).
Proof.
  intros HO Hl. unfold dispatch_recv.
  repeat match goal with |- NPR (if ?b then _ else _) => destruct b end;
    first [ now apply recv_connect_NPR | now apply recv_connack_NPR | apply recv_publish_v5_NPR | apply recv_publish_v311_NPR | now apply recv_ack_NPR
          | apply recv_pubrel_NPR | apply recv_notify_NPR | apply recv_pingreq_NPR | apply recv_pingresp_NPR | apply recv_disconnect_NPR
          | exact I ].
Qed.
Lemma process_recv_packet_NPR c fh body pr : OWN g c -> c_version c <> VUndet -> pr_limits_ok pr -> NPR (process_recv_packet g c fh body pr).
Proof.
  intros HO Hv Hl. unfold process_recv_packet. cbv zeta.
  destruct (_ <? _); [np_walk|]. destruct (negb _); [exact I|].
  destruct (c_version c) eqn:E; try (rewrite <- E; now apply dispatch_recv_NPR). exfalso. now apply Hv.
Qed.
Lemma do_recv_NPR c bytes pr : OWN g c -> c_version c <> VUndet -> pr_limits_ok pr -> NPR (do_recv g c bytes pr).
Proof.
  intros HO Hv Hl. unfold do_recv. destruct (feed (c_pb c) bytes) as [[r pb'] rest]. cbv zeta.
  assert (H0 : OWN g (set_pb c pb')) by (apply (f8_own g c); [unfold F8; conn_simpl; repeat split|exact HO]).
  destruct r; cbv beta iota;
    match goal with
    | |- context [process_recv_packet g ?x ?h ?b pr] =>
        pose proof (process_recv_packet_NPR x h b pr H0 Hv Hl) as H; destruct (process_recv_packet g x h b pr) as [[c1 e]|]; [exact I|contradiction]
    | |- context [cancel_timers ?x] => destruct (cancel_timers x); exact I
    | |- _ => exact I
    end.
Qed.

Lemma do_timer_NPR c k : c_version c <> VUndet -> NPR (do_timer c k).
Proof.
  intro Hv. unfold do_timer. destruct k; cbv zeta.
  - destruct (status_eqb _ _); [|exact I]. conn_simpl_goal. destruct (c_version c); [apply send_pingreq_NPR|apply send_pingreq_NPR|now destruct Hv].
  - conn_simpl_goal. destruct (c_version c); [exact I| |now destruct Hv]. destruct (status_eqb _ _); [apply close_with_disconnect_NPR|exact I].
  - conn_simpl_goal. destruct (c_version c); [exact I| |now destruct Hv]. destruct (status_eqb _ _); [apply close_with_disconnect_NPR|exact I].
Qed.
Lemma do_closed_NPR c : WFa g (c_pid c) -> NPR (do_closed c).
Proof.
  intro HW. unfold do_closed. cbv zeta. conn_simpl_goal.
  destruct (drain_release_ok g (c_suback c) _ HW) as (a1 & e1 & E1 & W1). rewrite E1. cbn [bindr].
  destruct (drain_release_ok g (c_unsuback c) _ W1) as (a2 & e2 & E2 & W2). rewrite E2. cbn [bindr]. conn_simpl_goal.
  destruct (negb (c_need_store c)); cbn [bindr].
  - conn_simpl_goal.
    destruct (drain_release_ok g (c_puback c) _ W2) as (a3 & e3 & E3 & W3). rewrite E3. cbn [bindr].
    destruct (drain_release_ok g (c_pubrec c) _ W3) as (a4 & e4 & E4 & W4). rewrite E4. cbn [bindr].
    destruct (drain_release_ok g (c_pubcomp c) _ W4) as (a5 & e5 & E5 & W5). rewrite E5. cbn [bindr].
    destruct (cancel_timers _). exact I.
  - destruct (cancel_timers _). exact I.
Qed.
Lemma do_erase_NPR c id : WFa g (c_pid c) -> NPR (do_erase c id).
Proof.
  intro HW. unfold do_erase. destruct (store_erase_publish_l id (c_store c)) as [b l]. destruct b; [|exact I]. cbv zeta.
  match goal with |- NPR (release_if_used ?x id) =>
    destruct (release_if_used_ok g x id ltac:(destruct (c_send_max _); [destruct (0 <? _)|]; conn_simpl_goal; exact HW)) as (c1 & e1 & Er & _); rewrite Er end.
  exact I.
Qed.

(* ---- every call ---- *)
Definition np_op_ok (o : op) : Prop := match o with ORecv _ pr => pr_limits_ok pr | _ => True end.

Theorem step_no_panic c o :
  OWN g c -> TAS c -> c_version c <> VUndet -> own_op_ok c o -> np_op_ok o -> NPR (step g c o).
Proof.
  intros HO HT Hv Hk Hn. pose proof (o_wf _ _ _ _ _ _ _ _ _ HO) as HW. destruct o; cbn [step own_op_ok np_op_ok] in *.
  - (* send *)
    assert (H : NPR (do_send g c p)).
    { unfold do_send. destruct (negb _); [exact I|]. cbv zeta. destruct (_ && _); [exact I|]. destruct (_ && _); [exact I|].
      destruct Hk as [Hp Hi]. unfold dispatch_send. cbv zeta.
      destruct (N.eqb_spec (k_type p) T_CONNECT); [apply send_connect_NPR|].
      destruct (N.eqb_spec (k_type p) T_CONNACK); [now apply send_connack_NPR|].
      destruct (N.eqb_spec (k_type p) T_PUBLISH) as [Et|Et].
      { destruct (Hp Et) as [_ Hf].
        assert (Hs : (k_qos p =? 0) = false -> store_has (k_pid p) (c_store c) = false) by (intro E; rewrite E in Hf; exact (proj2 Hf)).
        destruct (version_eqb _ _); [apply send_publish_v5_NPR; [split; assumption|exact Hs]|now apply send_publish_v311_NPR]. }
      destruct (_ || _); [apply send_puback_like_NPR|].
      destruct (N.eqb_spec (k_type p) T_PUBREL) as [Er|Er]; [apply send_pubrel_NPR; intros _; exact (proj2 (Hi (or_introl Er)))|].
      destruct (_ || _); [now apply send_sub_unsub_NPR|].
      destruct (_ || _); [apply send_plain_NPR|].
      destruct (_ =? T_PINGREQ); [apply send_pingreq_NPR|].
      destruct (_ =? T_DISCONNECT); [apply send_disconnect_NPR|].
      destruct (_ =? T_AUTH); [apply send_auth_NPR|exact I]. }
    destruct (do_send g c p) as [[c' e]|]; [exact I|contradiction].
  - pose proof (do_recv_NPR c bytes pr HO Hv Hn) as H. destruct (do_recv g c bytes pr) as [[[c' e] r]|]; [exact I|contradiction].
  - pose proof (do_timer_NPR c k Hv) as H. destruct (do_timer c k) as [[c' e]|]; [exact I|contradiction].
  - pose proof (do_closed_NPR c HW) as H. destruct (do_closed c) as [[c' e]|]; [exact I|contradiction].
  - unfold do_set_pingreq_interval. cbv zeta. destruct o as [ms|]; [destruct (ms =? 0); [destruct (c_t_send _)|destruct (status_eqb _ _)]|]; exact I.
  - exact I.
  - exact I.
  - exact I.
  - exact I.
  - exact I.
  - exact I.
  - pose proof (acquire_spec g c HW) as H. cbn [step] in H. destruct (pm_acquire (c_pid c)) as [[r a]|]; [exact I|contradiction].
  - destruct (pm_register (c_pid c) id). exact I.
  - destruct (release_if_used_ok g c id HW) as (c1 & e1 & Er & _). rewrite Er. exact I.
  - pose proof (do_erase_NPR c id HW) as H. destruct (do_erase c id) as [[c' e]|]; [exact I|contradiction].
  - exact I.
  - exact I.
  - exact I.
Qed.
End NP.

(* ---- every history ---- *)
Definition J (g : cfg) (c : conn) : Prop := OWN g c /\ TAS c /\ c_version c <> VUndet.

Definition np_contract (c : conn) (o : op) : Prop := own_op_ok c o /\ np_op_ok o /\ tam_op_ok o.
Fixpoint np_history_ok (g : cfg) (c : conn) (ops : list op) : Prop :=
  match ops with
  | [] => True
  | o :: t => np_contract c o /\ match step g c o with Ok (c', _, _) => np_history_ok g c' t | Panic _ => True end
  end.

Theorem step_keeps_J g c o : J g c -> np_contract c o ->
  match step g c o with Ok (c', _, _) => J g c' | Panic _ => False end.
Proof.
  intros (HO & HT & Hv) (Hk & Hn & Ht).
  pose proof (step_no_panic g c o HO HT Hv Hk Hn) as Hp.
  pose proof (step_keeps_OWN g c o HO Hv Hk) as H1. pose proof (step_keeps_TAS g c o Ht HT) as H2.
  destruct (step g c o) as [[[c' e] r]|]; [|exact Hp]. destruct H1 as [H1 V1]. split; [exact H1|]. split; [exact H2|congruence].
Qed.

Theorem history_no_panic g : forall ops c,
  J g c -> np_history_ok g c ops ->
  match run_state g c ops with Some c' => J g c' | None => False end.
Proof.
  induction ops as [|o t IH]; intros c HJ Hq; cbn [run_state]; [exact HJ|].
  cbn [np_history_ok] in Hq. destruct Hq as [Hc Hq]. pose proof (step_keeps_J g c o HJ Hc) as Hs.
  destruct (step g c o) as [[[c' e] r]|]; [|exact Hs]. now apply IH.
Qed.

Lemma conn_new_J g v : 1 <= g_idmax g -> v <> VUndet -> J g (conn_new g v).
Proof. intros Hm Hv. split; [now apply conn_new_OWN|]. split; [exact I|exact Hv]. Qed.

Corollary fresh_history_no_panic g v ops :
  1 <= g_idmax g -> v <> VUndet -> np_history_ok g (conn_new g v) ops ->
  match run_state g (conn_new g v) ops with Some c' => J g c' | None => False end.
Proof. intros Hm Hv Hq. apply history_no_panic; [now apply conn_new_J|exact Hq]. Qed.
