(* C17 — receive gating by role and protocol-version auto-detection: proofs about the model. *)
From MQ Require Import Base.Prelude Alloc.Alloc Alloc.SetSpec Framing.Framing
                       Conn.Types Conn.TopicAlias Conn.ConnRecord Conn.Step Conn.Run
                       Corr.ConnTrace Spec.MqttRules.

Definition fits (c : conn) (body : list N) : bool :=
  negb (c_mps_recv c <? remaining_length_to_total_size (N.of_nat (length body))).

(* ---- (1) a kind the peer of this role never sends ---- *)
(* the run-time test is the rule table, for every role, determined version and type nibble 1..15;
   nibble 0 and (v3.1.1, 15) for role Any pass the test and are rejected by the dispatch *)
Lemma can_receive_is_rule g c t :
  c_version c <> VUndet -> t < 16 ->
  may_receive (g_role g) (c_version c) t = false ->
  can_receive g c t = false \/ (t = 0 \/ (t = 15 /\ c_version c = V311)).
Proof.
  intros Hv Ht. unfold may_receive, can_receive, role_may_originate, kind_exists, memn, CLIENT_ONLY, SERVER_ONLY.
  cbn [existsb]. rewrite !orb_false_r.
  assert (Hcases : t = 0 \/ t = 1 \/ t = 2 \/ t = 3 \/ t = 4 \/ t = 5 \/ t = 6 \/ t = 7 \/ t = 8 \/ t = 9 \/ t = 10
                   \/ t = 11 \/ t = 12 \/ t = 13 \/ t = 14 \/ t = 15) by lia.
  destruct (c_version c) eqn:Ev; [| |contradiction];
    destruct (g_role g);
    repeat (destruct Hcases as [->|Hcases]; [cbn; intro H; try discriminate H; auto|]);
    subst; cbn; intro H; try discriminate H; auto.
Qed.

Theorem forbidden_kind_is_error g c fh body pr :
  c_version c <> VUndet -> fits c body = true ->
  may_receive (g_role g) (c_version c) (fh / 16) = false -> fh < 256 ->
  exists e, process_recv_packet g c fh body pr = Ok (c, [EError e]) /\ (e = E_PROTOCOL \/ e = E_MALFORMED).
Proof.
  intros Hv Hfit Hm Hfh. unfold process_recv_packet. unfold fits in Hfit. apply negb_true_iff in Hfit. rewrite Hfit.
  assert (Ht : fh / 16 < 16) by (apply N.div_lt_upper_bound; lia).
  destruct (can_receive_is_rule g c (fh / 16) Hv Ht Hm) as [Hc|Hc].
  - rewrite Hc. cbn [negb]. exists E_PROTOCOL. auto.
  - destruct (can_receive g c (fh / 16)); cbn [negb]; [|exists E_PROTOCOL; auto].
    exists E_MALFORMED. split; [|auto].
    destruct Hc as [H0|[H15 Hv3]].
    + rewrite H0. destruct (c_version c); [reflexivity|reflexivity|contradiction].
    + rewrite H15, Hv3. reflexivity.
Qed.

(* ---- (2) CONNECT / CONNACK on an established connection ---- *)
Definition session (c : conn) := (c_pid c, c_puback c, c_pubrec c, c_pubcomp c, c_need_store c, c_store c, c_qos2 c).

Lemma cancel_timers_session c : session (fst (cancel_timers c)) = session c.
Proof.
  unfold cancel_timers. destruct (c_t_send c); cbn [fst snd];
    match goal with |- context [c_t_recv ?x] => destruct (c_t_recv x) end; cbn [fst snd];
    match goal with |- context [c_t_resp ?x] => destruct (c_t_resp x) end; reflexivity.
Qed.

Definition err_outcome (c : conn) (e : N) (r : res (conn * list event)) : Prop :=
  match r with
  | Ok (c', ev) => session c' = session c /\ notifies ev = [] /\ In (EError e) ev
  | Panic _ => False
  end.

Lemma send_disconnect_session c p e :
  match send_disconnect c p with
  | Ok (c', ev) => session c' = session c /\ notifies (ev ++ [EError e]) = [] /\ In (EError e) (ev ++ [EError e])
  | Panic _ => False end.
Proof.
  unfold send_disconnect, too_large, not_allowed.
  destruct (_ && _); [cbn; auto|]. destruct (negb _); [cbn; auto|].
  pose proof (cancel_timers_session (set_status c Disconnected)) as H.
  assert (Hn : notifies (snd (cancel_timers (set_status c Disconnected))) = []).
  { unfold cancel_timers. destruct (c_t_send _); cbn [fst snd];
      match goal with |- context [c_t_recv ?x] => destruct (c_t_recv x) end; cbn [fst snd];
      match goal with |- context [c_t_resp ?x] => destruct (c_t_resp x) end; reflexivity. }
  destruct (cancel_timers _) as [c' ev]. cbn [fst snd] in *. split; [exact H|].
  split.
  - unfold notifies in *. rewrite !flat_map_app, Hn. reflexivity.
  - apply in_or_app. right. now left.
Qed.

Lemma handle_error_outcome c v e : err_outcome c e (handle_error c v e).
Proof.
  unfold handle_error, handle_v5_error, close_with_disconnect. destruct (version_eqb v V50).
  - destruct (_ && _).
    + pose proof (cancel_timers_session (set_status c Disconnected)) as H.
      assert (Hn : notifies (snd (cancel_timers (set_status c Disconnected))) = []).
      { unfold cancel_timers. destruct (c_t_send _); cbn [fst snd];
          match goal with |- context [c_t_recv ?x] => destruct (c_t_recv x) end; cbn [fst snd];
          match goal with |- context [c_t_resp ?x] => destruct (c_t_resp x) end; reflexivity. }
      destruct (cancel_timers _) as [c' ev]. cbn [fst snd bindr err_outcome] in *. split; [exact H|]. split.
      * unfold notifies in *. rewrite !flat_map_app, Hn. reflexivity.
      * apply in_or_app. right. now left.
    + pose proof (send_disconnect_session c (disconnect_v5 (disc_rc_of_err e)) e) as H.
      destruct (send_disconnect _ _) as [[c' ev]|]; cbn [bindr err_outcome]; [exact H|contradiction].
  - cbn. repeat split. right. now left.
Qed.

Theorem established_connect g c v pr :
  c_status c <> Disconnected ->
  recv_connect g c v pr = handle_error c v E_PROTOCOL.
Proof.
  intro H. unfold recv_connect. destruct (c_status c); [contradiction|reflexivity|reflexivity].
Qed.

Theorem established_connack c v pr :
  c_status c = Connected ->
  recv_connack c v pr = handle_error c v E_PROTOCOL.
Proof. intro H. unfold recv_connack. now rewrite H. Qed.

(* together: a CONNECT or CONNACK frame on an established connection is a protocol error that
   delivers nothing and leaves the session untouched *)
Theorem established_is_protocol_error g c fh body pr :
  c_status c = Connected -> c_version c <> VUndet -> fits c body = true ->
  (fh / 16 = 1 \/ fh / 16 = 2) -> can_receive g c (fh / 16) = true ->
  err_outcome c E_PROTOCOL (process_recv_packet g c fh body pr).
Proof.
  intros Hs Hv Hfit Ht Hcr. unfold process_recv_packet. unfold fits in Hfit. apply negb_true_iff in Hfit.
  rewrite Hfit, Hcr. cbn [negb].
  destruct (c_version c) eqn:Ev; [| |contradiction]; unfold dispatch_recv; destruct Ht as [-> | ->];
    change (1 =? 1) with true; change (2 =? 1) with false; change (2 =? 2) with true; cbv iota;
    rewrite ?established_connect, ?established_connack by (try rewrite Hs; try discriminate; auto);
    apply handle_error_outcome.
Qed.

(* ---- (3) version auto-detection ---- *)
Definition level_of (v : version) : N := match v with V311 => 4 | V50 => 5 | VUndet => 0 end.

(* the first frame is a CONNECT whose protocol level byte names version v *)
Definition good_first (fh : N) (body : list N) (v : version) : Prop :=
  (v = V311 \/ v = V50) /\ fh / 16 = 1 /\ (N.of_nat (length body) <? 7) = false /\ nth 6 body 0 = level_of v.

Theorem undetermined_adopts g c fh body pr v :
  c_version c = VUndet -> g_role g <> RClient -> fits c body = true -> good_first fh body v ->
  process_recv_packet g c fh body pr = process_recv_packet g (set_version c v) fh body pr.
Proof.
  intros Hv Hrole Hfit (Hvv & Ht & Hlen & Hlv). unfold process_recv_packet.
  cbn [set_version c_mps_recv c_status c_version].
  unfold fits in Hfit. apply negb_true_iff in Hfit. rewrite Hfit.
  assert (Hcr : can_receive g (set_version c v) (fh / 16) = can_receive g c (fh / 16)).
  { unfold can_receive. rewrite Ht. cbn [set_version c_version]. rewrite Hv.
    destruct Hvv as [-> | ->]; destruct (g_role g); reflexivity. }
  rewrite Hcr.
  assert (Hcan : can_receive g c (fh / 16) = true).
  { unfold can_receive. rewrite Ht, Hv. destruct (g_role g); [contradiction|reflexivity|reflexivity]. }
  rewrite Hcan. cbn [negb]. rewrite Hv, Ht. change (1 =? 1) with true. cbv iota. rewrite Hlen, Hlv.
  destruct Hvv as [-> | ->]; cbn [level_of]; unfold dispatch_recv.
  - change (4 =? 4) with true. change (1 =? 1) with true. reflexivity.
  - change (5 =? 4) with false. change (5 =? 5) with true. change (1 =? 1) with true. reflexivity.
Qed.

Theorem undetermined_rejects g c fh body pr :
  c_version c = VUndet -> fits c body = true ->
  ~ (exists v, good_first fh body v) ->
  exists e, process_recv_packet g c fh body pr = Ok (c, [EError e]).
Proof.
  intros Hv Hfit Hbad. unfold process_recv_packet. unfold fits in Hfit. apply negb_true_iff in Hfit. rewrite Hfit.
  destruct (negb (can_receive g c (fh / 16))); [eexists; reflexivity|]. rewrite Hv.
  destruct (N.eqb_spec (fh / 16) 1) as [E1|E1]; [|eexists; reflexivity].
  destruct (N.of_nat (length body) <? 7) eqn:El; [eexists; reflexivity|].
  destruct (N.eqb_spec (nth 6 body 0) 4) as [E4|E4].
  { exfalso. apply Hbad. exists V311. repeat split; auto. }
  destruct (N.eqb_spec (nth 6 body 0) 5) as [E5|E5].
  { exfalso. apply Hbad. exists V50. repeat split; auto. }
  eexists; reflexivity.
Qed.

(* a server created with an undetermined version, once it has seen a good CONNECT, is in exactly
   the state a server created with that version is in: equal events and equal state at the first
   call, hence equal events for every continuation *)
Theorem undetermined_first_step g v bytes pr hdr body pb' rest :
  feed pb_init bytes = (FComplete hdr body, pb', rest) ->
  g_role g <> RClient ->
  fits (conn_new g VUndet) body = true ->
  good_first (hd 0 hdr) body v ->
  step g (conn_new g VUndet) (ORecv bytes pr) = step g (conn_new g v) (ORecv bytes pr).
Proof.
  intros Hf Hrole Hfit Hg. unfold step, do_recv. cbn [conn_new c_pb]. rewrite Hf.
  change (set_pb (conn_new g v) pb') with (set_version (set_pb (conn_new g VUndet) pb') v).
  rewrite (undetermined_adopts g (set_pb (conn_new g VUndet) pb') (hd 0 hdr) body pr v eq_refl Hrole Hfit Hg). reflexivity.
Qed.

Theorem undetermined_equiv g v bytes pr hdr body pb' rest h :
  feed pb_init bytes = (FComplete hdr body, pb', rest) ->
  g_role g <> RClient ->
  fits (conn_new g VUndet) body = true ->
  good_first (hd 0 hdr) body v ->
  run_events g (conn_new g VUndet) (ORecv bytes pr :: h) = run_events g (conn_new g v) (ORecv bytes pr :: h).
Proof.
  intros Hf Hrole Hfit Hg. cbn [run_events]. now rewrite (undetermined_first_step g v bytes pr hdr body pb' rest Hf Hrole Hfit Hg).
Qed.
