(* C01, model side: sequences with BOTH endpoints publishing.  Each item of the run says which side publishes a message of
   QoS 0, 1 or 2; the exchange completes before the next begins (PairBi.v covers exchanges of QoS 1/2 in flight in both
   directions at once; this file is the one that has QoS 0 and both directions together).  The invariant is the pair
   invariant of PairSeq.v in both directions; an exchange in one direction keeps the other direction's invariant because
   the sender's calls leave its handled set alone and the receiver's calls leave its allocator, store and awaited sets
   alone (the frame lemmas of PairBi.v). *)
From MQ Require Import Base.Prelude Alloc.Alloc Alloc.SetSpec Alloc.AllocProofs Framing.Framing
                       Conn.Types Conn.TopicAlias Conn.ConnRecord Conn.Step Conn.Run Corr.ConnTrace Conn.Scope Conn.IdsQuota Conn.WfInv
                       Conn.Own Conn.OwnFrame Conn.OwnStep Conn.Qos2Inv Conn.Qos2Dup Conn.TasBounds Conn.NoPanic Conn.PairQos Conn.PairSeq
                       Conn.PairConc Conn.PairBi Conn.PairHandshake311 Conn.PairSeqMixed Conn.PairSeqMixedFresh.

Lemma register_q g c id c0 r : step g c (ORegister id) = Ok (c0, [], r) -> c_qos2 c0 = c_qos2 c /\ c_store c0 = c_store c.
Proof. cbn [step]. destruct (pm_register (c_pid c) id) as [b a]. intro E. injection E as <- _. split; reflexivity. Qed.

(* an acknowledged exchange from [cs] to [cr] leaves the receiver role of [cs] and the sender role of [cr] alone *)
Lemma exchange_reverse gs gr gx cs cr p q : pair_inv gs cs cr -> v311_pub p q -> q = 1 \/ q = 2 -> OWN gx cr ->
  match exchange gs gr cs cr p with
  | Done cs' cr' _ => OWN gx cr' /\ c_qos2 cs' = c_qos2 cs /\ F8 cr' cr
  | _ => True
  end.
Proof.
  intros (HO & Rs & Has & Rr & Har & Hasc) Hp Hq HOr. unfold exchange. cbv zeta.
  destruct (negb _) eqn:Epre; [exact I|]. apply negb_false_iff in Epre.
  apply andb_true_iff in Epre as [Epre E5]. apply andb_true_iff in Epre as [Epre E4]. apply andb_true_iff in Epre as [Epre E3].
  apply andb_true_iff in Epre as [E1 E2]. apply N.leb_le in E1, E2. apply negb_true_iff in E3, E5. apply freshb_spec in E4.
  destruct (register_x gs cs (k_pid p) HO (conj E1 E2) E3 E4) as (cs0 & Ereg & O0 & U0 & F0 & St0 & V0 & A0). rewrite Ereg.
  destruct (register_q gs cs (k_pid p) cs0 [1] Ereg) as [Q0 _].
  assert (R0 : ready cs0) by (destruct Rs as [R1 R2]; split; [congruence|now rewrite St0]).
  rewrite (step_send_publish_v311 gs cs0 p q (proj1 R0) Hp).
  pose proof (sender_sends_x gs cs0 p q O0 R0 Hp ltac:(lia) F0 U0) as H1.
  pose proof (sender_sends_q cs0 p q Hp ltac:(lia) (proj2 R0) U0 (proj2 F0)) as G1.
  destruct (send_publish_v311 cs0 p) as [[cs1 e1]|]; cbn [bindr]; [|exact I].
  destruct H1 as (S1 & N1 & X1 & O1 & R1 & U1 & A1 & M1). rewrite S1, N1, X1. cbn [one none andb negb].
  rewrite A0, Has in A1. destruct Hp as (Ht & Hv & Hqq).
  assert (Hk : (k_type p = T_PUBLISH /\ (k_qos p =? 0) = false) \/ k_type p = T_PUBREL).
  { left. split; [exact Ht|]. rewrite Hqq. apply N.eqb_neq. lia. }
  pose proof (receiver_f8 gr cr p Rr Har Hk) as Fr1.
  destruct Hq as [-> | ->].
  - (* QoS 1 *)
    pose proof (receiver_q1_x gr cr p Rr Har (conj Ht (conj Hv Hqq))) as H2.
    destruct (deliver gr cr p) as [[cr1 e2]|]; [|exact I]. destruct H2 as (N2 & S2 & X2 & Rr1 & Ar1 & Q1).
    rewrite S2, N2, X2. cbn [one none negb]. rewrite Hqq. change (1 =? 1) with true. cbv iota.
    change (1 =? 2) with false in M1. cbv iota in M1.
    pose proof (sender_final_ack_x gs cs1 (ack_pkt gr T_PUBACK V311 (k_pid p) None) T_PUBACK O1 R1 eq_refl eq_refl (or_introl eq_refl) M1 U1) as H3.
    pose proof (sender_final_q gs cs1 (ack_pkt gr T_PUBACK V311 (k_pid p) None) T_PUBACK O1 R1 eq_refl eq_refl (or_introl eq_refl) M1 U1) as G3.
    unfold final. destruct (deliver gs cs1 _) as [[cs2 e3]|]; [|exact I].
    destruct (none (sends e3) && none (errors e3) && _); [|exact I].
    split; [exact (f8_own gx cr cr1 Fr1 HOr)|]. split; [congruence|exact Fr1].
  - (* QoS 2 *)
    pose proof (receiver_q2_x gr cr p Rr Har (conj Ht (conj Hv Hqq)) E5) as H2.
    destruct (deliver gr cr p) as [[cr1 e2]|]; [|exact I]. destruct H2 as (N2 & S2 & X2 & Rr1 & Ar1 & Q1).
    rewrite S2, N2, X2. cbn [one none negb]. rewrite Hqq. change (2 =? 1) with false. cbv iota.
    change (2 =? 2) with true in M1. cbv iota in M1.
    pose proof (sender_pubrec_x gs cs1 (ack_pkt gr T_PUBREC V311 (k_pid p) None) O1 R1 A1 eq_refl eq_refl M1 U1) as H3.
    pose proof (sender_pubrec_q gs cs1 (ack_pkt gr T_PUBREC V311 (k_pid p) None) O1 R1 A1 eq_refl eq_refl M1 U1) as G3.
    change (k_pid (ack_pkt gr T_PUBREC V311 (k_pid p) None)) with (k_pid p) in H3.
    destruct (deliver gs cs1 _) as [[cs2 e3]|]; [|exact I]. destruct H3 as (S3 & X3 & L3 & O2 & R2 & A2 & U2 & M2).
    rewrite S3, X3, L3. cbn [one none andb negb].
    pose proof (receiver_pubrel_x gr cr1 (ack_pkt gs T_PUBREL V311 (k_pid p) None) Rr1 Ar1 eq_refl) as H4.
    pose proof (receiver_f8 gr cr1 (ack_pkt gs T_PUBREL V311 (k_pid p) None) Rr1 Ar1 (or_intror eq_refl)) as Fr2.
    change (k_pid (ack_pkt gs T_PUBREL V311 (k_pid p) None)) with (k_pid p) in H4.
    destruct (deliver gr cr1 _) as [[cr2 e4]|]; [|exact I]. destruct H4 as (N4 & S4 & X4 & Rr2 & Ar2 & Q2).
    rewrite S4, X4, N4. cbn [one none andb negb filter]. change (k_type (ack_pkt gs T_PUBREL V311 (k_pid p) None) =? T_PUBLISH) with false. cbn [none negb].
    pose proof (sender_final_q gs cs2 (ack_pkt gr T_PUBCOMP V311 (k_pid p) None) T_PUBCOMP O2 R2 eq_refl eq_refl (or_intror eq_refl) M2 U2) as G5.
    unfold final. destruct (deliver gs cs2 _) as [[cs3 e5]|]; [|exact I].
    destruct (none (sends e5) && none (errors e5) && _); [|exact I].
    split; [exact (f8_own gx cr1 cr2 Fr2 (f8_own gx cr cr1 Fr1 HOr))|]. split; [congruence|exact (f8_trans _ _ _ Fr2 Fr1)].
Qed.

Section Two.
Variables gA gB : cfg.

Definition pair_inv2 (a b : conn) : Prop := pair_inv gA a b /\ pair_inv gB b a.

(* one step of any QoS keeps the invariant of the other direction too *)
Lemma exchange_any_2 gs gr cs cr p : pair_inv gs cs cr -> pair_inv gr cr cs -> v311_any p ->
  match exchange_any gs gr cs cr p with
  | Done cs' cr' d => d = [p] /\ pair_inv gs cs' cr' /\ pair_inv gr cr' cs'
  | AppPre => k_qos p <> 0
  | Fail => False
  end.
Proof.
  intros Hi Hr Hp. pose proof (exchange_any_ok gs gr cs cr p Hi Hp) as H.
  assert (G : match exchange_any gs gr cs cr p with Done cs' cr' _ => OWN gr cr' /\ c_qos2 cs' = c_qos2 cs | _ => True end).
  { destruct Hr as (HOr & _). unfold exchange_any. destruct Hp as [Hp|[Hp|Hp]].
    - pose proof (exchange0_ok gs gr cs cr p Hi Hp) as K. destruct Hp as (_ & _ & Hq). rewrite Hq. change (0 =? 0) with true. cbv iota.
      destruct (exchange0 gs gr cs cr p) as [cs' cr' d| |]; [|exact I|exact I]. destruct K as (_ & _ & _ & F2 & _ & Qs).
      split; [exact (f8_own gr cr cr' F2 HOr)|exact Qs].
    - pose proof (exchange_reverse gs gr gr cs cr p 1 Hi Hp (or_introl eq_refl) HOr) as K. destruct Hp as (_ & _ & Hq). rewrite Hq. change (1 =? 0) with false. cbv iota.
      destruct (exchange gs gr cs cr p); [|exact I|exact I]. destruct K as (K1 & K2 & _). split; assumption.
    - pose proof (exchange_reverse gs gr gr cs cr p 2 Hi Hp (or_intror eq_refl) HOr) as K. destruct Hp as (_ & _ & Hq). rewrite Hq. change (2 =? 0) with false. cbv iota.
      destruct (exchange gs gr cs cr p); [|exact I|exact I]. destruct K as (K1 & K2 & _). split; assumption. }
  destruct (exchange_any gs gr cs cr p) as [cs' cr' d| |]; [|exact H|exact H].
  destruct H as [Hd Hi']. destruct G as [G1 G2]. split; [exact Hd|]. split; [exact Hi'|].
  destruct Hi' as (_ & Rs' & As' & Rr' & Ar' & _). destruct Hr as (_ & _ & _ & _ & _ & Hasc).
  split; [exact G1|]. split; [exact Rr'|]. split; [exact Ar'|]. split; [exact Rs'|]. split; [exact As'|]. rewrite G2. exact Hasc.
Qed.

(* ---- the two-way run ---- *)
Inductive item := FromA (p : pkt) | FromB (p : pkt).
Definition item_pkt (i : item) : pkt := match i with FromA p => p | FromB p => p end.
Definition fromA (l : list item) : list pkt := flat_map (fun i => match i with FromA p => [p] | FromB _ => [] end) l.
Definition fromB (l : list item) : list pkt := flat_map (fun i => match i with FromB p => [p] | FromA _ => [] end) l.

(* Done2: the endpoints, what B's application was notified of, what A's application was notified of *)
Inductive outcome2 := Done2 (a b : conn) (dB dA : list pkt) | AppPre2 | Fail2.

Fixpoint run_mixed2 (a b : conn) (l : list item) : outcome2 :=
  match l with
  | [] => Done2 a b [] []
  | FromA p :: t =>
    match exchange_any gA gB a b p with
    | Done a' b' d => match run_mixed2 a' b' t with Done2 a'' b'' dB dA => Done2 a'' b'' (d ++ dB) dA | o => o end
    | AppPre => AppPre2
    | Fail => Fail2
    end
  | FromB p :: t =>
    match exchange_any gB gA b a p with
    | Done b' a' d => match run_mixed2 a' b' t with Done2 a'' b'' dB dA => Done2 a'' b'' dB (d ++ dA) | o => o end
    | AppPre => AppPre2
    | Fail => Fail2
    end
  end.

(* any number of messages, any mix of QoS levels, either side publishing: each application is notified of exactly the other
   side's messages, once each, in order *)
Theorem run_mixed2_ok : forall l a b, pair_inv2 a b -> Forall (fun i => v311_any (item_pkt i)) l ->
  match run_mixed2 a b l with
  | Done2 a' b' dB dA => dB = fromA l /\ dA = fromB l /\ pair_inv2 a' b'
  | AppPre2 => True
  | Fail2 => False
  end.
Proof.
  induction l as [|i t IH]; intros a b [Hab Hba] Hf; cbn [run_mixed2]; [split; [reflexivity|]; split; [reflexivity|split; assumption]|].
  inversion Hf as [|? ? Hp Ht]; subst. destruct i as [p|p]; cbn [item_pkt] in Hp.
  - pose proof (exchange_any_2 gA gB a b p Hab Hba Hp) as He.
    destruct (exchange_any gA gB a b p) as [a' b' d| |]; [|exact I|exact He]. destruct He as (-> & H1 & H2).
    specialize (IH a' b' (conj H1 H2) Ht). destruct (run_mixed2 a' b' t) as [a'' b'' dB dA| |]; [|exact I|exact IH].
    destruct IH as (-> & -> & Hi). split; [reflexivity|]. split; [reflexivity|exact Hi].
  - pose proof (exchange_any_2 gB gA b a p Hba Hab Hp) as He.
    destruct (exchange_any gB gA b a p) as [b' a' d| |]; [|exact I|exact He]. destruct He as (-> & H1 & H2).
    specialize (IH a' b' (conj H2 H1) Ht). destruct (run_mixed2 a' b' t) as [a'' b'' dB dA| |]; [|exact I|exact IH].
    destruct IH as (-> & -> & Hi). split; [reflexivity|]. split; [reflexivity|exact Hi].
Qed.

(* when only QoS 0 messages are published the run cannot stop on an application precondition *)
Theorem run_mixed2_qos0_completes : forall l a b, pair_inv2 a b -> Forall (fun i => v311_pub (item_pkt i) 0) l ->
  exists a' b', run_mixed2 a b l = Done2 a' b' (fromA l) (fromB l) /\ pair_inv2 a' b'.
Proof.
  induction l as [|i t IH]; intros a b [Hab Hba] Hf; cbn [run_mixed2]; [exists a, b; split; [reflexivity|split; assumption]|].
  inversion Hf as [|? ? Hp Ht]; subst. destruct i as [p|p]; cbn [item_pkt] in Hp.
  - pose proof (exchange_any_2 gA gB a b p Hab Hba (or_introl Hp)) as He.
    destruct (exchange_any gA gB a b p) as [a' b' d| |]; [|exfalso; apply He; apply Hp|destruct He]. destruct He as (-> & H1 & H2).
    destruct (IH a' b' (conj H1 H2) Ht) as (a'' & b'' & E & Hi). rewrite E. exists a'', b''. split; [reflexivity|exact Hi].
  - pose proof (exchange_any_2 gB gA b a p Hba Hab (or_introl Hp)) as He.
    destruct (exchange_any gB gA b a p) as [b' a' d| |]; [|exfalso; apply He; apply Hp|destruct He]. destruct He as (-> & H1 & H2).
    destruct (IH a' b' (conj H2 H1) Ht) as (a'' & b'' & E & Hi). rewrite E. exists a'', b''. split; [reflexivity|exact Hi].
Qed.
End Two.

(* ---- end to end from fresh objects ---- *)
Theorem fresh_v311_two_way_mixed_sequence gA gB cn ca l :
  1 <= g_idmax gA -> 1 <= g_idmax gB -> role_client_ok gA = true -> role_server_ok gB = true ->
  k_type cn = T_CONNECT -> k_ver cn = V311 -> k_flag cn = true ->
  k_type ca = T_CONNACK -> k_ver ca = V311 -> k_rc ca = 0 -> k_flag ca = false ->
  Forall (fun i => v311_any (item_pkt i)) l ->
  let A0 := set_auto_pub (conn_new gA V311) true in
  let B0 := set_auto_pub (conn_new gB V311) true in
  exists A1 e1 B1 e2 B2 e3 A2 e4,
    step gA A0 (OSend cn) = Ok (A1, e1, []) /\ sends e1 = [cn] /\
    deliver gB B0 cn = Ok (B1, e2) /\ notifies e2 = [cn] /\
    step gB B1 (OSend ca) = Ok (B2, e3, []) /\ sends e3 = [ca] /\
    deliver gA A1 ca = Ok (A2, e4) /\ notifies e4 = [ca] /\
    errors e1 = [] /\ errors e2 = [] /\ errors e3 = [] /\ errors e4 = [] /\
    match run_mixed2 gA gB A2 B2 l with
    | Done2 A3 B3 dB dA => dB = fromA l /\ dA = fromB l /\ pair_inv2 gA gB A3 B3
    | AppPre2 => True
    | Fail2 => False
    end.
Proof.
  intros IA IB RA RB T1 V1 F1 T2 V2 C2 F2 Hl A0 B0.
  assert (OA : OWN gA A0) by (apply (f8_own gA (conn_new gA V311)); [unfold F8; repeat split|exact (conn_new_OWN gA V311 IA)]).
  assert (OB : OWN gB B0) by (apply (f8_own gB (conn_new gB V311)); [unfold F8; repeat split|exact (conn_new_OWN gB V311 IB)]).
  destruct (handshake311_establishes_pair_invariant gA gB A0 B0 cn ca OA OB eq_refl eq_refl eq_refl eq_refl eq_refl eq_refl RA RB
              T1 V1 F1 T2 V2 C2 F2)
    as (A1 & e1 & B1 & e2 & B2 & e3 & A2 & e4 & E1 & S1 & X1 & E2 & N2 & X2 & _ & E3 & S3 & X3 & E4 & N4 & X4 & _ & Hinv).
  exists A1, e1, B1, e2, B2, e3, A2, e4. do 12 (split; [assumption|]).
  exact (run_mixed2_ok gA gB l A2 B2 (inv2_pair_inv _ _ _ _ Hinv) Hl).
Qed.

