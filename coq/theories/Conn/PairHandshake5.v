(* C01 / C12, model side: THE v5.0 HANDSHAKE ESTABLISHES THE PAIR INVARIANT, for every negotiated Receive Maximum, Maximum
   Packet Size, Session Expiry Interval, Server Keep Alive and keep-alive value (Clean Start, no Topic Alias Maximum).
   Client sends CONNECT, server receives it and sends a successful CONNACK, client receives it: both ends are Connected,
   each one's send limits are what the other announced, both Receive Maximum accounts are empty — which are exactly the
   premises of the two-way v5.0 theorem (PairBi5.inv25_init). *)
From MQ Require Import Base.Prelude Alloc.Alloc Alloc.SetSpec Alloc.AllocProofs Framing.Framing
                       Conn.Types Conn.TopicAlias Conn.ConnRecord Conn.Step Conn.Run Corr.ConnTrace Conn.Scope Conn.IdsQuota Conn.WfInv
                       Conn.Own Conn.OwnFrame Conn.OwnStep Conn.Qos2Dup Conn.TasBounds Conn.NoPanic
                       Conn.PairQos Conn.PairQos5 Conn.PairSeq Conn.PairSeq5 Conn.PairConc Conn.PairConc5 Conn.PairBi Conn.PairBi5.

Definition HV (c : conn) (st : status) (mps : N) (smax rmax : option N) : Prop :=
  c_version c = V50 /\ c_status c = st /\ c_ta_send c = None /\ c_mps_send c = mps /\ c_send_count c = 0 /\ c_qos2 c = [] /\
  c_publish_recv c = [] /\ c_send_max c = smax /\ c_recv_max c = rmax /\ c_store c = [].

Lemma client_sends_connect5 c p :
  c_version c = V50 -> c_status c = Disconnected -> k_ver p = V50 -> k_flag p = true -> k_tam p = None -> size_ok c p = true ->
  exists c1 e, send_connect c p = Ok (c1, e) /\ sends e = [p] /\ errors e = [] /\
               HV c1 Connecting (c_mps_send c) None (k_rm p) /\ c_auto_pub c1 = c_auto_pub c.
Proof.
  intros Hv Hs Hpv Hfl Htam Hsz. unfold send_connect. rewrite Hpv, Hsz, Hs, Hfl, Htam. cbn [version_eqb negb andb status_eqb]. cbv zeta.
  unfold send_and_post, send_post_process, initialize, clear_store_related.
  destruct (k_rm p) as [rm|], (k_mps p) as [mp|], (k_sei p) as [se|]; try destruct (negb (se =? 0));
    conn_simpl_goal; destruct (0 <? _); (eexists _, _; split; [reflexivity|]; cbn; unfold HV; conn_simpl_goal; repeat split; assumption || reflexivity).
Qed.

Lemma server_receives_connect5 g c p :
  c_version c = V50 -> c_status c = Disconnected -> k_flag p = true -> k_tam p = None ->
  exists c1 e, recv_connect g c V50 (PROk p) = Ok (c1, e) /\ notifies e = [p] /\ errors e = [] /\ sends e = [] /\
               HV c1 Connecting (match k_mps p with Some m => m | None => c_mps_send c end) (k_rm p) None /\ c_auto_pub c1 = c_auto_pub c.
Proof.
  intros Hv Hs Hfl Htam. unfold recv_connect. rewrite Hs. cbn [status_eqb negb]. cbv zeta.
  unfold connect_recv_state. rewrite Hfl, Htam. cbn [version_eqb bindr]. cbv zeta.
  unfold refresh_pingreq_recv, initialize, clear_store_related.
  destruct (k_rm p) as [rm|], (k_mps p) as [mp|], (k_sei p) as [se|]; try destruct (negb (se =? 0)); destruct (0 <? k_keep_alive p);
    conn_simpl_goal; cbn [bindr]; conn_simpl_goal; destruct (negb (_ =? 0));
    (eexists _, _; split; [reflexivity|]; cbn; unfold HV; conn_simpl_goal; repeat split; assumption || reflexivity).
Qed.

Lemma server_sends_connack5 c p mps smax :
  HV c Connecting mps smax None -> k_ver p = V50 -> k_rc p = 0 -> k_tam p = None -> size_ok c p = true ->
  exists c1 e, send_connack c p = Ok (c1, e) /\ sends e = [p] /\ errors e = [] /\
               HV c1 Connected mps smax (k_rm p) /\ c_auto_pub c1 = c_auto_pub c.
Proof.
  intros (Hv & Hs & Hta & Hmp & Hc & Hq & Hpr & Hsm & Hrm & Hst) Hpv Hrc Htam Hsz.
  unfold send_connack. rewrite Hpv, Hsz, Hs. cbn [version_eqb negb andb status_eqb]. rewrite Hrc. change (0 =? 0) with true. cbn [negb]. cbv zeta.
  unfold connack_send_props. rewrite Hpv, Hrc, Htam. cbn [version_eqb andb]. change (0 =? 0) with true. cbv iota.
  assert (Hfin : forall cx pre, c_version cx = V50 -> c_ta_send cx = None -> c_mps_send cx = mps -> c_send_count cx = 0 -> c_qos2 cx = [] ->
            c_publish_recv cx = [] -> c_send_max cx = smax -> c_recv_max cx = k_rm p -> c_store cx = [] -> c_auto_pub cx = c_auto_pub c ->
            sends pre = [] -> errors pre = [] ->
            exists c1 e, bindr (send_stored (set_status cx Connected)) (fun '(c0, es) => let '(c2, e0) := send_post_process c0 in Ok (c2, pre ++ [ESend p None] ++ es ++ e0)) = Ok (c1, e) /\
                         sends e = [p] /\ errors e = [] /\ HV c1 Connected mps smax (k_rm p) /\ c_auto_pub c1 = c_auto_pub c).
  { intros cx pre X1 X2 X3 X4 X5 X6 X7 X8 X9 X10 P1 P2. unfold send_stored. conn_simpl_goal. rewrite X9. cbn [send_stored_l map fold_left send_stored_events].
    unfold release_all. cbn [bindr fold_left]. conn_simpl_goal. cbn [bindr].
    unfold send_post_process. rewrite X7.
    destruct smax as [m|]; conn_simpl_goal; destruct (c_is_client cx); try destruct (0 <? _);
      (eexists _, _; split; [reflexivity|]; ev_simpl; rewrite P1, P2; cbn; unfold HV; conn_simpl_goal; repeat split; assumption || reflexivity). }
  destruct (k_rm p) as [rm|] eqn:Erm, (k_mps p) as [mp|], (k_ska p) as [sk|]; try destruct (sk =? 0); try destruct (c_t_recv _);
    apply Hfin; conn_simpl_goal; try assumption; try reflexivity.
Qed.

Lemma client_receives_connack5 c p mps rmax :
  HV c Connecting mps None rmax -> k_rc p = 0 -> k_tam p = None -> k_flag p = false ->
  k_rm p <> Some 0 -> k_mps p <> Some 0 ->
  exists c1 e, recv_connack c V50 (PROk p) = Ok (c1, e) /\ notifies e = [p] /\ errors e = [] /\ sends e = [] /\
               HV c1 Connected (match k_mps p with Some m => m | None => mps end) (k_rm p) rmax /\ c_auto_pub c1 = c_auto_pub c.
Proof.
  intros (Hv & Hs & Hta & Hmp & Hc & Hq & Hpr & Hsm & Hrm & Hst) Hrc Htam Hfl Hr0 Hm0.
  unfold recv_connack. rewrite Hs. cbn [status_eqb]. rewrite Hrc. change (0 =? 0) with true. cbv iota. cbn [version_eqb]. cbv zeta.
  unfold connack_recv_limits. rewrite Htam. cbn [bindr].
  assert (Hfin : forall cx, c_version cx = V50 -> c_ta_send cx = None -> c_mps_send cx = match k_mps p with Some m => m | None => mps end ->
            c_publish_recv cx = [] -> c_send_max cx = k_rm p -> c_recv_max cx = rmax -> c_status cx = Connected -> c_auto_pub cx = c_auto_pub c ->
            exists c1 e, (let '(c0, e1) := connack_recv_ska cx p in
                          bindr (resume_or_clear (connack_recv_sei c0 p) (k_flag p)) (fun '(c2, e2) => Ok (c2, e1 ++ e2 ++ [ENotify p]))) = Ok (c1, e) /\
                         notifies e = [p] /\ errors e = [] /\ sends e = [] /\
                         HV c1 Connected (match k_mps p with Some m => m | None => mps end) (k_rm p) rmax /\ c_auto_pub c1 = c_auto_pub c).
  { intros cx X1 X2 X3 X6 X7 X8 X9 X10. unfold connack_recv_ska, connack_recv_sei, resume_or_clear, clear_store_related. rewrite Hfl.
    destruct (k_ska p) as [sk|]; cbv zeta; conn_simpl_goal;
      [destruct (c_user_ping cx); [|destruct (sk * 1000 =? 0); [destruct (c_t_send cx)|]]|];
      (destruct (k_sei p) as [se|]; [destruct (se =? 0)|]);
      conn_simpl_goal; cbn [bindr];
      (eexists _, _; split; [reflexivity|]; cbn; unfold HV; conn_simpl_goal; repeat split; assumption || reflexivity). }
  destruct (k_rm p) as [rm|] eqn:Erm.
  - destruct (rm =? 0) eqn:E0; [apply N.eqb_eq in E0; subst rm; contradiction|]. cbn [bindr].
    destruct (k_mps p) as [mp|] eqn:Emp.
    + destruct (mp =? 0) eqn:E1; [apply N.eqb_eq in E1; subst mp; contradiction|]. cbn [bindr].
      apply Hfin; conn_simpl_goal; try assumption; reflexivity.
    + cbn [bindr]. apply Hfin; conn_simpl_goal; try assumption; reflexivity.
  - cbn [bindr]. destruct (k_mps p) as [mp|] eqn:Emp.
    + destruct (mp =? 0) eqn:E1; [apply N.eqb_eq in E1; subst mp; contradiction|]. cbn [bindr].
      apply Hfin; conn_simpl_goal; try assumption; reflexivity.
    + cbn [bindr]. apply Hfin; conn_simpl_goal; try assumption; reflexivity.
Qed.

Lemma step_send_connect g c p : c_version c = k_ver p -> k_type p = T_CONNECT -> role_client_ok g = true ->
  step g c (OSend p) = bindr (send_connect c p) (fun '(c', e) => Ok (c', e, [])).
Proof.
  intros Hv Ht Hr. cbn [step]. cbv zeta. unfold do_send, dispatch_send. cbv zeta. rewrite Hv, Ht, Hr.
  destruct (k_ver p); reflexivity.
Qed.
Lemma step_send_connack g c p : c_version c = k_ver p -> k_type p = T_CONNACK -> role_server_ok g = true ->
  step g c (OSend p) = bindr (send_connack c p) (fun '(c', e) => Ok (c', e, [])).
Proof.
  intros Hv Ht Hr. cbn [step]. cbv zeta. unfold do_send, dispatch_send. cbv zeta. rewrite Hv, Ht, Hr.
  destruct (k_ver p), (role_client_ok g); reflexivity.
Qed.

Definition limit_after (announced : option N) (before : N) : N := match announced with Some m => m | None => before end.

Theorem handshake5_establishes_pair_invariant gA gB A0 B0 cn ca :
  OWN gA A0 -> OWN gB B0 -> c_version A0 = V50 -> c_version B0 = V50 -> c_status A0 = Disconnected -> c_status B0 = Disconnected ->
  c_auto_pub A0 = true -> c_auto_pub B0 = true -> role_client_ok gA = true -> role_server_ok gB = true ->
  (* the CONNECT: Clean Start, no Topic Alias Maximum; anything else *)
  k_type cn = T_CONNECT -> k_ver cn = V50 -> k_flag cn = true -> k_tam cn = None -> size_ok A0 cn = true ->
  (* the CONNACK: success, session not present, no Topic Alias Maximum, limits not zero; anything else *)
  k_type ca = T_CONNACK -> k_ver ca = V50 -> k_rc ca = 0 -> k_flag ca = false -> k_tam ca = None -> k_rm ca <> Some 0 -> k_mps ca <> Some 0 ->
  k_size ca <= limit_after (k_mps cn) (c_mps_send B0) ->
  (* each side's acknowledgements fit what the other side accepts *)
  2 + g_idw gA <= limit_after (k_mps ca) (c_mps_send A0) -> 2 + g_idw gB <= limit_after (k_mps cn) (c_mps_send B0) ->
  exists A1 e1 B1 e2 B2 e3 A2 e4,
    step gA A0 (OSend cn) = Ok (A1, e1, []) /\ sends e1 = [cn] /\ errors e1 = [] /\
    deliver gB B0 cn = Ok (B1, e2) /\ notifies e2 = [cn] /\ errors e2 = [] /\ sends e2 = [] /\
    step gB B1 (OSend ca) = Ok (B2, e3, []) /\ sends e3 = [ca] /\ errors e3 = [] /\
    deliver gA A1 ca = Ok (A2, e4) /\ notifies e4 = [ca] /\ errors e4 = [] /\ sends e4 = [] /\
    (* each side's limits are what the other announced *)
    c_send_max A2 = k_rm ca /\ c_recv_max B2 = k_rm ca /\ c_send_max B2 = k_rm cn /\ c_recv_max A2 = k_rm cn /\
    c_mps_send A2 = limit_after (k_mps ca) (c_mps_send A0) /\ c_mps_send B2 = limit_after (k_mps cn) (c_mps_send B0) /\
    inv25 gA gB (mkBi A2 B2 [] [] [] [] [] []).
Proof.
  intros OA OB VA VB SA SB PA PB RA RB T1 V1 F1 M1 Z1 T2 V2 C2 F2 M2 R2 Q2 Z2 FA FB.
  (* 1: the client sends CONNECT *)
  destruct (client_sends_connect5 A0 cn VA SA V1 F1 M1 Z1) as (A1 & e1 & E1 & S1 & X1 & H1 & P1).
  pose proof (send_connect_OR gA A0 cn OA) as O1. rewrite E1 in O1. destruct O1 as [OA1 _].
  (* 2: the server receives it *)
  destruct (server_receives_connect5 gB B0 cn VB SB F1 M1) as (B1 & e2 & E2 & N2 & X2 & S2 & H2 & P2).
  pose proof (recv_connect_OR gB B0 V50 (PROk cn) OB) as O2. rewrite E2 in O2. destruct O2 as [OB1 _].
  (* 3: the server sends CONNACK *)
  assert (Z2' : size_ok B1 ca = true).
  { unfold size_ok. destruct H2 as (_ & _ & _ & Hm & _). rewrite Hm. apply N.leb_le. exact Z2. }
  destruct (server_sends_connack5 B1 ca _ _ H2 V2 C2 M2 Z2') as (B2 & e3 & E3 & S3 & X3 & H3 & P3).
  pose proof (send_connack_OR gB B1 ca OB1) as O3. rewrite E3 in O3. destruct O3 as [OB2 _].
  (* 4: the client receives it *)
  destruct (client_receives_connack5 A1 ca _ _ H1 C2 M2 F2 R2 Q2) as (A2 & e4 & E4 & N4 & X4 & S4 & H4 & P4).
  pose proof (recv_connack_OR gA A1 V50 (PROk ca) OA1) as O4. rewrite E4 in O4. destruct O4 as [OA2 _].
  destruct H1 as (a1 & a2 & a3 & a4 & a5 & a6 & a7 & a8 & a9 & a10).
  destruct H2 as (b1 & b2 & b3 & b4 & b5 & b6 & b7 & b8 & b9 & b10).
  destruct H3 as (c1 & c2 & c3 & c4 & c5 & c6 & c7 & c8 & c9 & c10).
  destruct H4 as (d1 & d2 & d3 & d4 & d5 & d6 & d7 & d8 & d9 & d10).
  exists A1, e1, B1, e2, B2, e3, A2, e4.
  split; [rewrite (step_send_connect gA A0 cn ltac:(congruence) T1 RA), E1; reflexivity|]. split; [exact S1|]. split; [exact X1|].
  split; [unfold deliver, dispatch_recv; rewrite T1, VB; exact E2|]. split; [exact N2|]. split; [exact X2|]. split; [exact S2|].
  split; [rewrite (step_send_connack gB B1 ca ltac:(congruence) T2 RB), E3; reflexivity|]. split; [exact S3|]. split; [exact X3|].
  split; [unfold deliver, dispatch_recv; rewrite T2, a1; exact E4|]. split; [exact N4|]. split; [exact X4|]. split; [exact S4|].
  split; [exact d8|]. split; [exact c9|]. split; [exact c8|]. split; [exact d9|]. split; [exact d4|]. split; [exact c4|].
  apply inv25_init.
  - exact OA2. - split; [exact d1|rewrite d2; reflexivity]. - congruence. - exact d3. - unfold ack_fits. rewrite d4. exact FA. - exact d5. - exact d6. - exact d7.
  - exact OB2. - split; [exact c1|rewrite c2; reflexivity]. - congruence. - exact c3. - unfold ack_fits. rewrite c4. exact FB. - exact c5. - exact c6. - exact c7.
  - intros R HR. rewrite c9 in HR. exists R. split; [rewrite d8; exact HR|lia].
  - intros R HR. rewrite d9 in HR. exists R. split; [rewrite c8; exact HR|lia].
Qed.

(* FROM FRESHLY CONSTRUCTED OBJECTS TO THE END OF ANY SCHEDULE: two new v5.0 endpoints with automatic responses, ANY handshake
   of the shape above, then ANY schedule of publications by either side and deliveries on either link: nothing fails, and
   after the links have drained each application has been notified of exactly what the other published, once each, in
   order; both Receive Maximum accounts are full again *)
Theorem fresh_v5_endpoints_interoperate gA gB cn ca l :
  1 <= g_idmax gA -> 1 <= g_idmax gB -> role_client_ok gA = true -> role_server_ok gB = true ->
  k_type cn = T_CONNECT -> k_ver cn = V50 -> k_flag cn = true -> k_tam cn = None -> k_size cn <= MQTT_PACKET_SIZE_NO_LIMIT ->
  k_type ca = T_CONNACK -> k_ver ca = V50 -> k_rc ca = 0 -> k_flag ca = false -> k_tam ca = None -> k_rm ca <> Some 0 -> k_mps ca <> Some 0 ->
  k_size ca <= limit_after (k_mps cn) MQTT_PACKET_SIZE_NO_LIMIT ->
  2 + g_idw gA <= limit_after (k_mps ca) MQTT_PACKET_SIZE_NO_LIMIT -> 2 + g_idw gB <= limit_after (k_mps cn) MQTT_PACKET_SIZE_NO_LIMIT ->
  Forall good_act25 l ->
  let A0 := set_auto_pub (conn_new gA V50) true in
  let B0 := set_auto_pub (conn_new gB V50) true in
  exists A1 e1 B1 e2 B2 e3 A2 e4 s1 s2,
    step gA A0 (OSend cn) = Ok (A1, e1, []) /\ sends e1 = [cn] /\
    deliver gB B0 cn = Ok (B1, e2) /\ notifies e2 = [cn] /\
    step gB B1 (OSend ca) = Ok (B2, e3, []) /\ sends e3 = [ca] /\
    deliver gA A1 ca = Ok (A2, e4) /\ notifies e4 = [ca] /\
    errors e1 = [] /\ errors e2 = [] /\ errors e3 = [] /\ errors e4 = [] /\
    run_sched25 gA gB (mkBi A2 B2 [] [] [] [] [] []) l = Some s1 /\
    run_sched25 gA gB s1 (drain2 (measure2 s1)) = Some s2 /\
    qab s2 = [] /\ qba s2 = [] /\ delB s2 = pubA s1 /\ delA s2 = pubB s1 /\
    vacancy (ea s2) = c_send_max (ea s2) /\ vacancy (eb s2) = c_send_max (eb s2) /\
    c_publish_recv (ea s2) = [] /\ c_publish_recv (eb s2) = [].
Proof.
  intros IA IB RA RB T1 V1 F1 M1 Z1 T2 V2 C2 F2 M2 R2 Q2 Z2 FA FB Hl A0 B0.
  assert (OA : OWN gA A0) by (apply (f8_own gA (conn_new gA V50)); [unfold F8; repeat split|exact (conn_new_OWN gA V50 IA)]).
  assert (OB : OWN gB B0) by (apply (f8_own gB (conn_new gB V50)); [unfold F8; repeat split|exact (conn_new_OWN gB V50 IB)]).
  assert (Z1' : size_ok A0 cn = true) by (unfold size_ok; apply N.leb_le; exact Z1).
  destruct (handshake5_establishes_pair_invariant gA gB A0 B0 cn ca OA OB eq_refl eq_refl eq_refl eq_refl eq_refl eq_refl RA RB
              T1 V1 F1 M1 Z1' T2 V2 C2 F2 M2 R2 Q2 Z2 FA FB)
    as (A1 & e1 & B1 & e2 & B2 & e3 & A2 & e4 & E1 & S1 & X1 & E2 & N2 & X2 & _ & E3 & S3 & X3 & E4 & N4 & X4 & _ & _ & _ & _ & _ & _ & _ & Hinv).
  destruct (two_way5_exactly_once gA gB l _ Hinv Hl) as (s1 & s2 & R1 & R2' & Q1 & Q2' & D1 & D2 & W1 & W2 & P1 & P2).
  exists A1, e1, B1, e2, B2, e3, A2, e4, s1, s2.
  repeat (split; [assumption|]). assumption.
Qed.
