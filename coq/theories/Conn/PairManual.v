(* C01, model side: MANUAL RESPONSES (auto_pub_response off) on both endpoints, v3.1.1, one exchange on an intact link.
   The receiving application is notified and sends PUBACK / PUBREC / PUBCOMP itself through the ordinary send call; the
   sending application is notified of PUBREC and sends PUBREL itself.  Every call succeeds without an error event, the
   library requests nothing on its own, the message is notified exactly once and the identifier is released at the end. *)
From MQ Require Import Base.Prelude Alloc.Alloc Alloc.SetSpec Alloc.AllocProofs Framing.Framing
                       Conn.Types Conn.TopicAlias Conn.ConnRecord Conn.Step Conn.Run Corr.ConnTrace Conn.Scope Conn.IdsQuota Conn.WfInv
                       Conn.Own Conn.OwnFrame Conn.OwnStep Conn.Qos2Dup Conn.TasBounds Conn.NoPanic Conn.PairQos Conn.PairSeq Conn.PairConc5.

(* ---- the application's own acknowledgements go through send() to the same code as the automatic ones ---- *)
Lemma manual_ack_step g c t id : c_version c = V311 -> t = T_PUBACK \/ t = T_PUBREC \/ t = T_PUBCOMP ->
  step g c (OSend (ack_pkt g t V311 id None)) = bindr (send_puback_like c (ack_pkt g t V311 id None)) (fun '(c', e) => Ok (c', e, [])).
Proof.
  intros Rv Ht. cbn [step]. cbv zeta. unfold do_send, dispatch_send. cbv zeta. rewrite Rv.
  change (k_ver (ack_pkt g t V311 id None)) with V311. change (k_type (ack_pkt g t V311 id None)) with t.
  destruct Ht as [Ht|[Ht|Ht]]; subst t; reflexivity.
Qed.
Lemma manual_pubrel_step g c id : c_version c = V311 ->
  step g c (OSend (ack_pkt g T_PUBREL V311 id None)) = bindr (send_pubrel c (ack_pkt g T_PUBREL V311 id None)) (fun '(c', e) => Ok (c', e, [])).
Proof. intros Rv. cbn [step]. cbv zeta. unfold do_send, dispatch_send. cbv zeta. rewrite Rv. reflexivity. Qed.

(* ---- the receiver without automatic responses: notified, nothing requested ---- *)
Definition keeps (c1 c : conn) : Prop := F8 c1 c /\ c_status c1 = c_status c /\ c_auto_pub c1 = c_auto_pub c.

Lemma receiver_q1_m g c p : ready c -> c_auto_pub c = false -> v311_pub p 1 ->
  match deliver g c p with
  | Ok (c1, e) => notifies e = [p] /\ sends e = [] /\ errors e = [] /\ keeps c1 c /\ c_qos2 c1 = c_qos2 c
  | Panic _ => False
  end.
Proof.
  intros [Rv Rs] Ha (Ht & Hv & Hq). unfold deliver, dispatch_recv. rewrite Ht, Rv.
  change (T_PUBLISH =? 1) with false. change (T_PUBLISH =? 2) with false. change (T_PUBLISH =? 3) with true. cbn [version_eqb]. cbv iota.
  unfold recv_publish_v311. cbv zeta. rewrite Hq. change (1 =? 0) with false. change (1 =? 1) with true. cbv iota. rewrite Rs, Ha. cbn [andb bindr].
  pose proof (refresh_keeps c) as K. pose proof (refresh_quiet c) as Q. cbv zeta in K, Q. destruct (refresh_pingreq_recv c) as [c2 e2]. cbn [fst snd] in *.
  destruct K as (F & K1 & K2 & K3), Q as (Q1 & Q2 & Q3 & _). ev_simpl. rewrite Q1, Q2, Q3. cbn.
  repeat (split; [reflexivity|]). split; [split; [exact F|split; assumption]|exact K3].
Qed.

Lemma receiver_q2_m g c p : ready c -> c_auto_pub c = false -> v311_pub p 2 -> mem (k_pid p) (c_qos2 c) = false ->
  match deliver g c p with
  | Ok (c1, e) => notifies e = [p] /\ sends e = [] /\ errors e = [] /\ keeps c1 c /\ c_qos2 c1 = ins (k_pid p) (c_qos2 c)
  | Panic _ => False
  end.
Proof.
  intros [Rv Rs] Ha (Ht & Hv & Hq) Hn. unfold deliver, dispatch_recv. rewrite Ht, Rv.
  change (T_PUBLISH =? 1) with false. change (T_PUBLISH =? 2) with false. change (T_PUBLISH =? 3) with true. cbn [version_eqb]. cbv iota.
  unfold recv_publish_v311. cbv zeta. rewrite Hq. change (2 =? 0) with false. change (2 =? 1) with false. cbv iota. rewrite Hn.
  set (c0 := set_qos2 c (ins (k_pid p) (c_qos2 c))).
  change (c_auto_pub c0) with (c_auto_pub c). rewrite Rs, Ha. cbn [andb orb bindr].
  pose proof (refresh_keeps c0) as K. pose proof (refresh_quiet c0) as Q. cbv zeta in K, Q. destruct (refresh_pingreq_recv c0) as [c2 e2]. cbn [fst snd] in *.
  destruct K as (F & K1 & K2 & K3), Q as (Q1 & Q2 & Q3 & _). ev_simpl. rewrite Q1, Q2, Q3. cbn.
  repeat (split; [reflexivity|]). split; [split; [exact F|split; assumption]|exact K3].
Qed.

Lemma receiver_pubrel_m g c a : ready c -> c_auto_pub c = false -> k_type a = T_PUBREL ->
  match deliver g c a with
  | Ok (c1, e) => notifies e = [a] /\ sends e = [] /\ errors e = [] /\ keeps c1 c /\ c_qos2 c1 = del (k_pid a) (c_qos2 c)
  | Panic _ => False
  end.
Proof.
  intros [Rv Rs] Ha Ht. unfold deliver, dispatch_recv. rewrite Ht, Rv.
  change (T_PUBREL =? 1) with false. change (T_PUBREL =? 2) with false. change (T_PUBREL =? 3) with false.
  change ((T_PUBREL =? 4) || (T_PUBREL =? 5) || (T_PUBREL =? 7) || (T_PUBREL =? 9) || (T_PUBREL =? 11)) with false.
  change (T_PUBREL =? 6) with true. cbv iota. unfold recv_pubrel. cbv zeta.
  set (c0 := set_qos2 c (del (k_pid a) (c_qos2 c))).
  change (c_auto_pub c0) with (c_auto_pub c). rewrite Ha. cbn [andb bindr].
  pose proof (refresh_keeps c0) as K. pose proof (refresh_quiet c0) as Q. cbv zeta in K, Q. destruct (refresh_pingreq_recv c0) as [c2 e2]. cbn [fst snd] in *.
  destruct K as (F & K1 & K2 & K3), Q as (Q1 & Q2 & Q3 & _). ev_simpl. rewrite Q1, Q2, Q3. cbn.
  repeat (split; [reflexivity|]). split; [split; [exact F|split; assumption]|exact K3].
Qed.

Lemma ready_keeps c1 c : keeps c1 c -> ready c -> ready c1.
Proof. intros (F & S & _) R. exact (ready_f8 c1 c F S R). Qed.

(* the application's acknowledgement: exactly that packet is requested, no error *)
Lemma manual_ack g c t id : ready c -> t = T_PUBACK \/ t = T_PUBREC \/ t = T_PUBCOMP ->
  exists c1 e, step g c (OSend (ack_pkt g t V311 id None)) = Ok (c1, e, []) /\
               sends e = [ack_pkt g t V311 id None] /\ notifies e = [] /\ errors e = [] /\ keeps c1 c /\ c_qos2 c1 = c_qos2 c.
Proof.
  intros R Ht. rewrite (manual_ack_step g c t id (proj1 R) Ht). pose proof (auto_ack_x g c t id R) as H.
  destruct (send_puback_like c _) as [[c1 e]|]; [|destruct H]. exists c1, e. cbn [bindr].
  destruct H as (H1 & H2 & H3 & F & S & A & Q). split; [reflexivity|]. repeat (split; [assumption|]). split; [split; [exact F|split; assumption]|exact Q].
Qed.

(* ---- the sender without automatic responses ---- *)
(* PUBREC arrives: the application is notified, nothing is requested, the identifier stays in use and nothing awaits it *)
Lemma sender_pubrec_m g c a : OWN g c -> ready c -> c_auto_pub c = false -> k_ver a = V311 -> k_type a = T_PUBREC ->
  mem (k_pid a) (c_pubrec c) = true -> is_used c (k_pid a) = true ->
  match deliver g c a with
  | Ok (c2, e) => notifies e = [a] /\ sends e = [] /\ errors e = [] /\ released e = [] /\ OWN g c2 /\ ready c2 /\ c_auto_pub c2 = false /\
                  is_used c2 (k_pid a) = true /\ fresh c2 (k_pid a)
  | Panic _ => False
  end.
Proof.
  intros HO [Rv Rs] Ha Hva Hta Hm Hu.
  unfold deliver, dispatch_recv. rewrite Hta, Rv.
  change (T_PUBREC =? 1) with false. change (T_PUBREC =? 2) with false. change (T_PUBREC =? 3) with false.
  change ((T_PUBREC =? 4) || (T_PUBREC =? 5) || (T_PUBREC =? 7) || (T_PUBREC =? 9) || (T_PUBREC =? 11)) with true. cbv iota.
  unfold recv_ack. cbv zeta. change (T_PUBREC =? T_PUBACK) with false. change (T_PUBREC =? T_PUBREC) with true.
  cbv iota. rewrite Hm. cbn [version_eqb negb orb].
  destruct (ack_PB_own g c (k_pid a) HO Hm) as (O1 & Fr & V1). cbv zeta in O1, Fr, V1. rewrite Rv in O1, Fr, V1.
  set (c1 := store_erase _ V311 T_PUBREC (k_pid a)) in *.
  assert (A1 : c_auto_pub c1 = false) by exact Ha.
  assert (A2 : c_status c1 = c_status c) by reflexivity.
  assert (A3 : is_used c1 (k_pid a) = true) by exact Hu.
  rewrite A1. cbn [andb bindr]. clearbody c1.
  pose proof (refresh_keeps c1) as K. pose proof (refresh_quiet c1) as Q. cbv zeta in K, Q. destruct (refresh_pingreq_recv c1) as [c2 e2]. cbn [fst snd] in *.
  destruct K as (F & K1 & K2 & K3), Q as (Q1 & Q2 & Q3 & Q4). ev_simpl. rewrite Q1, Q2, Q3, Q4. cbn.
  repeat (split; [reflexivity|]). split; [exact (f8_own g c1 c2 F O1)|].
  split; [apply (ready_f8 c2 c1 F K1); split; [exact V1|rewrite A2; exact Rs]|]. split; [congruence|].
  split; [unfold is_used in *; destruct F as (F1 & _); rewrite F1; exact A3|exact (fresh_f8 c2 c1 _ F Fr)].
Qed.

(* the application sends PUBREL: requested, PUBCOMP awaited *)
Lemma sender_pubrel_m g c id : OWN g c -> ready c -> is_used c id = true -> fresh c id ->
  exists c2 e, step g c (OSend (ack_pkt g T_PUBREL V311 id None)) = Ok (c2, e, []) /\
               sends e = [ack_pkt g T_PUBREL V311 id None] /\ notifies e = [] /\ errors e = [] /\ released e = [] /\
               OWN g c2 /\ ready c2 /\ c_auto_pub c2 = c_auto_pub c /\ is_used c2 id = true /\ mem id (c_pubcomp c2) = true.
Proof.
  intros HO [Rv Rs] Hu Hf. rewrite (manual_pubrel_step g c id Rv).
  pose proof (send_pubrel_OR g c (ack_pkt g T_PUBREL V311 id None) HO Hf ltac:(symmetry; exact Rv) eq_refl) as HOR.
  unfold send_pubrel in *. cbv zeta in *.
  change (k_ver (ack_pkt g T_PUBREL V311 id None)) with V311 in *. change (k_pid (ack_pkt g T_PUBREL V311 id None)) with id in *.
  cbn [version_eqb andb] in *. rewrite Rs, Hu in *. cbn [negb andb] in *.
  destruct Hf as [Hc Hs].
  assert (Hfin : forall cx, c_pid cx = c_pid c -> c_status cx = c_status c -> c_version cx = V311 -> c_auto_pub cx = c_auto_pub c -> mem id (c_pubcomp cx) = true ->
     forall r, r = send_and_post cx (ack_pkt g T_PUBREL V311 id None) None [] -> OR g c r ->
     exists c2 e, bindr r (fun '(c', e) => Ok (c', e, @nil N)) = Ok (c2, e, []) /\
               sends e = [ack_pkt g T_PUBREL V311 id None] /\ notifies e = [] /\ errors e = [] /\ released e = [] /\
               OWN g c2 /\ ready c2 /\ c_auto_pub c2 = c_auto_pub c /\ is_used c2 id = true /\ mem id (c_pubcomp c2) = true).
  { intros cx Hp Hst Hvx Hax Hmx r Er Hor. pose proof (send_and_post_x cx (ack_pkt g T_PUBREL V311 id None) None) as K.
    rewrite <- Er in K. clear Er. destruct r as [[c2 e]|]; [|destruct K]. destruct K as (K1 & K2 & K3 & K4 & F & K5 & K6 & _). destruct Hor as [O2 _].
    exists c2, e. cbn [bindr]. split; [reflexivity|]. repeat (split; [assumption|]).
    destruct F as (F1 & _ & _ & _ & F5 & _ & _ & F8v).
    split; [split; [congruence|rewrite K5, Hst; exact Rs]|]. split; [congruence|]. split; [unfold is_used in *; rewrite F1, Hp; exact Hu|now rewrite F5]. }
  destruct (c_need_store c) eqn:En.
  - unfold store_add in *. change (k_pid (ack_pkt g T_PUBREL V311 id None)) with id in *. rewrite Hs in *. cbn [bindr] in HOR |- *.
    conn_simpl. rewrite Rs in *.
    eapply Hfin; [..|reflexivity|exact HOR]; try reflexivity; try exact Rv; conn_simpl_goal; unfold mem, ins; rewrite s_mem_insert, N.eqb_refl; reflexivity.
  - cbn [bindr] in HOR |- *. conn_simpl. rewrite Rs in *.
    eapply Hfin; [..|reflexivity|exact HOR]; try reflexivity; try exact Rv; conn_simpl_goal; unfold mem, ins; rewrite s_mem_insert, N.eqb_refl; reflexivity.
Qed.

(* ---- QoS 1 with a manual PUBACK ---- *)
Theorem qos1_completes_manual gs gr cs cr p :
  OWN gs cs -> ready cs -> ready cr -> c_auto_pub cr = false -> v311_pub p 1 ->
  fresh cs (k_pid p) -> is_used cs (k_pid p) = true ->
  exists cs1 e1 cr1 e2 cr2 e3 cs2 e4,
    send_publish_v311 cs p = Ok (cs1, e1) /\ sends e1 = [p] /\ errors e1 = [] /\
    (* the receiver is notified and requests nothing by itself *)
    deliver gr cr p = Ok (cr1, e2) /\ notifies e2 = [p] /\ sends e2 = [] /\ errors e2 = [] /\
    (* its application sends the PUBACK *)
    step gr cr1 (OSend (puback_for gr p)) = Ok (cr2, e3, []) /\ sends e3 = [puback_for gr p] /\ errors e3 = [] /\ notifies e3 = [] /\
    ready cr2 /\ c_auto_pub cr2 = false /\ c_qos2 cr2 = c_qos2 cr /\
    (* which completes the exchange at the sender *)
    deliver gs cs1 (puback_for gr p) = Ok (cs2, e4) /\ released e4 = [k_pid p] /\ sends e4 = [] /\ errors e4 = [] /\
    OWN gs cs2 /\ ready cs2 /\ is_used cs2 (k_pid p) = false /\ fresh cs2 (k_pid p).
Proof.
  intros HO Rs Rr Ha Hp Hf Hu.
  pose proof (sender_sends_x gs cs p 1 HO Rs Hp ltac:(lia) Hf Hu) as H1.
  destruct (send_publish_v311 cs p) as [[cs1 e1]|] eqn:E1; [|destruct H1]. destruct H1 as (S1 & _ & X1 & O1 & R1 & U1 & _ & M1).
  change (1 =? 2) with false in M1. cbv iota in M1.
  pose proof (receiver_q1_m gr cr p Rr Ha Hp) as H2.
  destruct (deliver gr cr p) as [[cr1 e2]|] eqn:E2; [|destruct H2]. destruct H2 as (N2 & S2 & X2 & K2 & Q2).
  pose proof (ready_keeps _ _ K2 Rr) as Rr1.
  destruct (manual_ack gr cr1 T_PUBACK (k_pid p) Rr1 (or_introl eq_refl)) as (cr2 & e3 & E3 & S3 & N3 & X3 & K3 & Q3).
  pose proof (sender_final_ack_x gs cs1 (puback_for gr p) T_PUBACK O1 R1 eq_refl eq_refl (or_introl eq_refl)) as H4.
  change (T_PUBACK =? T_PUBACK) with true in H4. cbv iota in H4. change (k_pid (puback_for gr p)) with (k_pid p) in H4.
  specialize (H4 M1 U1).
  destruct (deliver gs cs1 (puback_for gr p)) as [[cs2 e4]|] eqn:E4; [|destruct H4].
  destruct H4 as (L4 & S4 & X4 & O4 & R4 & _ & U4 & F4).
  exists cs1, e1, cr1, e2, cr2, e3, cs2, e4.
  split; [reflexivity|]. split; [exact S1|]. split; [exact X1|].
  split; [reflexivity|]. split; [exact N2|]. split; [exact S2|]. split; [exact X2|].
  split; [exact E3|]. split; [exact S3|]. split; [exact X3|]. split; [exact N3|].
  split; [exact (ready_keeps _ _ K3 Rr1)|]. split; [destruct K3 as (_ & _ & A3), K2 as (_ & _ & A2); congruence|]. split; [congruence|].
  split; [exact E4|]. split; [exact L4|]. split; [exact S4|]. split; [exact X4|]. split; [exact O4|]. split; [exact R4|]. split; [exact U4|exact F4].
Qed.

(* ---- QoS 2 with every response sent by the applications ---- *)
Theorem qos2_completes_manual gs gr cs cr p :
  OWN gs cs -> ready cs -> c_auto_pub cs = false -> ready cr -> c_auto_pub cr = false -> v311_pub p 2 ->
  fresh cs (k_pid p) -> is_used cs (k_pid p) = true -> mem (k_pid p) (c_qos2 cr) = false -> asc 1 (g_idmax gs) (c_qos2 cr) -> 1 <= k_pid p <= g_idmax gs ->
  exists cs1 e1 cr1 e2 cr2 e3 cs2 e4 cs3 e5 cr3 e6 cr4 e7 cs4 e8,
    send_publish_v311 cs p = Ok (cs1, e1) /\ sends e1 = [p] /\ errors e1 = [] /\
    (* receiver: notified once, nothing requested; its application sends PUBREC *)
    deliver gr cr p = Ok (cr1, e2) /\ notifies e2 = [p] /\ sends e2 = [] /\ errors e2 = [] /\
    step gr cr1 (OSend (pubrec_for gr p)) = Ok (cr2, e3, []) /\ sends e3 = [pubrec_for gr p] /\ errors e3 = [] /\ notifies e3 = [] /\
    (* sender: its application is told of the PUBREC, nothing is requested; it sends PUBREL *)
    deliver gs cs1 (pubrec_for gr p) = Ok (cs2, e4) /\ notifies e4 = [pubrec_for gr p] /\ sends e4 = [] /\ errors e4 = [] /\ released e4 = [] /\
    step gs cs2 (OSend (pubrel_for gs p)) = Ok (cs3, e5, []) /\ sends e5 = [pubrel_for gs p] /\ errors e5 = [] /\ notifies e5 = [] /\
    (* receiver: told of the PUBREL (no second PUBLISH notification), forgets the identifier; its application sends PUBCOMP *)
    deliver gr cr2 (pubrel_for gs p) = Ok (cr3, e6) /\ notifies e6 = [pubrel_for gs p] /\ sends e6 = [] /\ errors e6 = [] /\
    step gr cr3 (OSend (pubcomp_for gr p)) = Ok (cr4, e7, []) /\ sends e7 = [pubcomp_for gr p] /\ errors e7 = [] /\ notifies e7 = [] /\
    ready cr4 /\ c_auto_pub cr4 = false /\ c_qos2 cr4 = c_qos2 cr /\
    (* sender: the exchange is complete, the identifier released *)
    deliver gs cs3 (pubcomp_for gr p) = Ok (cs4, e8) /\ released e8 = [k_pid p] /\ sends e8 = [] /\ errors e8 = [] /\
    OWN gs cs4 /\ ready cs4 /\ is_used cs4 (k_pid p) = false /\ fresh cs4 (k_pid p).
Proof.
  intros HO Rs Has Rr Har Hp Hf Hu Hn Hasc Hrg.
  pose proof (sender_sends_x gs cs p 2 HO Rs Hp ltac:(lia) Hf Hu) as H1.
  destruct (send_publish_v311 cs p) as [[cs1 e1]|] eqn:E1; [|destruct H1]. destruct H1 as (S1 & _ & X1 & O1 & R1 & U1 & A1 & M1).
  change (2 =? 2) with true in M1. cbv iota in M1.
  pose proof (receiver_q2_m gr cr p Rr Har Hp Hn) as H2.
  destruct (deliver gr cr p) as [[cr1 e2]|] eqn:E2; [|destruct H2]. destruct H2 as (N2 & S2 & X2 & K2 & Q2).
  pose proof (ready_keeps _ _ K2 Rr) as Rr1.
  destruct (manual_ack gr cr1 T_PUBREC (k_pid p) Rr1 (or_intror (or_introl eq_refl))) as (cr2 & e3 & E3 & S3 & N3 & X3 & K3 & Q3).
  pose proof (ready_keeps _ _ K3 Rr1) as Rr2.
  pose proof (sender_pubrec_m gs cs1 (pubrec_for gr p) O1 R1 ltac:(congruence) eq_refl eq_refl) as H4.
  change (k_pid (pubrec_for gr p)) with (k_pid p) in H4. specialize (H4 M1 U1).
  destruct (deliver gs cs1 (pubrec_for gr p)) as [[cs2 e4]|] eqn:E4; [|destruct H4].
  destruct H4 as (N4 & S4 & X4 & L4 & O2 & R2 & A2 & U2 & F2).
  destruct (sender_pubrel_m gs cs2 (k_pid p) O2 R2 U2 F2) as (cs3 & e5 & E5 & S5 & N5 & X5 & L5 & O3 & R3 & A3 & U3 & M3).
  assert (Ar2 : c_auto_pub cr2 = false) by (destruct K3 as (_ & _ & B3), K2 as (_ & _ & B2); congruence).
  pose proof (receiver_pubrel_m gr cr2 (pubrel_for gs p) Rr2 Ar2 eq_refl) as H6.
  destruct (deliver gr cr2 (pubrel_for gs p)) as [[cr3 e6]|] eqn:E6; [|destruct H6]. destruct H6 as (N6 & S6 & X6 & K6 & Q6).
  change (k_pid (pubrel_for gs p)) with (k_pid p) in Q6.
  pose proof (ready_keeps _ _ K6 Rr2) as Rr3.
  destruct (manual_ack gr cr3 T_PUBCOMP (k_pid p) Rr3 (or_intror (or_intror eq_refl))) as (cr4 & e7 & E7 & S7 & N7 & X7 & K7 & Q7).
  pose proof (sender_final_ack_x gs cs3 (pubcomp_for gr p) T_PUBCOMP O3 R3 eq_refl eq_refl (or_intror eq_refl)) as H8.
  change (T_PUBCOMP =? T_PUBACK) with false in H8. cbv iota in H8. change (k_pid (pubcomp_for gr p)) with (k_pid p) in H8.
  specialize (H8 M3 U3).
  destruct (deliver gs cs3 (pubcomp_for gr p)) as [[cs4 e8]|] eqn:E8; [|destruct H8].
  destruct H8 as (L8 & S8 & X8 & O4 & R4 & _ & U4 & F4).
  exists cs1, e1, cr1, e2, cr2, e3, cs2, e4, cs3, e5, cr3, e6, cr4, e7, cs4, e8.
  split; [reflexivity|]. split; [exact S1|]. split; [exact X1|].
  split; [reflexivity|]. split; [exact N2|]. split; [exact S2|]. split; [exact X2|].
  split; [exact E3|]. split; [exact S3|]. split; [exact X3|]. split; [exact N3|].
  split; [exact E4|]. split; [exact N4|]. split; [exact S4|]. split; [exact X4|]. split; [exact L4|].
  split; [exact E5|]. split; [exact S5|]. split; [exact X5|]. split; [exact N5|].
  split; [exact E6|]. split; [exact N6|]. split; [exact S6|]. split; [exact X6|].
  split; [exact E7|]. split; [exact S7|]. split; [exact X7|]. split; [exact N7|].
  split; [exact (ready_keeps _ _ K7 Rr3)|]. split; [destruct K7 as (_ & _ & B7), K6 as (_ & _ & B6); congruence|].
  split; [rewrite Q7, Q6, Q3, Q2; apply (del_ins_fresh gs); assumption|].
  split; [exact E8|]. split; [exact L8|]. split; [exact S8|]. split; [exact X8|]. split; [exact O4|]. split; [exact R4|]. split; [exact U4|exact F4].
Qed.
