(* C08 over histories: the representation invariant of the packet-identifier allocator (WFpid: sorted,
   disjoint, maximally merged free runs within [1, idmax]) is kept by EVERY call of the model —
   acquire, register, every announced release (all of them guarded by "is in use"), the wholesale
   reset — with one exception that the statement names: the identifiers of stored packets dropped as
   oversize on resume are released without that guard.  So C08's per-call theorems, which assume
   WFpid, apply in every state of every history that drops no stored packet. *)
From MQ Require Import Base.Prelude Alloc.Alloc Alloc.SetSpec Alloc.AllocProofs Framing.Framing
                       Conn.Types Conn.TopicAlias Conn.ConnRecord Conn.Step Conn.Run Corr.ConnTrace Conn.Scope Conn.IdsQuota.

Definition PR (c c' : conn) : Prop := forall g, WFpid g c -> WFpid g c'.
Lemma pr_refl c : PR c c. Proof. unfold PR; auto. Qed.
Lemma pr_trans a b c : PR a b -> PR b c -> PR a c. Proof. unfold PR; auto. Qed.
Lemma pr_frame a b : c_pid b = c_pid a -> PR a b.
Proof. intros H g. unfold WFpid. now rewrite H. Qed.

Lemma wfpid_set_pid g c a :
  WF a -> a_lo a = 1 -> a_hi a = g_idmax g -> a_max a = g_idmax g -> WFpid g (set_pid c a).
Proof. intros. apply WFpid_intro; cbn [set_pid c_pid]; assumption. Qed.

(* a release of an identifier that is in use *)
Lemma release_used_pr c id a : is_used c id = true -> pm_release (c_pid c) id = Ok a -> PR c (set_pid c a).
Proof.
  intros Hu Hr g HW. pose proof HW as (HWF & E1 & E2 & E3).
  rewrite (is_used_spec g c id HW) in Hu. apply andb_true_iff in Hu as [Hr12 Hf]. apply andb_true_iff in Hr12 as [Hr1 Hr2].
  apply N.leb_le in Hr1, Hr2. apply negb_true_iff in Hf. unfold free_in in Hf.
  destruct (deallocate_spec (c_pid c) id HWF) as (a' & HD & HWF' & F1 & F2 & F3 & _); [lia|lia|exact Hf|].
  unfold pm_release in Hr. rewrite HD in Hr. inversion Hr; subst a'. apply wfpid_set_pid; [exact HWF'|congruence|congruence|congruence].
Qed.
Lemma release_if_used_pr c id c' e : release_if_used c id = Ok (c', e) -> PR c c'.
Proof.
  unfold release_if_used. destruct (is_used c id) eqn:Eu; [|intro H; inversion H; apply pr_refl].
  destruct (pm_release _ _) as [a|] eqn:Er; cbn [bindr]; [|discriminate]. intro H; inversion H; subst. now apply (release_used_pr c id).
Qed.
Lemma acquire_pr c r a : pm_acquire (c_pid c) = Ok (r, a) -> PR c (set_pid c a).
Proof.
  intros Ha g HW. pose proof (acquire_spec g c HW) as H. cbn [step] in H. rewrite Ha in H. cbn [bindr] in H.
  destruct r as [x|]; [now destruct H as (_ & _ & _ & _ & _ & H)|]. destruct H as (_ & H & _).
  (* nothing free: the allocator is returned unchanged *)
  unfold pm_acquire, a_allocate in Ha. destruct (a_pool (c_pid c)) as [|[l h] t]; [inversion Ha; subst; apply (pr_frame c); [reflexivity|exact HW]|].
  destruct (l <? h); [destruct (inc _ _); cbn [bindr] in Ha; discriminate|discriminate].
Qed.
Lemma register_pr c id : PR c (set_pid c (snd (pm_register (c_pid c) id))).
Proof.
  intros g HW. pose proof (register_spec g c id HW) as H. cbn [step] in H. destruct (pm_register (c_pid c) id) as [b a]. cbn [snd].
  now destruct H as (_ & _ & _ & H).
Qed.
Lemma clear_pr c : PR c (set_pid c (pm_clear (c_pid c))).
Proof.
  intros g (HWF & E1 & E2 & E3). destruct HWF as (W1 & W2 & _). unfold pm_clear, a_clear. apply wfpid_set_pid; cbn; try assumption.
  unfold WF. cbn. repeat split; try lia.
Qed.

Lemma drain_release_pr ids : forall c a e, drain_release (c_pid c) ids = Ok (a, e) -> PR c (set_pid c a).
Proof.
  induction ids as [|i t IH]; intros c a e; cbn [drain_release].
  - intro H; inversion H; subst. apply pr_frame. reflexivity.
  - destruct (pm_is_used (c_pid c) i) eqn:Eu; [|apply IH].
    destruct (pm_release (c_pid c) i) as [a1|] eqn:Er; cbn [bindr]; [|discriminate].
    destruct (drain_release a1 t) as [[a2 e2]|] eqn:Ed; cbn [bindr]; [|discriminate].
    intro H; inversion H; subst. apply (pr_trans _ (set_pid c a1)); [now apply (release_used_pr c i)|].
    pose proof (IH (set_pid c a1) a e2) as H2. cbn [set_pid c_pid] in H2. specialize (H2 Ed).
    intros g HW. specialize (H2 g HW). unfold WFpid in *. cbn [set_pid c_pid] in *. exact H2.
Qed.

Definition PRR (c : conn) (r : res (conn * list event)) : Prop :=
  match r with Ok (c', _) => PR c c' | Panic _ => True end.
Lemma PRR_trans c c1 r : PR c c1 -> PRR c1 r -> PRR c r.
Proof. destruct r as [[c' e]|]; cbn [PRR]; [|trivial]. intros H1 H2. now apply (pr_trans _ c1). Qed.

(* ---- helpers ---- *)
Lemma post_pr c : PR c (fst (send_post_process c)).
Proof. unfold send_post_process. destruct (c_is_client c); [destruct (0 <? _)|]; apply pr_frame; reflexivity. Qed.
Lemma cancel_pr c : PR c (fst (cancel_timers c)).
Proof. rewrite cancel_timers_state. apply pr_frame. reflexivity. Qed.
Lemma refresh_pr c : PR c (fst (refresh_pingreq_recv c)).
Proof. unfold refresh_pingreq_recv. destruct (negb _); apply pr_frame; reflexivity. Qed.
Lemma validate_alias_pr c a : PR c (snd (validate_topic_alias c a)).
Proof.
  unfold validate_topic_alias. destruct a as [a|]; [|apply pr_refl]. destruct (negb _); [apply pr_refl|].
  destruct (c_ta_send c) as [s|]; [|apply pr_refl]. destruct (tas_get s a) as [[t|] s']; [apply pr_frame; reflexivity|apply pr_refl].
Qed.
Lemma store_add_pr c p c' : store_add c p = Ok c' -> PR c c'.
Proof. unfold store_add. destruct (store_has _ _); [discriminate|]. intro H; inversion H. apply pr_frame. reflexivity. Qed.
Lemma send_and_post_PRR c0 c p rel pre : PR c0 c -> PRR c0 (send_and_post c p rel pre).
Proof.
  intro H. unfold send_and_post. pose proof (post_pr c) as Hp. destruct (send_post_process c) as [c' e]. cbn [fst PRR] in *.
  now apply (pr_trans _ c).
Qed.
Lemma refuse_publish_PRR c id err pre : PRR c (refuse_publish c id err pre).
Proof.
  unfold refuse_publish. destruct (negb (id =? 0) && is_used c id) eqn:E; [|cbn [PRR]; apply pr_refl].
  apply andb_true_iff in E as [_ Eu].
  destruct (pm_release _ _) as [a|] eqn:Er; cbn [bindr PRR]; [|exact I].
  eapply pr_trans; [apply (release_used_pr c id a Eu Er)|]. apply pr_frame. reflexivity.
Qed.

(* ---- automation (head position) ---- *)
Ltac pr_norm :=
  repeat match goal with
         | |- context [if ?b then _ else _] => destruct b eqn:?
         | |- context [match ?o with Some _ => _ | None => _ end] => destruct o eqn:?
         | H : PR _ (if ?b then _ else _) |- _ => destruct b eqn:?
         | H : PR (if ?b then _ else _) _ |- _ => destruct b eqn:?
         | H : PR _ (match ?o with Some _ => _ | None => _ end) |- _ => destruct o eqn:?
         | H : PR (match ?o with Some _ => _ | None => _ end) _ |- _ => destruct o eqn:?
         end.
Ltac pr_search :=
  first [ assumption | apply pr_refl | (apply pr_frame; reflexivity)
        | (unfold clear_store_related; eapply pr_trans; [apply clear_pr|apply pr_frame; reflexivity])
        | multimatch goal with H : PR ?a ?b |- PR ?a ?z => apply (pr_trans a b z); [exact H|clear H; pr_search] end
        | multimatch goal with H : PR ?b ?k |- PR ?a ?z =>
            apply (pr_trans a b z); [apply pr_frame; reflexivity|apply (pr_trans b k z); [exact H|clear H; pr_search]] end ].
Ltac pr_leaf := cbn [PRR]; pr_norm; pr_search.

Ltac ph :=
  first
  [ progress cbn [bindr]
  | match goal with
    | |- PRR _ (Panic _) => exact I
    | |- PRR _ (let '(_, _) := send_post_process ?c in _) =>
        let H := fresh "Hpost" in pose proof (post_pr c) as H; destruct (send_post_process c) as [? ?]; cbn [fst] in H
    | |- PRR _ (let '(_, _) := cancel_timers ?c in _) =>
        let H := fresh "Hcan" in pose proof (cancel_pr c) as H; destruct (cancel_timers c) as [? ?]; cbn [fst] in H
    | |- PRR _ (let '(_, _) := refresh_pingreq_recv ?c in _) =>
        let H := fresh "Href" in pose proof (refresh_pr c) as H; destruct (refresh_pingreq_recv c) as [? ?]; cbn [fst] in H
    | |- PRR _ (bindr (release_if_used ?c ?id) _) =>
        let E := fresh "Erel" in destruct (release_if_used c id) as [[? ?]|] eqn:E; [apply release_if_used_pr in E|]
    | |- PRR _ (bindr (bindr (release_if_used ?c ?id) _) _) =>
        let E := fresh "Erel" in destruct (release_if_used c id) as [[? ?]|] eqn:E; [apply release_if_used_pr in E|]
    | |- PRR _ (bindr (bindr (bindr (release_if_used ?c ?id) _) _) _) =>
        let E := fresh "Erel" in destruct (release_if_used c id) as [[? ?]|] eqn:E; [apply release_if_used_pr in E|]
    | |- PRR _ (release_if_used ?c ?id) =>
        let E := fresh "Erel" in destruct (release_if_used c id) as [[? ?]|] eqn:E; [apply release_if_used_pr in E|]
    | |- PRR _ (bindr (store_add ?c ?p) _) =>
        let E := fresh "Esa" in destruct (store_add c p) as [?|] eqn:E; [apply store_add_pr in E|]
    | |- PRR _ (bindr (bindr (store_add ?c ?p) _) _) =>
        let E := fresh "Esa" in destruct (store_add c p) as [?|] eqn:E; [apply store_add_pr in E|]
    | |- PRR _ (bindr (bindr (bindr (store_add ?c ?p) _) _) _) =>
        let E := fresh "Esa" in destruct (store_add c p) as [?|] eqn:E; [apply store_add_pr in E|]
    | |- PRR _ (bindr (bindr (let '(_, _) := validate_topic_alias ?c ?a in _) _) _) =>
        let H := fresh "Hval" in pose proof (validate_alias_pr c a) as H; destruct (validate_topic_alias c a) as [? ?]; cbn [snd] in H
    | |- PRR _ (bindr (let '(_, _) := validate_topic_alias ?c ?a in _) _) =>
        let H := fresh "Hval" in pose proof (validate_alias_pr c a) as H; destruct (validate_topic_alias c a) as [? ?]; cbn [snd] in H
    | |- PRR _ (refuse_publish ?c ?id ?err ?pre) =>
        eapply PRR_trans; [|apply refuse_publish_PRR]; pr_norm; pr_search
    | |- PRR _ (bindr (refuse_publish ?c ?id ?err ?pre) _) =>
        let H := fresh "Hrp" in pose proof (refuse_publish_PRR c id err pre) as H; destruct (refuse_publish c id err pre) as [[? ?]|]; cbn [PRR] in H
    | |- PRR _ (bindr (bindr (refuse_publish ?c ?id ?err ?pre) _) _) =>
        let H := fresh "Hrp" in pose proof (refuse_publish_PRR c id err pre) as H; destruct (refuse_publish c id err pre) as [[? ?]|]; cbn [PRR] in H
    | |- PRR _ (bindr (bindr (tas_insert ?s ?t ?a) _) _) => destruct (tas_insert s t a) as [?|]
    | |- PRR _ (bindr (bindr (bindr (tas_insert ?s ?t ?a) _) _) _) => destruct (tas_insert s t a) as [?|]
    | |- PRR _ (bindr (bindr (tas_lru ?s) _) _) => destruct (tas_lru s) as [?|]
    | |- PRR _ (let '(_, _) := (_, _) in _) => cbv beta iota
    | |- PRR _ (let '(_, _) := (if ?b then _ else _) in _) => destruct b eqn:?
    | |- PRR _ (if ?b then _ else _) => destruct b eqn:?
    | |- PRR _ (bindr (if ?b then _ else _) _) => destruct b eqn:?
    | |- PRR _ (bindr (bindr (if ?b then _ else _) _) _) => destruct b eqn:?
    | |- PRR _ (bindr (bindr (bindr (if ?b then _ else _) _) _) _) => destruct b eqn:?
    | |- PRR _ (match ?y with _ => _ end) => destruct y eqn:?
    | |- PRR _ (bindr (match ?y with _ => _ end) _) => destruct y eqn:?
    | |- PRR _ (bindr (bindr (match ?y with _ => _ end) _) _) => destruct y eqn:?
    | |- PRR _ (bindr (bindr (bindr (match ?y with _ => _ end) _) _) _) => destruct y eqn:?
    end ].
Ltac pr_final :=
  match goal with
  | |- PRR _ (Panic _) => exact I
  | |- PRR _ (Ok _) => pr_leaf
  | |- PRR _ (send_and_post _ _ _ _) => pr_norm; (apply send_and_post_PRR; pr_search)
  end.
Ltac pr_auto := cbv zeta; repeat ph; try pr_final.

Lemma send_plain_PRR c p : PRR c (send_plain c p). Proof. unfold send_plain. pr_auto. Qed.
Lemma send_connect_PRR c p : PRR c (send_connect c p). Proof. unfold send_connect, initialize. pr_auto. Qed.
Lemma send_publish_v311_PRR c p : PRR c (send_publish_v311 c p). Proof. unfold send_publish_v311. pr_auto. Qed.
Lemma send_publish_v5_PRR g c p : PRR c (send_publish_v5 g c p). Proof. unfold send_publish_v5. pr_auto. Qed.
Lemma send_puback_like_PRR c p : PRR c (send_puback_like c p). Proof. unfold send_puback_like. pr_auto. Qed.
Lemma send_pubrel_PRR c p : PRR c (send_pubrel c p). Proof. unfold send_pubrel. pr_auto. Qed.
Lemma send_sub_unsub_PRR c p : PRR c (send_sub_unsub c p). Proof. unfold send_sub_unsub. pr_auto. Qed.
Lemma send_pingreq_PRR c p : PRR c (send_pingreq c p). Proof. unfold send_pingreq. pr_auto. Qed.
Lemma send_disconnect_PRR c p : PRR c (send_disconnect c p). Proof. unfold send_disconnect. pr_auto. Qed.
Lemma send_auth_PRR c p : PRR c (send_auth c p). Proof. unfold send_auth. pr_auto. Qed.

(* ---- resume: the one place where identifiers are released without the guard ---- *)
Definition no_drop (mps : N) (l : list pkt) : bool := forallb (fun q => k_size q <=? mps) l.
Lemma no_drop_spec mps l : no_drop mps l = true -> snd (send_stored_l mps l) = [].
Proof.
  unfold no_drop. induction l as [|p t IH]; cbn [send_stored_l forallb]; [reflexivity|].
  intro H. apply andb_true_iff in H as [Hp Ht]. specialize (IH Ht). destruct (send_stored_l mps t) as [k d]. cbn [snd] in *.
  apply N.leb_le in Hp. destruct (mps <? k_size p) eqn:E; [apply N.ltb_lt in E; lia|]. exact IH.
Qed.
Lemma send_stored_PRR c : no_drop (c_mps_send c) (c_store c) = true -> PRR c (send_stored c).
Proof.
  intro Hn. unfold send_stored. pose proof (no_drop_spec _ _ Hn) as Hd. destruct (send_stored_l _ _) as [kept dropped]. cbn [snd] in Hd. subst dropped.
  cbv zeta. cbn [map release_all bindr PRR]. apply pr_frame. destruct (c_send_max _); reflexivity.
Qed.

Lemma connack_send_props_pr c p : PR c (fst (connack_send_props c p)) /\
  c_store (fst (connack_send_props c p)) = c_store c /\ c_mps_send (fst (connack_send_props c p)) = c_mps_send c.
Proof.
  unfold connack_send_props. destruct (_ && _); [|split; [apply pr_refl|split; reflexivity]].
  repeat match goal with |- context [match ?o with Some _ => _ | None => _ end] => destruct o
                    | |- context [if ?b then _ else _] => destruct b end; (split; [apply pr_frame; reflexivity|split; reflexivity]).
Qed.
Lemma send_connack_PRR c p : no_drop (c_mps_send c) (c_store c) = true -> PRR c (send_connack c p).
Proof.
  intro Hn. unfold send_connack. destruct (_ && _); [cbn [PRR]; apply pr_refl|]. destruct (negb _); [cbn [PRR]; apply pr_refl|]. cbv zeta.
  pose proof (connack_send_props_pr c p) as (K1 & K2 & K3). destruct (connack_send_props c p) as [c1 pre]. cbn [fst] in *.
  destruct (negb _).
  - pose proof (cancel_pr (set_status c1 Disconnected)) as Hc. destruct (cancel_timers _) as [c2 e]. cbn [fst PRR] in *.
    eapply pr_trans; [exact K1|]. eapply pr_trans; [|exact Hc]. apply pr_frame. reflexivity.
  - assert (Hn1 : no_drop (c_mps_send (set_status c1 Connected)) (c_store (set_status c1 Connected)) = true) by (conn_simpl; now rewrite K2, K3).
    pose proof (send_stored_PRR _ Hn1) as H. destruct (send_stored _) as [[c2 es]|]; cbn [bindr PRR] in *; [|exact I].
    pose proof (post_pr c2) as Hp. destruct (send_post_process c2) as [c3 e3]. cbn [fst PRR] in *.
    eapply pr_trans; [exact K1|]. eapply pr_trans; [apply pr_frame; reflexivity|]. eapply pr_trans; [exact H|exact Hp].
Qed.

(* the calls that resume a session *)
Definition send_no_drop (c : conn) (p : pkt) : bool :=
  negb (k_type p =? T_CONNACK) || no_drop (c_mps_send c) (c_store c).

Lemma dispatch_send_PRR g c p : send_no_drop c p = true -> PRR c (dispatch_send g c p).
Proof.
  intro Hn. unfold send_no_drop in Hn. unfold dispatch_send. cbv zeta.
  destruct (k_type p =? T_CONNECT); [apply send_connect_PRR|].
  destruct (k_type p =? T_CONNACK); [cbn [negb orb] in Hn; now apply send_connack_PRR|].
  destruct (k_type p =? T_PUBLISH); [destruct (version_eqb _ _); [apply send_publish_v5_PRR|apply send_publish_v311_PRR]|].
  destruct ((k_type p =? T_PUBACK) || (k_type p =? T_PUBREC) || (k_type p =? T_PUBCOMP)); [apply send_puback_like_PRR|].
  destruct (k_type p =? T_PUBREL); [apply send_pubrel_PRR|].
  destruct ((k_type p =? T_SUBSCRIBE) || (k_type p =? T_UNSUBSCRIBE)); [apply send_sub_unsub_PRR|].
  destruct ((k_type p =? T_SUBACK) || (k_type p =? T_UNSUBACK) || (k_type p =? T_PINGRESP)); [apply send_plain_PRR|].
  destruct (k_type p =? T_PINGREQ); [apply send_pingreq_PRR|].
  destruct (k_type p =? T_DISCONNECT); [apply send_disconnect_PRR|].
  destruct (k_type p =? T_AUTH); [apply send_auth_PRR|]. cbn [PRR]. apply pr_refl.
Qed.
Lemma do_send_PRR g c p : send_no_drop c p = true -> PRR c (do_send g c p).
Proof.
  intro Hn. unfold do_send. cbv zeta.
  repeat match goal with |- PRR _ (if ?b then _ else _) => destruct b end; first [now apply dispatch_send_PRR|cbn [PRR]; apply pr_refl].
Qed.

(* ---- error handlers, receive side ---- *)
Lemma close_with_disconnect_PRR c p : PRR c (close_with_disconnect c p).
Proof. unfold close_with_disconnect. destruct (_ && _); [pr_auto|apply send_disconnect_PRR]. Qed.
Lemma handle_v5_error_PRR c e : PRR c (handle_v5_error c e).
Proof.
  unfold handle_v5_error. pose proof (close_with_disconnect_PRR c (disconnect_v5 (disc_rc_of_err e))) as H.
  destruct (close_with_disconnect _ _) as [[c' ev]|]; cbn [bindr PRR] in *; [exact H|exact I].
Qed.
Lemma handle_error_PRR c v e : PRR c (handle_error c v e).
Proof. unfold handle_error. destruct (version_eqb v V50); [apply handle_v5_error_PRR|cbn [PRR]; apply pr_refl]. Qed.

Ltac pcall :=
  match goal with
  | |- PRR _ (handle_v5_error ?c ?e) => eapply PRR_trans; [|apply handle_v5_error_PRR]; pr_norm; pr_search
  | |- PRR _ (handle_error ?c ?v ?e) => eapply PRR_trans; [|apply handle_error_PRR]; pr_norm; pr_search
  | |- PRR _ (bindr (handle_v5_error ?c ?e) _) =>
      let H := fresh "Hk" in pose proof (handle_v5_error_PRR c e) as H; destruct (handle_v5_error c e) as [[? ?]|]; cbn [PRR] in H
  | |- PRR _ (bindr (send_puback_like ?c ?p) _) =>
      let H := fresh "Hk" in pose proof (send_puback_like_PRR c p) as H; destruct (send_puback_like c p) as [[? ?]|]; cbn [PRR] in H
  | |- PRR _ (bindr (send_pubrel ?c ?p) _) =>
      let H := fresh "Hk" in pose proof (send_pubrel_PRR c p) as H; destruct (send_pubrel c p) as [[? ?]|]; cbn [PRR] in H
  | |- PRR _ (bindr (send_plain ?c ?p) _) =>
      let H := fresh "Hk" in pose proof (send_plain_PRR c p) as H; destruct (send_plain c p) as [[? ?]|]; cbn [PRR] in H
  | |- PRR _ (bindr (close_with_disconnect ?c ?p) _) =>
      let H := fresh "Hk" in pose proof (close_with_disconnect_PRR c p) as H; destruct (close_with_disconnect c p) as [[? ?]|]; cbn [PRR] in H
  end.

Lemma note_inbound_pr c p : PR c (note_inbound c p).
Proof. unfold note_inbound. destruct (negb _); apply pr_frame; reflexivity. Qed.
Lemma note_handled_pr c p : PR c (note_handled c p).
Proof. unfold note_handled. destruct (_ =? _); apply pr_frame; reflexivity. Qed.
Lemma store_erase_pr c v t id : PR c (store_erase c v t id).
Proof. unfold store_erase. apply pr_frame. reflexivity. Qed.
Ltac pr_gen :=
  repeat match goal with
         | |- context [note_handled ?c ?p] => let H := fresh in pose proof (note_handled_pr c p) as H; generalize dependent (note_handled c p); intros
         | _ : context [note_handled ?c ?p] |- _ => let H := fresh in pose proof (note_handled_pr c p) as H; generalize dependent (note_handled c p); intros
         | |- context [note_inbound ?c ?p] => let H := fresh in pose proof (note_inbound_pr c p) as H; generalize dependent (note_inbound c p); intros
         | _ : context [note_inbound ?c ?p] |- _ => let H := fresh in pose proof (note_inbound_pr c p) as H; generalize dependent (note_inbound c p); intros
         | |- context [store_erase ?c ?v ?t ?i] => let H := fresh in pose proof (store_erase_pr c v t i) as H; generalize dependent (store_erase c v t i); intros
         | _ : context [store_erase ?c ?v ?t ?i] |- _ => let H := fresh in pose proof (store_erase_pr c v t i) as H; generalize dependent (store_erase c v t i); intros
         end.
Ltac pr_final3 := match goal with |- PRR _ (Panic _) => exact I | |- PRR _ (Ok _) => cbn [PRR]; pr_gen; pr_norm; pr_search end.
Ltac pr_auto3 := cbv zeta; repeat first [pcall | ph]; try pr_final3.

Lemma recv_publish_v311_PRR g c pr : PRR c (recv_publish_v311 g c pr).
Proof. unfold recv_publish_v311, handle_v311_error. destruct pr as [p|e]; pr_auto3. Qed.
Lemma resolve_recv_alias_PRR g c p :
  match resolve_recv_alias g c p with Ok (c', _, _, _) => PR c c' | Panic _ => True end.
Proof.
  unfold resolve_recv_alias.
  repeat match goal with
         | |- match bindr (handle_v5_error ?cc ?e) _ with _ => _ end =>
             let H := fresh "Hk" in pose proof (handle_v5_error_PRR cc e) as H; destruct (handle_v5_error cc e) as [[? ?]|]; cbn [bindr PRR] in *
         | |- match bindr (tar_insert ?r ?t ?a) _ with _ => _ end => destruct (tar_insert r t a) as [?|]; cbn [bindr]
         | |- match (if ?b then _ else _) with _ => _ end => destruct b
         | |- match (match ?o with Some _ => _ | None => _ end) with _ => _ end => destruct o
         end; try exact I; try assumption; first [apply pr_refl|apply pr_frame; reflexivity].
Qed.
Lemma recv_publish_v5_PRR g c pr : PRR c (recv_publish_v5 g c pr).
Proof.
  unfold recv_publish_v5. destruct pr as [p|e]; [|pr_auto3]. cbv zeta.
  destruct (_ && _); [apply handle_v5_error_PRR|].
  pose proof (resolve_recv_alias_PRR g (note_inbound c p) p) as Hr.
  destruct (resolve_recv_alias g (note_inbound c p) p) as [[[[c1 q] st] e0]|]; cbn [bindr]; [|exact I].
  pose proof (note_inbound_pr c p) as Hn. assert (Hc1 : PR c c1) by (now apply (pr_trans _ (note_inbound c p))).
  clear Hr Hn. generalize dependent (note_inbound c p). intros _.
  destruct st; [cbn [PRR]; exact Hc1|]. pr_auto3.
Qed.
Lemma recv_ack_PRR g c v t pr : PRR c (recv_ack g c v t pr).
Proof. unfold recv_ack. destruct pr as [p|e]; [|apply handle_error_PRR]. pr_auto3. Qed.
Lemma recv_pubrel_PRR g c v pr : PRR c (recv_pubrel g c v pr).
Proof. unfold recv_pubrel. destruct pr as [p|e]; [|apply handle_error_PRR]. pr_auto3. Qed.
Lemma recv_notify_PRR c v pr : PRR c (recv_notify c v pr).
Proof. unfold recv_notify. destruct pr as [p|e]; [|apply handle_error_PRR]. pr_auto3. Qed.
Lemma recv_pingreq_PRR g c v pr : PRR c (recv_pingreq g c v pr).
Proof. unfold recv_pingreq. destruct pr as [p|e]; [|apply handle_error_PRR]. pr_auto3. Qed.
Lemma recv_pingresp_PRR c v pr : PRR c (recv_pingresp c v pr).
Proof. unfold recv_pingresp. destruct pr as [p|e]; [|apply handle_error_PRR]. pr_auto3. Qed.
Lemma recv_disconnect_PRR c v pr : PRR c (recv_disconnect c v pr).
Proof. unfold recv_disconnect. destruct pr as [p|e]; [|apply handle_error_PRR]. pr_auto3. Qed.

Lemma connect_recv_state_pr c v p c' : connect_recv_state c v p = Ok c' -> PR c c'.
Proof.
  unfold connect_recv_state, initialize. cbv zeta.
  repeat match goal with
         | |- context [if ?b then _ else _] => destruct b
         | |- context [match ?o with Some _ => _ | None => _ end] => destruct o
         | |- context [tas_new ?m] => destruct (tas_new m)
         end; cbn [bindr]; try discriminate; intro H; injection H as <-;
    first [ (apply pr_frame; reflexivity)
          | (unfold clear_store_related; eapply pr_trans; [|apply pr_frame; reflexivity];
             match goal with |- PR ?a _ => eapply pr_trans; [apply (clear_pr a)|apply pr_frame; reflexivity] end) ].
Qed.

Lemma recv_connect_PRR g c v pr : PRR c (recv_connect g c v pr).
Proof.
  unfold recv_connect. destruct (negb _); [apply handle_error_PRR|].
  destruct pr as [p|e].
  - destruct (connect_recv_state _ v p) as [c1|] eqn:E; cbn [bindr]; [|exact I]. apply connect_recv_state_pr in E.
    pose proof (refresh_pr c1) as Hr. destruct (refresh_pingreq_recv c1) as [c2 e2]. cbn [fst PRR] in *.
    eapply pr_trans; [apply pr_frame; reflexivity|]. eapply pr_trans; [exact E|exact Hr].
  - (* the refusal CONNACK has a failure code: nothing is resumed *)
    unfold send_connack. destruct (_ && _); [cbn [bindr PRR]; apply pr_frame; reflexivity|].
    destruct (negb _); [cbn [bindr PRR]; apply pr_frame; reflexivity|]. cbv zeta.
    pose proof (connack_send_props_pr (set_status c Connecting) (connect_refusal v e)) as (K1 & _ & _).
    destruct (connack_send_props _ _) as [c1 pre]. cbn [fst] in K1.
    assert (Hrc : (k_rc (connect_refusal v e) =? 0) = false).
    { unfold connect_refusal, connack_v5, connack_v311, simple_pkt. repeat match goal with |- context [if ?b then _ else _] => destruct b end; reflexivity. }
    rewrite Hrc. cbn [negb].
    pose proof (cancel_pr (set_status c1 Disconnected)) as Hc. destruct (cancel_timers _) as [c2 e2]. cbn [fst bindr PRR] in *.
    eapply pr_trans; [apply pr_frame; reflexivity|]. eapply pr_trans; [exact K1|]. eapply pr_trans; [apply pr_frame; reflexivity|exact Hc].
Qed.

Lemma connack_recv_limits_pr c p c' : connack_recv_limits c p = Ok c' ->
  c_pid c' = c_pid c /\ c_store c' = c_store c /\ c_mps_send c' = match k_mps p with Some m => m | None => c_mps_send c end.
Proof.
  unfold connack_recv_limits.
  repeat match goal with
         | |- context [if ?b then _ else _] => destruct b
         | |- context [match ?o with Some _ => _ | None => _ end] => destruct o
         | |- context [tas_new ?m] => destruct (tas_new m)
         end; cbn [bindr]; try discriminate; intro H; injection H as <-; repeat split; reflexivity.
Qed.
Lemma connack_recv_ska_fr c p : c_pid (fst (connack_recv_ska c p)) = c_pid c /\ c_store (fst (connack_recv_ska c p)) = c_store c /\
                                c_mps_send (fst (connack_recv_ska c p)) = c_mps_send c.
Proof.
  unfold connack_recv_ska.
  repeat match goal with |- context [if ?b then _ else _] => destruct b
                    | |- context [match ?o with Some _ => _ | None => _ end] => destruct o end; repeat split; reflexivity.
Qed.

(* the limit a received CONNACK puts in force *)
Definition connack_limit (c : conn) (v : version) (p : pkt) : N :=
  if version_eqb v V50 then match k_mps p with Some m => m | None => c_mps_send c end else c_mps_send c.

Lemma recv_connack_PRR c v p : no_drop (connack_limit c v p) (c_store c) = true -> PRR c (recv_connack c v (PROk p)).
Proof.
  intro Hn. unfold connack_limit in Hn. unfold recv_connack.
  destruct (status_eqb (c_status c) Connected); [apply handle_error_PRR|].
  destruct (k_rc p =? 0); [|cbn [PRR]; apply pr_refl].
  assert (Hres : forall c0 b, (b = true -> no_drop (c_mps_send c0) (c_store c0) = true) -> PRR c0 (resume_or_clear c0 b)).
  { intros c0 b Hb. unfold resume_or_clear. destruct b.
    - pose proof (send_stored_PRR c0 (Hb eq_refl)) as H. destruct (send_stored c0) as [[c1 es]|]; cbn [bindr PRR] in *; [|exact I].
      destruct (existsb _ _); [|exact H]. pose proof (post_pr c1) as Hp. destruct (send_post_process c1) as [c2 e2]. cbn [fst PRR] in *. now apply (pr_trans _ c1).
    - cbn [PRR]. unfold clear_store_related. eapply pr_trans; [apply clear_pr|apply pr_frame; reflexivity]. }
  destruct (version_eqb v V50).
  - destruct (connack_recv_limits _ p) as [c1|] eqn:E1; cbn [bindr]; [|exact I].
    apply connack_recv_limits_pr in E1 as (P1 & S1 & M1). conn_simpl.
    pose proof (connack_recv_ska_fr c1 p) as (P2 & S2 & M2). destruct (connack_recv_ska c1 p) as [c2 e1]. cbn [fst] in *.
    assert (K3 : PR c2 (connack_recv_sei c2 p) /\ (forall q, In q (c_store (connack_recv_sei c2 p)) -> In q (c_store c2)) /\
                 c_mps_send (connack_recv_sei c2 p) = c_mps_send c2).
    { unfold connack_recv_sei. destruct (k_sei p); [destruct (_ =? 0)|].
      - split; [|split; [unfold clear_store_related; conn_simpl; intros q []|reflexivity]].
        eapply pr_trans; [apply (pr_frame c2 (set_need_store c2 false)); reflexivity|].
        unfold clear_store_related. eapply pr_trans; [apply (clear_pr (set_need_store c2 false))|apply pr_frame; reflexivity].
      - split; [apply pr_frame; reflexivity|split; [auto|reflexivity]].
      - split; [apply pr_refl|split; [auto|reflexivity]]. }
    destruct K3 as (K3 & K4 & K5).
    assert (Hb : k_flag p = true -> no_drop (c_mps_send (connack_recv_sei c2 p)) (c_store (connack_recv_sei c2 p)) = true).
    { intros _. rewrite K5, M2, M1. unfold no_drop in *. apply forallb_forall. intros q Hq. rewrite forallb_forall in Hn. apply Hn.
      rewrite <- S1, <- S2. now apply K4. }
    pose proof (Hres (connack_recv_sei c2 p) (k_flag p) Hb) as H.
    destruct (resume_or_clear _ _) as [[c3 e2]|]; cbn [bindr PRR] in *; [|exact I].
    eapply pr_trans; [apply pr_frame; reflexivity|]. eapply pr_trans; [apply (pr_frame _ c1); exact P1|].
    eapply pr_trans; [apply (pr_frame _ c2); exact P2|]. eapply pr_trans; [exact K3|exact H].
  - assert (Hb : k_flag p = true -> no_drop (c_mps_send (set_status c Connected)) (c_store (set_status c Connected)) = true) by (intros _; exact Hn).
    pose proof (Hres (set_status c Connected) (k_flag p) Hb) as H.
    destruct (resume_or_clear _ _) as [[c3 e2]|]; cbn [bindr PRR] in *; [|exact I].
    eapply pr_trans; [apply pr_frame; reflexivity|exact H].
Qed.
Lemma recv_connack_err_PRR c v e : PRR c (recv_connack c v (PRErr e)).
Proof.
  unfold recv_connack. destruct (status_eqb (c_status c) Connected); [apply handle_error_PRR|].
  destruct (version_eqb v V50); cbn [PRR]; apply pr_refl.
Qed.

(* a received CONNACK that drops no stored packet (under the limit it puts in force) *)
Definition recv_no_drop (c : conn) (v : version) (pr : presult) : bool :=
  match pr with
  | PROk p => negb (k_type p =? T_CONNACK) || no_drop (connack_limit c v p) (c_store c)
  | PRErr _ => true
  end.
Definition pr_type_ok (t : N) (pr : presult) : Prop := match pr with PROk p => k_type p = t | PRErr _ => True end.

Lemma dispatch_recv_PRR g c v t pr : pr_type_ok t pr -> recv_no_drop c v pr = true -> PRR c (dispatch_recv g c v t pr).
Proof.
  intros Ht Hn. unfold dispatch_recv.
  destruct (t =? 1); [apply recv_connect_PRR|].
  destruct (t =? 2) eqn:E2.
  { destruct pr as [p|e]; [|apply recv_connack_err_PRR]. cbn [pr_type_ok recv_no_drop] in *. apply N.eqb_eq in E2. rewrite E2 in Ht.
    rewrite Ht in Hn. change (2 =? T_CONNACK) with true in Hn. cbn [negb orb] in Hn. now apply recv_connack_PRR. }
  repeat match goal with |- PRR _ (if ?b then _ else _) => destruct b end;
    first [ apply recv_publish_v5_PRR | apply recv_publish_v311_PRR | apply recv_ack_PRR | apply recv_pubrel_PRR
          | apply recv_notify_PRR | apply recv_pingreq_PRR | apply recv_pingresp_PRR | apply recv_disconnect_PRR
          | (cbn [PRR]; apply pr_refl) ].
Qed.

Lemma process_recv_packet_PRR g c fh body pr :
  pr_type_ok (fh / 16) pr -> recv_no_drop c (c_version c) pr = true -> PRR c (process_recv_packet g c fh body pr).
Proof.
  intros Ht Hn. unfold process_recv_packet. cbv zeta.
  destruct (_ <? _).
  { destruct (status_eqb _ _).
    - pose proof (close_with_disconnect_PRR c (disconnect_v5 149)) as H. destruct (close_with_disconnect _ _) as [[c1 e1]|]; cbn [bindr PRR] in *; [exact H|exact I].
    - pose proof (cancel_pr (set_status c Disconnected)) as H. destruct (cancel_timers _) as [c1 e1]. cbn [fst PRR] in *.
      eapply pr_trans; [apply pr_frame; reflexivity|exact H]. }
  destruct (negb _); [cbn [PRR]; apply pr_refl|].
  destruct (c_version c); try (now apply dispatch_recv_PRR).
  repeat match goal with |- PRR _ (if ?b then _ else _) => destruct b end;
    first [ (eapply PRR_trans; [|apply recv_connect_PRR]; apply pr_frame; reflexivity) | (cbn [PRR]; apply pr_refl) ].
Qed.

Definition oracle_ok (c : conn) (bytes : list N) (pr : presult) : Prop :=
  match feed (c_pb c) bytes with
  | (FComplete hdr _, _, _) => pr_type_ok (hd 0 hdr / 16) pr
  | _ => True
  end.

Lemma do_recv_PRR g c bytes pr :
  oracle_ok c bytes pr -> recv_no_drop c (c_version c) pr = true ->
  match do_recv g c bytes pr with Ok (c', _, _) => PR c c' | Panic _ => True end.
Proof.
  unfold oracle_ok, do_recv. destruct (feed (c_pb c) bytes) as [[r pb'] rest]. intros Ho Hn. destruct r.
  - assert (Hn' : recv_no_drop (set_pb c pb') (c_version (set_pb c pb')) pr = true) by exact Hn.
    pose proof (process_recv_packet_PRR g (set_pb c pb') (hd 0 hdr) body pr Ho Hn') as H.
    destruct (process_recv_packet g _ _ body pr) as [[c1 e1]|]; cbn [bindr PRR] in *; [|exact I].
    eapply pr_trans; [apply pr_frame; reflexivity|exact H].
  - apply pr_frame. reflexivity.
  - pose proof (cancel_pr (set_pb c pb')) as H. destruct (cancel_timers (set_pb c pb')) as [c1 e1]. cbn [fst] in H.
    eapply pr_trans; [apply pr_frame; reflexivity|exact H].
Qed.

Lemma do_timer_PRR c k : PRR c (do_timer c k).
Proof.
  unfold do_timer. destruct k; cbv zeta.
  - destruct (status_eqb _ _); [|cbn [PRR]; apply pr_frame; reflexivity].
    destruct (c_version _); try exact I; (eapply PRR_trans; [|apply send_pingreq_PRR]); apply pr_frame; reflexivity.
  - destruct (c_version _); try exact I; [cbn [PRR]; apply pr_frame; reflexivity|].
    destruct (status_eqb _ _); [|cbn [PRR]; apply pr_frame; reflexivity].
    (eapply PRR_trans; [|apply close_with_disconnect_PRR]); apply pr_frame; reflexivity.
  - destruct (c_version _); try exact I; [cbn [PRR]; apply pr_frame; reflexivity|].
    destruct (status_eqb _ _); [|cbn [PRR]; apply pr_frame; reflexivity].
    (eapply PRR_trans; [|apply close_with_disconnect_PRR]); apply pr_frame; reflexivity.
Qed.

Definition WFa (g : cfg) (a : alloc) : Prop := WF a /\ a_lo a = 1 /\ a_hi a = g_idmax g /\ a_max a = g_idmax g.
Lemma drain_release_wfa g ids a a' e : WFa g a -> drain_release a ids = Ok (a', e) -> WFa g a'.
Proof.
  intros HW Hd. pose proof (drain_release_pr ids (set_pid (conn_new g V311) a) a' e) as H. cbn [set_pid c_pid] in H.
  specialize (H Hd g). unfold WFpid in H. cbn [set_pid c_pid] in H. now apply H.
Qed.

Lemma do_closed_PRR c : PRR c (do_closed c).
Proof.
  destruct (do_closed c) as [[c' e]|] eqn:E; [|exact I]. cbn [PRR]. intros g HW. change (WFa g (c_pid c)) in HW. change (WFa g (c_pid c')).
  revert E. closed_walk; conn_simpl_goal; conn_simpl;
    repeat match goal with H : drain_release ?a ?ids = Ok (?a', _) |- _ =>
             match goal with HWa : WFa g a |- _ => pose proof (drain_release_wfa g ids a a' _ HWa H); clear H end end;
    assumption.
Qed.

Lemma do_restore_pr l : forall c, PR c (do_restore c l).
Proof.
  induction l as [|p t IH]; intro c; cbn [do_restore]; [apply pr_refl|].
  eapply pr_trans; [|apply IH]. destruct (_ && _); [apply pr_refl|].
  pose proof (register_pr c (k_pid p)) as Hr. destruct (pm_register _ _) as [ok a]. cbn [snd] in Hr. destruct ok; [|apply pr_refl].
  eapply pr_trans; [exact Hr|]. unfold store_add_soft.
  repeat match goal with |- context [if ?b then _ else _] => destruct b end; apply pr_frame; reflexivity.
Qed.

(* the calls that drop no stored packet *)
Definition drops_nothing (c : conn) (o : op) : bool :=
  match o with
  | OSend p => send_no_drop c p
  | ORecv _ pr => recv_no_drop c (c_version c) pr
  | _ => true
  end.
Definition op_oracle_ok (c : conn) (o : op) : Prop :=
  match o with ORecv bytes pr => oracle_ok c bytes pr | _ => True end.

(* EVERY call keeps the allocator's representation invariant *)
Theorem step_keeps_WFpid g c o :
  op_oracle_ok c o -> drops_nothing c o = true -> WFpid g c ->
  match step g c o with Ok (c', _, _) => WFpid g c' | Panic _ => True end.
Proof.
  intros Ho Hn HW. destruct o; cbn [step drops_nothing op_oracle_ok] in *.
  - pose proof (do_send_PRR g c p Hn) as H. destruct (do_send g c p) as [[c' e]|]; cbn [bindr PRR] in *; [now apply H|exact I].
  - pose proof (do_recv_PRR g c bytes pr Ho Hn) as H. destruct (do_recv g c bytes pr) as [[[c' e] r]|]; cbn [bindr] in *; [now apply H|exact I].
  - pose proof (do_timer_PRR c k) as H. destruct (do_timer c k) as [[c' e]|]; cbn [bindr PRR] in *; [now apply H|exact I].
  - pose proof (do_closed_PRR c) as H. destruct (do_closed c) as [[c' e]|]; cbn [bindr PRR] in *; [now apply H|exact I].
  - unfold do_set_pingreq_interval. cbv zeta.
    repeat match goal with
           | |- context [match ?y with Some _ => _ | None => _ end] => destruct y
           | |- context [if ?b then _ else _] => destruct b
           end; cbn [bindr]; exact HW.
  - exact HW.
  - destruct b; exact HW.
  - exact HW.
  - exact HW.
  - exact HW.
  - exact HW.
  - destruct (pm_acquire (c_pid c)) as [[r a]|] eqn:Ea; cbn [bindr]; [|exact I]. now apply (acquire_pr c r a Ea).
  - pose proof (register_pr c id g HW) as H. destruct (pm_register (c_pid c) id) as [b a]. exact H.
  - destruct (release_if_used c id) as [[c' e]|] eqn:E; cbn [bindr]; [|exact I]. now apply (release_if_used_pr c id c' e E).
  - unfold do_erase. destruct (store_erase_publish_l _ _) as [b l]. destruct b; [|exact HW]. cbv zeta.
    match goal with |- context [release_if_used ?y ?i] => destruct (release_if_used y i) as [[c' e]|] eqn:E end; cbn [bindr]; [|exact I].
    apply (release_if_used_pr _ _ _ _ E). destruct (c_send_max _); [destruct (0 <? _)|]; exact HW.
  - now apply do_restore_pr.
  - exact HW.
  - exact HW.
Qed.

(* over histories *)
Fixpoint history_drops_nothing (g : cfg) (c : conn) (ops : list op) : Prop :=
  match ops with
  | [] => True
  | o :: t => op_oracle_ok c o /\ drops_nothing c o = true /\
              match step g c o with Ok (c', _, _) => history_drops_nothing g c' t | Panic _ => True end
  end.
Theorem WFpid_invariant g : forall ops c,
  WFpid g c -> history_drops_nothing g c ops ->
  match run_state g c ops with Some c' => WFpid g c' | None => True end.
Proof.
  induction ops as [|o t IH]; intros c HW Hq; cbn [run_state history_drops_nothing] in *; [exact HW|].
  destruct Hq as (Ho & Hn & Hq). pose proof (step_keeps_WFpid g c o Ho Hn HW) as Hs.
  destruct (step g c o) as [[[c' e] r]|]; [|exact I]. now apply IH.
Qed.
Corollary fresh_WFpid_invariant g v ops :
  1 <= g_idmax g -> history_drops_nothing g (conn_new g v) ops ->
  match run_state g (conn_new g v) ops with Some c' => WFpid g c' | None => True end.
Proof. intros Hm Hq. apply WFpid_invariant; [now apply conn_new_WFpid|exact Hq]. Qed.
