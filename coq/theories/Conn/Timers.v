(* C15 — the timer events of every call track the connection's own timer flags exactly
   (all states): replaying the reset/cancel requests of the returned event list over the flags
   before the call gives the flags after the call, and a cancel is only ever requested for a
   timer whose flag is set.  Consequences: after notify_closed and after a DISCONNECT is sent no
   timer is armed. *)
From MQ Require Import Base.Prelude Alloc.Alloc Alloc.SetSpec Framing.Framing
                       Conn.Types Conn.TopicAlias Conn.ConnRecord Conn.Step Conn.Run Corr.ConnTrace.

Notation flags3 := (bool * bool * bool)%type.
Definition flags (c : conn) : flags3 := (c_t_send c, c_t_recv c, c_t_resp c).

Definition fget (f : flags3) (k : timer) : bool :=
  let '(a, b, d) := f in match k with TPingreqSend => a | TPingreqRecv => b | TPingrespRecv => d end.
Definition fset (f : flags3) (k : timer) (v : bool) : flags3 :=
  let '(a, b, d) := f in
  match k with TPingreqSend => (v, b, d) | TPingreqRecv => (a, v, d) | TPingrespRecv => (a, b, v) end.

(* replay; None = a cancel for a timer that is not armed *)
Fixpoint trackb (f : flags3) (l : list event) : option flags3 :=
  match l with
  | [] => Some f
  | ETimerReset k _ :: t => trackb (fset f k true) t
  | ETimerCancel k :: t => if fget f k then trackb (fset f k false) t else None
  | _ :: t => trackb f t
  end.

Lemma trackb_app f a b :
  trackb f (a ++ b) = match trackb f a with Some f' => trackb f' b | None => None end.
Proof.
  revert f; induction a as [|e t IH]; intro f; cbn [app trackb]; [reflexivity|].
  destruct e; try apply IH. destruct (fget f k); [apply IH|reflexivity].
Qed.

Definition no_timer_ev (e : event) : bool :=
  match e with ETimerReset _ _ | ETimerCancel _ => false | _ => true end.
Definition notimers (l : list event) : bool := forallb no_timer_ev l.

Lemma trackb_notimers f l : notimers l = true -> trackb f l = Some f.
Proof.
  induction l as [|e t IH]; cbn [notimers forallb trackb]; intro H; [reflexivity|].
  apply andb_true_iff in H as [He Ht]. destruct e; cbn in He; try discriminate; auto.
Qed.

(* the relative statement: whatever was tracked up to the state c continues to track through r *)
Definition TF (c : conn) (r : res (conn * list event)) : Prop :=
  match r with
  | Ok (c', e) => trackb (flags c) e = Some (flags c')
  | Panic _ => True
  end.

(* ---- primitives ---- *)
Lemma post_TF c : TF c (Ok (send_post_process c)).
Proof.
  unfold send_post_process, TF, flags. destruct (c_is_client c); [|reflexivity].
  destruct (0 <? _); reflexivity.
Qed.

Lemma cancel_TF c : TF c (Ok (cancel_timers c)).
Proof.
  destruct c. unfold cancel_timers, TF, flags. conn_simpl.
  destruct c_t_send, c_t_recv, c_t_resp; reflexivity.
Qed.

Lemma cancel_flags c : flags (fst (cancel_timers c)) = (false, false, false).
Proof.
  destruct c. unfold cancel_timers, flags. conn_simpl.
  destruct c_t_send, c_t_recv, c_t_resp; reflexivity.
Qed.

Lemma refresh_TF c : TF c (Ok (refresh_pingreq_recv c)).
Proof. unfold refresh_pingreq_recv, TF, flags. destruct (negb _); reflexivity. Qed.

Lemma release_TF c id : TF c (release_if_used c id).
Proof.
  unfold release_if_used, TF. destruct (is_used c id); [|reflexivity].
  destruct (pm_release _ _); reflexivity.
Qed.

(* ---- automation ---- *)
Ltac tf_intro :=
  match goal with
  | |- context [send_post_process ?c] =>
      let H := fresh "Hpost" in pose proof (post_TF c) as H; destruct (send_post_process c) as [? ?]
  | |- context [cancel_timers ?c] =>
      let H := fresh "Hcan" in pose proof (cancel_TF c) as H; destruct (cancel_timers c) as [? ?]
  | |- context [refresh_pingreq_recv ?c] =>
      let H := fresh "Href" in pose proof (refresh_TF c) as H; destruct (refresh_pingreq_recv c) as [? ?]
  | |- context [release_if_used ?c ?id] =>
      let H := fresh "Hrel" in pose proof (release_TF c id) as H; destruct (release_if_used c id) as [[? ?]|]
  end.

Ltac tf_cases :=
  repeat match goal with
         | |- context [if ?b then _ else _] => destruct b
         | |- context [match ?o with Some _ => _ | None => _ end] =>
             lazymatch o with trackb _ _ => fail | _ => destruct o end
         | H : context [trackb (c_t_send (if ?b then _ else _), _, _)] |- _ => destruct b
         | H : context [trackb (c_t_send (match ?o with Some _ => _ | None => _ end), _, _)] |- _ => destruct o
         end.

Ltac tf_loop :=
  repeat first
    [ match goal with H : trackb ?f ?e = Some _ |- context [trackb ?f ?e] => rewrite H end
    | match goal with H : notimers ?e = true |- context [trackb ?f ?e] => rewrite (trackb_notimers f e H) end
    | match goal with H : c_t_send ?x = _ |- context [c_t_send ?x] => rewrite H end
    | match goal with H : c_t_recv ?x = _ |- context [c_t_recv ?x] => rewrite H end
    | match goal with H : c_t_resp ?x = _ |- context [c_t_resp ?x] => rewrite H end
    | rewrite trackb_app
    | progress cbn [trackb app fget fset] ].

Ltac tf_leaf :=
  unfold TF, flags in *; conn_simpl; tf_loop;
  try reflexivity;
  try (tf_cases; conn_simpl; tf_loop; reflexivity).

Ltac tf_step :=
  match goal with
  | |- TF _ (Panic _) => exact I
  | |- TF _ (Ok _) => tf_leaf
  | |- TF _ (bindr (Panic _) _) => exact I
  | |- TF _ (bindr (Ok _) _) => cbn [bindr]
  | |- TF _ (if ?b then _ else _) => destruct b eqn:?
  | |- TF _ (let '(_, _) := (if ?b then _ else _) in _) => destruct b eqn:?
  | |- TF _ (let '(_, _) := ?x in _) => first [tf_intro | destruct x as [? ?] eqn:?]
  | |- TF _ (match ?x with _ => _ end) => first [tf_intro | destruct x eqn:?]
  | |- TF _ (bindr (if ?b then _ else _) _) => destruct b eqn:?
  | |- TF _ (bindr (bindr (if ?b then _ else _) _) _) => destruct b eqn:?
  | |- TF _ (bindr (bindr (Ok _) _) _) => cbn [bindr]
  | |- TF _ (bindr (bindr (Panic _) _) _) => exact I
  | |- TF _ (bindr (match ?o with Some _ => _ | None => _ end) _) => destruct o eqn:?
  | |- TF _ (bindr ?r _) => first [tf_intro | destruct r as [?|] eqn:?]; cbn [bindr]
  end.

Lemma send_and_post_TF c0 c p rel pre :
  trackb (flags c0) pre = Some (flags c) -> TF c0 (send_and_post c p rel pre).
Proof.
  intro H. unfold send_and_post. pose proof (post_TF c) as HP. destruct (send_post_process c) as [c' e].
  unfold TF in *. rewrite !trackb_app, H. cbn [app trackb]. exact HP.
Qed.

Lemma send_plain_TF c p : TF c (send_plain c p).
Proof.
  unfold send_plain, too_large, not_allowed. repeat tf_step.
  apply send_and_post_TF. reflexivity.
Qed.

Ltac tf_post := apply send_and_post_TF; tf_leaf.

Ltac tf_go := repeat first [tf_step | tf_post].

Lemma send_stored_events_notimers mps l : notimers (send_stored_events mps l) = true.
Proof. induction l as [|p t IH]; cbn [send_stored_events notimers forallb]; [reflexivity|]. destruct (mps <? k_size p); exact IH. Qed.

Lemma send_stored_TF c : TF c (send_stored c).
Proof.
  unfold send_stored. destruct (send_stored_l _ _) as [kept dropped].
  destruct (release_all _ _); cbn [bindr TF]; [|exact I].
  rewrite trackb_notimers by apply send_stored_events_notimers.
  destruct (c_send_max _); reflexivity.
Qed.

Lemma send_connect_TF c p : TF c (send_connect c p).
Proof.
  unfold send_connect, too_large, not_allowed, initialize, clear_store_related. tf_go.
Qed.

Lemma send_puback_like_TF c p : TF c (send_puback_like c p).
Proof. unfold send_puback_like, too_large, not_allowed. tf_go. Qed.

Lemma send_pubrel_TF c p : TF c (send_pubrel c p).
Proof. unfold send_pubrel, too_large, not_allowed, store_add. tf_go. Qed.

Lemma send_sub_unsub_TF c p : TF c (send_sub_unsub c p).
Proof. unfold send_sub_unsub, too_large, not_allowed. tf_go. Qed.

Lemma send_pingreq_TF c p : TF c (send_pingreq c p).
Proof. unfold send_pingreq, too_large, not_allowed. tf_go. Qed.

Lemma send_auth_TF c p : TF c (send_auth c p).
Proof. unfold send_auth, too_large, not_allowed. tf_go. Qed.

Lemma send_disconnect_TF c p : TF c (send_disconnect c p).
Proof. unfold send_disconnect, too_large, not_allowed. tf_go. Qed.

Lemma send_publish_v311_TF c p : TF c (send_publish_v311 c p).
Proof. unfold send_publish_v311, not_allowed, store_add. tf_go. Qed.

(* helpers that neither touch the flags nor emit timer events *)
Definition NT (c : conn) (r : res (conn * list event)) : Prop :=
  match r with Ok (c', e) => notimers e = true /\ flags c' = flags c | Panic _ => True end.

Lemma notimers_app a b : notimers (a ++ b) = notimers a && notimers b.
Proof. apply forallb_app. Qed.

Lemma release_NT c id : NT c (release_if_used c id).
Proof.
  unfold release_if_used. destruct (is_used c id); [|cbn; auto]. destruct (pm_release _ _); cbn; auto.
Qed.

Lemma refuse_publish_NT c id err pre : notimers pre = true -> NT c (refuse_publish c id err pre).
Proof.
  intro Hp. unfold refuse_publish. destruct (_ && _).
  - destruct (pm_release _ _); cbn [bindr NT]; [|exact I]. rewrite notimers_app, Hp. cbn. auto.
  - cbn. rewrite notimers_app, Hp. cbn. auto.
Qed.

Lemma validate_topic_alias_flags c a : flags (snd (validate_topic_alias c a)) = flags c.
Proof.
  unfold validate_topic_alias. destruct a as [a|]; [|reflexivity]. destruct (negb _); [reflexivity|].
  destruct (c_ta_send c) as [s|]; [|reflexivity]. destruct (tas_get s a) as [[t|] s']; reflexivity.
Qed.

Lemma NT_TF c r : NT c r -> TF c r.
Proof. destruct r as [[c' e]|]; cbn; [|trivial]. intros [H1 H2]. rewrite trackb_notimers by assumption. now rewrite H2. Qed.

Lemma send_publish_v5_TF g c p : TF c (send_publish_v5 g c p).
Proof.
  unfold send_publish_v5, too_large, not_allowed, store_add.
  destruct (negb (size_ok c p)).
  { destruct (negb (k_pid p =? 0)); [|reflexivity].
    pose proof (release_NT c (k_pid p)) as H. destruct (release_if_used _ _) as [[c' e]|]; cbn [bindr]; [|exact I].
    apply NT_TF. cbn in *. destruct H as [H1 H2]. split; [exact H1|exact H2]. }
  match goal with |- TF _ (bindr ?part1 _) => destruct part1 as [[[[[c1 rel] validated] stop] e1]|] eqn:E1; [|exact I] end.
  cbn [bindr].
  assert (He1 : notimers e1 = true /\ flags c1 = flags c).
  { revert E1.
    repeat match goal with
           | |- context [if ?b then _ else _] => destruct b eqn:?
           | |- context [validate_topic_alias ?cc ?a] =>
               let H := fresh in pose proof (validate_topic_alias_flags cc a) as H;
               destruct (validate_topic_alias cc a) as [[?|] ?] eqn:?; cbn [snd] in H
           | |- context [release_if_used ?cc ?id] =>
               let H := fresh in pose proof (release_NT cc id) as H; destruct (release_if_used cc id) as [[? ?]|]; cbn [NT] in H
           | |- context [store_has ?a ?b] => destruct (store_has a b) eqn:?
           | |- _ => progress cbn [bindr]
           end; intro E; try discriminate; inversion E; subst; clear E; rewrite ?notimers_app;
      repeat match goal with H : _ /\ _ |- _ => destruct H end; unfold flags in *; conn_simpl;
      split; try reflexivity; try assumption; try congruence;
      cbn [notimers forallb no_timer_ev andb]; try assumption; try (rewrite H; reflexivity). }
  destruct He1 as [He1 Hf1].
  destruct stop; [apply NT_TF; cbn; auto|].
  match goal with |- TF _ (if ?b then _ else _) => destruct b end.
  { pose proof (refuse_publish_NT c1 (k_pid p) E_RECEIVE_MAXIMUM_EXCEEDED e1 He1) as H.
    destruct (refuse_publish _ _ _ _) as [[c' e]|]; [|exact I]. apply NT_TF. cbn in *. destruct H; split; congruence. }
  match goal with |- TF _ (bindr ?part2 _) => destruct part2 as [[[[c2 q] stop2] e2]|] eqn:E2; [|exact I] end.
  cbn [bindr].
  assert (He2 : notimers e2 = true /\ flags c2 = flags c1).
  { revert E2.
    repeat match goal with
           | |- context [if ?b then _ else _] => destruct b eqn:?
           | |- context [validate_topic_alias ?cc ?a] =>
               let H := fresh in pose proof (validate_topic_alias_flags cc a) as H;
               destruct (validate_topic_alias cc a) as [[?|] ?] eqn:?; cbn [snd] in H
           | |- context [refuse_publish ?cc ?id ?err ?pre] =>
               let H := fresh in pose proof (refuse_publish_NT cc id err pre eq_refl) as H;
               destruct (refuse_publish cc id err pre) as [[? ?]|]; cbn [NT] in H
           | |- context [match k_alias ?pp with _ => _ end] => destruct (k_alias pp) eqn:?
           | |- context [match c_ta_send ?cc with _ => _ end] => destruct (c_ta_send cc) eqn:?
           | |- context [tas_insert ?s ?t ?a] => destruct (tas_insert s t a) eqn:?
           | |- context [tas_find_by_topic ?s ?t] => destruct (tas_find_by_topic s t) eqn:?
           | |- context [tas_lru ?s] => destruct (tas_lru s) eqn:?
           | |- _ => progress cbn [bindr]
           end; intro E; try discriminate; inversion E; subst; clear E;
      repeat match goal with H : _ /\ _ |- _ => destruct H end; unfold flags in *; conn_simpl;
      split; try reflexivity; try assumption; try congruence. }
  destruct He2 as [He2 Hf2].
  destruct stop2; [apply NT_TF; cbn; rewrite notimers_app, He1, He2; split; [reflexivity|congruence]|].
  assert (Hcc : forall (b : bool) (x : N), flags (if b then set_send_count c2 x else c2) = flags c).
  { intros b x. destruct b; unfold flags in *; conn_simpl; congruence. }
  match goal with |- TF _ (if status_eqb (c_status (if ?b then set_send_count c2 ?x else c2)) Connected then _ else _) =>
    specialize (Hcc b x); destruct (status_eqb (c_status (if b then set_send_count c2 x else c2)) Connected) end.
  - apply send_and_post_TF. rewrite Hcc. apply trackb_notimers. now rewrite notimers_app, He1, He2.
  - apply NT_TF. cbn. rewrite notimers_app, He1, He2. split; [reflexivity|exact Hcc].
Qed.

Ltac tf_sub :=
  match goal with
  | |- context [send_puback_like ?c ?p] =>
      let H := fresh "Hs" in pose proof (send_puback_like_TF c p) as H; destruct (send_puback_like c p) as [[? ?]|]
  | |- context [send_pubrel ?c ?p] =>
      let H := fresh "Hs" in pose proof (send_pubrel_TF c p) as H; destruct (send_pubrel c p) as [[? ?]|]
  | |- context [send_plain ?c ?p] =>
      let H := fresh "Hs" in pose proof (send_plain_TF c p) as H; destruct (send_plain c p) as [[? ?]|]
  | |- context [send_stored ?c] =>
      let H := fresh "Hs" in pose proof (send_stored_TF c) as H; destruct (send_stored c) as [[? ?]|]
  | |- context [send_disconnect ?c ?p] =>
      let H := fresh "Hs" in pose proof (send_disconnect_TF c p) as H; destruct (send_disconnect c p) as [[? ?]|]
  end.

Ltac tf_step2 :=
  match goal with
  | |- TF _ (bindr ?r _) => first [tf_intro | tf_sub]; cbn [bindr]
  | |- TF _ (match ?x with _ => _ end) => first [tf_intro | tf_sub]
  | |- TF _ (let '(_, _) := ?x in _) => first [tf_intro | tf_sub]
  | _ => tf_step
  end.

Ltac tf_go2 := repeat first [tf_step2 | tf_post].

Lemma connack_send_props_TF c p : TF c (Ok (connack_send_props c p)).
Proof.
  destruct c. unfold connack_send_props, TF, flags.
  repeat match goal with
         | |- context [if ?b then _ else _] => destruct b eqn:?
         | |- context [match ?o with Some _ => _ | None => _ end] => destruct o eqn:?
         end; conn_simpl; cbn [trackb fget fset]; try reflexivity;
  repeat match goal with H : context [c_t_recv _] |- _ => revert H end; conn_simpl; intros; subst; try reflexivity; try congruence.
Qed.

Lemma send_connack_TF c p : TF c (send_connack c p).
Proof.
  unfold send_connack, too_large, not_allowed.
  destruct (_ && _); [reflexivity|]. destruct (negb (status_eqb _ _)); [reflexivity|].
  pose proof (connack_send_props_TF c p) as Hp. destruct (connack_send_props c p) as [c1 pre].
  tf_go2.
Qed.

Lemma dispatch_send_TF g c p : TF c (dispatch_send g c p).
Proof.
  unfold dispatch_send, not_allowed.
  repeat match goal with |- TF _ (if ?b then _ else _) => destruct b end;
    first [ apply send_connect_TF | apply send_connack_TF | apply send_publish_v5_TF | apply send_publish_v311_TF
          | apply send_puback_like_TF | apply send_pubrel_TF | apply send_sub_unsub_TF | apply send_plain_TF
          | apply send_pingreq_TF | apply send_disconnect_TF | apply send_auth_TF | reflexivity ].
Qed.

Lemma do_send_TF g c p : TF c (do_send g c p).
Proof.
  unfold do_send, not_allowed.
  repeat match goal with |- TF _ (if ?b then _ else _) => destruct b end; try reflexivity. apply dispatch_send_TF.
Qed.

Lemma close_with_disconnect_TF c p : TF c (close_with_disconnect c p).
Proof. unfold close_with_disconnect. destruct (_ && _); [tf_go2|apply send_disconnect_TF]. Qed.

Lemma handle_v5_error_TF c e : TF c (handle_v5_error c e).
Proof.
  unfold handle_v5_error. pose proof (close_with_disconnect_TF c (disconnect_v5 (disc_rc_of_err e))) as H.
  destruct (close_with_disconnect _ _) as [[c' ev]|]; cbn [bindr]; [|exact I]. tf_leaf.
Qed.

Lemma handle_error_TF c v e : TF c (handle_error c v e).
Proof. unfold handle_error. destruct (version_eqb v V50); [apply handle_v5_error_TF|reflexivity]. Qed.

Ltac tf_sub3 :=
  match goal with
  | |- context [handle_error ?c ?v ?e] =>
      let H := fresh "Hs" in pose proof (handle_error_TF c v e) as H; destruct (handle_error c v e) as [[? ?]|]
  | |- context [handle_v5_error ?c ?e] =>
      let H := fresh "Hs" in pose proof (handle_v5_error_TF c e) as H; destruct (handle_v5_error c e) as [[? ?]|]
  | |- context [send_connack ?c ?p] =>
      let H := fresh "Hs" in pose proof (send_connack_TF c p) as H; destruct (send_connack c p) as [[? ?]|]
  | |- context [close_with_disconnect ?c ?p] =>
      let H := fresh "Hs" in pose proof (close_with_disconnect_TF c p) as H; destruct (close_with_disconnect c p) as [[? ?]|]
  end.

Ltac tf_step3 :=
  match goal with
  | |- TF _ (handle_error _ _ _) => apply handle_error_TF
  | |- TF _ (handle_v5_error _ _) => apply handle_v5_error_TF
  | |- TF _ (bindr ?r _) => first [tf_intro | tf_sub | tf_sub3]; cbn [bindr]
  | |- TF _ (match ?x with _ => _ end) => first [tf_intro | tf_sub | tf_sub3]
  | |- TF _ (let '(_, _) := ?x in _) => first [tf_intro | tf_sub | tf_sub3]
  | _ => tf_step
  end.

Ltac tf_go3 := repeat first [tf_step3 | tf_post].

Lemma recv_publish_v311_TF g c pr : TF c (recv_publish_v311 g c pr).
Proof. unfold recv_publish_v311, handle_v311_error. tf_go3. Qed.

Lemma recv_pubrel_TF g c v pr : TF c (recv_pubrel g c v pr).
Proof. unfold recv_pubrel. tf_go3. Qed.

Lemma recv_notify_TF c v pr : TF c (recv_notify c v pr).
Proof. unfold recv_notify. tf_go3. Qed.

Lemma recv_pingreq_TF g c v pr : TF c (recv_pingreq g c v pr).
Proof. unfold recv_pingreq. tf_go3. Qed.

Lemma recv_pingresp_TF c v pr : TF c (recv_pingresp c v pr).
Proof. unfold recv_pingresp. tf_go3. Qed.

Lemma recv_disconnect_TF c v pr : TF c (recv_disconnect c v pr).
Proof. unfold recv_disconnect. tf_go3. Qed.

Lemma recv_ack_TF g c v t pr : TF c (recv_ack g c v t pr).
Proof. unfold recv_ack, store_erase. tf_go3. Qed.

Lemma resolve_recv_alias_TF g c p :
  match resolve_recv_alias g c p with
  | Ok (c1, _, stop, e0) => trackb (flags c) e0 = Some (flags c1) /\ (stop = false -> e0 = [])
  | Panic _ => True
  end.
Proof.
  unfold resolve_recv_alias.
  repeat match goal with
         | |- context [if ?b then _ else _] => destruct b eqn:?
         | |- context [match k_alias ?p with _ => _ end] => destruct (k_alias p) eqn:?
         | |- context [match c_ta_recv ?cc with _ => _ end] => destruct (c_ta_recv cc) eqn:?
         | |- context [tar_get ?r ?a] => destruct (tar_get r a) eqn:?
         | |- context [tar_insert ?r ?t ?a] => destruct (tar_insert r t a) eqn:?
         | |- context [handle_v5_error ?cc ?e] =>
             let H := fresh in pose proof (handle_v5_error_TF cc e) as H; destruct (handle_v5_error cc e) as [[? ?]|]; cbn [TF] in H
         | |- _ => progress cbn [bindr]
         end; try exact I; (split; [try reflexivity; try assumption|intro; try discriminate; reflexivity]).
Qed.

Lemma note_inbound_flags c p : flags (note_inbound c p) = flags c.
Proof. unfold note_inbound. destruct (negb _); reflexivity. Qed.

Lemma note_handled_flags c p : flags (note_handled c p) = flags c.
Proof. unfold note_handled. destruct (k_qos p =? 2); reflexivity. Qed.

Lemma recv_publish_v5_TF g c pr : TF c (recv_publish_v5 g c pr).
Proof.
  unfold recv_publish_v5. destruct pr as [p|e]; [|tf_go3].
  match goal with |- TF _ (if ?b then _ else _) => destruct b end; [apply handle_v5_error_TF|].
  pose proof (resolve_recv_alias_TF g (note_inbound c p) p) as H0. rewrite note_inbound_flags in H0.
  destruct (resolve_recv_alias g (note_inbound c p) p) as [[[[c1 q] stop] e0]|]; [|exact I].
  cbn [bindr]. destruct H0 as [H0 Hnil]. destruct stop; [exact H0|].
  rewrite (Hnil eq_refl) in H0. cbn [trackb] in H0. injection H0 as H0a H0b H0c.
  cbv zeta. pose proof (note_handled_flags c1 p) as Hnh. unfold flags in Hnh. injection Hnh as Hn1 Hn2 Hn3.
  remember (note_handled c1 p) as c1' eqn:Ec1'. clear Ec1'.
  unfold TF.
  repeat match goal with
         | |- context [if ?b then _ else _] => destruct b eqn:?
         | |- context [send_puback_like ?cc ?pp] =>
             let H := fresh "Hs" in pose proof (send_puback_like_TF cc pp) as H; destruct (send_puback_like cc pp) as [[? ?]|]; cbn [TF bindr] in *
         | |- context [refresh_pingreq_recv ?cc] =>
             let H := fresh "Href" in pose proof (refresh_TF cc) as H; destruct (refresh_pingreq_recv cc) as [? ?]; cbn [TF] in H
         | |- _ => progress cbn [bindr]
         end; try exact I; unfold flags in *; conn_simpl;
    repeat match goal with H : trackb (c_t_send c1', _, _) _ = _ |- _ => rewrite Hn1, Hn2, Hn3 in H end;
    rewrite ?H0a, ?H0b, ?H0c; tf_loop; reflexivity.
Qed.

Lemma resume_or_clear_TF c sp : TF c (resume_or_clear c sp).
Proof. unfold resume_or_clear, clear_store_related. tf_go3. Qed.

Lemma connack_recv_limits_flags c p c' : connack_recv_limits c p = Ok c' -> flags c' = flags c.
Proof.
  unfold connack_recv_limits.
  repeat match goal with
         | |- context [match ?o with Some _ => _ | None => _ end] => destruct o eqn:?
         | |- context [if ?b then _ else _] => destruct b eqn:?
         | |- context [tas_new ?m] => destruct (tas_new m) eqn:?
         | |- _ => progress cbn [bindr]
         end; intro E; try discriminate; inversion E; reflexivity.
Qed.

Lemma connack_recv_ska_TF c p : TF c (Ok (connack_recv_ska c p)).
Proof.
  destruct c. unfold connack_recv_ska, TF, flags.
  repeat match goal with
         | |- context [if ?b then _ else _] => destruct b eqn:?
         | |- context [match ?o with Some _ => _ | None => _ end] => destruct o eqn:?
         end; conn_simpl; cbn [trackb fget fset]; try reflexivity;
  repeat match goal with H : context [c_t_send _] |- _ => revert H end; conn_simpl; intros; subst; try reflexivity; try congruence.
Qed.

Lemma connack_recv_sei_flags c p : flags (connack_recv_sei c p) = flags c.
Proof. unfold connack_recv_sei, clear_store_related. destruct (k_sei p) as [m|]; [destruct (m =? 0)|]; reflexivity. Qed.

Lemma recv_connack_TF c v pr : TF c (recv_connack c v pr).
Proof.
  unfold recv_connack. destruct (status_eqb _ _); [apply handle_error_TF|].
  destruct pr as [p|e]; [|tf_go3].
  destruct (k_rc p =? 0); [|reflexivity].
  destruct (version_eqb v V50).
  - destruct (connack_recv_limits (set_status c Connected) p) as [c1|] eqn:E1; cbn [bindr]; [|exact I].
    apply connack_recv_limits_flags in E1.
    pose proof (connack_recv_ska_TF c1 p) as H2. destruct (connack_recv_ska c1 p) as [c2 e1].
    pose proof (connack_recv_sei_flags c2 p) as H3.
    pose proof (resume_or_clear_TF (connack_recv_sei c2 p) (k_flag p)) as H4.
    destruct (resume_or_clear _ _) as [[c3 e2]|]; cbn [bindr]; [|exact I].
    unfold TF in *. rewrite H3 in H4. unfold flags in E1. conn_simpl.
    unfold flags in *. rewrite <- E1. tf_loop. reflexivity.
  - pose proof (resume_or_clear_TF (set_status c Connected) (k_flag p)) as H4.
    destruct (resume_or_clear _ _) as [[c3 e2]|]; cbn [bindr]; [|exact I]. tf_leaf.
Qed.

Lemma connect_recv_state_flags c v p c' : connect_recv_state c v p = Ok c' -> flags c' = flags c.
Proof.
  unfold connect_recv_state, initialize, clear_store_related.
  repeat match goal with
         | |- context [match ?o with Some _ => _ | None => _ end] => destruct o eqn:?
         | |- context [if ?b then _ else _] => destruct b eqn:?
         | |- context [tas_new ?m] => destruct (tas_new m) eqn:?
         | |- _ => progress cbn [bindr]
         end; intro E; try discriminate; inversion E; reflexivity.
Qed.

Lemma recv_connect_TF g c v pr : TF c (recv_connect g c v pr).
Proof.
  unfold recv_connect. destruct (negb _); [apply handle_error_TF|].
  destruct pr as [p|e].
  - destruct (connect_recv_state (set_status c Connecting) v p) as [c1|] eqn:E1; cbn [bindr]; [|exact I].
    apply connect_recv_state_flags in E1.
    pose proof (refresh_TF c1) as H. destruct (refresh_pingreq_recv c1) as [c2 e2].
    unfold TF, flags in *. conn_simpl. rewrite <- E1. tf_loop. reflexivity.
  - pose proof (send_connack_TF (set_status c Connecting) (connect_refusal v e)) as H.
    destruct (send_connack _ _) as [[c' ev]|]; cbn [bindr]; [|exact I]. tf_leaf.
Qed.

Lemma dispatch_recv_TF g c v t pr : TF c (dispatch_recv g c v t pr).
Proof.
  unfold dispatch_recv.
  repeat match goal with |- TF _ (if ?b then _ else _) => destruct b end;
    first [ apply recv_connect_TF | apply recv_connack_TF | apply recv_publish_v5_TF | apply recv_publish_v311_TF
          | apply recv_ack_TF | apply recv_pubrel_TF | apply recv_notify_TF | apply recv_pingreq_TF | apply recv_pingresp_TF
          | apply recv_disconnect_TF | reflexivity ].
Qed.

Lemma process_recv_packet_TF g c fh body pr : TF c (process_recv_packet g c fh body pr).
Proof.
  unfold process_recv_packet.
  destruct (c_mps_recv c <? _).
  { tf_go3. }
  destruct (negb _); [reflexivity|].
  destruct (c_version c); try apply dispatch_recv_TF.
  repeat match goal with |- TF _ (if ?b then _ else _) => destruct b end; try reflexivity.
  - pose proof (recv_connect_TF g (set_version c V311) V311 pr) as H. exact H.
  - pose proof (recv_connect_TF g (set_version c V50) V50 pr) as H. exact H.
Qed.

Definition expire (f : flags3) (o : op) : flags3 :=
  match o with OTimer k => fset f k false | _ => f end.

Lemma drain_release_notimers ids : forall a, match drain_release a ids with Ok (_, e) => notimers e = true | Panic _ => True end.
Proof.
  induction ids as [|id t IH]; intro a; cbn [drain_release]; [reflexivity|].
  destruct (pm_is_used a id); [|apply IH].
  destruct (pm_release a id) as [a'|]; cbn [bindr]; [|exact I].
  specialize (IH a'). destruct (drain_release a' t) as [[a'' e]|]; cbn [bindr]; [|exact I]. exact IH.
Qed.

Lemma do_closed_TF c : TF c (do_closed c).
Proof.
  unfold do_closed.
  repeat match goal with
         | |- context [drain_release ?a ?ids] =>
             let H := fresh "Hd" in pose proof (drain_release_notimers ids a) as H;
             destruct (drain_release a ids) as [[? ?]|]; cbn [bindr]; [|exact I]
         | |- TF _ (bindr (if ?b then _ else _) _) => destruct b
         | |- TF _ (bindr (Ok _) _) => cbn [bindr]
         | |- TF _ (let '(_, _) := cancel_timers ?cc in _) =>
             let H := fresh "Hcan" in pose proof (cancel_TF cc) as H; destruct (cancel_timers cc) as [? ?]
         end;
  unfold TF, flags in *; conn_simpl; tf_loop; reflexivity.
Qed.

(* after notify_closed no timer is armed *)
Lemma do_closed_disarms c c' e : do_closed c = Ok (c', e) -> flags c' = (false, false, false).
Proof.
  unfold do_closed.
  repeat match goal with
         | |- context [drain_release ?a ?ids] => destruct (drain_release a ids) as [[? ?]|]; cbn [bindr]; [|discriminate]
         | |- (bindr (if ?b then _ else _) _) = _ -> _ => destruct b
         | |- (bindr (Ok _) _) = _ -> _ => cbn [bindr]
         | |- (let '(_, _) := cancel_timers ?cc in _) = _ -> _ =>
             let H := fresh "Hcan" in pose proof (cancel_flags cc) as H; destruct (cancel_timers cc) as [? ?]; cbn [fst] in H
         end; intro E; inversion E; subst; assumption.
Qed.

Theorem timers_track_step g c o :
  match step g c o with
  | Ok (c', evs, _) => trackb (expire (flags c) o) evs = Some (flags c')
  | Panic _ => True
  end.
Proof.
  unfold step. destruct o; cbn [expire bindr]; try reflexivity.
  - pose proof (do_send_TF g c p) as H. destruct (do_send g c p) as [[c' e]|]; cbn [bindr]; [exact H|exact I].
  - unfold do_recv. destruct (feed (c_pb c) bytes) as [[r pb'] rest]. destruct r as [hdr body| |hdr].
    + pose proof (process_recv_packet_TF g (set_pb c pb') (hd 0 hdr) body pr) as H.
      destruct (process_recv_packet _ _ _ _ _) as [[c' e]|]; cbn [bindr]; [exact H|exact I].
    + reflexivity.
    + pose proof (cancel_TF (set_pb c pb')) as H. destruct (cancel_timers _) as [c' e]. cbn [bindr].
      unfold TF, flags in *. conn_simpl. rewrite trackb_app, H. reflexivity.
  - assert (H : match do_timer c k with Ok (c', e) => trackb (fset (flags c) k false) e = Some (flags c') | Panic _ => True end).
    { unfold do_timer. destruct k.
      - destruct (status_eqb _ _); [|destruct c; reflexivity].
        destruct (c_version (set_t_send c false)) eqn:Ev; try exact I;
          (pose proof (send_pingreq_TF (set_t_send c false) (pingreq_pkt (c_version (set_t_send c false)))) as H;
           rewrite Ev in H; destruct (send_pingreq _ _) as [[c' e]|]; [|exact I]; destruct c; exact H).
      - destruct (c_version (set_t_recv c false)) eqn:Ev; try exact I; [destruct c; reflexivity|].
        destruct (status_eqb _ _); [|destruct c; reflexivity].
        pose proof (close_with_disconnect_TF (set_t_recv c false) (disconnect_v5 141)) as H.
        destruct (close_with_disconnect _ _) as [[c' e]|]; [|exact I]. destruct c; exact H.
      - destruct (c_version (set_t_resp c false)) eqn:Ev; try exact I; [destruct c; reflexivity|].
        destruct (status_eqb _ _); [|destruct c; reflexivity].
        pose proof (close_with_disconnect_TF (set_t_resp c false) (disconnect_v5 141)) as H.
        destruct (close_with_disconnect _ _) as [[c' e]|]; [|exact I]. destruct c; exact H. }
    destruct (do_timer c k) as [[c' e]|]; cbn [bindr]; [exact H|exact I].
  - pose proof (do_closed_TF c) as H. destruct (do_closed c) as [[c' e]|]; cbn [bindr]; [exact H|exact I].
  - unfold do_set_pingreq_interval. destruct o as [ms|]; [|reflexivity].
    destruct (ms =? 0).
    + destruct (c_t_send (set_user_ping c (Some ms))) eqn:E; cbn [bindr]; destruct c; cbn in *; rewrite ?E; reflexivity.
    + destruct (status_eqb _ _); cbn [bindr]; destruct c; reflexivity.
  - destruct b; reflexivity.
  - destruct (pm_acquire (c_pid c)) as [[r a]|]; cbn [bindr]; reflexivity.
  - destruct (pm_register (c_pid c) id); reflexivity.
  - pose proof (release_TF c id) as H. destruct (release_if_used c id) as [[c' e]|]; cbn [bindr]; [exact H|exact I].
  - assert (H : TF c (do_erase c id)).
    { unfold do_erase. destruct (store_erase_publish_l id (c_store c)) as [b l]. destruct b; [|reflexivity].
      match goal with |- TF _ (release_if_used ?cc ?i) => pose proof (release_TF cc i) as H; destruct (release_if_used cc i) as [[? ?]|]; [|exact I] end.
      unfold TF, flags in *. revert H.
      repeat match goal with
             | |- context [match ?o with Some _ => _ | None => _ end] => lazymatch o with trackb _ _ => fail | _ => destruct o end
             | |- context [if ?b then _ else _] => destruct b
             end; conn_simpl; intro H; exact H. }
    destruct (do_erase c id) as [[c' e]|]; cbn [bindr]; [exact H|exact I].
  - (* restore_packets *)
    cbn [trackb]. f_equal. symmetry.
    induction l as [|p t IH] in c |- *; cbn [do_restore]; [reflexivity|].
    rewrite IH. destruct ((k_type p =? T_PUBLISH) && (k_qos p =? 0)); [reflexivity|].
    destruct (pm_register (c_pid c) (k_pid p)) as [ok a]. destruct ok; [|reflexivity].
    unfold store_add_soft. repeat match goal with |- context [if ?b then _ else _] => destruct b end; reflexivity.
Qed.

(* every history: replaying the requests from the initial flags gives the flags at the end,
   provided expiries are reported only for armed timers (otherwise the observer and the
   connection agree anyway: the theorem is per step and unconditional) *)
Theorem timers_track_history g ops : forall c,
  match run_state g c ops with
  | Some c' =>
      exists steps, True /\ length steps = length ops /\
      fold_left (fun (f : option flags3) (oe : op * list event) =>
                   match f with Some f0 => trackb (expire f0 (fst oe)) (snd oe) | None => None end)
                steps (Some (flags c)) = Some (flags c')
  | None => True
  end.
Proof.
  induction ops as [|o t IH]; intro c; cbn [run_state].
  - exists []. repeat split.
  - pose proof (timers_track_step g c o) as H. destruct (step g c o) as [[[c1 e] r]|]; [|exact I].
    specialize (IH c1). destruct (run_state g c1 t) as [c'|]; [|exact I].
    destruct IH as (steps & _ & Hl & Hf). exists ((o, e) :: steps). repeat split; [cbn; now rewrite Hl|].
    cbn [fold_left fst snd]. rewrite H. exact Hf.
Qed.

(* a DISCONNECT that is requested for sending leaves no timer armed *)
Lemma send_disconnect_disarms c p c' e :
  send_disconnect c p = Ok (c', e) -> existsb is_send e = true -> flags c' = (false, false, false).
Proof.
  unfold send_disconnect, too_large, not_allowed.
  destruct (_ && _); [intro E; inversion E; subst; discriminate|].
  destruct (negb _); [intro E; inversion E; subst; discriminate|].
  pose proof (cancel_flags (set_status c Disconnected)) as H. destruct (cancel_timers _) as [c1 e1]. cbn [fst] in H.
  intro E. inversion E; subst. auto.
Qed.

(* the interval a client re-arms with: application override, then Server Keep Alive, then the
   CONNECT keep-alive; 0 disables *)
Definition pick_interval (c : conn) : N :=
  match c_user_ping c with
  | Some t => t
  | None => match c_server_ka_ms c with Some t => t | None => c_keep_alive_ms c end
  end.

Lemma post_process_spec c :
  snd (send_post_process c) =
    if c_is_client c && (0 <? pick_interval c) then [ETimerReset TPingreqSend (pick_interval c)] else [].
Proof.
  unfold send_post_process, pick_interval. destruct (c_is_client c); [|reflexivity].
  destruct (c_user_ping c); [destruct (0 <? _); reflexivity|].
  destruct (c_server_ka_ms c); destruct (0 <? _); reflexivity.
Qed.

(* the server's receive timer: 1.5 x keep-alive of the current CONNECT, never for keep-alive 0 *)
Lemma refresh_spec c :
  snd (refresh_pingreq_recv c) =
    if negb (c_pingreq_recv_to c =? 0) then [ETimerReset TPingreqRecv (c_pingreq_recv_to c)] else [].
Proof. unfold refresh_pingreq_recv. destruct (negb _); reflexivity. Qed.

Lemma connect_sets_timeout c v p c' :
  connect_recv_state c v p = Ok c' -> c_pingreq_recv_to c' = k_keep_alive p * 1000 * 3 / 2.
Proof.
  unfold connect_recv_state, initialize, clear_store_related.
  destruct (N.ltb_spec 0 (k_keep_alive p)) as [Hk|Hk].
  - repeat match goal with
           | |- context [match ?o with Some _ => _ | None => _ end] => destruct o eqn:?
           | |- context [if ?b then _ else _] => destruct b eqn:?
           | |- context [tas_new ?m] => destruct (tas_new m) eqn:?
           | |- _ => progress cbn [bindr]
           end; intro E; try discriminate; inversion E; reflexivity.
  - assert (k_keep_alive p = 0) by lia.
    repeat match goal with
           | |- context [match ?o with Some _ => _ | None => _ end] => destruct o eqn:?
           | |- context [if ?b then _ else _] => destruct b eqn:?
           | |- context [tas_new ?m] => destruct (tas_new m) eqn:?
           | |- _ => progress cbn [bindr]
           end; intro E; try discriminate; inversion E; conn_simpl_goal; rewrite H; reflexivity.
Qed.
