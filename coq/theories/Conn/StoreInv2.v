(* C06 over histories (continued): receive side, API calls, every call, every history. *)
From MQ Require Import Base.Prelude Alloc.Alloc Alloc.SetSpec Alloc.AllocProofs Framing.Framing
                       Conn.Types Conn.TopicAlias Conn.ConnRecord Conn.Step Conn.Run Corr.ConnTrace Conn.Session Conn.Scope Conn.StoreInv.

(* the sends that may release x's entries: a clean-start CONNECT, a CONNACK that resumes the session
   while an entry of x no longer fits the peer's limit, a v5.0 PUBLISH carrying x itself (refused:
   its entries are erased — the application contract excludes reusing an identifier in flight) *)
Definition send_releases (x : N) (c : conn) (p : pkt) : bool :=
  ((k_type p =? T_CONNECT) && k_flag p)
  || ((k_type p =? T_CONNACK) && negb (fits_store x (c_mps_send c) (c_store c)))
  || ((k_type p =? T_PUBLISH) && version_eqb (k_ver p) V50 && (k_pid p =? x)).

Lemma dispatch_send_KS x g c p : send_releases x c p = false -> KS x c (dispatch_send g c p).
Proof.
  intro Hr. unfold send_releases in Hr. apply orb_false_iff in Hr as [Hr H3]. apply orb_false_iff in Hr as [H1 H2].
  unfold dispatch_send. cbv zeta.
  destruct (k_type p =? T_CONNECT) eqn:E1.
  { cbn [andb] in H1. now apply send_connect_KS. }
  destruct (k_type p =? T_CONNACK) eqn:E2.
  { cbn [andb] in H2. apply negb_false_iff in H2. now apply send_connack_KS. }
  destruct (k_type p =? T_PUBLISH) eqn:E3.
  { destruct (version_eqb _ _); [|apply send_publish_v311_KS]. cbn [andb] in H3. apply send_publish_v5_KS. now apply N.eqb_neq in H3. }
  destruct ((k_type p =? T_PUBACK) || (k_type p =? T_PUBREC) || (k_type p =? T_PUBCOMP)); [apply send_puback_like_KS|].
  destruct (k_type p =? T_PUBREL); [apply send_pubrel_KS|].
  destruct ((k_type p =? T_SUBSCRIBE) || (k_type p =? T_UNSUBSCRIBE)); [apply send_sub_unsub_KS|].
  destruct ((k_type p =? T_SUBACK) || (k_type p =? T_UNSUBACK) || (k_type p =? T_PINGRESP)); [apply send_plain_KS|].
  destruct (k_type p =? T_PINGREQ); [apply send_pingreq_KS|].
  destruct (k_type p =? T_DISCONNECT); [apply send_disconnect_KS|].
  destruct (k_type p =? T_AUTH); [apply send_auth_KS|]. cbn [KS]. apply ks_refl.
Qed.

Lemma do_send_KS x g c p : send_releases x c p = false -> KS x c (do_send g c p).
Proof.
  intro Hr. unfold do_send. cbv zeta.
  repeat match goal with |- KS _ _ (if ?b then _ else _) => destruct b end;
    first [ now apply dispatch_send_KS | (cbn [KS]; apply ks_refl) ].
Qed.

Lemma close_with_disconnect_KS x c p : KS x c (close_with_disconnect c p).
Proof. unfold close_with_disconnect. destruct (_ && _); [ks_auto x|apply send_disconnect_KS]. Qed.
Lemma handle_v5_error_KS x c e : KS x c (handle_v5_error c e).
Proof.
  unfold handle_v5_error. pose proof (close_with_disconnect_KS x c (disconnect_v5 (disc_rc_of_err e))) as H.
  destruct (close_with_disconnect _ _) as [[c' ev]|]; cbn [bindr KS] in *; [exact H|exact I].
Qed.
Lemma handle_error_KS x c v e : KS x c (handle_error c v e).
Proof. unfold handle_error. destruct (version_eqb v V50); [apply handle_v5_error_KS|cbn [KS]; apply ks_refl]. Qed.

(* ---------- receive side ---------- *)
Lemma note_inbound_s c p : c_store (note_inbound c p) = c_store c.
Proof. unfold note_inbound. destruct (negb _); reflexivity. Qed.
Lemma note_handled_s c p : c_store (note_handled c p) = c_store c.
Proof. unfold note_handled. destruct (_ =? _); reflexivity. Qed.

Ltac ks_known x :=
  match goal with
  | |- context [handle_v5_error ?c ?e] =>
      let H := fresh "Hk" in pose proof (handle_v5_error_KS x c e) as H; destruct (handle_v5_error c e) as [[? ?]|]; cbn [KS] in H
  | |- context [handle_error ?c ?v ?e] =>
      let H := fresh "Hk" in pose proof (handle_error_KS x c v e) as H; destruct (handle_error c v e) as [[? ?]|]; cbn [KS] in H
  | |- context [send_puback_like ?c ?p] =>
      let H := fresh "Hk" in pose proof (send_puback_like_KS x c p) as H; destruct (send_puback_like c p) as [[? ?]|]; cbn [KS] in H
  | |- context [send_pubrel ?c ?p] =>
      let H := fresh "Hk" in pose proof (send_pubrel_KS x c p) as H; destruct (send_pubrel c p) as [[? ?]|]; cbn [KS] in H
  | |- context [send_plain ?c ?p] =>
      let H := fresh "Hk" in pose proof (send_plain_KS x c p) as H; destruct (send_plain c p) as [[? ?]|]; cbn [KS] in H
  | |- context [close_with_disconnect ?c ?p] =>
      let H := fresh "Hk" in pose proof (close_with_disconnect_KS x c p) as H; destruct (close_with_disconnect c p) as [[? ?]|]; cbn [KS] in H
  | |- context [tar_insert ?r ?t ?a] => destruct (tar_insert r t a) as [?|]
  end.

Ltac ks_frames := rewrite ?note_inbound_s, ?note_handled_s in *.
Ltac ks_leaf3 x := cbn [KS]; ks_norm x; ks_frames; ks_norm x; ks_solve x.
Ltac ks_final3 x :=
  match goal with
  | |- KS _ _ (Panic _) => exact I
  | |- KS _ _ (Ok _) => ks_leaf3 x
  end.
Ltac ks_auto3 x := cbv zeta; repeat first [ks_known x | ks_step x]; ks_final3 x.

Lemma recv_publish_v311_KS x g c pr : KS x c (recv_publish_v311 g c pr).
Proof. unfold recv_publish_v311, handle_v311_error. destruct pr as [p|e]; ks_auto3 x. Qed.

Lemma resolve_recv_alias_ks x g c p :
  match resolve_recv_alias g c p with Ok (c', _, _, _) => ks x (c_store c) (c_store c') | Panic _ => True end.
Proof.
  unfold resolve_recv_alias.
  repeat first
    [ ks_known x | progress cbn [bindr]
    | match goal with |- context [if ?b then _ else _] => destruct b eqn:? end
    | match goal with |- context [match ?o with Some _ => _ | None => _ end] => destruct o eqn:? end ];
  try exact I; conn_simpl; first [apply ks_refl | assumption].
Qed.

Lemma recv_publish_v5_KS x g c pr : KS x c (recv_publish_v5 g c pr).
Proof.
  unfold recv_publish_v5. destruct pr as [p|e]; [|ks_auto3 x]. cbv zeta.
  destruct (_ && _); [apply handle_v5_error_KS|].
  pose proof (resolve_recv_alias_ks x g (note_inbound c p) p) as Hr.
  destruct (resolve_recv_alias g (note_inbound c p) p) as [[[[c1 q] st] e0]|]; cbn [bindr]; [|exact I].
  rewrite note_inbound_s in Hr.
  destruct st; [cbn [KS]; exact Hr|].
  ks_auto3 x.
Qed.

(* acknowledgements: only the one for x touches x's entries *)
Lemma recv_ack_KS x g c v t p : k_pid p <> x -> KS x c (recv_ack g c v t (PROk p)).
Proof.
  intro Hne. unfold recv_ack.
  assert (He : forall cc tt, ks x (c_store cc) (c_store (store_erase cc v tt (k_pid p)))).
  { intros cc tt. unfold store_erase, ks. conn_simpl. now rewrite (store_has_erase_other x v tt _ _ Hne). }
  cbv zeta.
  repeat first
    [ progress cbn [bindr]
    | ks_helper x
    | ks_known x
    | match goal with |- KS _ _ (if ?b then _ else _) => destruct b eqn:? end
    | match goal with |- KS _ _ (bindr (if ?b then _ else _) _) => destruct b eqn:? end
    | match goal with |- KS _ _ (let '(_, _) := ?y in _) => destruct y as [? ?] eqn:? end ];
  try (match goal with |- KS _ _ (Panic _) => exact I end).
  all: cbn [KS]; ks_norm x.
  all: repeat match goal with
              | H : ks ?y (c_store (store_erase ?cc ?vv ?tt ?ii)) _ |- _ =>
                  apply (ks_trans y (c_store cc) _ _ (He cc tt)) in H; conn_simpl
              end.
  all: try (ks_solve x).
  all: try (eapply ks_trans; [apply He|]; conn_simpl; ks_solve x).
Qed.
Lemma recv_ack_err_KS x g c v t e : KS x c (recv_ack g c v t (PRErr e)).
Proof. unfold recv_ack. apply handle_error_KS. Qed.

Lemma recv_pubrel_KS x g c v pr : KS x c (recv_pubrel g c v pr).
Proof. unfold recv_pubrel. destruct pr as [p|e]; [|apply handle_error_KS]. ks_auto3 x. Qed.
Lemma recv_notify_KS x c v pr : KS x c (recv_notify c v pr).
Proof. unfold recv_notify. destruct pr as [p|e]; [|apply handle_error_KS]. ks_auto3 x. Qed.
Lemma recv_pingreq_KS x g c v pr : KS x c (recv_pingreq g c v pr).
Proof. unfold recv_pingreq. destruct pr as [p|e]; [|apply handle_error_KS]. ks_auto3 x. Qed.
Lemma recv_pingresp_KS x c v pr : KS x c (recv_pingresp c v pr).
Proof. unfold recv_pingresp. destruct pr as [p|e]; [|apply handle_error_KS]. ks_auto3 x. Qed.
Lemma recv_disconnect_KS x c v pr : KS x c (recv_disconnect c v pr).
Proof. unfold recv_disconnect. destruct pr as [p|e]; [|apply handle_error_KS]. ks_auto3 x. Qed.

Lemma connect_recv_state_s c v p c' :
  k_flag p = false -> connect_recv_state c v p = Ok c' -> c_store c' = c_store c.
Proof.
  intro Hf. unfold connect_recv_state, initialize. rewrite Hf. cbv zeta.
  repeat match goal with
         | |- context [if ?b then _ else _] => destruct b
         | |- context [match ?o with Some _ => _ | None => _ end] => destruct o
         | |- context [tas_new ?m] => destruct (tas_new m)
         end; cbn [bindr]; try discriminate; intro H; inversion H; subst; reflexivity.
Qed.

Lemma recv_connect_KS x g c v p : k_flag p = false -> KS x c (recv_connect g c v (PROk p)).
Proof.
  intro Hf. unfold recv_connect. destruct (negb _); [apply handle_error_KS|].
  destruct (connect_recv_state _ v p) as [c1|] eqn:E; cbn [bindr]; [|exact I].
  apply (connect_recv_state_s _ v p c1 Hf) in E. conn_simpl.
  pose proof (refresh_s c1) as Hr. destruct (refresh_pingreq_recv c1) as [c2 e2]. cbn [fst KS] in *. rewrite Hr, E. apply ks_refl.
Qed.
Lemma recv_connect_err_KS x g c v e : KS x c (recv_connect g c v (PRErr e)).
Proof.
  unfold recv_connect. destruct (negb _); [apply handle_error_KS|].
  (* the refusal CONNACK has a failure code: nothing is resumed *)
  unfold send_connack. destruct (_ && _); [cbn [bindr KS]; apply ks_refl|]. destruct (negb _); [cbn [bindr KS]; apply ks_refl|]. cbv zeta.
  pose proof (connack_send_props_s (set_status c Connecting) (connect_refusal v e)) as [H1 _].
  destruct (connack_send_props _ _) as [c1 pre]. cbn [fst] in H1.
  assert (Hrc : (k_rc (connect_refusal v e) =? 0) = false).
  { unfold connect_refusal, connack_v5, connack_v311, simple_pkt.
    repeat match goal with |- context [if ?b then _ else _] => destruct b end; reflexivity. }
  rewrite Hrc. cbn [negb].
  pose proof (cancel_s (set_status c1 Disconnected)) as Hc. destruct (cancel_timers _) as [c2 e2]. cbn [fst bindr KS] in *.
  rewrite Hc. conn_simpl. rewrite H1. conn_simpl. apply ks_refl.
Qed.

Lemma connack_recv_limits_s c p c' : connack_recv_limits c p = Ok c' ->
  c_store c' = c_store c /\ c_mps_send c' = match k_mps p with Some m => m | None => c_mps_send c end.
Proof.
  unfold connack_recv_limits.
  repeat match goal with
         | |- context [if ?b then _ else _] => destruct b
         | |- context [match ?o with Some _ => _ | None => _ end] => destruct o
         | |- context [tas_new ?m] => destruct (tas_new m)
         end; cbn [bindr]; try discriminate; intro H; inversion H; subst; split; reflexivity.
Qed.
Lemma connack_recv_ska_s c p : c_store (fst (connack_recv_ska c p)) = c_store c /\ c_mps_send (fst (connack_recv_ska c p)) = c_mps_send c.
Proof.
  unfold connack_recv_ska.
  repeat match goal with
         | |- context [if ?b then _ else _] => destruct b
         | |- context [match ?o with Some _ => _ | None => _ end] => destruct o
         end; split; reflexivity.
Qed.

(* a CONNACK that keeps x's entries: a failure code, or session present, no Session Expiry Interval 0,
   and every entry of x fits the limit the CONNACK announces (or the unchanged one) *)
Definition connack_limit (c : conn) (v : version) (p : pkt) : N :=
  if version_eqb v V50 then match k_mps p with Some m => m | None => c_mps_send c end else c_mps_send c.
Definition connack_keeps (x : N) (c : conn) (v : version) (p : pkt) : bool :=
  negb (k_rc p =? 0)
  || (k_flag p && (negb (version_eqb v V50) || negb (match k_sei p with Some 0 => true | _ => false end))
      && fits_store x (connack_limit c v p) (c_store c)).

Lemma resume_KS x c0 : fits_store x (c_mps_send c0) (c_store c0) = true -> KS x c0 (resume_or_clear c0 true).
Proof.
  intro Hf. unfold resume_or_clear. pose proof (send_stored_KS x c0 Hf) as H.
  destruct (send_stored c0) as [[c1 es]|]; cbn [bindr KS] in *; [|exact I].
  destruct (existsb _ _); [|exact H].
  pose proof (post_s c1) as Hp. destruct (send_post_process c1) as [c2 e2]. cbn [fst KS] in *. rewrite Hp. exact H.
Qed.

Lemma recv_connack_KS x c v p : connack_keeps x c v p = true -> KS x c (recv_connack c v (PROk p)).
Proof.
  intro Hk. unfold connack_keeps, connack_limit in Hk. unfold recv_connack.
  destruct (status_eqb (c_status c) Connected); [apply handle_error_KS|].
  destruct (k_rc p =? 0) eqn:Erc; [|cbn [KS]; apply ks_refl]. cbn [negb orb] in Hk.
  apply andb_true_iff in Hk as [Hk Hfit]. apply andb_true_iff in Hk as [Hsp Hsei]. rewrite Hsp.
  destruct (version_eqb v V50).
  - cbn [negb orb] in Hsei.
    destruct (connack_recv_limits _ p) as [c1|] eqn:E1; cbn [bindr]; [|exact I].
    apply connack_recv_limits_s in E1 as [S1 M1]. conn_simpl.
    pose proof (connack_recv_ska_s c1 p) as [S2 M2]. destruct (connack_recv_ska c1 p) as [c2 e1]. cbn [fst] in S2, M2.
    assert (S3 : c_store (connack_recv_sei c2 p) = c_store c2 /\ c_mps_send (connack_recv_sei c2 p) = c_mps_send c2).
    { unfold connack_recv_sei. destruct (k_sei p) as [m|]; [|split; reflexivity].
      destruct (N.eqb_spec m 0) as [->|Hm]; [discriminate|]. split; reflexivity. }
    destruct S3 as [S3 M3].
    assert (Hf : fits_store x (c_mps_send (connack_recv_sei c2 p)) (c_store (connack_recv_sei c2 p)) = true)
      by (rewrite S3, M3, S2, M2, S1, M1; exact Hfit).
    pose proof (resume_KS x _ Hf) as H. destruct (resume_or_clear _ true) as [[c3 e2]|]; cbn [bindr KS] in *; [|exact I].
    rewrite S3, S2, S1 in H. exact H.
  - assert (Hf : fits_store x (c_mps_send (set_status c Connected)) (c_store (set_status c Connected)) = true) by (conn_simpl; exact Hfit).
    pose proof (resume_KS x _ Hf) as H. destruct (resume_or_clear _ true) as [[c3 e2]|]; cbn [bindr KS] in *; [|exact I].
    conn_simpl. exact H.
Qed.
Lemma recv_connack_err_KS x c v e : KS x c (recv_connack c v (PRErr e)).
Proof.
  unfold recv_connack. destruct (status_eqb (c_status c) Connected) eqn:Es; [apply handle_error_KS|].
  destruct (version_eqb v V50); cbn [KS]; apply ks_refl.
Qed.

(* the received frames that may release x's entries *)
Definition recv_releases (x : N) (c : conn) (v : version) (pr : presult) : bool :=
  match pr with
  | PROk p => ((k_type p =? T_CONNECT) && k_flag p)
              || ((k_type p =? T_CONNACK) && negb (connack_keeps x c v p))
              || (((k_type p =? T_PUBACK) || (k_type p =? T_PUBREC) || (k_type p =? T_PUBCOMP)
                   || (k_type p =? T_SUBACK) || (k_type p =? T_UNSUBACK)) && (k_pid p =? x))
  | PRErr _ => false
  end.

Definition pr_type_ok (t : N) (pr : presult) : Prop := match pr with PROk p => k_type p = t | PRErr _ => True end.

Lemma dispatch_recv_KS x g c v t pr :
  pr_type_ok t pr -> recv_releases x c v pr = false -> KS x c (dispatch_recv g c v t pr).
Proof.
  intros Ht Hr. unfold dispatch_recv.
  destruct (t =? 1) eqn:E1.
  { destruct pr as [p|e]; [|apply recv_connect_err_KS]. cbn [pr_type_ok recv_releases] in *. apply N.eqb_eq in E1. rewrite E1 in Ht.
    rewrite Ht in Hr. change (1 =? T_CONNECT) with true in Hr. cbn [andb orb] in Hr.
    apply orb_false_iff in Hr as [Hr _]. apply orb_false_iff in Hr as [Hr _]. now apply recv_connect_KS. }
  destruct (t =? 2) eqn:E2.
  { destruct pr as [p|e]; [|apply recv_connack_err_KS]. cbn [pr_type_ok recv_releases] in *. apply N.eqb_eq in E2. rewrite E2 in Ht.
    rewrite Ht in Hr. change (2 =? T_CONNECT) with false in Hr. change (2 =? T_CONNACK) with true in Hr.
    cbn [andb orb] in Hr. apply orb_false_iff in Hr as [Hr _]. apply negb_false_iff in Hr. now apply recv_connack_KS. }
  destruct (t =? 3); [destruct (version_eqb _ _); [apply recv_publish_v5_KS|apply recv_publish_v311_KS]|].
  destruct ((t =? 4) || (t =? 5) || (t =? 7) || (t =? 9) || (t =? 11)) eqn:E4.
  { destruct pr as [p|e]; [|apply recv_ack_err_KS]. cbn [pr_type_ok recv_releases] in *. apply recv_ack_KS.
    rewrite Ht in Hr. apply orb_false_iff in Hr as [_ Hr].
    assert (Hty : (t =? T_PUBACK) || (t =? T_PUBREC) || (t =? T_PUBCOMP) || (t =? T_SUBACK) || (t =? T_UNSUBACK) = true).
    { unfold T_PUBACK, T_PUBREC, T_PUBCOMP, T_SUBACK, T_UNSUBACK.
      repeat match type of E4 with context [?a =? ?b] => destruct (a =? b) end; cbn in *; congruence. }
    rewrite Hty in Hr. cbn [andb] in Hr. now apply N.eqb_neq in Hr. }
  destruct (t =? 6); [apply recv_pubrel_KS|].
  repeat match goal with |- KS _ _ (if ?b then _ else _) => destruct b end;
    first [ apply recv_notify_KS | apply recv_pingreq_KS | apply recv_pingresp_KS | apply recv_disconnect_KS | (cbn [KS]; apply ks_refl) ].
Qed.

Lemma recv_releases_frame x c c' v pr :
  c_store c' = c_store c -> c_mps_send c' = c_mps_send c -> recv_releases x c' v pr = recv_releases x c v pr.
Proof.
  intros Hs Hm. destruct pr as [p|e]; [|reflexivity]. unfold recv_releases, connack_keeps, connack_limit. now rewrite Hs, Hm.
Qed.

Lemma process_recv_packet_KS x g c fh body pr :
  pr_type_ok (fh / 16) pr -> recv_releases x c (c_version c) pr = false -> KS x c (process_recv_packet g c fh body pr).
Proof.
  intros Ht Hr. unfold process_recv_packet. cbv zeta.
  destruct (_ <? _).
  { destruct (status_eqb _ _).
    - pose proof (close_with_disconnect_KS x c (disconnect_v5 149)) as H.
      destruct (close_with_disconnect _ _) as [[c1 e1]|]; cbn [bindr KS] in *; [exact H|exact I].
    - pose proof (cancel_s (set_status c Disconnected)) as H. destruct (cancel_timers _) as [c1 e1]. cbn [fst KS] in *.
      rewrite H. conn_simpl. apply ks_refl. }
  destruct (negb _); [cbn [KS]; apply ks_refl|].
  destruct (c_version c) eqn:Ev; try (now apply dispatch_recv_KS).
  destruct (fh / 16 =? 1) eqn:E1; [|cbn [KS]; apply ks_refl].
  destruct (_ <? 7); [cbn [KS]; apply ks_refl|]. cbv zeta.
  assert (Hc : forall v', KS x c (recv_connect g (set_version c v') v' pr)).
  { intro v'. apply (KS_trans x c (set_version c v')); [conn_simpl; apply ks_refl|].
    destruct pr as [p|e]; [|apply recv_connect_err_KS]. cbn [pr_type_ok recv_releases] in *. apply N.eqb_eq in E1. rewrite E1 in Ht.
    rewrite Ht in Hr. change (1 =? T_CONNECT) with true in Hr. cbn [andb orb] in Hr.
    apply orb_false_iff in Hr as [Hr _]. apply orb_false_iff in Hr as [Hr _]. now apply recv_connect_KS. }
  destruct (_ =? 4); [apply Hc|]. destruct (_ =? 5); [apply Hc|]. cbn [KS]. apply ks_refl.
Qed.

Definition oracle_ok (c : conn) (bytes : list N) (pr : presult) : Prop :=
  match feed (c_pb c) bytes with
  | (FComplete hdr _, _, _) => pr_type_ok (hd 0 hdr / 16) pr
  | _ => True
  end.

Lemma do_recv_KS x g c bytes pr :
  oracle_ok c bytes pr -> recv_releases x c (c_version c) pr = false ->
  match do_recv g c bytes pr with Ok (c', _, _) => ks x (c_store c) (c_store c') | Panic _ => True end.
Proof.
  unfold oracle_ok, do_recv. destruct (feed (c_pb c) bytes) as [[r pb'] rest]. intros Ho Hr. destruct r.
  - assert (Hr' : recv_releases x (set_pb c pb') (c_version (set_pb c pb')) pr = false)
      by (conn_simpl; rewrite (recv_releases_frame x c (set_pb c pb')); [exact Hr|reflexivity|reflexivity]).
    pose proof (process_recv_packet_KS x g (set_pb c pb') (hd 0 hdr) body pr Ho Hr') as H.
    destruct (process_recv_packet g _ _ body pr) as [[c1 e1]|]; cbn [bindr KS] in *; [conn_simpl; exact H|exact I].
  - conn_simpl. apply ks_refl.
  - pose proof (cancel_s (set_pb c pb')) as H. destruct (cancel_timers (set_pb c pb')) as [c1 e1]. cbn [fst] in H. rewrite H. conn_simpl. apply ks_refl.
Qed.

Lemma do_timer_KS x c k : KS x c (do_timer c k).
Proof.
  unfold do_timer. destruct k; cbv zeta.
  - destruct (status_eqb _ _); [|cbn [KS]; conn_simpl; apply ks_refl].
    destruct (c_version _); try exact I;
      (eapply KS_trans; [|apply send_pingreq_KS]); conn_simpl; apply ks_refl.
  - destruct (c_version _); try exact I; [cbn [KS]; conn_simpl; apply ks_refl|].
    destruct (status_eqb _ _); [|cbn [KS]; conn_simpl; apply ks_refl].
    (eapply KS_trans; [|apply close_with_disconnect_KS]); conn_simpl; apply ks_refl.
  - destruct (c_version _); try exact I; [cbn [KS]; conn_simpl; apply ks_refl|].
    destruct (status_eqb _ _); [|cbn [KS]; conn_simpl; apply ks_refl].
    (eapply KS_trans; [|apply close_with_disconnect_KS]); conn_simpl; apply ks_refl.
Qed.

Lemma do_closed_KS x c : c_need_store c = true -> KS x c (do_closed c).
Proof.
  intro Hn. destruct (do_closed c) as [[c' e]|] eqn:E; [|exact I]. cbn [KS].
  destruct (closed_persistent_keeps_session c c' e E Hn) as (Hs & _). apply ks_eq'. exact Hs.
Qed.

Lemma do_set_pingreq_interval_KS x c o : KS x c (do_set_pingreq_interval c o).
Proof.
  unfold do_set_pingreq_interval. cbv zeta.
  repeat match goal with
         | |- KS _ _ (match ?y with Some _ => _ | None => _ end) => destruct y
         | |- KS _ _ (if ?b then _ else _) => destruct b
         end; cbn [KS]; conn_simpl; apply ks_refl.
Qed.

Lemma do_erase_KS x c id : id <> x -> KS x c (do_erase c id).
Proof.
  intro Hne. unfold do_erase. pose proof (store_has_erase_publish_other x id (c_store c) Hne) as He.
  destruct (store_erase_publish_l _ _) as [b l]. cbn [snd] in He. destruct b; [|cbn [KS]; apply ks_refl]. cbv zeta.
  match goal with |- KS _ _ (release_if_used ?y _) => eapply (KS_trans x c y); [|apply release_KS] end.
  destruct (c_send_max _); [destruct (0 <? _)|]; conn_simpl; unfold ks; now rewrite He.
Qed.

Lemma do_restore_ks x l : forall c, ks x (c_store c) (c_store (do_restore c l)).
Proof.
  induction l as [|p t IH]; intro c; cbn [do_restore]; [apply ks_refl|].
  eapply ks_trans; [|apply IH].
  destruct (_ && _); [apply ks_refl|]. destruct (pm_register _ _) as [ok a]. destruct ok; [|apply ks_refl].
  unfold store_add_soft.
  repeat match goal with |- context [if ?b then _ else _] => destruct b end; conn_simpl; first [apply ks_refl|apply ks_snoc].
Qed.

(* the operations that are release points of the property for identifier x *)
Definition releases (x : N) (c : conn) (o : op) : bool :=
  match o with
  | OSend p => send_releases x c p
  | ORecv _ pr => recv_releases x c (c_version c) pr
  | OClosed => negb (c_need_store c)
  | OErase id => id =? x
  | _ => false
  end.

Definition op_oracle_ok (c : conn) (o : op) : Prop :=
  match o with ORecv bytes pr => oracle_ok c bytes pr | _ => True end.

(* EVERY call that is not a release point keeps x's entry in the store *)
Theorem step_keeps_stored x g c o :
  op_oracle_ok c o -> releases x c o = false -> store_has x (c_store c) = true ->
  match step g c o with Ok (c', _, _) => store_has x (c_store c') = true | Panic _ => True end.
Proof.
  intros Ho Hr Hm. destruct o; cbn [step releases op_oracle_ok] in *.
  - pose proof (do_send_KS x g c p Hr) as H. destruct (do_send g c p) as [[c' e]|]; cbn [bindr KS] in *; [now apply H|exact I].
  - pose proof (do_recv_KS x g c bytes pr Ho Hr) as H. destruct (do_recv g c bytes pr) as [[[c' e] r]|]; cbn [bindr] in *; [now apply H|exact I].
  - pose proof (do_timer_KS x c k) as H. destruct (do_timer c k) as [[c' e]|]; cbn [bindr KS] in *; [now apply H|exact I].
  - apply negb_false_iff in Hr. pose proof (do_closed_KS x c Hr) as H. destruct (do_closed c) as [[c' e]|]; cbn [bindr KS] in *; [now apply H|exact I].
  - pose proof (do_set_pingreq_interval_KS x c o) as H. destruct (do_set_pingreq_interval c o) as [[c' e]|]; cbn [bindr KS] in *; [now apply H|exact I].
  - conn_simpl. exact Hm.
  - destruct b; conn_simpl; exact Hm.
  - conn_simpl. exact Hm.
  - conn_simpl. exact Hm.
  - conn_simpl. exact Hm.
  - conn_simpl. exact Hm.
  - destruct (pm_acquire (c_pid c)) as [[r a]|]; cbn [bindr]; [conn_simpl; exact Hm|exact I].
  - destruct (pm_register (c_pid c) id) as [b a]. conn_simpl. exact Hm.
  - pose proof (release_KS x c id) as H. destruct (release_if_used c id) as [[c' e]|]; cbn [bindr KS] in *; [now apply H|exact I].
  - apply N.eqb_neq in Hr. pose proof (do_erase_KS x c id Hr) as H. destruct (do_erase c id) as [[c' e]|]; cbn [bindr KS] in *; [now apply H|exact I].
  - now apply do_restore_ks.
  - conn_simpl. exact Hm.
  - exact Hm.
Qed.

Fixpoint quiet_history (x : N) (g : cfg) (c : conn) (ops : list op) : Prop :=
  match ops with
  | [] => True
  | o :: t => op_oracle_ok c o /\ releases x c o = false /\
              match step g c o with Ok (c', _, _) => quiet_history x g c' t | Panic _ => True end
  end.

(* C06 over histories: a stored exchange stays stored through EVERY sequence of calls that contains no
   release point for its identifier — in particular across any number of persistent closes and
   resumes under limits it fits *)
Theorem stored_until_released x g : forall ops c,
  store_has x (c_store c) = true -> quiet_history x g c ops ->
  match run_state g c ops with Some c' => store_has x (c_store c') = true | None => True end.
Proof.
  induction ops as [|o t IH]; intros c Hm Hq; cbn [run_state quiet_history] in *; [exact Hm|].
  destruct Hq as (Ho & Hr & Hq). pose proof (step_keeps_stored x g c o Ho Hr Hm) as Hs.
  destruct (step g c o) as [[[c' e] r]|]; [|exact I]. now apply IH.
Qed.

(* ---------- resume: what is requested for sending, and in which order ---------- *)
Lemma sends_app a b : sends (a ++ b) = sends a ++ sends b.
Proof. unfold sends. apply flat_map_app. Qed.

Lemma send_stored_events_sends mps l :
  sends (send_stored_events mps l) = map store_into (fst (send_stored_l mps l)).
Proof.
  induction l as [|p t IH]; cbn [send_stored_events send_stored_l]; [reflexivity|].
  destruct (send_stored_l mps t) as [k d]. cbn [fst] in IH.
  destruct (mps <? k_size p); cbn [fst map]; unfold sends in *; cbn [flat_map app]; now rewrite IH.
Qed.

Lemma send_stored_sends c c' e :
  send_stored c = Ok (c', e) ->
  sends e = map store_into (fst (send_stored_l (c_mps_send c) (c_store c))) /\
  c_store c' = fst (send_stored_l (c_mps_send c) (c_store c)).
Proof.
  unfold send_stored. pose proof (send_stored_events_sends (c_mps_send c) (c_store c)) as Hs.
  destruct (send_stored_l _ _) as [kept dropped]. cbv zeta. cbn [fst] in *.
  match goal with |- bindr (release_all ?a ?ids) _ = _ -> _ => destruct (release_all a ids) as [a'|] end; cbn [bindr]; [|discriminate].
  destruct (c_send_max _); intro H; inversion H; subst; split; try exact Hs; reflexivity.
Qed.

Lemma no_sends_post c : sends (snd (send_post_process c)) = [].
Proof. unfold send_post_process. destruct (c_is_client c); [destruct (0 <? _)|]; reflexivity. Qed.

(* the server side: a successful CONNACK is followed, in the same call, by exactly the stored packets
   that fit, in store order, as PUBLISH (DUP as stored) or PUBREL, and nothing else *)
Theorem connack_sent_resumes_in_order c p c' e :
  send_connack c p = Ok (c', e) -> k_rc p = 0 -> existsb is_error e = false ->
  sends e = p :: map store_into (fst (send_stored_l (c_mps_send c) (c_store c))).
Proof.
  unfold send_connack. intros H Hrc Hne.
  destruct (_ && _); [inversion H; subst; discriminate|].
  destruct (negb _); [inversion H; subst; discriminate|]. cbv zeta in H.
  pose proof (connack_send_props_s c p) as [S1 M1].
  assert (Hpre : sends (snd (connack_send_props c p)) = []).
  { unfold connack_send_props. destruct (_ && _); [|reflexivity].
    repeat match goal with |- context [match ?o with Some _ => _ | None => _ end] => destruct o
                      | |- context [if ?b then _ else _] => destruct b end; reflexivity. }
  destruct (connack_send_props c p) as [c1 pre]. cbn [fst snd] in *.
  rewrite Hrc in H. change (0 =? 0) with true in H. cbn [negb] in H.
  destruct (send_stored (set_status c1 Connected)) as [[c2 es]|] eqn:Es; cbn [bindr] in H; [|discriminate].
  apply send_stored_sends in Es as [Es _]. conn_simpl. rewrite S1, M1 in Es.
  pose proof (no_sends_post c2) as Hp. destruct (send_post_process c2) as [c3 e3]. cbn [snd] in Hp.
  inversion H; subst. rewrite sends_app, Hpre. cbn [app].
  change (sends (ESend p None :: es ++ e3)) with (p :: sends (es ++ e3)). now rewrite sends_app, Es, Hp, app_nil_r.
Qed.

(* the client side: a CONNACK with Session Present is followed, in the same call, by exactly the
   stored packets that fit the (possibly new) limit, in store order, and nothing else *)
Theorem connack_received_resumes_in_order c v p c' e :
  recv_connack c v (PROk p) = Ok (c', e) ->
  status_eqb (c_status c) Connected = false -> k_rc p = 0 -> k_flag p = true ->
  (version_eqb v V50 = true -> match k_sei p with Some 0 => False | _ => True end) ->
  sends e = map store_into (fst (send_stored_l (connack_limit c v p) (c_store c))) /\
  c_store c' = fst (send_stored_l (connack_limit c v p) (c_store c)).
Proof.
  unfold recv_connack, connack_limit. intros H Hst Hrc Hfl Hsei. rewrite Hst, Hrc, Hfl in H. change (0 =? 0) with true in H.
  assert (Hres : forall c0 c3 e2, resume_or_clear c0 true = Ok (c3, e2) ->
            sends e2 = map store_into (fst (send_stored_l (c_mps_send c0) (c_store c0))) /\
            c_store c3 = fst (send_stored_l (c_mps_send c0) (c_store c0))).
  { intros c0 c3 e2. unfold resume_or_clear. destruct (send_stored c0) as [[c1 es]|] eqn:Es; cbn [bindr]; [|discriminate].
    apply send_stored_sends in Es as [Es1 Es2]. destruct (existsb _ _).
    - pose proof (no_sends_post c1) as Hp. pose proof (post_s c1) as Hps. destruct (send_post_process c1) as [c2 e3]. cbn [fst snd] in *.
      intro K; inversion K; subst. rewrite sends_app, Hp, app_nil_r. split; [exact Es1|now rewrite Hps].
    - intro K; inversion K; subst. split; assumption. }
  destruct (version_eqb v V50).
  - destruct (connack_recv_limits _ p) as [c1|] eqn:E1; cbn [bindr] in H; [|discriminate].
    apply connack_recv_limits_s in E1 as [S1 M1]. conn_simpl.
    pose proof (connack_recv_ska_s c1 p) as [S2 M2].
    assert (Hska : sends (snd (connack_recv_ska c1 p)) = []).
    { unfold connack_recv_ska.
      repeat match goal with |- context [if ?b then _ else _] => destruct b
                        | |- context [match ?o with Some _ => _ | None => _ end] => destruct o end; reflexivity. }
    destruct (connack_recv_ska c1 p) as [c2 e1]. cbn [fst snd] in *.
    assert (S3 : c_store (connack_recv_sei c2 p) = c_store c2 /\ c_mps_send (connack_recv_sei c2 p) = c_mps_send c2).
    { specialize (Hsei eq_refl). unfold connack_recv_sei. destruct (k_sei p) as [m|]; [|split; reflexivity].
      destruct (N.eqb_spec m 0) as [->|Hm]; [contradiction|]. split; reflexivity. }
    destruct S3 as [S3 M3].
    destruct (resume_or_clear _ true) as [[c3 e2]|] eqn:Er; cbn [bindr] in H; [|discriminate].
    apply Hres in Er as [R1 R2]. rewrite S3, M3, S2, M2, S1, M1 in R1, R2.
    inversion H; subst. rewrite !sends_app, Hska, R1. cbn [sends flat_map app]. rewrite app_nil_r. split; [reflexivity|exact R2].
  - destruct (resume_or_clear _ true) as [[c3 e2]|] eqn:Er; cbn [bindr] in H; [|discriminate].
    apply Hres in Er as [R1 R2]. conn_simpl.
    inversion H; subst. rewrite !sends_app, R1. cbn [sends flat_map app]. rewrite app_nil_r. split; [reflexivity|exact R2].
Qed.

(* when the session is not present the store is emptied *)
Theorem connack_without_session_empties_store c v p c' e :
  recv_connack c v (PROk p) = Ok (c', e) ->
  status_eqb (c_status c) Connected = false -> k_rc p = 0 -> k_flag p = false ->
  c_store c' = [] /\ sends e = [].
Proof.
  unfold recv_connack. intros H Hst Hrc Hfl. rewrite Hst, Hrc, Hfl in H. change (0 =? 0) with true in H.
  unfold resume_or_clear in H. cbn [bindr] in H.
  destruct (version_eqb v V50).
  - destruct (connack_recv_limits _ p) as [c1|]; cbn [bindr] in H; [|discriminate].
    assert (Hska : sends (snd (connack_recv_ska c1 p)) = []).
    { unfold connack_recv_ska.
      repeat match goal with |- context [if ?b then _ else _] => destruct b
                        | |- context [match ?o with Some _ => _ | None => _ end] => destruct o end; reflexivity. }
    destruct (connack_recv_ska c1 p) as [c2 e1]. cbn [snd] in Hska. inversion H; subst.
    split; [unfold clear_store_related; reflexivity|]. rewrite sends_app, Hska. reflexivity.
  - inversion H; subst. split; reflexivity.
Qed.
