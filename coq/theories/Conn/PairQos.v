(* C01, model side, on an intact link: a QoS 1 and a QoS 2 exchange between two endpoints complete — the message is
   notified exactly once, every acknowledgement is requested and accepted, and the sender's identifier is released —
   for EVERY pair of states that satisfy the stated preconditions (v3.1.1; the transport delivers each requested
   packet as the frame that was sent: C09, and the parser returns the view that was sent: C02). *)
From MQ Require Import Base.Prelude Alloc.Alloc Alloc.SetSpec Alloc.AllocProofs Framing.Framing
                       Conn.Types Conn.TopicAlias Conn.ConnRecord Conn.Step Conn.Run Corr.ConnTrace Conn.Scope Conn.IdsQuota Conn.WfInv
                       Conn.Own Conn.OwnFrame Conn.OwnStep Conn.Qos2Dup Conn.TasBounds Conn.NoPanic.

(* the receiver is handed the packet that was requested for sending *)
Definition deliver (g : cfg) (c : conn) (p : pkt) : res (conn * list event) := dispatch_recv g c (c_version c) (k_type p) (PROk p).

Definition v311_pub (p : pkt) (q : N) : Prop := k_type p = T_PUBLISH /\ k_ver p = V311 /\ k_qos p = q.
Definition ready (c : conn) : Prop := c_version c = V311 /\ status_eqb (c_status c) Connected = true.

Lemma ready_f8 c1 c : F8 c1 c -> c_status c1 = c_status c -> ready c -> ready c1.
Proof. intros (_ & _ & _ & _ & _ & _ & _ & Hv) Hs [R1 R2]. split; [congruence|now rewrite Hs]. Qed.

(* the post-processing after a send keeps everything the exchange looks at *)
Lemma post_keeps c : let c' := fst (send_post_process c) in
  F8 c' c /\ c_status c' = c_status c /\ c_auto_pub c' = c_auto_pub c /\ c_qos2 c' = c_qos2 c /\ c_need_store c' = c_need_store c.
Proof. cbv zeta. unfold send_post_process. destruct (c_is_client c); [destruct (0 <? _)|]; cbn [fst]; repeat split. Qed.
Lemma refresh_keeps c : let c' := fst (refresh_pingreq_recv c) in
  F8 c' c /\ c_status c' = c_status c /\ c_auto_pub c' = c_auto_pub c /\ c_qos2 c' = c_qos2 c.
Proof. cbv zeta. unfold refresh_pingreq_recv. destruct (negb _); cbn [fst]; repeat split. Qed.

(* the sender accepts the PUBLISH: it is requested for sending, its identifier is awaited *)
Lemma sender_sends g c p q : OWN g c -> ready c -> v311_pub p q -> 1 <= q <= 2 -> fresh c (k_pid p) -> is_used c (k_pid p) = true ->
  match send_publish_v311 c p with
  | Ok (c1, e1) => In p (sends e1) /\ OWN g c1 /\ ready c1 /\ is_used c1 (k_pid p) = true /\ c_auto_pub c1 = c_auto_pub c /\
                   mem (k_pid p) (if q =? 2 then c_pubrec c1 else c_puback c1) = true
  | Panic _ => False
  end.
Proof.
  intros HO [Rv Rs] (Ht & Hv & Hq) Hr Hf Hu.
  pose proof (send_publish_v311_OR g c p HO (fun _ => Hf) ltac:(congruence) Ht ltac:(lia)) as HOR.
  unfold send_publish_v311 in *. cbv zeta in *. rewrite Hq in *.
  assert (E0 : (q =? 0) = false) by (apply N.eqb_neq; lia). rewrite E0 in *. cbn [negb] in *. rewrite Rs, Hu in *. cbn [negb andb] in *.
  destruct Hf as [Hc Hs].
  assert (Hfin : forall cx, c_pid cx = c_pid c -> c_status cx = c_status c -> c_auto_pub cx = c_auto_pub c -> c_version cx = c_version c ->
            mem (k_pid p) (if q =? 2 then c_pubrec cx else c_puback cx) = true ->
            OR g c (send_and_post cx p (if can_store_now c then None else Some (k_pid p)) []) ->
            match send_and_post cx p (if can_store_now c then None else Some (k_pid p)) [] with
            | Ok (c1, e1) => In p (sends e1) /\ OWN g c1 /\ ready c1 /\ is_used c1 (k_pid p) = true /\ c_auto_pub c1 = c_auto_pub c /\
                             mem (k_pid p) (if q =? 2 then c_pubrec c1 else c_puback c1) = true
            | Panic _ => False end).
  { intros cx Hp Hst Ha Hvx Hm Hor. unfold send_and_post in *. pose proof (post_keeps cx) as K. cbv zeta in K.
    destruct (send_post_process cx) as [c1 e]. cbn [fst OR] in *. destruct K as (F & K1 & K2 & _). destruct Hor as [O1 _].
    split; [cbn; now left|]. split; [exact O1|]. split; [split; [destruct F as (_ & _ & _ & _ & _ & _ & _ & F); congruence|rewrite K1, Hst; exact Rs]|].
    split; [unfold is_used in *; destruct F as (F & _); now rewrite F, Hp|]. split; [congruence|].
    destruct F as (_ & _ & F3 & F4 & _). destruct (q =? 2); [now rewrite F4|now rewrite F3]. }
  destruct (can_store_now c) eqn:Ec.
  - unfold store_add in *. change (k_pid (set_dup p true)) with (k_pid p) in *. rewrite Hs in *. cbn [bindr] in *.
    destruct (N.eqb_spec q 2) as [E2|E2]; conn_simpl; rewrite Rs in *.
    + apply Hfin; try reflexivity; [conn_simpl_goal; unfold mem, ins; rewrite s_mem_insert, N.eqb_refl; reflexivity|exact HOR].
    + apply Hfin; try reflexivity; [conn_simpl_goal; unfold mem, ins; rewrite s_mem_insert, N.eqb_refl; reflexivity|exact HOR].
  - cbn [bindr] in *. destruct (N.eqb_spec q 2) as [E2|E2]; conn_simpl; rewrite Rs in *.
    + apply Hfin; try reflexivity; [conn_simpl_goal; unfold mem, ins; rewrite s_mem_insert, N.eqb_refl; reflexivity|exact HOR].
    + apply Hfin; try reflexivity; [conn_simpl_goal; unfold mem, ins; rewrite s_mem_insert, N.eqb_refl; reflexivity|exact HOR].
Qed.

(* an acknowledgement the library generates on an established v3.1.1 connection is requested for sending *)
Lemma auto_ack_sent g c t id : ready c ->
  match send_puback_like c (ack_pkt g t V311 id None) with
  | Ok (c1, e) => sends e = [ack_pkt g t V311 id None] /\ notifies e = [] /\ F8 c1 c /\ c_status c1 = c_status c /\
                  c_auto_pub c1 = c_auto_pub c /\ c_qos2 c1 = c_qos2 c
  | Panic _ => False
  end.
Proof.
  intros [Rv Rs]. unfold send_puback_like. change (k_ver (ack_pkt g t V311 id None)) with V311. cbn [version_eqb andb]. rewrite Rs. cbn [negb].
  unfold send_and_post. pose proof (post_keeps c) as K. pose proof (post_silent c) as ((S1 & _ & S3) & _). cbv zeta in K.
  destruct (send_post_process c) as [c1 e]. cbn [fst snd] in *. destruct K as (F & K1 & K2 & K3 & _).
  rewrite !sends_app', !notifies_app, S1, S3. cbn. split; [reflexivity|]. split; [reflexivity|]. split; [exact F|]. split; [exact K1|]. split; [exact K2|exact K3].
Qed.

(* the receiver, QoS 1, automatic responses: notified once, PUBACK requested *)
Lemma receiver_q1 g c p : ready c -> c_auto_pub c = true -> v311_pub p 1 ->
  match deliver g c p with
  | Ok (c1, e) => notifies e = [p] /\ In (ack_pkt g T_PUBACK V311 (k_pid p) None) (sends e)
  | Panic _ => False
  end.
Proof.
  intros [Rv Rs] Ha (Ht & Hv & Hq). unfold deliver, dispatch_recv. rewrite Ht, Rv.
  change (T_PUBLISH =? 1) with false. change (T_PUBLISH =? 2) with false. change (T_PUBLISH =? 3) with true. cbn [version_eqb]. cbv iota.
  unfold recv_publish_v311. cbv zeta. rewrite Hq. change (1 =? 0) with false. change (1 =? 1) with true. cbv iota. rewrite Rs, Ha. cbn [andb].
  pose proof (auto_ack_sent g c T_PUBACK (k_pid p) (conj Rv Rs)) as H.
  destruct (send_puback_like c _) as [[c1 e1]|]; cbn [bindr]; [|destruct H]. destruct H as (H1 & H2 & _).
  pose proof (refresh_silent c1) as ((S1 & _ & S3) & _). destruct (refresh_pingreq_recv c1) as [c2 e2]. cbn [fst snd] in *.
  rewrite !notifies_app, !sends_app', H1, H2, S1, S3. cbn. split; [reflexivity|now left].
Qed.

(* the sender receives the final acknowledgement of kind r for an identifier awaited in that set: released *)
Lemma sender_final_ack g c a (r : N) : OWN g c -> ready c -> k_ver a = V311 -> k_type a = r -> (r = T_PUBACK \/ r = T_PUBCOMP) ->
  mem (k_pid a) (if r =? T_PUBACK then c_puback c else c_pubcomp c) = true -> is_used c (k_pid a) = true ->
  match deliver g c a with
  | Ok (c2, e) => In (k_pid a) (released e) /\ is_used c2 (k_pid a) = false /\ store_has (k_pid a) (c_store c2) = false /\
                  mem (k_pid a) (c_puback c2) = false /\ mem (k_pid a) (c_pubrec c2) = false /\ mem (k_pid a) (c_pubcomp c2) = false
  | Panic _ => False
  end.
Proof.
  intros HO [Rv Rs] Hva Hta Hr Hm Hu. unfold deliver, dispatch_recv. rewrite Hta, Rv.
  assert (Hfin : forall c1, OWN g c1 -> fresh c1 (k_pid a) -> is_used c1 (k_pid a) = true ->
            match bindr (release_if_used c1 (k_pid a)) (fun '(c0, e1) => let '(c3, e2) := refresh_pingreq_recv c0 in Ok (c3, e1 ++ e2 ++ [ENotify a])) with
            | Ok (c2, e) => In (k_pid a) (released e) /\ is_used c2 (k_pid a) = false /\ store_has (k_pid a) (c_store c2) = false /\
                            mem (k_pid a) (c_puback c2) = false /\ mem (k_pid a) (c_pubrec c2) = false /\ mem (k_pid a) (c_pubcomp c2) = false
            | Panic _ => False end).
  { intros c1 O1 [Hc Hs] U1. unfold release_if_used. rewrite U1. unfold is_used, pm_is_used in U1.
    destruct (release_ok g _ _ (o_wf _ _ _ _ _ _ _ _ _ O1) U1) as (a' & Er & _). rewrite Er. cbn [bindr].
    destruct (release_used_spec g _ _ a' (o_wf _ _ _ _ _ _ _ _ _ O1) U1 Er) as [_ Hrel].
    pose proof (refresh_keeps (set_pid c1 a')) as K. cbv zeta in K. destruct (refresh_pingreq_recv (set_pid c1 a')) as [c3 e2]. cbn [fst] in K.
    destruct K as ((F1 & F2 & F3 & F4 & F5 & _) & _). conn_simpl.
    destruct (cnt_zero _ _ _ _ _ (k_pid a) Hc) as (Z1 & Z2 & Z3 & _).
    split; [cbn; now left|]. split; [unfold is_used, pm_is_used; rewrite F1, Hrel, N.eqb_refl; apply andb_false_r|].
    split; [now rewrite F2|]. split; [now rewrite F3|]. split; [now rewrite F4|now rewrite F5]. }
  destruct Hr as [-> | ->].
  - change (T_PUBACK =? 1) with false. change (T_PUBACK =? 2) with false. change (T_PUBACK =? 3) with false.
    change ((T_PUBACK =? 4) || (T_PUBACK =? 5) || (T_PUBACK =? 7) || (T_PUBACK =? 9) || (T_PUBACK =? 11)) with true. cbv iota.
    unfold recv_ack. cbv zeta. change (T_PUBACK =? T_PUBACK) with true in *. cbv iota in *. rewrite Hm. cbn [version_eqb].
    destruct (ack_PA_own g c (k_pid a) HO Hm) as (O1 & Fr & _). cbv zeta in O1, Fr. rewrite Rv in O1, Fr.
    apply (Hfin _ O1 Fr). unfold is_used, store_erase in *. conn_simpl_goal. exact Hu.
  - change (T_PUBCOMP =? 1) with false. change (T_PUBCOMP =? 2) with false. change (T_PUBCOMP =? 3) with false.
    change ((T_PUBCOMP =? 4) || (T_PUBCOMP =? 5) || (T_PUBCOMP =? 7) || (T_PUBCOMP =? 9) || (T_PUBCOMP =? 11)) with true. cbv iota.
    unfold recv_ack. cbv zeta. change (T_PUBCOMP =? T_PUBACK) with false in *. change (T_PUBCOMP =? T_PUBREC) with false. change (T_PUBCOMP =? T_PUBCOMP) with true.
    cbv iota in *. rewrite Hm. cbn [version_eqb].
    destruct (ack_PC_own g c (k_pid a) HO Hm) as (O1 & Fr & _). cbv zeta in O1, Fr. rewrite Rv in O1, Fr.
    apply (Hfin _ O1 Fr). unfold is_used, store_erase in *. conn_simpl_goal. exact Hu.
Qed.

(* ---- QoS 1: PUBLISH, PUBACK ---- *)
Definition puback_for (g : cfg) (p : pkt) : pkt := ack_pkt g T_PUBACK V311 (k_pid p) None.

Theorem qos1_completes gs gr cs cr p :
  OWN gs cs -> ready cs -> ready cr -> c_auto_pub cr = true -> v311_pub p 1 ->
  fresh cs (k_pid p) -> is_used cs (k_pid p) = true ->
  exists cs1 e1 cr1 e2 cs2 e3,
    send_publish_v311 cs p = Ok (cs1, e1) /\ In p (sends e1) /\
    deliver gr cr p = Ok (cr1, e2) /\ notifies e2 = [p] /\ In (puback_for gr p) (sends e2) /\
    deliver gs cs1 (puback_for gr p) = Ok (cs2, e3) /\ In (k_pid p) (released e3) /\
    is_used cs2 (k_pid p) = false /\ store_has (k_pid p) (c_store cs2) = false /\
    mem (k_pid p) (c_puback cs2) = false /\ mem (k_pid p) (c_pubrec cs2) = false /\ mem (k_pid p) (c_pubcomp cs2) = false.
Proof.
  intros HO Rs Rr Ha Hp Hf Hu.
  pose proof (sender_sends gs cs p 1 HO Rs Hp ltac:(lia) Hf Hu) as H1.
  destruct (send_publish_v311 cs p) as [[cs1 e1]|] eqn:E1; [|destruct H1]. destruct H1 as (S1 & O1 & R1 & U1 & _ & M1).
  change (1 =? 2) with false in M1. cbv iota in M1.
  pose proof (receiver_q1 gr cr p Rr Ha Hp) as H2.
  destruct (deliver gr cr p) as [[cr1 e2]|] eqn:E2; [|destruct H2]. destruct H2 as (N2 & S2).
  pose proof (sender_final_ack gs cs1 (puback_for gr p) T_PUBACK O1 R1 eq_refl eq_refl (or_introl eq_refl)) as H3.
  change (T_PUBACK =? T_PUBACK) with true in H3. cbv iota in H3. change (k_pid (puback_for gr p)) with (k_pid p) in H3.
  specialize (H3 M1 U1).
  destruct (deliver gs cs1 (puback_for gr p)) as [[cs2 e3]|] eqn:E3; [|destruct H3].
  exists cs1, e1, cr1, e2, cs2, e3. repeat split; try reflexivity; try assumption; apply H3.
Qed.

(* ---- QoS 2: PUBLISH, PUBREC, PUBREL, PUBCOMP ---- *)
(* a packet requested for sending, then the receive bookkeeping: the packet is among the requests, nothing the
   exchange looks at moves *)
Lemma post_then_refresh cx p rel a :
  match bindr (send_and_post cx p rel []) (fun '(c, e1) => let '(c0, e2) := refresh_pingreq_recv c in Ok (c0, e1 ++ e2 ++ [ENotify a])) with
  | Ok (c2, e) => In p (sends e) /\ F8 c2 cx /\ c_status c2 = c_status cx /\ c_auto_pub c2 = c_auto_pub cx /\ c_qos2 c2 = c_qos2 cx
  | Panic _ => False
  end.
Proof.
  unfold send_and_post. pose proof (post_keeps cx) as K. cbv zeta in K. destruct (send_post_process cx) as [c1 e1]. cbn [fst bindr] in *.
  pose proof (refresh_keeps c1) as K'. cbv zeta in K'. destruct (refresh_pingreq_recv c1) as [c2 e2]. cbn [fst] in *.
  destruct K as (F & K1 & K2 & K3 & _), K' as (F' & K1' & K2' & K3').
  split; [rewrite !sends_app'; cbn; now left|]. split; [exact (f8_trans _ _ _ F' F)|]. repeat split; congruence.
Qed.

Lemma sender_pubrec g c a : OWN g c -> ready c -> c_auto_pub c = true -> k_ver a = V311 -> k_type a = T_PUBREC ->
  mem (k_pid a) (c_pubrec c) = true -> is_used c (k_pid a) = true ->
  match deliver g c a with
  | Ok (c2, e) => In (ack_pkt g T_PUBREL V311 (k_pid a) None) (sends e) /\ OWN g c2 /\ ready c2 /\
                  is_used c2 (k_pid a) = true /\ mem (k_pid a) (c_pubcomp c2) = true
  | Panic _ => False
  end.
Proof.
  intros HO [Rv Rs] Ha Hva Hta Hm Hu.
  pose proof (recv_ack_OR g c T_PUBREC (PROk a) HO) as HOR.
  unfold deliver, dispatch_recv. rewrite Hta, Rv in *.
  change (T_PUBREC =? 1) with false. change (T_PUBREC =? 2) with false. change (T_PUBREC =? 3) with false.
  change ((T_PUBREC =? 4) || (T_PUBREC =? 5) || (T_PUBREC =? 7) || (T_PUBREC =? 9) || (T_PUBREC =? 11)) with true. cbv iota.
  unfold recv_ack in *. cbv zeta in *. change (T_PUBREC =? T_PUBACK) with false in *. change (T_PUBREC =? T_PUBREC) with true in *.
  cbv iota in *. rewrite Hm in *. cbn [version_eqb negb orb] in *.
  destruct (ack_PB_own g c (k_pid a) HO Hm) as (O1 & [Hc Hs] & _). cbv zeta in *. rewrite Rv in *.
  set (c1 := store_erase _ V311 T_PUBREC (k_pid a)) in *.
  assert (A1 : c_auto_pub c1 = true) by exact Ha.
  assert (A2 : c_status c1 = c_status c) by reflexivity.
  assert (A3 : is_used c1 (k_pid a) = true) by exact Hu.
  assert (A4 : c_version c1 = V311) by exact Rv.
  rewrite A1, A2, Rs in *. cbn [andb] in *.
  unfold send_pubrel in *. cbv zeta in *.
  change (k_ver (ack_pkt g T_PUBREL V311 (k_pid a) None)) with V311 in *. change (k_pid (ack_pkt g T_PUBREL V311 (k_pid a) None)) with (k_pid a) in *.
  cbn [version_eqb andb] in *. rewrite A2, Rs, A3 in *. cbn [negb andb] in *.
  assert (Hfin : forall cx, c_pid cx = c_pid c1 -> c_status cx = c_status c -> c_version cx = V311 -> mem (k_pid a) (c_pubcomp cx) = true ->
     forall r, r = bindr (send_and_post cx (ack_pkt g T_PUBREL V311 (k_pid a) None) None [])
                     (fun '(c0, e1) => let '(c2, e2) := refresh_pingreq_recv c0 in Ok (c2, e1 ++ e2 ++ [ENotify a])) ->
     OR g c r ->
     match r with
     | Ok (c2, e) => In (ack_pkt g T_PUBREL V311 (k_pid a) None) (sends e) /\ OWN g c2 /\ ready c2 /\
                     is_used c2 (k_pid a) = true /\ mem (k_pid a) (c_pubcomp c2) = true
     | Panic _ => False end).
  { intros cx Hp Hst Hvx Hmx r Er Hor. pose proof (post_then_refresh cx (ack_pkt g T_PUBREL V311 (k_pid a) None) None a) as K.
    rewrite <- Er in K. clear Er. destruct r as [[c2 e]|]; [|exact K]. destruct K as (K1 & F & K2 & _). destruct Hor as [O2 _].
    split; [exact K1|]. split; [exact O2|]. destruct F as (F1 & _ & _ & _ & F5 & _ & _ & F8v).
    split; [split; [congruence|rewrite K2, Hst; exact Rs]|]. split; [unfold is_used in *; rewrite F1, Hp; exact A3|now rewrite F5]. }
  destruct (c_need_store c1) eqn:En.
  - unfold store_add in *. change (k_pid (ack_pkt g T_PUBREL V311 (k_pid a) None)) with (k_pid a) in *. rewrite Hs in *. cbn [bindr] in HOR |- *.
    conn_simpl. rewrite A2, Rs in *.
    eapply Hfin; [..|reflexivity|exact HOR]; try reflexivity; try exact Rv; conn_simpl_goal; unfold mem, ins; rewrite s_mem_insert, N.eqb_refl; reflexivity.
  - cbn [bindr] in HOR |- *. conn_simpl. rewrite A2, Rs in *.
    eapply Hfin; [..|reflexivity|exact HOR]; try reflexivity; try exact Rv; conn_simpl_goal; unfold mem, ins; rewrite s_mem_insert, N.eqb_refl; reflexivity.
Qed.

(* the receiver, QoS 2, first arrival: notified once, recorded as handled, PUBREC requested *)
Lemma receiver_q2 g c p : ready c -> c_auto_pub c = true -> v311_pub p 2 -> mem (k_pid p) (c_qos2 c) = false ->
  match deliver g c p with
  | Ok (c1, e) => notifies e = [p] /\ In (ack_pkt g T_PUBREC V311 (k_pid p) None) (sends e) /\
                  ready c1 /\ c_auto_pub c1 = true /\ mem (k_pid p) (c_qos2 c1) = true
  | Panic _ => False
  end.
Proof.
  intros [Rv Rs] Ha (Ht & Hv & Hq) Hn. unfold deliver, dispatch_recv. rewrite Ht, Rv.
  change (T_PUBLISH =? 1) with false. change (T_PUBLISH =? 2) with false. change (T_PUBLISH =? 3) with true. cbn [version_eqb]. cbv iota.
  unfold recv_publish_v311. cbv zeta. rewrite Hq. change (2 =? 0) with false. change (2 =? 1) with false. cbv iota. rewrite Hn.
  set (c0 := set_qos2 c (ins (k_pid p) (c_qos2 c))).
  assert (R0 : ready c0) by (split; [exact Rv|exact Rs]).
  change (c_auto_pub c0) with (c_auto_pub c). rewrite Rs, Ha. cbn [andb orb].
  pose proof (auto_ack_sent g c0 T_PUBREC (k_pid p) R0) as H.
  destruct (send_puback_like c0 _) as [[c1 e1]|]; cbn [bindr]; [|destruct H]. destruct H as (H1 & H2 & F & K1 & K2 & K3).
  pose proof (refresh_silent c1) as ((S1 & _ & S3) & _). pose proof (refresh_keeps c1) as K. cbv zeta in K.
  destruct (refresh_pingreq_recv c1) as [c2 e2]. cbn [fst snd] in *. destruct K as (F' & K1' & K2' & K3').
  rewrite !notifies_app, !sends_app', H1, H2, S1, S3. cbn. split; [reflexivity|]. split; [now left|].
  split; [apply (ready_f8 c2 c0 (f8_trans _ _ _ F' F)); [congruence|exact R0]|]. split; [rewrite K2', K2; exact Ha|].
  rewrite K3', K3. unfold c0. conn_simpl_goal. unfold mem, ins. rewrite s_mem_insert, N.eqb_refl. reflexivity.
Qed.

(* the receiver gets the PUBREL: it is notified and PUBCOMP is requested *)
Lemma receiver_pubrel g c a : ready c -> c_auto_pub c = true -> k_type a = T_PUBREL ->
  match deliver g c a with
  | Ok (c1, e) => notifies e = [a] /\ In (ack_pkt g T_PUBCOMP V311 (k_pid a) None) (sends e)
  | Panic _ => False
  end.
Proof.
  intros [Rv Rs] Ha Ht. unfold deliver, dispatch_recv. rewrite Ht, Rv.
  change (T_PUBREL =? 1) with false. change (T_PUBREL =? 2) with false. change (T_PUBREL =? 3) with false.
  change ((T_PUBREL =? 4) || (T_PUBREL =? 5) || (T_PUBREL =? 7) || (T_PUBREL =? 9) || (T_PUBREL =? 11)) with false.
  change (T_PUBREL =? 6) with true. cbv iota. unfold recv_pubrel. cbv zeta.
  set (c0 := set_qos2 c (del (k_pid a) (c_qos2 c))).
  assert (R0 : ready c0) by (split; [exact Rv|exact Rs]).
  change (c_auto_pub c0) with (c_auto_pub c). change (c_status c0) with (c_status c). rewrite Rs, Ha. cbn [andb version_eqb].
  pose proof (auto_ack_sent g c0 T_PUBCOMP (k_pid a) R0) as H.
  destruct (send_puback_like c0 _) as [[c1 e1]|]; cbn [bindr]; [|destruct H]. destruct H as (H1 & H2 & _).
  pose proof (refresh_silent c1) as ((S1 & _ & S3) & _). destruct (refresh_pingreq_recv c1) as [c2 e2]. cbn [fst snd] in *.
  rewrite !notifies_app, !sends_app', H1, H2, S1, S3. cbn. split; [reflexivity|now left].
Qed.

Definition pubrec_for (g : cfg) (p : pkt) : pkt := ack_pkt g T_PUBREC V311 (k_pid p) None.
Definition pubrel_for (g : cfg) (p : pkt) : pkt := ack_pkt g T_PUBREL V311 (k_pid p) None.
Definition pubcomp_for (g : cfg) (p : pkt) : pkt := ack_pkt g T_PUBCOMP V311 (k_pid p) None.

Theorem qos2_completes gs gr cs cr p :
  OWN gs cs -> ready cs -> c_auto_pub cs = true -> ready cr -> c_auto_pub cr = true -> v311_pub p 2 ->
  fresh cs (k_pid p) -> is_used cs (k_pid p) = true -> mem (k_pid p) (c_qos2 cr) = false ->
  exists cs1 e1 cr1 e2 cs2 e3 cr2 e4 cs3 e5,
    send_publish_v311 cs p = Ok (cs1, e1) /\ In p (sends e1) /\
    deliver gr cr p = Ok (cr1, e2) /\ notifies e2 = [p] /\ In (pubrec_for gr p) (sends e2) /\
    deliver gs cs1 (pubrec_for gr p) = Ok (cs2, e3) /\ In (pubrel_for gs p) (sends e3) /\ is_used cs2 (k_pid p) = true /\
    deliver gr cr1 (pubrel_for gs p) = Ok (cr2, e4) /\ notifies e4 = [pubrel_for gs p] /\ In (pubcomp_for gr p) (sends e4) /\
    deliver gs cs2 (pubcomp_for gr p) = Ok (cs3, e5) /\ In (k_pid p) (released e5) /\
    is_used cs3 (k_pid p) = false /\ store_has (k_pid p) (c_store cs3) = false /\
    mem (k_pid p) (c_puback cs3) = false /\ mem (k_pid p) (c_pubrec cs3) = false /\ mem (k_pid p) (c_pubcomp cs3) = false.
Proof.
  intros HO Rs Has Rr Ha Hp Hf Hu Hn.
  pose proof (sender_sends gs cs p 2 HO Rs Hp ltac:(lia) Hf Hu) as H1.
  destruct (send_publish_v311 cs p) as [[cs1 e1]|] eqn:E1; [|destruct H1]. destruct H1 as (S1 & O1 & R1 & U1 & A1 & M1).
  change (2 =? 2) with true in M1. cbv iota in M1. rewrite Has in A1.
  pose proof (receiver_q2 gr cr p Rr Ha Hp Hn) as H2.
  destruct (deliver gr cr p) as [[cr1 e2]|] eqn:E2; [|destruct H2]. destruct H2 as (N2 & S2 & Rr1 & Ar1 & _).
  pose proof (sender_pubrec gs cs1 (pubrec_for gr p) O1 R1 A1 eq_refl eq_refl M1 U1) as H3.
  change (k_pid (pubrec_for gr p)) with (k_pid p) in H3.
  destruct (deliver gs cs1 (pubrec_for gr p)) as [[cs2 e3]|] eqn:E3; [|destruct H3]. destruct H3 as (S3 & O2 & R2 & U2 & M2).
  pose proof (receiver_pubrel gr cr1 (pubrel_for gs p) Rr1 Ar1 eq_refl) as H4.
  change (k_pid (pubrel_for gs p)) with (k_pid p) in H4.
  destruct (deliver gr cr1 (pubrel_for gs p)) as [[cr2 e4]|] eqn:E4; [|destruct H4]. destruct H4 as (N4 & S4).
  pose proof (sender_final_ack gs cs2 (pubcomp_for gr p) T_PUBCOMP O2 R2 eq_refl eq_refl (or_intror eq_refl)) as H5.
  change (T_PUBCOMP =? T_PUBACK) with false in H5. cbv iota in H5. change (k_pid (pubcomp_for gr p)) with (k_pid p) in H5.
  specialize (H5 M2 U2).
  destruct (deliver gs cs2 (pubcomp_for gr p)) as [[cs3 e5]|] eqn:E5; [|destruct H5].
  exists cs1, e1, cr1, e2, cs2, e3, cr2, e4, cs3, e5. repeat split; try reflexivity; try assumption; apply H5.
Qed.

(* ---- the tie to the step function the correspondence runs: what the theorems above call "the sender accepts" and
   "deliver" is what one send() / one recv() call of the model does ---- *)
Theorem step_send_publish_v311 g c p q : c_version c = V311 -> v311_pub p q ->
  step g c (OSend p) = bindr (send_publish_v311 c p) (fun '(c', e) => Ok (c', e, [])).
Proof.
  intros Rv (Ht & Hv & _). cbn [step]. cbv zeta. unfold do_send, dispatch_send. cbv zeta. rewrite Rv, Hv, Ht. reflexivity.
Qed.

Theorem step_recv_is_deliver g c bytes p hdr body pb' rest :
  feed (c_pb c) bytes = (FComplete hdr body, pb', rest) ->       (* the buffer completes exactly one frame *)
  hd 0 hdr / 16 = k_type p -> 3 <= k_type p <= 7 ->              (* whose type is the packet's: PUBLISH … PUBCOMP *)
  c_version c = V311 ->
  (c_mps_recv c <? remaining_length_to_total_size (N.of_nat (length body))) = false ->
  step g c (ORecv bytes (PROk p)) =
  bindr (deliver g (set_pb c pb') p) (fun '(c', e) => Ok (c', e, [N.of_nat (length rest)])).
Proof.
  intros Hf Hh Ht Rv Hm. cbn [step]. unfold do_recv. rewrite Hf. unfold process_recv_packet. conn_simpl_goal. rewrite Hm, Hh.
  assert (Hc : can_receive g (set_pb c pb') (k_type p) = true).
  { unfold can_receive. cbv zeta.
    assert (E : forall n, n < 3 \/ 7 < n -> (k_type p =? n) = false) by (intros n Hn; apply N.eqb_neq; lia).
    rewrite !E by lia. cbn [orb andb]. destruct (g_role g); reflexivity. }
  rewrite Hc. cbn [negb]. conn_simpl_goal. rewrite Rv. unfold deliver. conn_simpl_goal. rewrite Rv.
  destruct (dispatch_recv g (set_pb c pb') V311 (k_type p) (PROk p)) as [[c' e]|]; reflexivity.
Qed.

Lemma ready_pb c pb : ready c -> ready (set_pb c pb). Proof. intros [H1 H2]; split; assumption. Qed.
Lemma own_pb g c pb : OWN g c -> OWN g (set_pb c pb). Proof. intro H; exact H. Qed.
Lemma fresh_pb c pb id : fresh c id -> fresh (set_pb c pb) id. Proof. intro H; exact H. Qed.
