(* C08: the library announces a release exactly when it turns an in-use identifier free — never for a free
   identifier, never twice — and the only unannounced change is the wholesale reset when a new session starts.
   For EVERY call of the model other than the identifier-management calls that take identifiers into use
   (acquire, register, restore_packets). *)
From MQ Require Import Base.Prelude Alloc.Alloc Alloc.SetSpec Alloc.AllocProofs Framing.Framing
                       Conn.Types Conn.TopicAlias Conn.ConnRecord Conn.Step Conn.Run Corr.ConnTrace Conn.Scope Conn.IdsQuota Conn.WfInv
                       Conn.Own Conn.OwnFrame Conn.OwnStep.

Definition inb (x : N) (l : list N) : bool := existsb (N.eqb x) l.
Lemma inb_app x a b : inb x (a ++ b) = inb x a || inb x b. Proof. unfold inb. apply existsb_app. Qed.
Lemma inb_In x l : inb x l = true <-> In x l.
Proof.
  unfold inb. rewrite existsb_exists. split; [intros (y & Hy & E); apply N.eqb_eq in E; now subst|intro H; exists x; split; [exact H|apply N.eqb_refl]].
Qed.
Lemma inb_false x l : inb x l = false <-> ~ In x l.
Proof.
  split.
  - intros H K. apply inb_In in K. congruence.
  - intro H. destruct (inb x l) eqn:E; [|reflexivity]. apply inb_In in E. contradiction.
Qed.

(* a -> a' with the announced releases L: every announced identifier was in use, none is announced twice, and
   afterwards exactly the announced ones have turned free — or, when the flag rs allows it, everything is free
   (the wholesale reset) *)
Definition accp (rs : bool) (g : cfg) (a a' : alloc) (L : list N) : Prop :=
  WFa g a -> WFa g a' /\ NoDup L /\ (forall id, In id L -> a_is_used a id = true) /\
  ((forall id, a_is_used a' id = a_is_used a id && negb (inb id L)) \/ (rs = true /\ forall id, a_is_used a' id = false)).
(* rs = false: no wholesale reset in this call *)

Lemma accp_refl rs g a : accp rs g a a [].
Proof. intro HW. split; [exact HW|]. split; [constructor|]. split; [intros id []|]. left. intro id. cbn. now rewrite andb_true_r. Qed.

Lemma accp_trans rs g a a1 a2 L1 L2 : accp rs g a a1 L1 -> accp rs g a1 a2 L2 -> accp rs g a a2 (L1 ++ L2).
Proof.
  intros H1 H2 HW. destruct (H1 HW) as (W1 & D1 & U1 & F1). destruct (H2 W1) as (W2 & D2 & U2 & F2).
  assert (Hdisj : forall id, In id L2 -> a_is_used a id = true /\ ~ In id L1).
  { intros id Hin. pose proof (U2 id Hin) as Hu. destruct F1 as [F1|[_ F1]].
    - rewrite F1 in Hu. apply andb_true_iff in Hu as [Hu Hn]. split; [exact Hu|]. apply negb_true_iff in Hn. now apply inb_false.
    - rewrite F1 in Hu. discriminate. }
  split; [exact W2|]. split.
  { clear - D1 D2 Hdisj. induction L1 as [|x t IH]; cbn [app]; [exact D2|]. inversion D1 as [|y ys Hn Hd]; subst. constructor.
    - intro Hin. apply in_app_iff in Hin as [Hin|Hin]; [contradiction|]. destruct (Hdisj x Hin) as [_ Hx]. apply Hx. now left.
    - apply IH; [exact Hd|]. intros id Hin. destruct (Hdisj id Hin) as [A B]. split; [exact A|]. intro K. apply B. now right. }
  split.
  { intros id Hin. apply in_app_iff in Hin as [Hin|Hin]; [now apply U1|now apply Hdisj]. }
  destruct F2 as [F2|F2]; [|now right]. destruct F1 as [F1|[R1 F1]].
  - left. intro id. rewrite F2, F1, inb_app, negb_orb. now rewrite andb_assoc.
  - right. split; [exact R1|]. intro id. rewrite F2, F1. reflexivity.
Qed.

Lemma release_acc rs g a id a' : a_is_used a id = true -> pm_release a id = Ok a' -> accp rs g a a' [id].
Proof.
  intros Hu Hr HW. destruct (release_used_spec g a id a' HW Hu Hr) as [W' Hs].
  split; [exact W'|]. split; [constructor; [intros []|constructor]|]. split; [intros x [<-|[]]; exact Hu|].
  left. intro y. rewrite Hs. unfold inb. cbn. rewrite orb_false_r. reflexivity.
Qed.

Lemma clear_acc g a : accp true g a (pm_clear a) [].
Proof.
  intros (W & E1 & E2 & E3). split.
  - destruct W as (W1 & W2 & _). unfold pm_clear, a_clear, WFa, WF. cbn. repeat split; try assumption; lia.
  - split; [constructor|]. split; [intros id []|]. right. split; [reflexivity|]. intro id. unfold pm_clear, a_clear, a_is_used. cbn.
    destruct ((a_lo a <=? id) && (id <=? a_hi a)) eqn:E; [|reflexivity]. cbn [andb]. unfold contains. cbn [fst snd]. now rewrite E.
Qed.

Lemma released_app a b : released (a ++ b) = released a ++ released b. Proof. unfold released. apply flat_map_app. Qed.

Lemma drain_release_acc rs g ids : forall a a' e, drain_release a ids = Ok (a', e) -> accp rs g a a' (released e).
Proof.
  induction ids as [|i t IH]; intros a a' e; cbn [drain_release].
  - intro H; inversion H; subst. apply accp_refl.
  - unfold pm_is_used. destruct (a_is_used a i) eqn:Eu; [|apply IH].
    destruct (pm_release a i) as [a1|] eqn:Er; cbn [bindr]; [|discriminate].
    destruct (drain_release a1 t) as [[a2 e2]|] eqn:Ed; cbn [bindr]; [|discriminate]. intro H; inversion H; subst.
    change (released (EReleased i :: e2)) with ([i] ++ released e2). apply (accp_trans rs g a a1 a'); [now apply release_acc|now apply IH].
Qed.

(* the unguarded releases of send_stored: the dropped packets are stored ones, so their identifiers are in use *)
Lemma release_all_acc rs g SA UA V D : forall a S PA PB PC a',
  own8 g a S PA PB PC SA UA V -> (forall q, In q D -> In q S) -> NoDup (sids D) ->
  release_all a (sids D) = Ok a' -> accp rs g a a' (sids D).
Proof.
  induction D as [|d D IH]; intros a S PA PB PC a' HO HDS HD; cbn [sids map release_all].
  - intro H; inversion H; subst. apply accp_refl.
  - destruct (pm_release a (k_pid d)) as [a1|] eqn:Er; cbn [bindr]; [|discriminate]. intro Hra.
    pose proof (o_used _ _ _ _ _ _ _ _ _ HO d (HDS d (or_introl eq_refl))) as Hu.
    cbn [sids map] in HD. inversion HD as [|x xs Hn HD']; subst.
    change (k_pid d :: map k_pid D) with ([k_pid d] ++ sids D). apply (accp_trans rs g a a1 a'); [now apply release_acc|].
    apply (IH a1 _ _ _ _ a' (own_drop1 g _ _ _ _ _ _ _ _ (k_pid d) a1 HO Hu Er)); [|exact HD'|exact Hra].
    intros q Hq. apply filter_In. split; [apply HDS; now right|]. apply negb_true_iff, N.eqb_neq. intro E. apply Hn. rewrite <- E. now apply sids_in.
Qed.

(* ---- calls ---- *)
Definition ACC (rs : bool) (g : cfg) (c : conn) (r : res (conn * list event)) : Prop :=
  match r with Ok (c', e) => accp rs g (c_pid c) (c_pid c') (released e) | Panic _ => True end.

(* calls that neither touch the allocator nor announce anything *)
Definition QR (c : conn) (r : res (conn * list event)) : Prop :=
  match r with Ok (c', e) => c_pid c' = c_pid c /\ released e = [] | Panic _ => True end.
Lemma QR_ACC rs g c r : QR c r -> ACC rs g c r.
Proof. destruct r as [[c' e]|]; cbn [QR ACC]; [|trivial]. intros [-> ->]. apply accp_refl. Qed.

Lemma post_q c : c_pid (fst (send_post_process c)) = c_pid c /\ released (snd (send_post_process c)) = [].
Proof. unfold send_post_process. destruct (c_is_client c); [destruct (0 <? _)|]; split; reflexivity. Qed.
Lemma cancel_q c : c_pid (fst (cancel_timers c)) = c_pid c /\ released (snd (cancel_timers c)) = [].
Proof.
  split; [rewrite cancel_timers_state; reflexivity|]. unfold cancel_timers. destruct (c_t_send c); cbn [c_t_recv set_t_send].
  all: match goal with |- context [c_t_recv ?x] => destruct (c_t_recv x) end.
  all: match goal with |- context [c_t_resp ?x] => destruct (c_t_resp x) end.
  all: reflexivity.
Qed.
Lemma refresh_q c : c_pid (fst (refresh_pingreq_recv c)) = c_pid c /\ released (snd (refresh_pingreq_recv c)) = [].
Proof. unfold refresh_pingreq_recv. destruct (negb _); split; reflexivity. Qed.

Ltac q_leaf :=
  cbn [QR]; repeat match goal with |- context [if ?b then _ else _] => destruct b end;
  (split; [conn_simpl; first [reflexivity|congruence]
          |rewrite ?released_app; repeat match goal with H : released _ = [] |- _ => rewrite H end; cbn [released flat_map app]; reflexivity]).
Ltac qh :=
  first
  [ progress cbn [bindr]
  | match goal with
    | |- QR _ (Panic _) => exact I
    | |- QR _ (let '(_, _) := send_post_process ?c in _) =>
        let H := fresh "Hp" in pose proof (post_q c) as H; destruct (send_post_process c) as [? ?]; cbn [fst snd] in H; destruct H
    | |- QR _ (let '(_, _) := cancel_timers ?c in _) =>
        let H := fresh "Hp" in pose proof (cancel_q c) as H; destruct (cancel_timers c) as [? ?]; cbn [fst snd] in H; destruct H
    | |- QR _ (let '(_, _) := refresh_pingreq_recv ?c in _) =>
        let H := fresh "Hp" in pose proof (refresh_q c) as H; destruct (refresh_pingreq_recv c) as [? ?]; cbn [fst snd] in H; destruct H
    | |- QR _ (let '(_, _) := (_, _) in _) => cbv beta iota
    | |- QR _ (let '(_, _) := (if ?b then _ else _) in _) => destruct b
    | |- QR _ (if ?b then _ else _) => destruct b
    | |- QR _ (bindr (if ?b then _ else _) _) => destruct b
    | |- QR _ (match ?y with _ => _ end) => destruct y
    end ].
Lemma send_and_post_QR c0 c p rel pre : c_pid c = c_pid c0 -> released pre = [] -> QR c0 (send_and_post c p rel pre).
Proof.
  intros Hc Hp. unfold send_and_post. pose proof (post_q c) as [H1 H2]. destruct (send_post_process c) as [c' e]. cbn [fst snd QR] in *.
  split; [congruence|]. rewrite !released_app, Hp, H2. reflexivity.
Qed.
Ltac q_final :=
  match goal with
  | |- QR _ (Panic _) => exact I
  | |- QR _ (Ok _) => q_leaf
  | |- QR _ (send_and_post _ _ _ _) => repeat match goal with |- context [if ?b then _ else _] => destruct b end; (apply send_and_post_QR; [conn_simpl; first [reflexivity|congruence]|reflexivity])
  end.
Ltac q_auto := cbv zeta; repeat qh; try q_final.

Lemma send_plain_QR c p : QR c (send_plain c p). Proof. unfold send_plain. q_auto. Qed.
Lemma send_pingreq_QR c p : QR c (send_pingreq c p). Proof. unfold send_pingreq. q_auto. Qed.
Lemma send_disconnect_QR c p : QR c (send_disconnect c p). Proof. unfold send_disconnect. q_auto. Qed.
Lemma send_auth_QR c p : QR c (send_auth c p). Proof. unfold send_auth. q_auto. Qed.
Lemma send_puback_like_QR c p : QR c (send_puback_like c p). Proof. unfold send_puback_like. q_auto. Qed.

Lemma close_with_disconnect_QR c p : QR c (close_with_disconnect c p).
Proof. unfold close_with_disconnect. destruct (_ && _); [q_auto|apply send_disconnect_QR]. Qed.
Lemma handle_v5_error_QR c e : QR c (handle_v5_error c e).
Proof.
  unfold handle_v5_error. pose proof (close_with_disconnect_QR c (disconnect_v5 (disc_rc_of_err e))) as H.
  destruct (close_with_disconnect _ _) as [[c' ev]|]; cbn [bindr QR] in *; [|exact I]. destruct H as [H1 H2]. split; [exact H1|].
  rewrite released_app, H2. reflexivity.
Qed.
Lemma handle_error_QR c v e : QR c (handle_error c v e).
Proof. unfold handle_error. destruct (version_eqb v V50); [apply handle_v5_error_QR|cbn [QR]; split; reflexivity]. Qed.

Lemma QR_pre c0 c r : c_pid c = c_pid c0 -> QR c r -> QR c0 r.
Proof. destruct r as [[c' e]|]; cbn [QR]; [|trivial]. intros H [H1 H2]. split; [congruence|exact H2]. Qed.

Ltac qsub :=
  match goal with
  | |- QR _ (handle_error ?c ?v ?e) => apply (QR_pre _ c); [conn_simpl; first [reflexivity|congruence]|apply handle_error_QR]
  | |- QR _ (handle_v5_error ?c ?e) => apply (QR_pre _ c); [conn_simpl; first [reflexivity|congruence]|apply handle_v5_error_QR]
  | |- QR _ (bindr (handle_v5_error ?c ?e) _) =>
      let H := fresh "Hk" in pose proof (handle_v5_error_QR c e) as H; destruct (handle_v5_error c e) as [[? ?]|]; cbn [QR] in H; [destruct H|]
  | |- QR _ (bindr (send_puback_like ?c ?p) _) =>
      let H := fresh "Hk" in pose proof (send_puback_like_QR c p) as H; destruct (send_puback_like c p) as [[? ?]|]; cbn [QR] in H; [destruct H|]
  | |- QR _ (bindr (send_plain ?c ?p) _) =>
      let H := fresh "Hk" in pose proof (send_plain_QR c p) as H; destruct (send_plain c p) as [[? ?]|]; cbn [QR] in H; [destruct H|]
  | |- QR _ (bindr (close_with_disconnect ?c ?p) _) =>
      let H := fresh "Hk" in pose proof (close_with_disconnect_QR c p) as H; destruct (close_with_disconnect c p) as [[? ?]|]; cbn [QR] in H; [destruct H|]
  end.
Ltac q_auto3 := cbv zeta; repeat first [qsub | qh]; try q_final.

Lemma note_inbound_pid c p : c_pid (note_inbound c p) = c_pid c. Proof. unfold note_inbound. destruct (negb _); reflexivity. Qed.
Lemma note_handled_pid c p : c_pid (note_handled c p) = c_pid c. Proof. unfold note_handled. destruct (_ =? _); reflexivity. Qed.

Lemma recv_publish_v311_QR g c pr : QR c (recv_publish_v311 g c pr).
Proof. unfold recv_publish_v311, handle_v311_error. destruct pr as [p|e]; q_auto3. Qed.
Lemma resolve_recv_alias_q g c p :
  match resolve_recv_alias g c p with Ok (c', _, _, e) => c_pid c' = c_pid c /\ released e = [] | Panic _ => True end.
Proof.
  unfold resolve_recv_alias.
  repeat match goal with
         | |- match bindr (handle_v5_error ?cc ?e) _ with _ => _ end =>
             let H := fresh "Hk" in pose proof (handle_v5_error_QR cc e) as H; destruct (handle_v5_error cc e) as [[? ?]|]; cbn [bindr QR] in *
         | |- match bindr (tar_insert ?r ?t ?a) _ with _ => _ end => destruct (tar_insert r t a) as [?|]; cbn [bindr]
         | |- match (if ?b then _ else _) with _ => _ end => destruct b
         | |- match (match ?o with Some _ => _ | None => _ end) with _ => _ end => destruct o
         end; try exact I; try assumption; split; reflexivity.
Qed.
Lemma recv_publish_v5_QR g c pr : QR c (recv_publish_v5 g c pr).
Proof.
  unfold recv_publish_v5. destruct pr as [p|e]; [|q_auto3]. cbv zeta.
  destruct (_ && _); [apply handle_v5_error_QR|].
  pose proof (resolve_recv_alias_q g (note_inbound c p) p) as Hr.
  destruct (resolve_recv_alias g (note_inbound c p) p) as [[[[c1 q] st] e0]|]; cbn [bindr]; [|exact I].
  destruct Hr as [Hr1 Hr2]. rewrite note_inbound_pid in Hr1.
  destruct st; [cbn [QR]; split; assumption|].
  pose proof (note_handled_pid c1 p) as Hh. generalize dependent (note_handled c1 p). intros c2 Hh.
  q_auto3.
Qed.
Lemma recv_pubrel_QR g c v pr : QR c (recv_pubrel g c v pr).
Proof. unfold recv_pubrel. destruct pr as [p|e]; [|apply handle_error_QR]. q_auto3. Qed.
Lemma recv_notify_QR c v pr : QR c (recv_notify c v pr).
Proof. unfold recv_notify. destruct pr as [p|e]; [|apply handle_error_QR]. q_auto3. Qed.
Lemma recv_pingreq_QR g c v pr : QR c (recv_pingreq g c v pr).
Proof. unfold recv_pingreq. destruct pr as [p|e]; [|apply handle_error_QR]. q_auto3. Qed.
Lemma recv_pingresp_QR c v pr : QR c (recv_pingresp c v pr).
Proof. unfold recv_pingresp. destruct pr as [p|e]; [|apply handle_error_QR]. q_auto3. Qed.
Lemma recv_disconnect_QR c v pr : QR c (recv_disconnect c v pr).
Proof. unfold recv_disconnect. destruct pr as [p|e]; [|apply handle_error_QR]. q_auto3. Qed.
Lemma send_pubrel_QR c p : QR c (send_pubrel c p).
Proof.
  unfold send_pubrel. cbv zeta. destruct (_ && _); [q_leaf|]. destruct (_ && _); [q_leaf|]. destruct (negb _); [q_leaf|].
  destruct (c_need_store c); [unfold store_add; destruct (store_has _ _); cbn [bindr]; [exact I|]|cbn [bindr]]; q_auto3.
Qed.
Lemma do_timer_QR c k : QR c (do_timer c k).
Proof.
  unfold do_timer. destruct k; cbv zeta.
  - destruct (status_eqb _ _); [|q_leaf].
    destruct (c_version _); try exact I; (apply (QR_pre _ (set_t_send c false)); [reflexivity|apply send_pingreq_QR]).
  - destruct (c_version _); try exact I; [q_leaf|]. destruct (status_eqb _ _); [|q_leaf].
    apply (QR_pre _ (set_t_recv c false)); [reflexivity|apply close_with_disconnect_QR].
  - destruct (c_version _); try exact I; [q_leaf|]. destruct (status_eqb _ _); [|q_leaf].
    apply (QR_pre _ (set_t_resp c false)); [reflexivity|apply close_with_disconnect_QR].
Qed.

(* ---- calls that release ---- *)
Lemma ACC_pre rs g c0 c r : c_pid c = c_pid c0 -> ACC rs g c r -> ACC rs g c0 r.
Proof. destruct r as [[c' e]|]; cbn [ACC]; [|trivial]. now intros ->. Qed.

Lemma release_if_used_acc rs g c id c' e : release_if_used c id = Ok (c', e) -> accp rs g (c_pid c) (c_pid c') (released e).
Proof.
  unfold release_if_used, is_used, pm_is_used. destruct (a_is_used (c_pid c) id) eqn:Eu; [|intro H; inversion H; subst; apply accp_refl].
  destruct (pm_release (c_pid c) id) as [a|] eqn:Er; cbn [bindr]; [|discriminate]. intro H; inversion H; subst. conn_simpl_goal.
  now apply release_acc.
Qed.
(* a guarded release followed by events that announce nothing *)
Lemma release_then rs g c0 c id (k : evs -> evs) :
  c_pid c = c_pid c0 -> (forall e, released (k e) = released e) ->
  ACC rs g c0 (bindr (release_if_used c id) (fun '(c1, e) => Ok (c1, k e))).
Proof.
  intros Hc Hk. destruct (release_if_used c id) as [[c1 e]|] eqn:E; cbn [bindr ACC]; [|exact I].
  rewrite Hk, <- Hc. now apply (release_if_used_acc rs g c id).
Qed.
Lemma refuse_publish_acc rs g A c id err pre :
  accp rs g A (c_pid c) (released pre) ->
  match refuse_publish c id err pre with Ok (c', e) => accp rs g A (c_pid c') (released e) | Panic _ => True end.
Proof.
  intro H. unfold refuse_publish. destruct (negb (id =? 0) && is_used c id) eqn:E.
  - apply andb_true_iff in E as [_ Eu]. destruct (pm_release (c_pid c) id) as [a|] eqn:Er; cbn [bindr]; [|exact I]. conn_simpl_goal.
    rewrite released_app. change (released [EError err; EReleased id]) with [id].
    apply (accp_trans rs g A (c_pid c) a); [exact H|now apply release_acc].
  - rewrite released_app. change (released [EError err]) with (@nil N). now rewrite app_nil_r.
Qed.

Lemma send_sub_unsub_ACC rs g c p : ACC rs g c (send_sub_unsub c p).
Proof.
  unfold send_sub_unsub. cbv zeta.
  destruct (_ && _); [apply release_then; [reflexivity|intro e; rewrite released_app; reflexivity]|].
  destruct (negb _); [apply release_then; [reflexivity|intro e; rewrite released_app; reflexivity]|].
  apply QR_ACC. q_auto3.
Qed.
Lemma send_publish_v311_ACC rs g c p : ACC rs g c (send_publish_v311 c p).
Proof.
  unfold send_publish_v311. cbv zeta. destruct (negb (k_qos p =? 0)); [|apply QR_ACC; q_auto3].
  destruct (_ && _); [apply release_then; [reflexivity|intro e; rewrite released_app; reflexivity]|].
  destruct (negb _); [apply QR_ACC; q_leaf|].
  destruct (can_store_now c); [unfold store_add; destruct (store_has _ _); cbn [bindr]; [exact I|]|cbn [bindr]]; apply QR_ACC; q_auto3.
Qed.

Lemma validate_pid c a : c_pid (snd (validate_topic_alias c a)) = c_pid c.
Proof.
  unfold validate_topic_alias. destruct a as [x|]; [|reflexivity]. destruct (negb _); [reflexivity|].
  destruct (c_ta_send c) as [s|]; [|reflexivity]. destruct (tas_get s x) as [[t|] s']; reflexivity.
Qed.

Lemma send_publish_v5_ACC rs g c p : ACC rs g c (send_publish_v5 g c p).
Proof.
  unfold send_publish_v5. cbv zeta.
  destruct (negb (size_ok c p)).
  { destruct (negb _); [apply release_then; [reflexivity|intro e; rewrite released_app; reflexivity]|apply QR_ACC; q_leaf]. }
  match goal with |- ACC _ _ _ (bindr ?P1 _) =>
    assert (H1 : match P1 with Ok (c1, _, _, _, e1) => accp rs g (c_pid c) (c_pid c1) (released e1) | Panic _ => True end) end.
  { assert (Hrel : forall cx, c_pid cx = c_pid c ->
              match bindr (release_if_used cx (k_pid p)) (fun '(c2, e) => Ok (c2, @None N, false, true, not_allowed ++ e)) with
              | Ok (c1, _, _, _, e1) => accp rs g (c_pid c) (c_pid c1) (released e1) | Panic _ => True end).
    { intros cx Hx. destruct (release_if_used cx (k_pid p)) as [[c2 e]|] eqn:E; cbn [bindr]; [|exact I].
      rewrite released_app. change (released not_allowed) with (@nil N). cbn [app]. rewrite <- Hx. now apply (release_if_used_acc rs g cx (k_pid p)). }
    destruct (negb (k_qos p =? 0)); [|destruct (negb _); apply accp_refl].
    destruct (_ && _); [now apply Hrel|]. destruct (negb (is_used _ _)); [apply accp_refl|].
    assert (Hst : forall cx q (rel : option N) (val : bool), c_pid cx = c_pid c ->
              match bindr (bindr (store_add cx q) (fun c2 => Ok (c2, rel, val, false, @nil event)))
                      (fun '(c0, rel, validated, stop, e) =>
                         if stop then Ok (c0, rel, validated, stop, e) else
                         let c0 := if k_qos p =? 2 then set_pubrec c0 (ins (k_pid p) (c_pubrec c0)) else set_puback c0 (ins (k_pid p) (c_puback c0)) in
                         Ok (c0, rel, validated, false, e)) with
              | Ok (c1, _, _, _, e1) => accp rs g (c_pid c) (c_pid c1) (released e1) | Panic _ => True end).
    { intros cx q rel val Hx. unfold store_add. destruct (store_has _ _); cbn [bindr]; [exact I|]. cbv zeta.
      destruct (_ =? 2); conn_simpl_goal; rewrite Hx; apply accp_refl. }
    destruct (can_store_now c).
    - assert (Hrel2 : forall cx, c_pid cx = c_pid c ->
                match bindr (bindr (release_if_used cx (k_pid p)) (fun '(c2, e) => Ok (c2, @None N, false, true, not_allowed ++ e)))
                      (fun '(c0, rel, validated, stop, e) =>
                         if stop then Ok (c0, rel, validated, stop, e) else
                         let c0 := if k_qos p =? 2 then set_pubrec c0 (ins (k_pid p) (c_pubrec c0)) else set_puback c0 (ins (k_pid p) (c_puback c0)) in
                         Ok (c0, rel, validated, false, e)) with
                | Ok (c1, _, _, _, e1) => accp rs g (c_pid c) (c_pid c1) (released e1) | Panic _ => True end).
      { intros cx Hx. destruct (release_if_used cx (k_pid p)) as [[c2 e]|] eqn:E; cbn [bindr]; [|exact I].
        rewrite released_app. change (released not_allowed) with (@nil N). cbn [app]. rewrite <- Hx. now apply (release_if_used_acc rs g cx (k_pid p)). }
      destruct (topic_empty p).
      + pose proof (validate_pid c (k_alias p)) as Hv. destruct (validate_topic_alias c (k_alias p)) as [topt cx]. cbn [snd] in Hv.
        destruct topt as [t|]; [now apply Hst|now apply Hrel2].
      + now apply Hst.
    - cbn [bindr]. cbv zeta. destruct (_ =? 2); conn_simpl_goal; apply accp_refl. }
  match goal with |- ACC _ _ _ (bindr ?P1 _) => destruct P1 as [[[[[c1 rel] val] stop] e1]|]; cbn [bindr]; [|exact I] end.
  destruct stop; [exact H1|].
  match goal with |- ACC _ _ _ (if ?b then _ else _) => destruct b end.
  { pose proof (refuse_publish_acc rs g (c_pid c) c1 (k_pid p) E_RECEIVE_MAXIMUM_EXCEEDED e1 H1) as H.
    destruct (refuse_publish _ _ _ _) as [[c2 e]|]; [exact H|exact I]. }
  match goal with |- ACC _ _ _ (bindr ?P2 _) =>
    assert (H2 : match P2 with Ok (c2, _, _, e2) => accp rs g (c_pid c1) (c_pid c2) (released e2) | Panic _ => True end) end.
  { assert (Href : forall cx, c_pid cx = c_pid c1 ->
              match bindr (refuse_publish cx (k_pid p) E_NOT_ALLOWED_TO_SEND []) (fun '(c2, e) => Ok (c2, p, true, e)) with
              | Ok (c2, _, _, e2) => accp rs g (c_pid c1) (c_pid c2) (released e2) | Panic _ => True end).
    { intros cx Hx. pose proof (refuse_publish_acc rs g (c_pid c1) cx (k_pid p) E_NOT_ALLOWED_TO_SEND [] ltac:(rewrite Hx; apply accp_refl)) as H.
      destruct (refuse_publish _ _ _ _) as [[c2 e]|]; cbn [bindr]; [exact H|exact I]. }
    destruct (topic_empty p).
    - destruct val; [apply accp_refl|].
      pose proof (validate_pid c1 (k_alias p)) as Hv. destruct (validate_topic_alias c1 (k_alias p)) as [topt cx]. cbn [snd] in Hv.
      destruct topt as [t|]; [rewrite Hv; apply accp_refl|now apply Href].
    - destruct (k_alias p) as [a|].
      + destruct (validate_topic_alias_range c1 a); [|now apply Href]. destruct (status_eqb _ _); [|apply accp_refl].
        destruct (c_ta_send c1) as [s|]; [|apply accp_refl]. destruct (tas_insert s _ a); cbn [bindr]; [apply accp_refl|exact I].
      + destruct (status_eqb _ _); [|apply accp_refl]. destruct (c_auto_map c1).
        * destruct (c_ta_send c1) as [s|]; [|apply accp_refl]. destruct (tas_find_by_topic s _) as [a|]; [cbv zeta; apply accp_refl|].
          destruct (tas_lru s) as [a|]; cbn [bindr]; [|exact I]. cbv zeta. destruct (_ <=? _); [|apply accp_refl].
          destruct (tas_insert s _ a); cbn [bindr]; [apply accp_refl|exact I].
        * destruct (c_auto_replace c1); [|apply accp_refl]. destruct (c_ta_send c1) as [s|]; [|apply accp_refl].
          destruct (tas_find_by_topic s _) as [a|]; [cbv zeta|]; apply accp_refl. }
  match goal with |- ACC _ _ _ (bindr ?P2 _) => destruct P2 as [[[[c2 q] stop2] e2]|]; cbn [bindr]; [|exact I] end.
  pose proof (accp_trans rs g _ _ _ _ _ H1 H2) as H12. rewrite <- released_app in H12.
  destruct stop2; [exact H12|].
  match goal with |- context [if ?b then set_send_count c2 (c_send_count c2 + 1) else c2] =>
    set (c3 := if b then set_send_count c2 (c_send_count c2 + 1) else c2) end.
  assert (H3 : c_pid c3 = c_pid c2) by (subst c3; destruct (_ && _); reflexivity).
  destruct (status_eqb (c_status c3) Connected); [|cbn [ACC]; rewrite H3; exact H12].
  unfold send_and_post. pose proof (post_q c3) as [P1 P2]. destruct (send_post_process c3) as [c4 e]. cbn [fst snd ACC] in *.
  rewrite P1, H3. rewrite !released_app, P2. change (released [ESend q rel]) with (@nil N). cbn [app]. rewrite app_nil_r. rewrite <- released_app. exact H12.
Qed.

(* ---- resume, reset ---- *)
Lemma released_stored_events mps l : released (send_stored_events mps l) = sids (snd (send_stored_l mps l)).
Proof.
  induction l as [|p t IH]; cbn [send_stored_events send_stored_l]; [reflexivity|].
  destruct (send_stored_l mps t) as [k d]. cbn [snd] in IH. destruct (mps <? k_size p); cbn [snd released flat_map sids map app].
  - fold (released (send_stored_events mps t)). now rewrite IH.
  - fold (released (send_stored_events mps t)). exact IH.
Qed.
Lemma send_stored_ACC rs g c : OWN g c -> ACC rs g c (send_stored c).
Proof.
  intro HO. unfold send_stored. pose proof (send_stored_l_parts (c_mps_send c) (c_store c)) as Hp.
  pose proof (released_stored_events (c_mps_send c) (c_store c)) as Hre.
  destruct (send_stored_l (c_mps_send c) (c_store c)) as [kept dropped]. destruct Hp as (_ & P2 & P3). cbn [snd] in Hre.
  destruct (P3 (o_nodup _ _ _ _ _ _ _ _ _ HO)) as (_ & Q2 & _). cbv zeta. conn_simpl_goal.
  destruct (release_all (c_pid c) (map k_pid dropped)) as [a|] eqn:Er; cbn [bindr ACC]; [|exact I].
  rewrite Hre. match goal with |- accp rs g _ (c_pid (match ?o with Some _ => _ | None => _ end)) _ => destruct o end; conn_simpl_goal;
    exact (release_all_acc rs g _ _ _ dropped _ _ _ _ _ a HO P2 Q2 Er).
Qed.
Lemma connack_send_props_q c p : c_pid (fst (connack_send_props c p)) = c_pid c /\ released (snd (connack_send_props c p)) = [].
Proof. unfold connack_send_props. own_split; cbn [fst snd]; split; reflexivity. Qed.
Lemma send_connack_ACC rs g c p : OWN g c -> ACC rs g c (send_connack c p).
Proof.
  intro HO. unfold send_connack. cbv zeta. destruct (_ && _); [apply QR_ACC; q_leaf|]. destruct (negb (status_eqb _ _)); [apply QR_ACC; q_leaf|].
  pose proof (connack_send_props_f8 c p) as Hf. pose proof (connack_send_props_q c p) as [Hq1 Hq2].
  destruct (connack_send_props c p) as [c1 pre]. cbn [fst snd] in *.
  destruct (negb _).
  - pose proof (cancel_q (set_status c1 Disconnected)) as [K1 K2]. destruct (cancel_timers _) as [c2 e]. cbn [fst snd ACC] in *.
    conn_simpl. rewrite K1, Hq1. rewrite !released_app, Hq2, K2. cbn. apply accp_refl.
  - assert (H2 : OWN g (set_status c1 Connected)).
    { apply (f8_own g c); [|exact HO]. apply (f8_trans _ c1); [unfold F8; conn_simpl; repeat split|exact Hf]. }
    pose proof (send_stored_ACC rs g _ H2) as H. destruct (send_stored _) as [[c2 es]|]; cbn [bindr ACC] in *; [|exact I]. conn_simpl.
    pose proof (post_q c2) as [P1 P2]. destruct (send_post_process c2) as [c3 e3]. cbn [fst snd ACC] in *.
    rewrite P1. rewrite !released_app, Hq2, P2. change (released [ESend p None]) with (@nil N). cbn [app]. rewrite app_nil_r. rewrite <- Hq1. exact H.
Qed.

(* the session starts anew: everything free, nothing announced — or nothing changes.  rs = false excludes the
   calls that start a new session *)
Lemma clear_acc' rs g a : rs = true -> accp rs g a (pm_clear a) [].
Proof. intros ->. apply clear_acc. Qed.
Ltac same_pid := unfold initialize; conn_simpl_goal; apply accp_refl.
Ltac reset_pid Hrs := unfold initialize, clear_store_related; conn_simpl_goal; apply clear_acc'; exact Hrs.

Lemma send_connect_ACC rs g c p : (k_flag p = true -> rs = true) -> ACC rs g c (send_connect c p).
Proof.
  intro Hrs. unfold send_connect. cbv zeta. destruct (_ && _); [apply QR_ACC; q_leaf|]. destruct (negb _); [apply QR_ACC; q_leaf|].
  unfold send_and_post.
  match goal with |- ACC _ _ _ (let '(_, _) := send_post_process ?x in _) =>
    pose proof (post_q x) as [P1 P2]; destruct (send_post_process x) as [c' e]; cbn [fst snd ACC] in * end.
  rewrite P1. rewrite !released_app, P2. cbn.
  destruct (k_flag p); [own_split; reset_pid (Hrs eq_refl)|own_split; same_pid].
Qed.
Lemma connect_recv_state_acc rs g c v p c' : (k_flag p = true -> rs = true) -> connect_recv_state c v p = Ok c' -> accp rs g (c_pid c) (c_pid c') [].
Proof.
  intro Hrs. unfold connect_recv_state. cbv zeta.
  assert (H0 : forall cx, c_pid cx = c_pid c -> accp rs g (c_pid c)
            (c_pid (if k_flag p then clear_store_related cx else if version_eqb v V311 then set_need_store cx true else cx)) []).
  { intros cx Hx. destruct (k_flag p); [unfold clear_store_related; conn_simpl_goal; rewrite Hx; apply clear_acc'; now apply Hrs|].
    destruct (version_eqb v V311); conn_simpl_goal; rewrite Hx; apply accp_refl. }
  match goal with |- context [if k_flag p then clear_store_related ?cx else _] => specialize (H0 cx ltac:(own_split; reflexivity)); set (c0 := if k_flag p then clear_store_related cx else _) in * end.
  destruct (version_eqb v V50).
  - destruct (k_tam p) as [m|]; [destruct (negb (m =? 0)); [destruct (tas_new m)|]|]; cbn [bindr]; try discriminate;
      intro H; injection H as <-; own_split; conn_simpl_goal; exact H0.
  - intro H; injection H as <-. exact H0.
Qed.
Definition pr_keeps (rs : bool) (pr : presult) : Prop := match pr with PROk p => k_flag p = true -> rs = true | PRErr _ => True end.
Lemma recv_connect_ACC rs g c v pr : OWN g c -> pr_keeps rs pr -> ACC rs g c (recv_connect g c v pr).
Proof.
  intros HO Hk. unfold recv_connect. destruct (negb _); [apply QR_ACC, handle_error_QR|]. cbv zeta.
  destruct pr as [p|e].
  - destruct (connect_recv_state _ v p) as [c1|] eqn:E; cbn [bindr]; [|exact I]. apply (connect_recv_state_acc rs g _ v p c1 Hk) in E. conn_simpl.
    pose proof (refresh_q c1) as [P1 P2]. destruct (refresh_pingreq_recv c1) as [c2 e2]. cbn [fst snd ACC] in *.
    rewrite P1. rewrite released_app, P2. cbn. exact E.
  - assert (H0 : OWN g (set_status c Connecting)) by (apply (f8_own g c); [unfold F8; conn_simpl; repeat split|exact HO]).
    pose proof (send_connack_ACC rs g _ (connect_refusal v e) H0) as H.
    destruct (send_connack _ _) as [[c1 ev]|]; cbn [bindr ACC] in *; [|exact I]. conn_simpl. rewrite released_app. cbn. now rewrite app_nil_r.
Qed.
Lemma resume_or_clear_ACC rs g c sp : OWN g c -> (sp = false -> rs = true) -> ACC rs g c (resume_or_clear c sp).
Proof.
  intros HO Hrs. unfold resume_or_clear. destruct sp.
  - pose proof (send_stored_ACC rs g c HO) as H. destruct (send_stored c) as [[c1 es]|]; cbn [bindr ACC] in *; [|exact I].
    destruct (existsb _ es); [|exact H]. pose proof (post_q c1) as [P1 P2]. destruct (send_post_process c1) as [c2 e]. cbn [fst snd ACC] in *.
    rewrite P1, released_app, P2, app_nil_r. exact H.
  - cbn [ACC]. reset_pid (Hrs eq_refl).
Qed.
(* a CONNACK that keeps the session: Session Present, and (v5.0) no Session Expiry Interval of 0 *)
Definition connack_keeps_session (p : pkt) : bool := k_flag p && negb (match k_sei p with Some m => m =? 0 | None => false end).
Definition pr_connack_keeps (rs : bool) (pr : presult) : Prop :=
  match pr with PROk p => connack_keeps_session p = false -> rs = true | PRErr _ => True end.
Lemma recv_connack_ACC rs g c v pr : OWN g c -> pr_connack_keeps rs pr -> ACC rs g c (recv_connack c v pr).
Proof.
  intros HO Hk. unfold recv_connack. destruct (status_eqb (c_status c) Connected); [apply QR_ACC, handle_error_QR|].
  destruct pr as [p|e].
  2:{ destruct (version_eqb v V50); apply QR_ACC; q_leaf. }
  cbn [pr_connack_keeps] in Hk. unfold connack_keeps_session in Hk.
  destruct (k_rc p =? 0); [|apply QR_ACC; q_leaf]. cbv zeta.
  assert (H0 : OWN g (set_status c Connected)) by (apply (f8_own g c); [unfold F8; conn_simpl; repeat split|exact HO]).
  assert (Hsp : k_flag p = false -> rs = true) by (intro E; apply Hk; now rewrite E).
  destruct (version_eqb v V50).
  - destruct (connack_recv_limits _ p) as [c1|] eqn:E1; cbn [bindr]; [|exact I].
    pose proof (connack_recv_limits_f8 _ p c1 E1) as F1.
    pose proof (connack_recv_ska_f8 c1 p) as F2.
    assert (Hska : released (snd (connack_recv_ska c1 p)) = []) by (unfold connack_recv_ska; own_split; reflexivity).
    destruct (connack_recv_ska c1 p) as [c2 e1]. cbn [fst snd] in *.
    assert (F : F8 c2 c) by (apply (f8_trans _ c1); [exact F2|apply (f8_trans _ (set_status c Connected)); [exact F1|unfold F8; conn_simpl; repeat split]]).
    pose proof (f8_own g c c2 F HO) as H2. assert (P2 : c_pid c2 = c_pid c) by (now destruct F as (F & _)).
    assert (H3 : OWN g (connack_recv_sei c2 p)) by (unfold connack_recv_sei; own_split; own_leaf H2).
    assert (A3 : accp rs g (c_pid c) (c_pid (connack_recv_sei c2 p)) []).
    { rewrite <- P2. unfold connack_recv_sei. destruct (k_sei p) as [m|]; [destruct (m =? 0) eqn:Em|].
      - unfold clear_store_related. conn_simpl_goal. apply clear_acc'. apply Hk. now rewrite andb_false_r.
      - conn_simpl_goal. apply accp_refl.
      - apply accp_refl. }
    pose proof (resume_or_clear_ACC rs g _ (k_flag p) H3 Hsp) as Hr. destruct (resume_or_clear _ _) as [[c3 e2]|]; cbn [bindr ACC] in *; [|exact I].
    rewrite !released_app, Hska. change (released [ENotify p]) with (@nil N). rewrite app_nil_r. cbn [app].
    exact (accp_trans rs g _ _ _ [] _ A3 Hr).
  - pose proof (resume_or_clear_ACC rs g _ (k_flag p) H0 Hsp) as Hr. destruct (resume_or_clear _ _) as [[c3 e2]|]; cbn [bindr ACC] in *; [|exact I].
    conn_simpl. rewrite released_app. change (released [ENotify p]) with (@nil N). now rewrite app_nil_r.
Qed.

(* ---- acknowledgements, close, erase ---- *)
Lemma release_fin rs g c0 cx id (f : conn -> conn) (p : pkt) :
  c_pid cx = c_pid c0 -> (forall x, c_pid (f x) = c_pid x) ->
  ACC rs g c0 (bindr (release_if_used cx id) (fun '(c1, e1) => let '(c2, e2) := refresh_pingreq_recv (f c1) in Ok (c2, e1 ++ e2 ++ [ENotify p]))).
Proof.
  intros Hx Hf. destruct (release_if_used cx id) as [[c1 e1]|] eqn:E; cbn [bindr]; [|exact I].
  pose proof (refresh_q (f c1)) as [P1 P2]. destruct (refresh_pingreq_recv (f c1)) as [c2 e2]. cbn [fst snd ACC] in *.
  rewrite P1, Hf. rewrite !released_app, P2. change (released [ENotify p]) with (@nil N). cbn [app]. rewrite app_nil_r. rewrite <- Hx.
  now apply (release_if_used_acc rs g cx id).
Qed.
Lemma dec_pid c : c_pid (match c_send_max c with Some _ => set_send_count c (c_send_count c - 1) | None => c end) = c_pid c.
Proof. destruct (c_send_max c); reflexivity. Qed.

Lemma recv_ack_ACC rs g c v t pr : ACC rs g c (recv_ack g c v t pr).
Proof.
  unfold recv_ack. destruct pr as [p|e]; [|apply QR_ACC, handle_error_QR]. cbv zeta.
  destruct (t =? T_PUBACK).
  { destruct (mem _ (c_puback c)); [|apply QR_ACC, handle_error_QR].
    apply (release_fin rs g c _ (k_pid p) (fun x => if version_eqb v V50 then match c_send_max x with Some _ => set_send_count x (c_send_count x - 1) | None => x end else x)); [reflexivity|].
    intro x. destruct (version_eqb v V50); [apply dec_pid|reflexivity]. }
  destruct (t =? T_PUBREC).
  { destruct (mem _ (c_pubrec c)); [|apply QR_ACC, handle_error_QR].
    match goal with |- ACC _ _ _ (if ?b then _ else _) => destruct b end.
    - match goal with |- ACC _ _ _ (bindr (if ?b then _ else _) _) => destruct b end.
      + match goal with |- ACC _ _ _ (bindr (send_pubrel ?cx ?q) _) =>
          pose proof (send_pubrel_QR cx q) as H; destruct (send_pubrel cx q) as [[c2 e1]|]; cbn [bindr QR] in *; [|exact I] end.
        destruct H as [H1 H2]. unfold store_erase in H1. conn_simpl.
        pose proof (refresh_q c2) as [P1 P2]. destruct (refresh_pingreq_recv c2) as [c3 e2]. cbn [fst snd ACC] in *.
        rewrite P1, H1. rewrite !released_app, H2, P2. cbn. apply accp_refl.
      + cbn [bindr]. match goal with |- ACC _ _ _ (let '(_, _) := refresh_pingreq_recv ?x in _) =>
          pose proof (refresh_q x) as [P1 P2]; destruct (refresh_pingreq_recv x) as [c3 e2]; cbn [fst snd ACC] in * end.
        unfold store_erase in P1. conn_simpl. rewrite P1. rewrite !released_app, P2. cbn. apply accp_refl.
    - apply (release_fin rs g c _ (k_pid p) (fun x => match c_send_max x with Some _ => set_send_count x (c_send_count x - 1) | None => x end)); [reflexivity|].
      intro x. apply dec_pid. }
  destruct (t =? T_PUBCOMP).
  { destruct (mem _ (c_pubcomp c)); [|apply QR_ACC, handle_error_QR].
    apply (release_fin rs g c _ (k_pid p) (fun x => if version_eqb v V50 then match c_send_max x with Some _ => set_send_count x (c_send_count x - 1) | None => x end else x)); [reflexivity|].
    intro x. destruct (version_eqb v V50); [apply dec_pid|reflexivity]. }
  destruct (t =? T_SUBACK).
  { destruct (mem _ (c_suback c)); [|apply QR_ACC, handle_error_QR]. apply (release_fin rs g c _ (k_pid p) (fun x => x)); reflexivity. }
  { destruct (mem _ (c_unsuback c)); [|apply QR_ACC, handle_error_QR]. apply (release_fin rs g c _ (k_pid p) (fun x => x)); reflexivity. }
Qed.

Lemma do_closed_ACC rs g c : ACC rs g c (do_closed c).
Proof.
  unfold do_closed. cbv zeta. conn_simpl_goal.
  destruct (drain_release (c_pid c) (c_suback c)) as [[a1 e1]|] eqn:E1; cbn [bindr]; [|exact I]. apply (drain_release_acc rs g) in E1.
  destruct (drain_release a1 (c_unsuback c)) as [[a2 e2]|] eqn:E2; cbn [bindr]; [|exact I]. apply (drain_release_acc rs g) in E2. conn_simpl_goal.
  pose proof (accp_trans rs g _ _ _ _ _ E1 E2) as E12.
  destruct (negb (c_need_store c)); cbn [bindr].
  - conn_simpl_goal.
    destruct (drain_release a2 (c_puback c)) as [[a3 e3]|] eqn:E3; cbn [bindr]; [|exact I]. apply (drain_release_acc rs g) in E3.
    destruct (drain_release a3 (c_pubrec c)) as [[a4 e4]|] eqn:E4; cbn [bindr]; [|exact I]. apply (drain_release_acc rs g) in E4.
    destruct (drain_release a4 (c_pubcomp c)) as [[a5 e5]|] eqn:E5; cbn [bindr]; [|exact I]. apply (drain_release_acc rs g) in E5.
    match goal with |- ACC _ _ _ (let '(_, _) := cancel_timers ?x in _) =>
      pose proof (cancel_q x) as [P1 P2]; destruct (cancel_timers x) as [c6 e6]; cbn [fst snd ACC] in * end.
    conn_simpl. rewrite P1. rewrite !released_app, P2, app_nil_r.
    pose proof (accp_trans rs g _ _ _ _ _ E12 (accp_trans rs g _ _ _ _ _ E3 (accp_trans rs g _ _ _ _ _ E4 E5))) as H.
    rewrite <- !app_assoc in H. exact H.
  - match goal with |- ACC _ _ _ (let '(_, _) := cancel_timers ?x in _) =>
      pose proof (cancel_q x) as [P1 P2]; destruct (cancel_timers x) as [c6 e6]; cbn [fst snd ACC] in * end.
    conn_simpl. rewrite P1. rewrite !released_app, P2. cbn [released flat_map app]. rewrite !app_nil_r. exact E12.
Qed.

Lemma do_erase_ACC rs g c id : ACC rs g c (do_erase c id).
Proof.
  unfold do_erase. destruct (store_erase_publish_l id (c_store c)) as [b l]. destruct b; [|apply QR_ACC; q_leaf]. cbv zeta.
  match goal with |- ACC _ _ _ (release_if_used ?x id) => destruct (release_if_used x id) as [[c1 e]|] eqn:E; [|exact I];
    apply (release_if_used_acc rs g) in E; assert (Hx : c_pid x = c_pid c) by (destruct (c_send_max _); [destruct (0 <? _)|]; reflexivity) end.
  cbn [ACC]. rewrite <- Hx. exact E.
Qed.

(* ---- every call ---- *)
(* the calls that start a new session: a CONNECT with Clean Start / Clean Session sent or received, a CONNACK
   received that does not keep the session *)
Definition starts_session (o : op) : bool :=
  match o with
  | OSend p => (k_type p =? T_CONNECT) && k_flag p
  | ORecv _ (PROk p) => ((k_type p =? T_CONNECT) && k_flag p) || ((k_type p =? T_CONNACK) && negb (connack_keeps_session p))
  | _ => false
  end.

Lemma dispatch_send_ACC rs g c p : OWN g c -> ((k_type p =? T_CONNECT) && k_flag p = true -> rs = true) -> ACC rs g c (dispatch_send g c p).
Proof.
  intros HO Hrs. unfold dispatch_send. cbv zeta.
  destruct (k_type p =? T_CONNECT); [apply send_connect_ACC; intro E; apply Hrs; now rewrite E|].
  destruct (k_type p =? T_CONNACK); [now apply send_connack_ACC|].
  destruct (k_type p =? T_PUBLISH); [destruct (version_eqb _ _); [apply send_publish_v5_ACC|apply send_publish_v311_ACC]|].
  destruct (_ || _); [apply QR_ACC, send_puback_like_QR|].
  destruct (k_type p =? T_PUBREL); [apply QR_ACC, send_pubrel_QR|].
  destruct (_ || _); [apply send_sub_unsub_ACC|].
  destruct (_ || _); [apply QR_ACC, send_plain_QR|].
  destruct (k_type p =? T_PINGREQ); [apply QR_ACC, send_pingreq_QR|].
  destruct (k_type p =? T_DISCONNECT); [apply QR_ACC, send_disconnect_QR|].
  destruct (k_type p =? T_AUTH); [apply QR_ACC, send_auth_QR|]. apply QR_ACC. q_leaf.
Qed.
Lemma do_send_ACC rs g c p : OWN g c -> ((k_type p =? T_CONNECT) && k_flag p = true -> rs = true) -> ACC rs g c (do_send g c p).
Proof.
  intros HO Hrs. unfold do_send. cbv zeta.
  repeat match goal with |- ACC _ _ _ (if ?b then _ else _) => destruct b end; first [now apply dispatch_send_ACC|apply QR_ACC; q_leaf].
Qed.

(* the parser's verdict belongs to the frame: its packet has the type of the fixed header *)
Definition pr_typed (t : N) (pr : presult) : Prop := match pr with PROk p => k_type p = t | PRErr _ => True end.
Definition pr_starts (pr : presult) : bool :=
  match pr with PROk p => ((k_type p =? T_CONNECT) && k_flag p) || ((k_type p =? T_CONNACK) && negb (connack_keeps_session p)) | PRErr _ => false end.

Lemma dispatch_recv_ACC rs g c v t pr : OWN g c -> pr_typed t pr -> (pr_starts pr = true -> rs = true) -> ACC rs g c (dispatch_recv g c v t pr).
Proof.
  intros HO Ht Hrs. unfold dispatch_recv.
  destruct (N.eqb_spec t 1) as [E1|E1].
  { apply recv_connect_ACC; [exact HO|]. destruct pr as [p|e]; [|exact I]. cbn [pr_keeps pr_typed pr_starts] in *. intro Ef. apply Hrs.
    rewrite Ht, E1, Ef. reflexivity. }
  destruct (N.eqb_spec t 2) as [E2|E2].
  { apply recv_connack_ACC; [exact HO|]. destruct pr as [p|e]; [|exact I]. cbn [pr_connack_keeps pr_typed pr_starts] in *. intro Ef. apply Hrs.
    rewrite Ht, E2, Ef. cbn. reflexivity. }
  repeat match goal with |- ACC _ _ _ (if ?b then _ else _) => destruct b end;
    first [ apply recv_ack_ACC
          | (apply QR_ACC; first [apply recv_publish_v5_QR | apply recv_publish_v311_QR | apply recv_pubrel_QR | apply recv_notify_QR
                                 | apply recv_pingreq_QR | apply recv_pingresp_QR | apply recv_disconnect_QR | q_leaf]) ].
Qed.

From MQ Require Import Conn.OwnUndet.

Lemma process_recv_packet_ACC rs g c fh body pr : OWNU g c -> pr_typed (fh / 16) pr -> (pr_starts pr = true -> rs = true) ->
  ACC rs g c (process_recv_packet g c fh body pr).
Proof.
  intros [HO HS] Ht Hrs. unfold process_recv_packet. cbv zeta.
  destruct (_ <? _); [apply QR_ACC; q_auto3|]. destruct (negb _); [apply QR_ACC; q_leaf|].
  destruct (c_version c) eqn:Ev; try (now apply dispatch_recv_ACC).
  assert (Hcon : forall v, fh / 16 = 1 -> ACC rs g c (recv_connect g (set_version c v) v pr)).
  { intros v Hf. apply (ACC_pre rs g c (set_version c v)); [reflexivity|]. apply recv_connect_ACC.
    - unfold OWN in *. conn_simpl_goal. rewrite (HS eq_refl) in *. now apply (own_any_version g _ _ _ _ _ _ (c_version c)).
    - destruct pr as [p|e]; [|exact I]. cbn [pr_keeps pr_typed pr_starts] in *. intro Ef. apply Hrs. rewrite Ht, Hf, Ef. reflexivity. }
  destruct (N.eqb_spec (fh / 16) 1) as [Hf|Hf]; [|apply QR_ACC; q_leaf].
  repeat match goal with |- ACC _ _ _ (if ?b then _ else _) => destruct b end; first [now apply Hcon|apply QR_ACC; q_leaf].
Qed.

Definition oracle_typed (c : conn) (o : op) : Prop :=
  match o with
  | ORecv bytes pr => match feed (c_pb c) bytes with (FComplete hdr _, _, _) => pr_typed (hd 0 hdr / 16) pr | _ => True end
  | _ => True
  end.

(* the calls that take identifiers into use have their own theorems (C08_acquire / C08_register / C16) *)
Definition takes_ids (o : op) : bool :=
  match o with OAcquire | ORegister _ | ORestorePackets _ => true | _ => false end.

(* rs = true: any call; rs = false: a call that does not start a new session — no reset then *)
Theorem step_accounts rs g c o : OWNU g c -> oracle_typed c o -> takes_ids o = false -> (starts_session o = true -> rs = true) ->
  match step g c o with
  | Ok (c', e, _) => accp rs g (c_pid c) (c_pid c') (released e)
  | Panic _ => True
  end.
Proof.
  intros HU Hor Ht Hrs. pose proof HU as [HO HS]. destruct o; cbn [step takes_ids starts_session oracle_typed] in *; try discriminate.
  - pose proof (do_send_ACC rs g c p HO Hrs) as H. destruct (do_send g c p) as [[c' e]|]; cbn [bindr ACC] in *; [exact H|exact I].
  - unfold do_recv. destruct (feed (c_pb c) bytes) as [[r pb'] rest]. cbv zeta.
    assert (HU' : OWNU g (set_pb c pb')).
    { split; [apply (f8_own g c); [unfold F8; conn_simpl; repeat split|exact HO]|conn_simpl_goal; exact HS]. }
    assert (Hrs' : pr_starts pr = true -> rs = true) by (destruct pr as [p|e]; [exact Hrs|discriminate]).
    destruct r; cbv beta iota; cbn [bindr].
    + pose proof (process_recv_packet_ACC rs g (set_pb c pb') (hd 0 hdr) body pr HU' Hor Hrs') as H.
      destruct (process_recv_packet _ _ _ _ _) as [[c1 e]|]; cbn [bindr ACC] in *; [exact H|exact I].
    + conn_simpl_goal. apply accp_refl.
    + pose proof (cancel_q (set_pb c pb')) as [P1 P2]. destruct (cancel_timers _) as [c1 e]. cbn [fst snd bindr] in *. conn_simpl.
      rewrite P1, released_app, P2. cbn. apply accp_refl.
  - pose proof (do_timer_QR c k) as H. destruct (do_timer c k) as [[c' e]|]; cbn [bindr QR] in *; [|exact I]. destruct H as [-> ->]. apply accp_refl.
  - pose proof (do_closed_ACC rs g c) as H. destruct (do_closed c) as [[c' e]|]; cbn [bindr ACC] in *; [exact H|exact I].
  - unfold do_set_pingreq_interval. cbv zeta. own_split; cbn [bindr]; conn_simpl_goal; apply accp_refl.
  - conn_simpl_goal. apply accp_refl.
  - destruct b; conn_simpl_goal; apply accp_refl.
  - conn_simpl_goal. apply accp_refl.
  - conn_simpl_goal. apply accp_refl.
  - conn_simpl_goal. apply accp_refl.
  - conn_simpl_goal. apply accp_refl.
  - destruct (release_if_used c id) as [[c' e]|] eqn:E; cbn [bindr]; [exact (release_if_used_acc rs g c id c' e E)|exact I].
  - pose proof (do_erase_ACC rs g c id) as H. destruct (do_erase c id) as [[c' e]|]; cbn [bindr ACC] in *; [exact H|exact I].
  - conn_simpl_goal. apply accp_refl.
  - apply accp_refl.
Qed.

(* read off, for a call that starts no new session: exact accounting, no reset *)
Corollary step_release_accounting g c o c' e r : OWNU g c -> oracle_typed c o -> takes_ids o = false -> starts_session o = false ->
  step g c o = Ok (c', e, r) ->
  NoDup (released e) /\ (forall id, In id (released e) -> is_used c id = true) /\
  (forall id, is_used c' id = is_used c id && negb (inb id (released e))).
Proof.
  intros HU Hor Ht Hss Hs. pose proof (step_accounts false g c o HU Hor Ht ltac:(rewrite Hss; discriminate)) as H. rewrite Hs in H.
  destruct (H (o_wf _ _ _ _ _ _ _ _ _ (proj1 HU))) as (_ & H1 & H2 & [H3|[H3 _]]); [|discriminate]. split; [exact H1|]. split; [exact H2|exact H3].
Qed.
(* ... and for a call that does: the same, or every identifier free *)
Corollary step_release_accounting_any g c o c' e r : OWNU g c -> oracle_typed c o -> takes_ids o = false -> step g c o = Ok (c', e, r) ->
  NoDup (released e) /\ (forall id, In id (released e) -> is_used c id = true) /\
  ((forall id, is_used c' id = is_used c id && negb (inb id (released e))) \/ (forall id, is_used c' id = false)).
Proof.
  intros HU Hor Ht Hs. pose proof (step_accounts true g c o HU Hor Ht (fun _ => eq_refl)) as H. rewrite Hs in H.
  destruct (H (o_wf _ _ _ _ _ _ _ _ _ (proj1 HU))) as (_ & H1 & H2 & H3). split; [exact H1|]. split; [exact H2|].
  destruct H3 as [H3|[_ H3]]; [now left|now right].
Qed.
