(* C15 / C01, pair level: ONE KEEP-ALIVE ROUND between a client and a server endpoint (either version).  The client's
   PINGREQ timer fires; the PINGREQ it requests is handed to the server, which answers PINGRESP by itself and re-arms its
   receive watchdog; the PINGRESP handed to the client cancels the response timer it armed.  No call reports an error or
   asks to close, and afterwards no response timer is left armed. *)
From MQ Require Import Base.Prelude Alloc.Alloc Framing.Framing
                       Conn.Types Conn.TopicAlias Conn.ConnRecord Conn.Step Conn.Run Corr.ConnTrace
                       Conn.Qos2Dup Conn.PairQos Conn.PairSeq.

Definition closes (l : list event) : bool := existsb (fun e => match e with EClose => true | _ => false end) l.
Lemma closes_app a b : closes (a ++ b) = closes a || closes b. Proof. unfold closes. apply existsb_app. Qed.
Lemma post_no_close c : closes (snd (send_post_process c)) = false.
Proof. unfold send_post_process. destruct (c_is_client c); [destruct (0 <? _)|]; reflexivity. Qed.
Lemma refresh_no_close c : closes (snd (refresh_pingreq_recv c)) = false.
Proof. unfold refresh_pingreq_recv. destruct (negb _); reflexivity. Qed.

Definition fits2 (c : conn) : Prop := 2 <= c_mps_send c.

(* the client's PINGREQ timer fires *)
Lemma ping_timer_fires c v : c_version c = v -> v <> VUndet -> status_eqb (c_status c) Connected = true -> fits2 c ->
  exists c1 e, do_timer c TPingreqSend = Ok (c1, e) /\ sends e = [pingreq_pkt v] /\ errors e = [] /\ notifies e = [] /\ closes e = false /\
               c_t_resp c1 = (if c_pingresp_recv_to c =? 0 then c_t_resp c else true) /\
               (c_pingresp_recv_to c <> 0 -> In (ETimerReset TPingrespRecv (c_pingresp_recv_to c)) e) /\
               c_version c1 = v /\ c_status c1 = c_status c /\ c_pingresp_recv_to c1 = c_pingresp_recv_to c.
Proof.
  intros Hv Hn Hs Hf. unfold do_timer. change (c_status (set_t_send c false)) with (c_status c). rewrite Hs.
  change (c_version (set_t_send c false)) with (c_version c). rewrite Hv.
  set (c0 := set_t_send c false).
  assert (Hsz : size_ok c0 (pingreq_pkt v) = true) by (unfold size_ok; apply N.leb_le; exact Hf).
  assert (Hgoal : exists c1 e, send_pingreq c0 (pingreq_pkt v) = Ok (c1, e) /\ sends e = [pingreq_pkt v] /\ errors e = [] /\ notifies e = [] /\ closes e = false /\
               c_t_resp c1 = (if c_pingresp_recv_to c =? 0 then c_t_resp c else true) /\
               (c_pingresp_recv_to c <> 0 -> In (ETimerReset TPingrespRecv (c_pingresp_recv_to c)) e) /\
               c_version c1 = v /\ c_status c1 = c_status c /\ c_pingresp_recv_to c1 = c_pingresp_recv_to c).
  { unfold send_pingreq. rewrite Hsz. rewrite andb_false_r. change (c_status c0) with (c_status c). rewrite Hs. cbn [negb].
    change (c_pingresp_recv_to c0) with (c_pingresp_recv_to c).
    destruct (c_pingresp_recv_to c =? 0) eqn:Et; cbn [negb].
    - pose proof (post_quiet c0) as Q. pose proof (post_no_close c0) as NC. cbv zeta in Q.
      assert (K : c_t_resp (fst (send_post_process c0)) = c_t_resp c /\ c_version (fst (send_post_process c0)) = c_version c /\
                  c_status (fst (send_post_process c0)) = c_status c /\ c_pingresp_recv_to (fst (send_post_process c0)) = c_pingresp_recv_to c)
        by (unfold send_post_process; destruct (c_is_client c0); [destruct (0 <? _)|]; repeat split).
      destruct (send_post_process c0) as [c1 e2]. cbn [fst snd] in *. destruct Q as (Q1 & Q2 & Q3 & _), K as (K1 & K2 & K3 & K4).
      exists c1, ([ESend (pingreq_pkt v) None] ++ [] ++ e2). split; [reflexivity|]. ev_simpl. rewrite !closes_app, Q1, Q2, Q3, NC. cbn.
      repeat (split; [reflexivity|]). split; [exact K1|]. split; [intro H; apply N.eqb_eq in Et; contradiction|]. split; [congruence|]. split; assumption.
    - set (c0' := set_t_resp c0 true).
      pose proof (post_quiet c0') as Q. pose proof (post_no_close c0') as NC. cbv zeta in Q.
      assert (K : c_t_resp (fst (send_post_process c0')) = true /\ c_version (fst (send_post_process c0')) = c_version c /\
                  c_status (fst (send_post_process c0')) = c_status c /\ c_pingresp_recv_to (fst (send_post_process c0')) = c_pingresp_recv_to c)
        by (unfold send_post_process; destruct (c_is_client c0'); [destruct (0 <? _)|]; repeat split).
      destruct (send_post_process c0') as [c1 e2]. cbn [fst snd] in *. destruct Q as (Q1 & Q2 & Q3 & _), K as (K1 & K2 & K3 & K4).
      exists c1, ([ESend (pingreq_pkt v) None] ++ [ETimerReset TPingrespRecv (c_pingresp_recv_to c)] ++ e2). split; [reflexivity|]. ev_simpl. rewrite !closes_app, Q1, Q2, Q3, NC. cbn.
      repeat (split; [reflexivity|]). split; [exact K1|]. split; [intros _; right; left; reflexivity|]. split; [congruence|]. split; assumption. }
  destruct v; [exact Hgoal|exact Hgoal|contradiction].
Qed.

(* the server receives the PINGREQ: it answers by itself and re-arms its receive watchdog *)
Lemma server_answers_ping g c v : c_version c = v -> v <> VUndet -> status_eqb (c_status c) Connected = true -> fits2 c ->
  role_server_ok g = true -> c_is_client c = false -> c_auto_ping c = true ->
  exists c1 e, deliver g c (pingreq_pkt v) = Ok (c1, e) /\ sends e = [pingresp_pkt v] /\ errors e = [] /\ notifies e = [pingreq_pkt v] /\ closes e = false /\
               (c_pingreq_recv_to c <> 0 -> c_t_recv c1 = true /\ In (ETimerReset TPingreqRecv (c_pingreq_recv_to c)) e).
Proof.
  intros Hv Hn Hs Hf Hro Hic Hap. unfold deliver, dispatch_recv. rewrite Hv.
  assert (Ht : k_type (pingreq_pkt v) = 12) by reflexivity. rewrite Ht.
  change (12 =? 1) with false. change (12 =? 2) with false. change (12 =? 3) with false.
  change ((12 =? 4) || (12 =? 5) || (12 =? 7) || (12 =? 9) || (12 =? 11)) with false. change (12 =? 6) with false.
  change ((12 =? 8) || (12 =? 10)) with false. change (12 =? 12) with true. cbv iota.
  unfold recv_pingreq. rewrite Hro, Hic, Hap, Hs. cbn [negb andb].
  unfold send_plain. assert (Hsz : size_ok c (pingresp_pkt v) = true) by (unfold size_ok; apply N.leb_le; exact Hf).
  rewrite Hsz, andb_false_r, Hs. cbn [negb].
  unfold send_and_post. pose proof (post_quiet c) as Q. pose proof (post_no_close c) as NC. cbv zeta in Q.
  assert (K : c_pingreq_recv_to (fst (send_post_process c)) = c_pingreq_recv_to c)
    by (unfold send_post_process; destruct (c_is_client c); [destruct (0 <? _)|]; reflexivity).
  destruct (send_post_process c) as [c1 e1]. cbn [fst snd bindr] in *. destruct Q as (Q1 & Q2 & Q3 & _).
  pose proof (refresh_quiet c1) as R. pose proof (refresh_no_close c1) as RC. cbv zeta in R.
  assert (KR : c_pingreq_recv_to c1 <> 0 -> c_t_recv (fst (refresh_pingreq_recv c1)) = true /\
               In (ETimerReset TPingreqRecv (c_pingreq_recv_to c1)) (snd (refresh_pingreq_recv c1))).
  { intro H. unfold refresh_pingreq_recv. apply N.eqb_neq in H. rewrite H. cbn [negb fst snd]. split; [reflexivity|left; reflexivity]. }
  destruct (refresh_pingreq_recv c1) as [c2 e2]. cbn [fst snd] in *. destruct R as (R1 & R2 & R3 & _).
  exists c2, (([] ++ [ESend (pingresp_pkt v) None] ++ e1) ++ e2 ++ [ENotify (pingreq_pkt v)]). split; [reflexivity|].
  ev_simpl. rewrite !closes_app, Q1, Q2, Q3, R1, R2, R3, NC, RC. cbn.
  repeat (split; [reflexivity|]). intro H. rewrite <- K in H. destruct (KR H) as [A B]. split; [exact A|].
  right. apply in_or_app. right. apply in_or_app. left. rewrite <- K. exact B.
Qed.

(* the client receives the PINGRESP: the response timer is cancelled if it was armed *)
Lemma client_gets_pingresp g c v : c_version c = v -> v <> VUndet ->
  exists c1 e, deliver g c (pingresp_pkt v) = Ok (c1, e) /\ sends e = [] /\ errors e = [] /\ notifies e = [pingresp_pkt v] /\ closes e = false /\
               c_t_resp c1 = false /\ (c_t_resp c = true -> In (ETimerCancel TPingrespRecv) e).
Proof.
  intros Hv Hn. unfold deliver, dispatch_recv. rewrite Hv.
  assert (Ht : k_type (pingresp_pkt v) = 13) by reflexivity. rewrite Ht.
  change (13 =? 1) with false. change (13 =? 2) with false. change (13 =? 3) with false.
  change ((13 =? 4) || (13 =? 5) || (13 =? 7) || (13 =? 9) || (13 =? 11)) with false. change (13 =? 6) with false.
  change ((13 =? 8) || (13 =? 10)) with false. change (13 =? 12) with false. change (13 =? 13) with true. cbv iota.
  unfold recv_pingresp. destruct (c_t_resp c) eqn:Et.
  - exists (set_t_resp c false), ([ETimerCancel TPingrespRecv] ++ [ENotify (pingresp_pkt v)]). split; [reflexivity|]. cbn.
    repeat (split; [reflexivity|]). intros _. left. reflexivity.
  - exists c, ([] ++ [ENotify (pingresp_pkt v)]). split; [reflexivity|]. cbn. repeat (split; [reflexivity|]). split; [exact Et|]. intro H. discriminate H.
Qed.

Theorem keep_alive_round gs gr cs cr v :
  v <> VUndet -> c_version cs = v -> c_version cr = v ->
  status_eqb (c_status cs) Connected = true -> status_eqb (c_status cr) Connected = true -> fits2 cs -> fits2 cr ->
  role_server_ok gr = true -> c_is_client cr = false -> c_auto_ping cr = true ->
  exists cs1 e1 cr1 e2 cs2 e3,
    do_timer cs TPingreqSend = Ok (cs1, e1) /\ sends e1 = [pingreq_pkt v] /\ errors e1 = [] /\ closes e1 = false /\
    (c_pingresp_recv_to cs <> 0 -> c_t_resp cs1 = true /\ In (ETimerReset TPingrespRecv (c_pingresp_recv_to cs)) e1) /\
    deliver gr cr (pingreq_pkt v) = Ok (cr1, e2) /\ sends e2 = [pingresp_pkt v] /\ errors e2 = [] /\ closes e2 = false /\
    (c_pingreq_recv_to cr <> 0 -> c_t_recv cr1 = true /\ In (ETimerReset TPingreqRecv (c_pingreq_recv_to cr)) e2) /\
    deliver gs cs1 (pingresp_pkt v) = Ok (cs2, e3) /\ sends e3 = [] /\ errors e3 = [] /\ closes e3 = false /\
    c_t_resp cs2 = false /\ (c_pingresp_recv_to cs <> 0 -> In (ETimerCancel TPingrespRecv) e3).
Proof.
  intros Hn Hvs Hvr Hss Hsr Hfs Hfr Hro Hic Hap.
  destruct (ping_timer_fires cs v Hvs Hn Hss Hfs) as (cs1 & e1 & E1 & S1 & X1 & _ & C1 & T1 & I1 & V1 & _).
  destruct (server_answers_ping gr cr v Hvr Hn Hsr Hfr Hro Hic Hap) as (cr1 & e2 & E2 & S2 & X2 & _ & C2 & I2).
  destruct (client_gets_pingresp gs cs1 v V1 Hn) as (cs2 & e3 & E3 & S3 & X3 & _ & C3 & T3 & I3).
  exists cs1, e1, cr1, e2, cs2, e3.
  split; [exact E1|]. split; [exact S1|]. split; [exact X1|]. split; [exact C1|].
  split; [intro H; split; [rewrite T1; apply N.eqb_neq in H; rewrite H; reflexivity|exact (I1 H)]|].
  split; [exact E2|]. split; [exact S2|]. split; [exact X2|]. split; [exact C2|]. split; [exact I2|].
  split; [exact E3|]. split; [exact S3|]. split; [exact X3|]. split; [exact C3|]. split; [exact T3|].
  intro H. apply I3. rewrite T1. apply N.eqb_neq in H. rewrite H. reflexivity.
Qed.
