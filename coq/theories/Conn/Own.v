(* The ownership invariant of a connection (C06 / C08 / C16): the identifiers of stored packets are in
   use and pairwise distinct; every stored packet is awaited in exactly the set of its kind; the five
   sets of awaited identifiers are pairwise disjoint; the allocator satisfies its representation
   invariant.  Stated over the eight fields it concerns, with the primitive moves that keep it. *)
From MQ Require Import Base.Prelude Alloc.Alloc Alloc.SetSpec Alloc.AllocProofs Framing.Framing
                       Conn.Types Conn.TopicAlias Conn.ConnRecord Conn.Step Conn.Run Corr.ConnTrace Conn.Scope Conn.IdsQuota Conn.WfInv Conn.AliasTable.

Definition sids (S : list pkt) : list N := map k_pid S.
Definition kset (r : N) (PA PB PC : list N) : list N :=
  if r =? T_PUBACK then PA else if r =? T_PUBREC then PB else PC.
Definition cnt (id : N) (PA PB PC SA UA : list N) : N :=
  b2n (mem id PA) + b2n (mem id PB) + b2n (mem id PC) + b2n (mem id SA) + b2n (mem id UA).

Record own8 (g : cfg) (a : alloc) (S : list pkt) (PA PB PC SA UA : list N) (V : version) : Prop := mkOwn {
  o_wf : WFa g a;
  o_nodup : NoDup (sids S);
  o_used : forall q, In q S -> a_is_used a (k_pid q) = true;
  o_kind : forall q, In q S -> mem (k_pid q) (kset (response_of q) PA PB PC) = true /\ k_ver q = V;
  o_disj : forall id, cnt id PA PB PC SA UA <= 1;
  o_asc : asc 1 (g_idmax g) PA /\ asc 1 (g_idmax g) PB /\ asc 1 (g_idmax g) PC /\ asc 1 (g_idmax g) SA /\ asc 1 (g_idmax g) UA
}.

Definition OWN (g : cfg) (c : conn) : Prop :=
  own8 g (c_pid c) (c_store c) (c_puback c) (c_pubrec c) (c_pubcomp c) (c_suback c) (c_unsuback c) (c_version c).

(* ---- sets ---- *)
Lemma mem_ins x y l : mem x (ins y l) = (x =? y) || mem x l.
Proof. unfold mem, ins. apply s_mem_insert. Qed.
Lemma mem_del g x y l : asc 1 (g_idmax g) l -> mem x (del y l) = mem x l && negb (x =? y).
Proof. unfold mem, del. apply s_mem_remove. Qed.
Lemma asc_ins g y l : asc 1 (g_idmax g) l -> 1 <= y <= g_idmax g -> asc 1 (g_idmax g) (ins y l).
Proof. intros H [H1 H2]. unfold ins. now apply asc_insert. Qed.
Lemma asc_del g y l : asc 1 (g_idmax g) l -> asc 1 (g_idmax g) (del y l).
Proof. unfold del. apply asc_remove. Qed.

Lemma used_range g a id : WFa g a -> a_is_used a id = true -> 1 <= id <= g_idmax g.
Proof.
  intros (_ & E1 & E2 & _). unfold a_is_used. rewrite E1, E2. intro H. apply andb_true_iff in H as [H _]. apply andb_true_iff in H as [H1 H2].
  apply N.leb_le in H1, H2. lia.
Qed.

(* ---- the allocator after a guarded release ---- *)
Lemma release_used_spec g a id a' :
  WFa g a -> a_is_used a id = true -> pm_release a id = Ok a' ->
  WFa g a' /\ (forall y, a_is_used a' y = a_is_used a y && negb (y =? id)).
Proof.
  intros HW Hu Hr. pose proof HW as (HWF & E1 & E2 & E3).
  pose proof (used_range g a id HW Hu) as Hrg. unfold a_is_used in Hu. rewrite E1, E2 in Hu.
  apply andb_true_iff in Hu as [_ Hf]. apply negb_true_iff in Hf.
  destruct (deallocate_spec a id HWF) as (a1 & HD & HWF' & F1 & F2 & F3 & Hab); [lia|lia|exact Hf|].
  unfold pm_release in Hr. rewrite HD in Hr. inversion Hr; subst a1.
  split; [split; [exact HWF'|repeat split; congruence]|].
  intro y. unfold a_is_used. rewrite F1, F2, E1, E2. fold (abs (a_pool a') y). fold (abs (a_pool a) y). rewrite Hab.
  destruct (N.eqb_spec y id) as [->|Hne].
  - rewrite orb_true_r. cbn [negb]. now rewrite !andb_false_r.
  - rewrite orb_false_r. cbn [negb]. now rewrite andb_true_r.
Qed.

(* ---- primitive moves ---- *)
Section Moves.
Variable g : cfg.
Variables (a : alloc) (S : list pkt) (PA PB PC SA UA : list N) (V : version).
Hypothesis HO : own8 g a S PA PB PC SA UA V.

Lemma cnt_zero id : cnt id PA PB PC SA UA = 0 ->
  mem id PA = false /\ mem id PB = false /\ mem id PC = false /\ mem id SA = false /\ mem id UA = false.
Proof.
  unfold cnt. destruct (mem id PA), (mem id PB), (mem id PC), (mem id SA), (mem id UA); cbn; intro H; try lia; repeat split.
Qed.

(* the store shrinks to a sub-list *)
Lemma own_sub S' : NoDup (sids S') -> (forall q, In q S' -> In q S) -> own8 g a S' PA PB PC SA UA V.
Proof.
  intros Hd Hs. destruct HO as [W D U K X A]. constructor; auto.
Qed.

(* an identifier leaves one of the sets *)
Lemma own_del_PA id : (forall q, In q S -> response_of q = T_PUBACK -> k_pid q <> id) -> own8 g a S (del id PA) PB PC SA UA V.
Proof.
  intro Hn. destruct HO as [W D U K X (A1 & A2 & A3 & A4 & A5)]. constructor; auto.
  - intros q Hq. destruct (K q Hq) as [K1 K2]. split; [|exact K2]. unfold kset in *.
    destruct (N.eqb_spec (response_of q) T_PUBACK) as [E|E]; [|exact K1].
    rewrite (mem_del g _ _ _ A1), K1. cbn [andb]. apply negb_true_iff, N.eqb_neq. now apply Hn.
  - intro y. specialize (X y). unfold cnt in *. rewrite (mem_del g _ _ _ A1). destruct (mem y PA), (negb (y =? id)); cbn in *; lia.
  - repeat split; try assumption. now apply asc_del.
Qed.
Lemma own_del_PB id : (forall q, In q S -> response_of q = T_PUBREC -> k_pid q <> id) -> own8 g a S PA (del id PB) PC SA UA V.
Proof.
  intro Hn. destruct HO as [W D U K X (A1 & A2 & A3 & A4 & A5)]. constructor; auto.
  - intros q Hq. destruct (K q Hq) as [K1 K2]. split; [|exact K2]. unfold kset in *.
    destruct (N.eqb_spec (response_of q) T_PUBACK) as [E|E]; [exact K1|].
    destruct (N.eqb_spec (response_of q) T_PUBREC) as [E2|E2]; [|exact K1].
    rewrite (mem_del g _ _ _ A2), K1. cbn [andb]. apply negb_true_iff, N.eqb_neq. now apply Hn.
  - intro y. specialize (X y). unfold cnt in *. rewrite (mem_del g _ _ _ A2). destruct (mem y PB), (negb (y =? id)); cbn in *; lia.
  - repeat split; try assumption. now apply asc_del.
Qed.
Lemma own_del_PC id : (forall q, In q S -> response_of q <> T_PUBACK -> response_of q <> T_PUBREC -> k_pid q <> id) -> own8 g a S PA PB (del id PC) SA UA V.
Proof.
  intro Hn. destruct HO as [W D U K X (A1 & A2 & A3 & A4 & A5)]. constructor; auto.
  - intros q Hq. destruct (K q Hq) as [K1 K2]. split; [|exact K2]. unfold kset in *.
    destruct (N.eqb_spec (response_of q) T_PUBACK) as [E|E]; [exact K1|].
    destruct (N.eqb_spec (response_of q) T_PUBREC) as [E2|E2]; [exact K1|].
    rewrite (mem_del g _ _ _ A3), K1. cbn [andb]. apply negb_true_iff, N.eqb_neq. now apply Hn.
  - intro y. specialize (X y). unfold cnt in *. rewrite (mem_del g _ _ _ A3). destruct (mem y PC), (negb (y =? id)); cbn in *; lia.
  - repeat split; try assumption. now apply asc_del.
Qed.
Lemma own_del_SA id : own8 g a S PA PB PC (del id SA) UA V.
Proof.
  destruct HO as [W D U K X (A1 & A2 & A3 & A4 & A5)]. constructor; auto.
  - intro y. specialize (X y). unfold cnt in *. rewrite (mem_del g _ _ _ A4). destruct (mem y SA), (negb (y =? id)); cbn in *; lia.
  - repeat split; try assumption. now apply asc_del.
Qed.
Lemma own_del_UA id : own8 g a S PA PB PC SA (del id UA) V.
Proof.
  destruct HO as [W D U K X (A1 & A2 & A3 & A4 & A5)]. constructor; auto.
  - intro y. specialize (X y). unfold cnt in *. rewrite (mem_del g _ _ _ A5). destruct (mem y UA), (negb (y =? id)); cbn in *; lia.
  - repeat split; try assumption. now apply asc_del.
Qed.

(* an identifier that is awaited nowhere enters one of the sets *)
Lemma own_ins id (which : N) : cnt id PA PB PC SA UA = 0 -> 1 <= id <= g_idmax g ->
  own8 g a S (if which =? 0 then ins id PA else PA) (if which =? 1 then ins id PB else PB) (if which =? 2 then ins id PC else PC)
       (if which =? 3 then ins id SA else SA) (if which =? 4 then ins id UA else UA) V.
Proof.
  intros Hc Hr. destruct (cnt_zero id Hc) as (Z1 & Z2 & Z3 & Z4 & Z5).
  destruct HO as [W D U K X (A1 & A2 & A3 & A4 & A5)]. constructor; auto.
  - intros q Hq. destruct (K q Hq) as [K1 K2]. split; [|exact K2]. unfold kset in *.
    destruct (which =? 0), (which =? 1), (which =? 2), (response_of q =? T_PUBACK), (response_of q =? T_PUBREC);
      rewrite ?mem_ins, ?K1, ?orb_true_r; auto.
  - intro y. specialize (X y). unfold cnt in *. destruct (N.eqb_spec y id) as [->|Hne].
    + rewrite Z1, Z2, Z3, Z4, Z5 in *.
      destruct (N.eqb_spec which 0), (N.eqb_spec which 1), (N.eqb_spec which 2), (N.eqb_spec which 3), (N.eqb_spec which 4);
        rewrite ?mem_ins, ?N.eqb_refl, ?Z1, ?Z2, ?Z3, ?Z4, ?Z5; cbn; lia.
    + assert (E : (y =? id) = false) by now apply N.eqb_neq.
      destruct (which =? 0), (which =? 1), (which =? 2), (which =? 3), (which =? 4); rewrite ?mem_ins, ?E; cbn [orb]; lia.
  - destruct (which =? 0), (which =? 1), (which =? 2), (which =? 3), (which =? 4); repeat split; try assumption; now apply asc_ins.
Qed.

(* a packet is appended to the store: its identifier is in use, not in the store, awaited in the set of its kind *)
Lemma own_snoc q : a_is_used a (k_pid q) = true -> store_has (k_pid q) S = false ->
  mem (k_pid q) (kset (response_of q) PA PB PC) = true -> k_ver q = V -> own8 g a (S ++ [q]) PA PB PC SA UA V.
Proof.
  intros Hu Hs Hk Hv. destruct HO as [W D U K X A].
  assert (Hnot : ~ In (k_pid q) (sids S)).
  { unfold store_has in Hs. intro Hin. unfold sids in Hin. apply in_map_iff in Hin as (p & Hp & Hin).
    assert (existsb (fun p0 => k_pid p0 =? k_pid q) S = true) by (apply existsb_exists; exists p; split; [exact Hin|now apply N.eqb_eq]). congruence. }
  constructor; auto.
  - unfold sids. rewrite map_app. cbn [map]. apply NoDup_snoc; [exact D|exact Hnot].
  - intros p Hp. apply in_app_iff in Hp as [Hp|[<-|[]]]; [now apply U|exact Hu].
  - intros p Hp. apply in_app_iff in Hp as [Hp|[<-|[]]]; [now apply K|split; assumption].
Qed.

(* an identifier that no stored packet carries is released (if it was in use) *)
Lemma own_release id a' : (forall q, In q S -> k_pid q <> id) ->
  (a_is_used a id = true -> pm_release a id = Ok a') -> (a_is_used a id = false -> a' = a) ->
  own8 g a' S PA PB PC SA UA V.
Proof.
  intros Hn Hr1 Hr2. destruct HO as [W D U K X A]. destruct (a_is_used a id) eqn:Eu.
  - destruct (release_used_spec g a id a' W Eu (Hr1 eq_refl)) as [W' Hu']. constructor; auto.
    intros q Hq. rewrite Hu', (U q Hq). cbn [andb]. apply negb_true_iff, N.eqb_neq. now apply Hn.
  - rewrite (Hr2 eq_refl). constructor; auto.
Qed.

(* more identifiers in use *)
Lemma own_more a' : WFa g a' -> (forall y, a_is_used a y = true -> a_is_used a' y = true) -> own8 g a' S PA PB PC SA UA V.
Proof. intros W' Hm. destruct HO as [W D U K X A]. constructor; auto. Qed.
End Moves.

(* a new session: everything the session owned is gone *)
Lemma own_clear g a SA UA V : WFa g a -> (forall id, b2n (mem id SA) + b2n (mem id UA) <= 1) ->
  asc 1 (g_idmax g) SA -> asc 1 (g_idmax g) UA -> own8 g (pm_clear a) [] [] [] [] SA UA V.
Proof.
  intros (W & E1 & E2 & E3) X A4 A5. constructor.
  - destruct W as (W1 & W2 & _). unfold pm_clear, a_clear, WFa, WF. cbn. repeat split; try assumption; lia.
  - constructor.
  - intros q [].
  - intros q [].
  - intro id. unfold cnt. cbn [mem s_mem b2n]. specialize (X id). unfold mem in *. cbn. lia.
  - repeat split; try exact I; assumption.
Qed.

(* ---- the store ---- *)
Lemma sids_in q S : In q S -> In (k_pid q) (sids S).
Proof. intro H. unfold sids. apply in_map_iff. now exists q. Qed.

Lemma erase_l_sub v r id S : forall q, In q (store_erase_l v r id S) -> In q S.
Proof.
  induction S as [|p t IH]; cbn [store_erase_l]; [tauto|]. intro q.
  destruct (k_pid p =? id); [destruct (_ && _); [now right|tauto]|]. cbn [In]. intros [H|H]; [now left|right; now apply IH].
Qed.
Lemma erase_l_nodup v r id S : NoDup (sids S) -> NoDup (sids (store_erase_l v r id S)).
Proof.
  induction S as [|p t IH]; cbn [store_erase_l sids map]; [auto|]. intro H. inversion H as [|x xs Hn Hd]; subst.
  destruct (k_pid p =? id); [destruct (_ && _); [exact Hd|exact H]|]. cbn [sids map]. constructor; [|now apply IH].
  intro K. apply Hn. unfold sids in K. apply in_map_iff in K as (q & Hq & Hin). apply in_map_iff. exists q. split; [exact Hq|now apply (erase_l_sub v r id t)].
Qed.
(* with distinct identifiers, the entry of id — if it has the expected version and kind — is the one erased *)
Lemma erase_l_gone v r id S : NoDup (sids S) ->
  (forall q, In q S -> k_pid q = id -> version_eqb (k_ver q) v && (response_of q =? r) = true) ->
  forall q, In q (store_erase_l v r id S) -> k_pid q <> id.
Proof.
  induction S as [|p t IH]; cbn [store_erase_l]; [tauto|]. intros Hd Hm q.
  cbn [sids map] in Hd. inversion Hd as [|x xs Hn Hd']; subst.
  destruct (N.eqb_spec (k_pid p) id) as [E|E].
  - rewrite (Hm p (or_introl eq_refl) E). intros Hq Hk. apply Hn. rewrite E, <- Hk. now apply sids_in.
  - cbn [In]. intros [<-|Hq]; [exact E|]. exact (IH Hd' (fun q0 H0 => Hm q0 (or_intror H0)) q Hq).
Qed.

Lemma erase_publish_l_sub id S : forall q, In q (snd (store_erase_publish_l id S)) -> In q S.
Proof.
  induction S as [|p r IH]; cbn [store_erase_publish_l]; [tauto|]. intro q.
  destruct (k_pid p =? id); [destruct (_ =? T_PUBLISH); cbn [snd]; [now right|tauto]|].
  destruct (store_erase_publish_l id r) as [b r']. cbn [snd In] in *. intros [H|H]; [now left|right; now apply IH].
Qed.
Lemma erase_publish_l_nodup id S : NoDup (sids S) -> NoDup (sids (snd (store_erase_publish_l id S))).
Proof.
  induction S as [|p t IH]; cbn [store_erase_publish_l sids map]; [auto|]. intro H. inversion H as [|x xs Hn Hd]; subst.
  destruct (k_pid p =? id); [destruct (_ =? T_PUBLISH); cbn [snd]; [exact Hd|exact H]|].
  pose proof (erase_publish_l_sub id t) as Hs. specialize (IH Hd). destruct (store_erase_publish_l id t) as [b t']. cbn [snd sids map] in *.
  constructor; [|exact IH]. intro K. apply Hn. unfold sids in K. apply in_map_iff in K as (q & Hq & Hin). apply in_map_iff. exists q. split; [exact Hq|now apply Hs].
Qed.
Lemma erase_publish_l_gone id S : NoDup (sids S) ->
  (forall q, In q S -> k_pid q = id -> (k_type q =? T_PUBLISH) = true) ->
  forall q, In q (snd (store_erase_publish_l id S)) -> k_pid q <> id.
Proof.
  induction S as [|p t IH]; cbn [store_erase_publish_l]; [tauto|]. intros Hd Hm q.
  cbn [sids map] in Hd. inversion Hd as [|x xs Hn Hd']; subst.
  destruct (N.eqb_spec (k_pid p) id) as [E|E].
  - rewrite (Hm p (or_introl eq_refl) E). cbn [snd]. intros Hq Hk. apply Hn. rewrite E, <- Hk. now apply sids_in.
  - specialize (IH Hd'). destruct (store_erase_publish_l id t) as [b t']. cbn [snd In] in *. intros [<-|Hq]; [exact E|].
    exact (IH (fun q0 H0 => Hm q0 (or_intror H0)) q Hq).
Qed.

(* what the invariant says about the entry of an identifier that is awaited in a set *)
Lemma own_entry_kind g a S PA PB PC SA UA V id r :
  own8 g a S PA PB PC SA UA V -> mem id (kset r PA PB PC) = true ->
  (r = T_PUBACK \/ r = T_PUBREC \/ r = T_PUBCOMP) ->
  forall q, In q S -> k_pid q = id -> version_eqb (k_ver q) V && (response_of q =? r) = true.
Proof.
  intros [W D U K X A] Hm Hr q Hq Hid. destruct (K q Hq) as [K1 K2]. rewrite K2.
  assert (Hv : version_eqb V V = true) by (destruct V; reflexivity). rewrite Hv. cbn [andb].
  specialize (X id). unfold cnt in X. rewrite Hid in K1. unfold kset in *.
  assert (Hresp : response_of q = T_PUBACK \/ response_of q = T_PUBREC \/ response_of q = T_PUBCOMP).
  { unfold response_of. destruct (_ =? T_PUBLISH); [destruct (_ =? 1)|]; auto. }
  apply N.eqb_eq.
  destruct Hr as [Hr|[Hr|Hr]]; destruct Hresp as [E|[E|E]]; subst r; rewrite E in *; try reflexivity; exfalso;
    unfold T_PUBACK, T_PUBREC, T_PUBCOMP in *;
    try change (4 =? 4) with true in *; try change (4 =? 5) with false in *; try change (5 =? 4) with false in *;
    try change (5 =? 5) with true in *; try change (7 =? 4) with false in *; try change (7 =? 5) with false in *;
    cbv iota in *;
    repeat match goal with H : mem id ?l = true |- _ => rewrite H in X; clear H end; cbn [b2n] in X; lia.
Qed.
