(* The ownership invariant for an endpoint whose protocol version is not determined yet (a server created
   as Undetermined): until the first CONNECT is received nothing can be stored, and the CONNECT that
   determines the version finds an empty store, so OWN carries over to the adopted version. *)
From MQ Require Import Base.Prelude Alloc.Alloc Alloc.SetSpec Alloc.AllocProofs Framing.Framing
                       Conn.Types Conn.TopicAlias Conn.ConnRecord Conn.Step Conn.Run Corr.ConnTrace Conn.Scope Conn.IdsQuota Conn.WfInv
                       Conn.Own Conn.OwnFrame Conn.OwnStep.

Definition OWNU (g : cfg) (c : conn) : Prop := OWN g c /\ (c_version c = VUndet -> c_store c = []).

(* packets have a real protocol version *)
Definition undet_op_ok (c : conn) (o : op) : Prop :=
  c_version c = VUndet ->
  match o with
  | OSend p => k_ver p <> VUndet
  | ORestorePackets l => forall p, In p l -> k_ver p <> VUndet
  | _ => True
  end.

Lemma own_any_version g a PA PB PC SA UA V V' : own8 g a [] PA PB PC SA UA V -> own8 g a [] PA PB PC SA UA V'.
Proof. intros [W D U K X A]. constructor; auto. intros q []. Qed.

Lemma f8_ownu g c c1 : F8 c1 c -> OWNU g c -> OWNU g c1 /\ c_version c1 = c_version c.
Proof.
  intros F [HO HS]. split; [split; [now apply (f8_own g c)|]|now destruct F as (_ & _ & _ & _ & _ & _ & _ & F)].
  destruct F as (_ & F2 & _ & _ & _ & _ & _ & F8). rewrite F2, F8. exact HS.
Qed.

Lemma closed_store_empty c c' e : c_store c = [] -> do_closed c = Ok (c', e) -> c_store c' = [].
Proof.
  intros Hs H. destruct (c_need_store c) eqn:En.
  - destruct (closed_persistent_keeps_session c c' e H En) as (H1 & _). congruence.
  - now destruct (closed_nonpersistent_ends_session c c' e H En) as (H1 & _).
Qed.

Lemma restore_nothing l : forall c, c_version c = VUndet -> restore_ok c l -> (forall p, In p l -> k_ver p <> VUndet) -> do_restore c l = c.
Proof.
  induction l as [|p t IH]; intros c Hv Hr Hn; [reflexivity|]. cbn [restore_ok] in Hr. destruct Hr as [Hp Ht].
  assert (Hskip : (k_type p =? T_PUBLISH) && (k_qos p =? 0) = true).
  { destruct Hp as [Hp|(Hp & _)]; [exact Hp|]. exfalso. apply (Hn p (or_introl eq_refl)). congruence. }
  assert (E1 : do_restore c [p] = c) by (cbn [do_restore]; now rewrite Hskip).
  rewrite do_restore_cons, E1. rewrite E1 in Ht. apply IH; [exact Hv|exact Ht|intros q Hq; apply Hn; now right].
Qed.

Theorem step_keeps_OWNU g c o : OWNU g c -> own_op_ok c o -> undet_op_ok c o ->
  match step g c o with
  | Ok (c', _, _) => OWNU g c' /\ (c_version c' = c_version c \/ c_version c = VUndet)
  | Panic _ => True
  end.
Proof.
  intros [HO HS] Hk Hu. destruct (c_version c) eqn:Ev.
  1,2: (assert (Hv : c_version c <> VUndet) by congruence;
        pose proof (step_keeps_OWN g c o HO Hv Hk) as H; destruct (step g c o) as [[[c' e] r]|]; [|exact I];
        destruct H as [H1 H2]; split; [split; [exact H1|intro K; congruence]|left; congruence]).
  (* the version is not determined: the store is empty *)
  specialize (HS eq_refl). specialize (Hu Ev).
  assert (Hfr : forall c1, F8 c1 c -> OWNU g c1 /\ (c_version c1 = VUndet \/ VUndet = VUndet)).
  { intros c1 F. destruct (f8_ownu g c c1 F (conj HO (fun _ => HS))) as [H1 H2]. split; [exact H1|now right]. }
  destruct o; cbn [step own_op_ok undet_op_ok] in *.
  - (* send: a packet with a real version is refused by the version check *)
    unfold do_send. rewrite Ev. assert (E : version_eqb VUndet (k_ver p) = false) by (destruct (k_ver p); try reflexivity; now destruct Hu).
    rewrite E. cbn [negb bindr]. apply Hfr, f8_refl.
  - (* recv *)
    unfold do_recv. destruct (feed (c_pb c) bytes) as [[r pb'] rest]. cbv zeta.
    assert (F0 : F8 (set_pb c pb') c) by (unfold F8; conn_simpl; repeat split).
    destruct r; cbv beta iota.
    all: try (apply Hfr; exact F0).
    all: try match goal with
             | |- context [cancel_timers ?x] =>
                 pose proof (cancel_f8 x) as H; destruct (cancel_timers x) as [c1 e]; cbn [fst] in H; cbv beta iota;
                 apply Hfr; apply (f8_trans _ (set_pb c pb')); assumption
             end.
    unfold process_recv_packet. cbv zeta. conn_simpl_goal.
    destruct (_ <? _).
    { destruct (status_eqb _ _).
      - pose proof (close_with_disconnect_FR (set_pb c pb') (disconnect_v5 149)) as H.
        destruct (close_with_disconnect _ _) as [[c1 e]|]; cbn [bindr FR] in *; [|exact I].
        apply Hfr. now apply (f8_trans _ (set_pb c pb')).
      - pose proof (cancel_f8 (set_status (set_pb c pb') Disconnected)) as H. destruct (cancel_timers _) as [c1 e]. cbn [fst bindr] in *.
        apply Hfr. apply (f8_trans _ (set_status (set_pb c pb') Disconnected)); [exact H|unfold F8; conn_simpl; repeat split]. }
    destruct (negb _); [cbn [bindr]; apply Hfr; exact F0|].
    rewrite Ev.
    destruct (_ =? 1); [|cbn [bindr]; apply Hfr; exact F0].
    destruct (_ <? 7); [cbn [bindr]; apply Hfr; exact F0|]. cbv zeta.
    assert (Hcon : forall v, v <> VUndet ->
              match recv_connect g (set_version (set_pb c pb') v) v pr with
              | Ok (c', _) => OWNU g c' /\ (c_version c' = VUndet \/ VUndet = VUndet)
              | Panic _ => True end).
    { intros v Hv. assert (H1 : OWN g (set_version (set_pb c pb') v)).
      { unfold OWN in *. conn_simpl_goal. rewrite HS in *. now apply (own_any_version g _ _ _ _ _ _ (c_version c)). }
      pose proof (recv_connect_OR g _ v pr H1) as H. destruct (recv_connect _ _ _ _) as [[c1 e]|]; cbn [OR] in *; [|exact I].
      destruct H as [P1 P2]. conn_simpl. split; [split; [exact P1|intro K; congruence]|now right]. }
    destruct (_ =? 4).
    { pose proof (Hcon V311 ltac:(discriminate)) as H. destruct (recv_connect _ _ _ _) as [[c1 e]|]; cbn [bindr]; [exact H|exact I]. }
    destruct (_ =? 5).
    { pose proof (Hcon V50 ltac:(discriminate)) as H. destruct (recv_connect _ _ _ _) as [[c1 e]|]; cbn [bindr]; [exact H|exact I]. }
    cbn [bindr]. apply Hfr; exact F0.
  - pose proof (do_timer_FR c k) as H. destruct (do_timer c k) as [[c' e]|]; cbn [bindr FR] in *; [now apply Hfr|exact I].
  - pose proof (do_closed_OR g c HO) as H. destruct (do_closed c) as [[c' e]|] eqn:E; cbn [bindr OR] in *; [|exact I].
    destruct H as [P1 P2]. split; [split; [exact P1|intros _; exact (closed_store_empty c c' e HS E)]|now right].
  - unfold do_set_pingreq_interval. cbv zeta. own_split; cbn [bindr]; apply Hfr; unfold F8; conn_simpl; repeat split.
  - apply Hfr; unfold F8; conn_simpl; repeat split.
  - apply Hfr; destruct b; unfold F8; conn_simpl; repeat split.
  - apply Hfr; unfold F8; conn_simpl; repeat split.
  - apply Hfr; unfold F8; conn_simpl; repeat split.
  - apply Hfr; unfold F8; conn_simpl; repeat split.
  - apply Hfr; unfold F8; conn_simpl; repeat split.
  - destruct (pm_acquire (c_pid c)) as [[r a]|] eqn:Ea; cbn [bindr]; [|exact I].
    split; [split; [now apply (acquire_own g c r a)|intros _; exact HS]|now right].
  - pose proof (register_own g c id HO) as H. destruct (pm_register (c_pid c) id) as [b a]. cbn [snd] in H.
    split; [split; [exact H|intros _; exact HS]|now right].
  - destruct (release_if_used c id) as [[c' e]|] eqn:E; cbn [bindr]; [|exact I].
    destruct (release_if_used_own g c id c' e HO (store_has_false _ _ Hk) E) as [P1 P2].
    destruct P2 as (_ & P2 & _ & _ & _ & _ & _ & P8). conn_simpl.
    split; [split; [exact P1|intros _; congruence]|now right].
  - unfold do_erase. rewrite HS. cbn [store_erase_publish_l bindr]. apply Hfr, f8_refl.
  - rewrite (restore_nothing l c Ev Hk Hu). apply Hfr, f8_refl.
  - apply Hfr; unfold F8; conn_simpl; repeat split.
  - apply Hfr, f8_refl.
Qed.

Fixpoint ownu_history_ok (g : cfg) (c : conn) (ops : list op) : Prop :=
  match ops with
  | [] => True
  | o :: t => own_op_ok c o /\ undet_op_ok c o /\
              match step g c o with Ok (c', _, _) => ownu_history_ok g c' t | Panic _ => True end
  end.

Theorem OWNU_invariant g : forall ops c,
  OWNU g c -> ownu_history_ok g c ops ->
  match run_state g c ops with Some c' => OWNU g c' | None => True end.
Proof.
  induction ops as [|o t IH]; intros c HO Hq; cbn [run_state]; [exact HO|].
  cbn [ownu_history_ok] in Hq. destruct Hq as (Hk & Hu & Hq). pose proof (step_keeps_OWNU g c o HO Hk Hu) as Hs.
  destruct (step g c o) as [[[c' e] r]|]; [|exact I]. destruct Hs as [H1 _]. now apply IH.
Qed.

Lemma conn_new_OWNU g v : 1 <= g_idmax g -> OWNU g (conn_new g v).
Proof. intro Hm. split; [now apply conn_new_OWN|reflexivity]. Qed.

(* every history of a freshly constructed object of ANY version, Undetermined included *)
Corollary fresh_OWNU_invariant g v ops :
  1 <= g_idmax g -> ownu_history_ok g (conn_new g v) ops ->
  match run_state g (conn_new g v) ops with Some c' => OWN g c' | None => True end.
Proof.
  intros Hm Hq. pose proof (OWNU_invariant g ops _ (conn_new_OWNU g v Hm) Hq) as H.
  destruct (run_state _ _ _); [exact (proj1 H)|exact I].
Qed.
