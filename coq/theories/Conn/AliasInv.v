(* C13, send side: every v5.0 PUBLISH that send() requests is resolvable by a conformant receiver to
   the topic the application asked for.  The receiver is a ghost table G built only from the packets
   requested for sending on this connection; the sender's table never knows a binding G does not have. *)
From MQ Require Import Base.Prelude Alloc.Alloc Alloc.SetSpec Alloc.AllocProofs Framing.Framing
                       Conn.Types Conn.TopicAlias Conn.ConnRecord Conn.Step Conn.Run Corr.ConnTrace Conn.Scope Conn.AliasTable.

Definition is_v5_pub (q : pkt) : bool := (k_type q =? T_PUBLISH) && version_eqb (k_ver q) V50.

(* what a conformant receiver does with a PUBLISH it is sent: learn a binding / resolve an alias *)
Definition rx_step (G : list (N * topic)) (q : pkt) : list (N * topic) :=
  match k_alias q, k_topic q with
  | Some a, (_ :: _) as t => (a, t) :: G
  | _, _ => G
  end.
Definition rx_topic (G : list (N * topic)) (q : pkt) : option topic :=
  match k_topic q with
  | (_ :: _) as t => Some t
  | [] => match k_alias q with Some a => assoc_get a G | None => None end
  end.

(* the sender's table is covered by the receiver's *)
Definition agree (c : conn) (G : list (N * topic)) : Prop :=
  match c_ta_send c with
  | None => True
  | Some s => tas_inv s /\ forall a t, look s a = Some t -> assoc_get a G = Some t
  end.

Lemma agree_frame c c1 G : c_ta_send c1 = c_ta_send c -> agree c G -> agree c1 G.
Proof. unfold agree. now intros ->. Qed.

Lemma agree_validate c a G topt c1 :
  agree c G -> validate_topic_alias c a = (topt, c1) ->
  agree c1 G /\ c_status c1 = c_status c /\ c_send_max c1 = c_send_max c /\ c_send_count c1 = c_send_count c /\
  c_mps_send c1 = c_mps_send c /\ c_auto_map c1 = c_auto_map c /\ c_auto_replace c1 = c_auto_replace c /\
  match topt with
  | Some t => exists x, a = Some x /\ assoc_get x G = Some t /\
                        (exists s1, c_ta_send c1 = Some s1 /\ 1 <= x <= ts_max s1)
  | None => c1 = c
  end.
Proof.
  intro Ha. unfold validate_topic_alias. destruct a as [x|]; [|intro H; inversion H; subst; split; [exact Ha|]; repeat (split; [reflexivity|]); reflexivity].
  destruct (negb (validate_topic_alias_range c x)) eqn:Er; [intro H; inversion H; subst; split; [exact Ha|]; repeat (split; [reflexivity|]); reflexivity|].
  unfold agree in Ha. destruct (c_ta_send c) as [s|] eqn:Es; [|intro H; inversion H; subst; split; [unfold agree; now rewrite Es|]; repeat (split; [reflexivity|]); reflexivity].
  destruct Ha as [Hi Hc]. destruct (tas_get s x) as [[t|] s'] eqn:Eg.
  - intro H; inversion H; subst. destruct Hi as (Hw & Hrest).
    destruct (tas_get_spec s x t s' Hw Eg) as (Hl & Hsame & _ & Hmx & _).
    destruct (tas_get_inv s x t s' (conj Hw Hrest) Eg) as [Hi' _].
    assert (A1 : agree (set_ta_send c (Some s')) G).
    { unfold agree. conn_simpl. split; [exact Hi'|]. intros b t0 Hb. rewrite Hsame in Hb. now apply Hc. }
    assert (A8 : exists x0, Some x = Some x0 /\ assoc_get x0 G = Some t /\
                 (exists s1, c_ta_send (set_ta_send c (Some s')) = Some s1 /\ 1 <= x0 <= ts_max s1)).
    { exists x. split; [reflexivity|]. split; [now apply Hc|]. exists s'. conn_simpl. split; [reflexivity|].
      unfold validate_topic_alias_range in Er. rewrite Es in Er. apply negb_false_iff, negb_true_iff, orb_false_iff in Er as [E1 E2].
      apply N.eqb_neq in E1. apply N.ltb_ge in E2. rewrite Hmx. lia. }
    split; [exact A1|]. conn_simpl. repeat (split; [reflexivity|]). exact A8.
  - intro H; inversion H; subst. split; [unfold agree; rewrite Es; split; assumption|]. repeat (split; [reflexivity|]). reflexivity.
Qed.

Lemma agree_insert c s G t a s' :
  c_ta_send c = Some s -> agree c G -> tas_insert s t a = Ok s' -> t <> [] ->
  agree (set_ta_send c (Some s')) ((a, t) :: G).
Proof.
  intros Es Ha Hi Hne. unfold agree in *. rewrite Es in Ha. destruct Ha as [Hinv Hc]. conn_simpl.
  destruct (tas_insert_spec s t a s' Hinv Hi) as (L1 & L2 & _ & Hinv'). split; [exact Hinv'|].
  intros b t0 Hb. cbn [assoc_get]. destruct (N.eqb_spec a b) as [->|Hab].
  - now rewrite L1 in Hb.
  - rewrite L2 in Hb by congruence. now apply Hc.
Qed.

Lemma agree_cons_other c G a t :
  agree c G -> (forall s, c_ta_send c = Some s -> look s a = None \/ look s a = Some t) -> agree c ((a, t) :: G).
Proof.
  unfold agree. destruct (c_ta_send c) as [s|]; [|trivial]. intros [Hi Hc] Hl. split; [exact Hi|].
  intros b t0 Hb. cbn [assoc_get]. destruct (N.eqb_spec a b) as [->|Hab]; [|now apply Hc].
  destruct (Hl s eq_refl) as [K|K]; congruence.
Qed.

Lemma sends_app a b : sends (a ++ b) = sends a ++ sends b.
Proof. unfold sends. apply flat_map_app. Qed.

Lemma release_al c id G :
  agree c G ->
  match release_if_used c id with
  | Ok (c1, e) => agree c1 G /\ c_status c1 = c_status c /\ sends e = []
  | Panic _ => True end.
Proof.
  intro Ha. unfold release_if_used. destruct (is_used c id); [|repeat split; trivial].
  destruct (pm_release _ _); cbn [bindr]; [|exact I]. split; [now apply (agree_frame c)|]. split; reflexivity.
Qed.
Lemma store_add_al c q G :
  agree c G -> match store_add c q with Ok c1 => agree c1 G /\ c_status c1 = c_status c | Panic _ => True end.
Proof.
  intro Ha. unfold store_add. destruct (store_has _ _); [exact I|]. split; [now apply (agree_frame c)|reflexivity].
Qed.
Lemma refuse_al c id err pre G :
  agree c G -> sends pre = [] ->
  match refuse_publish c id err pre with
  | Ok (c1, e) => agree c1 G /\ c_status c1 = c_status c /\ sends e = []
  | Panic _ => True end.
Proof.
  intros Ha Hp. unfold refuse_publish. destruct (_ && _).
  - destruct (pm_release _ _); cbn [bindr]; [|exact I]. split; [now apply (agree_frame c)|]. split; [reflexivity|].
    rewrite sends_app, Hp. reflexivity.
  - split; [exact Ha|]. split; [reflexivity|]. rewrite sends_app, Hp. reflexivity.
Qed.

(* what the application asked for: the topic it gave, or the topic its alias is bound to *)
Definition resolved (G G' : list (N * topic)) (p q : pkt) : Prop :=
  match k_topic p with
  | (_ :: _) as t => rx_topic G' q = Some t
  | [] => exists x t, k_alias p = Some x /\ assoc_get x G = Some t /\ rx_topic G' q = Some t
  end.

Definition in_range (c : conn) (q : pkt) : Prop :=
  match k_alias q with
  | Some a => exists s, c_ta_send c = Some s /\ 1 <= a <= ts_max s
  | None => True
  end.

Definition AL5 (c : conn) (G : list (N * topic)) (p : pkt) (r : res (conn * option N * bool * bool * evs)) : Prop :=
  match r with
  | Ok (c1, _, validated, stop, e) =>
      agree c1 G /\ c_status c1 = c_status c /\ sends e = [] /\
      (validated = true -> stop = false /\ topic_empty p = true /\
                           exists x t, k_alias p = Some x /\ assoc_get x G = Some t /\
                                       exists s1, c_ta_send c1 = Some s1 /\ 1 <= x <= ts_max s1)
  | Panic _ => True
  end.

Lemma part1_al g c p G (qos_pos := negb (k_qos p =? 0)) (id := k_pid p) :
  agree c G ->
  AL5 c G p
    (if qos_pos then
      if negb (status_eqb (c_status c) Connected) && negb (can_store_now c) then
        bindr (release_if_used c id) (fun '(c, e) => Ok (c, None, false, true, not_allowed ++ e))
      else if negb (is_used c id) then Ok (c, None, false, true, [EError E_PID_INVALID])
      else
        bindr
          (if can_store_now c then
             if topic_empty p then
               let '(topt, c1) := validate_topic_alias c (k_alias p) in
               match topt with
               | None => bindr (release_if_used c1 id) (fun '(c2, e) => Ok (c2, None, false, true, not_allowed ++ e))
               | Some t =>
                 bindr (store_add c1 (set_dup (remove_topic_alias_add_topic g p t) true)) (fun c2 =>
                   Ok (c2, None, true, false, []))
               end
             else
               bindr (store_add c (set_dup (remove_topic_alias g p) true)) (fun c2 => Ok (c2, None, false, false, []))
           else Ok (c, Some id, false, false, []))
          (fun '(c, rel, validated, stop, e) =>
             if stop then Ok (c, rel, validated, stop, e) else
             let c := if k_qos p =? 2 then set_pubrec c (ins id (c_pubrec c)) else set_puback c (ins id (c_puback c)) in
             Ok (c, rel, validated, false, e))
    else if negb (status_eqb (c_status c) Connected) then Ok (c, None, false, true, not_allowed)
    else Ok (c, None, false, false, [])).
Proof.
  intro Ha. subst qos_pos id.
  destruct (negb (k_qos p =? 0)).
  2:{ destruct (negb _); cbn [AL5]; (split; [exact Ha|split; [reflexivity|split; [reflexivity|discriminate]]]). }
  destruct (_ && _).
  { pose proof (release_al c (k_pid p) G Ha) as H. destruct (release_if_used _ _) as [[c1 e]|]; cbn [bindr AL5]; [|exact I].
    destruct H as (H1 & H2 & H3). split; [exact H1|split; [exact H2|split; [|discriminate]]]. rewrite sends_app, H3. reflexivity. }
  destruct (negb (is_used _ _)); [cbn [AL5]; (split; [exact Ha|split; [reflexivity|split; [reflexivity|discriminate]]])|].
  assert (Hfin : forall c0, agree c0 G -> c_status c0 = c_status c ->
            let c9 := (if k_qos p =? 2 then set_pubrec c0 (ins (k_pid p) (c_pubrec c0)) else set_puback c0 (ins (k_pid p) (c_puback c0))) in
            agree c9 G /\ c_status c9 = c_status c /\ c_ta_send c9 = c_ta_send c0).
  { intros c0 H0 H1. cbv zeta. destruct (_ =? 2); (split; [now apply (agree_frame c0)|split; [exact H1|reflexivity]]). }
  destruct (can_store_now c).
  2:{ cbn [bindr AL5]. destruct (Hfin c Ha eq_refl) as (F1 & F2 & _). split; [exact F1|split; [exact F2|split; [reflexivity|discriminate]]]. }
  destruct (topic_empty p) eqn:Et.
  2:{ pose proof (store_add_al c (set_dup (remove_topic_alias g p) true) G Ha) as H.
      destruct (store_add _ _) as [c2|]; cbn [bindr AL5]; [|exact I]. destruct H as [H1 H2].
      destruct (Hfin c2 H1 H2) as (F1 & F2 & _). split; [exact F1|split; [exact F2|split; [reflexivity|discriminate]]]. }
  destruct (validate_topic_alias c (k_alias p)) as [topt c1] eqn:Ev.
  destruct (agree_validate c (k_alias p) G topt c1 Ha Ev) as (V1 & V2 & _ & _ & _ & _ & _ & V8).
  destruct topt as [t|].
  - pose proof (store_add_al c1 (set_dup (remove_topic_alias_add_topic g p t) true) G V1) as H.
    assert (Hta : forall c2, store_add c1 (set_dup (remove_topic_alias_add_topic g p t) true) = Ok c2 -> c_ta_send c2 = c_ta_send c1).
    { intro c2. unfold store_add. destruct (store_has _ _); [discriminate|]. intro K; inversion K; reflexivity. }
    destruct (store_add _ _) as [c2|]; cbn [bindr AL5]; [|exact I]. destruct H as [H1 H2]. specialize (Hta c2 eq_refl).
    assert (H2' : c_status c2 = c_status c) by congruence.
    destruct (Hfin c2 H1 H2') as (F1 & F2 & F3). split; [exact F1|]. split; [exact F2|]. split; [reflexivity|].
    intros _. split; [reflexivity|]. split; [exact Et|].
    destruct V8 as (x & Hx & Hg & s1 & Hs1 & Hr). exists x, t. split; [exact Hx|]. split; [exact Hg|].
    exists s1. split; [|exact Hr]. cbv zeta in F3. rewrite F3, Hta. exact Hs1.
  - pose proof (release_al c1 (k_pid p) G V1) as H. destruct (release_if_used _ _) as [[c2 e]|]; cbn [bindr AL5]; [|exact I].
    destruct H as (H1 & H2 & H3). split; [exact H1|split; [congruence|split; [|discriminate]]]. rewrite sends_app, H3. reflexivity.
Qed.

Definition AL4 (c : conn) (G : list (N * topic)) (p : pkt) (r : res (conn * pkt * bool * evs)) : Prop :=
  match r with
  | Ok (c2, q, stop2, e2) =>
      sends e2 = [] /\ c_status c2 = c_status c /\
      (stop2 = true -> agree c2 G) /\
      (stop2 = false ->
         (status_eqb (c_status c) Connected = true ->
            agree c2 (rx_step G q) /\ resolved G (rx_step G q) p q /\ in_range c2 q) /\
         (status_eqb (c_status c) Connected = false -> agree c2 G))
  | Panic _ => True
  end.

Lemma rx_plain G p : k_alias p = None -> rx_step G p = G.
Proof. unfold rx_step. now intros ->. Qed.
Lemma rx_empty G p : k_topic p = [] -> rx_step G p = G.
Proof. unfold rx_step. intros ->. now destruct (k_alias p). Qed.

Lemma part2_al g c p G validated (id := k_pid p) :
  agree c G ->
  (validated = true -> topic_empty p = true /\
      exists x t, k_alias p = Some x /\ assoc_get x G = Some t /\ exists s1, c_ta_send c = Some s1 /\ 1 <= x <= ts_max s1) ->
  AL4 c G p
    (if topic_empty p then
      if validated then Ok (c, p, false, [])
      else
        let '(topt, c1) := validate_topic_alias c (k_alias p) in
        match topt with
        | Some _ => Ok (c1, p, false, [])
        | None => bindr (refuse_publish c1 id E_NOT_ALLOWED_TO_SEND []) (fun '(c2, e) => Ok (c2, p, true, e))
        end
    else
      match k_alias p with
      | Some a =>
        if validate_topic_alias_range c a then
          if status_eqb (c_status c) Connected then
            match c_ta_send c with
            | Some s => bindr (tas_insert s (k_topic p) a) (fun s' => Ok (set_ta_send c (Some s'), p, false, []))
            | None => Ok (c, p, false, [])
            end
          else Ok (c, p, false, [])
        else bindr (refuse_publish c id E_NOT_ALLOWED_TO_SEND []) (fun '(c2, e) => Ok (c2, p, true, e))
      | None =>
        if status_eqb (c_status c) Connected then
          if c_auto_map c then
            match c_ta_send c with
            | Some s =>
              match tas_find_by_topic s (k_topic p) with
              | Some a => let q := remove_topic_add_topic_alias g p a in
                          Ok (c, (if k_size q <=? c_mps_send c then q else p), false, [])
              | None =>
                bindr (tas_lru s) (fun a =>
                  let q := add_topic_alias g p a in
                  if k_size q <=? c_mps_send c then
                    bindr (tas_insert s (k_topic p) a) (fun s' => Ok (set_ta_send c (Some s'), q, false, []))
                  else Ok (c, p, false, []))
              end
            | None => Ok (c, p, false, [])
            end
          else if c_auto_replace c then
            match c_ta_send c with
            | Some s =>
              match tas_find_by_topic s (k_topic p) with
              | Some a => let q := remove_topic_add_topic_alias g p a in
                          Ok (c, (if k_size q <=? c_mps_send c then q else p), false, [])
              | None => Ok (c, p, false, [])
              end
            | None => Ok (c, p, false, [])
            end
          else Ok (c, p, false, [])
        else Ok (c, p, false, [])
      end).
Proof.
  intros Ha Hval. subst id.
  (* the simplest outcome: the packet as given, no alias involved, table untouched *)
  assert (Hplain : k_alias p = None -> k_topic p <> [] -> AL4 c G p (Ok (c, p, false, []))).
  { intros Hn Ht. cbn [AL4]. split; [reflexivity|]. split; [reflexivity|]. split; [discriminate|]. intros _. split; [|intros _; exact Ha].
    intros _. rewrite (rx_plain G p Hn). split; [exact Ha|]. split.
    - unfold resolved, rx_topic. destruct (k_topic p); [congruence|reflexivity].
    - unfold in_range. now rewrite Hn. }
  (* a found mapping: the topic is replaced by the alias if that fits *)
  assert (Hfound : forall s a, c_ta_send c = Some s -> k_alias p = None -> k_topic p <> [] -> tas_find_by_topic s (k_topic p) = Some a ->
            AL4 c G p (Ok (c, (if k_size (remove_topic_add_topic_alias g p a) <=? c_mps_send c then remove_topic_add_topic_alias g p a else p), false, []))).
  { intros s a Es Hn Ht Hf. destruct (_ <=? _); [|now apply Hplain].
    unfold agree in Ha. pose proof Ha as Ha'. rewrite Es in Ha'. destruct Ha' as [Hinv Hc].
    destruct (tas_find_range s (k_topic p) a Hinv Hf) as [Hl Hr].
    cbn [AL4]. split; [reflexivity|]. split; [reflexivity|]. split; [discriminate|]. intros _. split; [|intros _; exact Ha].
    intros _. rewrite rx_empty by reflexivity. split; [exact Ha|]. split.
    - unfold resolved. destruct (k_topic p) as [|x xs] eqn:Et; [congruence|]. unfold rx_topic. cbn. rewrite <- Et in Hl. rewrite Et in Hl. now apply Hc.
    - unfold in_range. cbn. exists s. split; [exact Es|exact Hr]. }
  destruct (topic_empty p) eqn:Et.
  { assert (Htp : k_topic p = []) by (unfold topic_empty in Et; destruct (k_topic p); [reflexivity|discriminate]).
    destruct validated.
    - destruct (Hval eq_refl) as (_ & x & t & Hx & Hg & s1 & Hs1 & Hr).
      cbn [AL4]. split; [reflexivity|]. split; [reflexivity|]. split; [discriminate|]. intros _. split; [|intros _; exact Ha].
      intros _. rewrite (rx_empty G p Htp). split; [exact Ha|]. split.
      + unfold resolved. rewrite Htp. exists x, t. split; [exact Hx|]. split; [exact Hg|]. unfold rx_topic. now rewrite Htp, Hx.
      + unfold in_range. rewrite Hx. exists s1. split; assumption.
    - destruct (validate_topic_alias c (k_alias p)) as [topt c1] eqn:Ev.
      destruct (agree_validate c (k_alias p) G topt c1 Ha Ev) as (V1 & V2 & _ & _ & _ & _ & _ & V8).
      destruct topt as [t|].
      + destruct V8 as (x & Hx & Hg & s1 & Hs1 & Hr).
        cbn [AL4]. split; [reflexivity|]. split; [exact V2|]. split; [discriminate|]. intros _. split; [|intros _; exact V1].
        intros _. rewrite (rx_empty G p Htp). split; [exact V1|]. split.
        * unfold resolved. rewrite Htp. exists x, t. split; [exact Hx|]. split; [exact Hg|]. unfold rx_topic. now rewrite Htp, Hx.
        * unfold in_range. rewrite Hx. exists s1. split; assumption.
      + pose proof (refuse_al c1 (k_pid p) E_NOT_ALLOWED_TO_SEND [] G V1 eq_refl) as H.
        destruct (refuse_publish _ _ _ _) as [[c2 e]|]; cbn [bindr AL4]; [|exact I]. destruct H as (H1 & H2 & H3).
        split; [exact H3|]. split; [congruence|]. split; [intros _; exact H1|discriminate]. }
  assert (Htp : k_topic p <> []) by (unfold topic_empty in Et; destruct (k_topic p); [discriminate|discriminate]).
  destruct (k_alias p) as [a|] eqn:Eal.
  - destruct (validate_topic_alias_range c a) eqn:Er.
    2:{ pose proof (refuse_al c (k_pid p) E_NOT_ALLOWED_TO_SEND [] G Ha eq_refl) as H.
        destruct (refuse_publish _ _ _ _) as [[c2 e]|]; cbn [bindr AL4]; [|exact I]. destruct H as (H1 & H2 & H3).
        split; [exact H3|]. split; [exact H2|]. split; [intros _; exact H1|discriminate]. }
    destruct (status_eqb (c_status c) Connected) eqn:Est.
    2:{ cbn [AL4]. split; [reflexivity|]. split; [reflexivity|]. split; [discriminate|]. intros _. split; [intro K; congruence|intros _; exact Ha]. }
    destruct (c_ta_send c) as [s|] eqn:Es.
    2:{ unfold validate_topic_alias_range in Er. rewrite Es in Er. discriminate. }
    destruct (tas_insert s (k_topic p) a) as [s'|] eqn:Ei; cbn [bindr AL4]; [|exact I].
    split; [reflexivity|]. split; [reflexivity|]. split; [discriminate|]. intros _. split; [|intro K; congruence]. intros _.
    assert (Hrx : rx_step G p = (a, k_topic p) :: G) by (unfold rx_step; rewrite Eal; destruct (k_topic p); [congruence|reflexivity]).
    rewrite Hrx. split; [now apply (agree_insert c s G (k_topic p) a s')|]. split.
    + unfold resolved, rx_topic. destruct (k_topic p); [congruence|reflexivity].
    + unfold in_range. rewrite Eal. exists s'. conn_simpl. split; [reflexivity|].
      destruct (tas_insert_range s _ a s' Ei) as [Hr _]. unfold agree in Ha. rewrite Es in Ha. destruct Ha as [Hinv _].
      destruct (tas_insert_spec s _ a s' Hinv Ei) as (_ & _ & Hmx & _). now rewrite Hmx.
  - destruct (status_eqb (c_status c) Connected) eqn:Est; [|now apply Hplain].
    destruct (c_auto_map c).
    + destruct (c_ta_send c) as [s|] eqn:Es; [|now apply Hplain].
      destruct (tas_find_by_topic s (k_topic p)) as [a|] eqn:Ef; [now apply (Hfound s a)|].
      destruct (tas_lru s) as [a|]; cbn [bindr]; [|exact I]. cbv zeta.
      destruct (_ <=? _); [|now apply Hplain].
      destruct (tas_insert s (k_topic p) a) as [s'|] eqn:Ei; cbn [bindr AL4]; [|exact I].
      split; [reflexivity|]. split; [reflexivity|]. split; [discriminate|]. intros _. split; [|intro K; congruence]. intros _.
      assert (Hrx : rx_step G (add_topic_alias g p a) = (a, k_topic p) :: G).
      { unfold rx_step. cbn. destruct (k_topic p); [congruence|reflexivity]. }
      rewrite Hrx. split; [now apply (agree_insert c s G (k_topic p) a s')|]. split.
      * unfold resolved, rx_topic. cbn. destruct (k_topic p); [congruence|reflexivity].
      * unfold in_range. cbn. exists s'. split; [reflexivity|].
        destruct (tas_insert_range s _ a s' Ei) as [Hr _]. pose proof Ha as Ha'. unfold agree in Ha'. rewrite Es in Ha'. destruct Ha' as [Hinv _].
        destruct (tas_insert_spec s _ a s' Hinv Ei) as (_ & _ & Hmx & _). now rewrite Hmx.
    + destruct (c_auto_replace c); [|now apply Hplain].
      destruct (c_ta_send c) as [s|] eqn:Es; [|now apply Hplain].
      destruct (tas_find_by_topic s (k_topic p)) as [a|] eqn:Ef; [now apply (Hfound s a)|now apply Hplain].
Qed.

(* the outcome of one send(): at most one packet is requested; the receiver resolves it to the topic
   the application asked for; afterwards the sender's table is still covered by the receiver's *)
Definition send_spec (G : list (N * topic)) (p : pkt) (r : res (conn * list event)) : Prop :=
  match r with
  | Ok (c', e) =>
      match sends e with
      | [] => agree c' G
      | [q] => agree c' (rx_step G q) /\ resolved G (rx_step G q) p q /\ in_range c' q
      | _ => False
      end
  | Panic _ => True
  end.

Lemma post_al c : c_ta_send (fst (send_post_process c)) = c_ta_send c /\ sends (snd (send_post_process c)) = [].
Proof. unfold send_post_process. destruct (c_is_client c); [destruct (0 <? _)|]; split; reflexivity. Qed.

Theorem send_publish_v5_resolvable g c p G : agree c G -> send_spec G p (send_publish_v5 g c p).
Proof.
  intro Ha. unfold send_publish_v5. cbv zeta.
  destruct (negb (size_ok c p)).
  { destruct (negb _); [|cbn; exact Ha].
    pose proof (release_al c (k_pid p) G Ha) as H. destruct (release_if_used _ _) as [[c1 e]|]; cbn [bindr send_spec]; [|exact I].
    destruct H as (H1 & _ & H3). rewrite sends_app, H3. exact H1. }
  pose proof (part1_al g c p G Ha) as H1. cbv zeta in H1.
  match goal with |- send_spec _ _ (bindr ?P1 _) => destruct P1 as [[[[[c1 rel] val] stop] e1]|]; cbn [bindr]; [|exact I] end.
  cbn [AL5] in H1. destruct H1 as (A1 & S1 & E1 & V1).
  destruct stop; [cbn [send_spec]; rewrite E1; exact A1|].
  match goal with |- send_spec _ _ (if ?b then _ else _) => destruct b end.
  { pose proof (refuse_al c1 (k_pid p) E_RECEIVE_MAXIMUM_EXCEEDED e1 G A1 E1) as H.
    destruct (refuse_publish _ _ _ _) as [[c2 e]|]; cbn [send_spec]; [|exact I]. destruct H as (H1 & _ & H3). rewrite H3. exact H1. }
  assert (V1' : val = true -> topic_empty p = true /\
            exists x t, k_alias p = Some x /\ assoc_get x G = Some t /\ exists s1, c_ta_send c1 = Some s1 /\ 1 <= x <= ts_max s1).
  { intro Hv. destruct (V1 Hv) as (_ & Ht & Hx). split; assumption. }
  pose proof (part2_al g c1 p G val A1 V1') as H2. cbv zeta in H2.
  match goal with |- send_spec _ _ (bindr ?P2 _) => destruct P2 as [[[[c2 q] stop2] e2]|]; cbn [bindr]; [|exact I] end.
  cbn [AL4] in H2. destruct H2 as (E2 & S2 & T2 & F2).
  destruct stop2; [cbn [send_spec]; rewrite sends_app, E1, E2; now apply T2|].
  destruct (F2 eq_refl) as [Fc Fd].
  match goal with |- context [if ?b then set_send_count c2 (c_send_count c2 + 1) else c2] =>
    set (c3 := if b then set_send_count c2 (c_send_count c2 + 1) else c2) end.
  assert (H3 : c_ta_send c3 = c_ta_send c2 /\ c_status c3 = c_status c2) by (subst c3; destruct (_ && _); split; reflexivity).
  destruct H3 as [H3 H4]. rewrite H4, S2.
  destruct (status_eqb (c_status c1) Connected).
  - destruct (Fc eq_refl) as (F1 & F3 & F4). unfold send_and_post.
    pose proof (post_al c3) as [P1 P2]. destruct (send_post_process c3) as [c4 e]. cbn [fst snd] in *.
    cbn [send_spec]. rewrite !sends_app, E1, E2, P2. cbn [sends flat_map app].
    split; [apply (agree_frame c2); [congruence|exact F1]|]. split; [exact F3|].
    unfold in_range in *. destruct (k_alias q); [|exact I]. destruct F4 as (s & Hs & Hr). exists s. split; [congruence|exact Hr].
  - cbn [send_spec]. rewrite sends_app, E1, E2. apply (agree_frame c2); [exact H3|now apply Fd].
Qed.

(* a fresh object, and an object after notify_closed, have no send-side table: bindings do not
   survive the connection, and the receiver ghost restarts empty *)
Lemma fresh_agree g v G : agree (conn_new g v) G.
Proof. unfold agree, conn_new. reflexivity. Qed.
Lemma closed_agree c c' e G : do_closed c = Ok (c', e) -> agree c' G.
Proof. intro H. unfold agree. destruct (closed_has_shape c c' e H) as (_ & _ & Hs & _). now rewrite Hs. Qed.

(* a new table (CONNACK / CONNECT received with Topic Alias Maximum) is empty: covered by any receiver *)
Lemma new_table_agree c m s G : m <= 65535 -> tas_new m = Ok s -> agree (set_ta_send c (Some s)) G.
Proof.
  intros Hm Hn. destruct (tas_new_inv m s Hm Hn) as (Hi & Hl & _). unfold agree. conn_simpl. split; [exact Hi|].
  intros a t Ha. rewrite Hl in Ha. discriminate.
Qed.
Lemma connack_recv_limits_agree c p c' G :
  match k_tam p with Some m => m <= 65535 | None => True end ->
  agree c G -> connack_recv_limits c p = Ok c' -> agree c' G.
Proof.
  intros Hm Ha. unfold connack_recv_limits.
  destruct (k_tam p) as [m|].
  - destruct (0 <? m).
    + destruct (tas_new m) as [s|] eqn:En; cbn [bindr]; [|discriminate].
      pose proof (new_table_agree c m s G Hm En) as Hn.
      repeat match goal with
             | |- context [if ?b then _ else _] => destruct b
             | |- context [match ?o with Some _ => _ | None => _ end] => destruct o
             end; cbn [bindr]; try discriminate; intro H; injection H as <-; (apply (agree_frame (set_ta_send c (Some s))); [reflexivity|exact Hn]).
    + cbn [bindr].
      repeat match goal with
             | |- context [if ?b then _ else _] => destruct b
             | |- context [match ?o with Some _ => _ | None => _ end] => destruct o
             end; cbn [bindr]; try discriminate; intro H; injection H as <-; (apply (agree_frame c); [reflexivity|exact Ha]).
  - cbn [bindr].
    repeat match goal with
           | |- context [if ?b then _ else _] => destruct b
           | |- context [match ?o with Some _ => _ | None => _ end] => destruct o
           end; cbn [bindr]; try discriminate; intro H; injection H as <-; (apply (agree_frame c); [reflexivity|exact Ha]).
Qed.
