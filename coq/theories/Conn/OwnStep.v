(* The ownership invariant through the calls that touch it. *)
From MQ Require Import Base.Prelude Alloc.Alloc Alloc.SetSpec Alloc.AllocProofs Framing.Framing
                       Conn.Types Conn.TopicAlias Conn.ConnRecord Conn.Step Conn.Run Corr.ConnTrace Conn.Scope Conn.IdsQuota Conn.WfInv Conn.Own Conn.OwnFrame.

(* an identifier the application holds: in no awaited set and on no stored packet *)
Definition fresh (c : conn) (id : N) : Prop :=
  cnt id (c_puback c) (c_pubrec c) (c_pubcomp c) (c_suback c) (c_unsuback c) = 0 /\ store_has id (c_store c) = false.

Definition OR (g : cfg) (c : conn) (r : res (conn * list event)) : Prop :=
  match r with Ok (c', _) => OWN g c' /\ c_version c' = c_version c | Panic _ => True end.

Lemma OR_FR g c c1 r : OWN g c1 -> c_version c1 = c_version c -> FR c1 r -> OR g c r.
Proof.
  destruct r as [[c' e]|]; cbn [OR FR]; [|trivial]. intros HO Hv HF. split; [now apply (f8_own g c1)|].
  destruct HF as (_ & _ & _ & _ & _ & _ & _ & H). congruence.
Qed.
Lemma OR_post g c c1 p rel pre : OWN g c1 -> c_version c1 = c_version c -> OR g c (send_and_post c1 p rel pre).
Proof. intros HO Hv. apply (OR_FR g c c1); [exact HO|exact Hv|]. apply send_and_post_FR, f8_refl. Qed.

Lemma store_has_false id S : store_has id S = false -> forall q, In q S -> k_pid q <> id.
Proof.
  unfold store_has. intros H q Hq E. assert (existsb (fun p => k_pid p =? id) S = true); [|congruence].
  apply existsb_exists. exists q. split; [exact Hq|now apply N.eqb_eq].
Qed.
Lemma store_has_true id S : store_has id S = true -> exists q, In q S /\ k_pid q = id.
Proof. unfold store_has. intro H. apply existsb_exists in H as (q & Hq & E). exists q. split; [exact Hq|now apply N.eqb_eq]. Qed.

(* a guarded release of an identifier no stored packet carries *)
Lemma release_if_used_own g c id c' e :
  OWN g c -> (forall q, In q (c_store c) -> k_pid q <> id) -> release_if_used c id = Ok (c', e) ->
  OWN g c' /\ F8 (set_pid c' (c_pid c)) c.
Proof.
  intros HO Hn. unfold release_if_used, is_used, pm_is_used. destruct (a_is_used (c_pid c) id) eqn:Eu.
  - destruct (pm_release (c_pid c) id) as [a|] eqn:Er; cbn [bindr]; [|discriminate]. intro H; inversion H; subst c' e.
    split; [|unfold F8; conn_simpl; repeat split]. unfold OWN in *. conn_simpl.
    apply (own_release g _ _ _ _ _ _ _ _ HO id a Hn); [intros _; exact Er|congruence].
  - intro H; inversion H; subst. split; [exact HO|]. destruct c'; unfold F8; conn_simpl; repeat split.
Qed.
Lemma release_if_used_OR g c c0 id (k : evs -> evs) :
  OWN g c -> c_version c = c_version c0 -> (forall q, In q (c_store c) -> k_pid q <> id) ->
  OR g c0 (bindr (release_if_used c id) (fun '(c1, e) => Ok (c1, k e))).
Proof.
  intros HO Hv Hn. destruct (release_if_used c id) as [[c1 e]|] eqn:E; cbn [bindr OR]; [|exact I].
  destruct (release_if_used_own g c id c1 e HO Hn E) as [H1 H2]. split; [exact H1|].
  destruct H2 as (_ & _ & _ & _ & _ & _ & _ & H). conn_simpl. congruence.
Qed.

(* drain_release: guarded releases of identifiers no stored packet carries *)
Lemma drain_release_own g S PA PB PC SA UA V ids : forall a a' e,
  own8 g a S PA PB PC SA UA V -> (forall id, In id ids -> forall q, In q S -> k_pid q <> id) ->
  drain_release a ids = Ok (a', e) -> own8 g a' S PA PB PC SA UA V.
Proof.
  induction ids as [|i t IH]; intros a a' e HO Hn; cbn [drain_release].
  - intro H; inversion H; subst. exact HO.
  - unfold pm_is_used. destruct (a_is_used a i) eqn:Eu; [|apply IH; [exact HO|intros id Hi; apply Hn; now right]].
    destruct (pm_release a i) as [a1|] eqn:Er; cbn [bindr]; [|discriminate].
    destruct (drain_release a1 t) as [[a2 e2]|] eqn:Ed; cbn [bindr]; [|discriminate]. intro H; inversion H; subst.
    apply (IH a1 a' e2); [|intros id Hi; apply Hn; now right|exact Ed].
    apply (own_release g _ _ _ _ _ _ _ _ HO i a1); [apply Hn; now left|intros _; exact Er|congruence].
Qed.

(* the awaited sets are emptied *)
Lemma own_no_subs g a S PA PB PC SA UA V : own8 g a S PA PB PC SA UA V -> own8 g a S PA PB PC [] [] V.
Proof.
  intros [W D U K X (A1 & A2 & A3 & A4 & A5)]. constructor; auto.
  - intro id. specialize (X id). unfold cnt in *. cbn [mem s_mem b2n]. unfold mem in *. cbn. lia.
  - repeat split; try assumption; exact I.
Qed.
Lemma own_no_session g a S PA PB PC SA UA V : own8 g a S PA PB PC SA UA V -> own8 g a [] [] [] [] SA UA V.
Proof.
  intros [W D U K X (A1 & A2 & A3 & A4 & A5)]. constructor; [exact W|constructor|intros q []|intros q []| |].
  - intro id. specialize (X id). unfold cnt in *. cbn [mem s_mem b2n]. unfold mem in *. cbn. lia.
  - repeat split; try assumption; exact I.
Qed.
(* stored identifiers are awaited in one of the three publish sets, so in neither of the other two *)
Lemma stored_not_sub g a S PA PB PC SA UA V : own8 g a S PA PB PC SA UA V ->
  forall id, mem id SA = true \/ mem id UA = true -> forall q, In q S -> k_pid q <> id.
Proof.
  intros [W D U K X A] id Hid q Hq E. destruct (K q Hq) as [K1 _]. specialize (X id). unfold cnt in X. rewrite E in K1.
  unfold kset in K1. destruct (_ =? T_PUBACK); [|destruct (_ =? T_PUBREC)]; rewrite K1 in X;
    destruct Hid as [Hid|Hid]; rewrite Hid in X; cbn [b2n] in X; lia.
Qed.
Lemma mem_In x l : In x l -> mem x l = true.
Proof. unfold mem. induction l as [|y t IH]; cbn [In s_mem]; [tauto|]. intros [->|H]; [now rewrite N.eqb_refl|]. rewrite IH by exact H. apply orb_true_r. Qed.

Lemma subs_drained g c a1 l1 a2 l2 : OWN g c ->
  drain_release (c_pid c) (c_suback c) = Ok (a1, l1) -> drain_release a1 (c_unsuback c) = Ok (a2, l2) ->
  own8 g a2 (c_store c) (c_puback c) (c_pubrec c) (c_pubcomp c) [] [] (c_version c).
Proof.
  intros HO E1 E2. apply (own_no_subs g _ _ _ _ _ (c_suback c) (c_unsuback c)).
  assert (H1 := drain_release_own g _ _ _ _ _ _ _ _ _ _ _ HO (fun id Hi => stored_not_sub g _ _ _ _ _ _ _ _ HO id (or_introl (mem_In _ _ Hi))) E1).
  exact (drain_release_own g _ _ _ _ _ _ _ _ _ _ _ H1 (fun id Hi => stored_not_sub g _ _ _ _ _ _ _ _ HO id (or_intror (mem_In _ _ Hi))) E2).
Qed.
Lemma session_drained g a0 S PA PB PC SA UA V a1 l1 a2 l2 a3 l3 : own8 g a0 S PA PB PC SA UA V ->
  drain_release a0 PA = Ok (a1, l1) -> drain_release a1 PB = Ok (a2, l2) -> drain_release a2 PC = Ok (a3, l3) ->
  own8 g a3 [] [] [] [] SA UA V.
Proof.
  intros HO E1 E2 E3.
  assert (H0 := own_sub g _ _ _ _ _ _ _ _ HO [] (NoDup_nil _) (fun q (Hq : In q []) => match Hq with end)).
  assert (Hn : forall ids (id : N), In id ids -> forall q : pkt, In q [] -> k_pid q <> id) by (intros ids id _ q []).
  assert (H1 := drain_release_own g _ _ _ _ _ _ _ _ _ _ _ H0 (Hn _) E1).
  assert (H2 := drain_release_own g _ _ _ _ _ _ _ _ _ _ _ H1 (Hn _) E2).
  assert (H3 := drain_release_own g _ _ _ _ _ _ _ _ _ _ _ H2 (Hn _) E3).
  now apply own_no_session in H3.
Qed.

Lemma do_closed_OR g c : OWN g c -> OR g c (do_closed c).
Proof.
  intro HO. destruct (do_closed c) as [[c' e]|] eqn:E; cbn [OR]; [|exact I]. revert E. closed_walk.
  all: unfold OWN; conn_simpl; split; [|reflexivity].
  all: repeat match goal with H : negb _ = _ |- _ => clear H end.
  - match goal with
    | E1 : drain_release (c_pid c) (c_suback c) = Ok (?a1, _), E2 : drain_release ?a1 (c_unsuback c) = Ok (?a2, _),
      E3 : drain_release ?a2 (c_puback c) = Ok (?a3, _), E4 : drain_release ?a3 (c_pubrec c) = Ok (?a4, _),
      E5 : drain_release ?a4 (c_pubcomp c) = Ok (?a5, _) |- _ =>
        exact (session_drained g _ _ _ _ _ _ _ _ _ _ _ _ _ _ (subs_drained g c _ _ _ _ HO E1 E2) E3 E4 E5)
    end.
  - match goal with
    | E1 : drain_release (c_pid c) (c_suback c) = Ok (?a1, _), E2 : drain_release ?a1 (c_unsuback c) = Ok (?a2, _) |- _ =>
        exact (subs_drained g c _ _ _ _ HO E1 E2)
    end.
Qed.

(* the five insertions *)
Section Ins.
Variables (g : cfg) (a : alloc) (S : list pkt) (PA PB PC SA UA : list N) (V : version).
Hypothesis HO : own8 g a S PA PB PC SA UA V.
Variable id : N.
Hypothesis Hc : cnt id PA PB PC SA UA = 0.
Hypothesis Hr : 1 <= id <= g_idmax g.
Lemma own_ins_PA : own8 g a S (ins id PA) PB PC SA UA V. Proof. exact (own_ins g a S PA PB PC SA UA V HO id 0 Hc Hr). Qed.
Lemma own_ins_PB : own8 g a S PA (ins id PB) PC SA UA V. Proof. exact (own_ins g a S PA PB PC SA UA V HO id 1 Hc Hr). Qed.
Lemma own_ins_PC : own8 g a S PA PB (ins id PC) SA UA V. Proof. exact (own_ins g a S PA PB PC SA UA V HO id 2 Hc Hr). Qed.
Lemma own_ins_SA : own8 g a S PA PB PC (ins id SA) UA V. Proof. exact (own_ins g a S PA PB PC SA UA V HO id 3 Hc Hr). Qed.
Lemma own_ins_UA : own8 g a S PA PB PC SA (ins id UA) V. Proof. exact (own_ins g a S PA PB PC SA UA V HO id 4 Hc Hr). Qed.
End Ins.

Lemma is_used_range g c id : OWN g c -> is_used c id = true -> 1 <= id <= g_idmax g.
Proof. intros [W _ _ _ _ _] H. exact (used_range g _ id W H). Qed.

Lemma send_sub_unsub_OR g c p : OWN g c -> fresh c (k_pid p) -> OR g c (send_sub_unsub c p).
Proof.
  intros HO [Hc Hs]. unfold send_sub_unsub. cbv zeta. pose proof (store_has_false _ _ Hs) as Hn.
  destruct (_ && _); [apply (release_if_used_OR g c c (k_pid p) (fun e => too_large ++ e) HO eq_refl Hn)|].
  destruct (negb (status_eqb _ _)); [apply (release_if_used_OR g c c (k_pid p) (fun e => not_allowed ++ e) HO eq_refl Hn)|].
  destruct (is_used c (k_pid p)) eqn:Eu; cbn [negb]; [|cbn [OR]; split; [exact HO|reflexivity]].
  pose proof (is_used_range g c _ HO Eu) as Hr.
  destruct (_ =? T_SUBSCRIBE); apply OR_post; try reflexivity; unfold OWN in *; conn_simpl.
  - now apply own_ins_SA.
  - now apply own_ins_UA.
Qed.

(* storing: the identifier is in use and awaited in the set of the packet's kind after the insertion that follows *)
Lemma store_add_own_then_ins g c q c1 :
  OWN g c -> fresh c (k_pid q) -> is_used c (k_pid q) = true -> k_ver q = c_version c ->
  store_add c q = Ok c1 ->
  c1 = set_store c (c_store c ++ [q]).
Proof. unfold store_add. destruct (store_has _ _); [discriminate|]. intros _ _ _ _ H. now inversion H. Qed.

Lemma own_ins_snoc g a S PA PB PC SA UA V q :
  own8 g a S PA PB PC SA UA V -> cnt (k_pid q) PA PB PC SA UA = 0 -> store_has (k_pid q) S = false ->
  a_is_used a (k_pid q) = true -> k_ver q = V ->
  own8 g a (S ++ [q]) (if response_of q =? T_PUBACK then ins (k_pid q) PA else PA)
       (if response_of q =? T_PUBACK then PB else if response_of q =? T_PUBREC then ins (k_pid q) PB else PB)
       (if response_of q =? T_PUBACK then PC else if response_of q =? T_PUBREC then PC else ins (k_pid q) PC) SA UA V.
Proof.
  intros HO Hc Hs Hu Hv. pose proof (used_range g a _ (o_wf _ _ _ _ _ _ _ _ _ HO) Hu) as Hr.
  destruct (response_of q =? T_PUBACK) eqn:E1; [|destruct (response_of q =? T_PUBREC) eqn:E2].
  - apply own_snoc; [now apply own_ins_PA|exact Hu|exact Hs| |exact Hv]. unfold kset. rewrite E1, mem_ins, N.eqb_refl. reflexivity.
  - apply own_snoc; [now apply own_ins_PB|exact Hu|exact Hs| |exact Hv]. unfold kset. rewrite E1, E2, mem_ins, N.eqb_refl. reflexivity.
  - apply own_snoc; [now apply own_ins_PC|exact Hu|exact Hs| |exact Hv]. unfold kset. rewrite E1, E2, mem_ins, N.eqb_refl. reflexivity.
Qed.

Lemma send_pubrel_OR g c p : OWN g c -> fresh c (k_pid p) -> k_ver p = c_version c -> k_type p = T_PUBREL ->
  OR g c (send_pubrel c p).
Proof.
  intros HO [Hc Hs] Hv Ht. unfold send_pubrel. cbv zeta.
  destruct (_ && _); [cbn [OR]; split; [exact HO|reflexivity]|].
  destruct (_ && _); [cbn [OR]; split; [exact HO|reflexivity]|].
  destruct (is_used c (k_pid p)) eqn:Eu; cbn [negb]; [|cbn [OR]; split; [exact HO|reflexivity]].
  pose proof (is_used_range g c _ HO Eu) as Hr.
  assert (Hresp : response_of p = T_PUBCOMP) by (unfold response_of; rewrite Ht; reflexivity).
  destruct (c_need_store c).
  - unfold store_add. rewrite Hs. cbn [bindr].
    assert (H : OWN g (set_pubcomp (set_store c (c_store c ++ [p])) (ins (k_pid p) (c_pubcomp (set_store c (c_store c ++ [p])))))).
    { unfold OWN in *. conn_simpl. pose proof (own_ins_snoc g _ _ _ _ _ _ _ _ p HO Hc Hs Eu Hv) as H. rewrite Hresp in H. exact H. }
    destruct (status_eqb _ _); [apply OR_post; [exact H|reflexivity]|cbn [OR]; split; [exact H|reflexivity]].
  - cbn [bindr].
    assert (H : OWN g (set_pubcomp c (ins (k_pid p) (c_pubcomp c)))) by (unfold OWN in *; conn_simpl; now apply own_ins_PC).
    destruct (status_eqb _ _); [apply OR_post; [exact H|reflexivity]|cbn [OR]; split; [exact H|reflexivity]].
Qed.

(* what the insertion after part 1 of a PUBLISH does, stored or not *)
Lemma publish_ins_own g c p q : OWN g c -> fresh c (k_pid p) -> is_used c (k_pid p) = true ->
  k_type q = T_PUBLISH -> k_qos q = k_qos p -> k_pid q = k_pid p -> k_ver q = c_version c -> 1 <= k_qos p <= 2 ->
  OWN g (let c1 := set_store c (c_store c ++ [q]) in
         if k_qos p =? 2 then set_pubrec c1 (ins (k_pid p) (c_pubrec c1)) else set_puback c1 (ins (k_pid p) (c_puback c1))) /\
  OWN g (if k_qos p =? 2 then set_pubrec c (ins (k_pid p) (c_pubrec c)) else set_puback c (ins (k_pid p) (c_puback c))).
Proof.
  intros HO [Hc Hs] Eu Ht Hq Hp Hv Hr. pose proof (is_used_range g c _ HO Eu) as Hrg. cbv zeta. unfold is_used, pm_is_used in Eu.
  rewrite <- Hp in Hc, Hs, Eu.
  pose proof (own_ins_snoc g _ _ _ _ _ _ _ _ q HO Hc Hs Eu Hv) as H. rewrite Hp in *.
  assert (Hresp : response_of q = if k_qos p =? 1 then T_PUBACK else T_PUBREC) by (unfold response_of; rewrite Ht, Hq; reflexivity).
  rewrite Hresp in H. unfold OWN in *.
  destruct (N.eqb_spec (k_qos p) 2) as [E2|E2].
  - rewrite E2 in H. conn_simpl. split; [exact H|now apply own_ins_PB].
  - assert (E1 : k_qos p = 1) by lia. rewrite E1 in H. conn_simpl. split; [exact H|now apply own_ins_PA].
Qed.

Lemma send_publish_v311_OR g c p :
  OWN g c -> (k_qos p =? 0 = false -> fresh c (k_pid p)) -> k_ver p = c_version c -> k_type p = T_PUBLISH -> k_qos p <= 2 ->
  OR g c (send_publish_v311 c p).
Proof.
  intros HO Hf Hv Ht Hq2. unfold send_publish_v311. cbv zeta.
  destruct (N.eqb_spec (k_qos p) 0) as [Eq|Eq]; cbn [negb].
  { destruct (negb _); [cbn [OR]; split; [exact HO|reflexivity]|apply OR_post; [exact HO|reflexivity]]. }
  destruct (Hf eq_refl) as [Hc Hs]. pose proof (store_has_false _ _ Hs) as Hn.
  destruct (_ && _); [apply (release_if_used_OR g c c (k_pid p) (fun e => not_allowed ++ e) HO eq_refl Hn)|].
  destruct (is_used c (k_pid p)) eqn:Eu; cbn [negb]; [|cbn [OR]; split; [exact HO|reflexivity]].
  destruct (publish_ins_own g c p (set_dup p true) HO (conj Hc Hs) Eu Ht eq_refl eq_refl Hv ltac:(lia)) as [H1 H2]. cbv zeta in H1.
  destruct (can_store_now c).
  - unfold store_add. change (k_pid (set_dup p true)) with (k_pid p). rewrite Hs. cbn [bindr].
    destruct (k_qos p =? 2); (destruct (status_eqb _ _); [apply OR_post; [exact H1|reflexivity]|cbn [OR]; split; [exact H1|reflexivity]]).
  - cbn [bindr].
    destruct (k_qos p =? 2); (destruct (status_eqb _ _); [apply OR_post; [exact H2|reflexivity]|cbn [OR]; split; [exact H2|reflexivity]]).
Qed.

(* ---- v5.0 PUBLISH ---- *)
Definition refusable (c : conn) (id : N) : Prop :=
  id = 0 \/ forall q, In q (c_store c) -> k_pid q = id -> (k_type q =? T_PUBLISH) = true.

Lemma refuse_publish_OR g c c0 id err pre :
  OWN g c -> c_version c = c_version c0 -> refusable c id -> OR g c0 (refuse_publish c id err pre).
Proof.
  intros HO Hv Hr. unfold refuse_publish.
  destruct (N.eqb_spec id 0) as [E0|E0]; cbn [negb andb]; [cbn [OR]; split; assumption|].
  destruct Hr as [Hr|Hr]; [contradiction|].
  destruct (is_used c id) eqn:Eu; [|cbn [OR]; split; assumption].
  destruct (pm_release (c_pid c) id) as [a|] eqn:Er; cbn [bindr OR]; [|exact I]. split; [|conn_simpl_goal; exact Hv].
  unfold OWN in *. conn_simpl_goal.
  pose proof (o_nodup _ _ _ _ _ _ _ _ _ HO) as Hd.
  pose proof (erase_publish_l_gone id (c_store c) Hd Hr) as Hg.
  assert (H1 := own_sub g _ _ _ _ _ _ _ _ HO _ (erase_publish_l_nodup id _ Hd) (erase_publish_l_sub id _)).
  assert (H2 := own_del_PA g _ _ _ _ _ _ _ _ H1 id (fun q Hq _ => Hg q Hq)).
  assert (H3 := own_del_PB g _ _ _ _ _ _ _ _ H2 id (fun q Hq _ => Hg q Hq)).
  apply (own_release g _ _ _ _ _ _ _ _ H3 id a Hg); [intros _; exact Er|].
  unfold is_used, pm_is_used in Eu. congruence.
Qed.

Lemma validate_f8 c a : F8 (snd (validate_topic_alias c a)) c.
Proof.
  unfold validate_topic_alias. destruct a as [x|]; [|apply f8_refl]. destruct (negb (validate_topic_alias_range c x)); [apply f8_refl|].
  destruct (c_ta_send c) as [s|]; [|apply f8_refl]. destruct (tas_get s x) as [[t|] s']; cbn [snd]; [unfold F8; conn_simpl; repeat split|apply f8_refl].
Qed.

Lemma stored_form_fields1 g p : let q := set_dup (remove_topic_alias g p) true in
  k_type q = k_type p /\ k_qos q = k_qos p /\ k_pid q = k_pid p /\ k_ver q = k_ver p.
Proof. cbv zeta. repeat split; reflexivity. Qed.
Lemma stored_form_fields2 g p t : let q := set_dup (remove_topic_alias_add_topic g p t) true in
  k_type q = k_type p /\ k_qos q = k_qos p /\ k_pid q = k_pid p /\ k_ver q = k_ver p.
Proof. cbv zeta. repeat split; reflexivity. Qed.

Definition OW5 (g : cfg) (c : conn) (id : N) (r : res (conn * option N * bool * bool * evs)) : Prop :=
  match r with
  | Ok (c1, _, _, stop, _) => OWN g c1 /\ c_version c1 = c_version c /\ (stop = false -> refusable c1 id)
  | Panic _ => True
  end.

Lemma fresh_f8 c1 c id : F8 c1 c -> fresh c id -> fresh c1 id.
Proof. unfold F8, fresh. intros (H1 & H2 & H3 & H4 & H5 & H6 & H7 & H8). now rewrite H2, H3, H4, H5, H6, H7. Qed.

Lemma part1_own g c p (qos_pos := negb (k_qos p =? 0)) (id := k_pid p) :
  OWN g c -> (if k_qos p =? 0 then k_pid p = 0 else fresh c (k_pid p)) -> k_ver p = c_version c -> k_type p = T_PUBLISH -> k_qos p <= 2 ->
  OW5 g c id
    (if qos_pos then
      if negb (status_eqb (c_status c) Connected) && negb (can_store_now c) then
        bindr (release_if_used c id) (fun '(c, e) => Ok (c, None, false, true, not_allowed ++ e))
      else if negb (is_used c id) then Ok (c, None, false, true, [EError E_PID_INVALID])
      else
        bindr
          (if can_store_now c then
             if topic_empty p then
               let '(topt, c1) := validate_topic_alias c (k_alias p) in
               match topt with
               | None => bindr (release_if_used c1 id) (fun '(c2, e) => Ok (c2, None, false, true, not_allowed ++ e))
               | Some t =>
                 bindr (store_add c1 (set_dup (remove_topic_alias_add_topic g p t) true)) (fun c2 =>
                   Ok (c2, None, true, false, []))
               end
             else
               bindr (store_add c (set_dup (remove_topic_alias g p) true)) (fun c2 => Ok (c2, None, false, false, []))
           else Ok (c, Some id, false, false, []))
          (fun '(c, rel, validated, stop, e) =>
             if stop then Ok (c, rel, validated, stop, e) else
             let c := if k_qos p =? 2 then set_pubrec c (ins id (c_pubrec c)) else set_puback c (ins id (c_puback c)) in
             Ok (c, rel, validated, false, e))
    else if negb (status_eqb (c_status c) Connected) then Ok (c, None, false, true, not_allowed)
    else Ok (c, None, false, false, [])).
Proof.
  intros HO Hf Hv Ht Hq2. subst qos_pos id.
  destruct (N.eqb_spec (k_qos p) 0) as [Eq|Eq]; cbn [negb].
  { destruct (negb _); cbn [OW5]; (split; [exact HO|split; [reflexivity|intros _; now left]]). }
  destruct Hf as [Hc Hs]. pose proof (store_has_false _ _ Hs) as Hn.
  assert (Hrel : forall c1, F8 c1 c -> OW5 g c (k_pid p) (bindr (release_if_used c1 (k_pid p)) (fun '(c2, e) => Ok (c2, None, false, true, not_allowed ++ e)))).
  { intros c1 H1. pose proof (f8_own g c c1 H1 HO) as HO1.
    assert (Hn1 : forall q, In q (c_store c1) -> k_pid q <> k_pid p) by (destruct H1 as (_ & H1 & _); now rewrite H1).
    destruct (release_if_used c1 (k_pid p)) as [[c2 e]|] eqn:E; cbn [bindr OW5]; [|exact I].
    destruct (release_if_used_own g c1 _ c2 e HO1 Hn1 E) as [R1 R2]. split; [exact R1|]. split; [|discriminate].
    destruct R2 as (_ & _ & _ & _ & _ & _ & _ & R2). destruct H1 as (_ & _ & _ & _ & _ & _ & _ & H1). conn_simpl. congruence. }
  destruct (_ && _); [apply Hrel, f8_refl|].
  destruct (is_used c (k_pid p)) eqn:Eu; cbn [negb]; [|cbn [OW5]; split; [exact HO|split; [reflexivity|discriminate]]].
  (* the insertion, after storing q or without storing *)
  assert (Hst : forall c1 q, F8 c1 c -> k_type q = k_type p -> k_qos q = k_qos p -> k_pid q = k_pid p -> k_ver q = k_ver p ->
            forall rel val e, OW5 g c (k_pid p)
              (bindr (bindr (store_add c1 q) (fun c2 => Ok (c2, rel, val, false, e)))
                 (fun '(c, rel, validated, stop, e) =>
                    if stop then Ok (c, rel, validated, stop, e) else
                    let c := if k_qos p =? 2 then set_pubrec c (ins (k_pid p) (c_pubrec c)) else set_puback c (ins (k_pid p) (c_puback c)) in
                    Ok (c, rel, validated, false, e)))).
  { intros c1 q H1 Q1 Q2 Q3 Q4 rel val e. pose proof (f8_own g c c1 H1 HO) as HO1. pose proof (fresh_f8 c1 c _ H1 (conj Hc Hs)) as [Hc1 Hs1].
    assert (Eu1 : is_used c1 (k_pid p) = true) by (unfold is_used in *; destruct H1 as (H1 & _); now rewrite H1).
    assert (Hv1 : c_version c1 = c_version c) by (now destruct H1 as (_ & _ & _ & _ & _ & _ & _ & H1)).
    unfold store_add. rewrite Q3, Hs1. cbn [bindr]. cbv zeta.
    destruct (publish_ins_own g c1 p q HO1 (conj Hc1 Hs1) Eu1 ltac:(congruence) Q2 Q3 ltac:(congruence) ltac:(lia)) as [P1 _]. cbv zeta in P1.
    assert (Hrf : forall c9, c_store c9 = c_store c1 ++ [q] -> refusable c9 (k_pid p)).
    { intros c9 E9. right. intros q0 Hq0 Hid. rewrite E9 in Hq0. apply in_app_iff in Hq0 as [Hq0|[<-|[]]].
      - exfalso. exact (store_has_false _ _ Hs1 q0 Hq0 Hid).
      - rewrite Q1, Ht. reflexivity. }
    destruct (k_qos p =? 2); cbn [OW5]; (split; [exact P1|split; [conn_simpl_goal; exact Hv1|intros _; apply Hrf; reflexivity]]). }
  destruct (can_store_now c).
  2:{ cbn [bindr]. cbv zeta. destruct (publish_ins_own g c p p HO (conj Hc Hs) Eu Ht eq_refl eq_refl Hv ltac:(lia)) as [_ P2].
      assert (Hrf : forall c9, c_store c9 = c_store c -> refusable c9 (k_pid p)).
      { intros c9 E9. right. intros q0 Hq0 Hid. rewrite E9 in Hq0. exfalso. exact (Hn q0 Hq0 Hid). }
      destruct (k_qos p =? 2); cbn [OW5]; (split; [exact P2|split; [reflexivity|intros _; apply Hrf; reflexivity]]). }
  destruct (topic_empty p).
  2:{ destruct (stored_form_fields1 g p) as (Q1 & Q2 & Q3 & Q4). apply (Hst c _ (f8_refl c) Q1 Q2 Q3 Q4). }
  pose proof (validate_f8 c (k_alias p)) as Hval. destruct (validate_topic_alias c (k_alias p)) as [topt c1]. cbn [snd] in Hval.
  destruct topt as [t|].
  - destruct (stored_form_fields2 g p t) as (Q1 & Q2 & Q3 & Q4). apply (Hst c1 _ Hval Q1 Q2 Q3 Q4).
  - pose proof (Hrel c1 Hval) as H. destruct (release_if_used c1 (k_pid p)) as [[c2 e]|]; cbn [bindr OW5] in *; [exact H|exact I].
Qed.

Definition OW4 (g : cfg) (c : conn) (r : res (conn * pkt * bool * evs)) : Prop :=
  match r with Ok (c2, _, _, _) => OWN g c2 /\ c_version c2 = c_version c | Panic _ => True end.

Lemma refusable_f8 c1 c id : F8 c1 c -> refusable c id -> refusable c1 id.
Proof. unfold refusable. intros (_ & H & _) [E|Hr]; [now left|right]. now rewrite H. Qed.

Lemma part2_own g c p (validated : bool) (id := k_pid p) :
  OWN g c -> refusable c id ->
  OW4 g c
    (if topic_empty p then
      if validated then Ok (c, p, false, [])
      else
        let '(topt, c1) := validate_topic_alias c (k_alias p) in
        match topt with
        | Some _ => Ok (c1, p, false, [])
        | None => bindr (refuse_publish c1 id E_NOT_ALLOWED_TO_SEND []) (fun '(c2, e) => Ok (c2, p, true, e))
        end
    else
      match k_alias p with
      | Some a =>
        if validate_topic_alias_range c a then
          if status_eqb (c_status c) Connected then
            match c_ta_send c with
            | Some s => bindr (tas_insert s (k_topic p) a) (fun s' => Ok (set_ta_send c (Some s'), p, false, []))
            | None => Ok (c, p, false, [])
            end
          else Ok (c, p, false, [])
        else bindr (refuse_publish c id E_NOT_ALLOWED_TO_SEND []) (fun '(c2, e) => Ok (c2, p, true, e))
      | None =>
        if status_eqb (c_status c) Connected then
          if c_auto_map c then
            match c_ta_send c with
            | Some s =>
              match tas_find_by_topic s (k_topic p) with
              | Some a => let q := remove_topic_add_topic_alias g p a in
                          Ok (c, (if k_size q <=? c_mps_send c then q else p), false, [])
              | None =>
                bindr (tas_lru s) (fun a =>
                  let q := add_topic_alias g p a in
                  if k_size q <=? c_mps_send c then
                    bindr (tas_insert s (k_topic p) a) (fun s' => Ok (set_ta_send c (Some s'), q, false, []))
                  else Ok (c, p, false, []))
              end
            | None => Ok (c, p, false, [])
            end
          else if c_auto_replace c then
            match c_ta_send c with
            | Some s =>
              match tas_find_by_topic s (k_topic p) with
              | Some a => let q := remove_topic_add_topic_alias g p a in
                          Ok (c, (if k_size q <=? c_mps_send c then q else p), false, [])
              | None => Ok (c, p, false, [])
              end
            | None => Ok (c, p, false, [])
            end
          else Ok (c, p, false, [])
        else Ok (c, p, false, [])
      end).
Proof.
  intros HO Hr. subst id.
  assert (Hsame : forall (q : pkt) (st : bool) (e : evs), OW4 g c (Ok (c, q, st, e))) by (intros; cbn [OW4]; split; [exact HO|reflexivity]).
  assert (Hta : forall s9 (q : pkt) (st : bool) (e : evs), OW4 g c (Ok (set_ta_send c (Some s9), q, st, e))).
  { intros. cbn [OW4]. split; [|reflexivity]. apply (f8_own g c); [unfold F8; conn_simpl; repeat split|exact HO]. }
  assert (Href : forall c1, F8 c1 c -> OW4 g c (bindr (refuse_publish c1 (k_pid p) E_NOT_ALLOWED_TO_SEND []) (fun '(c2, e) => Ok (c2, p, true, e)))).
  { intros c1 H1. pose proof (refuse_publish_OR g c1 c (k_pid p) E_NOT_ALLOWED_TO_SEND [] (f8_own g c c1 H1 HO)
                                ltac:(now destruct H1 as (_ & _ & _ & _ & _ & _ & _ & H1)) (refusable_f8 c1 c _ H1 Hr)) as H.
    destruct (refuse_publish _ _ _ _) as [[c2 e]|]; cbn [bindr OW4 OR] in *; [exact H|exact I]. }
  destruct (topic_empty p).
  - destruct validated; [apply Hsame|].
    pose proof (validate_f8 c (k_alias p)) as Hval. destruct (validate_topic_alias c (k_alias p)) as [topt c1]. cbn [snd] in Hval.
    destruct topt as [t|]; [|now apply Href].
    cbn [OW4]. split; [now apply (f8_own g c)|now destruct Hval as (_ & _ & _ & _ & _ & _ & _ & H1)].
  - destruct (k_alias p) as [a|].
    + destruct (validate_topic_alias_range c a); [|apply Href, f8_refl].
      destruct (status_eqb _ _); [|apply Hsame]. destruct (c_ta_send c) as [s|]; [|apply Hsame].
      destruct (tas_insert s (k_topic p) a) as [s'|]; cbn [bindr]; [apply Hta|exact I].
    + destruct (status_eqb _ _); [|apply Hsame].
      destruct (c_auto_map c).
      * destruct (c_ta_send c) as [s|]; [|apply Hsame]. destruct (tas_find_by_topic s (k_topic p)) as [a|]; [cbv zeta; apply Hsame|].
        destruct (tas_lru s) as [a|]; cbn [bindr]; [|exact I]. cbv zeta. destruct (_ <=? _); [|apply Hsame].
        destruct (tas_insert s (k_topic p) a) as [s'|]; cbn [bindr]; [apply Hta|exact I].
      * destruct (c_auto_replace c); [|apply Hsame]. destruct (c_ta_send c) as [s|]; [|apply Hsame].
        destruct (tas_find_by_topic s (k_topic p)) as [a|]; [cbv zeta|]; apply Hsame.
Qed.

Lemma send_publish_v5_OR g c p :
  OWN g c -> (if k_qos p =? 0 then k_pid p = 0 else fresh c (k_pid p)) -> k_ver p = c_version c -> k_type p = T_PUBLISH -> k_qos p <= 2 ->
  OR g c (send_publish_v5 g c p).
Proof.
  intros HO Hf Hv Ht Hq2. unfold send_publish_v5. cbv zeta.
  destruct (negb (size_ok c p)).
  { destruct (N.eqb_spec (k_pid p) 0) as [E0|E0]; cbn [negb]; [cbn [OR]; split; [exact HO|reflexivity]|].
    apply (release_if_used_OR g c c (k_pid p) (fun e => too_large ++ e) HO eq_refl).
    destruct (k_qos p =? 0); [contradiction|]. destruct Hf as [_ Hs]. now apply store_has_false. }
  pose proof (part1_own g c p HO Hf Hv Ht Hq2) as H1. cbv zeta in H1.
  match goal with |- OR _ _ (bindr ?P1 _) => destruct P1 as [[[[[c1 rel] val] stop] e1]|]; cbn [bindr]; [|exact I] end.
  cbn [OW5] in H1. destruct H1 as (O1 & V1 & R1).
  destruct stop; [cbn [OR]; split; assumption|]. specialize (R1 eq_refl).
  match goal with |- OR _ _ (if ?b then _ else _) => destruct b end.
  { now apply refuse_publish_OR. }
  pose proof (part2_own g c1 p val O1 R1) as H2. cbv zeta in H2.
  match goal with |- OR _ _ (bindr ?P2 _) => destruct P2 as [[[[c2 q] stop2] e2]|]; cbn [bindr]; [|exact I] end.
  cbn [OW4] in H2. destruct H2 as [O2 V2].
  destruct stop2; [cbn [OR]; split; [exact O2|congruence]|].
  match goal with |- context [if ?b then set_send_count c2 (c_send_count c2 + 1) else c2] =>
    set (c3 := if b then set_send_count c2 (c_send_count c2 + 1) else c2) end.
  assert (H3 : F8 c3 c2) by (subst c3; destruct (_ && _); [unfold F8; conn_simpl; repeat split|apply f8_refl]).
  assert (O3 := f8_own g c2 c3 H3 O2).
  assert (V3 : c_version c3 = c_version c) by (destruct H3 as (_ & _ & _ & _ & _ & _ & _ & H3); congruence).
  destruct (status_eqb (c_status c3) Connected); [now apply OR_post|cbn [OR]; split; assumption].
Qed.

(* ---- acknowledgements ---- *)
Lemma OR_fin g c0 c1 (k : evs -> evs) : OWN g c1 -> c_version c1 = c_version c0 ->
  OR g c0 (let '(c, e2) := refresh_pingreq_recv c1 in Ok (c, k e2)).
Proof.
  intros HO Hv. pose proof (refresh_f8 c1) as H. destruct (refresh_pingreq_recv c1) as [c2 e2]. cbn [fst OR] in *.
  split; [now apply (f8_own g c1)|]. destruct H as (_ & _ & _ & _ & _ & _ & _ & H). congruence.
Qed.

Lemma cnt_del_PA g a S PA PB PC SA UA V id : own8 g a S PA PB PC SA UA V -> mem id PA = true -> cnt id (del id PA) PB PC SA UA = 0.
Proof.
  intros [W D U K X (A1 & _)] Hm. specialize (X id). unfold cnt in *. rewrite (mem_del g _ _ _ A1), Hm in *. rewrite N.eqb_refl. cbn in *. lia.
Qed.
Lemma cnt_del_PB g a S PA PB PC SA UA V id : own8 g a S PA PB PC SA UA V -> mem id PB = true -> cnt id PA (del id PB) PC SA UA = 0.
Proof.
  intros [W D U K X (_ & A2 & _)] Hm. specialize (X id). unfold cnt in *. rewrite (mem_del g _ _ _ A2), Hm in *. rewrite N.eqb_refl. cbn in *. lia.
Qed.
Lemma cnt_del_PC g a S PA PB PC SA UA V id : own8 g a S PA PB PC SA UA V -> mem id PC = true -> cnt id PA PB (del id PC) SA UA = 0.
Proof.
  intros [W D U K X (_ & _ & A3 & _)] Hm. specialize (X id). unfold cnt in *. rewrite (mem_del g _ _ _ A3), Hm in *. rewrite N.eqb_refl. cbn in *. lia.
Qed.

Lemma store_has_gone id S : (forall q, In q S -> k_pid q <> id) -> store_has id S = false.
Proof.
  intro H. unfold store_has. destruct (existsb _ S) eqn:E; [|reflexivity]. apply existsb_exists in E as (q & Hq & E). apply N.eqb_eq in E. now destruct (H q Hq).
Qed.

Lemma ack_PA_own g c id : OWN g c -> mem id (c_puback c) = true ->
  let c1 := store_erase (set_puback c (del id (c_puback c))) (c_version c) T_PUBACK id in
  OWN g c1 /\ fresh c1 id /\ c_version c1 = c_version c.
Proof.
  intros HO Hm. cbv zeta. unfold store_erase, OWN, fresh in *. conn_simpl_goal.
  pose proof (o_nodup _ _ _ _ _ _ _ _ _ HO) as Hd.
  pose proof (erase_l_gone (c_version c) T_PUBACK id (c_store c) Hd
               (own_entry_kind g _ _ _ _ _ _ _ _ id T_PUBACK HO Hm (or_introl eq_refl))) as Hg.
  assert (H1 := own_sub g _ _ _ _ _ _ _ _ HO _ (erase_l_nodup (c_version c) T_PUBACK id _ Hd) (erase_l_sub _ _ _ _)).
  split; [exact (own_del_PA g _ _ _ _ _ _ _ _ H1 id (fun q Hq _ => Hg q Hq))|].
  split; [|reflexivity]. split; [exact (cnt_del_PA g _ _ _ _ _ _ _ _ id HO Hm)|now apply store_has_gone].
Qed.
Lemma ack_PB_own g c id : OWN g c -> mem id (c_pubrec c) = true ->
  let c1 := store_erase (set_pubrec c (del id (c_pubrec c))) (c_version c) T_PUBREC id in
  OWN g c1 /\ fresh c1 id /\ c_version c1 = c_version c.
Proof.
  intros HO Hm. cbv zeta. unfold store_erase, OWN, fresh in *. conn_simpl_goal.
  pose proof (o_nodup _ _ _ _ _ _ _ _ _ HO) as Hd.
  pose proof (erase_l_gone (c_version c) T_PUBREC id (c_store c) Hd
               (own_entry_kind g _ _ _ _ _ _ _ _ id T_PUBREC HO Hm (or_intror (or_introl eq_refl)))) as Hg.
  assert (H1 := own_sub g _ _ _ _ _ _ _ _ HO _ (erase_l_nodup (c_version c) T_PUBREC id _ Hd) (erase_l_sub _ _ _ _)).
  split; [exact (own_del_PB g _ _ _ _ _ _ _ _ H1 id (fun q Hq _ => Hg q Hq))|].
  split; [|reflexivity]. split; [exact (cnt_del_PB g _ _ _ _ _ _ _ _ id HO Hm)|now apply store_has_gone].
Qed.
Lemma ack_PC_own g c id : OWN g c -> mem id (c_pubcomp c) = true ->
  let c1 := store_erase (set_pubcomp c (del id (c_pubcomp c))) (c_version c) T_PUBCOMP id in
  OWN g c1 /\ fresh c1 id /\ c_version c1 = c_version c.
Proof.
  intros HO Hm. cbv zeta. unfold store_erase, OWN, fresh in *. conn_simpl_goal.
  pose proof (o_nodup _ _ _ _ _ _ _ _ _ HO) as Hd.
  pose proof (erase_l_gone (c_version c) T_PUBCOMP id (c_store c) Hd
               (own_entry_kind g _ _ _ _ _ _ _ _ id T_PUBCOMP HO Hm (or_intror (or_intror eq_refl)))) as Hg.
  assert (H1 := own_sub g _ _ _ _ _ _ _ _ HO _ (erase_l_nodup (c_version c) T_PUBCOMP id _ Hd) (erase_l_sub _ _ _ _)).
  split; [exact (own_del_PC g _ _ _ _ _ _ _ _ H1 id (fun q Hq _ _ => Hg q Hq))|].
  split; [|reflexivity]. split; [exact (cnt_del_PC g _ _ _ _ _ _ _ _ id HO Hm)|now apply store_has_gone].
Qed.

Lemma handle_error_OR g c v e : OWN g c -> OR g c (handle_error c v e).
Proof. intro HO. apply (OR_FR g c c); [exact HO|reflexivity|apply handle_error_FR]. Qed.

Lemma release_fin_OR g c0 c1 id (f : conn -> conn) (k : evs -> evs -> evs) :
  OWN g c1 -> c_version c1 = c_version c0 -> fresh c1 id -> (forall x, F8 (f x) x) ->
  OR g c0 (bindr (release_if_used c1 id) (fun '(c, e1) => let '(c', e2) := refresh_pingreq_recv (f c) in Ok (c', k e1 e2))).
Proof.
  intros HO Hv [_ Hs] Hf. destruct (release_if_used c1 id) as [[c2 e]|] eqn:E; cbn [bindr]; [|exact I].
  destruct (release_if_used_own g c1 id c2 e HO (store_has_false _ _ Hs) E) as [H1 H2].
  apply (OR_fin g c0 (f c2) (k e)); [apply (f8_own g c2); [apply Hf|exact H1]|].
  destruct (Hf c2) as (_ & _ & _ & _ & _ & _ & _ & H3). destruct H2 as (_ & _ & _ & _ & _ & _ & _ & H2). conn_simpl. congruence.
Qed.

Lemma dec_f8 c : F8 (match c_send_max c with Some _ => set_send_count c (c_send_count c - 1) | None => c end) c.
Proof. destruct (c_send_max c); [unfold F8; conn_simpl; repeat split|apply f8_refl]. Qed.

Lemma recv_ack_OR g c t pr : OWN g c -> OR g c (recv_ack g c (c_version c) t pr).
Proof.
  intro HO. unfold recv_ack. destruct pr as [p|e]; [|now apply handle_error_OR]. cbv zeta.
  destruct (t =? T_PUBACK).
  { destruct (mem (k_pid p) (c_puback c)) eqn:Hm; [|now apply handle_error_OR].
    destruct (ack_PA_own g c (k_pid p) HO Hm) as (H1 & H2 & H3). cbv zeta in H1, H2, H3.
    apply (release_fin_OR g c _ (k_pid p)
             (fun x => if version_eqb (c_version c) V50 then match c_send_max x with Some _ => set_send_count x (c_send_count x - 1) | None => x end else x)
             (fun e1 e2 => e1 ++ e2 ++ [ENotify p]) H1 H3 H2).
    intro x. destruct (version_eqb _ _); [apply dec_f8|apply f8_refl]. }
  destruct (t =? T_PUBREC).
  { destruct (mem (k_pid p) (c_pubrec c)) eqn:Hm; [|now apply handle_error_OR].
    destruct (ack_PB_own g c (k_pid p) HO Hm) as (H1 & H2 & H3). cbv zeta in H1, H2, H3.
    match goal with |- OR _ _ (if ?b then _ else _) => destruct b end.
    - match goal with |- OR _ _ (bindr (if ?b then _ else _) _) => destruct b end.
      + set (c1 := store_erase _ _ _ _) in *.
        pose proof (send_pubrel_OR g c1 (ack_pkt g T_PUBREL (c_version c) (k_pid p) None) H1 H2 (eq_sym H3) eq_refl) as H.
        destruct (send_pubrel c1 _) as [[c2 e1]|]; cbn [bindr OR] in *; [|exact I]. destruct H as [P1 P2].
        apply (OR_fin g c c2 (fun e2 => e1 ++ e2 ++ [ENotify p]) P1). congruence.
      + cbn [bindr]. apply (OR_fin g c _ (fun e2 => [] ++ e2 ++ [ENotify p]) H1 H3).
    - apply (release_fin_OR g c _ (k_pid p)
               (fun x => match c_send_max x with Some _ => set_send_count x (c_send_count x - 1) | None => x end)
               (fun e1 e2 => e1 ++ e2 ++ [ENotify p]) H1 H3 H2). intro x. apply dec_f8. }
  destruct (t =? T_PUBCOMP).
  { destruct (mem (k_pid p) (c_pubcomp c)) eqn:Hm; [|now apply handle_error_OR].
    destruct (ack_PC_own g c (k_pid p) HO Hm) as (H1 & H2 & H3). cbv zeta in H1, H2, H3.
    apply (release_fin_OR g c _ (k_pid p)
             (fun x => if version_eqb (c_version c) V50 then match c_send_max x with Some _ => set_send_count x (c_send_count x - 1) | None => x end else x)
             (fun e1 e2 => e1 ++ e2 ++ [ENotify p]) H1 H3 H2).
    intro x. destruct (version_eqb _ _); [apply dec_f8|apply f8_refl]. }
  destruct (t =? T_SUBACK).
  { destruct (mem (k_pid p) (c_suback c)) eqn:Hm; [|now apply handle_error_OR].
    pose proof (stored_not_sub g _ _ _ _ _ _ _ _ HO (k_pid p) (or_introl Hm)) as Hn.
    assert (H1 : OWN g (set_suback c (del (k_pid p) (c_suback c)))) by (unfold OWN in *; conn_simpl_goal; now apply own_del_SA).
    destruct (release_if_used _ _) as [[c2 e1]|] eqn:E; cbn [bindr]; [|exact I].
    destruct (release_if_used_own g _ _ c2 e1 H1 Hn E) as [P1 P2].
    apply (OR_fin g c c2 (fun e2 => e1 ++ e2 ++ [ENotify p]) P1). destruct P2 as (_ & _ & _ & _ & _ & _ & _ & P2). conn_simpl. congruence. }
  { destruct (mem (k_pid p) (c_unsuback c)) eqn:Hm; [|now apply handle_error_OR].
    pose proof (stored_not_sub g _ _ _ _ _ _ _ _ HO (k_pid p) (or_intror Hm)) as Hn.
    assert (H1 : OWN g (set_unsuback c (del (k_pid p) (c_unsuback c)))) by (unfold OWN in *; conn_simpl_goal; now apply own_del_UA).
    destruct (release_if_used _ _) as [[c2 e1]|] eqn:E; cbn [bindr]; [|exact I].
    destruct (release_if_used_own g _ _ c2 e1 H1 Hn E) as [P1 P2].
    apply (OR_fin g c c2 (fun e2 => e1 ++ e2 ++ [ENotify p]) P1). destruct P2 as (_ & _ & _ & _ & _ & _ & _ & P2). conn_simpl. congruence. }
Qed.

(* ---- resume: oversize stored packets are dropped ---- *)
Lemma filter_sub id S : forall q, In q (filter (fun q => negb (k_pid q =? id)) S) -> In q S /\ k_pid q <> id.
Proof. intros q H. apply filter_In in H as [H1 H2]. split; [exact H1|]. apply negb_true_iff in H2. now apply N.eqb_neq. Qed.
Lemma filter_nodup id S : NoDup (sids S) -> NoDup (sids (filter (fun q => negb (k_pid q =? id)) S)).
Proof.
  induction S as [|p t IH]; cbn [filter sids map]; [auto|]. intro H. inversion H as [|x xs Hn Hd]; subst.
  destruct (negb _); [|now apply IH]. cbn [sids map]. constructor; [|now apply IH].
  intro K. apply Hn. unfold sids in K. apply in_map_iff in K as (q & Hq & Hin). apply in_map_iff. exists q. split; [exact Hq|]. now apply (filter_sub id t).
Qed.

Lemma own_drop1 g a S PA PB PC SA UA V id a1 :
  own8 g a S PA PB PC SA UA V -> a_is_used a id = true -> pm_release a id = Ok a1 ->
  own8 g a1 (filter (fun q => negb (k_pid q =? id)) S) (del id PA) (del id PB) (del id PC) SA UA V.
Proof.
  intros HO Hu Hr. pose proof (o_nodup _ _ _ _ _ _ _ _ _ HO) as Hd.
  assert (Hg : forall q, In q (filter (fun q => negb (k_pid q =? id)) S) -> k_pid q <> id) by (intros q Hq; now apply (filter_sub id S)).
  assert (H1 := own_sub g _ _ _ _ _ _ _ _ HO _ (filter_nodup id _ Hd) (fun q Hq => proj1 (filter_sub id S q Hq))).
  assert (H2 := own_del_PA g _ _ _ _ _ _ _ _ H1 id (fun q Hq _ => Hg q Hq)).
  assert (H3 := own_del_PB g _ _ _ _ _ _ _ _ H2 id (fun q Hq _ => Hg q Hq)).
  assert (H4 := own_del_PC g _ _ _ _ _ _ _ _ H3 id (fun q Hq _ _ => Hg q Hq)).
  apply (own_release g _ _ _ _ _ _ _ _ H4 id a1 Hg); [intros _; exact Hr|congruence].
Qed.

Lemma own_drop g SA UA V D : forall a S PA PB PC K a',
  own8 g a S PA PB PC SA UA V -> NoDup (sids K) -> (forall q, In q K -> In q S) -> (forall q, In q D -> In q S) ->
  NoDup (sids D) -> (forall q, In q K -> ~ In (k_pid q) (sids D)) ->
  release_all a (sids D) = Ok a' ->
  own8 g a' K (fold_left (fun s i => del i s) (sids D) PA) (fold_left (fun s i => del i s) (sids D) PB)
       (fold_left (fun s i => del i s) (sids D) PC) SA UA V.
Proof.
  induction D as [|d D IH]; intros a S PA PB PC K a' HO HK HKS HDS HD HKD; cbn [sids map release_all fold_left].
  - intro H; inversion H; subst. now apply (own_sub g a' S).
  - destruct (pm_release a (k_pid d)) as [a1|] eqn:Er; cbn [bindr]; [|discriminate]. intro Hra.
    pose proof (o_used _ _ _ _ _ _ _ _ _ HO d (HDS d (or_introl eq_refl))) as Hu.
    pose proof (own_drop1 g _ _ _ _ _ _ _ _ (k_pid d) a1 HO Hu Er) as H1.
    cbn [sids map] in HD. inversion HD as [|x xs Hn HD']; subst.
    apply (IH a1 _ _ _ _ K a' H1 HK).
    + intros q Hq. apply filter_In. split; [now apply HKS|]. apply negb_true_iff, N.eqb_neq. intro E. apply (HKD q Hq). cbn [sids map]. now left.
    + intros q Hq. apply filter_In. split; [apply HDS; now right|]. apply negb_true_iff, N.eqb_neq. intro E. apply Hn. rewrite <- E. now apply sids_in.
    + exact HD'.
    + intros q Hq Hin. apply (HKD q Hq). cbn [sids map]. now right.
    + exact Hra.
Qed.

Lemma send_stored_l_parts mps S : let '(k, d) := send_stored_l mps S in
  (forall q, In q k -> In q S) /\ (forall q, In q d -> In q S) /\
  (NoDup (sids S) -> NoDup (sids k) /\ NoDup (sids d) /\ forall q, In q k -> ~ In (k_pid q) (sids d)).
Proof.
  induction S as [|p t IH]; cbn [send_stored_l].
  - split; [intros q []|split; [intros q []|intros _; split; [constructor|split; [constructor|intros q []]]]].
  - destruct (send_stored_l mps t) as [k d]. destruct IH as (I1 & I2 & I3).
    destruct (mps <? k_size p).
    + split; [intros q Hq; right; now apply I1|]. split; [intros q [<-|Hq]; [now left|right; now apply I2]|].
      intro Hd. cbn [sids map] in Hd. inversion Hd as [|x xs Hn Hd']; subst. destruct (I3 Hd') as (J1 & J2 & J3).
      split; [exact J1|]. split.
      * cbn [sids map]. constructor; [|exact J2]. intro Hin. apply Hn. unfold sids in Hin. apply in_map_iff in Hin as (q & E & Hq).
        rewrite <- E. apply sids_in. now apply I2.
      * intros q Hq [E|Hin]; [|now apply (J3 q Hq)]. apply Hn. rewrite E. apply sids_in. now apply I1.
    + split; [intros q [<-|Hq]; [now left|right; now apply I1]|]. split; [intros q Hq; right; now apply I2|].
      intro Hd. cbn [sids map] in Hd. inversion Hd as [|x xs Hn Hd']; subst. destruct (I3 Hd') as (J1 & J2 & J3).
      split; [|split; [exact J2|]].
      * cbn [sids map]. constructor; [|exact J1]. intro Hin. apply Hn. unfold sids in Hin. apply in_map_iff in Hin as (q & E & Hq).
        rewrite <- E. apply sids_in. now apply I1.
      * intros q [<-|Hq]; [|now apply J3]. intro Hin. apply Hn. unfold sids in Hin. apply in_map_iff in Hin as (q & E & Hq).
        rewrite <- E. apply sids_in. now apply I2.
Qed.

Lemma send_stored_own g c c' e : OWN g c -> send_stored c = Ok (c', e) -> OWN g c' /\ c_version c' = c_version c.
Proof.
  intro HO. unfold send_stored. pose proof (send_stored_l_parts (c_mps_send c) (c_store c)) as Hp.
  destruct (send_stored_l (c_mps_send c) (c_store c)) as [kept dropped]. destruct Hp as (P1 & P2 & P3).
  destruct (P3 (o_nodup _ _ _ _ _ _ _ _ _ HO)) as (Q1 & Q2 & Q3). cbv zeta. conn_simpl_goal.
  destruct (release_all (c_pid c) (map k_pid dropped)) as [a|] eqn:Er; cbn [bindr]; [|discriminate].
  intro H; inversion H; subst c' e. clear H.
  pose proof (own_drop g _ _ _ dropped _ _ _ _ _ kept a HO Q1 P1 P2 Q2 Q3 Er) as H.
  split.
  - match goal with |- OWN g (match ?o with Some _ => set_send_count ?x ?n | None => _ end) =>
      apply (f8_own g x); [destruct o; [unfold F8; conn_simpl; repeat split|apply f8_refl]|] end.
    unfold OWN. conn_simpl_goal. exact H.
  - match goal with |- c_version (match ?o with Some _ => _ | None => _ end) = _ => destruct o; reflexivity end.
Qed.

(* ---- connection establishment ---- *)
Lemma own_new_session g a S PA PB PC SA UA V : own8 g a S PA PB PC SA UA V -> own8 g (pm_clear a) [] [] [] [] SA UA V.
Proof.
  intros [W D U K X (A1 & A2 & A3 & A4 & A5)]. apply own_clear; try assumption.
  intro id. specialize (X id). unfold cnt in X. lia.
Qed.

Ltac own_split :=
  repeat match goal with
         | |- context [if ?b then _ else _] => destruct b
         | |- context [match ?o with Some _ => _ | None => _ end] => destruct o
         end.
Ltac own_leaf HO :=
  unfold OWN in *; unfold initialize, clear_store_related; conn_simpl_goal;
  first [ exact HO
        | eapply own_no_subs; exact HO
        | eapply own_no_subs; eapply own_new_session; exact HO
        | eapply own_new_session; exact HO
        | eapply own_new_session; eapply own_no_subs; exact HO ].

Lemma send_connect_OR g c p : OWN g c -> OR g c (send_connect c p).
Proof.
  intro HO. unfold send_connect. cbv zeta.
  destruct (_ && _); [cbn [OR]; split; [exact HO|reflexivity]|].
  destruct (negb _); [cbn [OR]; split; [exact HO|reflexivity]|].
  apply OR_post; [|own_split; reflexivity].
  own_split; own_leaf HO.
Qed.

Lemma connack_send_props_f8 c p : F8 (fst (connack_send_props c p)) c.
Proof.
  unfold connack_send_props. own_split; cbn [fst]; try apply f8_refl; unfold F8; conn_simpl; repeat split.
Qed.

Lemma send_connack_OR g c p : OWN g c -> OR g c (send_connack c p).
Proof.
  intro HO. unfold send_connack. cbv zeta.
  destruct (_ && _); [cbn [OR]; split; [exact HO|reflexivity]|].
  destruct (negb (status_eqb _ _)); [cbn [OR]; split; [exact HO|reflexivity]|].
  pose proof (connack_send_props_f8 c p) as Hp. destruct (connack_send_props c p) as [c1 pre]. cbn [fst] in Hp.
  pose proof (f8_own g c c1 Hp HO) as H1. assert (V1 : c_version c1 = c_version c) by (now destruct Hp as (_ & _ & _ & _ & _ & _ & _ & Hp)).
  destruct (negb (k_rc p =? 0)).
  - pose proof (cancel_f8 (set_status c1 Disconnected)) as Hc. destruct (cancel_timers _) as [c2 e]. cbn [fst OR] in *.
    assert (F : F8 c2 c1) by (apply (f8_trans _ (set_status c1 Disconnected)); [exact Hc|unfold F8; conn_simpl; repeat split]).
    split; [now apply (f8_own g c1)|]. destruct F as (_ & _ & _ & _ & _ & _ & _ & F). congruence.
  - assert (H2 : OWN g (set_status c1 Connected)) by (apply (f8_own g c1); [unfold F8; conn_simpl; repeat split|exact H1]).
    destruct (send_stored (set_status c1 Connected)) as [[c2 es]|] eqn:E; cbn [bindr]; [|exact I].
    destruct (send_stored_own g _ c2 es H2 E) as [H3 V3]. conn_simpl.
    pose proof (post_f8 c2) as Hq. destruct (send_post_process c2) as [c3 e]. cbn [fst OR] in *.
    split; [now apply (f8_own g c2)|]. destruct Hq as (_ & _ & _ & _ & _ & _ & _ & Hq). congruence.
Qed.

Lemma connect_recv_state_own g c v p c' : OWN g c -> connect_recv_state c v p = Ok c' -> OWN g c' /\ c_version c' = c_version c.
Proof.
  intro HO. unfold connect_recv_state. cbv zeta.
  destruct (version_eqb v V50).
  - match goal with |- bindr ?X _ = _ -> _ => destruct X as [c1|] eqn:E1; cbn [bindr]; [|discriminate] end.
    intro H; inversion H; subst c'; clear H.
    assert (H1 : OWN g c1 /\ c_version c1 = c_version c).
    { revert E1. own_split; try discriminate;
        try match goal with |- bindr (tas_new ?m) _ = _ -> _ => destruct (tas_new m); cbn [bindr]; try discriminate end;
        intro H; injection H as <-; (split; [own_leaf HO|reflexivity]). }
    destruct H1 as [H1 V1]. split.
    + apply (f8_own g c1); [|exact H1]. own_split; unfold F8; conn_simpl; repeat split.
    + rewrite <- V1. own_split; reflexivity.
  - intro H; inversion H; subst c'. split; [own_split; own_leaf HO|own_split; reflexivity].
Qed.

Lemma recv_connect_OR g c v pr : OWN g c -> OR g c (recv_connect g c v pr).
Proof.
  intro HO. unfold recv_connect. destruct (negb _); [now apply handle_error_OR|]. cbv zeta.
  assert (H0 : OWN g (set_status c Connecting)) by (apply (f8_own g c); [unfold F8; conn_simpl; repeat split|exact HO]).
  destruct pr as [p|e].
  - destruct (connect_recv_state _ v p) as [c1|] eqn:E; cbn [bindr]; [|exact I].
    destruct (connect_recv_state_own g _ v p c1 H0 E) as [H1 V1]. conn_simpl.
    apply (OR_fin g c c1 (fun e2 => e2 ++ [ENotify p]) H1 V1).
  - pose proof (send_connack_OR g _ (connect_refusal v e) H0) as H.
    destruct (send_connack _ _) as [[c1 ev]|]; cbn [bindr OR] in *; [exact H|exact I].
Qed.

Lemma resume_or_clear_OR g c0 c sp : OWN g c -> c_version c = c_version c0 -> OR g c0 (resume_or_clear c sp).
Proof.
  intros HO Hv. unfold resume_or_clear. destruct sp.
  - destruct (send_stored c) as [[c1 es]|] eqn:E; cbn [bindr]; [|exact I].
    destruct (send_stored_own g c c1 es HO E) as [H1 V1].
    destruct (existsb _ es); [|cbn [OR]; split; [exact H1|congruence]].
    pose proof (post_f8 c1) as Hq. destruct (send_post_process c1) as [c2 e]. cbn [fst OR] in *.
    split; [now apply (f8_own g c1)|]. destruct Hq as (_ & _ & _ & _ & _ & _ & _ & Hq). congruence.
  - cbn [OR]. split; [own_leaf HO|exact Hv].
Qed.

Lemma connack_recv_limits_f8 c p c' : connack_recv_limits c p = Ok c' -> F8 c' c.
Proof.
  unfold connack_recv_limits.
  destruct (k_tam p) as [m|]; [destruct (0 <? m); [destruct (tas_new m)|]|]; cbn [bindr]; try discriminate;
  (destruct (k_rm p) as [r|]; [destruct (r =? 0)|]; cbn [bindr]; try discriminate);
  (destruct (k_mps p) as [x|]; [destruct (x =? 0)|]; try discriminate);
  intro H; injection H as <-; unfold F8; conn_simpl; repeat split.
Qed.
Lemma connack_recv_ska_f8 c p : F8 (fst (connack_recv_ska c p)) c.
Proof. unfold connack_recv_ska. own_split; cbn [fst]; unfold F8; conn_simpl; repeat split. Qed.

Lemma recv_connack_OR g c v pr : OWN g c -> OR g c (recv_connack c v pr).
Proof.
  intro HO. unfold recv_connack. destruct (status_eqb (c_status c) Connected) eqn:Es; [now apply handle_error_OR|].
  destruct pr as [p|e].
  2:{ destruct (version_eqb v V50); [|cbn [OR]; split; [exact HO|reflexivity]]. cbn [OR]. split; [exact HO|reflexivity]. }
  destruct (k_rc p =? 0); [|cbn [OR]; split; [exact HO|reflexivity]]. cbv zeta.
  assert (H0 : OWN g (set_status c Connected)) by (apply (f8_own g c); [unfold F8; conn_simpl; repeat split|exact HO]).
  destruct (version_eqb v V50).
  - destruct (connack_recv_limits _ p) as [c1|] eqn:E1; cbn [bindr]; [|exact I].
    pose proof (connack_recv_limits_f8 _ p c1 E1) as F1.
    pose proof (connack_recv_ska_f8 c1 p) as F2. destruct (connack_recv_ska c1 p) as [c2 e1]. cbn [fst] in F2.
    assert (F : F8 c2 c) by (apply (f8_trans _ c1); [exact F2|apply (f8_trans _ (set_status c Connected)); [exact F1|unfold F8; conn_simpl; repeat split]]).
    pose proof (f8_own g c c2 F HO) as H2. assert (V2 : c_version c2 = c_version c) by (now destruct F as (_ & _ & _ & _ & _ & _ & _ & F)).
    assert (H3 : OWN g (connack_recv_sei c2 p) /\ c_version (connack_recv_sei c2 p) = c_version c).
    { unfold connack_recv_sei. own_split; (split; [own_leaf H2|exact V2]). }
    destruct H3 as [H3 V3].
    pose proof (resume_or_clear_OR g c _ (k_flag p) H3 V3) as H.
    destruct (resume_or_clear _ _) as [[c3 e2]|]; cbn [bindr OR] in *; [exact H|exact I].
  - pose proof (resume_or_clear_OR g c _ (k_flag p) H0 eq_refl) as H.
    destruct (resume_or_clear _ _) as [[c3 e2]|]; cbn [bindr OR] in *; [exact H|exact I].
Qed.

Lemma do_erase_OR g c id : OWN g c -> OR g c (do_erase c id).
Proof.
  intro HO. unfold do_erase.
  pose proof (o_nodup _ _ _ _ _ _ _ _ _ HO) as Hd.
  pose proof (erase_publish_l_nodup id (c_store c) Hd) as N1. pose proof (erase_publish_l_sub id (c_store c)) as S1.
  assert (G1 : fst (store_erase_publish_l id (c_store c)) = true -> forall q, In q (snd (store_erase_publish_l id (c_store c))) -> k_pid q <> id).
  { clear N1 S1 HO. induction (c_store c) as [|p t IH]; cbn [store_erase_publish_l]; [discriminate|].
    cbn [sids map] in Hd. inversion Hd as [|x xs Hn Hd']; subst.
    destruct (N.eqb_spec (k_pid p) id) as [E|E].
    - destruct (k_type p =? T_PUBLISH); cbn [fst snd]; [|discriminate]. intros _ q Hq Hk. apply Hn. rewrite E, <- Hk. now apply sids_in.
    - specialize (IH Hd'). destruct (store_erase_publish_l id t) as [b t']. cbn [fst snd In] in *. intros Hb q [<-|Hq]; [exact E|now apply IH]. }
  destruct (store_erase_publish_l id (c_store c)) as [b l]. cbn [fst snd] in *.
  destruct b; [|cbn [OR]; split; [exact HO|reflexivity]]. specialize (G1 eq_refl). cbv zeta.
  match goal with |- OR _ _ (release_if_used ?x id) => set (c1 := x) end.
  assert (H1 : OWN g c1).
  { subst c1. match goal with |- OWN g (match ?o with Some _ => ?y | None => ?z end) => apply (f8_own g z); [own_split; try apply f8_refl; unfold F8; conn_simpl; repeat split|] end.
    unfold OWN in *. conn_simpl_goal.
    assert (H1 := own_sub g _ _ _ _ _ _ _ _ HO l N1 S1).
    assert (H2 := own_del_PA g _ _ _ _ _ _ _ _ H1 id (fun q Hq _ => G1 q Hq)).
    exact (own_del_PB g _ _ _ _ _ _ _ _ H2 id (fun q Hq _ => G1 q Hq)). }
  assert (S2 : c_store c1 = l /\ c_version c1 = c_version c) by (subst c1; own_split; conn_simpl_goal; split; reflexivity).
  destruct S2 as [S2 V2].
  destruct (release_if_used c1 id) as [[c2 e]|] eqn:E; cbn [OR]; [|exact I].
  destruct (release_if_used_own g c1 id c2 e H1 ltac:(rewrite S2; exact G1) E) as [P1 P2].
  split; [exact P1|]. destruct P2 as (_ & _ & _ & _ & _ & _ & _ & P2). conn_simpl. congruence.
Qed.

(* ---- the dispatchers ---- *)
Definition send_ok (c : conn) (p : pkt) : Prop :=
  (k_type p = T_PUBLISH -> k_qos p <= 2 /\ if k_qos p =? 0 then k_pid p = 0 else fresh c (k_pid p)) /\
  (k_type p = T_PUBREL \/ k_type p = T_SUBSCRIBE \/ k_type p = T_UNSUBSCRIBE -> fresh c (k_pid p)).

Lemma FR_OR g c r : OWN g c -> FR c r -> OR g c r.
Proof. intros HO HF. now apply (OR_FR g c c). Qed.

Lemma dispatch_send_OR g c p : OWN g c -> send_ok c p -> k_ver p = c_version c -> OR g c (dispatch_send g c p).
Proof.
  intros HO [Hp Hi] Hv. unfold dispatch_send. cbv zeta.
  destruct (N.eqb_spec (k_type p) T_CONNECT); [now apply send_connect_OR|].
  destruct (N.eqb_spec (k_type p) T_CONNACK); [now apply send_connack_OR|].
  destruct (N.eqb_spec (k_type p) T_PUBLISH) as [Et|Et].
  { destruct (Hp Et) as [Hq Hf]. destruct (version_eqb _ _); [now apply send_publish_v5_OR|].
    apply send_publish_v311_OR; try assumption. intro E. now rewrite E in Hf. }
  destruct (_ || _); [apply FR_OR; [exact HO|apply send_puback_like_FR]|].
  destruct (N.eqb_spec (k_type p) T_PUBREL) as [Er|Er]; [apply send_pubrel_OR; auto|].
  destruct (N.eqb_spec (k_type p) T_SUBSCRIBE) as [Es|Es]; cbn [orb]; [apply send_sub_unsub_OR; auto|].
  destruct (N.eqb_spec (k_type p) T_UNSUBSCRIBE) as [Eu|Eu]; [apply send_sub_unsub_OR; auto|].
  destruct (_ || _); [apply FR_OR; [exact HO|apply send_plain_FR]|].
  destruct (_ =? T_PINGREQ); [apply FR_OR; [exact HO|apply send_pingreq_FR]|].
  destruct (_ =? T_DISCONNECT); [apply FR_OR; [exact HO|apply send_disconnect_FR]|].
  destruct (_ =? T_AUTH); [apply FR_OR; [exact HO|apply send_auth_FR]|].
  cbn [OR]. split; [exact HO|reflexivity].
Qed.

Lemma do_send_OR g c p : OWN g c -> send_ok c p -> OR g c (do_send g c p).
Proof.
  intros HO Hs. unfold do_send. destruct (version_eqb (c_version c) (k_ver p)) eqn:Ev; cbn [negb]; [|cbn [OR]; split; [exact HO|reflexivity]].
  cbv zeta. destruct (_ && _); [cbn [OR]; split; [exact HO|reflexivity]|].
  destruct (_ && _); [cbn [OR]; split; [exact HO|reflexivity]|].
  apply dispatch_send_OR; try assumption. destruct (c_version c), (k_ver p); try discriminate; reflexivity.
Qed.

Lemma dispatch_recv_OR g c t pr : OWN g c -> OR g c (dispatch_recv g c (c_version c) t pr).
Proof.
  intro HO. unfold dispatch_recv.
  destruct (t =? 1); [now apply recv_connect_OR|].
  destruct (t =? 2); [now apply recv_connack_OR|].
  destruct (t =? 3); [destruct (version_eqb _ _); apply FR_OR; try exact HO; [apply recv_publish_v5_FR|apply recv_publish_v311_FR]|].
  destruct (_ || _); [now apply recv_ack_OR|].
  destruct (t =? 6); [apply FR_OR; [exact HO|apply recv_pubrel_FR]|].
  destruct (_ || _); [apply FR_OR; [exact HO|apply recv_notify_FR]|].
  destruct (t =? 12); [apply FR_OR; [exact HO|apply recv_pingreq_FR]|].
  destruct (t =? 13); [apply FR_OR; [exact HO|apply recv_pingresp_FR]|].
  destruct (t =? 14); [destruct (version_eqb _ _); apply FR_OR; try exact HO; apply recv_disconnect_FR|].
  destruct (_ && _); [apply FR_OR; [exact HO|apply recv_notify_FR]|].
  cbn [OR]. split; [exact HO|reflexivity].
Qed.

Lemma process_recv_packet_OR g c fh body pr : OWN g c -> c_version c <> VUndet -> OR g c (process_recv_packet g c fh body pr).
Proof.
  intros HO Hv. unfold process_recv_packet. cbv zeta.
  destruct (_ <? _).
  { destruct (status_eqb _ _).
    - pose proof (close_with_disconnect_FR c (disconnect_v5 149)) as H.
      destruct (close_with_disconnect _ _) as [[c1 e]|]; cbn [bindr OR FR] in *; [|exact I].
      split; [now apply (f8_own g c)|now destruct H as (_ & _ & _ & _ & _ & _ & _ & H)].
    - pose proof (cancel_f8 (set_status c Disconnected)) as H. destruct (cancel_timers _) as [c1 e]. cbn [fst OR] in *.
      assert (F : F8 c1 c) by (apply (f8_trans _ (set_status c Disconnected)); [exact H|unfold F8; conn_simpl; repeat split]).
      split; [now apply (f8_own g c)|now destruct F as (_ & _ & _ & _ & _ & _ & _ & F)]. }
  destruct (negb _); [cbn [OR]; split; [exact HO|reflexivity]|].
  destruct (c_version c) eqn:E; try (rewrite <- E; now apply dispatch_recv_OR). exfalso. now apply Hv.
Qed.

Lemma do_recv_own g c bytes pr : OWN g c -> c_version c <> VUndet ->
  match do_recv g c bytes pr with Ok (c', _, _) => OWN g c' /\ c_version c' = c_version c | Panic _ => True end.
Proof.
  intros HO Hv. unfold do_recv. destruct (feed (c_pb c) bytes) as [[r pb'] rest]. cbv zeta.
  assert (H0 : OWN g (set_pb c pb')) by (apply (f8_own g c); [unfold F8; conn_simpl; repeat split|exact HO]).
  destruct r; cbv beta iota;
    match goal with
    | |- context [process_recv_packet g ?x ?h ?b pr] =>
        pose proof (process_recv_packet_OR g x h b pr H0 Hv) as H;
        destruct (process_recv_packet g x h b pr) as [[c1 e]|]; cbn [bindr OR] in *; [exact H|exact I]
    | |- context [cancel_timers ?x] =>
        pose proof (cancel_f8 x) as H; destruct (cancel_timers x) as [c1 e]; cbn [fst] in H; cbv beta iota;
        split; [now apply (f8_own g (set_pb c pb'))|now destruct H as (_ & _ & _ & _ & _ & _ & _ & H)]
    | |- _ => split; [exact H0|reflexivity]
    end.
Qed.

(* ---- the identifier calls ---- *)
Lemma free_not_stored g c id : OWN g c -> is_used c id = false -> store_has id (c_store c) = false.
Proof.
  intros HO Hu. apply store_has_gone. intros q Hq E. pose proof (o_used _ _ _ _ _ _ _ _ _ HO q Hq) as H.
  unfold is_used, pm_is_used in Hu. congruence.
Qed.

Lemma acquire_own g c r a : OWN g c -> pm_acquire (c_pid c) = Ok (r, a) -> OWN g (set_pid c a).
Proof.
  intros HO Ha. pose proof (o_wf _ _ _ _ _ _ _ _ _ HO) as W.
  pose proof (acquire_spec g c W) as H. cbn [step] in H. rewrite Ha in H. cbn [bindr] in H.
  unfold OWN in *. conn_simpl_goal. destruct r as [x|].
  - destruct H as (_ & _ & _ & F1 & F2 & W'). apply (own_more g _ _ _ _ _ _ _ _ HO a W').
    intros y Hy. change (is_used (set_pid c a) y = true). change (is_used c y = true) in Hy.
    rewrite (is_used_spec g _ y W'). rewrite (is_used_spec g c y W) in Hy.
    destruct (N.eqb_spec y x) as [->|Hne]; [|now rewrite (F2 y Hne)].
    rewrite F1. apply andb_true_iff in Hy as [Hy _]. now rewrite Hy.
  - destruct H as (_ & H & _). assert (Ea : a = c_pid c) by (change a with (c_pid (set_pid c a)); now rewrite H). subst a. exact HO.
Qed.

Lemma register_own g c id : OWN g c -> OWN g (set_pid c (snd (pm_register (c_pid c) id))).
Proof.
  intro HO. pose proof (o_wf _ _ _ _ _ _ _ _ _ HO) as W.
  pose proof (register_spec g c id W) as H. cbn [step] in H. destruct (pm_register (c_pid c) id) as [b a]. cbn [snd].
  destruct H as (_ & _ & F & W'). unfold OWN in *. conn_simpl_goal. apply (own_more g _ _ _ _ _ _ _ _ HO a W').
  intros y Hy. change (is_used (set_pid c a) y = true). change (is_used c y = true) in Hy.
  rewrite (is_used_spec g _ y W'). rewrite (is_used_spec g c y W) in Hy. rewrite F.
  apply andb_true_iff in Hy as [Hy Hf]. rewrite Hy. apply negb_true_iff in Hf. now rewrite Hf.
Qed.

(* restore_packets: every packet that is recorded has the connection's version, a QoS the store knows,
   and an identifier awaited nowhere *)
Definition restorable (c : conn) (p : pkt) : Prop :=
  k_ver p = c_version c /\ (k_type p = T_PUBLISH -> 1 <= k_qos p <= 2) /\
  cnt (k_pid p) (c_puback c) (c_pubrec c) (c_pubcomp c) (c_suback c) (c_unsuback c) = 0.
Fixpoint restore_ok (c : conn) (l : list pkt) : Prop :=
  match l with
  | [] => True
  | p :: t => ((k_type p =? T_PUBLISH) && (k_qos p =? 0) = true \/ restorable c p) /\ restore_ok (do_restore c [p]) t
  end.

Lemma do_restore_cons c p t : do_restore c (p :: t) = do_restore (do_restore c [p]) t.
Proof. reflexivity. Qed.

Lemma restore_one_own g c p : OWN g c -> ((k_type p =? T_PUBLISH) && (k_qos p =? 0) = true \/ restorable c p) ->
  OWN g (do_restore c [p]) /\ c_version (do_restore c [p]) = c_version c.
Proof.
  intros HO Hp. cbn [do_restore]. destruct ((k_type p =? T_PUBLISH) && (k_qos p =? 0)) eqn:E0; [split; [exact HO|reflexivity]|].
  destruct Hp as [Hp|(Hv & Hq & Hc)]; [discriminate|].
  pose proof (o_wf _ _ _ _ _ _ _ _ _ HO) as W.
  pose proof (register_spec g c (k_pid p) W) as H. cbn [step] in H.
  pose proof (register_own g c (k_pid p) HO) as H1.
  destruct (pm_register (c_pid c) (k_pid p)) as [b a]. cbn [snd] in H1. destruct H as (_ & Hb & F & W').
  destruct b; [|split; [exact HO|reflexivity]]. cbn [b2n n2b] in Hb.
  assert (Hfree : free_in c (k_pid p) = true) by (rewrite <- Hb; reflexivity).
  assert (Hu0 : is_used c (k_pid p) = false) by (rewrite (is_used_spec g c _ W), Hfree; apply andb_false_r).
  pose proof (free_not_stored g c _ HO Hu0) as Hs.
  assert (Hrg : 1 <= k_pid p <= g_idmax g).
  { destruct W as ((_ & _ & Wp) & E1 & E2 & _). unfold free_in in Hfree. apply (abs_ge _ _ _ _ Wp) in Hfree. lia. }
  assert (Hu1 : is_used (set_pid c a) (k_pid p) = true).
  { rewrite (is_used_spec g _ _ W'), F, N.eqb_refl. cbn [negb]. rewrite andb_false_r. cbn [negb]. rewrite andb_true_r.
    apply andb_true_iff. split; apply N.leb_le; lia. }
  assert (Hfr : fresh (set_pid c a) (k_pid p)) by (split; conn_simpl_goal; assumption).
  destruct (N.eqb_spec (k_type p) T_PUBLISH) as [Et|Et].
  - specialize (Hq Et). cbn [andb] in E0.
    destruct (publish_ins_own g (set_pid c a) p p H1 Hfr Hu1 Et eq_refl eq_refl Hv Hq) as [P1 _]. cbv zeta in P1.
    unfold store_add_soft. conn_simpl_goal.
    destruct (N.eqb_spec (k_qos p) 1) as [E1|E1].
    + rewrite E1 in P1. change (1 =? 2) with false in P1. cbv iota in P1. conn_simpl_goal. rewrite Hs.
      split; [|reflexivity]. unfold OWN in *. conn_simpl. exact P1.
    + assert (E2 : k_qos p = 2) by lia. rewrite E2 in P1. change (2 =? 2) with true in P1. cbv iota in P1. conn_simpl_goal. rewrite Hs.
      split; [|reflexivity]. unfold OWN in *. conn_simpl. exact P1.
  - unfold store_add_soft. conn_simpl_goal. rewrite Hs. split; [|reflexivity].
    unfold OWN in *. conn_simpl.
    assert (Hresp : response_of p = T_PUBCOMP).
    { unfold response_of. destruct (N.eqb_spec (k_type p) T_PUBLISH); [contradiction|reflexivity]. }
    pose proof (own_ins_snoc g _ _ _ _ _ _ _ _ p H1 Hc Hs Hu1 Hv) as H. rewrite Hresp in H. exact H.
Qed.

Lemma do_restore_own g l : forall c, OWN g c -> restore_ok c l -> OWN g (do_restore c l) /\ c_version (do_restore c l) = c_version c.
Proof.
  induction l as [|p t IH]; intros c HO Hr; [split; [exact HO|reflexivity]|].
  cbn [restore_ok] in Hr. destruct Hr as [Hp Ht]. rewrite do_restore_cons.
  destruct (restore_one_own g c p HO Hp) as [H1 V1]. destruct (IH _ H1 Ht) as [H2 V2]. split; [exact H2|congruence].
Qed.

(* ---- every call ---- *)
Definition own_op_ok (c : conn) (o : op) : Prop :=
  match o with
  | OSend p => send_ok c p
  | ORelease id => store_has id (c_store c) = false
  | ORestorePackets l => restore_ok c l
  | _ => True
  end.

Theorem step_keeps_OWN g c o : OWN g c -> c_version c <> VUndet -> own_op_ok c o ->
  match step g c o with Ok (c', _, _) => OWN g c' /\ c_version c' = c_version c | Panic _ => True end.
Proof.
  intros HO Hv Hk. assert (Hfr : forall c1, F8 c1 c -> OWN g c1 /\ c_version c1 = c_version c).
  { intros c1 F. split; [now apply (f8_own g c)|now destruct F as (_ & _ & _ & _ & _ & _ & _ & F)]. }
  destruct o; cbn [step own_op_ok] in *.
  - pose proof (do_send_OR g c p HO Hk) as H. destruct (do_send g c p) as [[c' e]|]; cbn [bindr OR] in *; [exact H|exact I].
  - pose proof (do_recv_own g c bytes pr HO Hv) as H. destruct (do_recv g c bytes pr) as [[[c' e] r]|]; cbn [bindr] in *; [exact H|exact I].
  - pose proof (do_timer_FR c k) as H. destruct (do_timer c k) as [[c' e]|]; cbn [bindr FR] in *; [now apply Hfr|exact I].
  - pose proof (do_closed_OR g c HO) as H. destruct (do_closed c) as [[c' e]|]; cbn [bindr OR] in *; [exact H|exact I].
  - unfold do_set_pingreq_interval. cbv zeta. own_split; cbn [bindr]; apply Hfr; unfold F8; conn_simpl; repeat split.
  - apply Hfr; unfold F8; conn_simpl; repeat split.
  - apply Hfr; destruct b; unfold F8; conn_simpl; repeat split.
  - apply Hfr; unfold F8; conn_simpl; repeat split.
  - apply Hfr; unfold F8; conn_simpl; repeat split.
  - apply Hfr; unfold F8; conn_simpl; repeat split.
  - apply Hfr; unfold F8; conn_simpl; repeat split.
  - destruct (pm_acquire (c_pid c)) as [[r a]|] eqn:Ea; cbn [bindr]; [|exact I]. split; [now apply (acquire_own g c r a)|reflexivity].
  - pose proof (register_own g c id HO) as H. destruct (pm_register (c_pid c) id) as [b a]. cbn [snd] in H. split; [exact H|reflexivity].
  - destruct (release_if_used c id) as [[c' e]|] eqn:E; cbn [bindr]; [|exact I].
    destruct (release_if_used_own g c id c' e HO (store_has_false _ _ Hk) E) as [P1 P2]. split; [exact P1|].
    destruct P2 as (_ & _ & _ & _ & _ & _ & _ & P2). conn_simpl. congruence.
  - pose proof (do_erase_OR g c id HO) as H. destruct (do_erase c id) as [[c' e]|]; cbn [bindr OR] in *; [exact H|exact I].
  - now apply do_restore_own.
  - apply Hfr; unfold F8; conn_simpl; repeat split.
  - split; [exact HO|reflexivity].
Qed.

Fixpoint own_history_ok (g : cfg) (c : conn) (ops : list op) : Prop :=
  match ops with
  | [] => True
  | o :: t => own_op_ok c o /\ match step g c o with Ok (c', _, _) => own_history_ok g c' t | Panic _ => True end
  end.

Theorem OWN_invariant g : forall ops c,
  OWN g c -> c_version c <> VUndet -> own_history_ok g c ops ->
  match run_state g c ops with Some c' => OWN g c' | None => True end.
Proof.
  induction ops as [|o t IH]; intros c HO Hv Hq; cbn [run_state]; [exact HO|].
  cbn [own_history_ok] in Hq. destruct Hq as [Hk Hq]. pose proof (step_keeps_OWN g c o HO Hv Hk) as Hs.
  destruct (step g c o) as [[[c' e] r]|]; [|exact I]. destruct Hs as [H1 V1]. apply IH; [exact H1|congruence|exact Hq].
Qed.

Lemma conn_new_OWN g v : 1 <= g_idmax g -> OWN g (conn_new g v).
Proof.
  intro Hm. unfold OWN, conn_new. conn_simpl_goal. constructor.
  - exact (conn_new_WFpid g v Hm).
  - constructor.
  - intros q [].
  - intros q [].
  - intro id. unfold cnt, mem. cbn. lia.
  - repeat split; exact I.
Qed.

Corollary fresh_OWN_invariant g v ops :
  1 <= g_idmax g -> v <> VUndet -> own_history_ok g (conn_new g v) ops ->
  match run_state g (conn_new g v) ops with Some c' => OWN g c' | None => True end.
Proof. intros Hm Hv Hq. apply OWN_invariant; [now apply conn_new_OWN|exact Hv|exact Hq]. Qed.

(* what the invariant gives: in every state of such a history the allocator's representation invariant
   holds — INCLUDING across the drop of oversize stored packets on resume, whose unguarded releases are
   releases of identifiers in use because they are identifiers of stored packets *)
Corollary OWN_WFpid g c : OWN g c -> WFpid g c.
Proof. intro H. exact (o_wf _ _ _ _ _ _ _ _ _ H). Qed.

(* what the invariant says, read off: *)
Corollary own_stored_held g c q : OWN g c -> In q (c_store c) ->
  is_used c (k_pid q) = true /\
  mem (k_pid q) (kset (response_of q) (c_puback c) (c_pubrec c) (c_pubcomp c)) = true /\ k_ver q = c_version c.
Proof. intros H Hq. split; [exact (o_used _ _ _ _ _ _ _ _ _ H q Hq)|exact (o_kind _ _ _ _ _ _ _ _ _ H q Hq)]. Qed.
Corollary own_store_distinct g c : OWN g c -> NoDup (map k_pid (c_store c)).
Proof. intro H. exact (o_nodup _ _ _ _ _ _ _ _ _ H). Qed.
Corollary own_awaited_once g c id : OWN g c ->
  b2n (mem id (c_puback c)) + b2n (mem id (c_pubrec c)) + b2n (mem id (c_pubcomp c)) + b2n (mem id (c_suback c)) + b2n (mem id (c_unsuback c)) <= 1.
Proof. intro H. exact (o_disj _ _ _ _ _ _ _ _ _ H id). Qed.
