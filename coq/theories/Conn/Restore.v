(* C16: restore_packets / restore_qos2_publish_handled rebuild the session from an export. *)
From MQ Require Import Base.Prelude Alloc.Alloc Alloc.SetSpec Alloc.AllocProofs Framing.Framing
                       Conn.Types Conn.TopicAlias Conn.ConnRecord Conn.Step Conn.Run Corr.ConnTrace
                       Conn.IdsQuota Conn.Scope.

Definition entry_ok (p : pkt) : bool := negb ((k_type p =? T_PUBLISH) && (k_qos p =? 0)).
Definition is_q1 (p : pkt) : bool := (k_type p =? T_PUBLISH) && (k_qos p =? 1).
Definition is_q2 (p : pkt) : bool := (k_type p =? T_PUBLISH) && negb (k_qos p =? 1).
Definition is_rel (p : pkt) : bool := negb (k_type p =? T_PUBLISH).
Definition has (f : pkt -> bool) (l : list pkt) (id : N) : bool := existsb (fun p => f p && (k_pid p =? id)) l.

(* one entry *)
Definition restore1 (c : conn) (p : pkt) : conn :=
  if (k_type p =? T_PUBLISH) && (k_qos p =? 0) then c else
  let '(ok, a) := pm_register (c_pid c) (k_pid p) in
  if ok then
    let c := set_pid c a in
    let c := if k_type p =? T_PUBLISH
             then (if k_qos p =? 1 then set_puback c (ins (k_pid p) (c_puback c))
                   else set_pubrec c (ins (k_pid p) (c_pubrec c)))
             else set_pubcomp c (ins (k_pid p) (c_pubcomp c)) in
    store_add_soft c p
  else c.

Lemma do_restore_cons c p t : do_restore c (p :: t) = do_restore (restore1 c p) t.
Proof. reflexivity. Qed.

(* the part of the state restore works on *)
Record sess := mkSess { ss_store : list pkt; ss_puback : list N; ss_pubrec : list N; ss_pubcomp : list N }.
Definition sess_of (c : conn) : sess := mkSess (c_store c) (c_puback c) (c_pubrec c) (c_pubcomp c).

Lemma restore1_ok g c p :
  WFpid g c -> entry_ok p = true -> free_in c (k_pid p) = true -> store_has (k_pid p) (c_store c) = false ->
  let c' := restore1 c p in
  WFpid g c' /\ c_store c' = c_store c ++ [p] /\
  (forall y, free_in c' y = free_in c y && negb (y =? k_pid p)) /\
  (forall y, mem y (c_puback c') = mem y (c_puback c) || (is_q1 p && (k_pid p =? y))) /\
  (forall y, mem y (c_pubrec c') = mem y (c_pubrec c) || (is_q2 p && (k_pid p =? y))) /\
  (forall y, mem y (c_pubcomp c') = mem y (c_pubcomp c) || (is_rel p && (k_pid p =? y))) /\
  c_qos2 c' = c_qos2 c /\ conn_scope_eq c' c.
Proof.
  intros HW He Hf Hs. pose proof HW as (HWF & E1 & E2 & E3). unfold restore1.
  unfold entry_ok in He. apply negb_true_iff in He. rewrite He.
  unfold pm_register. destruct (use_value_spec (c_pid c) (k_pid p) HWF) as (a' & HU & HWF' & F1 & F2 & F3 & Hab).
  rewrite HU. unfold free_in in Hf. rewrite Hf. unfold store_add_soft.
  assert (Hmem : forall (l : list N) y id, mem y (ins id l) = mem y l || (id =? y)).
  { intros l y id. unfold mem, ins. rewrite s_mem_insert, (N.eqb_sym y id). apply orb_comm. }
  assert (Hsc : forall x, conn_scope_eq x x).
  { intro x. unfold conn_scope_eq, same_options. repeat split. }
  unfold is_q1, is_q2, is_rel.
  destruct (k_type p =? T_PUBLISH) eqn:Et; [destruct (k_qos p =? 1) eqn:Eq|]; conn_simpl_goal; rewrite Hs; conn_simpl_goal;
    (split; [apply WFpid_intro; conn_simpl_goal; [exact HWF'|congruence|congruence|congruence]|]);
    (split; [reflexivity|]); unfold free_in; conn_simpl_goal;
    (split; [exact Hab|]); cbn [andb negb];
    repeat split; try (intro y; rewrite ?Hmem, ?orb_false_r; reflexivity);
    unfold conn_scope_eq, same_options; conn_simpl_goal; repeat split; congruence.
Qed.

(* the whole export *)
Theorem restore_rebuilds g l : forall c,
  WFpid g c -> NoDup (map k_pid l) ->
  (forall p, In p l -> entry_ok p = true /\ free_in c (k_pid p) = true /\ store_has (k_pid p) (c_store c) = false) ->
  let c' := do_restore c l in
  WFpid g c' /\ c_store c' = c_store c ++ l /\
  (forall y, free_in c' y = free_in c y && negb (store_has y l)) /\
  (forall y, mem y (c_puback c') = mem y (c_puback c) || has is_q1 l y) /\
  (forall y, mem y (c_pubrec c') = mem y (c_pubrec c) || has is_q2 l y) /\
  (forall y, mem y (c_pubcomp c') = mem y (c_pubcomp c) || has is_rel l y) /\
  c_qos2 c' = c_qos2 c /\ conn_scope_eq c' c.
Proof.
  induction l as [|p t IH]; intros c HW Hnd Hall; cbn zeta.
  - cbn [do_restore]. rewrite app_nil_r. split; [exact HW|]. split; [reflexivity|].
    assert (Hsc : conn_scope_eq c c) by (unfold conn_scope_eq, same_options; repeat split).
    repeat split; try (intro y; cbn; rewrite ?orb_false_r, ?andb_true_r; reflexivity); apply Hsc.
  - rewrite do_restore_cons. cbn [map] in Hnd. inversion Hnd as [|x xs Hnotin Hnd']; subst.
    destruct (Hall p (or_introl eq_refl)) as (He & Hf & Hs).
    destruct (restore1_ok g c p HW He Hf Hs) as (HW1 & St1 & F1 & A1 & B1 & C1 & Q1 & S1).
    assert (Hall' : forall q, In q t -> entry_ok q = true /\ free_in (restore1 c p) (k_pid q) = true /\
                                       store_has (k_pid q) (c_store (restore1 c p)) = false).
    { intros q Hq. destruct (Hall q (or_intror Hq)) as (He' & Hf' & Hs').
      assert (Hne : (k_pid q =? k_pid p) = false).
      { apply N.eqb_neq. intro E. apply Hnotin. rewrite <- E. now apply in_map. }
      split; [exact He'|]. split.
      - rewrite F1, Hf', Hne. reflexivity.
      - rewrite St1. unfold store_has. rewrite existsb_app. cbn [existsb]. unfold store_has in Hs'. rewrite Hs'.
        rewrite (N.eqb_sym (k_pid p) (k_pid q)), Hne. reflexivity. }
    destruct (IH (restore1 c p) HW1 Hnd' Hall') as (HW2 & St2 & F2 & A2 & B2 & C2 & Q2 & S2).
    split; [exact HW2|]. split; [rewrite St2, St1, <- app_assoc; reflexivity|].
    split.
    { intro y. rewrite F2, F1. cbn [store_has existsb]. unfold store_has. rewrite negb_orb, (N.eqb_sym (k_pid p) y).
      now rewrite andb_assoc. }
    unfold has in *. cbn [existsb].
    split; [intro y; rewrite A2, A1, orb_assoc; reflexivity|].
    split; [intro y; rewrite B2, B1, orb_assoc; reflexivity|].
    split; [intro y; rewrite C2, C1, orb_assoc; reflexivity|].
    split; [congruence|].
    destruct S2 as (O2 & R2). destruct S1 as (O1 & R1).
    unfold conn_scope_eq, same_options in *. intuition congruence.
Qed.

(* ---------- the session part of the state, and what an export determines ---------- *)
Definition in_rng (g : cfg) (y : N) : bool := (1 <=? y) && (y <=? g_idmax g).

(* C06's structural invariant: the three in-flight sets and the identifiers in use are determined
   by the store (no application-held identifiers: the application that died held them) *)
Definition sess_inv (g : cfg) (c : conn) : Prop :=
  WFpid g c /\ NoDup (map k_pid (c_store c)) /\
  (forall p, In p (c_store c) -> entry_ok p = true /\ in_rng g (k_pid p) = true) /\
  asc 1 (g_idmax g) (c_puback c) /\ asc 1 (g_idmax g) (c_pubrec c) /\ asc 1 (g_idmax g) (c_pubcomp c) /\
  (forall y, mem y (c_puback c) = has is_q1 (c_store c) y) /\
  (forall y, mem y (c_pubrec c) = has is_q2 (c_store c) y) /\
  (forall y, mem y (c_pubcomp c) = has is_rel (c_store c) y) /\
  (forall y, free_in c y = in_rng g y && negb (store_has y (c_store c))).

Lemma asc_ext b hi l1 : forall l2 b', asc b hi l1 -> asc b' hi l2 -> (forall y, s_mem y l1 = s_mem y l2) -> l1 = l2.
Proof.
  revert b. induction l1 as [|u t IH]; intros b [|u2 t2] b' H1 H2 Hm.
  - reflexivity.
  - specialize (Hm u2). cbn [s_mem] in Hm. rewrite N.eqb_refl in Hm. discriminate.
  - specialize (Hm u). cbn [s_mem] in Hm. rewrite N.eqb_refl in Hm. discriminate.
  - cbn [asc] in H1, H2. destruct H1 as (A1 & A2 & A3). destruct H2 as (B1 & B2 & B3).
    assert (u = u2).
    { pose proof (Hm u) as Hu. pose proof (Hm u2) as Hu2. cbn [s_mem] in Hu, Hu2. rewrite N.eqb_refl in Hu, Hu2.
      cbn [orb] in Hu, Hu2. symmetry in Hu. apply orb_true_iff in Hu as [Hu|Hu]; [apply N.eqb_eq in Hu; congruence|].
      apply orb_true_iff in Hu2 as [Hu2|Hu2]; [apply N.eqb_eq in Hu2; congruence|].
      apply (s_mem_range _ _ _ _ B3) in Hu. apply (s_mem_range _ _ _ _ A3) in Hu2. lia. }
    subst u2. f_equal. apply (IH (u + 1) t2 (u + 1) A3 B3).
    intro y. specialize (Hm y). cbn [s_mem] in Hm.
    destruct (N.eqb_spec u y) as [E|Hne]; [subst y|exact Hm].
    rewrite (s_mem_lt _ _ _ _ A3), (s_mem_lt _ _ _ _ B3) by lia. reflexivity.
Qed.

Lemma restore1_asc g c p :
  in_rng g (k_pid p) = true ->
  asc 1 (g_idmax g) (c_puback c) -> asc 1 (g_idmax g) (c_pubrec c) -> asc 1 (g_idmax g) (c_pubcomp c) ->
  asc 1 (g_idmax g) (c_puback (restore1 c p)) /\ asc 1 (g_idmax g) (c_pubrec (restore1 c p)) /\
  asc 1 (g_idmax g) (c_pubcomp (restore1 c p)).
Proof.
  intros Hr A B C. unfold in_rng in Hr. apply andb_true_iff in Hr as [R1 R2]. apply N.leb_le in R1, R2.
  unfold restore1, store_add_soft.
  destruct (_ && _); [auto|]. destruct (pm_register _ _) as [ok a]. destruct ok; [|auto].
  destruct (k_type p =? T_PUBLISH); [destruct (k_qos p =? 1)|];
    match goal with |- context [store_has ?x ?y] => destruct (store_has x y) end; conn_simpl_goal;
    repeat split; auto; unfold ins; apply asc_insert; auto.
Qed.

Lemma restore_asc g l : forall c,
  (forall p, In p l -> in_rng g (k_pid p) = true) ->
  asc 1 (g_idmax g) (c_puback c) -> asc 1 (g_idmax g) (c_pubrec c) -> asc 1 (g_idmax g) (c_pubcomp c) ->
  asc 1 (g_idmax g) (c_puback (do_restore c l)) /\ asc 1 (g_idmax g) (c_pubrec (do_restore c l)) /\
  asc 1 (g_idmax g) (c_pubcomp (do_restore c l)).
Proof.
  induction l as [|p t IH]; intros c Hr A B C; [cbn [do_restore]; auto|].
  rewrite do_restore_cons.
  destruct (restore1_asc g c p (Hr p (or_introl eq_refl)) A B C) as (A1 & B1 & C1).
  apply IH; auto. intros q Hq. apply Hr. now right.
Qed.

(* restore_qos2_publish_handled of an exported (ascending) set gives that set back *)
Lemma fold_ins_asc l : forall b hi acc, asc b hi l -> (forall y, s_mem y acc = true -> y < b) ->
  forall y, s_mem y (fold_left (fun s i => ins i s) l acc) = s_mem y acc || s_mem y l.
Proof.
  induction l as [|u t IH]; intros b hi acc Ha Hacc y; cbn [fold_left s_mem]; [now rewrite orb_false_r|].
  cbn [asc] in Ha. destruct Ha as (A1 & A2 & A3).
  rewrite (IH (u + 1) hi (ins u acc) A3).
  - unfold ins. rewrite s_mem_insert, (N.eqb_sym y u). destruct (u =? y), (s_mem y acc), (s_mem y t); reflexivity.
  - intros z Hz. unfold ins in Hz. rewrite s_mem_insert in Hz. apply orb_true_iff in Hz as [Hz|Hz].
    + apply N.eqb_eq in Hz. lia.
    + apply Hacc in Hz. lia.
Qed.

Lemma fold_ins_keeps_asc hi l : forall b acc, 1 <= b -> asc b hi l -> asc 1 hi acc ->
  asc 1 hi (fold_left (fun s i => ins i s) l acc).
Proof.
  induction l as [|u t IH]; intros b acc Hb Ha Hacc; cbn [fold_left]; [exact Hacc|].
  cbn [asc] in Ha. destruct Ha as (A1 & A2 & A3).
  apply (IH (u + 1)); [lia|exact A3|]. unfold ins. apply asc_insert; [exact Hacc|lia|lia].
Qed.

Lemma restore_qos2_identity hi l : asc 1 hi l -> fold_left (fun s i => ins i s) l [] = l.
Proof.
  intro Ha. apply (asc_ext 1 hi _ l 1).
  - apply (fold_ins_keeps_asc hi l 1 []); [lia|exact Ha|exact I].
  - exact Ha.
  - intro y. rewrite (fold_ins_asc l 1 hi [] Ha); [reflexivity|]. intros z Hz. discriminate.
Qed.

Lemma fresh_like_WFpid g c : 1 <= g_idmax g -> WFpid g (fresh_like g c).
Proof.
  intro H. unfold WFpid, fresh_like, conn_new, pm_new, WF. conn_simpl_goal. cbn. repeat split; try lia.
Qed.

Lemma fresh_like_empty g c :
  let f := fresh_like g c in
  c_store f = [] /\ c_puback f = [] /\ c_pubrec f = [] /\ c_pubcomp f = [] /\
  (forall y, free_in f y = in_rng g y).
Proof.
  unfold fresh_like, conn_new, pm_new, free_in, in_rng. conn_simpl_goal. repeat split.
  intro y. cbn [a_pool]. rewrite abs_cons, abs_nil, orb_false_r. reflexivity.
Qed.

(* C16: give a fresh object (same options) the export of a session that satisfies the store
   invariant, and its session state is EQUAL to the original's — store (same packets, same order),
   the three in-flight sets, the identifiers in use (as the same interval list), the handled set *)
Theorem restored_session_equal g c :
  1 <= g_idmax g -> sess_inv g c -> asc 1 (g_idmax g) (c_qos2 c) ->
  let r := set_qos2 (do_restore (fresh_like g c) (c_store c)) (fold_left (fun s i => ins i s) (c_qos2 c) []) in
  session_eq r c /\ conn_scope_eq r (fresh_like g c).
Proof.
  intros Hmax (HW & Hnd & Hent & Aa & Ab & Ac & Ma & Mb & Mc & Mf) Hq. cbv zeta.
  pose proof (fresh_like_WFpid g c Hmax) as HWF.
  pose proof (fresh_like_empty g c) as HE. cbv zeta in HE. destruct HE as (S0 & A0 & B0 & C0 & F0).
  assert (Hall : forall p, In p (c_store c) -> entry_ok p = true /\ free_in (fresh_like g c) (k_pid p) = true /\
                                              store_has (k_pid p) (c_store (fresh_like g c)) = false).
  { intros p Hp. destruct (Hent p Hp) as (He & Hr). rewrite F0, S0. auto. }
  destruct (restore_rebuilds g (c_store c) (fresh_like g c) HWF Hnd Hall) as (HW2 & St & Fr & Pa & Pb & Pc & Q2 & Sc).
  assert (Hrng : forall p, In p (c_store c) -> in_rng g (k_pid p) = true) by (intros p Hp; apply (Hent p Hp)).
  destruct (restore_asc g (c_store c) (fresh_like g c) Hrng) as (Ra & Rb & Rc); [rewrite A0|rewrite B0|rewrite C0|]; try exact I.
  rewrite (restore_qos2_identity (g_idmax g) (c_qos2 c) Hq).
  split.
  - unfold session_eq. conn_simpl_goal. rewrite St, S0. cbn [app].
    split; [reflexivity|]. split; [reflexivity|].
    split; [apply (asc_ext 1 (g_idmax g) _ _ 1 Ra Aa); intro y; rewrite Pa, A0, Ma; reflexivity|].
    split; [apply (asc_ext 1 (g_idmax g) _ _ 1 Rb Ab); intro y; rewrite Pb, B0, Mb; reflexivity|].
    split; [apply (asc_ext 1 (g_idmax g) _ _ 1 Rc Ac); intro y; rewrite Pc, C0, Mc; reflexivity|].
    destruct HW2 as ((_ & _ & W2) & L2 & H2 & _). destruct HW as ((_ & _ & W1) & L1 & H1 & _).
    rewrite L2, H2 in W2. rewrite L1, H1 in W1.
    apply (wfp_unique _ _ _ _ W2 W1). intro y.
    change (free_in (do_restore (fresh_like g c) (c_store c)) y = free_in c y). rewrite Fr, F0. symmetry. apply Mf.
  - destruct Sc as (O & R). unfold conn_scope_eq, same_options in *. conn_simpl_goal. intuition.
Qed.

Lemma scope_eq_sym a b : conn_scope_eq a b -> conn_scope_eq b a.
Proof. unfold conn_scope_eq, same_options. intuition. Qed.
Lemma scope_eq_trans a b c : conn_scope_eq a b -> conn_scope_eq b c -> conn_scope_eq a c.
Proof. unfold conn_scope_eq, same_options. intuition congruence. Qed.
Lemma session_eq_sym a b : session_eq a b -> session_eq b a.
Proof. unfold session_eq. intuition. Qed.

Lemma closed_shape_scope_fresh g c :
  closed_shape c -> pid_bounds g c -> conn_scope_eq c (fresh_like g c).
Proof.
  intros (S1 & S2 & S3 & S4 & S5 & S6 & S7 & S8 & S9 & S10 & S11) (B1 & B2 & B3).
  unfold conn_scope_eq, same_options. rewrite S1, S2, S5, S6, S9, S10, S11, B1, B2, B3.
  unfold fresh_like, conn_new, pm_new. conn_simpl_goal. cbn [a_lo a_hi a_max]. repeat split.
Qed.

(* the restored object, as the application builds it *)
Definition restored (g : cfg) (c : conn) : conn :=
  set_qos2 (do_restore (fresh_like g c) (c_store c)) (fold_left (fun s i => ins i s) (c_qos2 c) []).

(* C16: the reconnect (CONNECT sent by a client / received by a server) has the same outcome —
   state and events — on the original after its transport closed and on the restored object;
   every continuation then behaves the same *)
Theorem restored_resumes_like_original_client g c p :
  1 <= g_idmax g -> closed_shape c -> sess_inv g c -> asc 1 (g_idmax g) (c_qos2 c) -> size_ok c p = true ->
  send_connect c p = send_connect (restored g c) p.
Proof.
  intros Hmax Hsh Hinv Hq Hsz.
  destruct (restored_session_equal g c Hmax Hinv Hq) as (Hs & Hc).
  assert (Hb : pid_bounds g c) by (destruct Hinv as ((_ & B1 & B2 & B3) & _); unfold pid_bounds; auto).
  apply connect_sent_is_scope_and_session; auto.
  - apply (scope_eq_trans _ (fresh_like g c)); [apply closed_shape_scope_fresh; auto|apply scope_eq_sym; exact Hc].
  - apply session_eq_sym. exact Hs.
  - now destruct Hsh.
Qed.

Theorem restored_resumes_like_original_server g c v p :
  1 <= g_idmax g -> closed_shape c -> sess_inv g c -> asc 1 (g_idmax g) (c_qos2 c) ->
  recv_connect g c v (PROk p) = recv_connect g (restored g c) v (PROk p).
Proof.
  intros Hmax Hsh Hinv Hq.
  destruct (restored_session_equal g c Hmax Hinv Hq) as (Hs & Hc).
  assert (Hb : pid_bounds g c) by (destruct Hinv as ((_ & B1 & B2 & B3) & _); unfold pid_bounds; auto).
  apply connect_received_is_scope_and_session; auto.
  - apply (scope_eq_trans _ (fresh_like g c)); [apply closed_shape_scope_fresh; auto|apply scope_eq_sym; exact Hc].
  - apply session_eq_sym. exact Hs.
  - now destruct Hsh.
Qed.

(* malformed exports: restore is a total function — QoS 0 entries, duplicate identifiers,
   identifiers already in use are skipped (no Panic outcome exists for ORestorePackets) *)
Theorem restore_total g c l : exists c', step g c (ORestorePackets l) = Ok (c', [], []).
Proof. eexists. reflexivity. Qed.

Theorem restore_skips_qos0 c p :
  (k_type p =? T_PUBLISH) && (k_qos p =? 0) = true -> restore1 c p = c.
Proof. intro H. unfold restore1. now rewrite H. Qed.

Theorem restore_skips_used g c p :
  WFpid g c -> free_in c (k_pid p) = false -> restore1 c p = c \/ c_store (restore1 c p) = c_store c.
Proof.
  intros (HWF & _) Hf. unfold restore1. destruct (_ && _); [now left|].
  unfold pm_register. destruct (use_value_spec (c_pid c) (k_pid p) HWF) as (a' & HU & _).
  rewrite HU. unfold free_in in Hf. rewrite Hf. now left.
Qed.
