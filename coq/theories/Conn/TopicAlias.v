(* Models of src/mqtt/packet/topic_alias_send.rs and topic_alias_recv.rs.
   IndexMap = association list in insertion order; the per-topic alias Vec is kept as it is in
   the Rust (find_by_topic answers its first element); the HashMap of topics is kept sorted by
   first insertion here and compared as a set by the correspondence. *)
From MQ Require Import Base.Prelude Alloc.Alloc.

Notation topic := (list N).

Record tas := mkTas { ts_max : N; ts_a2t : list (N * topic); ts_t2a : list (topic * list N); ts_va : alloc }.
Record tar := mkTar { tr_max : N; tr_map : list (N * topic) }.

Fixpoint assoc_get {V} (k : N) (l : list (N * V)) : option V :=
  match l with [] => None | (k', v) :: t => if k' =? k then Some v else assoc_get k t end.
Fixpoint assoc_remove {V} (k : N) (l : list (N * V)) : list (N * V) :=
  match l with [] => [] | (k', v) :: t => if k' =? k then t else (k', v) :: assoc_remove k t end.

Fixpoint t2a_get (t : topic) (l : list (topic * list N)) : option (list N) :=
  match l with [] => None | (t', v) :: r => if nlist_eqb t' t then Some v else t2a_get t r end.
Fixpoint t2a_set (t : topic) (v : list N) (l : list (topic * list N)) : list (topic * list N) :=
  match l with
  | [] => [(t, v)]
  | (t', v') :: r => if nlist_eqb t' t then (t, v) :: r else (t', v') :: t2a_set t v r
  end.
Fixpoint t2a_remove (t : topic) (l : list (topic * list N)) : list (topic * list N) :=
  match l with [] => [] | (t', v) :: r => if nlist_eqb t' t then r else (t', v) :: t2a_remove t r end.

(* TopicAliasSend::new — ValueAllocator::new(1, max) asserts 1 <= max; u16::MAX is the type max *)
Definition tas_new (mx : N) : res tas :=
  bindr (a_new 1 mx 65535) (fun va => Ok (mkTas mx [] [] va)).

(* insert_or_update: assert!(!topic.is_empty() && 1 <= alias <= max) *)
Definition tas_insert (s : tas) (t : topic) (a : N) : res tas :=
  if match t with [] => true | _ => false end || (a <? 1) || (ts_max s <? a) then Panic P_ASSERT else
  let '(is_new, va') := a_use_value (ts_va s) a in
  let '(a2t1, t2a1) :=
    if is_new then (ts_a2t s, ts_t2a s) else
    match assoc_get a (ts_a2t s) with
    | Some old =>
        let a2t' := assoc_remove a (ts_a2t s) in
        let t2a' := match t2a_get old (ts_t2a s) with
                    | Some al => let al' := filter (fun x => negb (x =? a)) al in
                                 match al' with [] => t2a_remove old (ts_t2a s) | _ => t2a_set old al' (ts_t2a s) end
                    | None => ts_t2a s
                    end in
        (a2t', t2a')
    | None => (ts_a2t s, ts_t2a s)
    end in
  (* IndexMap::insert: a key still present keeps its position and gets the new value *)
  let a2t2 := match assoc_get a a2t1 with
              | Some _ => map (fun kv => if fst kv =? a then (a, t) else kv) a2t1
              | None => a2t1 ++ [(a, t)]
              end in
  let t2a2 := match t2a_get t t2a1 with
              | Some al => t2a_set t (al ++ [a]) t2a1
              | None => t2a1 ++ [(t, [a])]
              end in
  Ok (mkTas (ts_max s) a2t2 t2a2 va').

(* get: touches the LRU order *)
Definition tas_get (s : tas) (a : N) : option topic * tas :=
  if (1 <=? a) && (a <=? ts_max s) then
    match assoc_get a (ts_a2t s) with
    | Some t => (Some t, mkTas (ts_max s) (assoc_remove a (ts_a2t s) ++ [(a, t)]) (ts_t2a s) (ts_va s))
    | None => (None, s)
    end
  else (None, s).

Definition tas_peek (s : tas) (a : N) : option topic :=
  if (1 <=? a) && (a <=? ts_max s) then assoc_get a (ts_a2t s) else None.

Definition tas_find_by_topic (s : tas) (t : topic) : option N :=
  match t2a_get t (ts_t2a s) with Some (a :: _) => Some a | _ => None end.

(* get_lru_alias: assert!(max > 0); a vacant alias first, else the least recently used *)
Definition tas_lru (s : tas) : res N :=
  if ts_max s =? 0 then Panic P_ASSERT else
  match a_first_vacant (ts_va s) with
  | Some a => Ok a
  | None => match ts_a2t s with (a, _) :: _ => Ok a | [] => Ok 1 end
  end.

Definition tar_new (mx : N) : tar := mkTar mx [].

(* HashMap insert; kept sorted by alias so that the digest comparison is canonical *)
Fixpoint tar_put (a : N) (t : topic) (l : list (N * topic)) : list (N * topic) :=
  match l with
  | [] => [(a, t)]
  | (a', t') :: r => if a <? a' then (a, t) :: l else if a' <? a then (a', t') :: tar_put a t r else (a, t) :: r
  end.

Definition tar_insert (r : tar) (t : topic) (a : N) : res tar :=
  if match t with [] => true | _ => false end || (a <? 1) || (tr_max r <? a) then Panic P_ASSERT
  else Ok (mkTar (tr_max r) (tar_put a t (tr_map r))).

Definition tar_get (r : tar) (a : N) : option topic :=
  if (1 <=? a) && (a <=? tr_max r) then assoc_get a (tr_map r) else None.
