(* C01 / C12, model side: v5.0 TRAFFIC IN BOTH DIRECTIONS with several exchanges in flight each way, Receive Maximum and Maximum
   Packet Size negotiated in both directions.  As PairBi.v: the invariant is the v5.0 one-direction invariant of PairConc5.v
   twice, and every action of the two-way system is an action of one of the two one-way systems that leaves the other's
   invariant intact (frame lemmas: a receiver's step does not touch the sender role's sets, limits or account; a sender's
   step does not touch the handled set, the outstanding set or the announced maximum). *)
From Coq Require Import Permutation.
From MQ Require Import Base.Prelude Alloc.Alloc Alloc.SetSpec Alloc.AllocProofs Framing.Framing
                       Conn.Types Conn.TopicAlias Conn.ConnRecord Conn.Step Conn.Run Corr.ConnTrace Conn.Scope Conn.IdsQuota Conn.WfInv
                       Conn.Own Conn.OwnFrame Conn.OwnStep Conn.Qos2Dup Conn.TasBounds Conn.NoPanic Conn.Restore
                       Conn.PairQos Conn.PairQos5 Conn.PairSeq Conn.PairSeq5 Conn.PairConc Conn.PairConc5 Conn.PairBi.

(* ---- a receiver's steps leave its sender role alone ---- *)
Definition SF (a b : conn) : Prop := F8 a b /\ KF a b /\ c_send_count a = c_send_count b.
Lemma sf_refl a : SF a a. Proof. split; [apply f8_refl|split; [apply kf_refl|reflexivity]]. Qed.
Lemma sf_trans a b c : SF a b -> SF b c -> SF a c.
Proof. intros (F1 & K1 & C1) (F2 & K2 & C2). split; [exact (f8_trans _ _ _ F1 F2)|split; [exact (kf_trans _ _ _ K1 K2)|congruence]]. Qed.

Lemma auto_ack5_f8 g c t id : ready5 c -> ack_fits g c -> t = T_PUBACK \/ t = T_PUBREC \/ t = T_PUBCOMP ->
  match send_puback_like c (ack_pkt g t V50 id None) with
  | Ok (c1, _) => SF c1 c
  | Panic _ => True
  end.
Proof.
  intros [Rv Rs] Hfit Ht. unfold send_puback_like. change (k_ver (ack_pkt g t V50 id None)) with V50. cbn [version_eqb andb].
  assert (Hsz : size_ok c (ack_pkt g t V50 id None) = true) by (unfold size_ok; apply N.leb_le; exact Hfit).
  rewrite Hsz, Rs. cbn [negb].
  change (k_rc_present (ack_pkt g t V50 id None)) with false. change (k_type (ack_pkt g t V50 id None)) with t.
  change (k_pid (ack_pkt g t V50 id None)) with id. rewrite !andb_false_r.
  match goal with |- context [send_and_post ?x _ _ _] => set (cx := x) end.
  assert (Hx : SF cx c) by (unfold cx; destruct (_ || _); unfold SF, F8, KF; repeat split).
  clearbody cx.
  pose proof (send_and_post_k cx (ack_pkt g t V50 id None) None) as K.
  destruct (send_and_post cx _ None []) as [[c1 e]|]; [|exact I]. destruct K as (_ & _ & _ & _ & F & KK & KC & _).
  apply (sf_trans _ cx); [split; [exact F|split; [exact KK|exact KC]]|exact Hx].
Qed.

Lemma receiver5_f8 g c x : ready5 c -> c_auto_pub c = true -> ack_fits g c -> (k_type x = T_PUBLISH -> recv_quota_left c) ->
  (v5_pub x 1 \/ (v5_pub x 2 /\ mem (k_pid x) (c_qos2 c) = false) \/ (k_type x = T_PUBREL /\ mem (k_pid x) (c_qos2 c) = true)) ->
  match deliver g c x with Ok (c1, _) => SF c1 c | Panic _ => True end.
Proof.
  intros [Rv Rs] Ha Hfit Hrq Hk. unfold deliver, dispatch_recv. rewrite Rv.
  assert (Hfin : forall c0 t, SF c0 c -> t = T_PUBACK \/ t = T_PUBREC \/ t = T_PUBCOMP ->
            match send_puback_like c0 (ack_pkt g t V50 (k_pid x) None) with
            | Ok (c2, _) => SF c2 c | Panic _ => True end).
  { intros c0 t S0 Ht. pose proof S0 as (_ & K0 & _).
    assert (R0 : ready5 c0) by (apply (ready5_kf _ _ K0); split; assumption).
    assert (A0 : ack_fits g c0) by exact (ack_fits_kf g _ _ K0 Hfit).
    pose proof (auto_ack5_f8 g c0 t (k_pid x) R0 A0 Ht) as H. destruct (send_puback_like c0 _) as [[c1 e1]|]; [|exact I].
    exact (sf_trans _ _ _ H S0). }
  assert (Hov : k_type x = T_PUBLISH -> match c_recv_max c with Some mx => mx <=? N.of_nat (length (c_publish_recv c)) | None => false end = false)
    by (intro Hx; exact (recv_not_over c (Hrq Hx))).
  assert (Hend : forall c1, SF c1 c -> SF (fst (refresh_pingreq_recv c1)) c).
  { intros c1 S1. pose proof (refresh_keeps c1) as K. pose proof (kf_refresh c1) as R. cbv zeta in K. destruct (refresh_pingreq_recv c1) as [c2 e3]. cbn [fst] in *.
    destruct K as (F2 & _), R as (R1 & R2 & _). apply (sf_trans _ c1); [split; [exact F2|split; [exact R1|exact R2]]|exact S1]. }
  destruct Hk as [Hp|[[Hp Hn]|[Ht Hm]]].
  - destruct Hp as (Ht & Hv & Hq & Hte & Hal). rewrite Ht.
    change (T_PUBLISH =? 1) with false. change (T_PUBLISH =? 2) with false. change (T_PUBLISH =? 3) with true. cbn [version_eqb]. cbv iota.
    unfold recv_publish_v5. cbv zeta. rewrite Hq. change (1 =? 0) with false. change (1 =? 1) with true. change (1 =? 2) with false. cbn [negb andb].
    rewrite (Hov Ht), Rs, Ha. cbn [andb]. unfold resolve_recv_alias. rewrite Hte, Hal. cbn [bindr]. unfold note_handled. rewrite Hq. change (1 =? 2) with false. cbv iota.
    unfold note_inbound. rewrite Hq. change (negb (1 =? 0)) with true. cbv iota.
    set (c0 := set_publish_recv c (ins (k_pid x) (c_publish_recv c))).
    assert (S0 : SF c0 c) by (unfold SF, F8, KF; repeat split).
    pose proof (Hfin c0 T_PUBACK S0 ltac:(now left)) as H.
    destruct (send_puback_like c0 _) as [[c1 e1]|]; cbn [bindr] in *; [|exact I].
    pose proof (Hend c1 H) as H'. destruct (refresh_pingreq_recv c1) as [c2 e3]. exact H'.
  - destruct Hp as (Ht & Hv & Hq & Hte & Hal). rewrite Ht.
    change (T_PUBLISH =? 1) with false. change (T_PUBLISH =? 2) with false. change (T_PUBLISH =? 3) with true. cbn [version_eqb]. cbv iota.
    unfold recv_publish_v5. cbv zeta. rewrite Hq. change (2 =? 0) with false. change (2 =? 1) with false. change (2 =? 2) with true. cbn [negb andb].
    rewrite (Hov Ht), Rs, Ha, Hn. cbn [andb orb]. unfold resolve_recv_alias. rewrite Hte, Hal. cbn [bindr]. unfold note_handled. rewrite Hq. change (2 =? 2) with true. cbv iota.
    unfold note_inbound. rewrite Hq. change (negb (2 =? 0)) with true. cbv iota.
    match goal with |- context [send_puback_like ?y _] => set (c0 := y) end.
    assert (S0 : SF c0 c) by (unfold c0, SF, F8, KF; repeat split).
    pose proof (Hfin c0 T_PUBREC S0 ltac:(right; now left)) as H.
    destruct (send_puback_like c0 _) as [[c1 e1]|]; cbn [bindr] in *; [|exact I].
    pose proof (Hend c1 H) as H'. destruct (refresh_pingreq_recv c1) as [c2 e3]. exact H'.
  - rewrite Ht.
    change (T_PUBREL =? 1) with false. change (T_PUBREL =? 2) with false. change (T_PUBREL =? 3) with false.
    change ((T_PUBREL =? 4) || (T_PUBREL =? 5) || (T_PUBREL =? 7) || (T_PUBREL =? 9) || (T_PUBREL =? 11)) with false.
    change (T_PUBREL =? 6) with true. cbv iota. unfold recv_pubrel. cbv zeta. rewrite Hm.
    match goal with |- context [send_puback_like ?y _] => set (c0 := y) end.
    assert (S0 : SF c0 c) by (unfold c0, SF, F8, KF; repeat split).
    assert (A0 : c_auto_pub c0 = true) by exact Ha. assert (T0 : c_status c0 = c_status c) by reflexivity.
    pose proof (Hfin c0 T_PUBCOMP S0 ltac:(right; now right)) as H. clearbody c0.
    rewrite ?A0, ?T0, ?Rs. cbn [andb version_eqb negb].
    destruct (send_puback_like c0 _) as [[c1 e1]|]; cbn [bindr] in *; [|exact I].
    pose proof (Hend c1 H) as H'. destruct (refresh_pingreq_recv c1) as [c2 e3]. exact H'.
Qed.

(* ---- the one-direction v5.0 invariant only looks at the sender role of one endpoint and the receiver role of the other ---- *)
Lemma inv5_frame_sender gs gr c c' r qs qr pu de : inv5 gs gr (mkSys c r qs qr pu de) -> SF c' c -> inv5 gs gr (mkSys c' r qs qr pu de).
Proof.
  unfold inv5, flight. cbn [cs cr qsr qrs published delivered].
  intros (HO & Rs & Has & Hta & Hfs & Hcnt & Rr & Har & Hfr & Hasc & Hpr & Hrm & Fsr & Frs & Hrest) (F & K & C).
  pose proof F as (F1 & F2 & F3 & F4 & F5 & _). pose proof (kf_fields _ _ K) as (K1 & K2 & K3 & K4 & K5 & K6 & K7).
  split; [exact (f8_own gs c c' F HO)|]. split; [exact (ready5_kf _ _ K Rs)|]. split; [congruence|]. split; [congruence|].
  split; [exact (ack_fits_kf gs _ _ K Hfs)|]. split; [intros m Hm; rewrite C; apply Hcnt; congruence|].
  split; [exact Rr|]. split; [exact Har|]. split; [exact Hfr|]. split; [exact Hasc|]. split; [exact Hpr|].
  split; [intros R HR; destruct (Hrm R HR) as (m & E1 & E2); exists m; split; [congruence|exact E2]|].
  split; [eapply Forall_impl; [|exact Fsr]; intros x Hx; unfold fl_sr5, is_used in *; rewrite F1, F3, F4, F5; exact Hx|].
  split; [eapply Forall_impl; [|exact Frs]; intros x Hx; unfold fl_rs5, is_used in *; rewrite F1, F3, F4, F5; exact Hx|].
  exact Hrest.
Qed.
Lemma inv5_frame_receiver gs gr c r r' qs qr pu de : inv5 gs gr (mkSys c r qs qr pu de) -> KF r' r ->
  c_qos2 r' = c_qos2 r -> c_publish_recv r' = c_publish_recv r -> inv5 gs gr (mkSys c r' qs qr pu de).
Proof.
  unfold inv5, flight. cbn [cs cr qsr qrs published delivered].
  intros (HO & Rs & Has & Hta & Hfs & Hcnt & Rr & Har & Hfr & Hasc & Hpr & Hrm & Hrest) K Q P.
  pose proof (kf_fields _ _ K) as (K1 & K2 & K3 & K4 & K5 & K6 & K7). rewrite Q, P.
  split; [exact HO|]. split; [exact Rs|]. split; [exact Has|]. split; [exact Hta|]. split; [exact Hfs|]. split; [exact Hcnt|].
  split; [exact (ready5_kf _ _ K Rr)|]. split; [congruence|]. split; [exact (ack_fits_kf gr _ _ K Hfr)|]. split; [exact Hasc|]. split; [exact Hpr|].
  split; [intros R HR; apply Hrm; congruence|]. exact Hrest.
Qed.

(* what the invariant says about the head of the publisher-to-receiver link: the receiver has room for it, and it is a
   first PUBLISH or the PUBREL of an exchange the receiver has handled *)
Lemma inv5_head gs gr c r x t qr pu de : inv5 gs gr (mkSys c r (x :: t) qr pu de) ->
  (k_type x = T_PUBLISH -> recv_quota_left r) /\
  (v5_pub x 1 \/ (v5_pub x 2 /\ mem (k_pid x) (c_qos2 r) = false) \/ (k_type x = T_PUBREL /\ mem (k_pid x) (c_qos2 r) = true)).
Proof.
  unfold inv5, flight. cbn [cs cr qsr qrs published delivered].
  intros (HO & Rs & Has & Hta & Hfs & Hcnt & Rr & Har & Hfr & Hasc & Hpr & Hrm & Fsr & Frs & Hnd & Hq & Hprp & Hplp & Hpd).
  pose proof (Forall_inv Fsr) as Hx. cbn [ids map app] in Hnd.
  assert (Hnx : ~ In (k_pid x) (ids t ++ ids qr)) by (apply NoDup_cons_iff in Hnd; apply Hnd).
  assert (Hn2 : k_type x = T_PUBLISH -> mem (k_pid x) (c_qos2 r) = false).
  { intro Htp. destruct (mem (k_pid x) (c_qos2 r)) eqn:E; [|reflexivity]. exfalso. destruct (Hq _ E) as [Hi|Hi].
    - apply Hnx. apply in_or_app. right. apply in_ids in Hi. exact Hi.
    - destruct Hi as [Hi|Hi]; [rewrite Hi in Htp; discriminate Htp|]. apply Hnx. apply in_or_app. left. apply in_ids in Hi. exact Hi. }
  destruct Hx as [Hu [[Hp Hm]|[[Hp Hm]|[He Hm]]]].
  - split; [intros _|left; exact Hp]. destruct Hp as (Htp & _).
    unfold recv_quota_left. rewrite Hpr. destruct (c_recv_max r) as [R|] eqn:ER; [|exact I]. destruct (Hrm R eq_refl) as (m & Hm' & HmR).
    destruct (Hcnt m Hm') as [_ Hfl]. pose proof (handled_le_flight gs gr (c_qos2 r) t qr x Hasc Htp Hq) as Hl. cbn [length] in Hfl. lia.
  - split; [intros _|right; left; split; [exact Hp|apply Hn2; apply Hp]]. destruct Hp as (Htp & _).
    unfold recv_quota_left. rewrite Hpr. destruct (c_recv_max r) as [R|] eqn:ER; [|exact I]. destruct (Hrm R eq_refl) as (m & Hm' & HmR).
    destruct (Hcnt m Hm') as [_ Hfl]. pose proof (handled_le_flight gs gr (c_qos2 r) t qr x Hasc Htp Hq) as Hl. cbn [length] in Hfl. lia.
  - assert (Ht : k_type x = T_PUBREL) by (rewrite He; reflexivity).
    assert (Hmm : mem (k_pid x) (c_qos2 r) = true) by (apply Hplp; [now left|exact Ht]).
    split; [intro Hx; rewrite Ht in Hx; discriminate Hx|right; right; split; assumption].
Qed.

(* ---- the two-way v5.0 system: the state, links and deliveries are those of PairBi.v; publishing has the v5.0 precondition ---- *)
Section Bi5.
Variables gA gB : cfg.

Definition publish_at5 (g : cfg) (c : conn) (p : pkt) : pres :=
  let id := k_pid p in
  if negb ((1 <=? id) && (id <=? g_idmax g) && negb (is_used c id) && freshb c id && size_ok c p &&
           match c_send_max c with Some mx => c_send_count c <? mx | None => true end) then PSkip else
  match step g c (ORegister id) with
  | Ok (c0, [], [1]) =>
    match step g c0 (OSend p) with
    | Ok (c1, e1, _) =>
      match one (sends e1) with
      | Some p1 => if negb (none (notifies e1) && none (errors e1)) then PBad else PNext c1 p1
      | None => PBad
      end
    | Panic _ => PBad
    end
  | _ => PBad
  end.
Definition do_pubA5 (s : bi) (p : pkt) : res2 :=
  match publish_at5 gA (ea s) p with
  | PNext a' p1 => Next2 (mkBi a' (eb s) (qab s ++ [p1]) (qba s) (pubA s ++ [p]) (delB s) (pubB s) (delA s))
  | PSkip => Skip2 | PBad => Bad2
  end.
Definition do_pubB5 (s : bi) (p : pkt) : res2 :=
  match publish_at5 gB (eb s) p with
  | PNext b' p1 => Next2 (mkBi (ea s) b' (qab s) (qba s ++ [p1]) (pubA s) (delB s) (pubB s ++ [p]) (delA s))
  | PSkip => Skip2 | PBad => Bad2
  end.
Definition do_act25 (s : bi) (a : act2) : res2 :=
  match a with PubA p => do_pubA5 s p | PubB p => do_pubB5 s p | ToB => do_toB gB s | ToA => do_toA gA s end.
Fixpoint run_sched25 (s : bi) (l : list act2) : option bi :=
  match l with
  | [] => Some s
  | a :: t => match do_act25 s a with Next2 s' => run_sched25 s' t | Skip2 => run_sched25 s t | Bad2 => None end
  end.

Definition inv25 (s : bi) : Prop := inv5 gA gB (vAB s) /\ inv5 gB gA (vBA s).

Lemma fl_sr5_is_sr g c x : fl_sr5 g c x -> is_sr x = true.
Proof.
  intros (_ & [[(Ht & _) _]|[[(Ht & _) _]|[He _]]]).
  - unfold is_sr. rewrite Ht. reflexivity.
  - unfold is_sr. rewrite Ht. reflexivity.
  - rewrite He. reflexivity.
Qed.
Lemma fl_rs5_not_sr g c x : fl_rs5 g c x -> is_sr x = false.
Proof. intros (_ & [[He _]|[[He _]|[He _]]]); rewrite He; reflexivity. Qed.

(* an acknowledgement processed by the sender role leaves the receiver role of the same endpoint alone *)
Lemma sender_ack5_q gX gY c x : OWN gX c -> ready5 c -> c_auto_pub c = true -> ack_fits gX c -> fl_rs5 gY c x ->
  match deliver gX c x with Ok (c2, _) => KF c2 c /\ c_qos2 c2 = c_qos2 c /\ c_publish_recv c2 = c_publish_recv c | Panic _ => True end.
Proof.
  intros HO R A Hf (Hu & [[He Hm]|[[He Hm]|[He Hm]]]).
  - assert (V : k_ver x = V50) by (rewrite He; reflexivity). assert (T : k_type x = T_PUBACK) by (rewrite He; reflexivity).
    pose proof (sender_final_ack5_x gX c x T_PUBACK HO R V T (or_introl eq_refl) Hm Hu) as H1.
    pose proof (sender_final5_sets gX c x T_PUBACK HO R V T (or_introl eq_refl) Hm Hu) as H2.
    destruct (deliver gX c x) as [[c2 e]|]; [|exact I]. destruct H1 as (_ & _ & _ & _ & K & _), H2 as (_ & _ & _ & _ & Q & P).
    split; [exact K|split; assumption].
  - assert (V : k_ver x = V50) by (rewrite He; reflexivity). assert (T : k_type x = T_PUBREC) by (rewrite He; reflexivity).
    assert (RC : k_rc_present x = false) by (rewrite He; reflexivity).
    pose proof (sender_pubrec5_x gX c x HO R A Hf V T RC Hm Hu) as H1.
    pose proof (sender_pubrec5_sets gX c x HO R A Hf V T RC Hm Hu) as H2.
    destruct (deliver gX c x) as [[c2 e]|]; [|exact I]. destruct H1 as (_ & _ & _ & _ & K & _), H2 as (_ & _ & _ & _ & Q & P).
    split; [exact K|split; assumption].
  - assert (V : k_ver x = V50) by (rewrite He; reflexivity). assert (T : k_type x = T_PUBCOMP) by (rewrite He; reflexivity).
    pose proof (sender_final_ack5_x gX c x T_PUBCOMP HO R V T (or_intror eq_refl) Hm Hu) as H1.
    pose proof (sender_final5_sets gX c x T_PUBCOMP HO R V T (or_intror eq_refl) Hm Hu) as H2.
    destruct (deliver gX c x) as [[c2 e]|]; [|exact I]. destruct H1 as (_ & _ & _ & _ & K & _), H2 as (_ & _ & _ & _ & Q & P).
    split; [exact K|split; assumption].
Qed.

(* ---- one delivery, seen from both one-way systems ---- *)
Lemma deliver_step5 gX gY (X Y : conn) qyx pubX delY pubY delX x t :
  inv5 gX gY (mkSys X Y (sr_part (x :: t)) (rs_part qyx) pubX delY) ->
  inv5 gY gX (mkSys Y X (sr_part qyx) (rs_part (x :: t)) pubY delX) ->
  match deliver_to gY Y x with
  | DNext Y' out d => inv5 gX gY (mkSys X Y' (sr_part t) (rs_part (qyx ++ out)) pubX (delY ++ d)) /\
                      inv5 gY gX (mkSys Y' X (sr_part (qyx ++ out)) (rs_part t) pubY delX) /\
                      S (measure (mkSys X Y' (sr_part t) (rs_part (qyx ++ out)) pubX (delY ++ d)) +
                         measure (mkSys Y' X (sr_part (qyx ++ out)) (rs_part t) pubY delX)) =
                      (measure (mkSys X Y (sr_part (x :: t)) (rs_part qyx) pubX delY) +
                       measure (mkSys Y X (sr_part qyx) (rs_part (x :: t)) pubY delX))%nat
  | DBad => False
  end.
Proof.
  intros H1 H2. unfold deliver_to. destruct (is_sr x) eqn:Es.
  - assert (E1 : sr_part (x :: t) = x :: sr_part t) by (unfold sr_part; cbn [filter]; now rewrite Es).
    assert (E2 : rs_part (x :: t) = rs_part t) by (unfold rs_part; cbn [filter]; now rewrite Es).
    rewrite E1 in *. rewrite E2 in *.
    pose proof (to_r5_step gX gY _ H1) as T. unfold do_to_r in T. cbn [cs cr qsr qrs published delivered] in T.
    destruct (inv5_head gX gY _ _ _ _ _ _ _ H1) as [Hrq Hk].
    pose proof H1 as (_ & _ & _ & _ & _ & _ & RY & AY & FY & _). cbn [cs cr qsr qrs published delivered] in RY, AY, FY.
    pose proof (receiver5_f8 gY Y x RY AY FY Hrq Hk) as HF.
    destruct (deliver gY Y x) as [[Y1 e]|]; [|exact T]. destruct (one (sends e)) as [a|]; [|exact T]. destruct (negb (none (errors e))); [exact T|].
    destruct T as [T Tm].
    pose proof T as (_ & _ & _ & _ & _ & _ & _ & _ & _ & _ & _ & _ & _ & Frs' & _). cbn [cs cr qsr qrs published delivered] in Frs'.
    apply Forall_app in Frs' as [_ Fa]. pose proof (Forall_inv Fa) as Hfa. pose proof (fl_rs5_not_sr gY X a Hfa) as Ea.
    destruct (part_rs a Ea) as [P1 P2]. rewrite rs_app, sr_app, P1, P2, app_nil_r.
    split; [exact T|]. split; [apply (inv5_frame_sender gY gX Y Y1); [exact H2|exact HF]|].
    unfold measure in *. cbn [qsr qrs] in *. lia.
  - assert (E1 : sr_part (x :: t) = sr_part t) by (unfold sr_part; cbn [filter]; now rewrite Es).
    assert (E2 : rs_part (x :: t) = x :: rs_part t) by (unfold rs_part; cbn [filter]; now rewrite Es).
    rewrite E1 in *. rewrite E2 in *.
    pose proof (to_s5_step gY gX _ H2) as T. unfold do_to_s in T. cbn [cs cr qsr qrs published delivered] in T.
    pose proof H2 as (OY & RY & AY & _ & FY & _ & _ & _ & _ & _ & _ & _ & _ & Frs & _). cbn [cs cr qsr qrs published delivered] in OY, RY, AY, FY, Frs.
    pose proof (Forall_inv Frs) as Hfx. pose proof (sender_ack5_q gY gX Y x OY RY AY FY Hfx) as HQ.
    destruct (deliver gY Y x) as [[Y1 e]|]; [|exact T]. destruct HQ as (KQ & QQ & PQ). destruct (negb (none (errors e))); [exact T|].
    destruct (sends e) as [|r [|r2 l2]]; [| |exact T].
    + destruct (released e) as [|i [|i2 l2]]; [exact T| |exact T]. destruct (i =? k_pid x); [|exact T].
      destruct T as [T Tm]. rewrite !app_nil_r.
      split; [apply (inv5_frame_receiver gX gY X Y Y1); [exact H1|exact KQ|exact QQ|exact PQ]|]. split; [exact T|].
      unfold measure in *. cbn [qsr qrs] in *. lia.
    + destruct (none (released e)); [|exact T]. destruct T as [T Tm].
      pose proof T as (_ & _ & _ & _ & _ & _ & _ & _ & _ & _ & _ & _ & Fsr' & _). cbn [cs cr qsr qrs published delivered] in Fsr'.
      apply Forall_app in Fsr' as [_ Fr]. pose proof (Forall_inv Fr) as Hfr. pose proof (fl_sr5_is_sr gY Y1 r Hfr) as Er.
      destruct (part_sr r Er) as [P1 P2]. rewrite rs_app, sr_app, P1, P2, !app_nil_r.
      split; [apply (inv5_frame_receiver gX gY X Y Y1); [exact H1|exact KQ|exact QQ|exact PQ]|]. split; [exact T|].
      unfold measure in *. cbn [qsr qrs] in *. lia.
Qed.

(* ---- one publication, seen from both one-way systems ---- *)
Lemma publish_step5 gX gY (X Y : conn) qxy qyx pubX delY pubY delX p q : v5_pub p q -> q = 1 \/ q = 2 ->
  inv5 gX gY (mkSys X Y (sr_part qxy) (rs_part qyx) pubX delY) ->
  inv5 gY gX (mkSys Y X (sr_part qyx) (rs_part qxy) pubY delX) ->
  match publish_at5 gX X p with
  | PNext X' p1 => inv5 gX gY (mkSys X' Y (sr_part (qxy ++ [p1])) (rs_part qyx) (pubX ++ [p]) delY) /\
                   inv5 gY gX (mkSys Y X' (sr_part qyx) (rs_part (qxy ++ [p1])) pubY delX)
  | PSkip => True
  | PBad => False
  end.
Proof.
  intros Hp Hq H1 H2. pose proof (pub5_ok gX gY _ p q H1 Hp Hq) as T. unfold do_pub5 in T. cbn [cs cr qsr qrs published delivered] in T. cbv zeta in T.
  unfold publish_at5. cbv zeta.
  destruct (negb _) eqn:Epre; [exact I|]. apply negb_false_iff in Epre.
  apply andb_true_iff in Epre as [Epre E6]. apply andb_true_iff in Epre as [Epre E5]. apply andb_true_iff in Epre as [Epre E4].
  apply andb_true_iff in Epre as [Epre E3]. apply andb_true_iff in Epre as [E1 E2].
  apply N.leb_le in E1, E2. apply negb_true_iff in E3. apply freshb_spec in E4.
  pose proof H1 as (OX & RX & AX & TX & FX & _). cbn [cs] in OX, RX, AX, TX, FX.
  destruct (register_k gX X (k_pid p) OX (conj E1 E2) E3 E4) as (X0 & Ereg & O0 & U0 & F0 & K0 & C0). rewrite Ereg in *.
  pose proof (kf_fields _ _ K0) as (K01 & K02 & K03 & K04 & K05 & K06 & K07).
  assert (R0 : ready5 X0) by exact (ready5_kf _ _ K0 RX).
  assert (HQ0 : c_qos2 X0 = c_qos2 X /\ c_publish_recv X0 = c_publish_recv X).
  { destruct (register_ae gX X (k_pid p) OX (conj E1 E2) E3) as (a & Ereg' & _). rewrite Ereg in Ereg'. injection Ereg' as ->. split; reflexivity. }
  destruct HQ0 as [HQ0 HP0].
  rewrite (step_send_publish_v5 gX X0 p q (proj1 R0) Hp) in *.
  assert (Hsz0 : size_ok X0 p = true) by (unfold size_ok in *; now rewrite K05).
  assert (Hq0 : quota_left X0).
  { unfold quota_left. rewrite K06, C0. destruct (c_send_max X) as [mx|]; [apply N.ltb_lt; exact E6|exact I]. }
  pose proof (sender_sends5_x gX X0 p q O0 R0 Hp ltac:(destruct Hq; lia) F0 U0 Hsz0 ltac:(congruence) Hq0) as S1.
  pose proof (sender_sends5_sets gX X0 p q O0 R0 Hp ltac:(destruct Hq; lia) F0 U0 Hsz0 ltac:(congruence) Hq0) as S2.
  destruct (send_publish_v5 gX X0 p) as [[X1 e1]|]; cbn [bindr] in *; [|exact T].
  destruct S1 as (_ & _ & _ & _ & K1 & _), S2 as (_ & _ & _ & _ & Q1 & P1).
  destruct (one (sends e1)) as [p1|]; [|exact T]. destruct (negb _); [exact T|].
  pose proof T as (_ & _ & _ & _ & _ & _ & _ & _ & _ & _ & _ & _ & Fsr' & _). cbn [cs cr qsr qrs published delivered] in Fsr'.
  apply Forall_app in Fsr' as [_ Fp]. pose proof (Forall_inv Fp) as Hfp. pose proof (fl_sr5_is_sr gX X1 p1 Hfp) as Ep.
  destruct (part_sr p1 Ep) as [P1' P2']. rewrite rs_app, sr_app, P1', P2', app_nil_r.
  split; [exact T|]. apply (inv5_frame_receiver gY gX Y X X1); [exact H2|exact (kf_trans _ _ _ K1 K0)|congruence|congruence].
Qed.

(* ---- every action of the two-way system ---- *)
Lemma toB5_step s : inv25 s -> match do_toB gB s with Next2 s' => inv25 s' /\ S (measure2 s') = measure2 s | Skip2 => qab s = [] | Bad2 => False end.
Proof.
  destruct s as [a b qab0 qba0 pa db pb da]. unfold inv25, do_toB, measure2, vAB, vBA. cbn [ea eb qab qba pubA delB pubB delA].
  intros [H1 H2]. destruct qab0 as [|x t]; [reflexivity|].
  pose proof (deliver_step5 gA gB a b qba0 pa db pb da x t H1 H2) as H.
  destruct (deliver_to gB b x) as [b' out d|]; [|exact H]. cbn [ea eb qab qba pubA delB pubB delA]. destruct H as (K1 & K2 & K3).
  split; [split; assumption|exact K3].
Qed.
Lemma toA5_step s : inv25 s -> match do_toA gA s with Next2 s' => inv25 s' /\ S (measure2 s') = measure2 s | Skip2 => qba s = [] | Bad2 => False end.
Proof.
  destruct s as [a b qab0 qba0 pa db pb da]. unfold inv25, do_toA, measure2, vAB, vBA. cbn [ea eb qab qba pubA delB pubB delA].
  intros [H1 H2]. destruct qba0 as [|x t]; [reflexivity|].
  pose proof (deliver_step5 gB gA b a qab0 pb da pa db x t H2 H1) as H.
  destruct (deliver_to gA a x) as [a' out d|]; [|exact H]. cbn [ea eb qab qba pubA delB pubB delA]. destruct H as (K1 & K2 & K3).
  split; [split; assumption|]. unfold measure in *. cbn [qsr qrs] in *. lia.
Qed.
Lemma pubA5_ok s p q : v5_pub p q -> q = 1 \/ q = 2 -> inv25 s -> match do_pubA5 s p with Next2 s' => inv25 s' | Skip2 => True | Bad2 => False end.
Proof.
  destruct s as [a b qab0 qba0 pa db pb da]. unfold inv25, do_pubA5, vAB, vBA. cbn [ea eb qab qba pubA delB pubB delA].
  intros Hp Hq [H1 H2]. pose proof (publish_step5 gA gB a b qab0 qba0 pa db pb da p q Hp Hq H1 H2) as H.
  destruct (publish_at5 gA a p) as [a' p1| |]; [|exact I|exact H]. cbn [ea eb qab qba pubA delB pubB delA]. exact H.
Qed.
Lemma pubB5_ok s p q : v5_pub p q -> q = 1 \/ q = 2 -> inv25 s -> match do_pubB5 s p with Next2 s' => inv25 s' | Skip2 => True | Bad2 => False end.
Proof.
  destruct s as [a b qab0 qba0 pa db pb da]. unfold inv25, do_pubB5, vAB, vBA. cbn [ea eb qab qba pubA delB pubB delA].
  intros Hp Hq [H1 H2]. pose proof (publish_step5 gB gA b a qba0 qab0 pb da pa db p q Hp Hq H2 H1) as H.
  destruct (publish_at5 gB b p) as [b' p1| |]; [|exact I|exact H]. cbn [ea eb qab qba pubA delB pubB delA]. destruct H as [K1 K2]. split; assumption.
Qed.

Definition good_act25 (a : act2) : Prop := match a with PubA p | PubB p => v5_pub p 1 \/ v5_pub p 2 | _ => True end.

Lemma act25_ok s a : inv25 s -> good_act25 a -> match do_act25 s a with Next2 s' => inv25 s' | Skip2 => True | Bad2 => False end.
Proof.
  intros Hi Hg. destruct a as [p|p| |]; cbn [do_act25 good_act25] in *.
  - destruct Hg as [Hg|Hg]; [apply (pubA5_ok s p 1 Hg); [now left|exact Hi]|apply (pubA5_ok s p 2 Hg); [now right|exact Hi]].
  - destruct Hg as [Hg|Hg]; [apply (pubB5_ok s p 1 Hg); [now left|exact Hi]|apply (pubB5_ok s p 2 Hg); [now right|exact Hi]].
  - pose proof (toB5_step s Hi) as H. destruct (do_toB gB s); [apply H|exact I|exact H].
  - pose proof (toA5_step s Hi) as H. destruct (do_toA gA s); [apply H|exact I|exact H].
Qed.

Theorem sched25_ok : forall l s, inv25 s -> Forall good_act25 l -> exists s', run_sched25 s l = Some s' /\ inv25 s'.
Proof.
  induction l as [|a t IH]; intros s Hi Hf; cbn [run_sched25]; [exists s; split; [reflexivity|exact Hi]|].
  pose proof (Forall_inv Hf) as Ha. pose proof (Forall_inv_tail Hf) as Ht. pose proof (act25_ok s a Hi Ha) as H.
  destruct (do_act25 s a) as [s'| |]; [exact (IH s' H Ht)|exact (IH s Hi Ht)|destruct H].
Qed.

Theorem drain25_ok : forall n s, inv25 s -> (measure2 s <= n)%nat ->
  exists s', run_sched25 s (drain2 n) = Some s' /\ inv25 s' /\ qab s' = [] /\ qba s' = [] /\ pubA s' = pubA s /\ pubB s' = pubB s.
Proof.
  assert (HpB : forall s s', do_toB gB s = Next2 s' -> pubA s' = pubA s /\ pubB s' = pubB s).
  { intros s s'. unfold do_toB. destruct (qab s); [discriminate|]. destruct (deliver_to gB (eb s) p); [|discriminate]. intro H. injection H as <-. split; reflexivity. }
  assert (HpA : forall s s', do_toA gA s = Next2 s' -> pubA s' = pubA s /\ pubB s' = pubB s).
  { intros s s'. unfold do_toA. destruct (qba s); [discriminate|]. destruct (deliver_to gA (ea s) p); [|discriminate]. intro H. injection H as <-. split; reflexivity. }
  induction n as [|k IH]; intros s Hi Hm.
  - assert (H0 : measure2 s = 0%nat) by lia. destruct (measure2_zero s H0) as (Q1 & Q2 & Q3 & Q4). exists s. cbn [drain2 run_sched25].
    split; [reflexivity|]. split; [exact Hi|]. split; [now apply parts_nil|]. split; [now apply parts_nil|]. split; reflexivity.
  - cbn [drain2 run_sched25 do_act25]. pose proof (toB5_step s Hi) as H1. destruct (do_toB gB s) as [s1| |] eqn:E1; [| |destruct H1].
    + destruct H1 as [Hi1 Hm1]. destruct (HpB s s1 E1) as [P1 P1'].
      pose proof (toA5_step s1 Hi1) as H2. destruct (do_toA gA s1) as [s2| |] eqn:E2; [| |destruct H2].
      * destruct H2 as [Hi2 Hm2]. destruct (HpA s1 s2 E2) as [P2 P2'].
        destruct (IH s2 Hi2 ltac:(lia)) as (s' & R & I' & Q1 & Q2 & P & P'). exists s'. split; [exact R|]. split; [exact I'|]. split; [exact Q1|]. split; [exact Q2|]. split; congruence.
      * destruct (IH s1 Hi1 ltac:(lia)) as (s' & R & I' & Q1 & Q2 & P & P'). exists s'. split; [exact R|]. split; [exact I'|]. split; [exact Q1|]. split; [exact Q2|]. split; congruence.
    + pose proof (toA5_step s Hi) as H2. destruct (do_toA gA s) as [s2| |] eqn:E2; [| |destruct H2].
      * destruct H2 as [Hi2 Hm2]. destruct (HpA s s2 E2) as [P2 P2'].
        destruct (IH s2 Hi2 ltac:(lia)) as (s' & R & I' & Q1 & Q2 & P & P'). exists s'. split; [exact R|]. split; [exact I'|]. split; [exact Q1|]. split; [exact Q2|]. split; congruence.
      * assert (H0 : measure2 s = 0%nat) by (unfold measure2, measure, vAB, vBA; cbn [qsr qrs]; rewrite H1, H2; reflexivity).
        destruct (IH s Hi ltac:(lia)) as (s' & R & I' & Q1 & Q2 & P & P'). exists s'. split; [exact R|]. split; [exact I'|]. split; [exact Q1|]. split; [exact Q2|]. split; assumption.
Qed.

(* BOTH DIRECTIONS AT ONCE, v5.0: whatever the schedule of publications by either side (each within the other side's
   Receive Maximum and Maximum Packet Size) and of deliveries on either link, nothing fails and no limit is overrun; once
   the links have drained each application has been notified of exactly what the other published, once each, in order,
   both Receive Maximum accounts are back to full, and neither receiver role holds an outstanding entry *)
Theorem two_way5_exactly_once l s : inv25 s -> Forall good_act25 l ->
  exists s1 s2, run_sched25 s l = Some s1 /\ run_sched25 s1 (drain2 (measure2 s1)) = Some s2 /\
                qab s2 = [] /\ qba s2 = [] /\ delB s2 = pubA s1 /\ delA s2 = pubB s1 /\
                vacancy (ea s2) = c_send_max (ea s2) /\ vacancy (eb s2) = c_send_max (eb s2) /\
                c_publish_recv (ea s2) = [] /\ c_publish_recv (eb s2) = [].
Proof.
  intros Hi Hf. destruct (sched25_ok l s Hi Hf) as (s1 & R1 & I1).
  destruct (drain25_ok (measure2 s1) s1 I1 (le_n _)) as (s2 & R2 & [I2 I2'] & Q1 & Q2 & P & P').
  exists s1, s2. split; [exact R1|]. split; [exact R2|]. split; [exact Q1|]. split; [exact Q2|].
  destruct I2 as (_ & _ & _ & _ & _ & Hc & _ & _ & _ & _ & Hpr & _ & _ & _ & _ & Hq & _ & _ & Hpd).
  destruct I2' as (_ & _ & _ & _ & _ & Hc' & _ & _ & _ & _ & Hpr' & _ & _ & _ & _ & Hq' & _ & _ & Hpd').
  unfold flight in *. cbn [vAB vBA cs cr qsr qrs published delivered] in *. rewrite Q1, Q2 in *.
  unfold sr_part, rs_part in *. cbn [filter length] in *. rewrite app_nil_r in Hpd, Hpd'.
  split; [congruence|]. split; [congruence|].
  split; [unfold vacancy; destruct (c_send_max (ea s2)) as [m|]; [|reflexivity]; destruct (Hc m eq_refl) as [-> _]; f_equal; cbn; lia|].
  split; [unfold vacancy; destruct (c_send_max (eb s2)) as [m|]; [|reflexivity]; destruct (Hc' m eq_refl) as [-> _]; f_equal; cbn; lia|].
  assert (E : forall Q, (forall y, mem y Q = true -> False \/ False) -> Q = []).
  { intros [|y Q'] H; [reflexivity|]. exfalso. destruct (H y); [|assumption|assumption]. unfold mem. cbn [s_mem]. rewrite N.eqb_refl. reflexivity. }
  split; [rewrite Hpr'; apply E; exact Hq'|rewrite Hpr; apply E; exact Hq].
Qed.

Lemma inv25_init a b :
  OWN gA a -> ready5 a -> c_auto_pub a = true -> c_ta_send a = None -> ack_fits gA a -> c_send_count a = 0 -> c_qos2 a = [] -> c_publish_recv a = [] ->
  OWN gB b -> ready5 b -> c_auto_pub b = true -> c_ta_send b = None -> ack_fits gB b -> c_send_count b = 0 -> c_qos2 b = [] -> c_publish_recv b = [] ->
  (forall R, c_recv_max b = Some R -> exists m, c_send_max a = Some m /\ m <= R) ->
  (forall R, c_recv_max a = Some R -> exists m, c_send_max b = Some m /\ m <= R) ->
  inv25 (mkBi a b [] [] [] [] [] []).
Proof. intros. split; apply inv5_init; assumption. Qed.
End Bi5.

(* in every state of every two-way schedule each side's Receive Maximum account is the number of its own exchanges in
   flight (its PUBLISH/PUBREL on one link, their acknowledgements on the other) and within the other side's limit *)
Theorem two_way5_counters gA gB l s : inv25 gA gB s -> Forall good_act25 l ->
  exists s', run_sched25 gA gB s l = Some s' /\
    (forall m, c_send_max (ea s') = Some m -> c_send_count (ea s') = flight (vAB s') /\ flight (vAB s') <= m) /\
    (forall m, c_send_max (eb s') = Some m -> c_send_count (eb s') = flight (vBA s') /\ flight (vBA s') <= m).
Proof.
  intros Hi Hf. destruct (sched25_ok gA gB l s Hi Hf) as (s' & R & [I1 I2]). exists s'. split; [exact R|].
  destruct I1 as (_ & _ & _ & _ & _ & Hc & _). destruct I2 as (_ & _ & _ & _ & _ & Hc' & _). split; [exact Hc|exact Hc'].
Qed.
