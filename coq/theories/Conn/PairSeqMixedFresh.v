(* C01, model side, end to end from fresh objects: two v3.1.1 endpoints created with [conn_new], the handshake
   (CONNECT / CONNACK, Clean Session), then the client publishes ANY sequence of messages of ANY mix of QoS 0 / 1 / 2 and
   after that the server publishes any such sequence back.  Nothing fails, each application is notified of exactly the other
   side's messages, once each, in order.  (PairSeqMixed.v is the step; the pair invariant after the handshake is the first
   six clauses of the two-way invariant that PairHandshake311.v establishes.) *)
From MQ Require Import Base.Prelude Alloc.Alloc Alloc.SetSpec Alloc.AllocProofs Framing.Framing
                       Conn.Types Conn.TopicAlias Conn.ConnRecord Conn.Step Conn.Run Corr.ConnTrace Conn.Scope Conn.IdsQuota Conn.WfInv
                       Conn.Own Conn.OwnFrame Conn.OwnStep Conn.Qos2Dup Conn.TasBounds Conn.NoPanic Conn.PairQos Conn.PairSeq
                       Conn.PairConc Conn.PairBi Conn.PairHandshake311 Conn.PairSeqMixed.

Lemma inv_pair_inv gs gr s : inv gs gr s -> pair_inv gs (cs s) (cr s).
Proof. intros (H1 & H2 & H3 & H4 & H5 & H6 & _). repeat (split; [assumption|]). assumption. Qed.

Lemma inv2_pair_inv gA gB a b : inv2 gA gB (mkBi a b [] [] [] [] [] []) -> pair_inv gA a b /\ pair_inv gB b a.
Proof. intros [H1 H2]. split; [exact (inv_pair_inv _ _ _ H1)|exact (inv_pair_inv _ _ _ H2)]. Qed.

(* the run of a sequence, as a relation: it ended normally having notified exactly [ps], or stopped on the publishing
   application's own precondition (an identifier out of range, in use, awaited, or still held by the receiver) *)
Definition ran (o : outcome) (ps : list pkt) (P : conn -> conn -> Prop) : Prop :=
  match o with Done c1 c2 d => d = ps /\ P c1 c2 | AppPre => True | Fail => False end.

Theorem fresh_v311_mixed_sequence gA gB cn ca ps :
  1 <= g_idmax gA -> 1 <= g_idmax gB -> role_client_ok gA = true -> role_server_ok gB = true ->
  k_type cn = T_CONNECT -> k_ver cn = V311 -> k_flag cn = true ->
  k_type ca = T_CONNACK -> k_ver ca = V311 -> k_rc ca = 0 -> k_flag ca = false ->
  Forall v311_any ps ->
  let A0 := set_auto_pub (conn_new gA V311) true in
  let B0 := set_auto_pub (conn_new gB V311) true in
  exists A1 e1 B1 e2 B2 e3 A2 e4,
    step gA A0 (OSend cn) = Ok (A1, e1, []) /\ sends e1 = [cn] /\
    deliver gB B0 cn = Ok (B1, e2) /\ notifies e2 = [cn] /\
    step gB B1 (OSend ca) = Ok (B2, e3, []) /\ sends e3 = [ca] /\
    deliver gA A1 ca = Ok (A2, e4) /\ notifies e4 = [ca] /\
    errors e1 = [] /\ errors e2 = [] /\ errors e3 = [] /\ errors e4 = [] /\
    ran (run_mixed gA gB A2 B2 ps) ps (pair_inv gA) /\          (* the client publishes to the server *)
    ran (run_mixed gB gA B2 A2 ps) ps (pair_inv gB).             (* ... or the server to the client *)
Proof.
  intros IA IB RA RB T1 V1 F1 T2 V2 C2 F2 Hps A0 B0.
  assert (OA : OWN gA A0) by (apply (f8_own gA (conn_new gA V311)); [unfold F8; repeat split|exact (conn_new_OWN gA V311 IA)]).
  assert (OB : OWN gB B0) by (apply (f8_own gB (conn_new gB V311)); [unfold F8; repeat split|exact (conn_new_OWN gB V311 IB)]).
  destruct (handshake311_establishes_pair_invariant gA gB A0 B0 cn ca OA OB eq_refl eq_refl eq_refl eq_refl eq_refl eq_refl RA RB
              T1 V1 F1 T2 V2 C2 F2)
    as (A1 & e1 & B1 & e2 & B2 & e3 & A2 & e4 & E1 & S1 & X1 & E2 & N2 & X2 & _ & E3 & S3 & X3 & E4 & N4 & X4 & _ & Hinv).
  exists A1, e1, B1, e2, B2, e3, A2, e4. do 12 (split; [assumption|]).
  destruct (inv2_pair_inv _ _ _ _ Hinv) as [PA PB]. unfold ran. split.
  - pose proof (run_mixed_ok gA gB ps A2 B2 PA Hps) as H1. destruct (run_mixed gA gB A2 B2 ps); exact H1.
  - pose proof (run_mixed_ok gB gA ps B2 A2 PB Hps) as H1. destruct (run_mixed gB gA B2 A2 ps); exact H1.
Qed.
