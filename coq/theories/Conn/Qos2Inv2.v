(* C07 over histories (continued): receive side, API calls, every call, every history. *)
From MQ Require Import Base.Prelude Alloc.Alloc Alloc.SetSpec Alloc.AllocProofs Framing.Framing
                       Conn.Types Conn.TopicAlias Conn.ConnRecord Conn.Step Conn.Run Corr.ConnTrace Conn.Session Conn.Scope Conn.Qos2Inv.

(* the sends that release x: a clean-start CONNECT, an error PUBREC for x *)
Definition send_releases (x : N) (p : pkt) : bool :=
  ((k_type p =? T_CONNECT) && k_flag p)
  || ((k_type p =? T_PUBREC) && k_rc_present p && (128 <=? k_rc p) && (k_pid p =? x)).

Lemma dispatch_send_KQ x g c p : send_releases x p = false -> KQ x c (dispatch_send g c p).
Proof.
  intro Hr. unfold send_releases in Hr. apply orb_false_iff in Hr as [H1 H2].
  unfold dispatch_send. cbv zeta.
  destruct (k_type p =? T_CONNECT) eqn:E1.
  { cbn [andb] in H1. now apply send_connect_KQ. }
  destruct (k_type p =? T_CONNACK); [apply send_connack_KQ|].
  destruct (k_type p =? T_PUBLISH); [destruct (version_eqb _ _); [apply send_publish_v5_KQ|apply send_publish_v311_KQ]|].
  destruct ((k_type p =? T_PUBACK) || (k_type p =? T_PUBREC) || (k_type p =? T_PUBCOMP)).
  { apply send_puback_like_KQ. intros Ht Hp Hl. apply N.eqb_eq in Ht. rewrite Ht, Hp in H2. cbn [andb] in H2.
    apply N.leb_le in Hl. rewrite Hl in H2. cbn [andb] in H2. now apply N.eqb_neq in H2. }
  destruct (k_type p =? T_PUBREL); [apply send_pubrel_KQ|].
  destruct ((k_type p =? T_SUBSCRIBE) || (k_type p =? T_UNSUBSCRIBE)); [apply send_sub_unsub_KQ|].
  destruct ((k_type p =? T_SUBACK) || (k_type p =? T_UNSUBACK) || (k_type p =? T_PINGRESP)); [apply send_plain_KQ|].
  destruct (k_type p =? T_PINGREQ); [apply send_pingreq_KQ|].
  destruct (k_type p =? T_DISCONNECT); [apply send_disconnect_KQ|].
  destruct (k_type p =? T_AUTH); [apply send_auth_KQ|]. cbn [KQ]. apply kq_refl.
Qed.

Lemma do_send_KQ x g c p : send_releases x p = false -> KQ x c (do_send g c p).
Proof.
  intro Hr. unfold do_send. cbv zeta.
  repeat match goal with |- KQ _ _ (if ?b then _ else _) => destruct b end;
    first [ now apply dispatch_send_KQ | (cbn [KQ]; apply kq_refl) ].
Qed.

Lemma close_with_disconnect_KQ x c p : KQ x c (close_with_disconnect c p).
Proof. unfold close_with_disconnect. destruct (_ && _); [kq_auto x|apply send_disconnect_KQ]. Qed.
Lemma handle_v5_error_KQ x c e : KQ x c (handle_v5_error c e).
Proof.
  unfold handle_v5_error. pose proof (close_with_disconnect_KQ x c (disconnect_v5 (disc_rc_of_err e))) as H.
  destruct (close_with_disconnect _ _) as [[c' ev]|]; cbn [bindr KQ] in *; [exact H|exact I].
Qed.
Lemma handle_error_KQ x c v e : KQ x c (handle_error c v e).
Proof. unfold handle_error. destruct (version_eqb v V50); [apply handle_v5_error_KQ|cbn [KQ]; apply kq_refl]. Qed.

(* ---------- receive side ---------- *)
Lemma note_inbound_q c p : c_qos2 (note_inbound c p) = c_qos2 c.
Proof. unfold note_inbound. destruct (negb _); reflexivity. Qed.
Lemma note_handled_kq x c p : kq x (c_qos2 c) (c_qos2 (note_handled c p)).
Proof. unfold note_handled. destruct (_ =? _); conn_simpl; [apply kq_ins|apply kq_refl]. Qed.

Lemma connect_recv_state_kq x c v p c' :
  k_flag p = false -> connect_recv_state c v p = Ok c' -> kq x (c_qos2 c) (c_qos2 c').
Proof.
  intro Hf. unfold connect_recv_state, initialize. rewrite Hf. cbv zeta.
  repeat match goal with
         | |- context [if ?b then _ else _] => destruct b
         | |- context [match ?o with Some _ => _ | None => _ end] => destruct o
         | |- context [tas_new ?m] => destruct (tas_new m)
         end; cbn [bindr]; try discriminate; intro H; inversion H; subst; conn_simpl; apply kq_refl.
Qed.

Lemma recv_connect_KQ x g c v p : k_flag p = false -> KQ x c (recv_connect g c v (PROk p)).
Proof.
  intro Hf. unfold recv_connect. destruct (negb _); [apply handle_error_KQ|].
  destruct (connect_recv_state _ v p) as [c1|] eqn:E; cbn [bindr]; [|exact I].
  apply (connect_recv_state_kq x _ v p c1 Hf) in E. conn_simpl.
  pose proof (refresh_q c1) as Hr. destruct (refresh_pingreq_recv c1) as [c2 e2]. cbn [fst KQ] in *. rewrite Hr. exact E.
Qed.
Lemma recv_connect_err_KQ x g c v e : KQ x c (recv_connect g c v (PRErr e)).
Proof.
  unfold recv_connect. destruct (negb _); [apply handle_error_KQ|].
  pose proof (send_connack_KQ x (set_status c Connecting) (connect_refusal v e)) as H.
  destruct (send_connack _ _) as [[c1 ev]|]; cbn [bindr KQ] in *; [conn_simpl; exact H|exact I].
Qed.

Lemma connack_recv_limits_q c p c' : connack_recv_limits c p = Ok c' -> c_qos2 c' = c_qos2 c.
Proof.
  unfold connack_recv_limits.
  repeat match goal with
         | |- context [if ?b then _ else _] => destruct b
         | |- context [match ?o with Some _ => _ | None => _ end] => destruct o
         | |- context [tas_new ?m] => destruct (tas_new m)
         end; cbn [bindr]; try discriminate; intro H; inversion H; subst; reflexivity.
Qed.
Lemma connack_recv_ska_q c p : c_qos2 (fst (connack_recv_ska c p)) = c_qos2 c.
Proof.
  unfold connack_recv_ska.
  repeat match goal with
         | |- context [if ?b then _ else _] => destruct b
         | |- context [match ?o with Some _ => _ | None => _ end] => destruct o
         end; reflexivity.
Qed.

(* a CONNACK that keeps the session: session present, and no Session Expiry Interval 0 *)
Definition connack_keeps (p : pkt) : bool :=
  negb (k_rc p =? 0) || (k_flag p && negb (match k_sei p with Some 0 => true | _ => false end)).

Lemma recv_connack_KQ x c v p : connack_keeps p = true -> KQ x c (recv_connack c v (PROk p)).
Proof.
  intro Hk. unfold connack_keeps in Hk. unfold recv_connack.
  destruct (status_eqb (c_status c) Connected); [apply handle_error_KQ|].
  destruct (k_rc p =? 0) eqn:Erc; [|cbn [KQ]; apply kq_refl]. cbn [negb orb] in Hk. apply andb_true_iff in Hk as [Hsp Hsei].
  rewrite Hsp.
  assert (Hres : forall c0, KQ x c0 (resume_or_clear c0 true)).
  { intro c0. unfold resume_or_clear. pose proof (send_stored_KQ x c0) as H. destruct (send_stored c0) as [[c1 es]|]; cbn [bindr KQ] in *; [|exact I].
    destruct (existsb _ _); [|exact H].
    pose proof (post_q c1) as Hp. destruct (send_post_process c1) as [c2 e2]. cbn [fst KQ] in *. rewrite Hp. exact H. }
  destruct (version_eqb v V50).
  - destruct (connack_recv_limits _ p) as [c1|] eqn:E1; cbn [bindr]; [|exact I]. apply connack_recv_limits_q in E1. conn_simpl.
    pose proof (connack_recv_ska_q c1 p) as E2. destruct (connack_recv_ska c1 p) as [c2 e1]. cbn [fst] in E2.
    assert (E3 : c_qos2 (connack_recv_sei c2 p) = c_qos2 c2).
    { unfold connack_recv_sei. destruct (k_sei p) as [m|]; [|reflexivity].
      destruct (N.eqb_spec m 0) as [->|Hm]; [discriminate|]. reflexivity. }
    pose proof (Hres (connack_recv_sei c2 p)) as H. destruct (resume_or_clear _ true) as [[c3 e2]|]; cbn [bindr KQ] in *; [|exact I].
    rewrite E3, E2, E1 in H. exact H.
  - pose proof (Hres (set_status c Connected)) as H. destruct (resume_or_clear _ true) as [[c3 e2]|]; cbn [bindr KQ] in *; [|exact I].
    conn_simpl. exact H.
Qed.
Lemma recv_connack_err_KQ x c v e : KQ x c (recv_connack c v (PRErr e)).
Proof.
  unfold recv_connack. destruct (status_eqb (c_status c) Connected) eqn:Es; [apply handle_error_KQ|].
  destruct (version_eqb v V50); cbn [KQ]; apply kq_refl.
Qed.

Lemma resolve_recv_alias_kq x g c p c' q st e :
  resolve_recv_alias g c p = Ok (c', q, st, e) -> kq x (c_qos2 c) (c_qos2 c').
Proof.
  unfold resolve_recv_alias.
  repeat match goal with
         | |- context [handle_v5_error ?cc ?ee] =>
             let H := fresh "Hh" in pose proof (handle_v5_error_KQ x cc ee) as H;
             destruct (handle_v5_error cc ee) as [[? ?]|]; cbn [KQ] in H
         | |- context [tar_insert ?r ?t ?a] => destruct (tar_insert r t a)
         | |- context [if ?b then _ else _] => destruct b
         | |- context [match ?o with Some _ => _ | None => _ end] => destruct o
         end; cbn [bindr]; try discriminate; intro H; inversion H; subst; conn_simpl;
    first [apply kq_refl | assumption].
Qed.

Ltac kq_pose2 x F L :=
  match goal with |- context [F ?c ?a] =>
    let H := fresh "Hk" in pose proof (L x c a) as H; destruct (F c a) as [[? ?]|]; cbn [KQ] in H end.

(* generated acknowledgements carry no failure reason code for x ... *)
Lemma ack_pkt_no_release x g t v id : send_releases x (ack_pkt g t v id None) = false \/ True.
Proof. now right. Qed.

Lemma send_ack_KQ x g c t v id : KQ x c (send_puback_like c (ack_pkt g t v id None)).
Proof. apply send_puback_like_KQ. unfold ack_pkt. cbn [k_rc_present]. discriminate. Qed.
Lemma send_ack146_KQ x g c v id rc : KQ x c (send_puback_like c (ack_pkt g T_PUBCOMP v id rc)).
Proof. apply send_puback_like_KQ. unfold ack_pkt. cbn [k_type]. discriminate. Qed.

Lemma recv_publish_v311_KQ x g c pr : KQ x c (recv_publish_v311 g c pr).
Proof.
  unfold recv_publish_v311, handle_v311_error. destruct pr as [p|e]; [|cbn [KQ]; apply kq_refl]. cbv zeta.
  destruct (k_qos p =? 0).
  { pose proof (refresh_q c) as H. destruct (refresh_pingreq_recv c) as [c1 e1]. cbn [fst KQ] in *. rewrite H. apply kq_refl. }
  destruct (k_qos p =? 1).
  { destruct (_ && _).
    - pose proof (send_ack_KQ x g c T_PUBACK V311 (k_pid p)) as H. destruct (send_puback_like _ _) as [[c1 e1]|]; cbn [bindr KQ] in *; [|exact I].
      pose proof (refresh_q c1) as Hr. destruct (refresh_pingreq_recv c1) as [c2 e2]. cbn [fst KQ] in *. rewrite Hr. exact H.
    - cbn [bindr]. pose proof (refresh_q c) as Hr. destruct (refresh_pingreq_recv c) as [c2 e2]. cbn [fst KQ] in *. rewrite Hr. apply kq_refl. }
  destruct (_ && _).
  - match goal with |- KQ _ _ (bindr (send_puback_like ?cc _) _) => pose proof (send_ack_KQ x g cc T_PUBREC V311 (k_pid p)) as H end.
    destruct (send_puback_like _ _) as [[c1 e1]|]; cbn [bindr KQ] in *; [|exact I]. conn_simpl.
    pose proof (refresh_q c1) as Hr. destruct (refresh_pingreq_recv c1) as [c2 e2]. cbn [fst KQ] in *. rewrite Hr.
    eapply kq_trans; [apply kq_ins|exact H].
  - cbn [bindr]. match goal with |- context [refresh_pingreq_recv ?cc] => pose proof (refresh_q cc) as Hr; destruct (refresh_pingreq_recv cc) as [c2 e2] end.
    cbn [fst KQ] in *. rewrite Hr. conn_simpl. apply kq_ins.
Qed.

Lemma recv_publish_v5_KQ x g c pr : KQ x c (recv_publish_v5 g c pr).
Proof.
  unfold recv_publish_v5. destruct pr as [p|e].
  2:{ destruct (status_eqb _ _); [apply handle_v5_error_KQ|cbn [KQ]; apply kq_refl]. }
  cbv zeta. destruct (_ && _); [apply handle_v5_error_KQ|].
  destruct (resolve_recv_alias g (note_inbound c p) p) as [[[[c1 q] st] e0]|] eqn:E; cbn [bindr]; [|exact I].
  apply (resolve_recv_alias_kq x) in E. rewrite note_inbound_q in E.
  destruct st; [cbn [KQ]; exact E|].
  pose proof (note_handled_kq x c1 p) as Hn.
  assert (H1 : forall cc (b : bool), KQ x cc (if b then send_puback_like cc (ack_pkt g T_PUBACK V50 (k_pid p) None) else Ok (cc, []))).
  { intros cc b. destruct b; [apply send_ack_KQ|cbn [KQ]; apply kq_refl]. }
  assert (H2 : forall cc (b : bool), KQ x cc (if b then send_puback_like cc (ack_pkt g T_PUBREC V50 (k_pid p) None) else Ok (cc, []))).
  { intros cc b. destruct b; [apply send_ack_KQ|cbn [KQ]; apply kq_refl]. }
  match goal with |- KQ _ _ (bindr (if ?b then _ else _) _) => pose proof (H1 (note_handled c1 p) b) as K1; destruct (if b then _ else _) as [[c2 e1]|] end;
    cbn [bindr KQ] in *; [|exact I].
  match goal with |- KQ _ _ (bindr (if ?b then _ else _) _) => pose proof (H2 c2 b) as K2; destruct (if b then _ else _) as [[c3 e2]|] end;
    cbn [bindr KQ] in *; [|exact I].
  pose proof (refresh_q c3) as Hr. destruct (refresh_pingreq_recv c3) as [c4 e3]. cbn [fst KQ] in *. rewrite Hr.
  eapply kq_trans; [exact E|]. eapply kq_trans; [exact Hn|]. eapply kq_trans; [exact K1|exact K2].
Qed.

Lemma recv_ack_KQ x g c v t pr : KQ x c (recv_ack g c v t pr).
Proof.
  unfold recv_ack. destruct pr as [p|e]; [|apply handle_error_KQ]. cbv zeta.
  repeat first
    [ progress cbn [bindr]
    | kq_helper x
    | kq_pose2 x send_pubrel send_pubrel_KQ
    | match goal with |- KQ _ _ (handle_error _ _ _) => apply handle_error_KQ end
    | match goal with |- KQ _ _ (if ?b then _ else _) => destruct b eqn:? end
    | match goal with |- KQ _ _ (bindr (if ?b then _ else _) _) => destruct b eqn:? end
    | match goal with |- KQ _ _ (let '(_, _) := ?y in _) => destruct y as [? ?] eqn:? end ];
  try (kq_final x).
Qed.

Lemma recv_pubrel_KQ x g c v p : k_pid p <> x -> KQ x c (recv_pubrel g c v (PROk p)).
Proof.
  intro Hne. unfold recv_pubrel. cbv zeta.
  destruct (_ && _).
  - match goal with |- KQ _ _ (bindr (send_puback_like ?cc (ack_pkt _ _ _ _ ?rc)) _) =>
      pose proof (send_ack146_KQ x g cc v (k_pid p) rc) as H end.
    destruct (send_puback_like _ _) as [[c1 e1]|]; cbn [bindr KQ] in *; [|exact I]. conn_simpl.
    pose proof (refresh_q c1) as Hr. destruct (refresh_pingreq_recv c1) as [c2 e2]. cbn [fst KQ] in *. rewrite Hr.
    eapply kq_trans; [apply (kq_del x (k_pid p)); exact Hne|exact H].
  - cbn [bindr]. match goal with |- context [refresh_pingreq_recv ?cc] => pose proof (refresh_q cc) as Hr; destruct (refresh_pingreq_recv cc) as [c2 e2] end.
    cbn [fst KQ] in *. rewrite Hr. conn_simpl. now apply kq_del.
Qed.
Lemma recv_pubrel_err_KQ x g c v e : KQ x c (recv_pubrel g c v (PRErr e)).
Proof. unfold recv_pubrel. apply handle_error_KQ. Qed.

Lemma recv_notify_KQ x c v pr : KQ x c (recv_notify c v pr).
Proof.
  unfold recv_notify. destruct pr; [|apply handle_error_KQ].
  pose proof (refresh_q c) as Hr. destruct (refresh_pingreq_recv c) as [c2 e2]. cbn [fst KQ] in *. rewrite Hr. apply kq_refl.
Qed.
Lemma recv_pingreq_KQ x g c v pr : KQ x c (recv_pingreq g c v pr).
Proof.
  unfold recv_pingreq. destruct pr as [p|e]; [|apply handle_error_KQ].
  destruct (_ && _).
  - pose proof (send_plain_KQ x c (pingresp_pkt v)) as H. destruct (send_plain _ _) as [[c1 e1]|]; cbn [bindr KQ] in *; [|exact I].
    pose proof (refresh_q c1) as Hr. destruct (refresh_pingreq_recv c1) as [c2 e2]. cbn [fst KQ] in *. rewrite Hr. exact H.
  - cbn [bindr]. pose proof (refresh_q c) as Hr. destruct (refresh_pingreq_recv c) as [c2 e2]. cbn [fst KQ] in *. rewrite Hr. apply kq_refl.
Qed.
Lemma recv_pingresp_KQ x c v pr : KQ x c (recv_pingresp c v pr).
Proof.
  unfold recv_pingresp. destruct pr as [p|e]; [|apply handle_error_KQ]. destruct (c_t_resp c); cbn [KQ]; conn_simpl; apply kq_refl.
Qed.
Lemma recv_disconnect_KQ x c v pr : KQ x c (recv_disconnect c v pr).
Proof.
  unfold recv_disconnect. destruct pr as [p|e]; [|apply handle_error_KQ].
  pose proof (cancel_q c) as Hr. destruct (cancel_timers c) as [c2 e2]. cbn [fst KQ] in *. rewrite Hr. apply kq_refl.
Qed.

(* the received frames that release x: a clean-start CONNECT, a CONNACK that does not keep the
   session, a PUBREL for x *)
Definition recv_releases (x : N) (pr : presult) : bool :=
  match pr with
  | PROk p => ((k_type p =? T_CONNECT) && k_flag p)
              || ((k_type p =? T_CONNACK) && negb (connack_keeps p))
              || ((k_type p =? T_PUBREL) && (k_pid p =? x))
  | PRErr _ => false
  end.

(* the oracle is consistent with the frame: the parsed packet has the frame's type *)
Definition pr_type_ok (t : N) (pr : presult) : Prop := match pr with PROk p => k_type p = t | PRErr _ => True end.

Lemma dispatch_recv_KQ x g c v t pr :
  pr_type_ok t pr -> recv_releases x pr = false -> KQ x c (dispatch_recv g c v t pr).
Proof.
  intros Ht Hr. unfold dispatch_recv.
  destruct (t =? 1) eqn:E1.
  { destruct pr as [p|e]; [|apply recv_connect_err_KQ]. cbn [pr_type_ok recv_releases] in *. apply N.eqb_eq in E1. rewrite E1 in Ht.
    rewrite Ht in Hr. change (1 =? T_CONNECT) with true in Hr. cbn [andb orb] in Hr.
    apply orb_false_iff in Hr as [Hr _]. apply orb_false_iff in Hr as [Hr _]. now apply recv_connect_KQ. }
  destruct (t =? 2) eqn:E2.
  { destruct pr as [p|e]; [|apply recv_connack_err_KQ]. cbn [pr_type_ok recv_releases] in *. apply N.eqb_eq in E2. rewrite E2 in Ht.
    rewrite Ht in Hr. change (2 =? T_CONNECT) with false in Hr. change (2 =? T_CONNACK) with true in Hr.
    cbn [andb orb] in Hr. apply orb_false_iff in Hr as [Hr _]. apply negb_false_iff in Hr. now apply recv_connack_KQ. }
  destruct (t =? 3); [destruct (version_eqb _ _); [apply recv_publish_v5_KQ|apply recv_publish_v311_KQ]|].
  destruct ((t =? 4) || (t =? 5) || (t =? 7) || (t =? 9) || (t =? 11)); [apply recv_ack_KQ|].
  destruct (t =? 6) eqn:E6.
  { destruct pr as [p|e]; [|apply recv_pubrel_err_KQ]. cbn [pr_type_ok recv_releases] in *. apply N.eqb_eq in E6. rewrite E6 in Ht.
    rewrite Ht in Hr. change (6 =? T_CONNECT) with false in Hr. change (6 =? T_CONNACK) with false in Hr.
    change (6 =? T_PUBREL) with true in Hr. cbn [andb orb] in Hr. apply recv_pubrel_KQ. now apply N.eqb_neq in Hr. }
  repeat match goal with |- KQ _ _ (if ?b then _ else _) => destruct b end;
    first [ apply recv_notify_KQ | apply recv_pingreq_KQ | apply recv_pingresp_KQ | apply recv_disconnect_KQ | (cbn [KQ]; apply kq_refl) ].
Qed.

Lemma process_recv_packet_KQ x g c fh body pr :
  pr_type_ok (fh / 16) pr -> recv_releases x pr = false -> KQ x c (process_recv_packet g c fh body pr).
Proof.
  intros Ht Hr. unfold process_recv_packet. cbv zeta.
  destruct (_ <? _).
  { destruct (status_eqb _ _).
    - pose proof (close_with_disconnect_KQ x c (disconnect_v5 149)) as H.
      destruct (close_with_disconnect _ _) as [[c1 e1]|]; cbn [bindr KQ] in *; [exact H|exact I].
    - pose proof (cancel_q (set_status c Disconnected)) as H. destruct (cancel_timers _) as [c1 e1]. cbn [fst KQ] in *.
      rewrite H. conn_simpl. apply kq_refl. }
  destruct (negb _); [cbn [KQ]; apply kq_refl|].
  destruct (c_version c); try (now apply dispatch_recv_KQ).
  destruct (fh / 16 =? 1) eqn:E1; [|cbn [KQ]; apply kq_refl].
  destruct (_ <? 7); [cbn [KQ]; apply kq_refl|]. cbv zeta.
  assert (Hc : forall v', KQ x c (recv_connect g (set_version c v') v' pr)).
  { intro v'. apply (KQ_trans x c (set_version c v')); [conn_simpl; apply kq_refl|].
    destruct pr as [p|e]; [|apply recv_connect_err_KQ]. cbn [pr_type_ok recv_releases] in *. apply N.eqb_eq in E1. rewrite E1 in Ht.
    rewrite Ht in Hr. change (1 =? T_CONNECT) with true in Hr. cbn [andb orb] in Hr.
    apply orb_false_iff in Hr as [Hr _]. apply orb_false_iff in Hr as [Hr _]. now apply recv_connect_KQ. }
  destruct (_ =? 4); [apply Hc|]. destruct (_ =? 5); [apply Hc|]. cbn [KQ]. apply kq_refl.
Qed.

Definition oracle_ok (c : conn) (bytes : list N) (pr : presult) : Prop :=
  match feed (c_pb c) bytes with
  | (FComplete hdr _, _, _) => pr_type_ok (hd 0 hdr / 16) pr
  | _ => True
  end.

Lemma do_recv_KQ x g c bytes pr :
  oracle_ok c bytes pr -> recv_releases x pr = false ->
  match do_recv g c bytes pr with Ok (c', _, _) => kq x (c_qos2 c) (c_qos2 c') | Panic _ => True end.
Proof.
  unfold oracle_ok, do_recv. destruct (feed (c_pb c) bytes) as [[r pb'] rest]. intros Ho Hr. destruct r.
  all: first
    [ (conn_simpl; apply kq_refl)
    | (pose proof (cancel_q (set_pb c pb')) as H; destruct (cancel_timers (set_pb c pb')) as [c1 e1]; cbn [fst] in H; rewrite H; conn_simpl; apply kq_refl)
    | (match goal with |- context [process_recv_packet ?g ?cc ?fh ?bd ?pr] =>
         pose proof (process_recv_packet_KQ x g cc fh bd pr Ho Hr) as H;
         destruct (process_recv_packet g cc fh bd pr) as [[c1 e1]|]; cbn [bindr KQ] in *; [conn_simpl; exact H|exact I] end) ].
Qed.

Lemma do_timer_KQ x c k : KQ x c (do_timer c k).
Proof.
  unfold do_timer. destruct k; cbv zeta.
  - destruct (status_eqb _ _); [|cbn [KQ]; conn_simpl; apply kq_refl].
    destruct (c_version _); try exact I;
      (eapply KQ_trans; [|apply send_pingreq_KQ]); conn_simpl; apply kq_refl.
  - destruct (c_version _); try exact I; [cbn [KQ]; conn_simpl; apply kq_refl|].
    destruct (status_eqb _ _); [|cbn [KQ]; conn_simpl; apply kq_refl].
    (eapply KQ_trans; [|apply close_with_disconnect_KQ]); conn_simpl; apply kq_refl.
  - destruct (c_version _); try exact I; [cbn [KQ]; conn_simpl; apply kq_refl|].
    destruct (status_eqb _ _); [|cbn [KQ]; conn_simpl; apply kq_refl].
    (eapply KQ_trans; [|apply close_with_disconnect_KQ]); conn_simpl; apply kq_refl.
Qed.

Lemma do_closed_KQ x c : c_need_store c = true -> KQ x c (do_closed c).
Proof.
  intro Hn. destruct (do_closed c) as [[c' e]|] eqn:E; [|exact I]. cbn [KQ].
  destruct (closed_persistent_keeps_session c c' e E Hn) as (_ & Hq & _). apply kq_eq'. exact Hq.
Qed.

Lemma do_set_pingreq_interval_KQ x c o : KQ x c (do_set_pingreq_interval c o).
Proof.
  unfold do_set_pingreq_interval. cbv zeta.
  repeat match goal with
         | |- KQ _ _ (match ?y with Some _ => _ | None => _ end) => destruct y
         | |- KQ _ _ (if ?b then _ else _) => destruct b
         end; cbn [KQ]; conn_simpl; apply kq_refl.
Qed.

Lemma do_erase_KQ x c id : KQ x c (do_erase c id).
Proof.
  unfold do_erase. destruct (store_erase_publish_l _ _) as [b l]. destruct b; [|cbn [KQ]; apply kq_refl]. cbv zeta.
  match goal with |- KQ _ _ (release_if_used ?y _) => eapply (KQ_trans x c y); [|apply release_KQ] end.
  destruct (c_send_max _); [destruct (0 <? _)|]; conn_simpl; apply kq_refl.
Qed.

Lemma do_restore_q l : forall c, c_qos2 (do_restore c l) = c_qos2 c.
Proof.
  induction l as [|p t IH]; intro c; cbn [do_restore]; [reflexivity|]. rewrite IH.
  destruct (_ && _); [reflexivity|]. destruct (pm_register _ _) as [ok a]. destruct ok; [|reflexivity].
  unfold store_add_soft. repeat match goal with |- context [if ?b then _ else _] => destruct b end; reflexivity.
Qed.

(* the operations that are release points of the property for identifier x *)
Definition releases (x : N) (c : conn) (o : op) : bool :=
  match o with
  | OSend p => send_releases x p
  | ORecv _ pr => recv_releases x pr
  | OClosed => negb (c_need_store c)
  | ORestoreQos2 _ => true
  | _ => false
  end.

Definition op_oracle_ok (c : conn) (o : op) : Prop :=
  match o with ORecv bytes pr => oracle_ok c bytes pr | _ => True end.

(* EVERY call that is not a release point keeps a handled identifier handled *)
Theorem step_keeps_handled x g c o :
  op_oracle_ok c o -> releases x c o = false -> mem x (c_qos2 c) = true ->
  match step g c o with Ok (c', _, _) => mem x (c_qos2 c') = true | Panic _ => True end.
Proof.
  intros Ho Hr Hm. destruct o; cbn [step releases op_oracle_ok] in *.
  - pose proof (do_send_KQ x g c p Hr) as H. destruct (do_send g c p) as [[c' e]|]; cbn [bindr KQ] in *; [now apply H|exact I].
  - pose proof (do_recv_KQ x g c bytes pr Ho Hr) as H. destruct (do_recv g c bytes pr) as [[[c' e] r]|]; cbn [bindr] in *; [now apply H|exact I].
  - pose proof (do_timer_KQ x c k) as H. destruct (do_timer c k) as [[c' e]|]; cbn [bindr KQ] in *; [now apply H|exact I].
  - apply negb_false_iff in Hr. pose proof (do_closed_KQ x c Hr) as H. destruct (do_closed c) as [[c' e]|]; cbn [bindr KQ] in *; [now apply H|exact I].
  - pose proof (do_set_pingreq_interval_KQ x c o) as H. destruct (do_set_pingreq_interval c o) as [[c' e]|]; cbn [bindr KQ] in *; [now apply H|exact I].
  - conn_simpl. exact Hm.
  - destruct b; conn_simpl; exact Hm.
  - conn_simpl. exact Hm.
  - conn_simpl. exact Hm.
  - conn_simpl. exact Hm.
  - conn_simpl. exact Hm.
  - destruct (pm_acquire (c_pid c)) as [[r a]|]; cbn [bindr]; [conn_simpl; exact Hm|exact I].
  - destruct (pm_register (c_pid c) id) as [b a]. conn_simpl. exact Hm.
  - pose proof (release_KQ x c id) as H. destruct (release_if_used c id) as [[c' e]|]; cbn [bindr KQ] in *; [now apply H|exact I].
  - pose proof (do_erase_KQ x c id) as H. destruct (do_erase c id) as [[c' e]|]; cbn [bindr KQ] in *; [now apply H|exact I].
  - rewrite do_restore_q. exact Hm.
  - discriminate.
  - exact Hm.
Qed.

(* a history without release points for x (each call judged in the state it is applied to) *)
Fixpoint quiet_history (x : N) (g : cfg) (c : conn) (ops : list op) : Prop :=
  match ops with
  | [] => True
  | o :: t => op_oracle_ok c o /\ releases x c o = false /\
              match step g c o with Ok (c', _, _) => quiet_history x g c' t | Panic _ => True end
  end.

(* C07 over histories: once an identifier is in the handled set, it is there after EVERY sequence
   of calls — sends, receives, timers, option changes, persistent closes and reconnects that keep the
   session — that contains no release point for it *)
Theorem handled_until_released x g : forall ops c,
  mem x (c_qos2 c) = true -> quiet_history x g c ops ->
  match run_state g c ops with Some c' => mem x (c_qos2 c') = true | None => True end.
Proof.
  induction ops as [|o t IH]; intros c Hm Hq; cbn [run_state quiet_history] in *; [exact Hm|].
  destruct Hq as (Ho & Hr & Hq). pose proof (step_keeps_handled x g c o Ho Hr Hm) as Hs.
  destruct (step g c o) as [[[c' e] r]|]; [|exact I]. now apply IH.
Qed.

(* ... and therefore a v3.1.1 retransmission arriving after such a history is not notified again *)
Corollary dup_after_history_not_notified_v311 x g ops c c' p :
  mem x (c_qos2 c) = true -> quiet_history x g c ops -> run_state g c ops = Some c' ->
  k_qos p = 2 -> k_pid p = x ->
  match recv_publish_v311 g c' (PROk p) with
  | Ok (c'', e) => notifies e = [] /\ mem x (c_qos2 c'') = true
  | Panic _ => True
  end.
Proof.
  intros Hm Hq Hr Hqos Hp. pose proof (handled_until_released x g ops c Hm Hq) as H. rewrite Hr in H.
  subst x. now apply qos2_dup_not_notified_v311.
Qed.
