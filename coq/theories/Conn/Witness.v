(* Witnesses: where the FULL statement of a property is false of the faithful model, the refutation is a theorem too —
   a concrete history of a fresh object, inside the application contract of the ownership theorems, evaluated by the
   kernel.  Each witness is a known finding (known_findings.json): replayed on the implementation it fails the same
   way (corpus/*.cases), which is what makes it a finding about the code and not about the model. *)
From MQ Require Import Base.Prelude Alloc.Alloc Framing.Framing Conn.Types Conn.TopicAlias Conn.ConnRecord Conn.Step Conn.Run
                       Conn.Own Conn.OwnStep.

(* ---- C12: "the vacancy is M minus the number of incomplete outbound exchanges of this connection" ---- *)
(* what the full statement forbids: full vacancy while an accepted QoS>0 PUBLISH of this connection is incomplete *)
Definition full_vacancy_with_open_exchange (c : conn) (id : N) : Prop :=
  (exists m, c_send_max c = Some m /\ 0 < m /\ vacancy c = Some m) /\
  is_used c id = true /\ store_has id (c_store c) = true /\
  (mem id (c_puback c) = true \/ mem id (c_pubrec c) = true).

(* F-12d: server, resumed session; between the CONNECT and the CONNACK a new PUBLISH is accepted (counted), then the
   application erases an older stored PUBLISH that this connection has not retransmitted (not counted) *)
Definition w12d_g := mkCfg RServer 65535 2.
Definition w12d_ops : list op :=
  let cn := mkPkt 1 V50 0 0 false false [] None 0 0 21 false 0 false 0 None (Some 1) None (Some 100) None in
  let ca := mkPkt 2 V50 0 0 false false [] None 0 0 5 true 0 false 0 None None None None None in
  let pb1 := mkPkt 3 V50 1 1 false false [116] None 0 0 7 false 0 false 0 None None None None None in
  let pb2 := mkPkt 3 V50 2 2 false false [116] None 0 0 7 false 0 false 0 None None None None None in
  let cb := [16;13;0;4;77;81;84;84;5;0;0;0;0;0;0] in
  [ORecv cb (PROk cn); OSend ca; OAcquire; OSend pb1; OClosed; ORecv cb (PROk cn); OAcquire; OSend pb2; OErase 1].

Lemma w12d_in_contract : own_history_ok w12d_g (conn_new w12d_g V50) w12d_ops.
Proof. vm_compute. repeat split; try reflexivity; try discriminate; intros; try discriminate. Qed.

Lemma w12d_refutes : exists c, run_state w12d_g (conn_new w12d_g V50) w12d_ops = Some c /\ full_vacancy_with_open_exchange c 2.
Proof.
  eexists. split; [vm_compute; reflexivity|]. unfold full_vacancy_with_open_exchange. split.
  - exists 1. vm_compute. repeat split; reflexivity.
  - vm_compute. repeat split; try reflexivity. right; reflexivity.
Qed.

(* F-12b: client, manual responses; the PUBREL of a QoS 2 exchange is first sent on a later connection than its PUBREC
   arrived on (never counted there), its PUBCOMP still decrements the count of another exchange *)
Definition w12b_g := mkCfg RClient 65535 2.
Definition w12b_ops : list op :=
  let cn := mkPkt 1 V50 0 0 false false [] None 0 0 21 false 0 false 0 None None None (Some 100) None in
  let ca1 := mkPkt 2 V50 0 0 false false [] None 0 0 8 true 0 false 0 None (Some 2) None None None in
  let ca2 := mkPkt 2 V50 0 0 false false [] None 0 0 8 true 0 true 0 None (Some 2) None None None in
  let pb1 := mkPkt 3 V50 1 2 false false [116] None 0 0 7 false 0 false 0 None None None None None in
  let pb2 := mkPkt 3 V50 2 1 false false [116] None 0 0 7 false 0 false 0 None None None None None in
  let prec := mkPkt 5 V50 1 0 false false [] None 0 0 4 false 0 false 0 None None None None None in
  let prel := mkPkt 6 V50 1 0 false false [] None 0 0 4 false 0 false 0 None None None None None in
  let pcomp := mkPkt 7 V50 1 0 false false [] None 0 0 4 false 0 false 0 None None None None None in
  [OSend cn; ORecv [32;6;0;0;3;33;0;2] (PROk ca1); OAcquire; OSend pb1; ORecv [80;2;0;1] (PROk prec); OClosed;
   OSend cn; ORecv [32;6;1;0;3;33;0;2] (PROk ca2); OSend prel; OAcquire; OSend pb2; ORecv [112;2;0;1] (PROk pcomp)].

Lemma w12b_in_contract : own_history_ok w12b_g (conn_new w12b_g V50) w12b_ops.
Proof. vm_compute. repeat split; try reflexivity; try discriminate; intros; try discriminate. Qed.

Lemma w12b_refutes : exists c, run_state w12b_g (conn_new w12b_g V50) w12b_ops = Some c /\ full_vacancy_with_open_exchange c 2.
Proof.
  eexists. split; [vm_compute; reflexivity|]. unfold full_vacancy_with_open_exchange. split.
  - exists 2. vm_compute. repeat split; reflexivity.
  - vm_compute. repeat split; try reflexivity. left; reflexivity.
Qed.

(* F-12c: client; a QoS 1 PUBLISH is accepted on a non-persistent session (sent, not stored), then
   set_offline_publish(true) makes the live session persistent; after the resume that exchange is still awaited but was
   not retransmitted (never counted on the new connection), its PUBACK decrements the count of the stored one *)
Definition w12c_g := mkCfg RClient 65535 2.
Definition w12c_ops : list op :=
  let cn := mkPkt 1 V50 0 0 false false [] None 0 0 21 false 0 false 0 None None None (Some 0) None in
  let ca1 := mkPkt 2 V50 0 0 false false [] None 0 0 8 true 0 false 0 None (Some 2) None None None in
  let ca2 := mkPkt 2 V50 0 0 false false [] None 0 0 8 true 0 true 0 None (Some 1) None None None in
  let pb1 := mkPkt 3 V50 1 1 false false [116] None 0 0 7 false 0 false 0 None None None None None in
  let pb2 := mkPkt 3 V50 2 1 false false [116] None 0 0 7 false 0 false 0 None None None None None in
  let pack := mkPkt 4 V50 1 0 false false [] None 0 0 4 false 0 false 0 None None None None None in
  [OSend cn; ORecv [32;6;0;0;3;33;0;2] (PROk ca1); OAcquire; OSend pb1; OSetOffline true; OAcquire; OSend pb2; OClosed;
   OSend cn; ORecv [32;6;1;0;3;33;0;1] (PROk ca2); ORecv [64;2;0;1] (PROk pack)].

Lemma w12c_in_contract : own_history_ok w12c_g (conn_new w12c_g V50) w12c_ops.
Proof. vm_compute. repeat split; try reflexivity; try discriminate; intros; try discriminate. Qed.

Lemma w12c_refutes : exists c, run_state w12c_g (conn_new w12c_g V50) w12c_ops = Some c /\ full_vacancy_with_open_exchange c 2.
Proof.
  eexists. split; [vm_compute; reflexivity|]. unfold full_vacancy_with_open_exchange. split.
  - exists 1. vm_compute. repeat split; reflexivity.
  - vm_compute. repeat split; try reflexivity. left; reflexivity.
Qed.

(* ---- C05: "every retransmitted QoS 2 PUBLISH is answered or reported" ---- *)
(* F-05c: a duplicate (identifier in the handled set) arriving while the connection is not established produces
   no event at all: not notified (right), not answered with PUBREC, no error *)
Definition w05c_g := mkCfg RServer 65535 2.
Definition w05c_pub : pkt := mkPkt 3 V311 1 2 true false [116] None 0 0 7 false 0 false 0 None None None None None.
Lemma w05c_refutes :
  exists c, run_state w05c_g (conn_new w05c_g V311) [OSetAutoPub true; ORestoreQos2 [1]] = Some c /\
            mem (k_pid w05c_pub) (c_qos2 c) = true /\
            exists c', step w05c_g c (ORecv [52;5;0;1;116;0;1] (PROk w05c_pub)) = Ok (c', [], [0]).
Proof. eexists. split; [vm_compute; reflexivity|]. split; [vm_compute; reflexivity|]. eexists. vm_compute. reflexivity. Qed.
