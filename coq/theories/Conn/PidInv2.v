(* pid_bounds is an invariant of every call (continued): dispatch, receive side, API calls, step. *)
From MQ Require Import Base.Prelude Alloc.Alloc Alloc.SetSpec Alloc.AllocProofs Framing.Framing
                       Conn.Types Conn.TopicAlias Conn.ConnRecord Conn.Step Conn.Run Corr.ConnTrace Conn.Scope Conn.PidInv.

(* a call of an already treated function, anywhere in the goal: record its BD fact, split its outcome *)
Ltac bd_known F L :=
  match goal with
  | |- context [F ?c ?a] =>
      let H := fresh "Hk" in pose proof (L c a) as H; destruct (F c a) as [[? ?]|]; cbn [BD] in H
  end.
Ltac bd_call_tail c :=
  (eapply (BD_trans _ c); [|solve [ apply send_connect_BD | apply send_connack_BD | apply send_publish_v311_BD
                                   | apply send_publish_v5_BD | apply send_puback_like_BD | apply send_pubrel_BD
                                   | apply send_sub_unsub_BD | apply send_plain_BD | apply send_pingreq_BD
                                   | apply send_disconnect_BD | apply send_auth_BD | apply send_stored_BD
                                   | apply refuse_publish_BD | apply release_BD ]]);
  bd_facts; bd_norm; bd_solve.

Lemma dispatch_send_BD g c p : BD c (dispatch_send g c p).
Proof.
  unfold dispatch_send. cbv zeta.
  repeat match goal with |- BD _ (if ?b then _ else _) => destruct b end;
    first [ bd_call_tail c | bd_leaf ].
Qed.

Lemma do_send_BD g c p : BD c (do_send g c p).
Proof.
  unfold do_send. cbv zeta.
  repeat match goal with |- BD _ (if ?b then _ else _) => destruct b end;
    first [ apply dispatch_send_BD | bd_leaf ].
Qed.

Lemma close_with_disconnect_BD c p : BD c (close_with_disconnect c p).
Proof. unfold close_with_disconnect. destruct (_ && _); [repeat bd_step3|apply send_disconnect_BD]. Qed.

Lemma handle_v5_error_BD c e : BD c (handle_v5_error c e).
Proof.
  unfold handle_v5_error. pose proof (close_with_disconnect_BD c (disconnect_v5 (disc_rc_of_err e))) as H.
  destruct (close_with_disconnect _ _) as [[c' ev]|]; cbn [bindr BD] in *; [exact H|exact I].
Qed.
Lemma handle_error_BD c v e : BD c (handle_error c v e).
Proof. unfold handle_error. destruct (version_eqb v V50); [apply handle_v5_error_BD|cbn [BD]; apply sb_refl]. Qed.

(* ---------- helpers of the receive side ---------- *)
Lemma store_erase_pid c v r id : c_pid (store_erase c v r id) = c_pid c.
Proof. reflexivity. Qed.
Lemma note_inbound_pid c p : c_pid (note_inbound c p) = c_pid c.
Proof. unfold note_inbound. destruct (negb _); reflexivity. Qed.
Lemma note_handled_pid c p : c_pid (note_handled c p) = c_pid c.
Proof. unfold note_handled. destruct (_ =? _); reflexivity. Qed.

Lemma connect_recv_state_pid c v p c' : connect_recv_state c v p = Ok c' -> same_bounds (c_pid c') (c_pid c).
Proof.
  unfold connect_recv_state, initialize, clear_store_related, pm_clear. cbv zeta.
  repeat match goal with
         | |- context [if ?b then _ else _] => destruct b
         | |- context [match ?o with Some _ => _ | None => _ end] => destruct o
         | |- context [tas_new ?m] => destruct (tas_new m)
         end; cbn [bindr]; try discriminate; intro H; inversion H; subst; conn_simpl;
    first [apply sb_refl | apply clear_bounds].
Qed.

Lemma connack_recv_limits_pid c p c' : connack_recv_limits c p = Ok c' -> c_pid c' = c_pid c.
Proof.
  unfold connack_recv_limits.
  repeat match goal with
         | |- context [if ?b then _ else _] => destruct b
         | |- context [match ?o with Some _ => _ | None => _ end] => destruct o
         | |- context [tas_new ?m] => destruct (tas_new m)
         end; cbn [bindr]; try discriminate; intro H; inversion H; subst; reflexivity.
Qed.
Lemma connack_recv_ska_pid c p : c_pid (fst (connack_recv_ska c p)) = c_pid c.
Proof.
  unfold connack_recv_ska.
  repeat match goal with
         | |- context [if ?b then _ else _] => destruct b
         | |- context [match ?o with Some _ => _ | None => _ end] => destruct o
         end; reflexivity.
Qed.
Lemma connack_recv_sei_pid c p : same_bounds (c_pid (connack_recv_sei c p)) (c_pid c).
Proof.
  unfold connack_recv_sei, clear_store_related, pm_clear.
  repeat match goal with
         | |- context [if ?b then _ else _] => destruct b
         | |- context [match ?o with Some _ => _ | None => _ end] => destruct o
         end; conn_simpl; first [apply sb_refl | apply clear_bounds].
Qed.

Lemma resume_or_clear_BD c sp : BD c (resume_or_clear c sp).
Proof.
  unfold resume_or_clear. destruct sp.
  - pose proof (send_stored_BD c) as H. destruct (send_stored c) as [[c1 es]|]; cbn [bindr BD] in *; [|exact I].
    destruct (existsb _ _); [|exact H].
    pose proof (post_pid c1) as Hp. destruct (send_post_process c1) as [c2 e2]. cbn [fst BD] in *. rewrite Hp. exact H.
  - cbn [BD]. unfold clear_store_related, pm_clear. conn_simpl. apply clear_bounds.
Qed.

(* the alias resolution returns a 4-tuple *)
Lemma resolve_recv_alias_pid g c p c' q st e :
  resolve_recv_alias g c p = Ok (c', q, st, e) -> same_bounds (c_pid c') (c_pid c).
Proof.
  unfold resolve_recv_alias.
  repeat match goal with
         | |- context [handle_v5_error ?cc ?ee] =>
             let H := fresh "Hh" in pose proof (handle_v5_error_BD cc ee) as H;
             destruct (handle_v5_error cc ee) as [[? ?]|]; cbn [BD] in H
         | |- context [tar_insert ?r ?t ?a] => destruct (tar_insert r t a)
         | |- context [if ?b then _ else _] => destruct b
         | |- context [match ?o with Some _ => _ | None => _ end] => destruct o
         end; cbn [bindr]; try discriminate; intro H; inversion H; subst; conn_simpl;
    first [apply sb_refl | assumption].
Qed.

(* ---------- generic walker for the remaining functions ---------- *)
Ltac bd_pose2 F L :=
  match goal with |- context [F ?c ?a] =>
    let H := fresh "Hk" in pose proof (L c a) as H; destruct (F c a) as [[? ?]|]; cbn [BD] in H end.
Ltac bd_pose3 F L :=
  match goal with |- context [F ?c ?a ?b] =>
    let H := fresh "Hk" in pose proof (L c a b) as H; destruct (F c a b) as [[? ?]|]; cbn [BD] in H end.

Ltac bd_auto_step :=
  first
   [ progress cbn [bindr]
   | bd_helper
   | bd_pose2 send_puback_like send_puback_like_BD
   | bd_pose2 send_pubrel send_pubrel_BD
   | bd_pose2 send_plain send_plain_BD
   | bd_pose2 send_pingreq send_pingreq_BD
   | bd_pose2 send_disconnect send_disconnect_BD
   | bd_pose2 send_connack send_connack_BD
   | bd_pose2 handle_v5_error handle_v5_error_BD
   | bd_pose2 close_with_disconnect close_with_disconnect_BD
   | bd_pose2 resume_or_clear resume_or_clear_BD
   | bd_pose3 handle_error handle_error_BD
   | match goal with |- context [send_stored ?c] =>
       let H := fresh "Hss" in pose proof (send_stored_BD c) as H; destruct (send_stored c) as [[? ?]|]; cbn [BD] in H end
   | match goal with |- context [connect_recv_state ?c ?v ?p] =>
       let E := fresh "Ecr" in destruct (connect_recv_state c v p) as [?|] eqn:E; [apply connect_recv_state_pid in E|] end
   | match goal with |- context [connack_recv_limits ?c ?p] =>
       let E := fresh "Ecl" in destruct (connack_recv_limits c p) as [?|] eqn:E; [apply connack_recv_limits_pid in E|] end
   | match goal with |- context [connack_recv_ska ?c ?p] =>
       let H := fresh "Hska" in pose proof (connack_recv_ska_pid c p) as H; destruct (connack_recv_ska c p) as [? ?]; cbn [fst] in H end
   | match goal with |- context [resolve_recv_alias ?g ?c ?p] =>
       let E := fresh "Era" in destruct (resolve_recv_alias g c p) as [[[[? ?] ?] ?]|] eqn:E; [apply resolve_recv_alias_pid in E|] end
   | match goal with |- BD _ (if ?b then _ else _) => destruct b eqn:? end
   | match goal with |- BD _ (bindr (if ?b then _ else _) _) => destruct b eqn:? end
   | match goal with |- BD _ (let '(_, _) := (_, _) in _) => cbv beta iota end
   | match goal with |- BD _ (let '(_, _) := (if ?b then _ else _) in _) => destruct b eqn:? end
   | match goal with |- BD _ (let '(_, _) := ?x in _) => destruct x as [? ?] eqn:? end
   | match goal with |- BD _ (match ?x with _ => _ end) => destruct x eqn:? end
   | match goal with |- BD _ (bindr (match ?x with _ => _ end) _) => destruct x eqn:? end ].

Ltac bd_facts2 :=
  repeat match goal with
         | H : context [c_pid (store_erase _ _ _ _)] |- _ => rewrite store_erase_pid in H
         | H : context [c_pid (note_inbound _ _)] |- _ => rewrite note_inbound_pid in H
         | H : context [c_pid (note_handled _ _)] |- _ => rewrite note_handled_pid in H
         | H : context [c_pid (connack_recv_sei ?c ?p)] |- _ =>
             let K := fresh "Hsei" in pose proof (connack_recv_sei_pid c p) as K;
             generalize dependent (connack_recv_sei c p); intros
         end;
  rewrite ?store_erase_pid, ?note_inbound_pid, ?note_handled_pid.

Ltac bd_auto_final :=
  match goal with
  | |- BD _ (Panic _) => exact I
  | |- BD _ (Ok _) => cbn [BD]; bd_facts2; bd_leaf
  | |- BD ?c0 (_ _) => idtac
  end.

Ltac bd_auto := repeat bd_auto_step; bd_auto_final.

Lemma recv_connect_BD g c v pr : BD c (recv_connect g c v pr).
Proof. unfold recv_connect, connect_refusal. bd_auto. Qed.

Lemma recv_connack_BD c v pr : BD c (recv_connack c v pr).
Proof. unfold recv_connack, handle_v311_error. bd_auto. Qed.
Lemma recv_publish_v311_BD g c pr : BD c (recv_publish_v311 g c pr).
Proof. unfold recv_publish_v311, handle_v311_error. cbv zeta. bd_auto. Qed.
Lemma recv_publish_v5_BD g c pr : BD c (recv_publish_v5 g c pr).
Proof. unfold recv_publish_v5. cbv zeta. bd_auto. Qed.
Lemma recv_ack_BD g c v t pr : BD c (recv_ack g c v t pr).
Proof. unfold recv_ack. cbv zeta. bd_auto. Qed.
Lemma recv_pubrel_BD g c v pr : BD c (recv_pubrel g c v pr).
Proof. unfold recv_pubrel. cbv zeta. bd_auto. Qed.
Lemma recv_notify_BD c v pr : BD c (recv_notify c v pr).
Proof. unfold recv_notify. bd_auto. Qed.
Lemma recv_pingreq_BD g c v pr : BD c (recv_pingreq g c v pr).
Proof. unfold recv_pingreq. bd_auto. Qed.
Lemma recv_pingresp_BD c v pr : BD c (recv_pingresp c v pr).
Proof. unfold recv_pingresp. bd_auto. Qed.
Lemma recv_disconnect_BD c v pr : BD c (recv_disconnect c v pr).
Proof. unfold recv_disconnect. bd_auto. Qed.

Lemma dispatch_recv_BD g c v t pr : BD c (dispatch_recv g c v t pr).
Proof.
  unfold dispatch_recv.
  repeat match goal with |- BD _ (if ?b then _ else _) => destruct b end;
    first [ apply recv_connect_BD | apply recv_connack_BD | apply recv_publish_v311_BD | apply recv_publish_v5_BD
          | apply recv_ack_BD | apply recv_pubrel_BD | apply recv_notify_BD | apply recv_pingreq_BD
          | apply recv_pingresp_BD | apply recv_disconnect_BD | (cbn [BD]; apply sb_refl) ].
Qed.

Lemma set_version_BD c v r : BD (set_version c v) r -> BD c r.
Proof. destruct r as [[c' e]|]; cbn [BD]; auto. Qed.

Lemma process_recv_packet_BD g c fh body pr : BD c (process_recv_packet g c fh body pr).
Proof.
  unfold process_recv_packet. cbv zeta.
  repeat first
    [ progress cbn [bindr]
    | bd_helper
    | bd_pose2 close_with_disconnect close_with_disconnect_BD
    | match goal with |- BD _ (if ?b then _ else _) => destruct b eqn:? end
    | match goal with |- BD _ (match c_version ?c with _ => _ end) => destruct (c_version c) eqn:? end ];
  first [ apply dispatch_recv_BD
        | match goal with |- BD ?c0 (recv_connect _ ?x _ _) => apply (BD_trans c0 x); [conn_simpl; apply sb_refl|apply recv_connect_BD] end
        | bd_auto_final ].
Qed.

Lemma do_recv_BD g c bytes pr :
  match do_recv g c bytes pr with Ok (c', _, _) => same_bounds (c_pid c') (c_pid c) | Panic _ => True end.
Proof.
  unfold do_recv. destruct (feed (c_pb c) bytes) as [[r pb'] rest]. destruct r.
  all: first
    [ (conn_simpl; apply sb_refl)
    | (pose proof (cancel_pid (set_pb c pb')) as H; destruct (cancel_timers (set_pb c pb')) as [c1 e1]; cbn [fst] in H; rewrite H; apply sb_refl)
    | (match goal with |- context [process_recv_packet ?g ?cc ?fh ?bd ?pr] =>
         pose proof (process_recv_packet_BD g cc fh bd pr) as H;
         destruct (process_recv_packet g cc fh bd pr) as [[c1 e1]|]; cbn [bindr BD] in *; [exact H|exact I] end) ].
Qed.

Lemma do_timer_BD c k : BD c (do_timer c k).
Proof.
  unfold do_timer. destruct k; cbv zeta.
  - destruct (status_eqb _ _); [|cbn [BD]; apply sb_refl].
    destruct (c_version _); try exact I;
      (eapply BD_trans; [|apply send_pingreq_BD]); conn_simpl; apply sb_refl.
  - destruct (c_version _); try exact I; [cbn [BD]; apply sb_refl|].
    destruct (status_eqb _ _); [|cbn [BD]; apply sb_refl].
    (eapply BD_trans; [|apply close_with_disconnect_BD]); conn_simpl; apply sb_refl.
  - destruct (c_version _); try exact I; [cbn [BD]; apply sb_refl|].
    destruct (status_eqb _ _); [|cbn [BD]; apply sb_refl].
    (eapply BD_trans; [|apply close_with_disconnect_BD]); conn_simpl; apply sb_refl.
Qed.

Lemma do_closed_BD c : BD c (do_closed c).
Proof.
  destruct (do_closed c) as [[c' e]|] eqn:E; [|exact I]. cbn [BD].
  destruct (closed_keeps_options c c' e E) as (_ & B1 & B2 & B3 & _). unfold same_bounds. auto.
Qed.

Lemma do_set_pingreq_interval_BD c o : BD c (do_set_pingreq_interval c o).
Proof.
  unfold do_set_pingreq_interval. cbv zeta.
  repeat match goal with
         | |- BD _ (match ?x with Some _ => _ | None => _ end) => destruct x
         | |- BD _ (if ?b then _ else _) => destruct b
         end; cbn [BD]; conn_simpl; apply sb_refl.
Qed.

Lemma do_erase_BD c id : BD c (do_erase c id).
Proof.
  unfold do_erase. destruct (store_erase_publish_l _ _) as [b l]. destruct b; [|cbn [BD]; apply sb_refl]. cbv zeta.
  match goal with |- BD _ (release_if_used ?x _) => eapply (BD_trans _ x); [|apply release_BD] end.
  destruct (c_send_max _); [destruct (0 <? _)|]; conn_simpl; apply sb_refl.
Qed.

Lemma do_restore_bounds l : forall c, same_bounds (c_pid (do_restore c l)) (c_pid c).
Proof.
  induction l as [|p t IH]; intro c; cbn [do_restore]; [apply sb_refl|].
  match goal with |- same_bounds (c_pid (do_restore ?x t)) _ => apply (sb_trans _ (c_pid x)); [apply IH|] end.
  destruct (_ && _); [apply sb_refl|].
  unfold pm_register. pose proof (use_value_bounds (c_pid c) (k_pid p)) as H.
  destruct (a_use_value (c_pid c) (k_pid p)) as [ok a]. cbn [snd] in H.
  destruct ok; [|apply sb_refl].
  unfold store_add_soft.
  repeat match goal with |- context [if ?b then _ else _] => destruct b end; conn_simpl; exact H.
Qed.

(* ---------- every call ---------- *)
Theorem step_keeps_bounds g c o :
  match step g c o with Ok (c', _, _) => same_bounds (c_pid c') (c_pid c) | Panic _ => True end.
Proof.
  destruct o; cbn [step].
  - pose proof (do_send_BD g c p) as H. destruct (do_send g c p) as [[c' e]|]; cbn [bindr]; [exact H|exact I].
  - pose proof (do_recv_BD g c bytes pr) as H. destruct (do_recv g c bytes pr) as [[[c' e] r]|]; cbn [bindr]; [exact H|exact I].
  - pose proof (do_timer_BD c k) as H. destruct (do_timer c k) as [[c' e]|]; cbn [bindr]; [exact H|exact I].
  - pose proof (do_closed_BD c) as H. destruct (do_closed c) as [[c' e]|]; cbn [bindr]; [exact H|exact I].
  - pose proof (do_set_pingreq_interval_BD c o) as H. destruct (do_set_pingreq_interval c o) as [[c' e]|]; cbn [bindr]; [exact H|exact I].
  - conn_simpl. apply sb_refl.
  - destruct b; conn_simpl; apply sb_refl.
  - conn_simpl. apply sb_refl.
  - conn_simpl. apply sb_refl.
  - conn_simpl. apply sb_refl.
  - conn_simpl. apply sb_refl.
  - unfold pm_acquire. destruct (a_allocate (c_pid c)) as [[r a]|] eqn:E; cbn [bindr]; [|exact I].
    conn_simpl. now apply allocate_bounds in E.
  - unfold pm_register. pose proof (use_value_bounds (c_pid c) id) as H. destruct (a_use_value _ _) as [b a]. cbn [snd] in H.
    conn_simpl. exact H.
  - pose proof (release_BD c id) as H. destruct (release_if_used c id) as [[c' e]|]; cbn [bindr]; [exact H|exact I].
  - pose proof (do_erase_BD c id) as H. destruct (do_erase c id) as [[c' e]|]; cbn [bindr]; [exact H|exact I].
  - apply do_restore_bounds.
  - conn_simpl. apply sb_refl.
  - apply sb_refl.
Qed.

(* pid_bounds is an invariant of every history, from every state in which it holds — in
   particular from a freshly constructed object *)
Theorem pid_bounds_invariant g : forall ops c,
  pid_bounds g c -> match run_state g c ops with Some c' => pid_bounds g c' | None => True end.
Proof.
  induction ops as [|o t IH]; intros c H; cbn [run_state]; [exact H|].
  pose proof (step_keeps_bounds g c o) as Hs. destruct (step g c o) as [[[c' e] r]|]; [|exact I].
  apply IH. destruct Hs as (S1 & S2 & S3). destruct H as (H1 & H2 & H3). unfold pid_bounds. repeat split; congruence.
Qed.

Theorem fresh_pid_bounds g v : pid_bounds g (conn_new g v).
Proof. unfold pid_bounds, conn_new, pm_new. cbn. auto. Qed.

(* C10 without any hypothesis on the state: after EVERY history of a freshly constructed object,
   ended by notify_closed, a clean-start CONNECT behaves as on a fresh object with the same options *)
Corollary reused_after_any_history_client g v ops c c1 e p :
  run_state g (conn_new g v) ops = Some c -> do_closed c = Ok (c1, e) -> k_flag p = true -> size_ok c1 p = true ->
  send_connect c1 p = send_connect (fresh_like g c) p.
Proof.
  intros Hr Hc Hf Hs. apply (reused_client_is_fresh g c c1 e p Hc); auto.
  pose proof (pid_bounds_invariant g ops (conn_new g v) (fresh_pid_bounds g v)) as H. now rewrite Hr in H.
Qed.

Corollary reused_after_any_history_server g v ops c c1 e v' p :
  run_state g (conn_new g v) ops = Some c -> do_closed c = Ok (c1, e) -> k_flag p = true ->
  recv_connect g c1 v' (PROk p) = recv_connect g (fresh_like g c) v' (PROk p).
Proof.
  intros Hr Hc Hf. apply (reused_server_is_fresh g c c1 e v' p Hc); auto.
  pose proof (pid_bounds_invariant g ops (conn_new g v) (fresh_pid_bounds g v)) as H. now rewrite Hr in H.
Qed.
