(* C01 / C08, model side: AT QUIESCENCE EVERY PACKET IDENTIFIER HAS BEEN RELEASED ON BOTH SIDES — the two-way v5.0 system of
   PairBi5.v.  As PairBiIds.v with the v5.0 lemmas; together with two_way5_exactly_once this is the complete quiescent state
   of C01: links empty, exactly-once delivery both ways, both Receive Maximum accounts full, nothing outstanding, no
   identifier in use on either side. *)
From Coq Require Import Permutation.
From MQ Require Import Base.Prelude Alloc.Alloc Alloc.SetSpec Alloc.AllocProofs Framing.Framing
                       Conn.Types Conn.TopicAlias Conn.ConnRecord Conn.Step Conn.Run Corr.ConnTrace Conn.Scope Conn.IdsQuota Conn.WfInv
                       Conn.Own Conn.OwnFrame Conn.OwnStep Conn.Qos2Dup Conn.TasBounds Conn.NoPanic
                       Conn.PairQos Conn.PairQos5 Conn.PairSeq Conn.PairSeq5 Conn.PairConc Conn.PairConc5 Conn.PairBi Conn.PairBi5
                       Conn.PairConcIds Conn.PairConcIds5 Conn.PairBiIds.

Section BiIds5.
Variables gA gB : cfg.

Lemma deliver5_U gX gY (X Y : conn) qyx pubX delY pubY delX x t :
  inv5 gX gY (mkSys X Y (sr_part (x :: t)) (rs_part qyx) pubX delY) ->
  inv5 gY gX (mkSys Y X (sr_part qyx) (rs_part (x :: t)) pubY delX) ->
  U (mkSys X Y (sr_part (x :: t)) (rs_part qyx) pubX delY) ->
  U (mkSys Y X (sr_part qyx) (rs_part (x :: t)) pubY delX) ->
  match deliver_to gY Y x with
  | DNext Y' out d => U (mkSys X Y' (sr_part t) (rs_part (qyx ++ out)) pubX (delY ++ d)) /\
                      U (mkSys Y' X (sr_part (qyx ++ out)) (rs_part t) pubY delX)
  | DBad => True
  end.
Proof.
  intros H1 H2 U1 U2'. unfold deliver_to. destruct (is_sr x) eqn:Es.
  - assert (E1 : sr_part (x :: t) = x :: sr_part t) by (unfold sr_part; cbn [filter]; now rewrite Es).
    assert (E2 : rs_part (x :: t) = rs_part t) by (unfold rs_part; cbn [filter]; now rewrite Es).
    rewrite E1 in *. rewrite E2 in *.
    pose proof (to_r5_U gX gY _ H1 U1) as T. pose proof (to_r5_step gX gY _ H1) as T'. unfold do_to_r in T, T'. cbn [cs cr qsr qrs published delivered] in T, T'.
    destruct (inv5_head gX gY _ _ _ _ _ _ _ H1) as [Hrq Hk].
    pose proof H1 as (_ & _ & _ & _ & _ & _ & RY & AY & FY & _). cbn [cs cr qsr qrs published delivered] in RY, AY, FY.
    pose proof (receiver5_f8 gY Y x RY AY FY Hrq Hk) as HF.
    destruct (deliver gY Y x) as [[Y1 e]|]; [|exact I]. destruct (one (sends e)) as [a|]; [|exact I]. destruct (negb (none (errors e))); [exact I|].
    destruct T' as [T' _].
    pose proof T' as (_ & _ & _ & _ & _ & _ & _ & _ & _ & _ & _ & _ & _ & Frs' & _). cbn [cs cr qsr qrs published delivered] in Frs'.
    apply Forall_app in Frs' as [_ Fa]. pose proof (Forall_inv Fa) as Hfa. pose proof (fl_rs5_not_sr gY X a Hfa) as Ea.
    destruct (part_rs a Ea) as [P1 P2]. rewrite rs_app, sr_app, P1, P2, app_nil_r.
    split; [exact T|]. destruct HF as (HF & _). exact (U_frame Y Y1 X X _ _ _ _ _ _ (f8_used Y1 Y HF) U2').
  - assert (E1 : sr_part (x :: t) = sr_part t) by (unfold sr_part; cbn [filter]; now rewrite Es).
    assert (E2 : rs_part (x :: t) = x :: rs_part t) by (unfold rs_part; cbn [filter]; now rewrite Es).
    rewrite E1 in *. rewrite E2 in *.
    pose proof (to_s5_U gY gX _ H2 U2') as T. pose proof (to_s5_step gY gX _ H2) as T'. unfold do_to_s in T, T'. cbn [cs cr qsr qrs published delivered] in T, T'.
    destruct (deliver gY Y x) as [[Y1 e]|]; [|exact I]. destruct (negb (none (errors e))); [exact I|].
    destruct (sends e) as [|r [|r2 l2]]; [| |exact I].
    + destruct (released e) as [|i [|i2 l2]]; [exact I| |exact I]. destruct (i =? k_pid x); [|exact I].
      rewrite !app_nil_r. split; [|exact T]. exact (U_frame X X Y Y1 _ _ _ _ _ _ (fun y => eq_refl) U1).
    + destruct (none (released e)); [|exact I]. destruct T' as [T' _].
      pose proof T' as (_ & _ & _ & _ & _ & _ & _ & _ & _ & _ & _ & _ & Fsr' & _). cbn [cs cr qsr qrs published delivered] in Fsr'.
      apply Forall_app in Fsr' as [_ Fr]. pose proof (Forall_inv Fr) as Hfr. pose proof (fl_sr5_is_sr gY Y1 r Hfr) as Er.
      destruct (part_sr r Er) as [P1 P2]. rewrite rs_app, sr_app, P1, P2, !app_nil_r.
      split; [|exact T]. exact (U_frame X X Y Y1 _ _ _ _ _ _ (fun y => eq_refl) U1).
Qed.

Lemma publish5_U gX gY (X Y : conn) qxy qyx pubX delY pubY delX p q : v5_pub p q -> q = 1 \/ q = 2 ->
  inv5 gX gY (mkSys X Y (sr_part qxy) (rs_part qyx) pubX delY) ->
  U (mkSys X Y (sr_part qxy) (rs_part qyx) pubX delY) ->
  U (mkSys Y X (sr_part qyx) (rs_part qxy) pubY delX) ->
  match publish_at5 gX X p with
  | PNext X' p1 => U (mkSys X' Y (sr_part (qxy ++ [p1])) (rs_part qyx) (pubX ++ [p]) delY) /\
                   U (mkSys Y X' (sr_part qyx) (rs_part (qxy ++ [p1])) pubY delX)
  | _ => True
  end.
Proof.
  intros Hp Hq H1 U1 U2'. pose proof (pub5_U gX gY _ p q H1 Hp Hq U1) as T. pose proof (pub5_ok gX gY _ p q H1 Hp Hq) as T'.
  unfold do_pub5 in T, T'. cbn [cs cr qsr qrs published delivered] in T, T'. cbv zeta in T, T'.
  unfold publish_at5. cbv zeta.
  destruct (negb _) eqn:Epre; [exact I|]. apply negb_false_iff in Epre.
  apply andb_true_iff in Epre as [Epre E6]. apply andb_true_iff in Epre as [Epre E5]. apply andb_true_iff in Epre as [Epre E4].
  apply andb_true_iff in Epre as [Epre E3]. apply andb_true_iff in Epre as [E1 E2].
  apply N.leb_le in E1, E2. apply negb_true_iff in E3.
  pose proof H1 as (OX & _). cbn [cs] in OX.
  destruct (register_ae gX X (k_pid p) OX (conj E1 E2) E3) as (a & Ereg & _). rewrite Ereg in *.
  set (X0 := set_pid X a) in *.
  destruct (step gX X0 (OSend p)) as [[[X1 e1] r1]|]; [|exact I].
  destruct (one (sends e1)) as [p1|]; [|exact I]. destruct (negb _); [exact I|].
  pose proof T' as (_ & _ & _ & _ & _ & _ & _ & _ & _ & _ & _ & _ & Fsr' & _). cbn [cs cr qsr qrs published delivered] in Fsr'.
  apply Forall_app in Fsr' as [_ Fp]. pose proof (Forall_inv Fp) as Hfp. pose proof (fl_sr5_is_sr gX X1 p1 Hfp) as Ep.
  destruct (part_sr p1 Ep) as [P1 P2]. rewrite rs_app, sr_app, P1, P2, app_nil_r.
  split; [exact T|]. exact (U_frame Y Y X X1 _ _ _ _ _ _ (fun y => eq_refl) U2').
Qed.

Lemma toB5_U s : inv25 gA gB s -> U2 s -> match do_toB gB s with Next2 s' => U2 s' | _ => True end.
Proof.
  destruct s as [a b qab0 qba0 pa db pb da]. unfold inv25, U2, do_toB, vAB, vBA. cbn [ea eb qab qba pubA delB pubB delA].
  intros [H1 H2] [V1 V2]. destruct qab0 as [|x t]; [exact I|].
  pose proof (deliver5_U gA gB a b qba0 pa db pb da x t H1 H2 V1 V2) as H.
  destruct (deliver_to gB b x) as [b' out d|]; [|exact I]. cbn [ea eb qab qba pubA delB pubB delA]. exact H.
Qed.
Lemma toA5_U s : inv25 gA gB s -> U2 s -> match do_toA gA s with Next2 s' => U2 s' | _ => True end.
Proof.
  destruct s as [a b qab0 qba0 pa db pb da]. unfold inv25, U2, do_toA, vAB, vBA. cbn [ea eb qab qba pubA delB pubB delA].
  intros [H1 H2] [V1 V2]. destruct qba0 as [|x t]; [exact I|].
  pose proof (deliver5_U gB gA b a qab0 pb da pa db x t H2 H1 V2 V1) as H.
  destruct (deliver_to gA a x) as [a' out d|]; [|exact I]. cbn [ea eb qab qba pubA delB pubB delA]. destruct H as [K1 K2]. split; assumption.
Qed.
Lemma pubA5_U s p q : v5_pub p q -> q = 1 \/ q = 2 -> inv25 gA gB s -> U2 s -> match do_pubA5 gA s p with Next2 s' => U2 s' | _ => True end.
Proof.
  destruct s as [a b qab0 qba0 pa db pb da]. unfold inv25, U2, do_pubA5, vAB, vBA. cbn [ea eb qab qba pubA delB pubB delA].
  intros Hp Hq [H1 H2] [V1 V2]. pose proof (publish5_U gA gB a b qab0 qba0 pa db pb da p q Hp Hq H1 V1 V2) as H.
  destruct (publish_at5 gA a p) as [a' p1| |]; [|exact I|exact I]. cbn [ea eb qab qba pubA delB pubB delA]. exact H.
Qed.
Lemma pubB5_U s p q : v5_pub p q -> q = 1 \/ q = 2 -> inv25 gA gB s -> U2 s -> match do_pubB5 gB s p with Next2 s' => U2 s' | _ => True end.
Proof.
  destruct s as [a b qab0 qba0 pa db pb da]. unfold inv25, U2, do_pubB5, vAB, vBA. cbn [ea eb qab qba pubA delB pubB delA].
  intros Hp Hq [H1 H2] [V1 V2]. pose proof (publish5_U gB gA b a qba0 qab0 pb da pa db p q Hp Hq H2 V2 V1) as H.
  destruct (publish_at5 gB b p) as [b' p1| |]; [|exact I|exact I]. cbn [ea eb qab qba pubA delB pubB delA]. destruct H as [K1 K2]. split; assumption.
Qed.

Lemma act25_U s a : inv25 gA gB s -> good_act25 a -> U2 s -> match do_act25 gA gB s a with Next2 s' => U2 s' | _ => True end.
Proof.
  intros Hi Hg HU. destruct a as [p|p| |]; cbn [do_act25 good_act25] in *.
  - destruct Hg as [Hg|Hg]; [apply (pubA5_U s p 1 Hg); [now left|exact Hi|exact HU]|apply (pubA5_U s p 2 Hg); [now right|exact Hi|exact HU]].
  - destruct Hg as [Hg|Hg]; [apply (pubB5_U s p 1 Hg); [now left|exact Hi|exact HU]|apply (pubB5_U s p 2 Hg); [now right|exact Hi|exact HU]].
  - exact (toB5_U s Hi HU).
  - exact (toA5_U s Hi HU).
Qed.

Theorem sched25_U : forall l s, inv25 gA gB s -> U2 s -> Forall good_act25 l ->
  match run_sched25 gA gB s l with Some s' => U2 s' | None => True end.
Proof.
  induction l as [|a t IH]; intros s Hi HU Hf; cbn [run_sched25]; [exact HU|].
  pose proof (Forall_inv Hf) as Ha. pose proof (Forall_inv_tail Hf) as Ht.
  pose proof (act25_ok gA gB s a Hi Ha) as Hok. pose proof (act25_U s a Hi Ha HU) as HU'.
  destruct (do_act25 gA gB s a) as [s'| |]; [exact (IH s' Hok HU' Ht)|exact (IH s Hi HU Ht)|exact I].
Qed.

Lemma drain25_good n : Forall good_act25 (drain2 n).
Proof. induction n as [|k IH]; cbn [drain2]; [constructor|]. repeat constructor; assumption || exact I. Qed.

(* THE COMPLETE QUIESCENT STATE, both directions, v5.0 *)
Theorem two_way5_quiescence l s : inv25 gA gB s -> U2 s -> Forall good_act25 l ->
  exists s1 s2, run_sched25 gA gB s l = Some s1 /\ run_sched25 gA gB s1 (drain2 (measure2 s1)) = Some s2 /\
                qab s2 = [] /\ qba s2 = [] /\ delB s2 = pubA s1 /\ delA s2 = pubB s1 /\
                vacancy (ea s2) = c_send_max (ea s2) /\ vacancy (eb s2) = c_send_max (eb s2) /\
                c_publish_recv (ea s2) = [] /\ c_publish_recv (eb s2) = [] /\
                (forall y, is_used (ea s2) y = false) /\ (forall y, is_used (eb s2) y = false).
Proof.
  intros Hi HU Hf. destruct (two_way5_exactly_once gA gB l s Hi Hf) as (s1 & s2 & R1 & R2 & Q1 & Q2 & D1 & D2 & W1 & W2 & P1 & P2).
  exists s1, s2. split; [exact R1|]. split; [exact R2|]. split; [exact Q1|]. split; [exact Q2|]. split; [exact D1|]. split; [exact D2|].
  split; [exact W1|]. split; [exact W2|]. split; [exact P1|]. split; [exact P2|].
  pose proof (sched25_U l s Hi HU Hf) as U1. rewrite R1 in U1.
  destruct (sched25_ok gA gB l s Hi Hf) as (s1' & R1' & I1). assert (s1' = s1) by congruence. subst s1'.
  pose proof (sched25_U (drain2 (measure2 s1)) s1 I1 U1 (drain25_good _)) as V. rewrite R2 in V. destruct V as [V1 V2].
  unfold U, vAB, vBA in V1, V2. cbn [cs qsr qrs] in V1, V2. rewrite Q1, Q2 in V1, V2. cbn in V1, V2.
  split; intro y; [destruct (is_used (ea s2) y) eqn:E; [exfalso; exact (V1 y E)|reflexivity]|destruct (is_used (eb s2) y) eqn:E; [exfalso; exact (V2 y E)|reflexivity]].
Qed.
End BiIds5.
