(* Histories: a list of API calls applied to a connection; the run stops at a panic. *)
From MQ Require Import Base.Prelude Alloc.Alloc Framing.Framing Conn.Types Conn.TopicAlias Conn.ConnRecord Conn.Step.

(* the event lists returned by the successive calls *)
Fixpoint run_events (g : cfg) (c : conn) (ops : list op) : list (list event) :=
  match ops with
  | [] => []
  | o :: t => match step g c o with
              | Ok (c', e, _) => e :: run_events g c' t
              | Panic _ => []
              end
  end.

(* the state after a history (None if a call panicked) *)
Fixpoint run_state (g : cfg) (c : conn) (ops : list op) : option conn :=
  match ops with
  | [] => Some c
  | o :: t => match step g c o with
              | Ok (c', _, _) => run_state g c' t
              | Panic _ => None
              end
  end.

Definition run_panics (g : cfg) (c : conn) (ops : list op) : bool :=
  match run_state g c ops with Some _ => false | None => true end.
