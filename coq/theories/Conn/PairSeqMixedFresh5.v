(* C01 / C12, model side, end to end from fresh v5.0 objects: [conn_new], automatic responses switched on, the handshake
   (Clean Start; Receive Maximum and Maximum Packet Size as the two sides announce them, none of them zero), then ANY sequence
   of messages of ANY mix of QoS 0 / 1 / 2 with either side publishing each item.  Never Fail; each application notified of
   exactly the other side's messages, once each, in order; all four Receive Maximum accounts at zero afterwards. *)
From MQ Require Import Base.Prelude Alloc.Alloc Alloc.SetSpec Alloc.AllocProofs Framing.Framing
                       Conn.Types Conn.TopicAlias Conn.ConnRecord Conn.Step Conn.Run Corr.ConnTrace Conn.Scope Conn.IdsQuota Conn.WfInv
                       Conn.Own Conn.OwnFrame Conn.OwnStep Conn.Qos2Dup Conn.TasBounds Conn.NoPanic
                       Conn.PairQos Conn.PairQos5 Conn.PairSeq Conn.PairSeq5 Conn.PairConc Conn.PairConc5 Conn.PairBi Conn.PairBi5
                       Conn.PairHandshake5 Conn.PairManual Conn.PairManual5 Conn.PairManualSeq Conn.PairManualSeq5 Conn.PairHandshakeSeq
                       Conn.PairSeqMixed Conn.PairSeqMixed2 Conn.PairSeqMixed5 Conn.PairSeqMixed25.

Theorem fresh_v5_two_way_mixed_sequence gA gB cn ca l :
  1 <= g_idmax gA -> 1 <= g_idmax gB -> role_client_ok gA = true -> role_server_ok gB = true ->
  k_type cn = T_CONNECT -> k_ver cn = V50 -> k_flag cn = true -> k_tam cn = None -> k_rm cn <> Some 0 -> k_size cn <= MQTT_PACKET_SIZE_NO_LIMIT ->
  k_type ca = T_CONNACK -> k_ver ca = V50 -> k_rc ca = 0 -> k_flag ca = false -> k_tam ca = None -> k_rm ca <> Some 0 -> k_mps ca <> Some 0 ->
  k_size ca <= limit_after (k_mps cn) MQTT_PACKET_SIZE_NO_LIMIT ->
  2 + g_idw gA <= limit_after (k_mps ca) MQTT_PACKET_SIZE_NO_LIMIT -> 2 + g_idw gB <= limit_after (k_mps cn) MQTT_PACKET_SIZE_NO_LIMIT ->
  Forall (fun i => v5_any (item_pkt i)) l ->
  let A0 := set_auto_pub (conn_new gA V50) true in
  let B0 := set_auto_pub (conn_new gB V50) true in
  exists A1 e1 B1 e2 B2 e3 A2 e4,
    step gA A0 (OSend cn) = Ok (A1, e1, []) /\ deliver gB B0 cn = Ok (B1, e2) /\
    step gB B1 (OSend ca) = Ok (B2, e3, []) /\ deliver gA A1 ca = Ok (A2, e4) /\
    errors e1 = [] /\ errors e2 = [] /\ errors e3 = [] /\ errors e4 = [] /\
    match run_mixed52 gA gB A2 B2 l with
    | Done2 A' B' dB dA => dB = fromA l /\ dA = fromB l /\ pair_inv52 gA gB A' B' /\
                           vacancy A' = c_send_max A' /\ vacancy B' = c_send_max B' /\ c_publish_recv A' = [] /\ c_publish_recv B' = []
    | AppPre2 => True
    | Fail2 => False
    end.
Proof.
  intros IA IB RA RB T1 V1 F1 M1 N1 Z1 T2 V2 C2 F2 M2 R2 Q2 Z2 FA FB Hl A0 B0.
  assert (OA : OWN gA A0) by (apply (f8_own gA (conn_new gA V50)); [unfold F8; repeat split|exact (conn_new_OWN gA V50 IA)]).
  assert (OB : OWN gB B0) by (apply (f8_own gB (conn_new gB V50)); [unfold F8; repeat split|exact (conn_new_OWN gB V50 IB)]).
  assert (Z1' : size_ok A0 cn = true) by (unfold size_ok; apply N.leb_le; exact Z1).
  destruct (handshake5_states gA gB A0 B0 cn ca OA OB eq_refl eq_refl eq_refl eq_refl RA RB T1 V1 F1 M1 Z1' T2 V2 C2 F2 M2 R2 Q2 Z2)
    as (A1 & e1 & B1 & e2 & B2 & e3 & A2 & e4 & E1 & _ & X1 & E2 & _ & X2 & E3 & _ & X3 & E4 & _ & X4 & OA2 & HA & PA & OB2 & HB & PB).
  exists A1, e1, B1, e2, B2, e3, A2, e4. do 8 (split; [assumption|]).
  destruct HA as (d1 & d2 & d3 & d4 & d5 & d6 & d7 & d8 & d9 & d10). destruct HB as (c1 & c2 & c3 & c4 & c5 & c6 & c7 & c8 & c9 & c10).
  assert (Hab : pair_inv5 gA gB A2 B2).
  { split; [exact OA2|]. split; [split; [exact d1|rewrite d2; reflexivity]|]. split; [rewrite PA; reflexivity|]. split; [exact d3|].
    split; [unfold ack_fits; rewrite d4; exact FA|]. split; [exact d5|]. split; [rewrite d8; exact R2|].
    split; [split; [exact c1|rewrite c2; reflexivity]|]. split; [rewrite PB; reflexivity|]. split; [unfold ack_fits; rewrite c4; exact FB|].
    split; [exact c7|]. split; [rewrite c9; exact R2|]. rewrite c6. exact I. }
  assert (Hba : pair_inv5 gB gA B2 A2).
  { split; [exact OB2|]. split; [split; [exact c1|rewrite c2; reflexivity]|]. split; [rewrite PB; reflexivity|]. split; [exact c3|].
    split; [unfold ack_fits; rewrite c4; exact FB|]. split; [exact c5|]. split; [rewrite c8; exact N1|].
    split; [split; [exact d1|rewrite d2; reflexivity]|]. split; [rewrite PA; reflexivity|]. split; [unfold ack_fits; rewrite d4; exact FA|].
    split; [exact d7|]. split; [rewrite d9; exact N1|]. rewrite d6. exact I. }
  pose proof (run_mixed52_ok gA gB l A2 B2 (conj Hab Hba) Hl) as H.
  destruct (run_mixed52 gA gB A2 B2 l) as [A' B' dB dA| |]; [|exact I|exact H]. destruct H as (H1 & H2 & H3).
  split; [exact H1|]. split; [exact H2|]. split; [exact H3|]. destruct H3 as [K1 K2].
  split; [exact (pair_inv5_full_vacancy gA gB A' B' K1)|]. split; [exact (pair_inv5_full_vacancy gB gA B' A' K2)|].
  destruct K1 as (_ & _ & _ & _ & _ & _ & _ & _ & _ & _ & P1 & _). destruct K2 as (_ & _ & _ & _ & _ & _ & _ & _ & _ & _ & P2 & _).
  split; [exact P2|exact P1].
Qed.
