(* C15: what the expiry of each timer does, and the server-side re-arm of the keep-alive timer by every
   accepted packet.  Per call, every state. *)
From MQ Require Import Base.Prelude Alloc.Alloc Alloc.SetSpec Alloc.AllocProofs Framing.Framing
                       Conn.Types Conn.TopicAlias Conn.ConnRecord Conn.Step Conn.Run Corr.ConnTrace Conn.Scope Conn.Qos2Dup.

(* PINGREQ-send timer: on an established connection a PINGREQ is requested and, when a response timeout is
   configured, the PINGRESP timer is armed with it *)
Theorem pingreq_send_expiry c :
  status_eqb (c_status c) Connected = true -> c_version c <> VUndet ->
  (c_version c = V50 -> 2 <= c_mps_send c) ->
  match do_timer c TPingreqSend with
  | Ok (c', e) =>
      In (ESend (pingreq_pkt (c_version c)) None) e /\
      (c_pingresp_recv_to c <> 0 -> In (ETimerReset TPingrespRecv (c_pingresp_recv_to c)) e /\ c_t_resp c' = true)
  | Panic _ => False
  end.
Proof.
  intros Hs Hv Hm. unfold do_timer. cbv zeta. conn_simpl_goal. rewrite Hs.
  assert (H : forall v, c_version c = v -> v <> VUndet ->
            match send_pingreq (set_t_send c false) (pingreq_pkt v) with
            | Ok (c', e) => In (ESend (pingreq_pkt v) None) e /\
                (c_pingresp_recv_to c <> 0 -> In (ETimerReset TPingrespRecv (c_pingresp_recv_to c)) e /\ c_t_resp c' = true)
            | Panic _ => False end).
  { intros v Ev Hv'. unfold send_pingreq, size_ok, pingreq_pkt, simple_pkt. conn_simpl_goal. cbn [k_ver k_size]. rewrite Hs. cbn [negb].
    assert (Eg : version_eqb v V50 && negb (2 <=? c_mps_send c) = false).
    { destruct v; cbn [version_eqb andb]; try reflexivity. apply negb_false_iff, N.leb_le. apply Hm. congruence. }
    rewrite Eg. destruct (N.eqb_spec (c_pingresp_recv_to c) 0) as [E0|E0]; cbn [negb].
    - pose proof (post_silent (set_t_send c false)) as _. destruct (send_post_process (set_t_send c false)) as [c2 e2].
      split; [now left|]. intro K. contradiction.
    - match goal with |- match (let '(_, _) := send_post_process ?x in _) with _ => _ end =>
        assert (Hr : c_t_resp (fst (send_post_process x)) = true) by (unfold send_post_process; destruct (c_is_client x); [destruct (0 <? _)|]; reflexivity);
        destruct (send_post_process x) as [c2 e2]; cbn [fst] in Hr end.
      split; [now left|]. intros _. split; [right; now left|exact Hr]. }
  destruct (c_version c) eqn:Ev; [apply H; [reflexivity|discriminate]|apply H; [reflexivity|discriminate]|now destruct Hv].
Qed.

(* PINGREQ-receive (server) and PINGRESP-receive (client) timers: the connection is given up — v3.1.1: a close is
   requested; v5.0 while established: DISCONNECT "Keep Alive timeout" (if it fits the peer's limit), then close *)
Theorem keepalive_expiry_v311 c k : k <> TPingreqSend -> c_version c = V311 ->
  match do_timer c k with Ok (c', e) => e = [EClose] | Panic _ => False end.
Proof. intros Hk Hv. unfold do_timer. destruct k; [contradiction| |]; cbv zeta; conn_simpl_goal; rewrite Hv; reflexivity. Qed.

Theorem keepalive_expiry_v5 c k : k <> TPingreqSend -> c_version c = V50 -> status_eqb (c_status c) Connected = true ->
  match do_timer c k with
  | Ok (c', e) => In EClose e /\ c_status c' = Disconnected /\
                  (size_ok c (disconnect_v5 141) = true -> In (ESend (disconnect_v5 141) None) e)
  | Panic _ => False
  end.
Proof.
  intros Hk Hv Hs. unfold do_timer. destruct k; [contradiction| |]; cbv zeta; conn_simpl_goal; rewrite Hv, Hs.
  all: unfold close_with_disconnect, send_disconnect, size_ok in *; conn_simpl_goal; rewrite Hs; cbn [andb negb].
  all: change (k_ver (disconnect_v5 141)) with V50; cbn [version_eqb andb].
  all: destruct (k_size (disconnect_v5 141) <=? c_mps_send c); cbn [negb].
  all: match goal with |- match (let '(_, _) := cancel_timers ?x in _) with _ => _ end =>
         pose proof (cancel_timers_state x) as Hc; destruct (cancel_timers x) as [c2 e2]; cbn [fst] in Hc; subst c2 end.
  all: conn_simpl_goal; split; [apply in_or_app; right; cbn; auto|]; split; [reflexivity|].
  all: first [intros _; apply in_or_app; right; now left | intro K; discriminate].
Qed.

(* ---- the server-side keep-alive timer is re-armed by every accepted packet ---- *)
Definition RF (r : res (conn * list event)) : Prop :=
  match r with
  | Ok (c', e) => notifies e <> [] -> c_pingreq_recv_to c' <> 0 ->
                  In (ETimerReset TPingreqRecv (c_pingreq_recv_to c')) e /\ c_t_recv c' = true
  | Panic _ => True
  end.

Lemma rf_fin x e1 tail : RF (let '(c, e2) := refresh_pingreq_recv x in Ok (c, e1 ++ e2 ++ tail)).
Proof.
  unfold refresh_pingreq_recv. destruct (N.eqb_spec (c_pingreq_recv_to x) 0) as [E|E]; cbn [negb RF]; conn_simpl_goal.
  - intros _ K. contradiction.
  - intros _ _. split; [apply in_or_app; right; now left|reflexivity].
Qed.
Lemma rf_fin2 x e1 e2 tail : RF (let '(c, e3) := refresh_pingreq_recv x in Ok (c, e1 ++ e2 ++ e3 ++ tail)).
Proof.
  pose proof (rf_fin x (e1 ++ e2) tail) as H. destruct (refresh_pingreq_recv x) as [c e3]. cbn [RF] in *. now rewrite <- app_assoc in H.
Qed.
Lemma rf_quiet c e : notifies e = [] -> RF (Ok (c, e)).
Proof. intros H K. contradiction. Qed.
Lemma handle_error_quiet c v e : match handle_error c v e with Ok (_, ev) => notifies ev = [] | Panic _ => True end.
Proof.
  unfold handle_error. destruct (version_eqb v V50); [|reflexivity].
  pose proof (handle_v5_error_evs c e) as H. destruct (handle_v5_error c e) as [[c1 ev]|]; [now destruct H|exact I].
Qed.
Lemma handle_error_RF c v e : RF (handle_error c v e).
Proof. pose proof (handle_error_quiet c v e) as H. destruct (handle_error c v e) as [[c1 ev]|]; [now apply rf_quiet|exact I]. Qed.
Lemma handle_v5_error_RF c e : RF (handle_v5_error c e).
Proof. pose proof (handle_v5_error_evs c e) as H. destruct (handle_v5_error c e) as [[c1 ev]|]; [apply rf_quiet; now destruct H|exact I]. Qed.

Ltac rf_walk :=
  cbv zeta;
  repeat first
    [ progress cbn [bindr]
    | match goal with
      | |- RF (let '(_, _) := refresh_pingreq_recv ?x in Ok (_, ?e1 ++ ?e2 ++ _ ++ ?tail)) => apply (rf_fin2 x e1 e2 tail)
      | |- RF (let '(_, _) := refresh_pingreq_recv ?x in Ok (_, ?e1 ++ _ ++ ?tail)) => apply (rf_fin x e1 tail)
      | |- RF (handle_error _ _ _) => apply handle_error_RF
      | |- RF (handle_v5_error _ _) => apply handle_v5_error_RF
      | |- RF (Panic _) => exact I
      | |- RF (if ?b then _ else _) => destruct b
      | |- RF (bindr (if ?b then _ else _) _) => destruct b
      | |- RF (bindr (send_puback_like ?c ?p) _) => destruct (send_puback_like c p) as [[? ?]|]
      | |- RF (bindr (send_plain ?c ?p) _) => destruct (send_plain c p) as [[? ?]|]
      | |- RF (bindr (send_pubrel ?c ?p) _) => destruct (send_pubrel c p) as [[? ?]|]
      | |- RF (bindr (release_if_used ?c ?p) _) => destruct (release_if_used c p) as [[? ?]|]
      end ].

Lemma recv_publish_v311_RF g c pr : RF (recv_publish_v311 g c pr).
Proof.
  unfold recv_publish_v311, handle_v311_error. destruct pr as [p|e]; [|apply rf_quiet; reflexivity]. cbv zeta.
  destruct (k_qos p =? 0); [apply (rf_fin c [] [ENotify p])|]. rf_walk.
Qed.
Lemma recv_publish_v5_RF g c pr : RF (recv_publish_v5 g c pr).
Proof.
  unfold recv_publish_v5. destruct pr as [p|e]; [|rf_walk; apply rf_quiet; reflexivity]. cbv zeta.
  destruct (_ && _); [apply handle_v5_error_RF|].
  pose proof (resolve_spec g (note_inbound c p) p) as HR.
  destruct (resolve_recv_alias g (note_inbound c p) p) as [[[[c1 q] stop] e0]|]; cbn [bindr]; [|exact I].
  destruct HR as (_ & R2 & _). destruct stop; [now apply rf_quiet|]. rf_walk.
Qed.
Lemma recv_ack_RF g c v t pr : RF (recv_ack g c v t pr).
Proof. unfold recv_ack. destruct pr as [p|e]; [|apply handle_error_RF]. rf_walk. Qed.
Lemma recv_pubrel_RF g c v pr : RF (recv_pubrel g c v pr).
Proof. unfold recv_pubrel. destruct pr as [p|e]; [|apply handle_error_RF]. rf_walk. Qed.
Lemma recv_notify_RF c v pr : RF (recv_notify c v pr).
Proof. unfold recv_notify. destruct pr as [p|e]; [|apply handle_error_RF]. apply (rf_fin c [] [ENotify p]). Qed.
Lemma recv_pingreq_RF g c v pr : RF (recv_pingreq g c v pr).
Proof. unfold recv_pingreq. destruct pr as [p|e]; [|apply handle_error_RF]. rf_walk. Qed.
Lemma recv_connect_ok_RF g c v p : RF (recv_connect g c v (PROk p)).
Proof.
  unfold recv_connect. destruct (negb _); [apply handle_error_RF|]. cbv zeta.
  destruct (connect_recv_state _ v p) as [c1|]; cbn [bindr]; [|exact I]. apply (rf_fin c1 [] [ENotify p]).
Qed.

(* every packet kind a server accepts (all but CONNACK, PINGRESP, and DISCONNECT, which ends the connection) *)
Theorem accepted_packet_rearms g c v t pr :
  t <> 2 -> t <> 13 -> t <> 14 -> (t = 1 -> exists p, pr = PROk p) ->
  match dispatch_recv g c v t pr with
  | Ok (c', e) => notifies e <> [] -> c_pingreq_recv_to c' <> 0 ->
                  In (ETimerReset TPingreqRecv (c_pingreq_recv_to c')) e /\ c_t_recv c' = true
  | Panic _ => True
  end.
Proof.
  intros H2 H13 H14 H1. change (RF (dispatch_recv g c v t pr)). unfold dispatch_recv.
  destruct (N.eqb_spec t 1) as [E|E]; [destruct (H1 E) as (p & ->); apply recv_connect_ok_RF|].
  destruct (N.eqb_spec t 2); [contradiction|].
  destruct (t =? 3); [destruct (version_eqb v V50); [apply recv_publish_v5_RF|apply recv_publish_v311_RF]|].
  destruct (_ || _); [apply recv_ack_RF|]. destruct (t =? 6); [apply recv_pubrel_RF|].
  destruct (_ || _); [apply recv_notify_RF|]. destruct (t =? 12); [apply recv_pingreq_RF|].
  destruct (N.eqb_spec t 13); [contradiction|]. destruct (N.eqb_spec t 14); [contradiction|].
  destruct (_ && _); [apply recv_notify_RF|]. apply rf_quiet. reflexivity.
Qed.
