(* C03 — Wire format matches the MQTT specification (independent reference codec).  Statements
   only; the reference codec is Packet/{Prim,Props,Packets,Decode}.v, written from the OASIS
   documents; proofs in GenChecks/C03.v, Packet/RoundTrip.v, Packet/PrimProofs.v. *)
From MQ Require Import Base.Prelude Packet.Prim Packet.PrimProofs Packet.Props Packet.Packets Packet.Decode Packet.RoundTrip
                       Generated.ObservedCodes GenChecks.C03.

(* the numeric constants as compiled equal the specification's: every reason / return code enum on
   all 256 byte values, and the 15 fixed-header bytes (incl. the 0010 flags of PUBREL, SUBSCRIBE,
   UNSUBSCRIBE); regenerated on every run *)
Theorem C03_observed_codes_are_spec :
  forallb code_row_ok observed_codes = true /\ map fst observed_codes = [1; 2; 4; 5; 6; 7; 8; 9; 11; 14; 15].
Proof. exact observed_codes_are_spec. Qed.
Print Assumptions C03_observed_codes_are_spec.

Theorem C03_observed_fixed_headers_are_spec : observed_fixed_headers = spec_fixed_headers.
Proof. exact observed_fixed_headers_are_spec. Qed.
Print Assumptions C03_observed_fixed_headers_are_spec.

(* the reference codec is self-consistent: what it writes it reads back (so "the library's bytes =
   reference encoding" also gives "a reference encoding is read back to the same field values") *)
Theorem C03_reference_roundtrip : forall v idw b,
  packet_ok v idw b = true -> decode v idw (encode v idw b) = Some b.
Proof. exact packet_roundtrip. Qed.
Print Assumptions C03_reference_roundtrip.

(* the reference Variable Byte Integer decoder accepts nothing but the minimal encoding *)
Theorem C03_vbi_canonical : forall l n t,
  all_bytes l = true -> vbi_dec l = Some (n, t) -> l = vbi_enc n ++ t /\ n <= VBI_MAX.
Proof. exact vbi_dec_canonical. Qed.
Print Assumptions C03_vbi_canonical.

(* C03 is decided on the implementation by the monitor mon_c03: for every generated abstract packet
   the library's bytes ARE `encode` of the field values, the reference decoder reads them back, the
   library parses them to an equal packet and its accessors report the same field values. *)

Example C03_nonvacuous :
  encode PV311 2 (BConnect true 60 [] [99] None None None) = [16; 13; 0; 4; 77; 81; 84; 84; 4; 2; 0; 60; 0; 1; 99] /\
  encode PV50 2 (BAck 6 1 (mkTail (Some 146) (Some []))) = [98; 4; 0; 1; 146; 0] /\
  encode PV50 2 (BSubscribe 10 [mkProp 11 (VVbi 128)] [([97; 47; 35], 1)]) = [130; 12; 0; 10; 3; 11; 128; 1; 0; 3; 97; 47; 35; 1].
Proof. vm_compute. repeat split. Qed.
