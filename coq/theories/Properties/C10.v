(* C10 — Connection-scoped state never leaks into the next connection or session.  Statements
   only; proofs in Conn/Scope.v, Conn/ScopeConnack.v, Conn/PidInv.v, Conn/PidInv2.v.  Nothing else may be added to this file. *)
From MQ Require Import Base.Prelude Alloc.Alloc Framing.Framing Conn.Types Conn.ConnRecord Conn.Step Conn.Run Corr.ConnTrace Conn.Scope
                       Conn.PidInv Conn.PidInv2 Conn.ScopeConnack Conn.Own Conn.PairQos Conn.PairQos5 Conn.PairConc Conn.PairBi Conn.PairBi5 Conn.PairHandshake5 Conn.PairReconnect.

(* EVERY state (no reachability needed, hence every first-connection history and every close path):
   notify_closed resets the packet-size limits, the alias tables, the partially received frame, the
   pending subscribe/unsubscribe ids and disarms all timers *)
Theorem C10_closed_has_shape : forall c c' e, do_closed c = Ok (c', e) -> closed_shape c'.
Proof. exact closed_has_shape. Qed.
Print Assumptions C10_closed_has_shape.

(* ... ends a non-persistent session completely ... *)
Theorem C10_closed_nonpersistent_ends_session : forall c c' e,
  do_closed c = Ok (c', e) -> c_need_store c = false ->
  c_store c' = [] /\ c_qos2 c' = [] /\ c_puback c' = [] /\ c_pubrec c' = [] /\ c_pubcomp c' = [].
Proof. exact closed_nonpersistent_ends_session. Qed.
Print Assumptions C10_closed_nonpersistent_ends_session.

(* ... and keeps nothing but the options and the object's identity *)
Theorem C10_closed_is_like_fresh : forall g c c' e,
  do_closed c = Ok (c', e) -> pid_bounds g c -> conn_scope_eq c' (fresh_like g c).
Proof. exact closed_is_like_fresh. Qed.
Print Assumptions C10_closed_is_like_fresh.

(* dead at connect: the outcome (state AND events) of an accepted clean-start CONNECT — sent by a
   client or received by a server — depends on nothing but the options: receive maxima, send
   count, alias tables, keep-alive values, is_client, pending ids, store, in-flight sets, handled
   QoS2 ids and the identifiers in use of the two objects may differ arbitrarily *)
Theorem C10_clean_connect_sent_is_scope_only : forall a b p,
  conn_scope_eq a b -> k_flag p = true -> size_ok a p = true -> c_status a = Disconnected ->
  send_connect a p = send_connect b p.
Proof. exact clean_connect_sent_is_scope_only. Qed.
Print Assumptions C10_clean_connect_sent_is_scope_only.

Theorem C10_clean_connect_received_is_scope_only : forall g a b v p,
  conn_scope_eq a b -> k_flag p = true -> c_status a = Disconnected ->
  recv_connect g a v (PROk p) = recv_connect g b v (PROk p).
Proof. exact clean_connect_received_is_scope_only. Qed.
Print Assumptions C10_clean_connect_received_is_scope_only.

(* consequently: after ANY first history ended by notify_closed, a reused object that starts a new
   session is in the very state of a fresh object with the same options, with the same events, and
   EVERY script S then yields the same events and return values on both *)
Theorem C10_reused_client_script_equal : forall g c c1 e p,
  do_closed c = Ok (c1, e) -> pid_bounds g c -> k_flag p = true -> size_ok c1 p = true ->
  match send_connect c1 p, send_connect (fresh_like g c) p with
  | Ok (a, ea), Ok (b, eb) => ea = eb /\ forall S, run_trace g a S = run_trace g b S
  | Panic x, Panic y => x = y
  | _, _ => False
  end.
Proof. exact reused_client_script_equal. Qed.
Print Assumptions C10_reused_client_script_equal.

Theorem C10_reused_server_script_equal : forall g c c1 e v p,
  do_closed c = Ok (c1, e) -> pid_bounds g c -> k_flag p = true ->
  match recv_connect g c1 v (PROk p), recv_connect g (fresh_like g c) v (PROk p) with
  | Ok (a, ea), Ok (b, eb) => ea = eb /\ forall S, run_trace g a S = run_trace g b S
  | Panic x, Panic y => x = y
  | _, _ => False
  end.
Proof. exact reused_server_script_equal. Qed.
Print Assumptions C10_reused_server_script_equal.

(* session not present in the CONNACK ends the old session exactly as a clean start does *)
Theorem C10_session_not_present_clears : forall c, resume_or_clear c false = Ok (clear_store_related c, []).
Proof. exact session_not_present_clears. Qed.
Print Assumptions C10_session_not_present_clears.

(* the allocator's bounds are an invariant of EVERY call (walk through all of core.rs's functions),
   hence of every history; so the statements above need no hypothesis on the state: *)
Theorem C10_pid_bounds_invariant : forall g ops c,
  pid_bounds g c -> match run_state g c ops with Some c' => pid_bounds g c' | None => True end.
Proof. exact pid_bounds_invariant. Qed.
Print Assumptions C10_pid_bounds_invariant.

(* after EVERY history of a freshly constructed object, ended by notify_closed, a clean-start
   CONNECT (sent / received) has exactly the outcome it has on a fresh object with the same options *)
Theorem C10_reused_after_any_history_client : forall g v ops c c1 e p,
  run_state g (conn_new g v) ops = Some c -> do_closed c = Ok (c1, e) -> k_flag p = true -> size_ok c1 p = true ->
  send_connect c1 p = send_connect (fresh_like g c) p.
Proof. exact reused_after_any_history_client. Qed.
Print Assumptions C10_reused_after_any_history_client.

Theorem C10_reused_after_any_history_server : forall g v ops c c1 e v' p,
  run_state g (conn_new g v) ops = Some c -> do_closed c = Ok (c1, e) -> k_flag p = true ->
  recv_connect g c1 v' (PROk p) = recv_connect g (fresh_like g c) v' (PROk p).
Proof. exact reused_after_any_history_server. Qed.
Print Assumptions C10_reused_after_any_history_server.

(* THE OTHER WAY A SESSION ENDS: CONNECT without Clean Start, answered by a CONNACK with Session Present = 0
   (Conn/ScopeConnack.v).  [upto_session a b]: equal once the session state (store, in-flight sets, identifiers,
   handled ids, send count) is wiped.  For ANY two objects that agree on the connection scope and the options —
   whatever sessions they hold: the CONNECT is accepted with equal events and leaves them equal up to the session;
   the accepted CONNACK without Session Present then has EQUAL outcome (state and events) on both. *)
Theorem C10_connect_sent_upto_session : forall a b p,
  conn_scope_eq a b -> size_ok a p = true -> c_status a = Disconnected ->
  match send_connect a p, send_connect b p with
  | Ok (a1, ea), Ok (b1, eb) => ea = eb /\ upto_session a1 b1 /\ c_status a1 = Connecting
  | Panic x, Panic y => x = y
  | _, _ => False
  end.
Proof. exact connect_sent_upto_session. Qed.
Print Assumptions C10_connect_sent_upto_session.

Theorem C10_connack_not_present_is_scope_only : forall a b v p,
  upto_session a b -> k_flag p = false -> k_rc p = 0 -> c_status a <> Connected ->
  recv_connack a v (PROk p) = recv_connack b v (PROk p).
Proof. exact connack_not_present_is_scope_only. Qed.
Print Assumptions C10_connack_not_present_is_scope_only.

(* consequently: after ANY first connection ended by notify_closed, a reused client object that reconnects
   without Clean Start and is told "session not present" is in the very state of a fresh object with the same
   options, with the same events at both calls, and EVERY script S then yields the same trace on both *)
Theorem C10_reused_client_session_not_present : forall g c c1 e p v q,
  do_closed c = Ok (c1, e) -> pid_bounds g c -> size_ok c1 p = true -> k_flag q = false -> k_rc q = 0 ->
  match send_connect c1 p, send_connect (fresh_like g c) p with
  | Ok (a1, ea), Ok (b1, eb) =>
      ea = eb /\
      match recv_connack a1 v (PROk q), recv_connack b1 v (PROk q) with
      | Ok (a2, ea2), Ok (b2, eb2) => ea2 = eb2 /\ a2 = b2 /\ forall S, run_trace g a2 S = run_trace g b2 S
      | Panic x, Panic y => x = y
      | _, _ => False
      end
  | Panic x, Panic y => x = y
  | _, _ => False
  end.
Proof. exact reused_client_session_not_present. Qed.
Print Assumptions C10_reused_client_session_not_present.


(* THE PAIR (Conn/PairReconnect.v): WHATEVER state two v5.0 endpoints are in — anything negotiated, half-done, stored, awaited
   or handled on the previous connection — once both have been told the transport is closed, a Clean Start handshake
   establishes the two-way pair invariant exactly as on a first connection (for every newly negotiated limit), and every
   schedule of publications and deliveries on the new connection ends with exactly-once delivery both ways and full
   Receive Maximum accounts: nothing of the old connection or session is in the way *)
Theorem C10_reconnect_reestablishes_pair_invariant : forall gA gB A B A0 evA B0 evB cn ca l,
  OWN gA A -> OWN gB B -> c_version A = V50 -> c_version B = V50 -> c_auto_pub A = true -> c_auto_pub B = true ->
  role_client_ok gA = true -> role_server_ok gB = true ->
  (* both sides are told the transport is closed, in whatever state they are *)
  do_closed A = Ok (A0, evA) -> do_closed B = Ok (B0, evB) ->
  k_type cn = T_CONNECT -> k_ver cn = V50 -> k_flag cn = true -> k_tam cn = None -> k_size cn <= MQTT_PACKET_SIZE_NO_LIMIT ->
  k_type ca = T_CONNACK -> k_ver ca = V50 -> k_rc ca = 0 -> k_flag ca = false -> k_tam ca = None -> k_rm ca <> Some 0 -> k_mps ca <> Some 0 ->
  k_size ca <= limit_after (k_mps cn) MQTT_PACKET_SIZE_NO_LIMIT ->
  2 + g_idw gA <= limit_after (k_mps ca) MQTT_PACKET_SIZE_NO_LIMIT -> 2 + g_idw gB <= limit_after (k_mps cn) MQTT_PACKET_SIZE_NO_LIMIT ->
  Forall good_act25 l ->
  exists A1 e1 B1 e2 B2 e3 A2 e4 s1 s2,
    step gA A0 (OSend cn) = Ok (A1, e1, []) /\ deliver gB B0 cn = Ok (B1, e2) /\
    step gB B1 (OSend ca) = Ok (B2, e3, []) /\ deliver gA A1 ca = Ok (A2, e4) /\
    errors e1 = [] /\ errors e2 = [] /\ errors e3 = [] /\ errors e4 = [] /\
    inv25 gA gB (mkBi A2 B2 [] [] [] [] [] []) /\
    run_sched25 gA gB (mkBi A2 B2 [] [] [] [] [] []) l = Some s1 /\
    run_sched25 gA gB s1 (drain2 (measure2 s1)) = Some s2 /\
    qab s2 = [] /\ qba s2 = [] /\ delB s2 = pubA s1 /\ delA s2 = pubB s1 /\
    vacancy (ea s2) = c_send_max (ea s2) /\ vacancy (eb s2) = c_send_max (eb s2).
Proof. exact reconnect_reestablishes_pair_invariant. Qed.
Print Assumptions C10_reconnect_reestablishes_pair_invariant.

(* C10_partial: on the MODEL side what remains outside the theorems is traffic BETWEEN that CONNECT and its
   CONNACK (a reused object still holds its old session there, by design: the session may yet be resumed).  The
   implementation is judged by the paired-run monitor mon_pair (reused implementation object vs fresh
   implementation object, events and full digest) and the quota stage, and tied to the model by the correspondence. *)

Example C10_nonvacuous :
  let g := mkCfg RClient 65535 2 in
  let c := set_t_send (set_mps_send (set_store (set_puback (set_status (conn_new g V311) Connected) [3])
             [mkPkt 3 V311 3 1 true false [116] None 0 0 8 false 0 false 0 None None None None None]) 20) true in
  pid_bounds g c /\
  match do_closed c with
  | Ok (c1, _) => closed_shape c1 /\ c_store c1 = [] /\ conn_scope_eq c1 (fresh_like g c)
  | Panic _ => False
  end.
Proof. vm_compute. repeat split. Qed.
