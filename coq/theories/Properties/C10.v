(* C10 — Connection-scoped state never leaks into the next connection or session.  Statements
   only; proofs in Conn/Scope.v.  Nothing else may be added to this file. *)
From MQ Require Import Base.Prelude Alloc.Alloc Framing.Framing Conn.Types Conn.ConnRecord Conn.Step Corr.ConnTrace Conn.Scope.

(* EVERY state (no reachability needed, hence every first-connection history and every close path):
   notify_closed resets the packet-size limits, the alias tables, the partially received frame, the
   pending subscribe/unsubscribe ids and disarms all timers *)
Theorem C10_closed_has_shape : forall c c' e, do_closed c = Ok (c', e) -> closed_shape c'.
Proof. exact closed_has_shape. Qed.
Print Assumptions C10_closed_has_shape.

(* ... ends a non-persistent session completely ... *)
Theorem C10_closed_nonpersistent_ends_session : forall c c' e,
  do_closed c = Ok (c', e) -> c_need_store c = false ->
  c_store c' = [] /\ c_qos2 c' = [] /\ c_puback c' = [] /\ c_pubrec c' = [] /\ c_pubcomp c' = [].
Proof. exact closed_nonpersistent_ends_session. Qed.
Print Assumptions C10_closed_nonpersistent_ends_session.

(* ... and keeps nothing but the options and the object's identity *)
Theorem C10_closed_is_like_fresh : forall g c c' e,
  do_closed c = Ok (c', e) -> pid_bounds g c -> conn_scope_eq c' (fresh_like g c).
Proof. exact closed_is_like_fresh. Qed.
Print Assumptions C10_closed_is_like_fresh.

(* dead at connect: the outcome (state AND events) of an accepted clean-start CONNECT — sent by a
   client or received by a server — depends on nothing but the options: receive maxima, send
   count, alias tables, keep-alive values, is_client, pending ids, store, in-flight sets, handled
   QoS2 ids and the identifiers in use of the two objects may differ arbitrarily *)
Theorem C10_clean_connect_sent_is_scope_only : forall a b p,
  conn_scope_eq a b -> k_flag p = true -> size_ok a p = true -> c_status a = Disconnected ->
  send_connect a p = send_connect b p.
Proof. exact clean_connect_sent_is_scope_only. Qed.
Print Assumptions C10_clean_connect_sent_is_scope_only.

Theorem C10_clean_connect_received_is_scope_only : forall g a b v p,
  conn_scope_eq a b -> k_flag p = true -> c_status a = Disconnected ->
  recv_connect g a v (PROk p) = recv_connect g b v (PROk p).
Proof. exact clean_connect_received_is_scope_only. Qed.
Print Assumptions C10_clean_connect_received_is_scope_only.

(* consequently: after ANY first history ended by notify_closed, a reused object that starts a new
   session is in the very state of a fresh object with the same options, with the same events, and
   EVERY script S then yields the same events and return values on both *)
Theorem C10_reused_client_script_equal : forall g c c1 e p,
  do_closed c = Ok (c1, e) -> pid_bounds g c -> k_flag p = true -> size_ok c1 p = true ->
  match send_connect c1 p, send_connect (fresh_like g c) p with
  | Ok (a, ea), Ok (b, eb) => ea = eb /\ forall S, run_trace g a S = run_trace g b S
  | Panic x, Panic y => x = y
  | _, _ => False
  end.
Proof. exact reused_client_script_equal. Qed.
Print Assumptions C10_reused_client_script_equal.

Theorem C10_reused_server_script_equal : forall g c c1 e v p,
  do_closed c = Ok (c1, e) -> pid_bounds g c -> k_flag p = true ->
  match recv_connect g c1 v (PROk p), recv_connect g (fresh_like g c) v (PROk p) with
  | Ok (a, ea), Ok (b, eb) => ea = eb /\ forall S, run_trace g a S = run_trace g b S
  | Panic x, Panic y => x = y
  | _, _ => False
  end.
Proof. exact reused_server_script_equal. Qed.
Print Assumptions C10_reused_server_script_equal.

(* session not present in the CONNACK ends the old session exactly as a clean start does *)
Theorem C10_session_not_present_clears : forall c, resume_or_clear c false = Ok (clear_store_related c, []).
Proof. exact session_not_present_clears. Qed.
Print Assumptions C10_session_not_present_clears.

(* C10_partial: (i) pid_bounds (the allocator's fixed bounds 1..max) is an invariant of every
   operation of Alloc.v (a_deallocate_bounds, use_value_spec, allocate_spec) but its preservation by
   every connection step is checked by the correspondence (digest), not yet a theorem; (ii) the
   CONNACK(session not present) path is proved for the store-related state only; the comparison of
   the whole traces on that path is decided by the paired-run monitor mon_pair (reused
   implementation object vs fresh implementation object, events and full digest). *)

Example C10_nonvacuous :
  let g := mkCfg RClient 65535 2 in
  let c := set_t_send (set_mps_send (set_store (set_puback (set_status (conn_new g V311) Connected) [3])
             [mkPkt 3 V311 3 1 true false [116] None 0 0 8 false 0 false 0 None None None None None]) 20) true in
  pid_bounds g c /\
  match do_closed c with
  | Ok (c1, _) => closed_shape c1 /\ c_store c1 = [] /\ conn_scope_eq c1 (fresh_like g c)
  | Panic _ => False
  end.
Proof. vm_compute. repeat split. Qed.
