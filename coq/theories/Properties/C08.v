(* C08 — packet identifiers: unique while in use, released exactly once, never leaked.
   Statements only; proofs in Conn/IdsQuota.v (on top of the allocator refinement of C20), Conn/WfInv.v and
   Conn/Own.v, Conn/OwnFrame.v, Conn/OwnStep.v, Conn/OwnUndet.v (the ownership invariant), Conn/Account.v.
   Nothing else may be added to this file. *)
From MQ Require Import Base.Prelude Alloc.Alloc Alloc.AllocProofs Conn.Types Conn.ConnRecord Conn.Step Conn.Run Conn.IdsQuota Conn.WfInv Conn.Own Conn.OwnFrame Conn.OwnStep Conn.OwnUndet Conn.Account Corr.ConnTrace Conn.PairQos Conn.PairSeq Conn.PairSeqMixed Conn.PairSeqMixed2 Conn.PairSeqMixedIds.

(* WFpid (the interval allocator's representation invariant over [1, idmax]) holds initially and
   is re-established by each of the id-management calls below. *)
Theorem C08_initial : forall g v, 1 <= g_idmax g -> WFpid g (conn_new g v).
Proof. exact conn_new_WFpid. Qed.
Print Assumptions C08_initial.

(* acquire hands out the LEAST free id, which was not in use and is in use afterwards, touches no
   other id and emits no event; it reports exhaustion only when no id at all is free *)
Theorem C08_acquire_spec : forall g c,
  WFpid g c ->
  match step g c OAcquire with
  | Ok (c', evs, [x]) => evs = [] /\ free_in c x = true /\ (forall y, free_in c y = true -> x <= y) /\
                         free_in c' x = false /\ (forall y, y <> x -> free_in c' y = free_in c y) /\ WFpid g c'
  | Ok (c', evs, []) => evs = [] /\ c' = c /\ forall y, free_in c y = false
  | Ok (_, _, _) => False
  | Panic _ => False
  end.
Proof. exact acquire_spec. Qed.
Print Assumptions C08_acquire_spec.

Theorem C08_exhaustion_only_when_full : forall g c,
  WFpid g c ->
  (match step g c OAcquire with Ok (_, _, []) => True | _ => False end) ->
  forall id, 1 <= id -> id <= g_idmax g -> is_used c id = true.
Proof. exact exhaustion_only_when_full. Qed.
Print Assumptions C08_exhaustion_only_when_full.

(* register succeeds exactly for a free id (so never for one in use, 0, or one above the maximum) *)
Theorem C08_register_spec : forall g c id,
  WFpid g c ->
  match step g c (ORegister id) with
  | Ok (c', evs, [r]) => evs = [] /\ n2b r = free_in c id /\ (forall y, free_in c' y = free_in c y && negb (y =? id)) /\ WFpid g c'
  | _ => False
  end.
Proof. exact register_spec. Qed.
Print Assumptions C08_register_spec.

(* release is total for EVERY id value and announces the release exactly when it turns an in-use
   id free: never for a free id, hence never twice *)
Theorem C08_release_spec : forall g c id,
  WFpid g c ->
  match step g c (ORelease id) with
  | Ok (c', evs, _) =>
      (is_used c id = true -> evs = [EReleased id] /\ free_in c' id = true /\
                              (forall y, y <> id -> free_in c' y = free_in c y) /\ WFpid g c') /\
      (is_used c id = false -> evs = [] /\ c' = c)
  | Panic _ => False
  end.
Proof. exact release_spec. Qed.
Print Assumptions C08_release_spec.

(* WFpid over histories: EVERY call of the API keeps the allocator's representation invariant — acquire,
   register, every release the library announces (each guarded by "is in use"), the wholesale reset at
   a new session, the drains at notify_closed — for every input of the peer and every argument of the
   application, with ONE exception that the hypothesis names: the identifiers of stored packets that
   are dropped as oversize on resume are released without that guard ([drops_nothing]: the call is not
   a CONNACK sent / received under whose limit a stored packet no longer fits).  Hence the per-call
   theorems above, which assume WFpid, apply in every state of every such history of a fresh object. *)
Theorem C08_step_keeps_WFpid : forall g c o,
  op_oracle_ok c o -> drops_nothing c o = true -> WFpid g c ->
  match step g c o with Ok (c', _, _) => WFpid g c' | Panic _ => True end.
Proof. exact step_keeps_WFpid. Qed.
Print Assumptions C08_step_keeps_WFpid.

Theorem C08_WFpid_invariant : forall g ops c,
  WFpid g c -> history_drops_nothing g c ops ->
  match run_state g c ops with Some c' => WFpid g c' | None => True end.
Proof. exact WFpid_invariant. Qed.
Print Assumptions C08_WFpid_invariant.

Theorem C08_fresh_WFpid_invariant : forall g v ops,
  1 <= g_idmax g -> history_drops_nothing g (conn_new g v) ops ->
  match run_state g (conn_new g v) ops with Some c' => WFpid g c' | None => True end.
Proof. exact fresh_WFpid_invariant. Qed.
Print Assumptions C08_fresh_WFpid_invariant.

(* THE OWNERSHIP INVARIANT.  [OWN g c]: the allocator satisfies WFpid; the identifiers of the stored
   packets are in use and pairwise distinct; every stored packet has the connection's version and is
   awaited in exactly the set of its kind (PUBACK / PUBREC / PUBCOMP awaited); every identifier is
   awaited in at most one of the five sets.  EVERY call of the API keeps it, for a connection whose
   version is determined, under the application's side of the contract [own_op_ok]: an identifier
   handed to send() with a QoS>0 PUBLISH, PUBREL, SUBSCRIBE or UNSUBSCRIBE is one the application
   holds ([fresh]: awaited nowhere, on no stored packet), a QoS 0 PUBLISH carries none, release_packet_id
   is not called for the identifier of a stored packet, and restore_packets is given packets of the
   connection's version with identifiers awaited nowhere.  Nothing is assumed about what the peer
   sends: every received packet, matching or not, keeps it. *)
Theorem C08_step_keeps_ownership : forall g c o,
  OWN g c -> c_version c <> VUndet -> own_op_ok c o ->
  match step g c o with Ok (c', _, _) => OWN g c' /\ c_version c' = c_version c | Panic _ => True end.
Proof. exact step_keeps_OWN. Qed.
Print Assumptions C08_step_keeps_ownership.

Theorem C08_ownership_invariant : forall g ops c,
  OWN g c -> c_version c <> VUndet -> own_history_ok g c ops ->
  match run_state g c ops with Some c' => OWN g c' | None => True end.
Proof. exact OWN_invariant. Qed.
Print Assumptions C08_ownership_invariant.

Theorem C08_fresh_ownership_invariant : forall g v ops,
  1 <= g_idmax g -> v <> VUndet -> own_history_ok g (conn_new g v) ops ->
  match run_state g (conn_new g v) ops with Some c' => OWN g c' | None => True end.
Proof. exact fresh_OWN_invariant. Qed.
Print Assumptions C08_fresh_ownership_invariant.

(* AN ENDPOINT OF UNDETERMINED VERSION (a server created as Undetermined adopts the version of its first
   CONNECT).  [OWNU g c]: OWN, and the store is empty while the version is undetermined.  Every call keeps
   it when, in addition, packets handed to send() and restore_packets carry a real protocol version
   ([undet_op_ok]); the version stays the same or is adopted.  So OWN holds in every state of every such
   history of a freshly constructed object of ANY version. *)
Theorem C08_step_keeps_ownership_any_version : forall g c o,
  OWNU g c -> own_op_ok c o -> undet_op_ok c o ->
  match step g c o with
  | Ok (c', _, _) => OWNU g c' /\ (c_version c' = c_version c \/ c_version c = VUndet)
  | Panic _ => True
  end.
Proof. exact step_keeps_OWNU. Qed.
Print Assumptions C08_step_keeps_ownership_any_version.

Theorem C08_fresh_ownership_invariant_any_version : forall g v ops,
  1 <= g_idmax g -> ownu_history_ok g (conn_new g v) ops ->
  match run_state g (conn_new g v) ops with Some c' => OWN g c' | None => True end.
Proof. exact fresh_OWNU_invariant. Qed.
Print Assumptions C08_fresh_ownership_invariant_any_version.

(* so WFpid holds in every state of such a history WITHOUT the exception of C08_WFpid_invariant: the
   unguarded releases of send_stored (oversize stored packets dropped on resume) are releases of
   identifiers in use, because they are identifiers of stored packets *)
Theorem C08_ownership_gives_WFpid : forall g c, OWN g c -> WFpid g c.
Proof. exact OWN_WFpid. Qed.
Print Assumptions C08_ownership_gives_WFpid.

(* and, read off the invariant: a stored packet's identifier is held and awaited in the set of its kind *)
Theorem C08_stored_identifier_held : forall g c q, OWN g c -> In q (c_store c) ->
  is_used c (k_pid q) = true /\
  mem (k_pid q) (kset (response_of q) (c_puback c) (c_pubrec c) (c_pubcomp c)) = true /\ k_ver q = c_version c.
Proof. exact own_stored_held. Qed.
Print Assumptions C08_stored_identifier_held.
Theorem C08_stored_identifiers_distinct : forall g c, OWN g c -> NoDup (map k_pid (c_store c)).
Proof. exact own_store_distinct. Qed.
Print Assumptions C08_stored_identifiers_distinct.
Theorem C08_awaited_in_one_set : forall g c id, OWN g c ->
  b2n (mem id (c_puback c)) + b2n (mem id (c_pubrec c)) + b2n (mem id (c_pubcomp c)) + b2n (mem id (c_suback c)) + b2n (mem id (c_unsuback c)) <= 1.
Proof. exact own_awaited_once. Qed.
Print Assumptions C08_awaited_in_one_set.

(* RELEASE ACCOUNTING, EVERY CALL (Conn/Account.v, a walk through every function of the model with its events).
   For every call other than those that take identifiers into use (acquire, register, restore_packets — they
   have their own theorems), from every state with the ownership invariant, with the parser's verdict belonging
   to the frame it was given ([oracle_typed]): the identifiers announced by NotifyPacketIdReleased in this call
   are pairwise distinct, each was in use before the call, and after the call EXACTLY the announced ones have
   turned free (in use afterwards <=> in use before and not announced).  The one exception is a call that
   STARTS A NEW SESSION ([starts_session]: a CONNECT with Clean Start / Clean Session sent or received, a
   CONNACK received that does not keep the session): there, alternatively, every identifier is free — the
   wholesale reset.  Sends, refusals, acknowledgements, close, resume with oversize drops, erase,
   release_packet_id, timers, every received packet. *)
Theorem C08_step_accounts : forall rs g c o,
  OWNU g c -> oracle_typed c o -> takes_ids o = false -> (starts_session o = true -> rs = true) ->
  match step g c o with
  | Ok (c', e, _) => accp rs g (c_pid c) (c_pid c') (released e)
  | Panic _ => True
  end.
Proof. exact step_accounts. Qed.
Print Assumptions C08_step_accounts.

Theorem C08_release_accounting : forall g c o c' e r,
  OWNU g c -> oracle_typed c o -> takes_ids o = false -> starts_session o = false -> step g c o = Ok (c', e, r) ->
  NoDup (released e) /\ (forall id, In id (released e) -> is_used c id = true) /\
  (forall id, is_used c' id = is_used c id && negb (inb id (released e))).
Proof. exact step_release_accounting. Qed.
Print Assumptions C08_release_accounting.

Theorem C08_release_accounting_session_start : forall g c o c' e r,
  OWNU g c -> oracle_typed c o -> takes_ids o = false -> step g c o = Ok (c', e, r) ->
  NoDup (released e) /\ (forall id, In id (released e) -> is_used c id = true) /\
  ((forall id, is_used c' id = is_used c id && negb (inb id (released e))) \/ (forall id, is_used c' id = false)).
Proof. exact step_release_accounting_any. Qed.
Print Assumptions C08_release_accounting_session_start.

(* BETWEEN TWO ENDPOINTS (Conn/PairSeqMixedIds.v): over any sequence of complete exchanges of any QoS mix, either side publishing,
   no identifier leaks - the set of identifiers in use on each side after the run is the set in use before it *)
Theorem C08_sequences_leak_no_identifier : forall gA gB l a b,
  pair_inv2 gA gB a b -> Forall (fun i => v311_any (item_pkt i)) l ->
  match run_mixed2 gA gB a b l with
  | Done2 a' b' _ _ => (forall y, is_used a' y = is_used a y) /\ (forall y, is_used b' y = is_used b y)
  | _ => True
  end.
Proof. exact run_mixed2_used. Qed.
Print Assumptions C08_sequences_leak_no_identifier.

(* C08_partial: on the MODEL side what is left to the monitor alone is the no-leak-on-close clause as a
   statement about ownership ghosts (which identifiers the application is responsible for); the implementation
   is judged by mon_c08 on its traces (with the in-use set from the hook), by the store and allocator stages,
   and tied to the model by the projection correspondence. *)

Example C08_nonvacuous :
  let g := mkCfg RClient 65535 2 in
  let c0 := conn_new g V311 in
  match step g c0 OAcquire with
  | Ok (c1, _, r1) =>
    r1 = [1] /\
    match step g c1 (ORelease 0), step g c1 (ORelease 1), step g c1 (ORelease 70000) with
    | Ok (_, e0, _), Ok (c2, e1, _), Ok (_, e2, _) => e0 = [] /\ e1 = [EReleased 1] /\ e2 = [] /\ c2 = c0
    | _, _, _ => False
    end
  | Panic _ => False
  end.
Proof. vm_compute. repeat split. Qed.

(* the history theorem's premises are satisfiable *)
Example C08_history_nonvacuous :
  let g := mkCfg RClient 65535 2 in
  let ops := [OAcquire; OAcquire; ORelease 1; ORegister 7; OClosed; OAcquire] in
  history_drops_nothing g (conn_new g V311) ops /\
  match run_state g (conn_new g V311) ops with Some c' => is_used c' 2 = true /\ is_used c' 1 = true | None => False end.
Proof. vm_compute. repeat split; reflexivity. Qed.

(* the ownership history theorem's premises are satisfiable, on a history that crosses an oversize drop:
   a v5.0 client with a session publishes QoS 1 (108 bytes stored) and QoS 2, the connection closes, and
   the next CONNACK (session present) announces Maximum Packet Size 50: the QoS 1 packet is dropped and
   its identifier released, the QoS 2 packet is resent *)
Example C08_ownership_nonvacuous :
  let g := mkCfg RClient 65535 2 in
  let cn := mkPkt 1 V50 0 0 false false [] None 0 0 20 false 0 false 0 None None None (Some 100) None in
  let ca1 := mkPkt 2 V50 0 0 false false [] None 0 0 5 true 0 false 0 None None None None None in
  let ca2 := mkPkt 2 V50 0 0 false false [] None 0 0 10 true 0 true 0 None None (Some 50) None None in
  let pb1 := mkPkt 3 V50 1 1 false false [116] None 0 100 107 false 0 false 0 None None None None None in
  let pb2 := mkPkt 3 V50 2 2 false false [116] None 0 0 7 false 0 false 0 None None None None None in
  let ops := [OSend cn; ORecv [32;3;0;0;0] (PROk ca1); OAcquire; OSend pb1; OAcquire; OSend pb2; OClosed; OSend cn;
              ORecv [32;3;1;0;0] (PROk ca2)] in
  own_history_ok g (conn_new g V50) ops /\
  match run_state g (conn_new g V50) ops with
  | Some c' => map k_pid (c_store c') = [2] /\ c_puback c' = [] /\ c_pubrec c' = [2] /\ is_used c' 1 = false /\ is_used c' 2 = true
  | None => False
  end.
Proof. vm_compute. repeat split; try reflexivity; try discriminate; intros; try discriminate. Qed.

(* ... and for a server created with an undetermined version: the CONNECT (protocol level 5, session kept)
   determines it, then a QoS 1 PUBLISH is stored and sent *)
Example C08_ownership_undetermined_nonvacuous :
  let g := mkCfg RServer 65535 2 in
  let cn := mkPkt 1 V50 0 0 false false [] None 0 0 20 false 0 false 0 None None None (Some 100) None in
  let ca := mkPkt 2 V50 0 0 false false [] None 0 0 5 true 0 false 0 None None None None None in
  let pb1 := mkPkt 3 V50 1 1 false false [116] None 0 3 10 false 0 false 0 None None None None None in
  let ops := [OAcquire; ORelease 1; ORecv [16;13;0;4;77;81;84;84;5;0;0;0;0;0;0] (PROk cn); OSend ca; OAcquire; OSend pb1] in
  ownu_history_ok g (conn_new g VUndet) ops /\
  match run_state g (conn_new g VUndet) ops with
  | Some c' => c_version c' = V50 /\ map k_pid (c_store c') = [1] /\ c_puback c' = [1] /\ is_used c' 1 = true
  | None => False
  end.
Proof. vm_compute. repeat split; try reflexivity; try discriminate; intros; try discriminate. Qed.

(* release accounting on a concrete call: a non-persistent close with a SUBSCRIBE and a QoS 1 PUBLISH in
   flight announces exactly their two identifiers, and exactly those turn free *)
Example C08_accounting_nonvacuous :
  let g := mkCfg RClient 65535 2 in
  let cn := mkPkt 1 V311 0 0 false false [] None 0 0 14 false 0 true 0 None None None None None in
  let ca := mkPkt 2 V311 0 0 false false [] None 0 0 4 true 0 false 0 None None None None None in
  let sb := mkPkt 8 V311 1 0 false false [116] None 0 0 8 false 0 false 0 None None None None None in
  let pb := mkPkt 3 V311 2 1 false false [116] None 0 0 7 false 0 false 0 None None None None None in
  match run_state g (conn_new g V311) [OSend cn; ORecv [32;2;0;0] (PROk ca); OAcquire; OSend sb; OAcquire; OSend pb; OAcquire] with
  | Some c => match step g c OClosed with
              | Ok (c', e, _) => released e = [1; 2] /\ is_used c 1 = true /\ is_used c' 1 = false /\ is_used c' 2 = false /\ is_used c' 3 = true
              | Panic _ => False end
  | None => False
  end.
Proof. vm_compute. repeat split; reflexivity. Qed.
