(* C08 — packet identifiers: unique while in use, released exactly once, never leaked.
   Statements only; proofs in Conn/IdsQuota.v (on top of the allocator refinement of C20) and Conn/WfInv.v.
   Nothing else may be added to this file. *)
From MQ Require Import Base.Prelude Alloc.Alloc Alloc.AllocProofs Conn.Types Conn.ConnRecord Conn.Step Conn.Run Conn.IdsQuota Conn.WfInv.

(* WFpid (the interval allocator's representation invariant over [1, idmax]) holds initially and
   is re-established by each of the id-management calls below. *)
Theorem C08_initial : forall g v, 1 <= g_idmax g -> WFpid g (conn_new g v).
Proof. exact conn_new_WFpid. Qed.
Print Assumptions C08_initial.

(* acquire hands out the LEAST free id, which was not in use and is in use afterwards, touches no
   other id and emits no event; it reports exhaustion only when no id at all is free *)
Theorem C08_acquire_spec : forall g c,
  WFpid g c ->
  match step g c OAcquire with
  | Ok (c', evs, [x]) => evs = [] /\ free_in c x = true /\ (forall y, free_in c y = true -> x <= y) /\
                         free_in c' x = false /\ (forall y, y <> x -> free_in c' y = free_in c y) /\ WFpid g c'
  | Ok (c', evs, []) => evs = [] /\ c' = c /\ forall y, free_in c y = false
  | Ok (_, _, _) => False
  | Panic _ => False
  end.
Proof. exact acquire_spec. Qed.
Print Assumptions C08_acquire_spec.

Theorem C08_exhaustion_only_when_full : forall g c,
  WFpid g c ->
  (match step g c OAcquire with Ok (_, _, []) => True | _ => False end) ->
  forall id, 1 <= id -> id <= g_idmax g -> is_used c id = true.
Proof. exact exhaustion_only_when_full. Qed.
Print Assumptions C08_exhaustion_only_when_full.

(* register succeeds exactly for a free id (so never for one in use, 0, or one above the maximum) *)
Theorem C08_register_spec : forall g c id,
  WFpid g c ->
  match step g c (ORegister id) with
  | Ok (c', evs, [r]) => evs = [] /\ n2b r = free_in c id /\ (forall y, free_in c' y = free_in c y && negb (y =? id)) /\ WFpid g c'
  | _ => False
  end.
Proof. exact register_spec. Qed.
Print Assumptions C08_register_spec.

(* release is total for EVERY id value and announces the release exactly when it turns an in-use
   id free: never for a free id, hence never twice *)
Theorem C08_release_spec : forall g c id,
  WFpid g c ->
  match step g c (ORelease id) with
  | Ok (c', evs, _) =>
      (is_used c id = true -> evs = [EReleased id] /\ free_in c' id = true /\
                              (forall y, y <> id -> free_in c' y = free_in c y) /\ WFpid g c') /\
      (is_used c id = false -> evs = [] /\ c' = c)
  | Panic _ => False
  end.
Proof. exact release_spec. Qed.
Print Assumptions C08_release_spec.

(* WFpid over histories: EVERY call of the API keeps the allocator's representation invariant — acquire,
   register, every release the library announces (each guarded by "is in use"), the wholesale reset at
   a new session, the drains at notify_closed — for every input of the peer and every argument of the
   application, with ONE exception that the hypothesis names: the identifiers of stored packets that
   are dropped as oversize on resume are released without that guard ([drops_nothing]: the call is not
   a CONNACK sent / received under whose limit a stored packet no longer fits).  Hence the per-call
   theorems above, which assume WFpid, apply in every state of every such history of a fresh object. *)
Theorem C08_step_keeps_WFpid : forall g c o,
  op_oracle_ok c o -> drops_nothing c o = true -> WFpid g c ->
  match step g c o with Ok (c', _, _) => WFpid g c' | Panic _ => True end.
Proof. exact step_keeps_WFpid. Qed.
Print Assumptions C08_step_keeps_WFpid.

Theorem C08_WFpid_invariant : forall g ops c,
  WFpid g c -> history_drops_nothing g c ops ->
  match run_state g c ops with Some c' => WFpid g c' | None => True end.
Proof. exact WFpid_invariant. Qed.
Print Assumptions C08_WFpid_invariant.

Theorem C08_fresh_WFpid_invariant : forall g v ops,
  1 <= g_idmax g -> history_drops_nothing g (conn_new g v) ops ->
  match run_state g (conn_new g v) ops with Some c' => WFpid g c' | None => True end.
Proof. exact fresh_WFpid_invariant. Qed.
Print Assumptions C08_fresh_WFpid_invariant.

(* C08_partial: the per-call accounting "released events = ids that turn free" for the calls other
   than the id-management ones, the no-leak-on-close clause, and WFpid across an oversize drop on
   resume (which needs the ownership invariant "stored identifiers are in use and distinct" under the
   application contract) are checked by the monitor mon_c08 on the implementation's traces (with the
   in-use set from the hook) and by the projection correspondence. *)

Example C08_nonvacuous :
  let g := mkCfg RClient 65535 2 in
  let c0 := conn_new g V311 in
  match step g c0 OAcquire with
  | Ok (c1, _, r1) =>
    r1 = [1] /\
    match step g c1 (ORelease 0), step g c1 (ORelease 1), step g c1 (ORelease 70000) with
    | Ok (_, e0, _), Ok (c2, e1, _), Ok (_, e2, _) => e0 = [] /\ e1 = [EReleased 1] /\ e2 = [] /\ c2 = c0
    | _, _, _ => False
    end
  | Panic _ => False
  end.
Proof. vm_compute. repeat split. Qed.

(* the history theorem's premises are satisfiable *)
Example C08_history_nonvacuous :
  let g := mkCfg RClient 65535 2 in
  let ops := [OAcquire; OAcquire; ORelease 1; ORegister 7; OClosed; OAcquire] in
  history_drops_nothing g (conn_new g V311) ops /\
  match run_state g (conn_new g V311) ops with Some c' => is_used c' 2 = true /\ is_used c' 1 = true | None => False end.
Proof. vm_compute. repeat split; reflexivity. Qed.
