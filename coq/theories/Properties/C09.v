(* C09 — stream framing is independent of chunking.  Statements only; proofs are in
   Framing/FramingProofs.v.  Nothing else may be added to this file. *)
From MQ Require Import Base.Prelude Framing.Framing Framing.FramingProofs.

(* Any partition of a byte stream into successive receive buffers (single bytes, pieces that
   straddle frames, many frames per buffer, empty buffers) gives the same results in the same
   order and the same final builder state as one buffer holding the whole stream. *)
Theorem C09_chunking_independent : forall chunks p,
  pb_wf p -> drain_chunks p chunks = drain p (concat chunks).
Proof. exact chunking_independent. Qed.
Print Assumptions C09_chunking_independent.

Theorem C09_two_partitions_agree : forall c1 c2,
  concat c1 = concat c2 -> drain_chunks pb_init c1 = drain_chunks pb_init c2.
Proof. exact two_partitions_agree. Qed.
Print Assumptions C09_two_partitions_agree.

(* ... and those results are exactly the frames of the declarative reading of the stream
   (header byte, little-endian base-128 length of at most four bytes, that many body bytes). *)
Theorem C09_chunks_yield_spec_frames : forall chunks,
  wfb (concat chunks) ->
  fst (drain_chunks pb_init chunks) = fst (frames_spec (concat chunks)) /\
  pending (snd (drain_chunks pb_init chunks)) = snd (frames_spec (concat chunks)).
Proof. exact chunks_yield_spec_frames. Qed.
Print Assumptions C09_chunks_yield_spec_frames.

(* one feed() call: at most one frame, never reads past its buffer, progress on a non-empty one *)
Theorem C09_feed_at_most_one_frame : forall p d,
  pb_wf p -> (length (snd (feed p d)) <= length d)%nat /\ (d <> [] -> (length (snd (feed p d)) < length d)%nat).
Proof. exact feed_at_most_one_frame. Qed.
Print Assumptions C09_feed_at_most_one_frame.

(* no byte lost, duplicated or reordered *)
Theorem C09_bytes_conserved : forall d,
  d = concat (map raw_of (fst (drain pb_init d))) ++ pending (snd (drain pb_init d)).
Proof. exact bytes_conserved. Qed.
Print Assumptions C09_bytes_conserved.

(* a Remaining Length longer than four bytes: error, then framing resumes at the next byte *)
Theorem C09_five_byte_length_resumes : forall fh b1 b2 b3 b4 rest,
  128 <= b1 -> 128 <= b2 -> 128 <= b3 -> 128 <= b4 ->
  feed pb_init (fh :: b1 :: b2 :: b3 :: b4 :: rest) = (FError [fh; b1; b2; b3; b4], pb_init, rest).
Proof. exact five_byte_length_resumes. Qed.
Print Assumptions C09_five_byte_length_resumes.

(* splitting one buffer in two: the second call continues exactly where the first stopped *)
Theorem C09_feed_app : forall a p b,
  pb_wf p ->
  feed p (a ++ b) = let '(r, p', rest) := feed p a in if is_inc r then feed p' b else (r, p', rest ++ b).
Proof. exact feed_app. Qed.
Print Assumptions C09_feed_app.

(* non-vacuity: a stream with a two-byte length, a five-byte length (error) and a cut frame *)
Example C09_nonvacuous :
  let s := [48; 130; 1] ++ repeat 7 130 ++ [32; 255; 255; 255; 255; 208; 0; 16; 5; 1; 2] in
  wfb s /\
  map (fun r => match r with FComplete h b => (N.of_nat (length h), N.of_nat (length b)) | FIncomplete => (0, 0) | FError h => (99, N.of_nat (length h)) end)
      (fst (drain_chunks pb_init [firstn 2 s; [nth 2 s 0]; skipn 3 s])) = [(3, 130); (99, 5); (2, 0)] /\
  pending (snd (drain pb_init s)) = [16; 5; 1; 2].
Proof. vm_compute. split; [repeat constructor|split; reflexivity]. Qed.
