(* C01 — Two endpoints built on the library interoperate, even across transport loss.
   Statements only.  Nothing else may be added to this file. *)
From MQ Require Import Base.Prelude Alloc.Alloc Framing.Framing Framing.FramingProofs Conn.Types Conn.ConnRecord Conn.Step
                       Corr.ConnTrace Conn.Scope Conn.Session Conn.IdsQuota.

(* what the pair property rests on, each proved for ALL states of one endpoint:
   (i) delivery in any fragmentation is the same byte stream (C09) *)
Theorem C01_chunking_independent : forall chunks pb,
  pb_wf pb -> drain_chunks pb chunks = drain pb (concat chunks).
Proof. exact chunking_independent. Qed.
Print Assumptions C01_chunking_independent.

(* (ii) a transport loss leaves nothing of the cut connection behind — the partial frame, limits,
   aliases, timers, pending ids (C10) — so the resumed connection starts clean *)
Theorem C01_closed_has_shape : forall c c' e, do_closed c = Ok (c', e) -> closed_shape c'.
Proof. exact closed_has_shape. Qed.
Print Assumptions C01_closed_has_shape.

(* (iii) a persistent session survives the loss untouched *)
Theorem C01_closed_persistent_keeps_session : forall c c' e,
  do_closed c = Ok (c', e) -> c_need_store c = true ->
  c_store c' = c_store c /\ c_qos2 c' = c_qos2 c /\ c_puback c' = c_puback c /\ c_pubrec c' = c_pubrec c /\
  c_pubcomp c' = c_pubcomp c.
Proof. exact closed_persistent_keeps_session. Qed.
Print Assumptions C01_closed_persistent_keeps_session.

(* (iv) the receiver's duplicate suppression (C07) and the unmatched-acknowledgement rule (C06) *)
Theorem C01_unmatched_ack_is_error : forall g c v t p,
  (t = T_PUBACK /\ mem (k_pid p) (c_puback c) = false) \/
  (t = T_PUBREC /\ mem (k_pid p) (c_pubrec c) = false) \/
  (t = T_PUBCOMP /\ mem (k_pid p) (c_pubcomp c) = false) ->
  recv_ack g c v t (PROk p) = handle_error c v E_PROTOCOL.
Proof. exact unmatched_ack_is_error. Qed.
Print Assumptions C01_unmatched_ack_is_error.

(* C01_partial: the system-level statements — no protocol error on either side, termination,
   exactly-once / at-least-once / at-most-once delivery with the original topic and payload,
   quiescence (all identifiers released, stores empty, full vacancy) — over all workloads,
   delivery interleavings, fragmentations and loss points are decided on PAIRS OF REAL OBJECTS by
   the monitor mon_c01 (harness conn_duo.rs wires a client and a server object by two byte
   queues) and both objects are tied to the model by the full-digest correspondence chk_duo.  A
   theorem about the two-endpoint system (pair invariant + termination measure) is not part of
   this development; what is proved are the per-endpoint facts above and under C05-C16. *)

Example C01_nonvacuous :
  let g := mkCfg RClient 65535 2 in
  match do_closed (set_need_store (set_store (conn_new g V311)
           [mkPkt 3 V311 3 1 true false [116] None 0 0 8 false 0 false 0 None None None None None]) true) with
  | Ok (c', _) => length (c_store c') = 1%nat
  | Panic _ => False
  end.
Proof. vm_compute. reflexivity. Qed.
