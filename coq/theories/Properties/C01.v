(* C01 — Two endpoints built on the library interoperate, even across transport loss.
   Statements only.  Nothing else may be added to this file. *)
From MQ Require Import Base.Prelude Alloc.Alloc Alloc.AllocProofs Framing.Framing Framing.FramingProofs Conn.Types Conn.ConnRecord Conn.Step
                       Corr.ConnTrace Conn.Scope Conn.Session Conn.IdsQuota Conn.Own Conn.OwnFrame Conn.OwnStep Conn.Run Conn.PairQos Conn.PairQos0 Conn.PairQos5 Conn.PairSeq Conn.PairSeq5 Conn.PairConc Conn.PairBi Conn.PairConc5 Conn.PairBi5 Conn.PairHandshake5 Conn.PairHandshake311 Conn.PairConcIds Conn.PairConcIds5 Conn.PairBiIds Conn.PairBiIds5 Conn.PairQuiescence Conn.PairManual Conn.PairManual5 Conn.PairManualSeq Conn.PairManualSeq5 Conn.PairHandshakeSeq Conn.SessInv Conn.PairLoss Conn.PairLossAcc Conn.PairLossS Conn.PairHandshakeP Conn.PairLossIds Conn.PairLossSIds Conn.PairSeqMixed Conn.PairSeqMixedFresh Conn.PairSeqMixed2 Conn.PairSeqMixed5 Conn.PairBi5 Conn.PairSeqMixed25 Conn.PairSeqMixedFresh5 Conn.PairManualSeq Conn.PairManualSeq5 Conn.PairSeqMixedM Conn.PairSeqMixedIds.

(* what the pair property rests on, each proved for ALL states of one endpoint:
   (i) delivery in any fragmentation is the same byte stream (C09) *)
Theorem C01_chunking_independent : forall chunks pb,
  pb_wf pb -> drain_chunks pb chunks = drain pb (concat chunks).
Proof. exact chunking_independent. Qed.
Print Assumptions C01_chunking_independent.

(* (ii) a transport loss leaves nothing of the cut connection behind — the partial frame, limits,
   aliases, timers, pending ids (C10) — so the resumed connection starts clean *)
Theorem C01_closed_has_shape : forall c c' e, do_closed c = Ok (c', e) -> closed_shape c'.
Proof. exact closed_has_shape. Qed.
Print Assumptions C01_closed_has_shape.

(* (iii) a persistent session survives the loss untouched *)
Theorem C01_closed_persistent_keeps_session : forall c c' e,
  do_closed c = Ok (c', e) -> c_need_store c = true ->
  c_store c' = c_store c /\ c_qos2 c' = c_qos2 c /\ c_puback c' = c_puback c /\ c_pubrec c' = c_pubrec c /\
  c_pubcomp c' = c_pubcomp c.
Proof. exact closed_persistent_keeps_session. Qed.
Print Assumptions C01_closed_persistent_keeps_session.

(* (iv) the receiver's duplicate suppression (C07) and the unmatched-acknowledgement rule (C06) *)
Theorem C01_unmatched_ack_is_error : forall g c v t p,
  (t = T_PUBACK /\ mem (k_pid p) (c_puback c) = false) \/
  (t = T_PUBREC /\ mem (k_pid p) (c_pubrec c) = false) \/
  (t = T_PUBCOMP /\ mem (k_pid p) (c_pubcomp c) = false) ->
  recv_ack g c v t (PROk p) = handle_error c v E_PROTOCOL.
Proof. exact unmatched_ack_is_error. Qed.
Print Assumptions C01_unmatched_ack_is_error.

(* (v) THE PAIR, on an intact link, v3.1.1, automatic responses: for EVERY sender state that satisfies the ownership
   invariant (C08/C06: every state of a contract-respecting history does) and every established receiver state, a
   QoS 1 exchange completes — the PUBLISH is requested for sending; handed to the receiver it is notified exactly
   once and a PUBACK is requested; handed back, the PUBACK releases the identifier, empties the store entry and the
   awaited sets.  No call panics.  "deliver" is the model's recv() of the frame of that packet
   (C01_recv_call_is_deliver below); that the frame carries the packet is C02/C09. *)
Theorem C01_pair_qos1_completes : forall gs gr cs cr p,
  OWN gs cs -> ready cs -> ready cr -> c_auto_pub cr = true -> v311_pub p 1 ->
  fresh cs (k_pid p) -> is_used cs (k_pid p) = true ->
  exists cs1 e1 cr1 e2 cs2 e3,
    send_publish_v311 cs p = Ok (cs1, e1) /\ In p (sends e1) /\
    deliver gr cr p = Ok (cr1, e2) /\ notifies e2 = [p] /\ In (puback_for gr p) (sends e2) /\
    deliver gs cs1 (puback_for gr p) = Ok (cs2, e3) /\ In (k_pid p) (released e3) /\
    is_used cs2 (k_pid p) = false /\ store_has (k_pid p) (c_store cs2) = false /\
    mem (k_pid p) (c_puback cs2) = false /\ mem (k_pid p) (c_pubrec cs2) = false /\ mem (k_pid p) (c_pubcomp cs2) = false.
Proof. exact qos1_completes. Qed.
Print Assumptions C01_pair_qos1_completes.

(* ... and a QoS 2 exchange completes in its four steps: PUBLISH notified once and recorded, PUBREC requested;
   the sender answers it with PUBREL and keeps the identifier; the receiver is notified of the PUBREL and requests
   PUBCOMP; the PUBCOMP releases the identifier and leaves nothing of the exchange behind *)
Theorem C01_pair_qos2_completes : forall gs gr cs cr p,
  OWN gs cs -> ready cs -> c_auto_pub cs = true -> ready cr -> c_auto_pub cr = true -> v311_pub p 2 ->
  fresh cs (k_pid p) -> is_used cs (k_pid p) = true -> mem (k_pid p) (c_qos2 cr) = false ->
  exists cs1 e1 cr1 e2 cs2 e3 cr2 e4 cs3 e5,
    send_publish_v311 cs p = Ok (cs1, e1) /\ In p (sends e1) /\
    deliver gr cr p = Ok (cr1, e2) /\ notifies e2 = [p] /\ In (pubrec_for gr p) (sends e2) /\
    deliver gs cs1 (pubrec_for gr p) = Ok (cs2, e3) /\ In (pubrel_for gs p) (sends e3) /\ is_used cs2 (k_pid p) = true /\
    deliver gr cr1 (pubrel_for gs p) = Ok (cr2, e4) /\ notifies e4 = [pubrel_for gs p] /\ In (pubcomp_for gr p) (sends e4) /\
    deliver gs cs2 (pubcomp_for gr p) = Ok (cs3, e5) /\ In (k_pid p) (released e5) /\
    is_used cs3 (k_pid p) = false /\ store_has (k_pid p) (c_store cs3) = false /\
    mem (k_pid p) (c_puback cs3) = false /\ mem (k_pid p) (c_pubrec cs3) = false /\ mem (k_pid p) (c_pubcomp cs3) = false.
Proof. exact qos2_completes. Qed.
Print Assumptions C01_pair_qos2_completes.

(* QoS 0: requested for sending, notified once, and nothing is kept by either side (allocator, store, awaited sets, handled
   set untouched) — so nothing can be retransmitted after a loss: at most once by construction *)
Theorem C01_pair_qos0_delivered : forall gr cs cr p, ready cs -> ready cr -> v311_pub p 0 ->
  exists cs1 e1 cr1 e2,
    send_publish_v311 cs p = Ok (cs1, e1) /\ sends e1 = [p] /\ errors e1 = [] /\ released e1 = [] /\ F8 cs1 cs /\
    deliver gr cr p = Ok (cr1, e2) /\ notifies e2 = [p] /\ sends e2 = [] /\ errors e2 = [] /\ F8 cr1 cr /\ c_qos2 cr1 = c_qos2 cr.
Proof. exact qos0_delivered. Qed.
Print Assumptions C01_pair_qos0_delivered.

(* v5.0: the same two exchanges, with the Receive Maximum account.  Premises on top of the v3.1.1 ones: no topic alias
   in play (the packet carries a topic and no alias, no alias table for sending), the PUBLISH fits the peer's Maximum
   Packet Size and a Receive Maximum slot is free on both sides, a bare acknowledgement fits the peer's limit.  The slot
   the PUBLISH takes is given back by the final acknowledgement: the count is what it was. *)
Theorem C01_pair_qos1_completes_v5 : forall gs gr cs cr p,
  OWN gs cs -> ready5 cs -> v5_pub p 1 -> fresh cs (k_pid p) -> is_used cs (k_pid p) = true ->
  size_ok cs p = true -> c_ta_send cs = None -> quota_left cs ->
  ready5 cr -> c_auto_pub cr = true -> recv_quota_left cr -> ack_fits gr cr ->
  exists cs1 e1 cr1 e2 cs2 e3,
    send_publish_v5 gs cs p = Ok (cs1, e1) /\ In p (sends e1) /\
    deliver gr cr p = Ok (cr1, e2) /\ notifies e2 = [p] /\ In (puback5_for gr p) (sends e2) /\
    deliver gs cs1 (puback5_for gr p) = Ok (cs2, e3) /\ In (k_pid p) (released e3) /\
    is_used cs2 (k_pid p) = false /\ store_has (k_pid p) (c_store cs2) = false /\
    mem (k_pid p) (c_puback cs2) = false /\ mem (k_pid p) (c_pubrec cs2) = false /\ mem (k_pid p) (c_pubcomp cs2) = false /\
    c_send_count cs2 = c_send_count cs.
Proof. exact qos1_completes5. Qed.
Print Assumptions C01_pair_qos1_completes_v5.

Theorem C01_pair_qos2_completes_v5 : forall gs gr cs cr p,
  OWN gs cs -> ready5 cs -> c_auto_pub cs = true -> v5_pub p 2 -> fresh cs (k_pid p) -> is_used cs (k_pid p) = true ->
  size_ok cs p = true -> c_ta_send cs = None -> quota_left cs -> ack_fits gs cs ->
  ready5 cr -> c_auto_pub cr = true -> mem (k_pid p) (c_qos2 cr) = false -> recv_quota_left cr -> ack_fits gr cr ->
  exists cs1 e1 cr1 e2 cs2 e3 cr2 e4 cs3 e5,
    send_publish_v5 gs cs p = Ok (cs1, e1) /\ In p (sends e1) /\
    deliver gr cr p = Ok (cr1, e2) /\ notifies e2 = [p] /\ In (pubrec5_for gr p) (sends e2) /\
    deliver gs cs1 (pubrec5_for gr p) = Ok (cs2, e3) /\ In (pubrel5_for gs p) (sends e3) /\ is_used cs2 (k_pid p) = true /\
    deliver gr cr1 (pubrel5_for gs p) = Ok (cr2, e4) /\ notifies e4 = [pubrel5_for gs p] /\ In (pubcomp5_for gr p) (sends e4) /\
    deliver gs cs2 (pubcomp5_for gr p) = Ok (cs3, e5) /\ In (k_pid p) (released e5) /\
    is_used cs3 (k_pid p) = false /\ store_has (k_pid p) (c_store cs3) = false /\
    mem (k_pid p) (c_puback cs3) = false /\ mem (k_pid p) (c_pubrec cs3) = false /\ mem (k_pid p) (c_pubcomp cs3) = false /\
    c_send_count cs3 = c_send_count cs.
Proof. exact qos2_completes5. Qed.
Print Assumptions C01_pair_qos2_completes_v5.

Theorem C01_send_call_is_send_publish_v5 : forall g c p q, c_version c = V50 -> v5_pub p q ->
  step g c (OSend p) = bindr (send_publish_v5 g c p) (fun '(c', e) => Ok (c', e, [])).
Proof. exact step_send_publish_v5. Qed.
Print Assumptions C01_send_call_is_send_publish_v5.

Theorem C01_recv_call_is_deliver_v5 : forall g c bytes p hdr body pb' rest,
  feed (c_pb c) bytes = (FComplete hdr body, pb', rest) ->
  hd 0 hdr / 16 = k_type p -> 3 <= k_type p <= 7 -> c_version c = V50 ->
  (c_mps_recv c <? remaining_length_to_total_size (N.of_nat (length body))) = false ->
  step g c (ORecv bytes (PROk p)) =
  bindr (deliver g (set_pb c pb') p) (fun '(c', e) => Ok (c', e, [N.of_nat (length rest)])).
Proof. exact step_recv_is_deliver5. Qed.
Print Assumptions C01_recv_call_is_deliver_v5.

(* ANY NUMBER of messages in sequence (v3.1.1, QoS 1 and 2 mixed, identifiers registered, released and REUSED): the
   executable run [run_seq] registers the identifier, publishes, and hands every packet one side requests to the other;
   it answers [Fail] for anything off the protocol's path (a panic, an error event, a missing or extra request, a
   notification that is not the message, an identifier not released) and [AppPre] only when the application's own
   precondition fails (identifier out of range, in use or awaited at the sender, or still handled at the receiver).
   From every pair of states satisfying the pair invariant the run never fails, the messages delivered are exactly
   the messages sent, once each and in order, and the invariant holds again at the end. *)
Theorem C01_pair_sequence_exactly_once : forall gs gr ps cs cr,
  pair_inv gs cs cr -> Forall (fun p => v311_pub p 1 \/ v311_pub p 2) ps ->
  match run_seq gs gr cs cr ps with
  | Done cs' cr' d => d = ps /\ pair_inv gs cs' cr'
  | AppPre => True
  | Fail => False
  end.
Proof. exact run_seq_ok. Qed.
Print Assumptions C01_pair_sequence_exactly_once.

(* ... with QoS 0 publications anywhere in the sequence (Conn/PairSeqMixed.v): [run_mixed] is [run_seq] with one more kind of
   step - a QoS 0 message is published without an identifier, the one packet requested is handed over, and the run answers
   [Fail] unless it is notified once and nothing else happens on either side (no answer, no error, nothing released) *)
Theorem C01_pair_mixed_sequence_exactly_once : forall gs gr ps cs cr,
  pair_inv gs cs cr -> Forall v311_any ps ->
  match run_mixed gs gr cs cr ps with
  | Done cs' cr' d => d = ps /\ pair_inv gs cs' cr'
  | AppPre => True
  | Fail => False
  end.
Proof. exact run_mixed_ok. Qed.
Print Assumptions C01_pair_mixed_sequence_exactly_once.

(* a step stops on the application's precondition only when it is an acknowledged exchange: a QoS 0 publication has none *)
Theorem C01_pair_mixed_step : forall gs gr cs cr p, pair_inv gs cs cr -> v311_any p ->
  match exchange_any gs gr cs cr p with
  | Done cs' cr' d => d = [p] /\ pair_inv gs cs' cr'
  | AppPre => k_qos p <> 0
  | Fail => False
  end.
Proof. exact exchange_any_ok. Qed.
Print Assumptions C01_pair_mixed_step.

(* QoS 0 AT MOST ONCE, for any number of them: the run always completes, and the allocator, store, awaited sets (F8) of both
   endpoints and the receiver's handled identifiers are exactly what they were - there is nothing to retransmit from *)
Theorem C01_pair_qos0_sequence_leaves_nothing : forall gs gr ps cs cr, pair_inv gs cs cr -> Forall (fun p => v311_pub p 0) ps ->
  exists cs' cr', run_mixed gs gr cs cr ps = Done cs' cr' ps /\ pair_inv gs cs' cr' /\ F8 cs' cs /\ F8 cr' cr /\ c_qos2 cr' = c_qos2 cr /\ c_qos2 cs' = c_qos2 cs.
Proof. exact run_mixed_qos0_only. Qed.
Print Assumptions C01_pair_qos0_sequence_leaves_nothing.

(* ... end to end from objects created with [conn_new]: handshake, then any mixed sequence in either publishing direction *)
Theorem C01_fresh_v311_mixed_sequence : forall gA gB cn ca ps,
  1 <= g_idmax gA -> 1 <= g_idmax gB -> role_client_ok gA = true -> role_server_ok gB = true ->
  k_type cn = T_CONNECT -> k_ver cn = V311 -> k_flag cn = true ->
  k_type ca = T_CONNACK -> k_ver ca = V311 -> k_rc ca = 0 -> k_flag ca = false ->
  Forall v311_any ps ->
  let A0 := set_auto_pub (conn_new gA V311) true in
  let B0 := set_auto_pub (conn_new gB V311) true in
  exists A1 e1 B1 e2 B2 e3 A2 e4,
    step gA A0 (OSend cn) = Ok (A1, e1, []) /\ sends e1 = [cn] /\
    deliver gB B0 cn = Ok (B1, e2) /\ notifies e2 = [cn] /\
    step gB B1 (OSend ca) = Ok (B2, e3, []) /\ sends e3 = [ca] /\
    deliver gA A1 ca = Ok (A2, e4) /\ notifies e4 = [ca] /\
    errors e1 = [] /\ errors e2 = [] /\ errors e3 = [] /\ errors e4 = [] /\
    ran (run_mixed gA gB A2 B2 ps) ps (pair_inv gA) /\
    ran (run_mixed gB gA B2 A2 ps) ps (pair_inv gB).
Proof. exact fresh_v311_mixed_sequence. Qed.
Print Assumptions C01_fresh_v311_mixed_sequence.

(* BOTH SIDES PUBLISHING, any mix of QoS 0 / 1 / 2 (Conn/PairSeqMixed2.v): each item of the run names the publishing side; the
   invariant is [pair_inv] in both directions, and an exchange in one direction keeps the other direction's because a sender's
   calls leave its own handled set alone and a receiver's calls leave its own allocator, store and awaited sets alone *)
Theorem C01_two_way_mixed_sequence_exactly_once : forall gA gB l a b,
  pair_inv2 gA gB a b -> Forall (fun i => v311_any (item_pkt i)) l ->
  match run_mixed2 gA gB a b l with
  | Done2 a' b' dB dA => dB = fromA l /\ dA = fromB l /\ pair_inv2 gA gB a' b'
  | AppPre2 => True
  | Fail2 => False
  end.
Proof. exact run_mixed2_ok. Qed.
Print Assumptions C01_two_way_mixed_sequence_exactly_once.

Theorem C01_two_way_qos0_sequence_completes : forall gA gB l a b,
  pair_inv2 gA gB a b -> Forall (fun i => v311_pub (item_pkt i) 0) l ->
  exists a' b', run_mixed2 gA gB a b l = Done2 a' b' (fromA l) (fromB l) /\ pair_inv2 gA gB a' b'.
Proof. exact run_mixed2_qos0_completes. Qed.
Print Assumptions C01_two_way_qos0_sequence_completes.

Theorem C01_fresh_v311_two_way_mixed_sequence : forall gA gB cn ca l,
  1 <= g_idmax gA -> 1 <= g_idmax gB -> role_client_ok gA = true -> role_server_ok gB = true ->
  k_type cn = T_CONNECT -> k_ver cn = V311 -> k_flag cn = true ->
  k_type ca = T_CONNACK -> k_ver ca = V311 -> k_rc ca = 0 -> k_flag ca = false ->
  Forall (fun i => v311_any (item_pkt i)) l ->
  let A0 := set_auto_pub (conn_new gA V311) true in
  let B0 := set_auto_pub (conn_new gB V311) true in
  exists A1 e1 B1 e2 B2 e3 A2 e4,
    step gA A0 (OSend cn) = Ok (A1, e1, []) /\ sends e1 = [cn] /\
    deliver gB B0 cn = Ok (B1, e2) /\ notifies e2 = [cn] /\
    step gB B1 (OSend ca) = Ok (B2, e3, []) /\ sends e3 = [ca] /\
    deliver gA A1 ca = Ok (A2, e4) /\ notifies e4 = [ca] /\
    errors e1 = [] /\ errors e2 = [] /\ errors e3 = [] /\ errors e4 = [] /\
    match run_mixed2 gA gB A2 B2 l with
    | Done2 A3 B3 dB dA => dB = fromA l /\ dA = fromB l /\ pair_inv2 gA gB A3 B3
    | AppPre2 => True
    | Fail2 => False
    end.
Proof. exact fresh_v311_two_way_mixed_sequence. Qed.
Print Assumptions C01_fresh_v311_two_way_mixed_sequence.

(* ... and the same for v5.0 (no topic alias in play; Receive Maximum and Maximum Packet Size negotiated): the pair
   invariant now says that BOTH Receive Maximum accounts are at zero between exchanges — every slot an exchange takes
   is given back when it completes (C12: the vacancy returns to the maximum) *)
Theorem C01_pair_sequence_exactly_once_v5 : forall gs gr ps cs cr,
  pair_inv5 gs gr cs cr -> Forall (fun p => v5_pub p 1 \/ v5_pub p 2) ps ->
  match run_seq5 gs gr cs cr ps with
  | Done cs' cr' d => d = ps /\ pair_inv5 gs gr cs' cr'
  | AppPre => True
  | Fail => False
  end.
Proof. exact run_seq5_ok. Qed.
Print Assumptions C01_pair_sequence_exactly_once_v5.

(* ... and v5.0 sequences with QoS 0 publications anywhere (Conn/PairSeqMixed5.v): a QoS 0 publication registers no
   identifier and takes no Receive Maximum slot on either side; its only precondition is the peer's Maximum Packet Size *)
Theorem C01_pair_mixed_sequence_exactly_once_v5 : forall gs gr ps cs cr,
  pair_inv5 gs gr cs cr -> Forall v5_any ps ->
  match run_mixed5 gs gr cs cr ps with
  | Done cs' cr' d => d = ps /\ pair_inv5 gs gr cs' cr'
  | AppPre => True
  | Fail => False
  end.
Proof. exact run_mixed5_ok. Qed.
Print Assumptions C01_pair_mixed_sequence_exactly_once_v5.

Theorem C01_pair_qos0_step_v5 : forall gs gr cs cr p, pair_inv5 gs gr cs cr -> v5_pub p 0 ->
  match exchange0_5 gs gr cs cr p with
  | Done cs' cr' d => d = [p] /\ pair_inv5 gs gr cs' cr' /\ F8 cs' cs /\ F8 cr' cr /\ c_qos2 cr' = c_qos2 cr /\ c_qos2 cs' = c_qos2 cs
  | AppPre => size_ok cs p = false
  | Fail => False
  end.
Proof. exact exchange0_5_ok. Qed.
Print Assumptions C01_pair_qos0_step_v5.

(* v5.0, BOTH SIDES PUBLISHING, any mix of QoS 0 / 1 / 2 (Conn/PairSeqMixed25.v): [pair_inv52] is [pair_inv5] in both
   directions - all four Receive Maximum accounts at zero between exchanges *)
Theorem C01_two_way_mixed_sequence_exactly_once_v5 : forall gA gB l a b,
  pair_inv52 gA gB a b -> Forall (fun i => v5_any (item_pkt i)) l ->
  match run_mixed52 gA gB a b l with
  | Done2 a' b' dB dA => dB = fromA l /\ dA = fromB l /\ pair_inv52 gA gB a' b'
  | AppPre2 => True
  | Fail2 => False
  end.
Proof. exact run_mixed52_ok. Qed.
Print Assumptions C01_two_way_mixed_sequence_exactly_once_v5.

(* ... end to end from fresh v5.0 objects (Conn/PairSeqMixedFresh5.v) *)
Theorem C01_fresh_v5_two_way_mixed_sequence : forall gA gB cn ca l,
  1 <= g_idmax gA -> 1 <= g_idmax gB -> role_client_ok gA = true -> role_server_ok gB = true ->
  k_type cn = T_CONNECT -> k_ver cn = V50 -> k_flag cn = true -> k_tam cn = None -> k_rm cn <> Some 0 -> k_size cn <= MQTT_PACKET_SIZE_NO_LIMIT ->
  k_type ca = T_CONNACK -> k_ver ca = V50 -> k_rc ca = 0 -> k_flag ca = false -> k_tam ca = None -> k_rm ca <> Some 0 -> k_mps ca <> Some 0 ->
  k_size ca <= limit_after (k_mps cn) MQTT_PACKET_SIZE_NO_LIMIT ->
  2 + g_idw gA <= limit_after (k_mps ca) MQTT_PACKET_SIZE_NO_LIMIT -> 2 + g_idw gB <= limit_after (k_mps cn) MQTT_PACKET_SIZE_NO_LIMIT ->
  Forall (fun i => v5_any (item_pkt i)) l ->
  let A0 := set_auto_pub (conn_new gA V50) true in
  let B0 := set_auto_pub (conn_new gB V50) true in
  exists A1 e1 B1 e2 B2 e3 A2 e4,
    step gA A0 (OSend cn) = Ok (A1, e1, []) /\ deliver gB B0 cn = Ok (B1, e2) /\
    step gB B1 (OSend ca) = Ok (B2, e3, []) /\ deliver gA A1 ca = Ok (A2, e4) /\
    errors e1 = [] /\ errors e2 = [] /\ errors e3 = [] /\ errors e4 = [] /\
    match run_mixed52 gA gB A2 B2 l with
    | Done2 A' B' dB dA => dB = fromA l /\ dA = fromB l /\ pair_inv52 gA gB A' B' /\
                           vacancy A' = c_send_max A' /\ vacancy B' = c_send_max B' /\ c_publish_recv A' = [] /\ c_publish_recv B' = []
    | AppPre2 => True
    | Fail2 => False
    end.
Proof. exact fresh_v5_two_way_mixed_sequence. Qed.
Print Assumptions C01_fresh_v5_two_way_mixed_sequence.

(* MANUAL RESPONSES with QoS 0 publications in between (Conn/PairSeqMixedM.v): a QoS 0 delivery does not look at the response
   option - [exchange0_gen] / [exchange0_5_gen] hold for any endpoints - so the manual pair invariants are carried through *)
Theorem C01_pair_mixed_sequence_exactly_once_manual : forall gs gr ps cs cr,
  pair_inv_m gs cs cr -> Forall v311_any ps ->
  match run_mixed_m gs gr cs cr ps with
  | Done cs' cr' d => d = ps /\ pair_inv_m gs cs' cr'
  | AppPre => True
  | Fail => False
  end.
Proof. exact run_mixed_m_ok. Qed.
Print Assumptions C01_pair_mixed_sequence_exactly_once_manual.

Theorem C01_pair_mixed_sequence_exactly_once_manual_v5 : forall gs gr ps cs cr,
  pair_inv5_m gs gr cs cr -> Forall v5_any ps ->
  match run_mixed5_m gs gr cs cr ps with
  | Done cs' cr' d => d = ps /\ pair_inv5_m gs gr cs' cr'
  | AppPre => True
  | Fail => False
  end.
Proof. exact run_mixed5_m_ok. Qed.
Print Assumptions C01_pair_mixed_sequence_exactly_once_manual_v5.

(* the QoS 0 step for ANY two established v3.1.1 endpoints, whatever their options: always completes, notified once, nothing
   of either endpoint's allocator, store, awaited sets or handled identifiers changes *)
Theorem C01_qos0_step_any_endpoints : forall gs gr cs cr p, OWN gs cs -> ready cs -> ready cr -> v311_pub p 0 ->
  exists cs' cr', exchange0 gs gr cs cr p = Done cs' cr' [p] /\
    OWN gs cs' /\ ready cs' /\ c_auto_pub cs' = c_auto_pub cs /\ ready cr' /\ c_auto_pub cr' = c_auto_pub cr /\
    F8 cs' cs /\ F8 cr' cr /\ c_qos2 cr' = c_qos2 cr /\ c_qos2 cs' = c_qos2 cs.
Proof. exact exchange0_gen. Qed.
Print Assumptions C01_qos0_step_any_endpoints.

(* QUIESCENCE OF THE SEQUENTIAL RUNS, identifiers (Conn/PairSeqMixedIds.v): every complete exchange gives back exactly the
   identifier it registered and a QoS 0 publication touches none, so the identifiers in use on BOTH sides after any two-way
   mixed sequence are the ones in use before it - none, when none was ([idle], as after the handshake of fresh objects) *)
Theorem C01_two_way_mixed_sequence_identifiers_unchanged : forall gA gB l a b,
  pair_inv2 gA gB a b -> Forall (fun i => v311_any (item_pkt i)) l ->
  match run_mixed2 gA gB a b l with
  | Done2 a' b' _ _ => (forall y, is_used a' y = is_used a y) /\ (forall y, is_used b' y = is_used b y)
  | _ => True
  end.
Proof. exact run_mixed2_used. Qed.
Print Assumptions C01_two_way_mixed_sequence_identifiers_unchanged.

Theorem C01_two_way_mixed_sequence_quiescent : forall gA gB l a b,
  pair_inv2 gA gB a b -> Forall (fun i => v311_any (item_pkt i)) l -> idle a -> idle b ->
  match run_mixed2 gA gB a b l with
  | Done2 a' b' dB dA => dB = fromA l /\ dA = fromB l /\ pair_inv2 gA gB a' b' /\ idle a' /\ idle b'
  | AppPre2 => True
  | Fail2 => False
  end.
Proof. exact run_mixed2_idle. Qed.
Print Assumptions C01_two_way_mixed_sequence_quiescent.

(* SEVERAL EXCHANGES IN FLIGHT (v3.1.1, automatic responses, intact FIFO links): the system is two endpoints and two
   queues; an action is "the application publishes a QoS 1/2 message" (skipped when its own precondition fails: identifier
   out of range, in use or awaited), "the link hands the next packet to the receiver" or "... to the sender" (skipped when
   the queue is empty); [run_sched] answers None when a call panics, reports an error, or does not answer a packet as the
   protocol says.  For EVERY schedule from a state satisfying the pair invariant [inv] (packets in flight <-> awaited sets
   of the sender and handled set of the receiver, identifiers in flight distinct, published = delivered ++ PUBLISHes still
   in flight) the run succeeds and the invariant holds again ... *)
Theorem C01_pair_every_schedule_succeeds : forall gs gr l s,
  inv gs gr s -> Forall good_act l -> exists s', run_sched gs gr s l = Some s' /\ inv gs gr s'.
Proof. exact sched_ok. Qed.
Print Assumptions C01_pair_every_schedule_succeeds.

(* ... and when the links are then left to drain — at most [measure] rounds of one delivery each way — both are empty
   and the receiving application has been notified of exactly the published messages, once each, in order *)
Theorem C01_pair_concurrent_exactly_once : forall gs gr l s,
  inv gs gr s -> Forall good_act l ->
  exists s1 s2, run_sched gs gr s l = Some s1 /\ run_sched gs gr s1 (drain_links (measure s1)) = Some s2 /\
                inv gs gr s2 /\ qsr s2 = [] /\ qrs s2 = [] /\ delivered s2 = published s1.
Proof. exact concurrent_exactly_once. Qed.
Print Assumptions C01_pair_concurrent_exactly_once.

Theorem C01_pair_invariant_after_handshake : forall gs gr c1 c2,
  OWN gs c1 -> ready c1 -> c_auto_pub c1 = true -> ready c2 -> c_auto_pub c2 = true -> c_qos2 c2 = [] ->
  inv gs gr (mkSys c1 c2 [] [] [] []).
Proof. exact inv_init. Qed.
Print Assumptions C01_pair_invariant_after_handshake.

(* v5.0 WITH SEVERAL EXCHANGES IN FLIGHT (no topic alias in play; Receive Maximum and Maximum Packet Size negotiated): the
   invariant [inv5] adds the Receive Maximum accounts to [inv] — the sender's count IS the number of exchanges in flight and
   stays within the peer's limit, the receiver's set of outstanding PUBLISH is its handled set, what the receiver announced
   is what the sender respects — so the quota is never exceeded ("Receive Maximum exceeded" would be a [Bad] step); for
   EVERY schedule nothing fails, and after the drain the messages notified are exactly the published ones, the vacancy is
   the full maximum and the receiver has nothing outstanding *)
Theorem C01_pair_concurrent_exactly_once_v5 : forall gs gr l s,
  inv5 gs gr s -> Forall good_act5 l ->
  exists s1 s2, run_sched5 gs gr s l = Some s1 /\ run_sched5 gs gr s1 (drain5 (measure s1)) = Some s2 /\
                qsr s2 = [] /\ qrs s2 = [] /\ delivered s2 = published s1 /\
                vacancy (cs s2) = c_send_max (cs s2) /\ c_publish_recv (cr s2) = [] /\
                (forall m, c_send_max (cs s1) = Some m -> c_send_count (cs s1) = flight s1).
Proof. exact concurrent5_exactly_once. Qed.
Print Assumptions C01_pair_concurrent_exactly_once_v5.

(* TRAFFIC IN BOTH DIRECTIONS AT ONCE (intact links): A and B both publish; each link carries one side's PUBLISH / PUBREL
   together with its acknowledgements of the other side's messages.  The invariant [inv2] is [inv] twice (A as sender with
   B as receiver, B as sender with A as receiver); every action of the two-way system is an action of one of the two
   one-way systems and leaves the other one's invariant intact, because a receiver's step does not touch what its sender
   role looks at (F8) and a sender's step does not touch the handled set.  For EVERY schedule nothing fails, and once the
   links have drained each application has been notified of exactly what the other side published, once each, in order *)
Theorem C01_pair_two_way_exactly_once : forall gA gB l s,
  inv2 gA gB s -> Forall good_act2 l ->
  exists s1 s2, run_sched2 gA gB s l = Some s1 /\ run_sched2 gA gB s1 (drain2 (measure2 s1)) = Some s2 /\
                qab s2 = [] /\ qba s2 = [] /\ delB s2 = pubA s1 /\ delA s2 = pubB s1.
Proof. exact two_way_exactly_once. Qed.
Print Assumptions C01_pair_two_way_exactly_once.

Theorem C01_pair_two_way_invariant_after_handshake : forall gA gB a b,
  OWN gA a -> ready a -> c_auto_pub a = true -> c_qos2 a = [] -> OWN gB b -> ready b -> c_auto_pub b = true -> c_qos2 b = [] ->
  inv2 gA gB (mkBi a b [] [] [] [] [] []).
Proof. exact inv2_init. Qed.
Print Assumptions C01_pair_two_way_invariant_after_handshake.

(* THE v5.0 HANDSHAKE ESTABLISHES THE PAIR INVARIANT (Conn/PairHandshake5.v), for EVERY negotiated Receive Maximum, Maximum
   Packet Size, Session Expiry Interval, Server Keep Alive and keep-alive value (Clean Start, session not present, no
   Topic Alias Maximum): client sends CONNECT, server receives it and sends a successful CONNACK, client receives it — no
   call reports an error, each side's send limits are what the other announced, and the two-way invariant holds *)
Theorem C01_pair_v5_handshake_establishes_invariant : forall gA gB A0 B0 cn ca,
  OWN gA A0 -> OWN gB B0 -> c_version A0 = V50 -> c_version B0 = V50 -> c_status A0 = Disconnected -> c_status B0 = Disconnected ->
  c_auto_pub A0 = true -> c_auto_pub B0 = true -> role_client_ok gA = true -> role_server_ok gB = true ->
  (* the CONNECT: Clean Start, no Topic Alias Maximum; anything else *)
  k_type cn = T_CONNECT -> k_ver cn = V50 -> k_flag cn = true -> k_tam cn = None -> size_ok A0 cn = true ->
  (* the CONNACK: success, session not present, no Topic Alias Maximum, limits not zero; anything else *)
  k_type ca = T_CONNACK -> k_ver ca = V50 -> k_rc ca = 0 -> k_flag ca = false -> k_tam ca = None -> k_rm ca <> Some 0 -> k_mps ca <> Some 0 ->
  k_size ca <= limit_after (k_mps cn) (c_mps_send B0) ->
  (* each side's acknowledgements fit what the other side accepts *)
  2 + g_idw gA <= limit_after (k_mps ca) (c_mps_send A0) -> 2 + g_idw gB <= limit_after (k_mps cn) (c_mps_send B0) ->
  exists A1 e1 B1 e2 B2 e3 A2 e4,
    step gA A0 (OSend cn) = Ok (A1, e1, []) /\ sends e1 = [cn] /\ errors e1 = [] /\
    deliver gB B0 cn = Ok (B1, e2) /\ notifies e2 = [cn] /\ errors e2 = [] /\ sends e2 = [] /\
    step gB B1 (OSend ca) = Ok (B2, e3, []) /\ sends e3 = [ca] /\ errors e3 = [] /\
    deliver gA A1 ca = Ok (A2, e4) /\ notifies e4 = [ca] /\ errors e4 = [] /\ sends e4 = [] /\
    (* each side's limits are what the other announced *)
    c_send_max A2 = k_rm ca /\ c_recv_max B2 = k_rm ca /\ c_send_max B2 = k_rm cn /\ c_recv_max A2 = k_rm cn /\
    c_mps_send A2 = limit_after (k_mps ca) (c_mps_send A0) /\ c_mps_send B2 = limit_after (k_mps cn) (c_mps_send B0) /\
    inv25 gA gB (mkBi A2 B2 [] [] [] [] [] []).
Proof. exact handshake5_establishes_pair_invariant. Qed.
Print Assumptions C01_pair_v5_handshake_establishes_invariant.

(* END TO END: two freshly constructed v5.0 endpoints, ANY such handshake, then ANY schedule of publications by either
   side and deliveries on either link *)
Theorem C01_fresh_v5_endpoints_interoperate : forall gA gB cn ca l,
  1 <= g_idmax gA -> 1 <= g_idmax gB -> role_client_ok gA = true -> role_server_ok gB = true ->
  k_type cn = T_CONNECT -> k_ver cn = V50 -> k_flag cn = true -> k_tam cn = None -> k_size cn <= MQTT_PACKET_SIZE_NO_LIMIT ->
  k_type ca = T_CONNACK -> k_ver ca = V50 -> k_rc ca = 0 -> k_flag ca = false -> k_tam ca = None -> k_rm ca <> Some 0 -> k_mps ca <> Some 0 ->
  k_size ca <= limit_after (k_mps cn) MQTT_PACKET_SIZE_NO_LIMIT ->
  2 + g_idw gA <= limit_after (k_mps ca) MQTT_PACKET_SIZE_NO_LIMIT -> 2 + g_idw gB <= limit_after (k_mps cn) MQTT_PACKET_SIZE_NO_LIMIT ->
  Forall good_act25 l ->
  let A0 := set_auto_pub (conn_new gA V50) true in
  let B0 := set_auto_pub (conn_new gB V50) true in
  exists A1 e1 B1 e2 B2 e3 A2 e4 s1 s2,
    step gA A0 (OSend cn) = Ok (A1, e1, []) /\ sends e1 = [cn] /\
    deliver gB B0 cn = Ok (B1, e2) /\ notifies e2 = [cn] /\
    step gB B1 (OSend ca) = Ok (B2, e3, []) /\ sends e3 = [ca] /\
    deliver gA A1 ca = Ok (A2, e4) /\ notifies e4 = [ca] /\
    errors e1 = [] /\ errors e2 = [] /\ errors e3 = [] /\ errors e4 = [] /\
    run_sched25 gA gB (mkBi A2 B2 [] [] [] [] [] []) l = Some s1 /\
    run_sched25 gA gB s1 (drain2 (measure2 s1)) = Some s2 /\
    qab s2 = [] /\ qba s2 = [] /\ delB s2 = pubA s1 /\ delA s2 = pubB s1 /\
    vacancy (ea s2) = c_send_max (ea s2) /\ vacancy (eb s2) = c_send_max (eb s2) /\
    c_publish_recv (ea s2) = [] /\ c_publish_recv (eb s2) = [].
Proof. exact fresh_v5_endpoints_interoperate. Qed.
Print Assumptions C01_fresh_v5_endpoints_interoperate.

(* ... and the v3.1.1 handshake (Conn/PairHandshake311.v; Clean Session, session not present, any keep-alive) *)
Theorem C01_pair_v311_handshake_establishes_invariant : forall gA gB A0 B0 cn ca,
  OWN gA A0 -> OWN gB B0 -> c_version A0 = V311 -> c_version B0 = V311 -> c_status A0 = Disconnected -> c_status B0 = Disconnected ->
  c_auto_pub A0 = true -> c_auto_pub B0 = true -> role_client_ok gA = true -> role_server_ok gB = true ->
  k_type cn = T_CONNECT -> k_ver cn = V311 -> k_flag cn = true ->
  k_type ca = T_CONNACK -> k_ver ca = V311 -> k_rc ca = 0 -> k_flag ca = false ->
  exists A1 e1 B1 e2 B2 e3 A2 e4,
    step gA A0 (OSend cn) = Ok (A1, e1, []) /\ sends e1 = [cn] /\ errors e1 = [] /\
    deliver gB B0 cn = Ok (B1, e2) /\ notifies e2 = [cn] /\ errors e2 = [] /\ sends e2 = [] /\
    step gB B1 (OSend ca) = Ok (B2, e3, []) /\ sends e3 = [ca] /\ errors e3 = [] /\
    deliver gA A1 ca = Ok (A2, e4) /\ notifies e4 = [ca] /\ errors e4 = [] /\ sends e4 = [] /\
    inv2 gA gB (mkBi A2 B2 [] [] [] [] [] []).
Proof. exact handshake311_establishes_pair_invariant. Qed.
Print Assumptions C01_pair_v311_handshake_establishes_invariant.

Theorem C01_fresh_v311_endpoints_interoperate : forall gA gB cn ca l,
  1 <= g_idmax gA -> 1 <= g_idmax gB -> role_client_ok gA = true -> role_server_ok gB = true ->
  k_type cn = T_CONNECT -> k_ver cn = V311 -> k_flag cn = true ->
  k_type ca = T_CONNACK -> k_ver ca = V311 -> k_rc ca = 0 -> k_flag ca = false ->
  Forall good_act2 l ->
  let A0 := set_auto_pub (conn_new gA V311) true in
  let B0 := set_auto_pub (conn_new gB V311) true in
  exists A1 e1 B1 e2 B2 e3 A2 e4 s1 s2,
    step gA A0 (OSend cn) = Ok (A1, e1, []) /\ sends e1 = [cn] /\
    deliver gB B0 cn = Ok (B1, e2) /\ notifies e2 = [cn] /\
    step gB B1 (OSend ca) = Ok (B2, e3, []) /\ sends e3 = [ca] /\
    deliver gA A1 ca = Ok (A2, e4) /\ notifies e4 = [ca] /\
    errors e1 = [] /\ errors e2 = [] /\ errors e3 = [] /\ errors e4 = [] /\
    run_sched2 gA gB (mkBi A2 B2 [] [] [] [] [] []) l = Some s1 /\
    run_sched2 gA gB s1 (drain2 (measure2 s1)) = Some s2 /\
    qab s2 = [] /\ qba s2 = [] /\ delB s2 = pubA s1 /\ delA s2 = pubB s1.
Proof. exact fresh_v311_endpoints_interoperate. Qed.
Print Assumptions C01_fresh_v311_endpoints_interoperate.

(* AT QUIESCENCE EVERY PACKET IDENTIFIER HAS BEEN RELEASED (Conn/PairConcIds.v; v3.1.1, several exchanges in flight, intact
   links).  [U]: every identifier in use at the sender belongs to a packet in flight — kept by every action (a publication
   registers exactly the identifier of the PUBLISH it puts in flight; a delivery to the receiver moves it to the
   acknowledgement; PUBREC moves it to the PUBREL; the final acknowledgement releases it with the last packet that carried
   it).  So after any schedule and the drain no identifier is in use *)
Theorem C01_pair_all_identifiers_released : forall gs gr l s,
  inv gs gr s -> U s -> Forall good_act l ->
  exists s1 s2, run_sched gs gr s l = Some s1 /\ run_sched gs gr s1 (drain_links (measure s1)) = Some s2 /\
                qsr s2 = [] /\ qrs s2 = [] /\ delivered s2 = published s1 /\ forall y, is_used (cs s2) y = false.
Proof. exact all_identifiers_released. Qed.
Print Assumptions C01_pair_all_identifiers_released.

(* ... THE QUIESCENT STATE OF THE v5.0 SYSTEM, complete (Conn/PairConcIds5.v): links empty, every message notified once in
   order, the vacancy at the maximum, nothing outstanding at the receiver, no identifier in use at the sender *)
Theorem C01_pair_quiescence_v5 : forall gs gr l s,
  inv5 gs gr s -> U s -> Forall good_act5 l ->
  exists s1 s2, run_sched5 gs gr s l = Some s1 /\ run_sched5 gs gr s1 (drain5 (measure s1)) = Some s2 /\
                qsr s2 = [] /\ qrs s2 = [] /\ delivered s2 = published s1 /\
                vacancy (cs s2) = c_send_max (cs s2) /\ c_publish_recv (cr s2) = [] /\
                forall y, is_used (cs s2) y = false.
Proof. exact quiescence5. Qed.
Print Assumptions C01_pair_quiescence_v5.

(* ... end to end from freshly constructed objects and any Clean Session handshake *)
Theorem C01_fresh_v311_all_identifiers_released : forall gA gB cn ca l,
  1 <= g_idmax gA -> 1 <= g_idmax gB -> role_client_ok gA = true -> role_server_ok gB = true ->
  k_type cn = T_CONNECT -> k_ver cn = V311 -> k_flag cn = true ->
  k_type ca = T_CONNACK -> k_ver ca = V311 -> k_rc ca = 0 -> k_flag ca = false ->
  Forall good_act l ->
  let A0 := set_auto_pub (conn_new gA V311) true in
  let B0 := set_auto_pub (conn_new gB V311) true in
  exists A1 e1 B1 e2 B2 e3 A2 e4 s1 s2,
    step gA A0 (OSend cn) = Ok (A1, e1, []) /\ deliver gB B0 cn = Ok (B1, e2) /\
    step gB B1 (OSend ca) = Ok (B2, e3, []) /\ deliver gA A1 ca = Ok (A2, e4) /\
    run_sched gA gB (mkSys A2 B2 [] [] [] []) l = Some s1 /\
    run_sched gA gB s1 (drain_links (measure s1)) = Some s2 /\
    qsr s2 = [] /\ qrs s2 = [] /\ delivered s2 = published s1 /\
    (* at quiescence every packet identifier has been released *)
    forall y, is_used (cs s2) y = false.
Proof. exact fresh_v311_all_identifiers_released. Qed.
Print Assumptions C01_fresh_v311_all_identifiers_released.

(* ... BOTH DIRECTIONS (Conn/PairBiIds.v, PairBiIds5.v): [U] in both one-way views; an action is an action of one view and in the
   other view changes neither the acting endpoint's allocator nor that view's packets in flight *)
Theorem C01_pair_two_way_all_identifiers_released : forall gA gB l s,
  inv2 gA gB s -> U2 s -> Forall good_act2 l ->
  exists s1 s2, run_sched2 gA gB s l = Some s1 /\ run_sched2 gA gB s1 (drain2 (measure2 s1)) = Some s2 /\
                qab s2 = [] /\ qba s2 = [] /\ delB s2 = pubA s1 /\ delA s2 = pubB s1 /\
                (forall y, is_used (ea s2) y = false) /\ (forall y, is_used (eb s2) y = false).
Proof. exact two_way_all_identifiers_released. Qed.
Print Assumptions C01_pair_two_way_all_identifiers_released.

Theorem C01_pair_two_way_v5_quiescence : forall gA gB l s,
  inv25 gA gB s -> U2 s -> Forall good_act25 l ->
  exists s1 s2, run_sched25 gA gB s l = Some s1 /\ run_sched25 gA gB s1 (drain2 (measure2 s1)) = Some s2 /\
                qab s2 = [] /\ qba s2 = [] /\ delB s2 = pubA s1 /\ delA s2 = pubB s1 /\
                vacancy (ea s2) = c_send_max (ea s2) /\ vacancy (eb s2) = c_send_max (eb s2) /\
                c_publish_recv (ea s2) = [] /\ c_publish_recv (eb s2) = [] /\
                (forall y, is_used (ea s2) y = false) /\ (forall y, is_used (eb s2) y = false).
Proof. exact two_way5_quiescence. Qed.
Print Assumptions C01_pair_two_way_v5_quiescence.

(* THE WHOLE QUIESCENCE CLAUSE OF C01 ON INTACT LINKS, END TO END (Conn/PairQuiescence.v): two freshly constructed v5.0 endpoints,
   any Clean Start handshake, any schedule of publications by either side and deliveries on either link, then the drain:
   exactly-once delivery both ways, both Receive Maximum accounts full, nothing outstanding, NO identifier in use *)
Theorem C01_fresh_v5_complete_quiescence : forall gA gB cn ca l,
  1 <= g_idmax gA -> 1 <= g_idmax gB -> role_client_ok gA = true -> role_server_ok gB = true ->
  k_type cn = T_CONNECT -> k_ver cn = V50 -> k_flag cn = true -> k_tam cn = None -> k_size cn <= MQTT_PACKET_SIZE_NO_LIMIT ->
  k_type ca = T_CONNACK -> k_ver ca = V50 -> k_rc ca = 0 -> k_flag ca = false -> k_tam ca = None -> k_rm ca <> Some 0 -> k_mps ca <> Some 0 ->
  k_size ca <= limit_after (k_mps cn) MQTT_PACKET_SIZE_NO_LIMIT ->
  2 + g_idw gA <= limit_after (k_mps ca) MQTT_PACKET_SIZE_NO_LIMIT -> 2 + g_idw gB <= limit_after (k_mps cn) MQTT_PACKET_SIZE_NO_LIMIT ->
  Forall good_act25 l ->
  let A0 := set_auto_pub (conn_new gA V50) true in
  let B0 := set_auto_pub (conn_new gB V50) true in
  exists A1 e1 B1 e2 B2 e3 A2 e4 s1 s2,
    step gA A0 (OSend cn) = Ok (A1, e1, []) /\ deliver gB B0 cn = Ok (B1, e2) /\
    step gB B1 (OSend ca) = Ok (B2, e3, []) /\ deliver gA A1 ca = Ok (A2, e4) /\
    errors e1 = [] /\ errors e2 = [] /\ errors e3 = [] /\ errors e4 = [] /\
    run_sched25 gA gB (mkBi A2 B2 [] [] [] [] [] []) l = Some s1 /\
    run_sched25 gA gB s1 (drain2 (measure2 s1)) = Some s2 /\
    (* the quiescent state *)
    qab s2 = [] /\ qba s2 = [] /\ delB s2 = pubA s1 /\ delA s2 = pubB s1 /\
    vacancy (ea s2) = c_send_max (ea s2) /\ vacancy (eb s2) = c_send_max (eb s2) /\
    c_publish_recv (ea s2) = [] /\ c_publish_recv (eb s2) = [] /\
    (forall y, is_used (ea s2) y = false) /\ (forall y, is_used (eb s2) y = false).
Proof. exact fresh_v5_complete_quiescence. Qed.
Print Assumptions C01_fresh_v5_complete_quiescence.

(* ... and for v3.1.1 *)
Theorem C01_fresh_v311_complete_quiescence : forall gA gB cn ca l,
  1 <= g_idmax gA -> 1 <= g_idmax gB -> role_client_ok gA = true -> role_server_ok gB = true ->
  k_type cn = T_CONNECT -> k_ver cn = V311 -> k_flag cn = true ->
  k_type ca = T_CONNACK -> k_ver ca = V311 -> k_rc ca = 0 -> k_flag ca = false ->
  Forall good_act2 l ->
  let A0 := set_auto_pub (conn_new gA V311) true in
  let B0 := set_auto_pub (conn_new gB V311) true in
  exists A1 e1 B1 e2 B2 e3 A2 e4 s1 s2,
    step gA A0 (OSend cn) = Ok (A1, e1, []) /\ deliver gB B0 cn = Ok (B1, e2) /\
    step gB B1 (OSend ca) = Ok (B2, e3, []) /\ deliver gA A1 ca = Ok (A2, e4) /\
    errors e1 = [] /\ errors e2 = [] /\ errors e3 = [] /\ errors e4 = [] /\
    run_sched2 gA gB (mkBi A2 B2 [] [] [] [] [] []) l = Some s1 /\
    run_sched2 gA gB s1 (drain2 (measure2 s1)) = Some s2 /\
    qab s2 = [] /\ qba s2 = [] /\ delB s2 = pubA s1 /\ delA s2 = pubB s1 /\
    (forall y, is_used (ea s2) y = false) /\ (forall y, is_used (eb s2) y = false).
Proof. exact fresh_v311_complete_quiescence. Qed.
Print Assumptions C01_fresh_v311_complete_quiescence.

(* MANUAL RESPONSES (Conn/PairManual.v; auto_pub_response off, v3.1.1): the library requests nothing by itself; the
   applications send PUBACK / PUBREC / PUBREL / PUBCOMP through the ordinary send call.  From every admissible pair of
   states each call succeeds without an error event, requests exactly the packet it was given, the message is notified
   exactly once, the receiver's handled set returns to what it was and the sender releases the identifier *)
Theorem C01_pair_qos1_completes_manual : forall gs gr cs cr p,
  OWN gs cs -> ready cs -> ready cr -> c_auto_pub cr = false -> v311_pub p 1 ->
  fresh cs (k_pid p) -> is_used cs (k_pid p) = true ->
  exists cs1 e1 cr1 e2 cr2 e3 cs2 e4,
    send_publish_v311 cs p = Ok (cs1, e1) /\ sends e1 = [p] /\ errors e1 = [] /\
    (* the receiver is notified and requests nothing by itself *)
    deliver gr cr p = Ok (cr1, e2) /\ notifies e2 = [p] /\ sends e2 = [] /\ errors e2 = [] /\
    (* its application sends the PUBACK *)
    step gr cr1 (OSend (puback_for gr p)) = Ok (cr2, e3, []) /\ sends e3 = [puback_for gr p] /\ errors e3 = [] /\ notifies e3 = [] /\
    ready cr2 /\ c_auto_pub cr2 = false /\ c_qos2 cr2 = c_qos2 cr /\
    (* which completes the exchange at the sender *)
    deliver gs cs1 (puback_for gr p) = Ok (cs2, e4) /\ released e4 = [k_pid p] /\ sends e4 = [] /\ errors e4 = [] /\
    OWN gs cs2 /\ ready cs2 /\ is_used cs2 (k_pid p) = false /\ fresh cs2 (k_pid p).
Proof. exact qos1_completes_manual. Qed.
Print Assumptions C01_pair_qos1_completes_manual.

Theorem C01_pair_qos2_completes_manual : forall gs gr cs cr p,
  OWN gs cs -> ready cs -> c_auto_pub cs = false -> ready cr -> c_auto_pub cr = false -> v311_pub p 2 ->
  fresh cs (k_pid p) -> is_used cs (k_pid p) = true -> mem (k_pid p) (c_qos2 cr) = false -> asc 1 (g_idmax gs) (c_qos2 cr) -> 1 <= k_pid p <= g_idmax gs ->
  exists cs1 e1 cr1 e2 cr2 e3 cs2 e4 cs3 e5 cr3 e6 cr4 e7 cs4 e8,
    send_publish_v311 cs p = Ok (cs1, e1) /\ sends e1 = [p] /\ errors e1 = [] /\
    (* receiver: notified once, nothing requested; its application sends PUBREC *)
    deliver gr cr p = Ok (cr1, e2) /\ notifies e2 = [p] /\ sends e2 = [] /\ errors e2 = [] /\
    step gr cr1 (OSend (pubrec_for gr p)) = Ok (cr2, e3, []) /\ sends e3 = [pubrec_for gr p] /\ errors e3 = [] /\ notifies e3 = [] /\
    (* sender: its application is told of the PUBREC, nothing is requested; it sends PUBREL *)
    deliver gs cs1 (pubrec_for gr p) = Ok (cs2, e4) /\ notifies e4 = [pubrec_for gr p] /\ sends e4 = [] /\ errors e4 = [] /\ released e4 = [] /\
    step gs cs2 (OSend (pubrel_for gs p)) = Ok (cs3, e5, []) /\ sends e5 = [pubrel_for gs p] /\ errors e5 = [] /\ notifies e5 = [] /\
    (* receiver: told of the PUBREL (no second PUBLISH notification), forgets the identifier; its application sends PUBCOMP *)
    deliver gr cr2 (pubrel_for gs p) = Ok (cr3, e6) /\ notifies e6 = [pubrel_for gs p] /\ sends e6 = [] /\ errors e6 = [] /\
    step gr cr3 (OSend (pubcomp_for gr p)) = Ok (cr4, e7, []) /\ sends e7 = [pubcomp_for gr p] /\ errors e7 = [] /\ notifies e7 = [] /\
    ready cr4 /\ c_auto_pub cr4 = false /\ c_qos2 cr4 = c_qos2 cr /\
    (* sender: the exchange is complete, the identifier released *)
    deliver gs cs3 (pubcomp_for gr p) = Ok (cs4, e8) /\ released e8 = [k_pid p] /\ sends e8 = [] /\ errors e8 = [] /\
    OWN gs cs4 /\ ready cs4 /\ is_used cs4 (k_pid p) = false /\ fresh cs4 (k_pid p).
Proof. exact qos2_completes_manual. Qed.
Print Assumptions C01_pair_qos2_completes_manual.

(* ANY SEQUENCE of exchanges with manual responses (Conn/PairManualSeq.v): [run_seq_m] is [run_seq] with the two applications
   in the loop — each reacts to what it is notified of (PUBACK / PUBREC for a PUBLISH, PUBREL for a PUBREC, PUBCOMP for a
   PUBREL) through the ordinary send call; it answers [Fail] when a call panics, reports an error, the library requests a
   packet by itself, or a notification is not exactly the expected one.  The run never fails, the messages notified are
   exactly the messages sent, once each and in order, and the invariant holds again at the end *)
Theorem C01_pair_sequence_exactly_once_manual : forall gs gr ps cs cr,
  pair_inv_m gs cs cr -> Forall (fun p => v311_pub p 1 \/ v311_pub p 2) ps ->
  match run_seq_m gs gr cs cr ps with
  | Done cs' cr' d => d = ps /\ pair_inv_m gs cs' cr'
  | AppPre => True
  | Fail => False
  end.
Proof. exact run_seq_m_ok. Qed.
Print Assumptions C01_pair_sequence_exactly_once_manual.

(* ... and for v5.0 (Conn/PairManualSeq5.v): both Receive Maximum accounts are at zero between exchanges *)
Theorem C01_pair_sequence_exactly_once_manual_v5 : forall gs gr ps cs cr,
  pair_inv5_m gs gr cs cr -> Forall (fun p => v5_pub p 1 \/ v5_pub p 2) ps ->
  match run_seq5_m gs gr cs cr ps with
  | Done cs' cr' d => d = ps /\ pair_inv5_m gs gr cs' cr'
  | AppPre => True
  | Fail => False
  end.
Proof. exact run_seq5_m_ok. Qed.
Print Assumptions C01_pair_sequence_exactly_once_manual_v5.

(* ... END TO END with manual responses (Conn/PairHandshakeSeq.v): two freshly constructed v5.0 objects (automatic responses are
   off by default), any handshake of the shape above, then any sequence of messages with the applications acknowledging *)
Theorem C01_fresh_v5_manual_sequence : forall gA gB cn ca ps,
  1 <= g_idmax gA -> 1 <= g_idmax gB -> role_client_ok gA = true -> role_server_ok gB = true ->
  k_type cn = T_CONNECT -> k_ver cn = V50 -> k_flag cn = true -> k_tam cn = None -> k_size cn <= MQTT_PACKET_SIZE_NO_LIMIT ->
  k_type ca = T_CONNACK -> k_ver ca = V50 -> k_rc ca = 0 -> k_flag ca = false -> k_tam ca = None -> k_rm ca <> Some 0 -> k_mps ca <> Some 0 ->
  k_size ca <= limit_after (k_mps cn) MQTT_PACKET_SIZE_NO_LIMIT ->
  2 + g_idw gA <= limit_after (k_mps ca) MQTT_PACKET_SIZE_NO_LIMIT -> 2 + g_idw gB <= limit_after (k_mps cn) MQTT_PACKET_SIZE_NO_LIMIT ->
  Forall (fun p => v5_pub p 1 \/ v5_pub p 2) ps ->
  exists A1 e1 B1 e2 B2 e3 A2 e4,
    step gA (conn_new gA V50) (OSend cn) = Ok (A1, e1, []) /\ deliver gB (conn_new gB V50) cn = Ok (B1, e2) /\
    step gB B1 (OSend ca) = Ok (B2, e3, []) /\ deliver gA A1 ca = Ok (A2, e4) /\
    errors e1 = [] /\ errors e2 = [] /\ errors e3 = [] /\ errors e4 = [] /\
    match run_seq5_m gA gB A2 B2 ps with
    | Done A' B' d => d = ps /\ vacancy A' = c_send_max A' /\ c_publish_recv B' = []
    | AppPre => True
    | Fail => False
    end.
Proof. exact fresh_v5_manual_sequence. Qed.
Print Assumptions C01_fresh_v5_manual_sequence.

(* the same for v5.0 (Conn/PairManual5.v), with both Receive Maximum accounts: the receiver's slot stays taken from the
   PUBLISH until ITS APPLICATION sends PUBACK (QoS 1) or PUBCOMP (QoS 2) and is then free again; the sender's count is back
   where it was after the final acknowledgement *)
Theorem C01_pair_qos1_completes_manual_v5 : forall gs gr cs cr p,
  OWN gs cs -> ready5 cs -> v5_pub p 1 -> fresh cs (k_pid p) -> is_used cs (k_pid p) = true ->
  size_ok cs p = true -> c_ta_send cs = None -> quota_left cs ->
  ready5 cr -> c_auto_pub cr = false -> recv_quota_left cr -> ack_fits gr cr ->
  asc 1 (g_idmax gs) (c_publish_recv cr) -> mem (k_pid p) (c_publish_recv cr) = false -> 1 <= k_pid p <= g_idmax gs ->
  exists cs1 e1 cr1 e2 cr2 e3 cs2 e4,
    send_publish_v5 gs cs p = Ok (cs1, e1) /\ sends e1 = [p] /\ errors e1 = [] /\
    deliver gr cr p = Ok (cr1, e2) /\ notifies e2 = [p] /\ sends e2 = [] /\ errors e2 = [] /\
    c_publish_recv cr1 = ins (k_pid p) (c_publish_recv cr) /\
    step gr cr1 (OSend (puback5_for gr p)) = Ok (cr2, e3, []) /\ sends e3 = [puback5_for gr p] /\ errors e3 = [] /\ notifies e3 = [] /\
    KF cr2 cr /\ c_qos2 cr2 = c_qos2 cr /\ c_publish_recv cr2 = c_publish_recv cr /\
    deliver gs cs1 (puback5_for gr p) = Ok (cs2, e4) /\ released e4 = [k_pid p] /\ sends e4 = [] /\ errors e4 = [] /\
    OWN gs cs2 /\ KF cs2 cs /\ is_used cs2 (k_pid p) = false /\ fresh cs2 (k_pid p) /\ c_send_count cs2 = c_send_count cs.
Proof. exact qos1_completes_manual5. Qed.
Print Assumptions C01_pair_qos1_completes_manual_v5.

Theorem C01_pair_qos2_completes_manual_v5 : forall gs gr cs cr p,
  OWN gs cs -> ready5 cs -> c_auto_pub cs = false -> v5_pub p 2 -> fresh cs (k_pid p) -> is_used cs (k_pid p) = true ->
  size_ok cs p = true -> c_ta_send cs = None -> quota_left cs -> ack_fits gs cs ->
  ready5 cr -> c_auto_pub cr = false -> recv_quota_left cr -> ack_fits gr cr ->
  asc 1 (g_idmax gs) (c_qos2 cr) -> c_publish_recv cr = c_qos2 cr -> mem (k_pid p) (c_qos2 cr) = false -> 1 <= k_pid p <= g_idmax gs ->
  exists cs1 e1 cr1 e2 cr2 e3 cs2 e4 cs3 e5 cr3 e6 cr4 e7 cs4 e8,
    send_publish_v5 gs cs p = Ok (cs1, e1) /\ sends e1 = [p] /\ errors e1 = [] /\
    deliver gr cr p = Ok (cr1, e2) /\ notifies e2 = [p] /\ sends e2 = [] /\ errors e2 = [] /\
    step gr cr1 (OSend (pubrec5_for gr p)) = Ok (cr2, e3, []) /\ sends e3 = [pubrec5_for gr p] /\ errors e3 = [] /\ notifies e3 = [] /\
    c_publish_recv cr2 = ins (k_pid p) (c_publish_recv cr) /\
    deliver gs cs1 (pubrec5_for gr p) = Ok (cs2, e4) /\ notifies e4 = [pubrec5_for gr p] /\ sends e4 = [] /\ errors e4 = [] /\ released e4 = [] /\
    step gs cs2 (OSend (pubrel5_for gs p)) = Ok (cs3, e5, []) /\ sends e5 = [pubrel5_for gs p] /\ errors e5 = [] /\ notifies e5 = [] /\
    deliver gr cr2 (pubrel5_for gs p) = Ok (cr3, e6) /\ notifies e6 = [pubrel5_for gs p] /\ sends e6 = [] /\ errors e6 = [] /\
    step gr cr3 (OSend (pubcomp5_for gr p)) = Ok (cr4, e7, []) /\ sends e7 = [pubcomp5_for gr p] /\ errors e7 = [] /\ notifies e7 = [] /\
    KF cr4 cr /\ c_qos2 cr4 = c_qos2 cr /\ c_publish_recv cr4 = c_publish_recv cr /\
    deliver gs cs3 (pubcomp5_for gr p) = Ok (cs4, e8) /\ released e8 = [k_pid p] /\ sends e8 = [] /\ errors e8 = [] /\
    OWN gs cs4 /\ KF cs4 cs /\ is_used cs4 (k_pid p) = false /\ fresh cs4 (k_pid p) /\ c_send_count cs4 = c_send_count cs.
Proof. exact qos2_completes_manual5. Qed.
Print Assumptions C01_pair_qos2_completes_manual_v5.

(* BOTH DIRECTIONS AT ONCE, v5.0 (Conn/PairBi5.v): each side publishes within the other side's Receive Maximum and Maximum
   Packet Size while it receives and acknowledges; the invariant is the v5.0 one-direction invariant [inv5] twice.  For
   EVERY schedule nothing fails and no limit is overrun; once the links have drained each application has been notified
   of exactly what the other side published, once each, in order, both Receive Maximum accounts are back to full and
   neither receiver role holds an outstanding entry *)
Theorem C01_pair_two_way_v5_exactly_once : forall gA gB l s,
  inv25 gA gB s -> Forall good_act25 l ->
  exists s1 s2, run_sched25 gA gB s l = Some s1 /\ run_sched25 gA gB s1 (drain2 (measure2 s1)) = Some s2 /\
                qab s2 = [] /\ qba s2 = [] /\ delB s2 = pubA s1 /\ delA s2 = pubB s1 /\
                vacancy (ea s2) = c_send_max (ea s2) /\ vacancy (eb s2) = c_send_max (eb s2) /\
                c_publish_recv (ea s2) = [] /\ c_publish_recv (eb s2) = [].
Proof. exact two_way5_exactly_once. Qed.
Print Assumptions C01_pair_two_way_v5_exactly_once.

Theorem C01_pair_two_way_v5_schedule_keeps_invariant : forall gA gB l s,
  inv25 gA gB s -> Forall good_act25 l -> exists s', run_sched25 gA gB s l = Some s' /\ inv25 gA gB s'.
Proof. exact sched25_ok. Qed.
Print Assumptions C01_pair_two_way_v5_schedule_keeps_invariant.

Theorem C01_pair_two_way_v5_invariant_after_handshake : forall gA gB a b,
  OWN gA a -> ready5 a -> c_auto_pub a = true -> c_ta_send a = None -> ack_fits gA a -> c_send_count a = 0 -> c_qos2 a = [] -> c_publish_recv a = [] ->
  OWN gB b -> ready5 b -> c_auto_pub b = true -> c_ta_send b = None -> ack_fits gB b -> c_send_count b = 0 -> c_qos2 b = [] -> c_publish_recv b = [] ->
  (forall R, c_recv_max b = Some R -> exists m, c_send_max a = Some m /\ m <= R) ->
  (forall R, c_recv_max a = Some R -> exists m, c_send_max b = Some m /\ m <= R) ->
  inv25 gA gB (mkBi a b [] [] [] [] [] []).
Proof. exact inv25_init. Qed.
Print Assumptions C01_pair_two_way_v5_invariant_after_handshake.

(* ACROSS TRANSPORT LOSS (v3.1.1, automatic responses, persistent sessions, a client as sender and a server as receiver):
   one more action, [Lose] — both sides are told the transport is closed, everything in flight is gone, the client
   reconnects without Clean Session, the server accepts with Session Present, the client retransmits what it has stored;
   [run_schedL] answers None when any call panics, reports an error, does not answer a packet as the protocol says, or
   a step of the resumption does not do exactly what it should.  The pair invariant [invL] adds to [inv] the session
   invariants of both endpoints (K = OWN /\ SUP /\ ENT), persistence, "the receiver's handled identifiers are identifiers
   of QoS 2 exchanges the sender has stored" and "a PUBCOMP in flight is for an identifier the receiver has forgotten".
   For EVERY schedule of publications, deliveries and losses the run succeeds and the invariant holds again ... *)
Theorem C01_pair_lossy_schedule_succeeds : forall gs gr,
  role_client_ok gs = true -> role_server_ok gr = true -> 2 + g_idw gs <= MQTT_PACKET_SIZE_NO_LIMIT ->
  forall l s, invL gs gr s -> Forall good_actL l -> exists s', run_schedL gs gr s l = Some s' /\ invL gs gr s'.
Proof. exact schedL_ok. Qed.
Print Assumptions C01_pair_lossy_schedule_succeeds.

(* ... and once losses stop, at most [measure] rounds of deliveries empty both links *)
Theorem C01_pair_lossy_schedule_drains : forall gs gr,
  role_client_ok gs = true -> role_server_ok gr = true -> 2 + g_idw gs <= MQTT_PACKET_SIZE_NO_LIMIT ->
  forall l s, invL gs gr s -> Forall good_actL l ->
  exists s1 s2, run_schedL gs gr s l = Some s1 /\ run_schedL gs gr s1 (drainL (measure s1)) = Some s2 /\
                invL gs gr s2 /\ qsr s2 = [] /\ qrs s2 = [].
Proof. exact lossy_schedule_succeeds_and_drains. Qed.
Print Assumptions C01_pair_lossy_schedule_drains.

Theorem C01_pair_lossy_invariant_after_handshake : forall gs gr c1 c2,
  K gs c1 -> ready c1 -> c_auto_pub c1 = true -> c_need_store c1 = true -> c_mps_send c1 = MQTT_PACKET_SIZE_NO_LIMIT ->
  c_store c1 = [] -> K gr c2 -> ready c2 -> c_auto_pub c2 = true -> c_need_store c2 = true -> c_store c2 = [] -> c_qos2 c2 = [] ->
  invL gs gr (mkSys c1 c2 [] [] [] []).
Proof. exact invL_init. Qed.
Print Assumptions C01_pair_lossy_invariant_after_handshake.

(* ... and QoS 2 IS EXACTLY ONCE ACROSS TRANSPORT LOSS: with the accounting invariant [accB] (a PUBREC in flight is for an
   identifier the receiver has recorded; the QoS 2 messages published are, up to the DUP flag, those already notified
   followed by the QoS 2 PUBLISHes in flight that the receiver has not recorded; the sender's store holds the same pending
   ones in the same order) kept by every action, once the links have drained the QoS 2 messages notified to the receiving
   application are exactly the QoS 2 messages published, once each, in order — whatever was lost and retransmitted *)
Theorem C01_pair_qos2_exactly_once_across_loss : forall gs gr,
  role_client_ok gs = true -> role_server_ok gr = true -> 2 + g_idw gs <= MQTT_PACKET_SIZE_NO_LIMIT ->
  forall l s, invL gs gr s -> accB s -> Forall good_actL l ->
  exists s1 s2, run_schedL gs gr s l = Some s1 /\ run_schedL gs gr s1 (drainL (measure s1)) = Some s2 /\
                qsr s2 = [] /\ qrs s2 = [] /\
                map undup (filter q2 (delivered s2)) = map undup (filter q2 (published s1)).
Proof. exact qos2_exactly_once_across_loss. Qed.
Print Assumptions C01_pair_qos2_exactly_once_across_loss.

(* ... and QoS 1 IS AT LEAST ONCE ACROSS TRANSPORT LOSS: with [accC] (every stored exchange has a packet in flight; a PUBLISH in
   flight is, up to DUP, the stored entry of its exchange; a PUBACK in flight is for a message that has been notified; every
   published QoS 1 message has been notified or is still stored) kept by every action, once the links have drained nothing is
   stored any more and every QoS 1 message that was published has been notified *)
Theorem C01_pair_qos1_at_least_once_across_loss : forall gs gr,
  role_client_ok gs = true -> role_server_ok gr = true -> 2 + g_idw gs <= MQTT_PACKET_SIZE_NO_LIMIT ->
  forall l s, invL gs gr s -> accC s -> Forall good_actL l ->
  exists s1 s2, run_schedL gs gr s l = Some s1 /\ run_schedL gs gr s1 (drainL (measure s1)) = Some s2 /\
                qsr s2 = [] /\ qrs s2 = [] /\ c_store (cs s2) = [] /\
                (forall p, In p (published s1) -> k_type p = T_PUBLISH -> k_qos p = 1 -> In (undup p) (map undup (delivered s2))).
Proof. exact qos1_at_least_once_across_loss. Qed.
Print Assumptions C01_pair_qos1_at_least_once_across_loss.

Theorem C01_pair_accounting1_after_handshake : forall c1 c2, c_store c1 = [] -> accC (mkSys c1 c2 [] [] [] []).
Proof. exact accC_init. Qed.
Print Assumptions C01_pair_accounting1_after_handshake.

(* ... and the same with the roles the other way round: the SERVER publishes to the client across losses; the resumption is
   the handshake seen from the other side (the server retransmits in the call that sends its CONNACK).  One statement:
   safety, progress, nothing left, QoS 2 exactly once, QoS 1 at least once *)
Theorem C01_pair_server_to_client_across_loss : forall gs gr,
  role_server_ok gs = true -> role_client_ok gr = true -> 2 + g_idw gs <= MQTT_PACKET_SIZE_NO_LIMIT ->
  forall l s, allS gs gr s -> Forall good_actS l ->
  exists s1 s2, run_schedS gs gr s l = Some s1 /\ run_schedS gs gr s1 (drainS (measure s1)) = Some s2 /\
                qsr s2 = [] /\ qrs s2 = [] /\ c_store (cs s2) = [] /\
                map undup (filter q2 (delivered s2)) = map undup (filter q2 (published s1)) /\
                (forall p, In p (published s1) -> k_type p = T_PUBLISH -> k_qos p = 1 -> In (undup p) (map undup (delivered s2))).
Proof. exact server_to_client_across_loss. Qed.
Print Assumptions C01_pair_server_to_client_across_loss.

Theorem C01_pair_accounting_after_handshake : forall c1 c2, c_qos2 c2 = [] -> c_store c1 = [] -> accB (mkSys c1 c2 [] [] [] []).
Proof. exact accB_init. Qed.
Print Assumptions C01_pair_accounting_after_handshake.

(* the tie of those statements to the step function that the correspondence runs against the code *)
Theorem C01_send_call_is_send_publish : forall g c p q, c_version c = V311 -> v311_pub p q ->
  step g c (OSend p) = bindr (send_publish_v311 c p) (fun '(c', e) => Ok (c', e, [])).
Proof. exact step_send_publish_v311. Qed.
Print Assumptions C01_send_call_is_send_publish.

Theorem C01_recv_call_is_deliver : forall g c bytes p hdr body pb' rest,
  feed (c_pb c) bytes = (FComplete hdr body, pb', rest) ->
  hd 0 hdr / 16 = k_type p -> 3 <= k_type p <= 7 -> c_version c = V311 ->
  (c_mps_recv c <? remaining_length_to_total_size (N.of_nat (length body))) = false ->
  step g c (ORecv bytes (PROk p)) =
  bindr (deliver g (set_pb c pb') p) (fun '(c', e) => Ok (c', e, [N.of_nat (length rest)])).
Proof. exact step_recv_is_deliver. Qed.
Print Assumptions C01_recv_call_is_deliver.

(* C01_partial: what is PROVED of the pair is everything above: single exchanges (both versions), any sequence of them
   (both versions), ANY schedule with several exchanges in flight on intact FIFO links with the exactly-once accounting
   (v3.1.1, automatic responses), and the same WITH TRANSPORT LOSSES and session resumption: safety, progress, QoS 2 exactly
   once and QoS 1 at least once; and traffic in both directions at once on intact links.  NOT proved: a loss in the middle
   of the resumption handshake or of a frame, losses with traffic in both directions, manual responses, v5.0 topic
   aliases, v5.0 with losses.  Those — with arbitrary
   fragmentation, loss points (incl. mid-frame) and workloads from both sides — are decided on PAIRS OF REAL OBJECTS by the
   monitor mon_c01 (harness conn_duo.rs wires a client and a server object by two byte queues): no protocol error on
   either side, termination, exactly-once / at-least-once / at-most-once delivery with the original topic and payload,
   quiescence (all identifiers released, stores empty, full vacancy); both objects are tied to the model by the
   full-digest correspondence chk_duo. *)


(* THE PERSISTENT HANDSHAKE ESTABLISHES THE LOSSY INVARIANT (Conn/PairHandshakeP.v; v3.1.1, Clean Session = 0, any keep-alive,
   Session Present either way): from two disconnected endpoints with nothing stored, awaited or handled *)
Theorem C01_persistent_handshake_establishes_lossy_invariant : forall gs gr A0 B0 cn ca,
  OWN gs A0 -> OWN gr B0 -> c_version A0 = V311 -> c_version B0 = V311 -> c_status A0 = Disconnected -> c_status B0 = Disconnected ->
  EMPTY A0 -> EMPTY B0 -> c_auto_pub A0 = true -> c_auto_pub B0 = true -> role_client_ok gs = true -> role_server_ok gr = true ->
  k_type cn = T_CONNECT -> k_ver cn = V311 -> k_flag cn = false ->
  k_type ca = T_CONNACK -> k_ver ca = V311 -> k_rc ca = 0 ->
  exists A1 e1 B1 e2 B2 e3 A2 e4,
    step gs A0 (OSend cn) = Ok (A1, e1, []) /\ sends e1 = [cn] /\ errors e1 = [] /\
    deliver gr B0 cn = Ok (B1, e2) /\ notifies e2 = [cn] /\ errors e2 = [] /\ sends e2 = [] /\
    step gr B1 (OSend ca) = Ok (B2, e3, []) /\ sends e3 = [ca] /\ errors e3 = [] /\
    deliver gs A1 ca = Ok (A2, e4) /\ notifies e4 = [ca] /\ errors e4 = [] /\ sends e4 = [] /\
    invL gs gr (mkSys A2 B2 [] [] [] []) /\ accB (mkSys A2 B2 [] [] [] []) /\ accC (mkSys A2 B2 [] [] [] []).
Proof. exact persistent_handshake_establishes_lossy_invariant. Qed.
Print Assumptions C01_persistent_handshake_establishes_lossy_invariant.

(* END TO END ACROSS TRANSPORT LOSS: two freshly constructed endpoints, the persistent handshake, then ANY schedule of
   publications, deliveries and transport losses, each loss followed by a resumption: every call succeeds, the links
   drain, nothing stays stored, every QoS 2 message published is notified exactly once (up to DUP) and in order, every
   QoS 1 message at least once *)
Theorem C01_fresh_endpoints_interoperate_across_loss : forall gs gr cn ca l,
  1 <= g_idmax gs -> 1 <= g_idmax gr -> role_client_ok gs = true -> role_server_ok gr = true -> 2 + g_idw gs <= MQTT_PACKET_SIZE_NO_LIMIT ->
  k_type cn = T_CONNECT -> k_ver cn = V311 -> k_flag cn = false ->
  k_type ca = T_CONNACK -> k_ver ca = V311 -> k_rc ca = 0 ->
  Forall good_actL l ->
  let A0 := set_auto_pub (conn_new gs V311) true in
  let B0 := set_auto_pub (conn_new gr V311) true in
  exists A1 e1 B1 e2 B2 e3 A2 e4 s1 s2,
    step gs A0 (OSend cn) = Ok (A1, e1, []) /\ sends e1 = [cn] /\
    deliver gr B0 cn = Ok (B1, e2) /\ notifies e2 = [cn] /\
    step gr B1 (OSend ca) = Ok (B2, e3, []) /\ sends e3 = [ca] /\
    deliver gs A1 ca = Ok (A2, e4) /\ notifies e4 = [ca] /\
    errors e1 = [] /\ errors e2 = [] /\ errors e3 = [] /\ errors e4 = [] /\
    run_schedL gs gr (mkSys A2 B2 [] [] [] []) l = Some s1 /\
    run_schedL gs gr s1 (drainL (measure s1)) = Some s2 /\
    qsr s2 = [] /\ qrs s2 = [] /\ c_store (cs s2) = [] /\
    map undup (filter q2 (delivered s2)) = map undup (filter q2 (published s1)) /\
    (forall p, In p (published s1) -> k_type p = T_PUBLISH -> k_qos p = 1 -> In (undup p) (map undup (delivered s2))).
Proof. exact fresh_endpoints_interoperate_across_loss. Qed.
Print Assumptions C01_fresh_endpoints_interoperate_across_loss.

(* ... and with the SERVER as the publishing side after the same handshake (it retransmits in the call that sends its CONNACK) *)
Theorem C01_fresh_endpoints_interoperate_across_loss_server_publishes : forall gc gsv cn ca l,
  1 <= g_idmax gc -> 1 <= g_idmax gsv -> role_client_ok gc = true -> role_server_ok gsv = true -> 2 + g_idw gsv <= MQTT_PACKET_SIZE_NO_LIMIT ->
  k_type cn = T_CONNECT -> k_ver cn = V311 -> k_flag cn = false ->
  k_type ca = T_CONNACK -> k_ver ca = V311 -> k_rc ca = 0 ->
  Forall good_actS l ->
  let A0 := set_auto_pub (conn_new gc V311) true in
  let B0 := set_auto_pub (conn_new gsv V311) true in
  exists A1 e1 B1 e2 B2 e3 A2 e4 s1 s2,
    step gc A0 (OSend cn) = Ok (A1, e1, []) /\ sends e1 = [cn] /\
    deliver gsv B0 cn = Ok (B1, e2) /\ notifies e2 = [cn] /\
    step gsv B1 (OSend ca) = Ok (B2, e3, []) /\ sends e3 = [ca] /\
    deliver gc A1 ca = Ok (A2, e4) /\ notifies e4 = [ca] /\
    errors e1 = [] /\ errors e2 = [] /\ errors e3 = [] /\ errors e4 = [] /\
    (* the SERVER is the publishing side from here on *)
    run_schedS gsv gc (mkSys B2 A2 [] [] [] []) l = Some s1 /\
    run_schedS gsv gc s1 (drainS (measure s1)) = Some s2 /\
    qsr s2 = [] /\ qrs s2 = [] /\ c_store (cs s2) = [] /\
    map undup (filter q2 (delivered s2)) = map undup (filter q2 (published s1)) /\
    (forall p, In p (published s1) -> k_type p = T_PUBLISH -> k_qos p = 1 -> In (undup p) (map undup (delivered s2))).
Proof. exact fresh_endpoints_interoperate_across_loss_server_publishes. Qed.
Print Assumptions C01_fresh_endpoints_interoperate_across_loss_server_publishes.

(* AT QUIESCENCE ACROSS LOSSES NO IDENTIFIER IS IN USE (Conn/PairLossIds.v).  [V]: every identifier in use at the sender has an
   entry in its store — a publication registers exactly the identifier it stores, a final acknowledgement erases the entry and
   releases the identifier, and a loss with its resumption acquires nothing (by the accounting theorems of C08 every call of
   the resumption only ever turns identifiers free, and it keeps the store).  With the store empty after the drain: *)
Theorem C01_pair_lossy_all_identifiers_released : forall gs gr,
  role_client_ok gs = true -> role_server_ok gr = true -> 2 + g_idw gs <= MQTT_PACKET_SIZE_NO_LIMIT ->
  forall l s, invL gs gr s -> accC s -> V s -> Forall good_actL l ->
  exists s1 s2, run_schedL gs gr s l = Some s1 /\ run_schedL gs gr s1 (drainL (measure s1)) = Some s2 /\
                qsr s2 = [] /\ qrs s2 = [] /\ c_store (cs s2) = [] /\ forall y, is_used (cs s2) y = false.
Proof. exact lossy_all_identifiers_released. Qed.
Print Assumptions C01_pair_lossy_all_identifiers_released.

(* ... and with the SERVER as the publishing side (Conn/PairLossSIds.v) *)
Theorem C01_pair_server_publishes_all_identifiers_released : forall gs gr,
  role_server_ok gs = true -> role_client_ok gr = true -> 2 + g_idw gs <= MQTT_PACKET_SIZE_NO_LIMIT ->
  forall l s, allS gs gr s -> V s -> Forall good_actS l ->
  exists s1 s2, run_schedS gs gr s l = Some s1 /\ run_schedS gs gr s1 (drainS (measure s1)) = Some s2 /\
                qsr s2 = [] /\ qrs s2 = [] /\ c_store (cs s2) = [] /\ forall y, is_used (cs s2) y = false.
Proof. exact server_publishes_all_identifiers_released. Qed.
Print Assumptions C01_pair_server_publishes_all_identifiers_released.

Theorem C01_fresh_endpoints_complete_quiescence_across_loss : forall gs gr cn ca l,
  1 <= g_idmax gs -> 1 <= g_idmax gr -> role_client_ok gs = true -> role_server_ok gr = true -> 2 + g_idw gs <= MQTT_PACKET_SIZE_NO_LIMIT ->
  k_type cn = T_CONNECT -> k_ver cn = V311 -> k_flag cn = false ->
  k_type ca = T_CONNACK -> k_ver ca = V311 -> k_rc ca = 0 ->
  Forall good_actL l ->
  let A0 := set_auto_pub (conn_new gs V311) true in
  let B0 := set_auto_pub (conn_new gr V311) true in
  exists A1 e1 B1 e2 B2 e3 A2 e4 s1 s2,
    step gs A0 (OSend cn) = Ok (A1, e1, []) /\ deliver gr B0 cn = Ok (B1, e2) /\
    step gr B1 (OSend ca) = Ok (B2, e3, []) /\ deliver gs A1 ca = Ok (A2, e4) /\
    run_schedL gs gr (mkSys A2 B2 [] [] [] []) l = Some s1 /\
    run_schedL gs gr s1 (drainL (measure s1)) = Some s2 /\
    (* the quiescent state after any losses *)
    qsr s2 = [] /\ qrs s2 = [] /\ c_store (cs s2) = [] /\ (forall y, is_used (cs s2) y = false).
Proof. exact fresh_endpoints_complete_quiescence_across_loss. Qed.
Print Assumptions C01_fresh_endpoints_complete_quiescence_across_loss.

(* the premises of the pair theorems are met by two endpoints after an ordinary handshake *)
Example C01_pair_nonvacuous :
  let gs := mkCfg RClient 65535 2 in
  let gr := mkCfg RServer 65535 2 in
  let cn := mkPkt 1 V311 0 0 false false [] None 0 0 14 false 0 true 0 None None None None None in
  let ca := mkPkt 2 V311 0 0 false false [] None 0 0 4 true 0 false 0 None None None None None in
  let ops_s := [OSetAutoPub true; OSend cn; ORecv [32;2;0;0] (PROk ca); OAcquire] in
  let ops_r := [OSetAutoPub true; ORecv [16;12;0;4;77;81;84;84;4;2;0;0;0;0] (PROk cn); OSend ca] in
  let p2 := mkPkt 3 V311 1 2 false false [116] None 0 0 7 false 0 false 0 None None None None None in
  match run_state gs (conn_new gs V311) ops_s, run_state gr (conn_new gr V311) ops_r with
  | Some cs, Some cr =>
      OWN gs cs /\ ready cs /\ c_auto_pub cs = true /\ ready cr /\ c_auto_pub cr = true /\ v311_pub p2 2 /\
      fresh cs 1 /\ is_used cs 1 = true /\ mem 1 (c_qos2 cr) = false
  | _, _ => False
  end.
Proof.
  cbv zeta.
  pose proof (fresh_OWN_invariant (mkCfg RClient 65535 2) V311
    [OSetAutoPub true; OSend (mkPkt 1 V311 0 0 false false [] None 0 0 14 false 0 true 0 None None None None None);
     ORecv [32;2;0;0] (PROk (mkPkt 2 V311 0 0 false false [] None 0 0 4 true 0 false 0 None None None None None)); OAcquire]) as HO.
  assert (H1 : 1 <= g_idmax (mkCfg RClient 65535 2)) by (cbn; lia).
  assert (H2 : V311 <> VUndet) by discriminate.
  specialize (HO H1 H2). clear H1 H2.
  match type of HO with ?A -> _ => assert (HQ : A) by (vm_compute; repeat split; try reflexivity; try discriminate; intros; try discriminate) end.
  specialize (HO HQ). clear HQ. revert HO. vm_compute. intro HO. split; [exact HO|]. repeat split; reflexivity.
Qed.

(* the manual-response theorems are not vacuous: after an ordinary handshake without automatic responses the premises hold *)
Example C01_pair_manual_nonvacuous :
  let gs := mkCfg RClient 65535 2 in
  let gr := mkCfg RServer 65535 2 in
  let cn := mkPkt 1 V311 0 0 false false [] None 0 0 14 false 0 true 0 None None None None None in
  let ca := mkPkt 2 V311 0 0 false false [] None 0 0 4 true 0 false 0 None None None None None in
  let ops_s := [OSend cn; ORecv [32;2;0;0] (PROk ca); OAcquire] in
  let ops_r := [ORecv [16;12;0;4;77;81;84;84;4;2;0;0;0;0] (PROk cn); OSend ca] in
  let p2 := mkPkt 3 V311 1 2 false false [116] None 0 0 7 false 0 false 0 None None None None None in
  match run_state gs (conn_new gs V311) ops_s, run_state gr (conn_new gr V311) ops_r with
  | Some cs, Some cr =>
      OWN gs cs /\ ready cs /\ c_auto_pub cs = false /\ ready cr /\ c_auto_pub cr = false /\ v311_pub p2 2 /\
      fresh cs 1 /\ is_used cs 1 = true /\ mem 1 (c_qos2 cr) = false /\ asc 1 (g_idmax gs) (c_qos2 cr) /\ 1 <= 1 <= g_idmax gs
  | _, _ => False
  end.
Proof.
  cbv zeta.
  pose proof (fresh_OWN_invariant (mkCfg RClient 65535 2) V311
    [OSend (mkPkt 1 V311 0 0 false false [] None 0 0 14 false 0 true 0 None None None None None);
     ORecv [32;2;0;0] (PROk (mkPkt 2 V311 0 0 false false [] None 0 0 4 true 0 false 0 None None None None None)); OAcquire]) as HO.
  assert (H1 : 1 <= g_idmax (mkCfg RClient 65535 2)) by (cbn; lia).
  assert (H2 : V311 <> VUndet) by discriminate.
  specialize (HO H1 H2). clear H1 H2.
  match type of HO with ?A -> _ => assert (HQ : A) by (vm_compute; repeat split; try reflexivity; try discriminate; intros; try discriminate) end.
  specialize (HO HQ). clear HQ. revert HO. vm_compute. intro HO. split; [exact HO|]. repeat split; try reflexivity; try discriminate.
Qed.

Example C01_pair_manual_v5_nonvacuous :
  let gs := mkCfg RClient 65535 2 in
  let gr := mkCfg RServer 65535 2 in
  let cn := mkPkt 1 V50 0 0 false false [] None 0 0 24 false 0 true 0 None (Some 3) (Some 100) None None in
  let ca := mkPkt 2 V50 0 0 false false [] None 0 0 11 true 0 false 0 None (Some 2) (Some 50) None None in
  let ops_s := [OSend cn; ORecv [32;9;0;0;6;33;0;2;39;0;0;0;50] (PROk ca); OAcquire] in
  let ops_r := [ORecv [16;13;0;4;77;81;84;84;5;2;0;0;0;0;0] (PROk cn); OSend ca] in
  let p2 := mkPkt 3 V50 1 2 false false [116] None 0 0 8 false 0 false 0 None None None None None in
  match run_state gs (conn_new gs V50) ops_s, run_state gr (conn_new gr V50) ops_r with
  | Some cs, Some cr =>
      OWN gs cs /\ ready5 cs /\ c_auto_pub cs = false /\ v5_pub p2 2 /\ fresh cs 1 /\ is_used cs 1 = true /\
      size_ok cs p2 = true /\ c_ta_send cs = None /\ quota_left cs /\ ack_fits gs cs /\ c_send_max cs = Some 2 /\
      ready5 cr /\ c_auto_pub cr = false /\ recv_quota_left cr /\ ack_fits gr cr /\ c_recv_max cr = Some 2 /\
      asc 1 (g_idmax gs) (c_qos2 cr) /\ c_publish_recv cr = c_qos2 cr /\ mem 1 (c_qos2 cr) = false /\ 1 <= 1 <= g_idmax gs
  | _, _ => False
  end.
Proof.
  cbv zeta.
  pose proof (fresh_OWN_invariant (mkCfg RClient 65535 2) V50
    [OSend (mkPkt 1 V50 0 0 false false [] None 0 0 24 false 0 true 0 None (Some 3) (Some 100) None None);
     ORecv [32;9;0;0;6;33;0;2;39;0;0;0;50] (PROk (mkPkt 2 V50 0 0 false false [] None 0 0 11 true 0 false 0 None (Some 2) (Some 50) None None)); OAcquire]) as HO.
  assert (H1 : 1 <= g_idmax (mkCfg RClient 65535 2)) by (cbn; lia).
  assert (H2 : V50 <> VUndet) by discriminate.
  specialize (HO H1 H2). clear H1 H2.
  match type of HO with ?A -> _ => assert (HQ : A) by (vm_compute; repeat split; try reflexivity; try discriminate; intros; try discriminate) end.
  specialize (HO HQ). clear HQ. revert HO. vm_compute. intro HO. split; [exact HO|]. repeat split; try reflexivity; try discriminate.
Qed.

(* the premises of the end-to-end theorem are satisfiable: the handshake used in the examples above *)
Example C01_fresh_v5_nonvacuous :
  let gA := mkCfg RClient 65535 2 in
  let gB := mkCfg RServer 65535 2 in
  let cn := mkPkt 1 V50 0 0 false false [] None 0 0 24 false 0 true 0 None (Some 3) (Some 100) None None in
  let ca := mkPkt 2 V50 0 0 false false [] None 0 0 11 true 0 false 0 None (Some 2) (Some 50) None None in
  1 <= g_idmax gA /\ 1 <= g_idmax gB /\ role_client_ok gA = true /\ role_server_ok gB = true /\
  k_type cn = T_CONNECT /\ k_ver cn = V50 /\ k_flag cn = true /\ k_tam cn = None /\ k_size cn <= MQTT_PACKET_SIZE_NO_LIMIT /\
  k_type ca = T_CONNACK /\ k_ver ca = V50 /\ k_rc ca = 0 /\ k_flag ca = false /\ k_tam ca = None /\ k_rm ca <> Some 0 /\ k_mps ca <> Some 0 /\
  k_size ca <= limit_after (k_mps cn) MQTT_PACKET_SIZE_NO_LIMIT /\
  2 + g_idw gA <= limit_after (k_mps ca) MQTT_PACKET_SIZE_NO_LIMIT /\ 2 + g_idw gB <= limit_after (k_mps cn) MQTT_PACKET_SIZE_NO_LIMIT.
Proof. vm_compute. repeat split; try reflexivity; try discriminate; try (intro H; discriminate H). Qed.

Example C01_nonvacuous :
  let g := mkCfg RClient 65535 2 in
  match do_closed (set_need_store (set_store (conn_new g V311)
           [mkPkt 3 V311 3 1 true false [116] None 0 0 8 false 0 false 0 None None None None None]) true) with
  | Ok (c', _) => length (c_store c') = 1%nat
  | Panic _ => False
  end.
Proof. vm_compute. reflexivity. Qed.

(* ... and the v5.0 premises by two endpoints that negotiated Receive Maximum 2 / 3 and a Maximum Packet Size *)
Example C01_pair_v5_nonvacuous :
  let gs := mkCfg RClient 65535 2 in
  let gr := mkCfg RServer 65535 2 in
  let cn := mkPkt 1 V50 0 0 false false [] None 0 0 24 false 0 true 0 None (Some 3) (Some 100) None None in
  let ca := mkPkt 2 V50 0 0 false false [] None 0 0 11 true 0 false 0 None (Some 2) (Some 50) None None in
  let ops_s := [OSetAutoPub true; OSend cn; ORecv [32;9;0;0;6;33;0;2;39;0;0;0;50] (PROk ca); OAcquire] in
  let ops_r := [OSetAutoPub true; ORecv [16;13;0;4;77;81;84;84;5;2;0;0;0;0;0] (PROk cn); OSend ca] in
  let p2 := mkPkt 3 V50 1 2 false false [116] None 0 0 8 false 0 false 0 None None None None None in
  match run_state gs (conn_new gs V50) ops_s, run_state gr (conn_new gr V50) ops_r with
  | Some cs, Some cr =>
      OWN gs cs /\ ready5 cs /\ c_auto_pub cs = true /\ v5_pub p2 2 /\ fresh cs 1 /\ is_used cs 1 = true /\
      size_ok cs p2 = true /\ c_ta_send cs = None /\ quota_left cs /\ ack_fits gs cs /\ c_send_max cs = Some 2 /\ c_mps_send cs = 50 /\
      ready5 cr /\ c_auto_pub cr = true /\ mem 1 (c_qos2 cr) = false /\ recv_quota_left cr /\ ack_fits gr cr /\ c_recv_max cr = Some 2
  | _, _ => False
  end.
Proof.
  cbv zeta.
  pose proof (fresh_OWN_invariant (mkCfg RClient 65535 2) V50
    [OSetAutoPub true; OSend (mkPkt 1 V50 0 0 false false [] None 0 0 24 false 0 true 0 None (Some 3) (Some 100) None None);
     ORecv [32;9;0;0;6;33;0;2;39;0;0;0;50] (PROk (mkPkt 2 V50 0 0 false false [] None 0 0 11 true 0 false 0 None (Some 2) (Some 50) None None)); OAcquire]) as HO.
  assert (H1 : 1 <= g_idmax (mkCfg RClient 65535 2)) by (cbn; lia).
  assert (H2 : V50 <> VUndet) by discriminate.
  specialize (HO H1 H2). clear H1 H2.
  match type of HO with ?A -> _ => assert (HQ : A) by (vm_compute; repeat split; try reflexivity; try discriminate; intros; try discriminate) end.
  specialize (HO HQ). clear HQ. revert HO. vm_compute. intro HO. split; [exact HO|]. repeat split; try reflexivity; try discriminate.
Qed.

(* the sequence theorem is not vacuous: after an ordinary handshake five messages, with identifier 1 used three times
   and identifier 7 twice, are all delivered — the run answers Done, not AppPre *)
Example C01_pair_sequence_nonvacuous :
  let gs := mkCfg RClient 65535 2 in
  let gr := mkCfg RServer 65535 2 in
  let cn := mkPkt 1 V311 0 0 false false [] None 0 0 14 false 0 true 0 None None None None None in
  let ca := mkPkt 2 V311 0 0 false false [] None 0 0 4 true 0 false 0 None None None None None in
  let ops_s := [OSetAutoPub true; OSend cn; ORecv [32;2;0;0] (PROk ca)] in
  let ops_r := [OSetAutoPub true; ORecv [16;12;0;4;77;81;84;84;4;2;0;0;0;0] (PROk cn); OSend ca] in
  let pb := fun id q pay => mkPkt 3 V311 id q false false [116] None pay 0 (7 + pay) false 0 false 0 None None None None None in
  let ps := [pb 1 1 0; pb 1 2 3; pb 7 2 0; pb 7 1 5; pb 1 2 1] in
  match run_state gs (conn_new gs V311) ops_s, run_state gr (conn_new gr V311) ops_r with
  | Some cs, Some cr =>
      match run_seq gs gr cs cr ps with
      | Done cs' cr' d => d = ps /\ c_qos2 cr' = [] /\ c_store cs' = [] /\ a_pool (c_pid cs') = [(1, 65535)]
      | _ => False
      end
  | _, _ => False
  end.
Proof. vm_compute. repeat split; reflexivity. Qed.

(* ... and the manual-response one: the same five messages without automatic responses *)
Example C01_pair_sequence_manual_nonvacuous :
  let gs := mkCfg RClient 65535 2 in
  let gr := mkCfg RServer 65535 2 in
  let cn := mkPkt 1 V311 0 0 false false [] None 0 0 14 false 0 true 0 None None None None None in
  let ca := mkPkt 2 V311 0 0 false false [] None 0 0 4 true 0 false 0 None None None None None in
  let ops_s := [OSend cn; ORecv [32;2;0;0] (PROk ca)] in
  let ops_r := [ORecv [16;12;0;4;77;81;84;84;4;2;0;0;0;0] (PROk cn); OSend ca] in
  let pb := fun id q pay => mkPkt 3 V311 id q false false [116] None pay 0 (7 + pay) false 0 false 0 None None None None None in
  let ps := [pb 1 1 0; pb 1 2 3; pb 7 2 0; pb 7 1 5; pb 1 2 1] in
  match run_state gs (conn_new gs V311) ops_s, run_state gr (conn_new gr V311) ops_r with
  | Some cs, Some cr =>
      c_auto_pub cs = false /\ c_auto_pub cr = false /\
      match run_seq_m gs gr cs cr ps with
      | Done cs' cr' d => d = ps /\ c_qos2 cr' = [] /\ c_store cs' = [] /\ a_pool (c_pid cs') = [(1, 65535)]
      | _ => False
      end
  | _, _ => False
  end.
Proof. vm_compute. repeat split; reflexivity. Qed.

(* ... and the v5.0 one: Receive Maximum 2 towards the server, 3 towards the client, Maximum Packet Size 50; five messages
   with identifier reuse; at the end the vacancy is 2 again and nothing is outstanding on either side *)
Example C01_pair_sequence_v5_nonvacuous :
  let gs := mkCfg RClient 65535 2 in
  let gr := mkCfg RServer 65535 2 in
  let cn := mkPkt 1 V50 0 0 false false [] None 0 0 24 false 0 true 0 None (Some 3) (Some 100) None None in
  let ca := mkPkt 2 V50 0 0 false false [] None 0 0 11 true 0 false 0 None (Some 2) (Some 50) None None in
  let ops_s := [OSetAutoPub true; OSend cn; ORecv [32;9;0;0;6;33;0;2;39;0;0;0;50] (PROk ca)] in
  let ops_r := [OSetAutoPub true; ORecv [16;13;0;4;77;81;84;84;5;2;0;0;0;0;0] (PROk cn); OSend ca] in
  let pb := fun id q pay => mkPkt 3 V50 id q false false [116] None pay 0 (8 + pay) false 0 false 0 None None None None None in
  let ps := [pb 1 1 0; pb 1 2 3; pb 7 2 0; pb 7 1 5; pb 1 2 1] in
  match run_state gs (conn_new gs V50) ops_s, run_state gr (conn_new gr V50) ops_r with
  | Some cs, Some cr =>
      match run_seq5 gs gr cs cr ps with
      | Done cs' cr' d => d = ps /\ vacancy cs' = Some 2 /\ c_publish_recv cr' = [] /\ c_qos2 cr' = [] /\ c_store cs' = [] /\
                          a_pool (c_pid cs') = [(1, 65535)]
      | _ => False
      end
  | _, _ => False
  end.
Proof. vm_compute. repeat split; reflexivity. Qed.


(* ... and the v5.0 manual-response one *)
Example C01_pair_sequence_manual_v5_nonvacuous :
  let gs := mkCfg RClient 65535 2 in
  let gr := mkCfg RServer 65535 2 in
  let cn := mkPkt 1 V50 0 0 false false [] None 0 0 24 false 0 true 0 None (Some 3) (Some 100) None None in
  let ca := mkPkt 2 V50 0 0 false false [] None 0 0 11 true 0 false 0 None (Some 2) (Some 50) None None in
  let ops_s := [OSend cn; ORecv [32;9;0;0;6;33;0;2;39;0;0;0;50] (PROk ca)] in
  let ops_r := [ORecv [16;13;0;4;77;81;84;84;5;2;0;0;0;0;0] (PROk cn); OSend ca] in
  let pb := fun id q pay => mkPkt 3 V50 id q false false [116] None pay 0 (8 + pay) false 0 false 0 None None None None None in
  let ps := [pb 1 1 0; pb 1 2 3; pb 7 2 0; pb 7 1 5; pb 1 2 1] in
  match run_state gs (conn_new gs V50) ops_s, run_state gr (conn_new gr V50) ops_r with
  | Some cs, Some cr =>
      c_auto_pub cs = false /\ c_auto_pub cr = false /\
      match run_seq5_m gs gr cs cr ps with
      | Done cs' cr' d => d = ps /\ vacancy cs' = Some 2 /\ c_publish_recv cr' = [] /\ c_qos2 cr' = [] /\ c_store cs' = [] /\
                          a_pool (c_pid cs') = [(1, 65535)]
      | _ => False
      end
  | _, _ => False
  end.
Proof. vm_compute. repeat split; reflexivity. Qed.

(* the concurrent theorem is not vacuous: four messages published while earlier ones are still in flight (three
   exchanges open at once), deliveries interleaved, one publication skipped because its identifier is still in use;
   after draining everything has arrived once, in order *)
Example C01_pair_concurrent_nonvacuous :
  let gs := mkCfg RClient 65535 2 in
  let gr := mkCfg RServer 65535 2 in
  let cn := mkPkt 1 V311 0 0 false false [] None 0 0 14 false 0 true 0 None None None None None in
  let ca := mkPkt 2 V311 0 0 false false [] None 0 0 4 true 0 false 0 None None None None None in
  let ops_s := [OSetAutoPub true; OSend cn; ORecv [32;2;0;0] (PROk ca)] in
  let ops_r := [OSetAutoPub true; ORecv [16;12;0;4;77;81;84;84;4;2;0;0;0;0] (PROk cn); OSend ca] in
  let pb := fun id q pay => mkPkt 3 V311 id q false false [116] None pay 0 (7 + pay) false 0 false 0 None None None None None in
  let sched := [Pub (pb 1 2 0); Pub (pb 2 1 1); ToR; Pub (pb 3 2 2); ToS; ToR; ToR; Pub (pb 1 1 9); ToS; Pub (pb 4 1 3)] in
  match run_state gs (conn_new gs V311) ops_s, run_state gr (conn_new gr V311) ops_r with
  | Some c1, Some c2 =>
      match run_sched gs gr (mkSys c1 c2 [] [] [] []) sched with
      | Some s1 =>
          length (qsr s1) = 2%nat /\ length (qrs s1) = 1%nat /\      (* a PUBREL and a PUBLISH one way, a PUBREC the other *)
          match run_sched gs gr s1 (drain_links (measure s1)) with
          | Some s2 => published s1 = [pb 1 2 0; pb 2 1 1; pb 3 2 2; pb 4 1 3] /\ delivered s2 = published s1 /\
                       qsr s2 = [] /\ qrs s2 = [] /\ c_qos2 (cr s2) = [] /\ a_pool (c_pid (cs s2)) = [(1, 65535)]
          | None => False
          end
      | None => False
      end
  | _, _ => False
  end.
Proof. vm_compute. repeat split; reflexivity. Qed.


(* the lossy theorems are not vacuous: two endpoints after a first handshake without Clean Session satisfy the premises
   of C01_pair_lossy_invariant_after_handshake (K by the history theorem), and a schedule with three losses — one while a
   QoS 2 PUBLISH has arrived but its PUBREC has not, one while a QoS 1 PUBLISH and a PUBREC are in flight, one before a
   QoS 2 PUBLISH has arrived at all — runs through and drains: the QoS 2 messages are delivered once each (the third as a
   retransmission), the QoS 1 message twice (at least once) *)
Example C01_pair_lossy_nonvacuous :
  let gs := mkCfg RClient 65535 2 in
  let gr := mkCfg RServer 65535 2 in
  let cn := mkPkt 1 V311 0 0 false false [] None 0 0 14 false 0 false 0 None None None None None in
  let ca := mkPkt 2 V311 0 0 false false [] None 0 0 4 true 0 false 0 None None None None None in
  let ops_s := [OSetAutoPub true; OSend cn; ORecv [32;2;0;0] (PROk ca)] in
  let ops_r := [OSetAutoPub true; ORecv [16;12;0;4;77;81;84;84;4;0;0;0;0;0] (PROk cn); OSend ca] in
  let pb := fun id q pay => mkPkt 3 V311 id q false false [116] None pay 0 (7 + pay) false 0 false 0 None None None None None in
  let sched := [PubL (pb 1 2 0); ToRL; Lose; PubL (pb 2 1 1); ToRL; ToRL; Lose; ToRL; ToSL; PubL (pb 3 2 5); Lose; ToRL] in
  k_history_ok gs (conn_new gs V311) ops_s /\ k_history_ok gr (conn_new gr V311) ops_r /\
  match run_state gs (conn_new gs V311) ops_s, run_state gr (conn_new gr V311) ops_r with
  | Some c1, Some c2 =>
      ready c1 /\ c_auto_pub c1 = true /\ c_need_store c1 = true /\ c_mps_send c1 = MQTT_PACKET_SIZE_NO_LIMIT /\ c_store c1 = [] /\
      ready c2 /\ c_auto_pub c2 = true /\ c_need_store c2 = true /\ c_store c2 = [] /\ c_qos2 c2 = [] /\
      match run_schedL gs gr (mkSys c1 c2 [] [] [] []) sched with
      | Some s1 =>
          map k_pid (qsr s1) = [1; 3] /\ map k_pid (qrs s1) = [2] /\
          match run_schedL gs gr s1 (drainL (measure s1)) with
          | Some s2 => map k_pid (published s1) = [1; 2; 3] /\ map (fun x => (k_pid x, k_dup x)) (delivered s2) = [(1, false); (2, false); (2, true); (3, true)] /\
                       qsr s2 = [] /\ qrs s2 = [] /\ c_qos2 (cr s2) = [] /\ c_store (cs s2) = []
          | None => False
          end
      | None => False
      end
  | _, _ => False
  end.
Proof. vm_compute. repeat split; try reflexivity; try discriminate; intros; try discriminate; auto. Qed.


(* the two-way theorem is not vacuous: both sides publish while the other side's messages and acknowledgements are in
   flight on the same links; after draining each side has received exactly what the other published *)
Example C01_pair_two_way_nonvacuous :
  let gA := mkCfg RClient 65535 2 in
  let gB := mkCfg RServer 65535 2 in
  let cn := mkPkt 1 V311 0 0 false false [] None 0 0 14 false 0 true 0 None None None None None in
  let ca := mkPkt 2 V311 0 0 false false [] None 0 0 4 true 0 false 0 None None None None None in
  let ops_a := [OSetAutoPub true; OSend cn; ORecv [32;2;0;0] (PROk ca)] in
  let ops_b := [OSetAutoPub true; ORecv [16;12;0;4;77;81;84;84;4;2;0;0;0;0] (PROk cn); OSend ca] in
  let pb := fun id q pay => mkPkt 3 V311 id q false false [116] None pay 0 (7 + pay) false 0 false 0 None None None None None in
  let sched := [PubA (pb 1 2 0); PubB (pb 1 1 7); ToB; PubB (pb 2 2 8); PubA (pb 2 1 1); ToA; ToA; ToB; PubA (pb 3 2 2); ToA] in
  match run_state gA (conn_new gA V311) ops_a, run_state gB (conn_new gB V311) ops_b with
  | Some a, Some b =>
      match run_sched2 gA gB (mkBi a b [] [] [] [] [] []) sched with
      | Some s1 =>
          match run_sched2 gA gB s1 (drain2 (measure2 s1)) with
          | Some s2 => pubA s1 = [pb 1 2 0; pb 2 1 1; pb 3 2 2] /\ pubB s1 = [pb 1 1 7; pb 2 2 8] /\
                       delB s2 = pubA s1 /\ delA s2 = pubB s1 /\ qab s2 = [] /\ qba s2 = [] /\
                       (length (qab s1) + length (qba s1) >= 3)%nat
          | None => False
          end
      | None => False
      end
  | _, _ => False
  end.
Proof. vm_compute. repeat split; try reflexivity; lia. Qed.


(* the v5.0 two-way theorem is not vacuous: Receive Maximum 2 towards B and 3 towards A; A's third publication is
   skipped while two of its exchanges are in flight and accepted later; both accounts are full again after draining *)
Example C01_pair_two_way_v5_nonvacuous :
  let gA := mkCfg RClient 65535 2 in
  let gB := mkCfg RServer 65535 2 in
  let cn := mkPkt 1 V50 0 0 false false [] None 0 0 24 false 0 true 0 None (Some 3) (Some 100) None None in
  let ca := mkPkt 2 V50 0 0 false false [] None 0 0 11 true 0 false 0 None (Some 2) (Some 50) None None in
  let ops_a := [OSetAutoPub true; OSend cn; ORecv [32;9;0;0;6;33;0;2;39;0;0;0;50] (PROk ca)] in
  let ops_b := [OSetAutoPub true; ORecv [16;13;0;4;77;81;84;84;5;2;0;0;0;0;0] (PROk cn); OSend ca] in
  let pb := fun id q pay => mkPkt 3 V50 id q false false [116] None pay 0 (8 + pay) false 0 false 0 None None None None None in
  let sched := [PubA (pb 1 2 0); PubB (pb 1 1 7); PubA (pb 2 1 1); PubA (pb 3 1 9); ToB; PubB (pb 2 2 8); ToA; ToA; ToB; ToB; ToA; ToA;
                PubA (pb 3 2 2); ToB] in
  match run_state gA (conn_new gA V50) ops_a, run_state gB (conn_new gB V50) ops_b with
  | Some a, Some b =>
      c_send_max a = Some 2 /\ c_recv_max a = Some 3 /\ c_send_max b = Some 3 /\ c_recv_max b = Some 2 /\
      match run_sched25 gA gB (mkBi a b [] [] [] [] [] []) sched with
      | Some s1 =>
          pubA s1 = [pb 1 2 0; pb 2 1 1; pb 3 2 2] /\ pubB s1 = [pb 1 1 7; pb 2 2 8] /\ vacancy (ea s1) = Some 0 /\
          (length (qab s1) + length (qba s1) >= 3)%nat /\
          match run_sched25 gA gB s1 (drain2 (measure2 s1)) with
          | Some s2 => delB s2 = pubA s1 /\ delA s2 = pubB s1 /\ qab s2 = [] /\ qba s2 = [] /\
                       vacancy (ea s2) = Some 2 /\ vacancy (eb s2) = Some 3 /\ c_publish_recv (ea s2) = [] /\ c_publish_recv (eb s2) = []
          | None => False
          end
      | None => False
      end
  | _, _ => False
  end.
Proof. vm_compute. repeat split; try reflexivity; lia. Qed.

(* the v5.0 concurrent theorem is not vacuous: Receive Maximum 2 towards the server; the third publication is skipped
   while two exchanges are in flight (no vacancy) and accepted once one has completed *)
Example C01_pair_concurrent_v5_nonvacuous :
  let gs := mkCfg RClient 65535 2 in
  let gr := mkCfg RServer 65535 2 in
  let cn := mkPkt 1 V50 0 0 false false [] None 0 0 24 false 0 true 0 None (Some 3) (Some 100) None None in
  let ca := mkPkt 2 V50 0 0 false false [] None 0 0 11 true 0 false 0 None (Some 2) (Some 50) None None in
  let ops_s := [OSetAutoPub true; OSend cn; ORecv [32;9;0;0;6;33;0;2;39;0;0;0;50] (PROk ca)] in
  let ops_r := [OSetAutoPub true; ORecv [16;13;0;4;77;81;84;84;5;2;0;0;0;0;0] (PROk cn); OSend ca] in
  let pb := fun id q pay => mkPkt 3 V50 id q false false [116] None pay 0 (8 + pay) false 0 false 0 None None None None None in
  let sched := [Pub5 (pb 1 2 0); Pub5 (pb 2 1 1); Pub5 (pb 3 1 2); ToR5; ToR5; ToS5; ToS5; Pub5 (pb 3 2 2)] in
  match run_state gs (conn_new gs V50) ops_s, run_state gr (conn_new gr V50) ops_r with
  | Some c1, Some c2 =>
      c_send_max c1 = Some 2 /\ c_recv_max c2 = Some 2 /\
      match run_sched5 gs gr (mkSys c1 c2 [] [] [] []) sched with
      | Some s1 =>
          published s1 = [pb 1 2 0; pb 2 1 1; pb 3 2 2] /\ vacancy (cs s1) = Some 0 /\
          match run_sched5 gs gr s1 (drain5 (measure s1)) with
          | Some s2 => delivered s2 = published s1 /\ vacancy (cs s2) = Some 2 /\ c_publish_recv (cr s2) = [] /\ qsr s2 = [] /\ qrs s2 = []
          | None => False
          end
      | None => False
      end
  | _, _ => False
  end.
Proof. vm_compute. repeat split; reflexivity. Qed.


(* ... and the server-to-client variant runs through the same kind of schedule *)
Example C01_pair_server_to_client_nonvacuous :
  let gc := mkCfg RClient 65535 2 in
  let gv := mkCfg RServer 65535 2 in
  let cn := mkPkt 1 V311 0 0 false false [] None 0 0 14 false 0 false 0 None None None None None in
  let ca := mkPkt 2 V311 0 0 false false [] None 0 0 4 true 0 false 0 None None None None None in
  let ops_c := [OSetAutoPub true; OSend cn; ORecv [32;2;0;0] (PROk ca)] in
  let ops_v := [OSetAutoPub true; ORecv [16;12;0;4;77;81;84;84;4;0;0;0;0;0] (PROk cn); OSend ca] in
  let pb := fun id q pay => mkPkt 3 V311 id q false false [116] None pay 0 (7 + pay) false 0 false 0 None None None None None in
  let sched := [PubS (pb 1 2 0); ToRS; LoseS; PubS (pb 2 1 1); ToRS; ToRS; LoseS; ToRS; ToSS; PubS (pb 3 2 5); LoseS; ToRS] in
  k_history_ok gv (conn_new gv V311) ops_v /\ k_history_ok gc (conn_new gc V311) ops_c /\
  match run_state gv (conn_new gv V311) ops_v, run_state gc (conn_new gc V311) ops_c with
  | Some sv, Some cl =>
      match run_schedS gv gc (mkSys sv cl [] [] [] []) sched with
      | Some s1 =>
          match run_schedS gv gc s1 (drainS (measure s1)) with
          | Some s2 => map k_pid (published s1) = [1; 2; 3] /\ map (fun x => (k_pid x, k_dup x)) (delivered s2) = [(1, false); (2, false); (2, true); (3, true)] /\
                       qsr s2 = [] /\ qrs s2 = [] /\ c_store (cs s2) = []
          | None => False
          end
      | None => False
      end
  | _, _ => False
  end.
Proof. vm_compute. repeat split; try reflexivity; try discriminate; intros; try discriminate; auto. Qed.

(* the mixed-sequence theorem is not vacuous: QoS 0 messages between acknowledged exchanges that reuse identifiers - the run
   answers Done, all seven are notified in order, and nothing is left on either side *)
Example C01_pair_mixed_sequence_nonvacuous :
  let gs := mkCfg RClient 65535 2 in
  let gr := mkCfg RServer 65535 2 in
  let cn := mkPkt 1 V311 0 0 false false [] None 0 0 14 false 0 true 0 None None None None None in
  let ca := mkPkt 2 V311 0 0 false false [] None 0 0 4 true 0 false 0 None None None None None in
  let ops_s := [OSetAutoPub true; OSend cn; ORecv [32;2;0;0] (PROk ca)] in
  let ops_r := [OSetAutoPub true; ORecv [16;12;0;4;77;81;84;84;4;2;0;0;0;0] (PROk cn); OSend ca] in
  let pb := fun id q pay => mkPkt 3 V311 id q false false [116] None pay 0 (7 + pay) false 0 false 0 None None None None None in
  let p0 := fun pay => mkPkt 3 V311 0 0 false false [116] None pay 0 (5 + pay) false 0 false 0 None None None None None in
  let ps := [p0 2; pb 1 1 0; p0 0; pb 1 2 3; p0 4; p0 1; pb 1 2 1] in
  Forall v311_any ps /\
  match run_state gs (conn_new gs V311) ops_s, run_state gr (conn_new gr V311) ops_r with
  | Some cs, Some cr =>
      match run_mixed gs gr cs cr ps with
      | Done cs' cr' d => d = ps /\ c_qos2 cr' = [] /\ c_store cs' = [] /\ a_pool (c_pid cs') = [(1, 65535)]
      | _ => False
      end
  | _, _ => False
  end.
Proof. split; [repeat constructor; unfold v311_any, v311_pub; cbn; tauto|]. vm_compute. repeat split; reflexivity. Qed.

(* ... and the two-way one: both sides publish, QoS 0 in between, identifier 1 in use on both sides independently *)
Example C01_two_way_mixed_sequence_nonvacuous :
  let gs := mkCfg RClient 65535 2 in
  let gr := mkCfg RServer 65535 2 in
  let cn := mkPkt 1 V311 0 0 false false [] None 0 0 14 false 0 true 0 None None None None None in
  let ca := mkPkt 2 V311 0 0 false false [] None 0 0 4 true 0 false 0 None None None None None in
  let ops_s := [OSetAutoPub true; OSend cn; ORecv [32;2;0;0] (PROk ca)] in
  let ops_r := [OSetAutoPub true; ORecv [16;12;0;4;77;81;84;84;4;2;0;0;0;0] (PROk cn); OSend ca] in
  let pb := fun id q pay => mkPkt 3 V311 id q false false [116] None pay 0 (7 + pay) false 0 false 0 None None None None None in
  let p0 := fun pay => mkPkt 3 V311 0 0 false false [116] None pay 0 (5 + pay) false 0 false 0 None None None None None in
  let l := [FromA (p0 2); FromB (pb 1 2 0); FromA (pb 1 2 3); FromB (p0 0); FromB (pb 1 1 4); FromA (pb 1 1 1); FromA (p0 1)] in
  match run_state gs (conn_new gs V311) ops_s, run_state gr (conn_new gr V311) ops_r with
  | Some a, Some b =>
      match run_mixed2 gs gr a b l with
      | Done2 a' b' dB dA => dB = [p0 2; pb 1 2 3; pb 1 1 1; p0 1] /\ dA = [pb 1 2 0; p0 0; pb 1 1 4] /\
                             c_qos2 a' = [] /\ c_qos2 b' = [] /\ c_store a' = [] /\ c_store b' = [] /\
                             a_pool (c_pid a') = [(1, 65535)] /\ a_pool (c_pid b') = [(1, 65535)]
      | _ => False
      end
  | _, _ => False
  end.
Proof. vm_compute. repeat split; reflexivity. Qed.

(* ... and the v5.0 mixed sequence: QoS 0 between acknowledged exchanges, Receive Maximum 2 / 3 negotiated *)
Example C01_pair_mixed_sequence_v5_nonvacuous :
  let gs := mkCfg RClient 65535 2 in
  let gr := mkCfg RServer 65535 2 in
  let cn := mkPkt 1 V50 0 0 false false [] None 0 0 24 false 0 true 0 None (Some 3) (Some 100) None None in
  let ca := mkPkt 2 V50 0 0 false false [] None 0 0 11 true 0 false 0 None (Some 2) (Some 50) None None in
  let ops_s := [OSetAutoPub true; OSend cn; ORecv [32;9;0;0;6;33;0;2;39;0;0;0;50] (PROk ca)] in
  let ops_r := [OSetAutoPub true; ORecv [16;13;0;4;77;81;84;84;5;2;0;0;0;0;0] (PROk cn); OSend ca] in
  let pb := fun id q pay => mkPkt 3 V50 id q false false [116] None pay 0 (8 + pay) false 0 false 0 None None None None None in
  let p0 := fun pay => mkPkt 3 V50 0 0 false false [116] None pay 0 (6 + pay) false 0 false 0 None None None None None in
  let ps := [p0 2; pb 1 1 0; p0 0; pb 1 2 3; p0 4; pb 1 2 1] in
  match run_state gs (conn_new gs V50) ops_s, run_state gr (conn_new gr V50) ops_r with
  | Some cs, Some cr =>
      match run_mixed5 gs gr cs cr ps with
      | Done cs' cr' d => d = ps /\ c_qos2 cr' = [] /\ c_store cs' = [] /\ a_pool (c_pid cs') = [(1, 65535)] /\
                          c_send_count cs' = 0 /\ c_publish_recv cr' = []
      | _ => False
      end
  | _, _ => False
  end.
Proof. vm_compute. repeat split; reflexivity. Qed.

(* ... and the v5.0 two-way one: Receive Maximum 2 towards the server, 3 towards the client *)
Example C01_two_way_mixed_sequence_v5_nonvacuous :
  let gs := mkCfg RClient 65535 2 in
  let gr := mkCfg RServer 65535 2 in
  let cn := mkPkt 1 V50 0 0 false false [] None 0 0 24 false 0 true 0 None (Some 3) (Some 100) None None in
  let ca := mkPkt 2 V50 0 0 false false [] None 0 0 11 true 0 false 0 None (Some 2) (Some 50) None None in
  let ops_s := [OSetAutoPub true; OSend cn; ORecv [32;9;0;0;6;33;0;2;39;0;0;0;50] (PROk ca)] in
  let ops_r := [OSetAutoPub true; ORecv [16;13;0;4;77;81;84;84;5;2;0;0;0;0;0] (PROk cn); OSend ca] in
  let pb := fun id q pay => mkPkt 3 V50 id q false false [116] None pay 0 (8 + pay) false 0 false 0 None None None None None in
  let p0 := fun pay => mkPkt 3 V50 0 0 false false [116] None pay 0 (6 + pay) false 0 false 0 None None None None None in
  let l := [FromA (p0 2); FromB (pb 1 2 0); FromA (pb 1 2 3); FromB (p0 0); FromB (pb 1 1 4); FromA (pb 1 1 1); FromA (p0 1)] in
  match run_state gs (conn_new gs V50) ops_s, run_state gr (conn_new gr V50) ops_r with
  | Some a, Some b =>
      match run_mixed52 gs gr a b l with
      | Done2 a' b' dB dA => dB = [p0 2; pb 1 2 3; pb 1 1 1; p0 1] /\ dA = [pb 1 2 0; p0 0; pb 1 1 4] /\
                             vacancy a' = Some 2 /\ vacancy b' = Some 3 /\ c_publish_recv a' = [] /\ c_publish_recv b' = [] /\
                             c_store a' = [] /\ c_store b' = [] /\ a_pool (c_pid a') = [(1, 65535)] /\ a_pool (c_pid b') = [(1, 65535)]
      | _ => False
      end
  | _, _ => False
  end.
Proof. vm_compute. repeat split; reflexivity. Qed.
