(* C16 — Session state exported at any point and restored resumes the session.  Statements only;
   proofs in Conn/Restore.v, Conn/OwnStep.v, Conn/SupStep.v and Conn/SessInv.v.  Nothing else may be added to this file. *)
From MQ Require Import Base.Prelude Alloc.Alloc Alloc.AllocProofs Framing.Framing Conn.Types Conn.ConnRecord Conn.Step
                       Corr.ConnTrace Conn.IdsQuota Conn.Scope Conn.Restore Conn.Own Conn.OwnFrame Conn.OwnStep Conn.SupFrame Conn.SupStep Conn.SessInv Conn.AscQos2 Conn.Run.

(* restore_packets on ANY object whose allocator is well formed, for EVERY export with distinct
   identifiers that are free: the store is extended by exactly the export in its order, each entry's
   identifier becomes in use (and only those), and each entry waits for exactly its acknowledgement *)
Theorem C16_restore_rebuilds : forall g l c,
  WFpid g c -> NoDup (map k_pid l) ->
  (forall p, In p l -> entry_ok p = true /\ free_in c (k_pid p) = true /\ store_has (k_pid p) (c_store c) = false) ->
  let c' := do_restore c l in
  WFpid g c' /\ c_store c' = c_store c ++ l /\
  (forall y, free_in c' y = free_in c y && negb (store_has y l)) /\
  (forall y, mem y (c_puback c') = mem y (c_puback c) || has is_q1 l y) /\
  (forall y, mem y (c_pubrec c') = mem y (c_pubrec c) || has is_q2 l y) /\
  (forall y, mem y (c_pubcomp c') = mem y (c_pubcomp c) || has is_rel l y) /\
  c_qos2 c' = c_qos2 c /\ conn_scope_eq c' c.
Proof. exact restore_rebuilds. Qed.
Print Assumptions C16_restore_rebuilds.

(* a fresh object (same options) given the export of a session satisfying the store invariant has
   a session state EQUAL to the original's: store, in-flight sets, identifiers in use, handled ids *)
Theorem C16_restored_session_equal : forall g c,
  1 <= g_idmax g -> sess_inv g c -> asc 1 (g_idmax g) (c_qos2 c) ->
  session_eq (restored g c) c /\ conn_scope_eq (restored g c) (fresh_like g c).
Proof. exact restored_session_equal. Qed.
Print Assumptions C16_restored_session_equal.

(* hence the reconnect has the same outcome — state and events — on the original after its
   transport closed and on the restored object, and so has every continuation (same state) *)
Theorem C16_restored_resumes_like_original_client : forall g c p,
  1 <= g_idmax g -> closed_shape c -> sess_inv g c -> asc 1 (g_idmax g) (c_qos2 c) -> size_ok c p = true ->
  send_connect c p = send_connect (restored g c) p.
Proof. exact restored_resumes_like_original_client. Qed.
Print Assumptions C16_restored_resumes_like_original_client.

Theorem C16_restored_resumes_like_original_server : forall g c v p,
  1 <= g_idmax g -> closed_shape c -> sess_inv g c -> asc 1 (g_idmax g) (c_qos2 c) ->
  recv_connect g c v (PROk p) = recv_connect g (restored g c) v (PROk p).
Proof. exact restored_resumes_like_original_server. Qed.
Print Assumptions C16_restored_resumes_like_original_server.

(* malformed exports never panic: restore is total; QoS 0 entries and entries whose identifier is
   already in use (duplicates) are skipped *)
Theorem C16_restore_total : forall g c l, exists c', step g c (ORestorePackets l) = Ok (c', [], []).
Proof. exact restore_total. Qed.
Print Assumptions C16_restore_total.

Theorem C16_restore_skips_qos0 : forall c p,
  (k_type p =? T_PUBLISH) && (k_qos p =? 0) = true -> restore1 c p = c.
Proof. exact restore_skips_qos0. Qed.
Print Assumptions C16_restore_skips_qos0.

Theorem C16_restore_skips_used : forall g c p,
  WFpid g c -> free_in c (k_pid p) = false -> restore1 c p = c \/ c_store (restore1 c p) = c_store c.
Proof. exact restore_skips_used. Qed.
Print Assumptions C16_restore_skips_used.

(* restore_packets keeps the ownership invariant [OWN] (Conn/Own.v) on ANY object that has it — not only a
   fresh one — for every list whose recorded packets have the connection's version, a QoS the store
   knows and an identifier awaited nowhere ([restore_ok]); and every later call keeps it
   (C08_step_keeps_ownership): the restored identifiers stay in use until their exchange completes. *)
Theorem C16_restore_keeps_ownership : forall g l c,
  OWN g c -> restore_ok c l -> OWN g (do_restore c l) /\ c_version (do_restore c l) = c_version c.
Proof. exact do_restore_own. Qed.
Print Assumptions C16_restore_keeps_ownership.

(* THE EXPORT OF A REACHABLE STATE IS THE SESSION.  sess_inv (the store determines the in-flight sets and the
   identifiers in use — the hypothesis of C16_restored_session_equal) follows from three invariants of EVERY call:
   OWN (a stored packet's identifier is in use and awaited in the set of its kind; C08), SUP (in a persistent
   session every awaited identifier has its packet in the store; Conn/SupStep.v) and ENT (the store holds only
   QoS 1/2 PUBLISH and PUBREL entries), in a state where the application holds no identifier ([no_app_ids]). *)
Theorem C16_invariants_give_session_invariant : forall g c,
  OWN g c -> SUPX c -> ENT c -> no_app_ids c -> sess_inv g c.
Proof. exact own_sup_sess_inv. Qed.
Print Assumptions C16_invariants_give_session_invariant.

(* the three invariants are kept by every call, for a determined version, under the application's side of the
   contract: identifiers handed to send() are held by the application (own_op_ok), and persistence is switched on
   (CONNECT, CONNACK, set_offline_publish(true), restore) only while it is on already or nothing is in flight
   (sup_op_ok) *)
Theorem C16_step_keeps_invariants : forall g c o, K g c -> k_contract c o ->
  match step g c o with Ok (c', _, _) => K g c' | Panic _ => True end.
Proof. exact step_keeps_K. Qed.
Print Assumptions C16_step_keeps_invariants.

(* OVER HISTORIES: in EVERY state of every such history of a freshly constructed object in which the session is
   persistent and the application holds no identifier, the session invariant holds — and the export of that
   state (stored packets, handled ids), restored into a fresh object with the same options, rebuilds a session
   state EQUAL to the original's: same store in the same order, same three in-flight sets, same identifiers in
   use, same handled set.  By C16_restored_resumes_like_original_* the reconnect then has equal state and events
   on both, and so has every continuation. *)
Theorem C16_history_session_invariant : forall g v ops c,
  1 <= g_idmax g -> v <> VUndet -> k_history_ok g (conn_new g v) ops -> run_state g (conn_new g v) ops = Some c ->
  c_need_store c = true -> no_app_ids c -> sess_inv g c.
Proof. exact history_sess_inv. Qed.
Print Assumptions C16_history_session_invariant.

Theorem C16_history_restore_equal : forall g v ops c,
  1 <= g_idmax g -> v <> VUndet -> k_history_ok g (conn_new g v) ops -> run_state g (conn_new g v) ops = Some c ->
  c_need_store c = true -> no_app_ids c -> asc 1 (g_idmax g) (c_qos2 c) ->
  let r := set_qos2 (do_restore (fresh_like g c) (c_store c)) (fold_left (fun s i => ins i s) (c_qos2 c) []) in
  session_eq r c /\ conn_scope_eq r (fresh_like g c).
Proof. exact history_restore_equal. Qed.
Print Assumptions C16_history_restore_equal.

(* ... with the ordering of the handled-identifier set an invariant too (AscQos2: kept by every call when the QoS 2
   identifiers the parser hands in and the identifiers the application restores are within 1..idmax) *)
Theorem C16_history_restore_equal_full : forall g v ops c,
  1 <= g_idmax g -> v <> VUndet -> k_history_ok g (conn_new g v) ops -> ids_history_ok (g_idmax g) ops ->
  run_state g (conn_new g v) ops = Some c -> c_need_store c = true -> no_app_ids c ->
  let r := set_qos2 (do_restore (fresh_like g c) (c_store c)) (fold_left (fun s i => ins i s) (c_qos2 c) []) in
  session_eq r c /\ conn_scope_eq r (fresh_like g c).
Proof. exact history_restore_equal_full. Qed.
Print Assumptions C16_history_restore_equal_full.

Theorem C16_handled_set_stays_ordered : forall M g ops c,
  asc 1 M (c_qos2 c) -> ids_history_ok M ops ->
  match run_state g c ops with Some c' => asc 1 M (c_qos2 c') | None => True end.
Proof. exact asc_qos2_invariant. Qed.
Print Assumptions C16_handled_set_stays_ordered.

(* C16_partial: on the MODEL side what is left is the application contract itself (k_history_ok, identifiers in
   range).  The implementation is judged by the paired-run monitor mon_pair (original implementation object vs restored
   implementation object, events and full digest after the reconnect) and the store stage. *)

Example C16_nonvacuous :
  let g := mkCfg RClient 65535 2 in
  let p1 := mkPkt 3 V311 3 1 true false [116] None 0 0 8 false 0 false 0 None None None None None in
  let p2 := mkPkt 6 V311 5 0 false false [] None 0 0 4 false 0 false 0 None None None None None in
  let c := do_restore (set_need_store (conn_new g V311) true) [p1; p2] in
  c_store c = [p1; p2] /\ c_puback c = [3] /\ c_pubcomp c = [5] /\ a_pool (c_pid c) = [(1, 2); (4, 4); (6, 65535)] /\
  c_store (restored g c) = [p1; p2] /\ a_pool (c_pid (restored g c)) = a_pool (c_pid c).
Proof. vm_compute. repeat split. Qed.

(* the history theorem's premises are satisfiable: a persistent v5.0 session with a QoS 1 and a QoS 2 PUBLISH in
   flight; every identifier in use is awaited (the application holds none) *)
Example C16_history_nonvacuous :
  let g := mkCfg RClient 65535 2 in
  let cn := mkPkt 1 V50 0 0 false false [] None 0 0 20 false 0 false 0 None None None (Some 100) None in
  let ca := mkPkt 2 V50 0 0 false false [] None 0 0 5 true 0 false 0 None None None None None in
  let pb1 := mkPkt 3 V50 1 1 false false [116] None 0 3 10 false 0 false 0 None None None None None in
  let pb2 := mkPkt 3 V50 2 2 false false [116] None 0 0 7 false 0 false 0 None None None None None in
  let ops := [OSend cn; ORecv [32;3;0;0;0] (PROk ca); OAcquire; OSend pb1; OAcquire; OSend pb2] in
  k_history_ok g (conn_new g V50) ops /\
  match run_state g (conn_new g V50) ops with
  | Some c => c_need_store c = true /\ map k_pid (c_store c) = [1; 2] /\ c_puback c = [1] /\ c_pubrec c = [2] /\
              a_pool (c_pid c) = [(3, 65535)]
  | None => False
  end.
Proof. vm_compute. repeat split; try reflexivity; try discriminate; intros; try discriminate; auto. Qed.

(* ... and with a QoS 2 PUBLISH received in between (handled set [7]) the identifiers are in range *)
Example C16_history_full_nonvacuous :
  let g := mkCfg RClient 65535 2 in
  let cn := mkPkt 1 V50 0 0 false false [] None 0 0 20 false 0 false 0 None None None (Some 100) None in
  let ca := mkPkt 2 V50 0 0 false false [] None 0 0 5 true 0 false 0 None None None None None in
  let pb1 := mkPkt 3 V50 1 1 false false [116] None 0 3 10 false 0 false 0 None None None None None in
  let qin := mkPkt 3 V50 7 2 false false [116] None 0 0 8 false 0 false 0 None None None None None in
  let ops := [OSend cn; ORecv [32;3;0;0;0] (PROk ca); OAcquire; OSend pb1; ORecv [52;6;0;1;116;0;7;0] (PROk qin)] in
  k_history_ok g (conn_new g V50) ops /\ ids_history_ok 65535 ops /\
  match run_state g (conn_new g V50) ops with
  | Some c => c_need_store c = true /\ map k_pid (c_store c) = [1] /\ c_qos2 c = [7] /\ c_puback c = [1] /\
              a_pool (c_pid c) = [(2, 65535)]      (* the one identifier in use is awaited: the application holds none *)
  | None => False
  end.
Proof.
  vm_compute. repeat split; try reflexivity; try discriminate; intros; try discriminate; auto;
  repeat match goal with H : _ = false |- _ => try discriminate H end.
Qed.
