(* C16 — Session state exported at any point and restored resumes the session.  Statements only;
   proofs in Conn/Restore.v and Conn/OwnStep.v.  Nothing else may be added to this file. *)
From MQ Require Import Base.Prelude Alloc.Alloc Alloc.AllocProofs Framing.Framing Conn.Types Conn.ConnRecord Conn.Step
                       Corr.ConnTrace Conn.IdsQuota Conn.Scope Conn.Restore Conn.Own Conn.OwnFrame Conn.OwnStep.

(* restore_packets on ANY object whose allocator is well formed, for EVERY export with distinct
   identifiers that are free: the store is extended by exactly the export in its order, each entry's
   identifier becomes in use (and only those), and each entry waits for exactly its acknowledgement *)
Theorem C16_restore_rebuilds : forall g l c,
  WFpid g c -> NoDup (map k_pid l) ->
  (forall p, In p l -> entry_ok p = true /\ free_in c (k_pid p) = true /\ store_has (k_pid p) (c_store c) = false) ->
  let c' := do_restore c l in
  WFpid g c' /\ c_store c' = c_store c ++ l /\
  (forall y, free_in c' y = free_in c y && negb (store_has y l)) /\
  (forall y, mem y (c_puback c') = mem y (c_puback c) || has is_q1 l y) /\
  (forall y, mem y (c_pubrec c') = mem y (c_pubrec c) || has is_q2 l y) /\
  (forall y, mem y (c_pubcomp c') = mem y (c_pubcomp c) || has is_rel l y) /\
  c_qos2 c' = c_qos2 c /\ conn_scope_eq c' c.
Proof. exact restore_rebuilds. Qed.
Print Assumptions C16_restore_rebuilds.

(* a fresh object (same options) given the export of a session satisfying the store invariant has
   a session state EQUAL to the original's: store, in-flight sets, identifiers in use, handled ids *)
Theorem C16_restored_session_equal : forall g c,
  1 <= g_idmax g -> sess_inv g c -> asc 1 (g_idmax g) (c_qos2 c) ->
  session_eq (restored g c) c /\ conn_scope_eq (restored g c) (fresh_like g c).
Proof. exact restored_session_equal. Qed.
Print Assumptions C16_restored_session_equal.

(* hence the reconnect has the same outcome — state and events — on the original after its
   transport closed and on the restored object, and so has every continuation (same state) *)
Theorem C16_restored_resumes_like_original_client : forall g c p,
  1 <= g_idmax g -> closed_shape c -> sess_inv g c -> asc 1 (g_idmax g) (c_qos2 c) -> size_ok c p = true ->
  send_connect c p = send_connect (restored g c) p.
Proof. exact restored_resumes_like_original_client. Qed.
Print Assumptions C16_restored_resumes_like_original_client.

Theorem C16_restored_resumes_like_original_server : forall g c v p,
  1 <= g_idmax g -> closed_shape c -> sess_inv g c -> asc 1 (g_idmax g) (c_qos2 c) ->
  recv_connect g c v (PROk p) = recv_connect g (restored g c) v (PROk p).
Proof. exact restored_resumes_like_original_server. Qed.
Print Assumptions C16_restored_resumes_like_original_server.

(* malformed exports never panic: restore is total; QoS 0 entries and entries whose identifier is
   already in use (duplicates) are skipped *)
Theorem C16_restore_total : forall g c l, exists c', step g c (ORestorePackets l) = Ok (c', [], []).
Proof. exact restore_total. Qed.
Print Assumptions C16_restore_total.

Theorem C16_restore_skips_qos0 : forall c p,
  (k_type p =? T_PUBLISH) && (k_qos p =? 0) = true -> restore1 c p = c.
Proof. exact restore_skips_qos0. Qed.
Print Assumptions C16_restore_skips_qos0.

Theorem C16_restore_skips_used : forall g c p,
  WFpid g c -> free_in c (k_pid p) = false -> restore1 c p = c \/ c_store (restore1 c p) = c_store c.
Proof. exact restore_skips_used. Qed.
Print Assumptions C16_restore_skips_used.

(* restore_packets keeps the ownership invariant [OWN] (Conn/Own.v) on ANY object that has it — not only a
   fresh one — for every list whose recorded packets have the connection's version, a QoS the store
   knows and an identifier awaited nowhere ([restore_ok]); and every later call keeps it
   (C08_step_keeps_ownership): the restored identifiers stay in use until their exchange completes. *)
Theorem C16_restore_keeps_ownership : forall g l c,
  OWN g c -> restore_ok c l -> OWN g (do_restore c l) /\ c_version (do_restore c l) = c_version c.
Proof. exact do_restore_own. Qed.
Print Assumptions C16_restore_keeps_ownership.

(* C16_partial: that the restored object's later behaviour EQUALS the original's is the paired-run
   monitor mon_pair (original implementation object vs restored implementation object, events and full
   digest after the reconnect) together with the restore theorems above, not a single theorem. *)

Example C16_nonvacuous :
  let g := mkCfg RClient 65535 2 in
  let p1 := mkPkt 3 V311 3 1 true false [116] None 0 0 8 false 0 false 0 None None None None None in
  let p2 := mkPkt 6 V311 5 0 false false [] None 0 0 4 false 0 false 0 None None None None None in
  let c := do_restore (set_need_store (conn_new g V311) true) [p1; p2] in
  c_store c = [p1; p2] /\ c_puback c = [3] /\ c_pubcomp c = [5] /\ a_pool (c_pid c) = [(1, 2); (4, 4); (6, 65535)] /\
  c_store (restored g c) = [p1; p2] /\ a_pool (c_pid (restored g c)) = a_pool (c_pid c).
Proof. vm_compute. repeat split. Qed.
