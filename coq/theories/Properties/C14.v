(* C14 — Maximum Packet Size is honoured in both directions.  Statements only; proofs in
   Conn/Session.v and Conn/SizeInv.v.  Nothing else may be added to this file. *)
From MQ Require Import Base.Prelude Framing.Framing Conn.Types Conn.ConnRecord Conn.Step Corr.ConnTrace Conn.Run Conn.Session Conn.SizeInv Conn.Own Conn.PairQos Conn.PairHandshake5 Conn.PairLimits.

(* a v5.0 packet of ANY kind larger than the peer's Maximum Packet Size is never passed to the
   transport, in any state, for every limit and every size *)
Theorem C14_oversize_not_sent : forall g c p,
  k_ver p = V50 -> c_mps_send c < k_size p ->
  match dispatch_send g c p with Ok (_, e) => sends e = [] | Panic _ => True end.
Proof. exact oversize_not_sent. Qed.
Print Assumptions C14_oversize_not_sent.

(* a publish rewritten by automatic topic-alias mapping is checked again: what is handed on fits *)
Theorem C14_rewritten_within_limit : forall (c : conn) (p q : pkt),
  k_size p <= c_mps_send c -> k_size (if k_size q <=? c_mps_send c then q else p) <= c_mps_send c.
Proof. exact rewritten_within_limit. Qed.
Print Assumptions C14_rewritten_within_limit.

(* everything retransmitted from the store on resume fits the limit, for every store and limit ... *)
Theorem C14_send_stored_events_within : forall mps l,
  forallb (fun e => match e with ESend q _ => k_size q <=? mps | _ => true end) (send_stored_events mps l) = true.
Proof. exact send_stored_events_within. Qed.
Print Assumptions C14_send_stored_events_within.

(* ... and what stays stored afterwards fits as well (the rest was dropped) *)
Theorem C14_send_stored_kept : forall mps l,
  forallb (fun q => k_size q <=? mps) (fst (send_stored_l mps l)) = true.
Proof. exact send_stored_l_kept. Qed.
Print Assumptions C14_send_stored_kept.

(* inbound: a frame larger than the locally announced maximum is never delivered; it is reported
   as 'Packet too large', never panics, and the connection is closed or a DISCONNECT path taken *)
Theorem C14_oversize_inbound : forall g c fh body pr,
  c_mps_recv c < remaining_length_to_total_size (N.of_nat (length body)) ->
  match process_recv_packet g c fh body pr with
  | Ok (c', e) => notifies e = [] /\ In (EError E_PACKET_TOO_LARGE) e /\ existsb is_close e = true
                  \/ (status_eqb (c_status c) Connected = true /\ notifies e = [] /\ In (EError E_PACKET_TOO_LARGE) e)
  | Panic _ => False
  end.
Proof. exact oversize_inbound. Qed.
Print Assumptions C14_oversize_inbound.

(* THE statement over all send paths: EVERY call of the API, in every state, for every input — user
   sends of every kind, automatic PUBACK/PUBREC/PUBREL/PUBCOMP/PINGRESP, error DISCONNECTs, the
   PINGREQ of the timer, CONNACK refusals, retransmission of the store, publishes rewritten by alias
   mapping: every v5.0 packet requested for sending fits the Maximum Packet Size in force when the
   call returns ([fits]: ESend p with k_ver p = V50 has k_size p <= limit).  The limit changes only
   when a CONNECT or CONNACK is received — the new limit then governs what that call sends, in
   particular the retransmissions — and when the transport is reported closed (nothing is sent). *)
Theorem C14_step_sends_fit : forall g c o,
  match step g c o with
  | Ok (c', evs, _) => all_fit (c_mps_send c') evs = true
  | Panic _ => True
  end.
Proof. exact step_sends_fit. Qed.
Print Assumptions C14_step_sends_fit.

(* for the calls that do not change the limit the same holds with the limit before the call, e.g. send() *)
Theorem C14_send_fits_current_limit : forall g c p,
  match do_send g c p with
  | Ok (c', e) => c_mps_send c' = c_mps_send c /\ all_fit (c_mps_send c) e = true
  | Panic _ => True
  end.
Proof. exact do_send_SZ. Qed.
Print Assumptions C14_send_fits_current_limit.

(* over histories of any length, from any state *)
Theorem C14_every_history_fits : forall g ops c, history_fits g c ops.
Proof. exact every_history_fits. Qed.
Print Assumptions C14_every_history_fits.

(* THE PAIR (Conn/PairLimits.v): after the v5.0 handshake the two ends agree on every limit — the Maximum Packet Size one side
   enforces on what it sends ([c_mps_send], the subject of the theorems above) is the one the other side announced and checks
   on what it receives ([c_mps_recv]); likewise the Receive Maximum.  So "never requests a packet above the limit" on one
   side means "never receives a packet it would answer with Packet too large" on the other. *)
Theorem C14_limits_agree_after_handshake : forall gA gB A0 B0 cn ca,
  OWN gA A0 -> OWN gB B0 -> c_version A0 = V50 -> c_version B0 = V50 -> c_status A0 = Disconnected -> c_status B0 = Disconnected ->
  role_client_ok gA = true -> role_server_ok gB = true ->
  (* no limit of an earlier connection is left on either object (as after construction or notify_closed) *)
  c_mps_send A0 = c_mps_recv B0 -> c_mps_send B0 = c_mps_recv A0 ->
  k_type cn = T_CONNECT -> k_ver cn = V50 -> k_flag cn = true -> k_tam cn = None -> size_ok A0 cn = true ->
  k_type ca = T_CONNACK -> k_ver ca = V50 -> k_rc ca = 0 -> k_flag ca = false -> k_tam ca = None -> k_rm ca <> Some 0 -> k_mps ca <> Some 0 ->
  k_size ca <= limit_after (k_mps cn) (c_mps_send B0) ->
  exists A1 e1 B1 e2 B2 e3 A2 e4,
    step gA A0 (OSend cn) = Ok (A1, e1, []) /\ deliver gB B0 cn = Ok (B1, e2) /\
    step gB B1 (OSend ca) = Ok (B2, e3, []) /\ deliver gA A1 ca = Ok (A2, e4) /\
    (* what A may send is what B announced and checks on receipt, and vice versa *)
    c_mps_send A2 = c_mps_recv B2 /\ c_mps_send B2 = c_mps_recv A2 /\
    c_send_max A2 = c_recv_max B2 /\ c_send_max B2 = c_recv_max A2.
Proof. exact limits_agree_after_handshake. Qed.
Print Assumptions C14_limits_agree_after_handshake.

Example C14_nonvacuous :
  let g := mkCfg RClient 65535 2 in
  let c := set_mps_send (set_status (conn_new g V50) Connected) 4 in
  let p := mkPkt 3 V50 0 0 false false [116] None 0 0 5 false 0 false 0 None None None None None in
  match dispatch_send g c p with Ok (_, e) => e = [EError E_PACKET_TOO_LARGE] | Panic _ => False end.
Proof. vm_compute. reflexivity. Qed.

(* [fits] is not vacuous: it rejects an oversize v5.0 send and accepts one at the limit *)
Example C14_fits_nonvacuous :
  let p := mkPkt 3 V50 0 0 false false [116] None 0 0 5 false 0 false 0 None None None None None in
  fits 4 (ESend p None) = false /\ fits 5 (ESend p None) = true /\ all_fit 4 [ENotify p; EClose] = true.
Proof. vm_compute. repeat split; reflexivity. Qed.
