(* C18 — v5.0 property placement and multiplicity follow the specification table.  Statements
   only; proofs in Packet/PropsProofs.v and GenChecks/C18.v.  Nothing else may be added. *)
From MQ Require Import Base.Prelude Packet.Prim Packet.Props Packet.PropsProofs Generated.ObservedProps GenChecks.C18.

(* the compiled crate, builder path AND parser path, equals the specification table on every cell
   (14 locations, each on two base packets, x 27 identifiers x {once, twice with equal values, twice with different values}); the table is regenerated on every run *)
Theorem C18_observed_props_are_spec_table :
  forallb prop_cell_ok observed_props = true /\
  list_eqb key3_eqb (map prop_cell_key observed_props) props_domain = true.
Proof. exact observed_props_are_spec_table. Qed.
Print Assumptions C18_observed_props_are_spec_table.

Theorem C18_observed_values_are_spec_rules :
  forallb value_row_ok observed_values = true /\ (48 + 20 + 20 + 7 <=? N.of_nat (length observed_values)) = true.
Proof. exact observed_values_are_spec_rules. Qed.
Print Assumptions C18_observed_values_are_spec_rules.

Theorem C18_no_unknown_property_accepted : observed_unknown_ids_accepted = [].
Proof. exact no_unknown_property_accepted. Qed.
Print Assumptions C18_no_unknown_property_accepted.

(* the rule for property lists of ANY length: a list is placed correctly exactly when every
   property is allowed at that location and every non-repeatable one occurs at most once *)
Theorem C18_placement_iff : forall loc ids,
  placement_ok loc ids = true <->
  (forall id, In id ids -> prop_allowed loc id = true) /\
  (forall id, prop_repeatable loc id = false -> count_id id ids <= 1).
Proof. exact placement_iff. Qed.
Print Assumptions C18_placement_iff.

(* only User Property (everywhere) and Subscription Identifier in PUBLISH may repeat *)
Theorem C18_repeatable_spec : forall loc id,
  prop_repeatable loc id = true <-> id = 38 \/ (id = 11 /\ loc = L_PUBLISH).
Proof. exact repeatable_spec. Qed.
Print Assumptions C18_repeatable_spec.

(* value rules, for every value *)
Theorem C18_receive_maximum_nonzero : forall x, value_ok 33 (VU16 x) = true <-> x < 65536 /\ x <> 0.
Proof. exact receive_maximum_nonzero. Qed.
Print Assumptions C18_receive_maximum_nonzero.
Theorem C18_topic_alias_nonzero : forall x, value_ok 35 (VU16 x) = true <-> x < 65536 /\ x <> 0.
Proof. exact topic_alias_nonzero. Qed.
Print Assumptions C18_topic_alias_nonzero.
Theorem C18_maximum_packet_size_nonzero : forall x, value_ok 39 (VU32 x) = true <-> x < 4294967296 /\ x <> 0.
Proof. exact maximum_packet_size_nonzero. Qed.
Print Assumptions C18_maximum_packet_size_nonzero.
Theorem C18_subscription_identifier_nonzero : forall x, value_ok 11 (VVbi x) = true <-> x <= VBI_MAX /\ x <> 0.
Proof. exact subscription_identifier_nonzero. Qed.
Print Assumptions C18_subscription_identifier_nonzero.
Theorem C18_flag_values : forall id x,
  memn id [1; 23; 25; 36; 37; 40; 41; 42] = true -> (value_ok id (VByte x) = true <-> x <= 1).
Proof. exact flag_values. Qed.
Print Assumptions C18_flag_values.

Example C18_nonvacuous :
  placement_ok L_PUBLISH [11; 11; 38; 38; 35] = true /\ placement_ok L_SUBSCRIBE [11; 11] = false /\
  placement_ok L_CONNECT [35] = false /\ length observed_props = 2268%nat.
Proof. vm_compute. repeat split. Qed.
