(* C12 — Receive Maximum flow control.  Statements only; proofs in Conn/IdsQuota.v.
   Nothing else may be added to this file. *)
From MQ Require Import Base.Prelude Conn.Types Conn.ConnRecord Conn.Step Corr.ConnTrace Conn.IdsQuota.

(* the reported vacancy is M minus the count, saturating at zero: it never wraps or panics, for every
   M and every count *)
Theorem C12_vacancy_exact_saturating : forall c m,
  c_send_max c = Some m -> vacancy c = Some (m - c_send_count c) /\ m - c_send_count c <= m.
Proof. exact vacancy_exact_saturating. Qed.
Print Assumptions C12_vacancy_exact_saturating.

(* inbound: when the peer already has the locally announced maximum of QoS>0 PUBLISH outstanding,
   one more is answered as an error 'Receive Maximum exceeded' (DISCONNECT 0x93 + close when the
   connection is established) and is not delivered — for every state and every M *)
Theorem C12_inbound_over_quota : forall g c p m,
  c_recv_max c = Some m -> (k_qos p =? 0) = false -> m <= N.of_nat (length (c_publish_recv c)) ->
  recv_publish_v5 g c (PROk p) = handle_v5_error c E_RECEIVE_MAXIMUM_EXCEEDED.
Proof. exact inbound_over_quota. Qed.
Print Assumptions C12_inbound_over_quota.

(* ... and an accepted one keeps the outstanding set within the announced maximum *)
Theorem C12_note_inbound_quota : forall c p m,
  N.of_nat (length (c_publish_recv c)) < m \/ (k_qos p =? 0) = true ->
  N.of_nat (length (c_publish_recv c)) <= m ->
  N.of_nat (length (c_publish_recv (note_inbound c p))) <= m.
Proof. exact note_inbound_quota. Qed.
Print Assumptions C12_note_inbound_quota.

(* a refusal at the limit passes nothing to the transport and leaves the count untouched *)
Theorem C12_refuse_publish_is_quiet : forall c id err pre c' e,
  refuse_publish c id err pre = Ok (c', e) ->
  sends e = sends pre /\ In (EError err) e /\ c_send_count c' = c_send_count c /\ c_send_max c' = c_send_max c.
Proof. exact refuse_publish_is_quiet. Qed.
Print Assumptions C12_refuse_publish_is_quiet.

(* C12_partial: the invariant "publish_send_count = number of incomplete outbound QoS>0 exchanges of
   this connection, including retransmitted stored ones" over all histories is checked by the monitor
   mon_c12 (ghost multiset of open exchanges built from operations and events) against the
   implementation's counter and vacancy, and by the projection correspondence; it is not yet a
   theorem.  Known finding F-12b (known_findings.json) is the one reproducible exception. *)

Example C12_nonvacuous :
  let g := mkCfg RServer 65535 2 in
  let c := set_publish_recv (set_recv_max (set_status (conn_new g V50) Connected) (Some 1)) [7] in
  let p := mkPkt 3 V50 8 1 false false [116] None 0 0 8 false 0 false 0 None None None None None in
  match recv_publish_v5 g c (PROk p) with
  | Ok (_, e) => e = [ESend (disconnect_v5 147) None; EClose; EError E_RECEIVE_MAXIMUM_EXCEEDED]
  | Panic _ => False
  end.
Proof. vm_compute. reflexivity. Qed.
